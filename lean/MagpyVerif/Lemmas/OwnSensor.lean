/-
Lemmas/OwnSensor.lean — C03's covariance per path index, and its combination with the rigid-compound
statement of C10: what a sensor reads at one path index depends only on the poses of the sources relative to
the sensor at that index.
-/
import MagpyVerif.Lemmas.Level2Compose
import MagpyVerif.Lemmas.History
namespace MagpyVerif.Level2
open MagpyVerif
variable {G V : Type}
variable [Group G] [AddCommGroup V] [DistribMulAction G V]

/-- pose of path `(ps, qs)` at index `i` is the rigid-motion image `(Q, t)` of the pose of `(ps₀, qs₀)` at index `j`
(both read with the "stay at the last pose" rule of `getBH_level2`) -/
def MovedAt (Q : G) (t : V) (ps' : List V) (qs' : List G) (i : Nat) (ps : List V) (qs : List G) (j : Nat) : Prop :=
  clampGet ps' i = (clampGet ps j).map (fun p => Q • p + t) ∧ clampGet qs' i = (clampGet qs j).map (Q * ·)

/-- C03's kernel, per path index: same algebra as `level1_covariant`, with the indices free -/
theorem level1_covariant_at (Q : G) (t : V) (s s' : Src G V) (i j : Nat) (hF : s'.F = s.F)
    (h : MovedAt Q t s'.pos s'.ori i s.pos s.ori j) (x : V) :
    level1 s' i (Q • x + t) = Q • level1 s j x := by
  unfold level1
  rw [h.1, h.2, hF]
  cases clampGet s.ori j with
  | none => simp
  | some r =>
    cases clampGet s.pos j with
    | none => simp
    | some p =>
      simp only [Option.map_some]
      have : Q • x + t - (Q • p + t) = Q • (x - p) := by rw [smul_sub]; abel
      rw [this, mul_inv_rev, mul_smul, mul_smul, inv_smul_smul]

theorem sensT_at (flipX : V → V) (Q : G) (k k' : Sens G V) (i j : Nat) (hl : k'.left = k.left)
    (h : clampGet k'.ori i = (clampGet k.ori j).map (Q * ·)) (r : G) (hr : clampGet k.ori j = some r) (v : V) :
    sensT flipX k' i (Q • v) = sensT flipX k j v := by
  unfold sensT
  rw [h, hr, hl]
  simp only [Option.map_some, mul_inv_rev, mul_smul, inv_smul_smul]

theorem pixPos_at (Q : G) (t : V) (k k' : Sens G V) (i j : Nat) (hp : k'.pixels = k.pixels)
    (h : MovedAt Q t k'.pos k'.ori i k.pos k.ori j) :
    pixPos k' i = (pixPos k j).map (fun x => Q • x + t) := by
  unfold pixPos
  rw [h.1, h.2, hp]
  cases clampGet k.ori j with
  | none => simp
  | some r =>
    cases clampGet k.pos j with
    | none => simp
    | some p =>
      simp only [Option.map_some, List.map_map]
      apply List.map_congr_left
      intro px _
      simp only [Function.comp_apply, smul_add, mul_smul]
      abel

/-- what sensor `k` reads from entry `e` at path index `m`, one value per pixel: the `[m][k]` row of the tensor
`getBH_level2` computes (`tensor_eq_spec`) -/
def reading (flipX : V → V) (e : Entry G V) (k : Sens G V) (m : Nat) : List V :=
  (pixPos k m).map (specValue flipX e k m)

theorem sum_level1_at (Q : G) (t : V) (i j : Nat) (x : V) : ∀ (ls ls' : List (Src G V)),
    List.Forall₂ (fun s s' => s'.F = s.F ∧ MovedAt Q t s'.pos s'.ori i s.pos s.ori j) ls ls' →
    (ls'.map fun s => level1 s i (Q • x + t)).sum = Q • (ls.map fun s => level1 s j x).sum := by
  intro ls ls' h
  induction h with
  | nil => simp
  | cons hab _ ih =>
    simp only [List.map_cons, List.sum_cons, smul_add, ih]
    rw [level1_covariant_at Q t _ _ i j hab.1 hab.2 x]

/-- **C03 per path index**: if at index `i` every leaf source of `e'` and the sensor `k'` sit at the image, under ONE
rigid motion `(Q, t)`, of where the leaves of `e` and the sensor `k` sit at index `j`, the sensor reads the same -/
theorem reading_invariant_of_common_motion (flipX : V → V) (Q : G) (t : V) (e e' : Entry G V) (k k' : Sens G V)
    (i j : Nat) (hk : k.ori ≠ []) (hp : k'.pixels = k.pixels) (hl : k'.left = k.left)
    (hsens : MovedAt Q t k'.pos k'.ori i k.pos k.ori j)
    (hsrc : List.Forall₂ (fun s s' => s'.F = s.F ∧ MovedAt Q t s'.pos s'.ori i s.pos s.ori j) e.leaves e'.leaves) :
    reading flipX e' k' i = reading flipX e k j := by
  unfold reading
  rw [pixPos_at Q t k k' i j hp hsens, List.map_map]
  apply List.map_congr_left
  intro x _
  simp only [Function.comp_apply, specValue]
  rw [sum_level1_at Q t i j x e.leaves e'.leaves hsrc]
  obtain ⟨r, hr⟩ := clampGet_isSome k.ori hk j
  exact sensT_at flipX Q k k' i j hl hsens.2 r hr _

/-- two objects that show, at indices `i` resp. `j`, the same pose relative to their collection frames `c'` resp. `c`
are images of each other under the rigid motion that maps frame pose `c[j]` to `c'[i]` -/
theorem movedAt_of_relAt_eq (c c' d d' : Obj G V) (i j : Nat)
    (pc pc' : V) (qc qc' : G) (hpc : c.pos[j]? = some pc) (hqc : c.ori[j]? = some qc)
    (hpc' : c'.pos[i]? = some pc') (hqc' : c'.ori[i]? = some qc')
    (hi : i < d'.pos.length ∧ i < d'.ori.length) (hj : j < d.pos.length ∧ j < d.ori.length)
    (h : relAt c' d' i = relAt c d j) :
    MovedAt (qc' * qc⁻¹) (pc' - (qc' * qc⁻¹) • pc) d'.pos d'.ori i d.pos d.ori j := by
  have e1 : clampGet d'.pos i = d'.pos[i]? := by unfold clampGet; congr 1; omega
  have e2 : clampGet d'.ori i = d'.ori[i]? := by unfold clampGet; congr 1; omega
  have e3 : clampGet d.pos j = d.pos[j]? := by unfold clampGet; congr 1; omega
  have e4 : clampGet d.ori j = d.ori[j]? := by unfold clampGet; congr 1; omega
  unfold MovedAt
  rw [e1, e2, e3, e4]
  unfold relAt at h
  rw [hpc, hqc, hpc', hqc', List.getElem?_eq_getElem hi.1, List.getElem?_eq_getElem hi.2,
    List.getElem?_eq_getElem hj.1, List.getElem?_eq_getElem hj.2] at h
  simp only [Option.some.injEq, Prod.mk.injEq] at h
  obtain ⟨h1, h2⟩ := h
  rw [List.getElem?_eq_getElem hi.1, List.getElem?_eq_getElem hi.2,
    List.getElem?_eq_getElem hj.1, List.getElem?_eq_getElem hj.2]
  simp only [Option.map_some, Option.some.injEq]
  constructor
  · have : d'.pos[i] - pc' = qc' • qc⁻¹ • (d.pos[j] - pc) := by rw [← h1, smul_inv_smul]
    rw [smul_sub, smul_sub] at this
    rw [mul_smul, mul_smul]
    have h3 : d'.pos[i] = (d'.pos[i] - pc') + pc' := by abel
    rw [h3, this]; abel
  · have : d'.ori[i] = qc' * (qc⁻¹ * d.ori[j]) := by rw [← h2, mul_inv_cancel_left]
    rw [this, mul_assoc]

/-- source objects of a collection with their field functions, as one (collection) source entry -/
def entryOf (srcs : List (Obj G V × (V → V))) : Entry G V :=
  .coll (srcs.map fun a => .leaf ⟨a.1.pos, a.1.ori, a.2⟩)

/-- a sensor object with its pixel data -/
def sensOf (k : Obj G V) (pixels : List V) (pixShape : List Nat) (left : Bool) : Sens G V :=
  ⟨k.pos, k.ori, pixels, pixShape, left⟩

omit [Group G] [AddCommGroup V] [DistribMulAction G V] in
theorem leaves_entryOf (srcs : List (Obj G V × (V → V))) :
    (entryOf srcs).leaves = srcs.map fun a => ⟨a.1.pos, a.1.ori, a.2⟩ := by
  unfold entryOf
  simp only [Entry.leaves, List.map_map]
  induction srcs with
  | nil => rfl
  | cons a l ih => simp only [List.map_cons, List.flatten_cons, Function.comp_apply, Entry.leaves, ih]; rfl

/-- **own-sensor invariance, general form**: sources and sensor are objects below collection frames `c` (before) and `c'`
(after); if at index `i` after / `j` before every one of them shows the same pose RELATIVE TO THE COLLECTION FRAME — what
the rigid-compound theorems of this file deliver for every collection operation — the sensor reads the same values -/
theorem reading_eq_of_relAt_eq (flipX : V → V) (c c' : Obj G V) (N N' : Nat) (i j : Nat) (hi : i < N') (hj : j < N)
    (hc : c.pos.length = N ∧ c.ori.length = N) (hc' : c'.pos.length = N' ∧ c'.ori.length = N')
    (srcs srcs' : List (Obj G V × (V → V))) (ks ks' : Obj G V) (pixels : List V) (pixShape : List Nat) (left : Bool)
    (hks : ks.pos.length = N ∧ ks.ori.length = N) (hks' : ks'.pos.length = N' ∧ ks'.ori.length = N')
    (hsrc : List.Forall₂ (fun a b => b.2 = a.2 ∧ (a.1.pos.length = N ∧ a.1.ori.length = N) ∧
      (b.1.pos.length = N' ∧ b.1.ori.length = N') ∧ relAt c' b.1 i = relAt c a.1 j) srcs srcs')
    (hk : relAt c' ks' i = relAt c ks j) :
    reading flipX (entryOf srcs') (sensOf ks' pixels pixShape left) i =
      reading flipX (entryOf srcs) (sensOf ks pixels pixShape left) j := by
  have hpc : c.pos[j]? = some c.pos[j] := List.getElem?_eq_getElem (by omega)
  have hqc : c.ori[j]? = some c.ori[j] := List.getElem?_eq_getElem (by omega)
  have hpc' : c'.pos[i]? = some c'.pos[i] := List.getElem?_eq_getElem (by omega)
  have hqc' : c'.ori[i]? = some c'.ori[i] := List.getElem?_eq_getElem (by omega)
  apply reading_invariant_of_common_motion flipX (c'.ori[i] * (c.ori[j])⁻¹)
    (c'.pos[i] - (c'.ori[i] * (c.ori[j])⁻¹) • c.pos[j])
  · show ks.ori ≠ []
    intro e; rw [e] at hks; simp at hks; omega
  · rfl
  · rfl
  · exact movedAt_of_relAt_eq c c' ks ks' i j _ _ _ _ hpc hqc hpc' hqc' (by omega) (by omega) hk
  · rw [leaves_entryOf, leaves_entryOf]
    induction hsrc with
    | nil => exact .nil
    | cons hab _ ih =>
      refine .cons ⟨hab.1, ?_⟩ ih
      exact movedAt_of_relAt_eq c c' _ _ i j _ _ _ _ hpc hqc hpc' hqc' (by have := hab.2.2.1; omega)
        (by have := hab.2.1; omega) hab.2.2.2

end MagpyVerif.Level2
