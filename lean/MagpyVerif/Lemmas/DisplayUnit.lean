/-
Lemmas/DisplayUnit.lean — the unit chosen by `units_length="auto"` (Model/DisplayIdx.lean `autoDigits`, `autoUnit`)
at the real carrier: `int(log10(x))` is the truncation towards zero of the decimal logarithm.
-/
import Mathlib.Analysis.SpecialFunctions.Log.Base
import Mathlib.Analysis.SpecialFunctions.Pow.Real
import Mathlib.Tactic
import MagpyVerif.Lemmas.KernReal
import MagpyVerif.Model.DisplayIdx
namespace MagpyVerif.Display
open MagpyVerif.Kern

/-- `int(log10(x))` for positive real `x`: floor of the logarithm for `x ≥ 1`, ceiling (truncation towards zero of a
negative number) for `x < 1` -/
noncomputable instance : TruncLog10 ℝ :=
  ⟨fun x => if 1 ≤ x then ⌊Real.logb 10 x⌋ else ⌈Real.logb 10 x⌉⟩

theorem ten_zpow_eq_rpow (t : Int) : (10 : ℝ) ^ t = (10 : ℝ) ^ (t : ℝ) := (Real.rpow_intCast 10 t).symm

theorem floor_logb_bounds {x : ℝ} (hx : 0 < x) :
    (10 : ℝ) ^ ⌊Real.logb 10 x⌋ ≤ x ∧ x < (10 : ℝ) ^ (⌊Real.logb 10 x⌋ + 1) := by
  have hx' : (10 : ℝ) ^ (Real.logb 10 x) = x := Real.rpow_logb (by norm_num) (by norm_num) hx
  constructor
  · rw [ten_zpow_eq_rpow]
    calc (10 : ℝ) ^ ((⌊Real.logb 10 x⌋ : Int) : ℝ) ≤ (10 : ℝ) ^ (Real.logb 10 x) :=
          Real.rpow_le_rpow_of_exponent_le (by norm_num) (Int.floor_le _)
      _ = x := hx'
  · rw [ten_zpow_eq_rpow]
    calc x = (10 : ℝ) ^ (Real.logb 10 x) := hx'.symm
      _ < (10 : ℝ) ^ (((⌊Real.logb 10 x⌋ + 1 : Int)) : ℝ) := by
          apply Real.rpow_lt_rpow_of_exponent_lt (by norm_num)
          push_cast
          exact Int.lt_floor_add_one _

theorem ceil_logb_bounds {x : ℝ} (hx : 0 < x) :
    (10 : ℝ) ^ (⌈Real.logb 10 x⌉ - 1) < x ∧ x ≤ (10 : ℝ) ^ ⌈Real.logb 10 x⌉ := by
  have hx' : (10 : ℝ) ^ (Real.logb 10 x) = x := Real.rpow_logb (by norm_num) (by norm_num) hx
  constructor
  · rw [ten_zpow_eq_rpow]
    calc (10 : ℝ) ^ (((⌈Real.logb 10 x⌉ - 1 : Int)) : ℝ) < (10 : ℝ) ^ (Real.logb 10 x) := by
          apply Real.rpow_lt_rpow_of_exponent_lt (by norm_num)
          push_cast
          linarith [Int.ceil_lt_add_one (Real.logb 10 x)]
      _ = x := hx'
  · rw [ten_zpow_eq_rpow]
    calc x = (10 : ℝ) ^ (Real.logb 10 x) := hx'.symm
      _ ≤ (10 : ℝ) ^ ((⌈Real.logb 10 x⌉ : Int) : ℝ) :=
          Real.rpow_le_rpow_of_exponent_le (by norm_num) (Int.le_ceil _)

theorem autoDigits_real {x : ℝ} (hx : 0 < x) :
    autoDigits x = (if 1 ≤ x then ⌊Real.logb 10 x⌋ else ⌈Real.logb 10 x⌉) / 3 * 3 := by
  unfold autoDigits
  simp only [eq0_real, abs_real, abs_of_pos hx, TruncLog10.truncLog10]
  rw [if_neg (by simpa using hx.ne')]

/-- floor division: `d = t // 3 * 3` satisfies `d ≤ t < d + 3` and `3 ∣ d` -/
theorem floor3 (t : Int) : t / 3 * 3 ≤ t ∧ t < t / 3 * 3 + 3 := by omega

/-- `x ≥ 1`: the chosen power `d` satisfies `10^d ≤ x < 10^(d+3)` -/
theorem autoDigits_bounds_ge_one {x : ℝ} (hx : 1 ≤ x) :
    (10 : ℝ) ^ autoDigits x ≤ x ∧ x < (10 : ℝ) ^ (autoDigits x + 3) ∧ 0 ≤ autoDigits x := by
  have hpos : 0 < x := by linarith
  obtain ⟨h1, h2⟩ := floor_logb_bounds hpos
  rw [autoDigits_real hpos, if_pos hx]
  obtain ⟨f1, f2⟩ := floor3 ⌊Real.logb 10 x⌋
  have hL : 0 ≤ ⌊Real.logb 10 x⌋ := Int.floor_nonneg.2 (Real.logb_nonneg (by norm_num) hx)
  refine ⟨le_trans (zpow_le_zpow_right₀ (by norm_num) f1) h1,
    lt_of_lt_of_le h2 (zpow_le_zpow_right₀ (by norm_num) (by omega)), by omega⟩

/-- `0 < x < 1`: the chosen power `d` satisfies `10^(d-1) < x ≤ 10^(d+2)` — the displayed number `x / 10^d` lies in
`(1/10, 100]`, not in `[1, 1000)`: `int()` truncates the negative logarithm TOWARDS ZERO before the floor division -/
theorem autoDigits_bounds_lt_one {x : ℝ} (hx : 0 < x) (hx1 : x < 1) :
    (10 : ℝ) ^ (autoDigits x - 1) < x ∧ x ≤ (10 : ℝ) ^ (autoDigits x + 2) ∧ autoDigits x ≤ 0 := by
  obtain ⟨h1, h2⟩ := ceil_logb_bounds hx
  rw [autoDigits_real hx, if_neg (by linarith)]
  obtain ⟨f1, f2⟩ := floor3 ⌈Real.logb 10 x⌉
  have hL : ⌈Real.logb 10 x⌉ ≤ 0 := Int.ceil_le.2 (by
    have := Real.logb_neg (b := 10) (by norm_num) hx hx1
    push_cast; linarith)
  refine ⟨lt_of_le_of_lt (zpow_le_zpow_right₀ (by norm_num) (by omega)) h1,
    le_trans h2 (zpow_le_zpow_right₀ (by norm_num) (by omega)), by omega⟩

end MagpyVerif.Display
