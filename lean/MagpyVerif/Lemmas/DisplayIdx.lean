/-
Lemmas/DisplayIdx.lean — helper lemmas about Model/DisplayIdx.lean (C19): the triangulations of `make_Ellipsoid` and
`make_CylinderSegment` in closed form and their closedness for every size, `merge_mesh3d` / `merge_scatter3d`.
-/
import Mathlib.Tactic
import MagpyVerif.Model.DisplayIdx
import MagpyVerif.Lemmas.Display
namespace MagpyVerif.Display
open MagpyVerif.Mesh

/-! ### generalities -/

theorem sortPair_lt {a b : Nat} (h : a < b) : sortPair a b = (a, b) := by
  unfold sortPair; simp [Nat.le_of_lt h]

theorem sortPair_gt {a b : Nat} (h : b < a) : sortPair a b = (b, a) := by
  unfold sortPair; simp [Nat.not_le.2 h]

theorem zip3_flatMap (l : List Nat) (f g h : Nat → List Nat) (h1 : ∀ i, (f i).length = (g i).length)
    (h2 : ∀ i, (g i).length = (h i).length) :
    zip3 (l.flatMap f) (l.flatMap g) (l.flatMap h) = l.flatMap (fun i => zip3 (f i) (g i) (h i)) := by
  induction l with
  | nil => rfl
  | cons a as ih =>
    simp only [List.flatMap_cons]
    rw [zip3_append (h1 a) (h2 a), ih]

/-- counting in a doubly indexed family -/
def cnt2 (e : Edge) (F : Nat → Nat → Edge) (M N : Nat) : Nat :=
  ((List.range M).flatMap fun i => (List.range N).map (F i)).count e

theorem cnt2_succ_last (e : Edge) (F : Nat → Nat → Edge) (M N : Nat) :
    cnt2 e F (M + 1) N = cnt2 e F M N + ((List.range N).map (F M)).count e := by
  unfold cnt2
  rw [List.range_succ, List.flatMap_append, List.count_append]
  simp

theorem cnt2_succ_first (e : Edge) (F : Nat → Nat → Edge) (M N : Nat) :
    cnt2 e F (M + 1) N = ((List.range N).map (F 0)).count e + cnt2 e (fun i => F (i + 1)) M N := by
  unfold cnt2
  rw [List.range_succ_eq_map, List.flatMap_cons, List.count_append, List.flatMap_map]

theorem cnt2_congr (e : Edge) (F G : Nat → Nat → Edge) (M N : Nat)
    (h : ∀ i < M, ((List.range N).map (F i)).count e = ((List.range N).map (G i)).count e) :
    cnt2 e F M N = cnt2 e G M N := by
  induction M with
  | zero => rfl
  | succ M ih =>
    rw [cnt2_succ_last, cnt2_succ_last, ih (fun i hi => h i (by omega)), h M (by omega)]

theorem cnt2_comp_succMod (e : Edge) (F : Nat → Nat → Edge) (M N : Nat) :
    cnt2 e (fun i q => F i (succMod N q)) M N = cnt2 e F M N :=
  cnt2_congr e _ _ M N (fun i _ => count_map_comp_succMod N (F i) e)

theorem count_map_flatMap (e : Edge) (p : Face → Edge) (F : Nat → Nat → Face) (M N : Nat) :
    (((List.range M).flatMap fun i => (List.range N).map (F i)).map p).count e = cnt2 e (fun i q => p (F i q)) M N := by
  unfold cnt2
  rw [List.map_flatMap]
  simp only [List.map_map, Function.comp_def]

/-! ### `make_Ellipsoid` -/

/-- 1-based position in a latitude ring of the point the code addresses through `j1`: `j1 = [N, 1, …, N-1]` -/
def ringJ (N q : Nat) : Nat := if q = 0 then N else q

theorem ringJ_succMod {N q : Nat} (hq : q < N) : ringJ N (succMod N q) = q + 1 := by
  rcases succMod_cases hq with ⟨h1, h2⟩ | ⟨h1, h2⟩ <;> rw [h2] <;> unfold ringJ <;> simp <;> omega

theorem ringJ_pos {N q : Nat} (hq : q < N) : 1 ≤ ringJ N q ∧ ringJ N q ≤ N := by
  unfold ringJ; split <;> omega

theorem j1_eq {N : Nat} (hN : 1 ≤ N) : N :: List.range' 1 (N - 1) = (List.range N).map (ringJ N) := by
  apply List.ext_getElem
  · simp; omega
  · intro i h1 h2
    cases i with
    | zero => simp [ringJ]
    | succ i => simp [ringJ, List.getElem_range']; omega

theorem k1_eq {N : Nat} (hN : 1 ≤ N) :
    List.range' 1 (N - 1) ++ [N] = (List.range N).map (fun q => ringJ N (succMod N q)) := by
  apply List.ext_getElem
  · simp; omega
  · intro i h1 h2
    simp only [List.length_map, List.length_range] at h2
    rw [List.getElem_map, List.getElem_range, ringJ_succMod h2]
    by_cases hi : i < N - 1
    · rw [List.getElem_append_left (by simpa using hi), List.getElem_range']; omega
    · rw [List.getElem_append_right (by simp; omega)]
      simp; omega

/-- the north pole's row `N2 = len(x) - 1 = 1 + (N-2) N` -/
theorem ellipsoid_N2 {N : Nat} (hN : 4 ≤ N) : ellipsoidVertCount N - 1 = 1 + (N - 2) * N := by
  obtain ⟨M, rfl⟩ : ∃ M, N = M + 3 := ⟨N - 3, by omega⟩
  unfold ellipsoidVertCount
  have : (M + 3) * (M + 3) = 1 + (M + 3 - 2) * (M + 3) + 1 + (M + 3 - 1) + (M + 3 - 1) := by
    have h1 : M + 3 - 2 = M + 1 := by omega
    have h2 : M + 3 - 1 = M + 2 := by omega
    rw [h1, h2]; ring
  rw [if_neg (by omega)]
  omega

/-- the triangles of `make_Ellipsoid(vert=N)`; `a + r * N` is the point at 1-based position `a` of latitude ring `r`,
`s q = q+1 mod N`: south fan, the two triangles of every quad of every band, north fan -/
def ellSpec (N : Nat) : List Face :=
  (List.range N).map (fun q => (0, ringJ N q + 0 * N, ringJ N (succMod N q) + 0 * N)) ++
  (List.range (N - 3)).flatMap (fun i => (List.range N).map fun q =>
    (ringJ N (succMod N q) + i * N, ringJ N q + i * N, ringJ N q + (i + 1) * N)) ++
  (List.range (N - 3)).flatMap (fun i => (List.range N).map fun q =>
    (ringJ N (succMod N q) + i * N, ringJ N q + (i + 1) * N, ringJ N (succMod N q) + (i + 1) * N)) ++
  (List.range N).map (fun q => (1 + (N - 2) * N, ringJ N (succMod N q) + (N - 3) * N, ringJ N q + (N - 3) * N))

theorem ellipsoidTriangles_eq {N : Nat} (hN : 4 ≤ N) : ellipsoidTriangles N = .ok (ellSpec N) := by
  have hN2 := ellipsoid_N2 hN
  have h32 : (N - 2) * N = (N - 3) * N + N := by
    have : N - 2 = (N - 3) + 1 := by omega
    rw [this, Nat.succ_mul]
  unfold ellipsoidTriangles ellipsoidIJK
  rw [if_neg (by omega)]
  simp only [j1_eq (show 1 ≤ N by omega), k1_eq (show 1 ≤ N by omega), hN2]
  have hrep : ∀ v : Nat, List.replicate N v = (List.range N).map (fun _ => v) := by
    intro v; apply List.ext_getElem <;> simp
  rw [hrep, hrep]
  rw [zip3_append (by simp) (by simp), zip3_append (by simp) (by simp), zip3_append (by simp) (by simp)]
  rw [zip3_flatMap _ _ _ _ (by simp) (by simp), zip3_flatMap _ _ _ _ (by simp) (by simp)]
  simp only [List.map_map, zip3_map, Function.comp_def]
  unfold ellSpec
  congr 2
  · simp
  · apply List.map_congr_left
    intro q _
    simp only [Prod.mk.injEq, true_and]
    constructor <;> omega

/-! #### the ellipsoid mesh is closed for every `N ≥ 4` -/

/-- the five edge families: south spokes, north spokes, ring edges (ring `r < N-2`), meridian edges and quad
diagonals (band `i < N-3`) -/
def ellS (N q : Nat) : Edge := sortPair 0 (ringJ N q + 0 * N)
def ellT (N q : Nat) : Edge := sortPair (1 + (N - 2) * N) (ringJ N q + (N - 3) * N)
def ellR (N r q : Nat) : Edge := sortPair (ringJ N q + r * N) (ringJ N (succMod N q) + r * N)
def ellV (N i q : Nat) : Edge := sortPair (ringJ N q + i * N) (ringJ N q + (i + 1) * N)
def ellD (N i q : Nat) : Edge := sortPair (ringJ N (succMod N q) + i * N) (ringJ N q + (i + 1) * N)

def ellEdges (N : Nat) : List Edge :=
  (List.range N).map (ellS N) ++ (List.range N).map (ellT N) ++
  ((List.range (N - 3 + 1)).flatMap fun r => (List.range N).map (ellR N r)) ++
  ((List.range (N - 3)).flatMap fun i => (List.range N).map (ellV N i)) ++
  ((List.range (N - 3)).flatMap fun i => (List.range N).map (ellD N i))

theorem edgesOf_ellSpec_count (N : Nat) (e : Edge) :
    (edgesOf (ellSpec N)).count e = 2 * (ellEdges N).count e := by
  have cS := count_map_comp_succMod N (ellS N) e
  have cT := count_map_comp_succMod N (ellT N) e
  have cV := cnt2_comp_succMod e (ellV N) (N - 3) N
  have rl := cnt2_succ_last e (ellR N) (N - 3) N
  have rf := cnt2_succ_first e (ellR N) (N - 3) N
  have eS : (fun q => sortPair 0 (ringJ N q + 0 * N)) = ellS N := rfl
  have eS' : (fun q => sortPair 0 (ringJ N (succMod N q) + 0 * N)) = fun q => ellS N (succMod N q) := rfl
  have eT : (fun q => sortPair (1 + (N - 2) * N) (ringJ N q + (N - 3) * N)) = ellT N := rfl
  have eT' : (fun q => sortPair (1 + (N - 2) * N) (ringJ N (succMod N q) + (N - 3) * N)) =
      fun q => ellT N (succMod N q) := rfl
  have eR0 : (fun q => sortPair (ringJ N q + 0 * N) (ringJ N (succMod N q) + 0 * N)) = ellR N 0 := rfl
  have eRl : (fun q => sortPair (ringJ N (succMod N q) + (N - 3) * N) (ringJ N q + (N - 3) * N)) = ellR N (N - 3) := by
    funext q; exact sortPair_comm' _ _
  have eRA : (fun i q => sortPair (ringJ N (succMod N q) + i * N) (ringJ N q + i * N)) = ellR N := by
    funext i q; exact sortPair_comm' _ _
  have eRB : (fun i q => sortPair (ringJ N q + (i + 1) * N) (ringJ N (succMod N q) + (i + 1) * N)) =
      fun i => ellR N (i + 1) := rfl
  have eV : (fun i q => sortPair (ringJ N q + i * N) (ringJ N q + (i + 1) * N)) = ellV N := rfl
  have eV' : (fun i q => sortPair (ringJ N (succMod N q) + i * N) (ringJ N (succMod N q) + (i + 1) * N)) =
      fun i q => ellV N i (succMod N q) := rfl
  have eD : (fun i q => sortPair (ringJ N (succMod N q) + i * N) (ringJ N q + (i + 1) * N)) = ellD N := rfl
  simp only [edgesOf, ellSpec, ellEdges, List.map_append, List.count_append, count_map_flatMap, List.map_map,
    Function.comp_def]
  simp only [eS, eS', eT, eT', eR0, eRl, eRA, eRB, eV, eV', eD]
  unfold cnt2 at *
  omega

/-- (ring, 1-based position) of a ring point `a + r N` -/
def dec (N v : Nat) : Nat × Nat := ((v - 1) / N, (v - 1) % N + 1)

theorem dec_pt {N a : Nat} (r : Nat) (h1 : 1 ≤ a) (h2 : a ≤ N) : dec N (a + r * N) = (r, a) := by
  have hN : 0 < N := by omega
  have e : a + r * N - 1 = (a - 1) + r * N := by omega
  unfold dec
  rw [e, Nat.add_mul_div_right _ _ hN, Nat.add_mul_mod_self_right, Nat.div_eq_of_lt (by omega),
    Nat.mod_eq_of_lt (by omega)]
  simp; omega

def ringJinv (N a : Nat) : Nat := if a = N then 0 else a

theorem ringJinv_ringJ {N q : Nat} (hq : q < N) : ringJinv N (ringJ N q) = q := by
  unfold ringJinv ringJ
  split_ifs <;> omega

/-- recovers (family, ring / band, q) from an edge -/
def ellKey (N : Nat) (e : Edge) : Nat × Nat × Nat :=
  let d1 := dec N e.1
  let d2 := dec N e.2
  if e.1 = 0 then (0, 0, ringJinv N d2.2)
  else if d2.1 = N - 2 then (1, 0, ringJinv N d1.2)
  else if d1.1 = d2.1 then (2, d1.1, if d2.2 = d1.2 + 1 then d1.2 else 0)
  else if d1.2 = d2.2 then (3, d1.1, ringJinv N d1.2)
  else (4, d1.1, ringJinv N d2.2)

theorem ellKey_S {N q : Nat} (hq : q < N) : ellKey N (ellS N q) = (0, 0, q) := by
  obtain ⟨h1, h2⟩ := ringJ_pos hq
  unfold ellS
  rw [sortPair_lt (by omega)]
  unfold ellKey
  simp only [if_true, dec_pt 0 h1 h2, ringJinv_ringJ hq]

theorem ellKey_T {N q : Nat} (hN : 4 ≤ N) (hq : q < N) : ellKey N (ellT N q) = (1, 0, q) := by
  obtain ⟨h1, h2⟩ := ringJ_pos hq
  have h32 : (N - 2) * N = (N - 3) * N + N := by
    have : N - 2 = (N - 3) + 1 := by omega
    rw [this, Nat.succ_mul]
  unfold ellT
  rw [sortPair_gt (by omega)]
  unfold ellKey
  simp only [dec_pt (N - 3) h1 h2, dec_pt (N - 2) (le_refl 1) (show 1 ≤ N by omega), ringJinv_ringJ hq]
  rw [if_neg (by omega)]
  simp

theorem ellKey_R {N r q : Nat} (hN : 4 ≤ N) (hr : r ≤ N - 3) (hq : q < N) : ellKey N (ellR N r q) = (2, r, q) := by
  unfold ellR
  rcases succMod_cases hq with ⟨hs1, hs2⟩ | ⟨hs1, hs2⟩
  · rw [hs2]
    by_cases h0 : q = 0
    · subst h0
      have e1 : ringJ N 0 = N := by simp [ringJ]
      have e2 : ringJ N (0 + 1) = 1 := by simp [ringJ]
      rw [e1, e2, sortPair_gt (by omega)]
      unfold ellKey
      simp only [dec_pt r (le_refl 1) (show 1 ≤ N by omega), dec_pt r (show 1 ≤ N by omega) (le_refl N)]
      rw [if_neg (by omega), if_neg (by omega)]
      have : N ≠ 1 + 1 := by omega
      simp [this]
    · have e1 : ringJ N q = q := by simp [ringJ, h0]
      have e2 : ringJ N (q + 1) = q + 1 := by simp [ringJ]
      rw [e1, e2, sortPair_lt (by omega)]
      unfold ellKey
      simp only [dec_pt r (show 1 ≤ q by omega) (show q ≤ N by omega), dec_pt r (show 1 ≤ q + 1 by omega) (show q + 1 ≤ N by omega)]
      rw [if_neg (by omega), if_neg (by omega)]
      simp
  · rw [hs2]
    have e1 : ringJ N q = q := by simp [ringJ]; omega
    have e2 : ringJ N 0 = N := by simp [ringJ]
    rw [e1, e2, sortPair_lt (by omega)]
    unfold ellKey
    simp only [dec_pt r (show 1 ≤ q by omega) (show q ≤ N by omega), dec_pt r (show 1 ≤ N by omega) (le_refl N)]
    rw [if_neg (by omega), if_neg (by omega)]
    have : N = q + 1 := by omega
    simp [this]

theorem ellKey_V {N i q : Nat} (hN : 4 ≤ N) (hi : i < N - 3) (hq : q < N) : ellKey N (ellV N i q) = (3, i, q) := by
  obtain ⟨h1, h2⟩ := ringJ_pos hq
  unfold ellV
  rw [sortPair_lt (by rw [Nat.succ_mul]; omega)]
  unfold ellKey
  simp only [dec_pt i h1 h2, dec_pt (i + 1) h1 h2, ringJinv_ringJ hq]
  rw [if_neg (by omega), if_neg (by omega), if_neg (by omega)]
  simp

theorem ringJ_succMod_ne {N q : Nat} (hN : 2 ≤ N) (hq : q < N) : ringJ N (succMod N q) ≠ ringJ N q := by
  rw [ringJ_succMod hq]
  unfold ringJ
  split <;> omega

theorem ellKey_D {N i q : Nat} (hN : 4 ≤ N) (hi : i < N - 3) (hq : q < N) : ellKey N (ellD N i q) = (4, i, q) := by
  obtain ⟨h1, h2⟩ := ringJ_pos hq
  obtain ⟨h3, h4⟩ := ringJ_pos (succMod_lt hq)
  have hne := ringJ_succMod_ne (show 2 ≤ N by omega) hq
  unfold ellD
  rw [sortPair_lt (by rw [Nat.succ_mul]; omega)]
  unfold ellKey
  simp only [dec_pt i h3 h4, dec_pt (i + 1) h1 h2, ringJinv_ringJ hq]
  rw [if_neg (by omega), if_neg (by omega), if_neg (by omega), if_neg hne]

theorem nodup_fam2 (f M N : Nat) :
    ((List.range M).flatMap fun r => (List.range N).map fun q => (f, r, q)).Nodup := by
  have : ((List.range M).flatMap fun r => (List.range N).map fun q => (f, r, q)) =
      (List.product (List.range M) (List.range N)).map (fun p => (f, p.1, p.2)) := by
    simp [List.product, List.map_flatMap, Function.comp_def]
  rw [this]
  apply List.Nodup.map
  · intro a b h
    simp only [Prod.mk.injEq, true_and] at h
    exact Prod.ext h.1 h.2
  · exact List.Nodup.product List.nodup_range List.nodup_range

theorem ellEdges_nodup {N : Nat} (hN : 4 ≤ N) : (ellEdges N).Nodup := by
  apply List.Nodup.of_map (ellKey N)
  have hS : ((List.range N).map (ellS N)).map (ellKey N) = (List.range N).map (fun q => (0, 0, q)) := by
    rw [List.map_map]
    exact List.map_congr_left (fun q hq => ellKey_S (List.mem_range.1 hq))
  have hT : ((List.range N).map (ellT N)).map (ellKey N) = (List.range N).map (fun q => (1, 0, q)) := by
    rw [List.map_map]
    exact List.map_congr_left (fun q hq => ellKey_T hN (List.mem_range.1 hq))
  have h2 : ∀ (F : Nat → Nat → Edge) (f M : Nat), (∀ r < M, ∀ q < N, ellKey N (F r q) = (f, r, q)) →
      ((List.range M).flatMap fun r => (List.range N).map (F r)).map (ellKey N) =
        (List.range M).flatMap fun r => (List.range N).map fun q => (f, r, q) := by
    intro F f M h
    rw [List.map_flatMap]
    apply List.flatMap_congr
    intro r hr
    rw [List.map_map]
    exact List.map_congr_left (fun q hq => h r (List.mem_range.1 hr) q (List.mem_range.1 hq))
  simp only [ellEdges, List.map_append, hS, hT,
    h2 (ellR N) 2 (N - 3 + 1) (fun r hr q hq => ellKey_R hN (by omega) hq),
    h2 (ellV N) 3 (N - 3) (fun r hr q hq => ellKey_V hN hr hq),
    h2 (ellD N) 4 (N - 3) (fun r hr q hq => ellKey_D hN hr hq)]
  have n0 : ((List.range N).map (fun q => ((0 : Nat), (0 : Nat), q))).Nodup :=
    List.Nodup.map (fun a b h => by simpa using h) List.nodup_range
  have n1 : ((List.range N).map (fun q => ((1 : Nat), (0 : Nat), q))).Nodup :=
    List.Nodup.map (fun a b h => by simpa using h) List.nodup_range
  simp only [List.nodup_append, n0, n1, nodup_fam2, true_and, List.mem_append, List.mem_map, List.mem_flatMap,
    List.mem_range]
  refine ⟨⟨⟨?_, ?_⟩, ?_⟩, ?_⟩
  · rintro a ⟨_, _, rfl⟩ b ⟨_, _, rfl⟩ h; simp at h
  · rintro a (⟨_, _, rfl⟩ | ⟨_, _, rfl⟩) b ⟨_, _, _, _, rfl⟩ h <;> simp at h
  · rintro a ((⟨_, _, rfl⟩ | ⟨_, _, rfl⟩) | ⟨_, _, _, _, rfl⟩) b ⟨_, _, _, _, rfl⟩ h <;> simp at h
  · rintro a (((⟨_, _, rfl⟩ | ⟨_, _, rfl⟩) | ⟨_, _, _, _, rfl⟩) | ⟨_, _, _, _, rfl⟩) b ⟨_, _, _, _, rfl⟩ h <;> simp at h

theorem ellSpec_closed {N : Nat} (hN : 4 ≤ N) : openEdges (ellSpec N) = [] := by
  apply openEdges_eq_nil_of_count
  intro e he
  have hc := edgesOf_ellSpec_count N e
  have hpos : 0 < (edgesOf (ellSpec N)).count e := List.count_pos_iff.2 he
  have hmem : e ∈ ellEdges N := by
    apply List.count_pos_iff.1
    omega
  rw [hc, List.count_eq_one_of_mem (ellEdges_nodup hN) hmem]

theorem ellSpec_indices {N : Nat} (hN : 4 ≤ N) :
    ∀ t ∈ ellSpec N, t.1 ≠ t.2.1 ∧ t.2.1 ≠ t.2.2 ∧ t.1 ≠ t.2.2 ∧
      t.1 < 2 + (N - 2) * N ∧ t.2.1 < 2 + (N - 2) * N ∧ t.2.2 < 2 + (N - 2) * N := by
  have h32 : (N - 2) * N = (N - 3) * N + N := by
    have : N - 2 = (N - 3) + 1 := by omega
    rw [this, Nat.succ_mul]
  intro t ht
  simp only [ellSpec, List.mem_append, List.mem_map, List.mem_flatMap, List.mem_range] at ht
  rcases ht with ((⟨q, hq, rfl⟩ | ⟨i, hi, q, hq, rfl⟩) | ⟨i, hi, q, hq, rfl⟩) | ⟨q, hq, rfl⟩
  all_goals
    obtain ⟨h1, h2⟩ := ringJ_pos hq
    obtain ⟨h3, h4⟩ := ringJ_pos (succMod_lt hq)
    have hne := ringJ_succMod_ne (show 2 ≤ N by omega) hq
  · simp only [Nat.zero_mul]; omega
  · have hb : (i + 1) * N ≤ (N - 3) * N := Nat.mul_le_mul_right N (by omega)
    simp only [Nat.succ_mul] at hb ⊢; omega
  · have hb : (i + 1) * N ≤ (N - 3) * N := Nat.mul_le_mul_right N (by omega)
    simp only [Nat.succ_mul] at hb ⊢; omega
  · dsimp only; omega

/-! ### `make_CylinderSegment` -/

/-- the triangles of `make_CylinderSegment` for arc count `N`: per arc step `q < N - 1` two triangles on each of the top
face, the bottom face, the inner shell and the outer shell; rows `a_q = q` (inner top), `b_q = q + N` (outer top),
`c_q = q + 2N` (inner bottom), `d_q = q + 3N` (outer bottom) -/
def segSpec (N : Nat) : List Face :=
  (List.range (N - 1)).map (fun q => (q, q + N, q + 1)) ++
  (List.range (N - 1)).map (fun q => (q + 1, q + N, q + N + 1)) ++
  (List.range (N - 1)).map (fun q => (q + 2 * N, q + 1 + 2 * N, q + N + 2 * N)) ++
  (List.range (N - 1)).map (fun q => (q + 1 + 2 * N, q + N + 1 + 2 * N, q + N + 2 * N)) ++
  (List.range (N - 1)).map (fun q => (q, q + 1, q + N + N)) ++
  (List.range (N - 1)).map (fun q => (q + N + N + 1, q + N + N, q + 1)) ++
  (List.range (N - 1)).map (fun q => (q + N, q + N + N + N, q + 1 + N)) ++
  (List.range (N - 1)).map (fun q => (q + N + N + 1 + N, q + 1 + N, q + N + N + N))

/-- the four triangles of the two end caps (at `phi1`: rows with `q = 0`; at `phi2`: `q = N - 1`); the cap at `phi1` is wound
the other way round (repo fix 64dd71f) -/
def segCaps (N : Nat) : List Face :=
  [(0, 2 * N, 3 * N)] ++ [(N, 0, 3 * N)] ++ [(0 + N - 1, 3 * N + N - 1, 2 * N + N - 1)] ++ [(N + N - 1, 3 * N + N - 1, 0 + N - 1)]

theorem segTriangles_eq (N : Nat) (full : Bool) :
    segTriangles N full = if full then segSpec N else segSpec N ++ segCaps N := by
  have hid : List.range (N - 1) = (List.range (N - 1)).map (fun q => q) := by simp
  cases full
  · simp only [segTriangles, segIJK, Bool.false_eq_true, if_false, List.flatten_cons, List.flatten_nil, List.append_nil,
      List.append_assoc, List.flatten_append, List.map_map, Function.comp_def, List.map_cons, List.map_nil]
    simp only [← List.append_assoc]
    rw [zip3_append (by simp) (by simp), zip3_append (by simp) (by simp), zip3_append (by simp) (by simp),
      zip3_append (by simp) (by simp), zip3_append (by simp) (by simp), zip3_append (by simp) (by simp),
      zip3_append (by simp) (by simp), zip3_append (by simp) (by simp), zip3_append (by simp) (by simp)]
    conv_lhs => rw [hid]
    simp only [List.map_map, Function.comp_def, zip3_map]
    simp [segSpec, segCaps, zip3]
  · simp only [segTriangles, segIJK, if_true, List.flatten_cons, List.flatten_nil, List.append_nil,
      List.map_map, Function.comp_def]
    simp only [← List.append_assoc]
    rw [zip3_append (by simp) (by simp), zip3_append (by simp) (by simp), zip3_append (by simp) (by simp),
      zip3_append (by simp) (by simp), zip3_append (by simp) (by simp), zip3_append (by simp) (by simp),
      zip3_append (by simp) (by simp)]
    conv_lhs => rw [hid]
    simp only [List.map_map, Function.comp_def, zip3_map]
    simp [segSpec]

/-- the edge families of the segment: rungs `ab, cd, ac, bd` (q < N), arcs `aa, bb, cc, dd` and quad diagonals
(q < N - 1), and the diagonals of the two end caps -/
def segEdge (N fam q : Nat) : Edge :=
  match fam with
  | 0 => sortPair q (q + N)
  | 1 => sortPair (q + 2 * N) (q + 3 * N)
  | 2 => sortPair q (q + 2 * N)
  | 3 => sortPair (q + N) (q + 3 * N)
  | 4 => sortPair q (q + 1)
  | 5 => sortPair (q + N) (q + N + 1)
  | 6 => sortPair (q + 2 * N) (q + 2 * N + 1)
  | 7 => sortPair (q + 3 * N) (q + 3 * N + 1)
  | 8 => sortPair (q + 1) (q + N)
  | 9 => sortPair (q + 2 * N + 1) (q + 3 * N)
  | 10 => sortPair (q + 1) (q + 2 * N)
  | 11 => sortPair (q + N + 1) (q + 3 * N)
  | 12 => sortPair 0 (3 * N)
  | _ => sortPair (N - 1) (4 * N - 1)

def segFam (N fam L : Nat) : List Edge := (List.range L).map (segEdge N fam)

def segEdges (N : Nat) : List Edge :=
  segFam N 0 (N - 1 + 1) ++ segFam N 1 (N - 1 + 1) ++ segFam N 2 (N - 1 + 1) ++ segFam N 3 (N - 1 + 1) ++
  segFam N 4 (N - 1) ++ segFam N 5 (N - 1) ++ segFam N 6 (N - 1) ++ segFam N 7 (N - 1) ++
  segFam N 8 (N - 1) ++ segFam N 9 (N - 1) ++ segFam N 10 (N - 1) ++ segFam N 11 (N - 1) ++
  [segEdge N 12 0] ++ [segEdge N 13 0]

theorem count_range_succ_last (e : Edge) (f : Nat → Edge) (L : Nat) :
    ((List.range (L + 1)).map f).count e = ((List.range L).map f).count e + [f L].count e := by
  rw [List.range_succ, List.map_append, List.count_append]; rfl

theorem count_range_succ_first (e : Edge) (f : Nat → Edge) (L : Nat) :
    ((List.range (L + 1)).map f).count e = [f 0].count e + ((List.range L).map (fun x => f (x + 1))).count e := by
  rw [List.range_succ_eq_map, List.map_cons, List.map_map]
  rw [show f 0 :: List.map (f ∘ Nat.succ) (List.range L) = [f 0] ++ List.map (f ∘ Nat.succ) (List.range L) from rfl,
    List.count_append]
  rfl

local macro "seg_norm" : tactic =>
  `(tactic| (simp only [segEdge] <;> first | (congr 1 <;> omega) | (rw [sortPair_comm'] <;> (congr 1 <;> omega))))

theorem edgesOf_seg_count {N : Nat} (hN : 1 ≤ N) (e : Edge) :
    (edgesOf (segSpec N ++ segCaps N)).count e = 2 * (segEdges N).count e := by
  have a1 : (fun x => sortPair x (x + N)) = segEdge N 0 := by funext x; seg_norm
  have a2 : (fun x => sortPair (x + 1) (x + N)) = segEdge N 8 := by funext x; seg_norm
  have a3 : (fun x => sortPair (x + 2 * N) (x + 1 + 2 * N)) = segEdge N 6 := by funext x; seg_norm
  have a4 : (fun x => sortPair (x + 1 + 2 * N) (x + N + 1 + 2 * N)) = fun x => segEdge N 1 (x + 1) := by funext x; seg_norm
  have a5 : (fun x => sortPair x (x + 1)) = segEdge N 4 := by funext x; seg_norm
  have a6 : (fun x => sortPair (x + N + N + 1) (x + N + N)) = segEdge N 6 := by funext x; seg_norm
  have a7 : (fun x => sortPair (x + N) (x + N + N + N)) = segEdge N 3 := by funext x; seg_norm
  have a8 : (fun x => sortPair (x + N + N + 1 + N) (x + 1 + N)) = fun x => segEdge N 3 (x + 1) := by funext x; seg_norm
  have b1 : (fun x => sortPair (x + N) (x + 1)) = segEdge N 8 := by funext x; seg_norm
  have b2 : (fun x => sortPair (x + N) (x + N + 1)) = segEdge N 5 := by funext x; seg_norm
  have b3 : (fun x => sortPair (x + 1 + 2 * N) (x + N + 2 * N)) = segEdge N 9 := by funext x; seg_norm
  have b4 : (fun x => sortPair (x + N + 1 + 2 * N) (x + N + 2 * N)) = segEdge N 7 := by funext x; seg_norm
  have b5 : (fun x => sortPair (x + 1) (x + N + N)) = segEdge N 10 := by funext x; seg_norm
  have b6 : (fun x => sortPair (x + N + N) (x + 1)) = segEdge N 10 := by funext x; seg_norm
  have b7 : (fun x => sortPair (x + N + N + N) (x + 1 + N)) = segEdge N 11 := by funext x; seg_norm
  have b8 : (fun x => sortPair (x + 1 + N) (x + N + N + N)) = segEdge N 11 := by funext x; seg_norm
  have c2 : (fun x => sortPair (x + 1) (x + N + 1)) = fun x => segEdge N 0 (x + 1) := by funext x; seg_norm
  have c3 : (fun x => sortPair (x + 2 * N) (x + N + 2 * N)) = segEdge N 1 := by funext x; seg_norm
  have c5 : (fun x => sortPair x (x + N + N)) = segEdge N 2 := by funext x; seg_norm
  have c6 : (fun x => sortPair (x + N + N + 1) (x + 1)) = fun x => segEdge N 2 (x + 1) := by funext x; seg_norm
  have c7 : (fun x => sortPair (x + N) (x + 1 + N)) = segEdge N 5 := by funext x; seg_norm
  have c8 : (fun x => sortPair (x + N + N + 1 + N) (x + N + N + N)) = segEdge N 7 := by funext x; seg_norm
  have k1 : sortPair 0 (3 * N) = segEdge N 12 0 := rfl
  have k2 : sortPair N (3 * N) = segEdge N 3 0 := by seg_norm
  have k3 : sortPair (0 + N - 1) (3 * N + N - 1) = segEdge N 13 0 := by seg_norm
  have k4 : sortPair (N + N - 1) (3 * N + N - 1) = segEdge N 3 (N - 1) := by seg_norm
  have k5 : sortPair (3 * N) (2 * N) = segEdge N 1 0 := by seg_norm
  have k5' : sortPair (2 * N) (3 * N) = segEdge N 1 0 := by seg_norm
  have k6 : sortPair (3 * N) 0 = segEdge N 12 0 := by seg_norm
  have k7 : sortPair (3 * N + N - 1) (2 * N + N - 1) = segEdge N 1 (N - 1) := by seg_norm
  have k8 : sortPair (3 * N + N - 1) (0 + N - 1) = segEdge N 13 0 := by seg_norm
  have k9 : sortPair 0 (2 * N) = segEdge N 2 0 := by seg_norm
  have k10 : sortPair N 0 = segEdge N 0 0 := by seg_norm
  have k11 : sortPair (0 + N - 1) (2 * N + N - 1) = segEdge N 2 (N - 1) := by seg_norm
  have k12 : sortPair (N + N - 1) (0 + N - 1) = segEdge N 0 (N - 1) := by seg_norm
  have l0 := count_range_succ_last e (segEdge N 0) (N - 1)
  have l1 := count_range_succ_last e (segEdge N 1) (N - 1)
  have l2 := count_range_succ_last e (segEdge N 2) (N - 1)
  have l3 := count_range_succ_last e (segEdge N 3) (N - 1)
  have f0 := count_range_succ_first e (segEdge N 0) (N - 1)
  have f1 := count_range_succ_first e (segEdge N 1) (N - 1)
  have f2 := count_range_succ_first e (segEdge N 2) (N - 1)
  have f3 := count_range_succ_first e (segEdge N 3) (N - 1)
  simp only [edgesOf, segSpec, segCaps, segEdges, segFam, List.map_append, List.count_append, List.map_map,
    Function.comp_def, List.map_cons, List.map_nil]
  simp only [a1, a2, a3, a4, a5, a6, a7, a8, b1, b2, b3, b4, b5, b6, b7, b8, c2, c3, c5, c6, c7, c8,
    k1, k2, k3, k4, k5, k5', k6, k7, k8, k9, k10, k11, k12]
  omega

/-- block (0 = inner top, 1 = outer top, 2 = inner bottom, 3 = outer bottom) and position in the arc of a vertex row -/
def blk (N v : Nat) : Nat := if v < N then 0 else if v < 2 * N then 1 else if v < 3 * N then 2 else 3
def off (N v : Nat) : Nat := if v < N then v else if v < 2 * N then v - N else if v < 3 * N then v - 2 * N else v - 3 * N

/-- recovers (family, q) from an edge of the segment -/
def segKey (N : Nat) (e : Edge) : Nat × Nat :=
  let bu := blk N e.1
  let bv := blk N e.2
  let ou := off N e.1
  let ov := off N e.2
  if bu = bv then (4 + bu, ou)
  else if bu = 0 ∧ bv = 3 then (if ou = 0 then 12 else 13, 0)
  else ((if bu = 0 ∧ bv = 1 then 0 else if bu = 2 then 1 else if bu = 0 then 2 else 3) + (if ou = ov then 0 else 8), ov)

theorem segKey_edge {N : Nat} (hN : 2 ≤ N) {fam q : Nat} (hf : fam < 14)
    (hq : if fam < 4 then q < N else if fam < 12 then q + 1 < N else q = 0) :
    segKey N (segEdge N fam q) = (fam, q) := by
  interval_cases fam <;> simp only [segEdge] <;> simp at hq <;> rw [sortPair_lt (by omega)] <;>
    simp (disch := omega) only [segKey, blk, off, if_pos, if_neg] <;> simp <;> omega

theorem segEdges_nodup {N : Nat} (hN : 2 ≤ N) : (segEdges N).Nodup := by
  apply List.Nodup.of_map (segKey N)
  have h1 : ∀ fam < 4, (segFam N fam (N - 1 + 1)).map (segKey N) = (List.range (N - 1 + 1)).map (fun q => (fam, q)) := by
    intro fam hf
    unfold segFam
    rw [List.map_map]
    apply List.map_congr_left
    intro q hq
    have hq := List.mem_range.1 hq
    exact segKey_edge hN (by omega) (by simp [hf]; omega)
  have h2 : ∀ fam, 4 ≤ fam → fam < 12 → (segFam N fam (N - 1)).map (segKey N) = (List.range (N - 1)).map (fun q => (fam, q)) := by
    intro fam hf hf'
    unfold segFam
    rw [List.map_map]
    apply List.map_congr_left
    intro q hq
    have hq := List.mem_range.1 hq
    exact segKey_edge hN (by omega) (by rw [if_neg (by omega), if_pos hf']; omega)
  have h12 : segKey N (segEdge N 12 0) = (12, 0) := segKey_edge hN (by omega) (by simp)
  have h13 : segKey N (segEdge N 13 0) = (13, 0) := segKey_edge hN (by omega) (by simp)
  simp only [segEdges, List.map_append, List.map_cons, List.map_nil, h12, h13,
    h1 0 (by omega), h1 1 (by omega), h1 2 (by omega), h1 3 (by omega),
    h2 4 (by omega) (by omega), h2 5 (by omega) (by omega), h2 6 (by omega) (by omega), h2 7 (by omega) (by omega),
    h2 8 (by omega) (by omega), h2 9 (by omega) (by omega), h2 10 (by omega) (by omega), h2 11 (by omega) (by omega)]
  simp [List.nodup_append, List.nodup_map_iff_inj_on, List.nodup_range]
  repeat' apply And.intro
  all_goals (intros; omega)

theorem segSpec_caps_closed {N : Nat} (hN : 2 ≤ N) : openEdges (segSpec N ++ segCaps N) = [] := by
  apply openEdges_eq_nil_of_count
  intro e he
  have hc := edgesOf_seg_count (show 1 ≤ N by omega) e
  have hpos : 0 < (edgesOf (segSpec N ++ segCaps N)).count e := List.count_pos_iff.2 he
  have hmem : e ∈ segEdges N := by
    apply List.count_pos_iff.1
    omega
  rw [hc, List.count_eq_one_of_mem (segEdges_nodup hN) hmem]

/-! ### `merge_mesh3d`, `merge_scatter3d` -/

section merge
variable {α : Type}

/-- the cumulative vertex offsets: trace `n` is shifted by the number of `x` entries of the traces before it -/
def offsetsFrom (o : Nat) : List (MeshTrace α) → List Nat
  | [] => []
  | t :: ts => o :: offsetsFrom (o + t.x.length) ts

theorem offsetsFrom_map_add (o a : Nat) (ts : List (MeshTrace α)) :
    (offsetsFrom o ts).map (· + a) = offsetsFrom (a + o) ts := by
  induction ts generalizing o with
  | nil => rfl
  | cons t ts ih =>
    simp only [offsetsFrom, List.map_cons, ih]
    congr 1
    · omega
    · congr 1; omega

theorem cumsum_eq_offsetsFrom (o : Nat) (ts : List (MeshTrace α)) (h : ts ≠ []) :
    cumsum (o :: ts.dropLast.map (·.x.length)) = offsetsFrom o ts := by
  induction ts generalizing o with
  | nil => exact absurd rfl h
  | cons t ts ih =>
    cases ts with
    | nil => simp [cumsum, offsetsFrom]
    | cons t' r =>
      have := ih t.x.length (by simp)
      simp only [List.dropLast_cons_cons, List.map_cons, cumsum] at this ⊢
      rw [offsetsFrom, ← offsetsFrom_map_add, ← this]
      simp

theorem offsetsFrom_getElem? (o : Nat) (ts : List (MeshTrace α)) (n : Nat) (hn : n < ts.length) :
    (offsetsFrom o ts)[n]? = some (o + ((ts.take n).map (·.x.length)).sum) := by
  induction ts generalizing o n with
  | nil => simp at hn
  | cons t ts ih =>
    cases n with
    | zero => simp [offsetsFrom]
    | succ n =>
      simp only [offsetsFrom, List.getElem?_cons_succ, List.take_succ_cons, List.map_cons, List.sum_cons]
      rw [ih _ n (by simpa using hn)]
      congr 1; omega

theorem flatten_getElem?_offset {β : Type} (ls : List (List β)) (n : Nat) (l : List β) (h : ls[n]? = some l)
    (v : Nat) (hv : v < l.length) : ls.flatten[((ls.take n).map List.length).sum + v]? = l[v]? := by
  induction ls generalizing n with
  | nil => simp at h
  | cons a as ih =>
    cases n with
    | zero =>
      simp only [List.getElem?_cons_zero, Option.some.injEq] at h
      subst h
      simp [List.getElem?_append_left hv]
    | succ n =>
      simp only [List.getElem?_cons_succ] at h
      simp only [List.take_succ_cons, List.map_cons, List.sum_cons, List.flatten_cons]
      rw [List.getElem?_append_right (by omega)]
      have : a.length + ((as.take n).map List.length).sum + v - a.length = ((as.take n).map List.length).sum + v := by omega
      rw [this]
      exact ih n h

/-- the merged index array: every trace's indices shifted by its offset, in order -/
theorem merge_idx_eq (ts : List (MeshTrace α)) (o : Nat) (f g h : MeshTrace α → List Nat)
    (hl : ∀ t ∈ ts, (f t).length = (g t).length ∧ (g t).length = (h t).length) :
    zip3 (List.zipWith (fun b l => (f b).map (· + l)) ts (offsetsFrom o ts)).flatten
         (List.zipWith (fun b l => (g b).map (· + l)) ts (offsetsFrom o ts)).flatten
         (List.zipWith (fun b l => (h b).map (· + l)) ts (offsetsFrom o ts)).flatten =
      (ts.zip (offsetsFrom o ts)).flatMap (fun p => (zip3 (f p.1) (g p.1) (h p.1)).map
        (fun t => (t.1 + p.2, t.2.1 + p.2, t.2.2 + p.2))) := by
  induction ts generalizing o with
  | nil => rfl
  | cons t ts ih =>
    simp only [offsetsFrom, List.zipWith_cons_cons, List.flatten_cons, List.zip_cons_cons, List.flatMap_cons]
    obtain ⟨h1, h2⟩ := hl t (List.mem_cons_self ..)
    rw [zip3_append (by simp [h1]) (by simp [h2]), ih _ (fun t' ht' => hl t' (List.mem_cons_of_mem _ ht'))]
    congr 1
    unfold zip3
    simp [List.zip_map]

end merge

section scatter
variable {α : Type}

theorem splitNone_none_cons (l : List (Option α)) : splitNone (none :: l) = [] :: splitNone l := rfl

theorem splitNone_ne_nil (l : List (Option α)) : splitNone l ≠ [] := by
  induction l with
  | nil => simp [splitNone]
  | cons a l ih =>
    cases a with
    | none => simp [splitNone]
    | some a =>
      unfold splitNone
      split <;> simp

/-- splitting `a ++ none :: b`: the pieces of `a`, then the pieces of `b` -/
theorem splitNone_append_none (a b : List (Option α)) :
    splitNone (a ++ none :: b) = splitNone a ++ splitNone b := by
  induction a with
  | nil => simp [splitNone]
  | cons x a ih =>
    cases x with
    | none => simp [splitNone, ih]
    | some x =>
      simp only [List.cons_append, splitNone, ih]
      cases h : splitNone a with
      | nil => exact absurd h (splitNone_ne_nil a)
      | cons p ps => simp

theorem splitNone_gapped (ls : List (List (Option α))) :
    splitNone (ls.flatMap (fun b => none :: b)) = [] :: ls.flatMap splitNone := by
  induction ls with
  | nil => simp [splitNone]
  | cons b ls ih =>
    simp only [List.flatMap_cons, List.cons_append, splitNone_none_cons]
    cases ls with
    | nil => simp
    | cons b' r =>
      simp only [List.flatMap_cons, List.cons_append] at ih ⊢
      rw [splitNone_append_none]
      rw [splitNone_none_cons] at ih
      simp only [List.cons.injEq, true_and] at ih
      rw [ih]

theorem splitNone_of_somes (l : List α) : splitNone (l.map some) = [l] := by
  induction l with
  | nil => rfl
  | cons a l ih => simp [splitNone, ih]
end scatter

end MagpyVerif.Display
