/-
Lemmas/DisplayArrowLine.lean — Model/DisplayArrowLine.lean at α = ℝ: the arrow of a segment after it is turned onto the segment.
-/
import Mathlib.Analysis.SpecialFunctions.Trigonometric.Inverse
import Mathlib.Tactic
import MagpyVerif.Lemmas.DisplayArrow
import MagpyVerif.Model.DisplayArrowLine
namespace MagpyVerif.DisplayTrig
open MagpyVerif MagpyVerif.Kern

/-- `np.arccos` at ℝ -/
noncomputable instance : ArcCos ℝ := ⟨Real.arccos⟩

/-- what is needed of the map `T` by which the template (which lies in the plane `z = 0`) is turned: on that plane it is linear,
takes the y axis to the direction `vec/|vec|` and the x axis to a unit vector `e` perpendicular to `vec`.  Every rotation that
takes ŷ to `vec/|vec|` has this property (`e` = the image of x̂); for scipy's `from_rotvec(r).apply` it is an ASSUMPTION about the
external call, for Rodrigues' formula `rotvecApply` (what the driver runs) see `rotvecApply_*` below. -/
def TurnsOnto (T : V3 ℝ → V3 ℝ) (vec : V3 ℝ) : Prop :=
  ∃ e : V3 ℝ, V3.dot e vec = 0 ∧ V3.dot e e = 1 ∧ ∀ x y : ℝ, T ⟨x, y, 0⟩ = vs x e + vs y (vd vec (Kern.norm vec))

theorem norm_real (v : V3 ℝ) : Kern.norm v = Real.sqrt (v.x * v.x + v.y * v.y + v.z * v.z) := rfl

theorem norm_eq_zero_iff (v : V3 ℝ) : Kern.norm v = 0 ↔ v.x = 0 ∧ v.y = 0 ∧ v.z = 0 := by
  rw [norm_real, Real.sqrt_eq_zero (by nlinarith [mul_self_nonneg v.x, mul_self_nonneg v.y, mul_self_nonneg v.z])]
  constructor
  · intro h
    refine ⟨?_, ?_, ?_⟩ <;> nlinarith [mul_self_nonneg v.x, mul_self_nonneg v.y, mul_self_nonneg v.z]
  · rintro ⟨h1, h2, h3⟩
    rw [h1, h2, h3]; ring

/-- the unit vector `vec/|vec|` -/
theorem unit_sq (vec : V3 ℝ) (hv : Kern.norm vec ≠ 0) :
    (vec.x / Kern.norm vec) ^ 2 + (vec.y / Kern.norm vec) ^ 2 + (vec.z / Kern.norm vec) ^ 2 = 1 := by
  have h := norm_sq vec
  field_simp
  nlinarith

/-- the data of `arrowRotvec` at ℝ: with `(a, b, c) = vec/|vec|`, `cross = (-c, 0, a)`, `dot = b`, `n = sqrt(c² + a²)` -/
theorem arrowRotvec_real (vec : V3 ℝ) :
    arrowRotvec vec =
      let a := vec.x / Kern.norm vec; let b := vec.y / Kern.norm vec; let c := vec.z / Kern.norm vec
      let nn := Real.sqrt (c * c + a * a)
      if nn = 0 ∧ b + 1 = 0 then some ⟨0, 0, Real.pi⟩
      else if nn ≠ 0 then some ⟨-Real.arccos b * -c / nn, 0, -Real.arccos b * a / nn⟩
      else none := by
  unfold arrowRotvec
  simp only [vd, vs, V3.cross, V3.dot, Kern.norm, n_real, eq0_real, sqrt_real, pi_real, Nat.cast_zero, Nat.cast_one, mul_zero, mul_one,
    zero_sub, sub_zero, zero_add, add_zero, Bool.and_eq_true, decide_eq_true_eq, Bool.not_eq_true', decide_eq_false_iff_not, ArcCos.arccos]
  have e : ∀ a c : ℝ, -c * -c + 0 * 0 + a * a = c * c + a * a := by intros; ring
  simp only [e, zero_div]
  split_ifs <;> simp_all

/-- no rotation is made only when `vec` already points along +y -/
theorem turnsOnto_id_of_none (vec : V3 ℝ) (hv : Kern.norm vec ≠ 0) (h : arrowRotvec vec = none) : TurnsOnto id vec := by
  rw [arrowRotvec_real] at h
  simp only at h
  split_ifs at h with h1 h2
  push_neg at h2
  have hu := unit_sq vec hv
  have hs : vec.z / Kern.norm vec * (vec.z / Kern.norm vec) + vec.x / Kern.norm vec * (vec.x / Kern.norm vec) = 0 := by
    have := (Real.sqrt_eq_zero (by nlinarith [mul_self_nonneg (vec.z / Kern.norm vec), mul_self_nonneg (vec.x / Kern.norm vec)])).1 h2
    exact this
  have hx : vec.x / Kern.norm vec = 0 := by nlinarith [mul_self_nonneg (vec.z / Kern.norm vec), mul_self_nonneg (vec.x / Kern.norm vec)]
  have hz : vec.z / Kern.norm vec = 0 := by nlinarith [mul_self_nonneg (vec.z / Kern.norm vec), mul_self_nonneg (vec.x / Kern.norm vec)]
  have hy2 : (vec.y / Kern.norm vec) ^ 2 = 1 := by rw [hx, hz] at hu; nlinarith
  have hy : vec.y / Kern.norm vec = 1 := by
    have hne : vec.y / Kern.norm vec + 1 ≠ 0 := fun hc => h1 ⟨h2, hc⟩
    have : (vec.y / Kern.norm vec - 1) * (vec.y / Kern.norm vec + 1) = 0 := by nlinarith
    rcases mul_eq_zero.1 this with h | h
    · linarith
    · exact absurd h hne
  have hx0 : vec.x = 0 := by
    rcases div_eq_zero_iff.1 hx with h | h
    · exact h
    · exact absurd h hv
  refine ⟨⟨1, 0, 0⟩, ?_, ?_, ?_⟩
  · simp [V3.dot, hx0]
  · simp [V3.dot]
  · intro x y
    simp only [id, vs, vd, hx, hy, hz]
    apply V3.ext' <;> simp

/-- the seven points of the placed arrow: start of the segment, tip, barb, tip, barb, tip, end of the segment -/
noncomputable def arrowPts (vec pos : V3 ℝ) (sign size apos : ℝ) (e : V3 ℝ) : List (Option (V3 ℝ)) :=
  [some (pos - vs (1 / 2) vec),
   some (pos + vs (apos - 1 / 2) vec),
   some (pos + vs (apos - 1 / 2 - sgn sign * size) vec - vs (3 / 5 * size * Kern.norm vec) e),
   some (pos + vs (apos - 1 / 2) vec),
   some (pos + vs (apos - 1 / 2 - sgn sign * size) vec + vs (3 / 5 * size * Kern.norm vec) e),
   some (pos + vs (apos - 1 / 2) vec),
   some (pos + vs (1 / 2) vec)]

theorem arrowedLine_key (rot : V3 ℝ → V3 ℝ → V3 ℝ) (vec pos : V3 ℝ) (sign size apos : ℝ) (hv : Kern.norm vec ≠ 0)
    (T : V3 ℝ → V3 ℝ) (hT : TurnsOnto T vec)
    (hTeq : (match arrowRotvec vec with | some r => rot r | none => id) = T) :
    ∃ e : V3 ℝ, V3.dot e vec = 0 ∧ V3.dot e e = 1 ∧
      arrowedLine rot vec pos sign size apos .middle true = arrowPts vec pos sign size apos e := by
  obtain ⟨e, he1, he2, hT⟩ := hT
  refine ⟨e, he1, he2, ?_⟩
  have hmap : arrowedLine rot vec pos sign size apos .middle true =
      ((arrowTemplate sign size apos true).map (Option.map fun v =>
        (⟨(v.x + 0) * Kern.norm vec, (v.y + 0) * Kern.norm vec, (v.z + 0) * Kern.norm vec⟩ : V3 ℝ))).map
        (Option.map (fun v => T v + pos)) := by
    unfold arrowedLine
    simp only [arrowAnchor, n_real, Nat.cast_zero]
    rw [← hTeq]
    cases arrowRotvec vec with
    | none => simp [List.map_map, Function.comp_def]
    | some r => simp [List.map_map, Function.comp_def]
  rw [hmap]
  simp only [arrowTemplate, if_true, n_real, half_real, Nat.cast_zero, Nat.cast_ofNat, List.map_cons, List.cons_append, List.nil_append,
    List.map_nil, Option.map_some, add_zero, zero_mul, hT, arrowPts]
  simp only [List.cons.injEq, Option.some.injEq, and_true]
  refine ⟨?_, ?_, ?_, ?_, ?_, ?_, ?_⟩ <;>
    (apply V3.ext' <;> simp only [vs, vd, V3.add_x, V3.add_y, V3.add_z, V3.sub_x, V3.sub_y, V3.sub_z] <;> field_simp <;> ring)

/-- the arrow of `draw_arrowed_line(vec, pos, sign, size, arrow_pos)` (pivot "middle", line included) once the template is turned by a
map with the property `TurnsOnto` -/
theorem arrowedLine_of_turnsOnto (rot : V3 ℝ → V3 ℝ → V3 ℝ) (vec pos : V3 ℝ) (sign size apos : ℝ) (hv : Kern.norm vec ≠ 0)
    (hrot : ∀ r, arrowRotvec vec = some r → TurnsOnto (rot r) vec) :
    ∃ e : V3 ℝ, V3.dot e vec = 0 ∧ V3.dot e e = 1 ∧
      arrowedLine rot vec pos sign size apos .middle true = arrowPts vec pos sign size apos e := by
  cases h : arrowRotvec vec with
  | none => exact arrowedLine_key rot vec pos sign size apos hv id (turnsOnto_id_of_none vec hv h) (by rw [h])
  | some r => exact arrowedLine_key rot vec pos sign size apos hv (rot r) (hrot r h) (by rw [h])

/-! ### Rodrigues' formula has the property in the two branches where the axis is fixed -/

/-- the anti-parallel branch `from_rotvec([0, 0, π])`: the half turn about z -/
theorem rotvecApply_pi (x y : ℝ) : rotvecApply (⟨0, 0, Real.pi⟩ : V3 ℝ) ⟨x, y, 0⟩ = ⟨-x, -y, 0⟩ := by
  have hpi := Real.pi_pos
  have hn : Kern.norm (⟨0, 0, Real.pi⟩ : V3 ℝ) = Real.pi := by
    rw [norm_real]; simp only [mul_zero, zero_add]; exact Real.sqrt_mul_self hpi.le
  unfold rotvecApply
  simp only [hn, eq0_real, decide_eq_true_eq, hpi.ne', if_false, cos_real, sin_real, Real.cos_pi, Real.sin_pi, n_real, Nat.cast_one]
  apply V3.ext' <;> simp [vs, vd, V3.cross, V3.dot]

theorem turnsOnto_rotvecApply_antiparallel (vec : V3 ℝ) (hv : Kern.norm vec ≠ 0)
    (h : arrowRotvec vec = some ⟨0, 0, Real.pi⟩)
    (hb : Real.sqrt (vec.z / Kern.norm vec * (vec.z / Kern.norm vec) + vec.x / Kern.norm vec * (vec.x / Kern.norm vec)) = 0 ∧
      vec.y / Kern.norm vec + 1 = 0) :
    TurnsOnto (rotvecApply ⟨0, 0, Real.pi⟩) vec := by
  obtain ⟨h2, hy1⟩ := hb
  have hu := unit_sq vec hv
  have hs := (Real.sqrt_eq_zero (by nlinarith [mul_self_nonneg (vec.z / Kern.norm vec), mul_self_nonneg (vec.x / Kern.norm vec)])).1 h2
  have hx : vec.x / Kern.norm vec = 0 := by nlinarith [mul_self_nonneg (vec.z / Kern.norm vec), mul_self_nonneg (vec.x / Kern.norm vec)]
  have hz : vec.z / Kern.norm vec = 0 := by nlinarith [mul_self_nonneg (vec.z / Kern.norm vec), mul_self_nonneg (vec.x / Kern.norm vec)]
  have hy : vec.y / Kern.norm vec = -1 := by linarith
  have hx0 : vec.x = 0 := by
    rcases div_eq_zero_iff.1 hx with h | h
    · exact h
    · exact absurd h hv
  refine ⟨⟨-1, 0, 0⟩, ?_, ?_, ?_⟩
  · simp [V3.dot, hx0]
  · simp [V3.dot]
  · intro x y
    rw [rotvecApply_pi]
    simp only [vs, vd, hx, hy, hz]
    apply V3.ext' <;> simp

end MagpyVerif.DisplayTrig
