/-
Lemmas/Level2Scale.lean — the marshalling pipeline of `getBH_level2` (Model/Level2.lean) is HOMOGENEOUS (C12).

`σ` = the change of length unit on positions (pose paths of sources and sensors, pixel offsets — hence the observer
positions `r.apply(pixel) + p` and the source-frame observers `r⁻¹(x − p)`), `τ` = what the change of unit does to
a field VALUE (the identity for magnets, `· / s` for currents, `· / s³` for dipoles — the kernel theorems of
Props/C12).  Both only have to commute with `+`, `-`, `0` and the rotation action (`VHom`, Lemmas/PathScale.lean).

* `tensor_mapV` (bare operation classes, hence also the carrier the driver computes with; no well-formedness
  hypotheses): if every leaf's field function in the new unit, `Φ s`, satisfies `Φ s (σ x) = τ (s.F x)`, the whole
  tensor — flattening, evaluation per leaf through its own frame, the collection loop, the three sensor
  back-rotation paths, handedness, the split into sensors — in the new unit is `τ` of the tensor in the old one.
  `level2Core_mapV`, `getBH_mapV`: the same through `pixel_agg`, `sumup`, `squeeze` to the returned array.
* `tensor_mapV_per_entry` (group action; through `level2_refines`): every source entry may have its OWN degree
  `τ e` (a Cuboid next to a current loop next to a Dipole in one call).
-/
import MagpyVerif.Lemmas.PathScale

namespace MagpyVerif.Level2
open MagpyVerif
variable {G V W : Type}

/-- a leaf source in the new unit: position path through `σ`, orientation path untouched, field function `Φ s`
(the same class with its dimensions / vertices / diameter in the new unit) -/
def Src.mapV (σ : V → W) (Φ : Src G V → W → W) (s : Src G V) : Src G W :=
  { pos := s.pos.map σ, ori := s.ori, F := Φ s }

/-- a sensor in the new unit: position path and pixel offsets through `σ` -/
def Sens.mapV (σ : V → W) (k : Sens G V) : Sens G W :=
  { pos := k.pos.map σ, ori := k.ori, pixels := k.pixels.map σ, pixShape := k.pixShape, left := k.left }

def Entry.mapV (σ : V → W) (Φ : Src G V → W → W) : Entry G V → Entry G W
  | .leaf s => .leaf (s.mapV σ Φ)
  | .coll cs => .coll (cs.map (Entry.mapV σ Φ))

theorem Entry.mapV_leaves (σ : V → W) (Φ : Src G V → W → W) (e : Entry G V) :
    (e.mapV σ Φ).leaves = e.leaves.map (Src.mapV σ Φ) := by
  induction e using Entry.leaves.induct with
  | case1 s => simp [Entry.mapV, Entry.leaves]
  | case2 cs ih =>
    simp only [Entry.mapV, Entry.leaves, List.map_map, List.map_flatten]
    congr 1
    apply List.map_congr_left
    intro c hc
    exact ih c hc

theorem flatMap_leaves_mapV (σ : V → W) (Φ : Src G V → W → W) (es : List (Entry G V)) :
    (es.map (Entry.mapV σ Φ)).flatMap Entry.leaves = (es.flatMap Entry.leaves).map (Src.mapV σ Φ) := by
  induction es with
  | nil => rfl
  | cons e es ih => simp only [List.map_cons, List.flatMap_cons, List.map_append, ih, Entry.mapV_leaves]

theorem Entry.mapV_colLen (σ : V → W) (Φ : Src G V → W → W) (e : Entry G V) :
    (e.mapV σ Φ).colLen = e.colLen := by
  cases e with
  | leaf s => simp only [Entry.mapV, Entry.colLen]
  | coll cs =>
    have := Entry.mapV_leaves σ Φ (.coll cs)
    simp only [Entry.mapV] at this
    simp only [Entry.mapV, Entry.colLen, this, List.length_map]

theorem pixNum_mapV (σ : V → W) (k : Sens G V) : pixNum (k.mapV σ) = pixNum k := rfl

theorem pixInds_mapV (σ : V → W) (ks : List (Sens G V)) : pixInds (ks.map (Sens.mapV σ)) = pixInds ks := by
  simp [pixInds, List.map_map, Function.comp_def, pixNum_mapV]

theorem pathLen_mapV (σ : V → W) (Φ : Src G V → W → W) (ls : List (Src G V)) (ks : List (Sens G V)) :
    pathLen (ls.map (Src.mapV σ Φ)) (ks.map (Sens.mapV σ)) = pathLen ls ks := by
  unfold pathLen
  simp [List.map_map, Function.comp_def, Src.mapV, Sens.mapV]

theorem mapIdx_map_comm {α β : Type} (f : α → β) (g' : Nat → β → β) (g : Nat → α → α)
    (h : ∀ i x, g' i (f x) = f (g i x)) (xs : List α) : (xs.map f).mapIdx g' = (xs.mapIdx g).map f := by
  apply List.ext_getElem?
  intro i
  simp only [List.getElem?_mapIdx, List.getElem?_map]
  cases xs[i]? <;> simp [h]

theorem foldl_map_comm {α β γ : Type} (F : β → α → β) (F' : γ → α → γ) (f : β → γ)
    (h : ∀ b a, F' (f b) a = f (F b a)) : ∀ (l : List α) (b : β), l.foldl F' (f b) = f (l.foldl F b)
  | [], _ => rfl
  | a :: l, b => by simp only [List.foldl_cons, h, foldl_map_comm F F' f h l]

section natural
variable [Mul G] [Inv G] [One G] [SMul G V] [SMul G W] [BEq G]
variable [Add V] [Sub V] [Zero V] [Add W] [Sub W] [Zero W]
variable {σ τ : V → W}
set_option linter.unusedSectionVars false

/-- `getBH_level1` of one leaf: the observer goes through `σ` into the source frame, the value through `τ` back -/
theorem level1_mapV (hσ : VHom G σ) (hτ : VHom G τ) (Φ : Src G V → W → W) (s : Src G V)
    (hF : ∀ x, Φ s (σ x) = τ (s.F x)) (m : Nat) (x : V) :
    level1 (s.mapV σ Φ) m (σ x) = τ (level1 s m x) := by
  unfold level1 Src.mapV
  simp only [clampGet_map]
  cases clampGet s.ori m with
  | none => exact hτ.map_zero.symm
  | some r =>
    cases clampGet s.pos m with
    | none => exact hτ.map_zero.symm
    | some p => simp only [Option.map_some, ← hσ.map_sub, ← hσ.map_smul, hF, hτ.map_smul]

/-- observer construction `r.apply(pixel) + p` -/
theorem poso_mapV (hσ : VHom G σ) (ks : List (Sens G V)) (m : Nat) :
    poso (ks.map (Sens.mapV σ)) m = (poso ks m).map σ := by
  unfold poso
  rw [List.flatMap_map, List.map_flatMap]
  congr 1
  funext k
  simp only [Sens.mapV, clampGet_map]
  cases clampGet k.ori m with
  | none => rfl
  | some r =>
    cases clampGet k.pos m with
    | none => rfl
    | some p => simp only [Option.map_some, List.map_map, Function.comp_def, hσ.map_add, hσ.map_smul]

theorem leafB_mapV (hσ : VHom G σ) (hτ : VHom G τ) (Φ : Src G V → W → W) (ks : List (Sens G V)) (M : Nat)
    (s : Src G V) (hF : ∀ x, Φ s (σ x) = τ (s.F x)) :
    leafB (ks.map (Sens.mapV σ)) M (s.mapV σ Φ) = (leafB ks M s).map (List.map τ) := by
  unfold leafB
  simp only [poso_mapV hσ, List.map_map]
  apply List.map_congr_left
  intro m _
  simp only [Function.comp, List.map_map]
  apply List.map_congr_left
  intro x _
  exact level1_mapV hσ hτ Φ s hF m x

theorem addT_map (hτ : VHom G τ) (a b : List (List V)) :
    addT (a.map (List.map τ)) (b.map (List.map τ)) = (addT a b).map (List.map τ) := by
  unfold addT
  apply zipWith_map_both
  intro x y
  exact zipWith_map_both (· + ·) (· + ·) τ τ τ (fun u v => (hτ.map_add u v).symm) x y

theorem sumT_map (hτ : VHom G τ) : ∀ l : List (List (List V)),
    sumT (l.map (List.map (List.map τ))) = (sumT l).map (List.map τ)
  | [] => rfl
  | [_] => rfl
  | t :: u :: ts => by
    have ih := sumT_map hτ (u :: ts)
    simp only [List.map_cons, sumT] at ih ⊢
    rw [ih, addT_map hτ]

/-- the collection loop `B[i] = sum(B[i:i+len]); B = delete(B, i+1:i+len)` -/
theorem collapse_map (hτ : VHom G τ) : ∀ (lens : List (Option Nat)) (i : Nat) (B : List (List (List V))),
    collapse i lens (B.map (List.map (List.map τ))) = (collapse i lens B).map (List.map (List.map τ))
  | [], _, _ => rfl
  | none :: rest, i, B => by
    simp only [collapse]
    exact collapse_map hτ rest (i + 1) B
  | some len :: rest, i, B => by
    simp only [collapse]
    rw [← collapse_map hτ rest (i + 1)]
    congr 1
    have h1 : ((B.map (List.map (List.map τ))).drop i).take len =
        ((B.drop i).take len).map (List.map (List.map τ)) := by
      simp only [List.map_take, List.map_drop]
    rw [h1, sumT_map hτ]
    simp only [List.map_append, List.map_take, List.map_drop, List.map_cons, List.map_nil]

theorem unrotated_mapV (σ : V → W) (k : Sens G V) : unrotated (k.mapV σ) = unrotated k := rfl

theorem staticRot_mapV (σ : V → W) (k : Sens G V) : staticRot (k.mapV σ) = staticRot k := by
  simp only [staticRot, Sens.mapV, List.length_map]

/-- the three back-rotation paths and the handedness flip -/
theorem sensorFrame_mapV (hτ : VHom G τ) (flipX : V → V) (flipX' : W → W)
    (hflip : ∀ v, flipX' (τ v) = τ (flipX v)) (σ : V → W) (k : Sens G V) (lo hi : Nat)
    (B : List (List (List V))) :
    sensorFrame flipX' (k.mapV σ) lo hi (B.map (List.map (List.map τ))) =
      (sensorFrame flipX k lo hi B).map (List.map (List.map τ)) := by
  unfold sensorFrame
  rw [unrotated_mapV, staticRot_mapV]
  simp only [List.map_map]
  apply List.map_congr_left
  intro Bl _
  simp only [Function.comp]
  apply mapIdx_map_comm
  intro m row
  apply mapIdx_map_comm
  intro j v
  have hori : (k.mapV σ).ori = k.ori := rfl
  have hleft : (k.mapV σ).left = k.left := rfl
  rw [hori, hleft]
  by_cases hj : lo ≤ j ∧ j < hi
  · simp only [hj, and_self, if_true]
    cases unrotated k
    · cases staticRot k
      · cases clampGet k.ori m <;> cases k.left <;> simp [← hτ.map_smul, hflip]
      · cases clampGet k.ori 0 <;> cases k.left <;> simp [← hτ.map_smul, hflip]
    · cases k.left <;> simp [hflip]
  · simp only [hj, if_false]

theorem applySensors_mapV (hτ : VHom G τ) (flipX : V → V) (flipX' : W → W)
    (hflip : ∀ v, flipX' (τ v) = τ (flipX v)) (σ : V → W) (ks : List (Sens G V)) (B : List (List (List V))) :
    applySensors flipX' (ks.map (Sens.mapV σ)) (B.map (List.map (List.map τ))) =
      (applySensors flipX ks B).map (List.map (List.map τ)) := by
  unfold applySensors
  simp only [pixInds_mapV]
  rw [List.zipIdx_map, List.foldl_map]
  exact foldl_map_comm _ _ _ (fun B ki => sensorFrame_mapV hτ flipX flipX' hflip σ ki.1 _ _ B) _ B

theorem splitRow_map (f : V → W) (inds : List Nat) (row : List V) :
    splitRow inds (row.map f) = (splitRow inds row).map (List.map f) := by
  unfold splitRow
  simp only [List.map_map, Function.comp_def, List.map_take, List.map_drop]

/-- **the pipeline is homogeneous**: all lengths of sources and sensors through `σ`, every field function
`τ`-covariant ⇒ the tensor `[entry][m][sensor][pixel]` goes through `τ` -/
theorem tensor_mapV (hσ : VHom G σ) (hτ : VHom G τ) (flipX : V → V) (flipX' : W → W)
    (hflip : ∀ v, flipX' (τ v) = τ (flipX v)) (Φ : Src G V → W → W)
    (es : List (Entry G V)) (ks : List (Sens G V))
    (hF : ∀ e ∈ es, ∀ s ∈ e.leaves, ∀ x, Φ s (σ x) = τ (s.F x)) :
    tensor flipX' (es.map (Entry.mapV σ Φ)) (ks.map (Sens.mapV σ)) =
      (tensor flipX es ks).map (List.map (List.map (List.map τ))) := by
  unfold tensor
  simp only [flatMap_leaves_mapV, pathLen_mapV, List.length_map, pixInds_mapV, List.map_map]
  have hB0 : (es.flatMap Entry.leaves).map
        (leafB (ks.map (Sens.mapV σ)) (pathLen (es.flatMap Entry.leaves) ks) ∘ Src.mapV σ Φ) =
      ((es.flatMap Entry.leaves).map (leafB ks (pathLen (es.flatMap Entry.leaves) ks))).map
        (List.map (List.map τ)) := by
    rw [List.map_map]
    apply List.map_congr_left
    intro s hs
    obtain ⟨e, he, hse⟩ := List.mem_flatMap.mp hs
    exact leafB_mapV hσ hτ Φ ks _ s (hF e he s hse)
  have h2 : (Entry.colLen ∘ Entry.mapV σ Φ : Entry G V → Option Nat) = Entry.colLen := by
    funext e
    exact Entry.mapV_colLen σ Φ e
  rw [hB0, h2]
  split
  · rw [collapse_map hτ, applySensors_mapV hτ flipX flipX' hflip, List.map_map]
    apply List.map_congr_left
    intro Bl _
    simp only [Function.comp, List.map_map]
    apply List.map_congr_left
    intro row _
    exact splitRow_map τ _ row
  · rw [applySensors_mapV hτ flipX flipX' hflip, List.map_map]
    apply List.map_congr_left
    intro Bl _
    simp only [Function.comp, List.map_map]
    apply List.map_congr_left
    intro row _
    exact splitRow_map τ _ row

/-! ### through `pixel_agg`, `sumup`, `squeeze` to the returned array -/

def Core.mapV (τ : V → W) (c : Core V) : Core W :=
  { nsrc := c.nsrc, M := c.M, pixShapeOut := c.pixShapeOut, B := c.B.map (List.map (List.map (List.map τ))) }

def Out.mapV (τ : V → W) (o : Out V) : Out W := { shape := o.shape, data := o.data.map τ }

theorem aggList_map (hτ : VHom G τ) (agg : Agg) (vmin vmax : V → V → V) (vmin' vmax' : W → W → W)
    (hmin : ∀ a b, vmin' (τ a) (τ b) = τ (vmin a b)) (hmax : ∀ a b, vmax' (τ a) (τ b) = τ (vmax a b)) :
    ∀ l : List V, aggList agg vmin' vmax' (l.map τ) = τ (aggList agg vmin vmax l)
  | [] => hτ.map_zero.symm
  | v :: vs => by
    cases agg
    · rfl
    · simp only [List.map_cons, aggList, List.foldl_map]
      exact foldl_map_comm _ _ τ (fun b a => (hτ.map_add b a).symm) vs v
    · simp only [List.map_cons, aggList, List.foldl_map]
      exact foldl_map_comm _ _ τ (fun b a => hmin b a) vs v
    · simp only [List.map_cons, aggList, List.foldl_map]
      exact foldl_map_comm _ _ τ (fun b a => hmax b a) vs v

theorem aggT_map (hτ : VHom G τ) (agg : Agg) (vmin vmax : V → V → V) (vmin' vmax' : W → W → W)
    (hmin : ∀ a b, vmin' (τ a) (τ b) = τ (vmin a b)) (hmax : ∀ a b, vmax' (τ a) (τ b) = τ (vmax a b))
    (B : List (List (List (List V)))) :
    aggT agg vmin' vmax' (B.map (List.map (List.map (List.map τ)))) =
      (aggT agg vmin vmax B).map (List.map (List.map (List.map τ))) := by
  simp only [aggT, List.map_map, Function.comp_def, List.map_cons, List.map_nil,
    aggList_map hτ agg vmin vmax vmin' vmax' hmin hmax]

theorem sumupT_map (hτ : VHom G τ) (B : List (List (List (List V)))) :
    sumupT (B.map (List.map (List.map (List.map τ)))) = (sumupT B).map (List.map (List.map (List.map τ))) := by
  cases B with
  | nil => rfl
  | cons t ts =>
    simp only [List.map_cons, sumupT, List.map_nil, List.foldl_map]
    congr 1
    apply foldl_map_comm
    intro acc u
    apply zipWith_map_both
    intro a b
    apply zipWith_map_both
    intro c d
    exact zipWith_map_both (· + ·) (· + ·) τ τ τ (fun x y => (hτ.map_add x y).symm) c d

theorem flat4_map (τ : V → W) (B : List (List (List (List V)))) :
    flat4 (B.map (List.map (List.map (List.map τ)))) = (flat4 B).map τ := by
  simp only [flat4, List.map_map, List.map_flatten, Function.comp_def]

/-- `getBH_level2` up to and including `sumup` -/
theorem level2Core_mapV (hσ : VHom G σ) (hτ : VHom G τ) (flipX : V → V) (flipX' : W → W)
    (hflip : ∀ v, flipX' (τ v) = τ (flipX v)) (vmin vmax : V → V → V) (vmin' vmax' : W → W → W)
    (hmin : ∀ a b, vmin' (τ a) (τ b) = τ (vmin a b)) (hmax : ∀ a b, vmax' (τ a) (τ b) = τ (vmax a b))
    (Φ : Src G V → W → W) (es : List (Entry G V)) (ks : List (Sens G V))
    (hF : ∀ e ∈ es, ∀ s ∈ e.leaves, ∀ x, Φ s (σ x) = τ (s.F x)) (sumup : Bool) (agg : Agg) :
    level2Core flipX' vmin' vmax' (es.map (Entry.mapV σ Φ)) (ks.map (Sens.mapV σ)) sumup agg =
      (level2Core flipX vmin vmax es ks sumup agg).map (Core.mapV τ) := by
  unfold level2Core
  have h3 : (es.map (Entry.mapV σ Φ)).any (fun e => e.leaves.isEmpty) = es.any (fun e => e.leaves.isEmpty) := by
    rw [List.any_map]
    congr 1
    funext e
    simp [Entry.mapV_leaves]
  have h4 : (ks.map (Sens.mapV σ)).map (·.pixShape) = ks.map (·.pixShape) := by
    rw [List.map_map]; rfl
  simp only [tensor_mapV hσ hτ flipX flipX' hflip Φ es ks hF, flatMap_leaves_mapV, pathLen_mapV, h3, h4,
    List.isEmpty_map, List.length_map]
  split
  · rfl
  · split
    · rfl
    · cases agg <;> cases sumup <;>
        simp only [Except.map, Core.mapV, aggT_map hτ _ vmin vmax vmin' vmax' hmin hmax, sumupT_map hτ,
          if_true, if_false, Bool.false_eq_true]

/-- **`getBH_level2` (ndarray output) is homogeneous**: same error or same shape, every returned vector through `τ` -/
theorem getBH_mapV (hσ : VHom G σ) (hτ : VHom G τ) (flipX : V → V) (flipX' : W → W)
    (hflip : ∀ v, flipX' (τ v) = τ (flipX v)) (vmin vmax : V → V → V) (vmin' vmax' : W → W → W)
    (hmin : ∀ a b, vmin' (τ a) (τ b) = τ (vmin a b)) (hmax : ∀ a b, vmax' (τ a) (τ b) = τ (vmax a b))
    (Φ : Src G V → W → W) (es : List (Entry G V)) (ks : List (Sens G V))
    (hF : ∀ e ∈ es, ∀ s ∈ e.leaves, ∀ x, Φ s (σ x) = τ (s.F x)) (sumup squeeze : Bool) (agg : Agg) :
    getBH flipX' vmin' vmax' (es.map (Entry.mapV σ Φ)) (ks.map (Sens.mapV σ)) sumup squeeze agg =
      (getBH flipX vmin vmax es ks sumup squeeze agg).map (Out.mapV τ) := by
  unfold getBH
  rw [level2Core_mapV hσ hτ flipX flipX' hflip vmin vmax vmin' vmax' hmin hmax Φ es ks hF]
  cases level2Core flipX vmin vmax es ks sumup agg with
  | error e => rfl
  | ok c => simp only [Except.map, Core.mapV, Out.mapV, List.length_map, flat4_map]

/-! ### relational form: the sources in the new unit are ANY sources related leaf by leaf -/

/-- leaf `s'` is leaf `s` in the new unit: position path through `σ`, same orientation path, and a field function
that is `τ`-covariant against the old one (for a magnet: the same class with its dimensions in the new unit) -/
def SrcRel (σ τ : V → W) (s : Src G V) (s' : Src G W) : Prop :=
  s'.pos = s.pos.map σ ∧ s'.ori = s.ori ∧ ∀ x, s'.F (σ x) = τ (s.F x)

theorem SrcRel.eq_mapV {s : Src G V} {s' : Src G W} (h : SrcRel σ τ s s') : s' = s.mapV σ (fun _ => s'.F) := by
  cases s'
  simp only [SrcRel] at h
  simp only [Src.mapV, h.1, h.2.1]

theorem forall2_map_eq {α β γ δ : Type} {R : α → β → Prop} {l : List α} {l' : List β} (h : List.Forall₂ R l l')
    (f : α → γ) (f' : β → δ) (g : γ → δ) (hf : ∀ a b, R a b → f' b = g (f a)) : l'.map f' = (l.map f).map g := by
  induction h with
  | nil => rfl
  | cons hab _ ih => simp only [List.map_cons, hf _ _ hab, ih]

theorem Entry.leaves_isEmpty_eq {U : Type} (e : Entry G U) : e.leaves.isEmpty = (e.colLen == some 0) := by
  cases e with
  | leaf s => simp [Entry.leaves, Entry.colLen]
  | coll cs => cases h : (Entry.coll cs).leaves <;> simp [Entry.colLen, h]

theorem any_leaves_isEmpty {U : Type} (es : List (Entry G U)) :
    es.any (fun e => e.leaves.isEmpty) = (es.map Entry.colLen).any (· == some 0) := by
  rw [List.any_map]
  congr 1
  funext e
  exact Entry.leaves_isEmpty_eq e

theorem pathLen_rel {ls : List (Src G V)} {ls' : List (Src G W)} (h : List.Forall₂ (SrcRel σ τ) ls ls')
    (ks : List (Sens G V)) : pathLen ls' (ks.map (Sens.mapV σ)) = pathLen ls ks := by
  unfold pathLen
  have h1 : ls'.map (·.pos.length) = (ls.map (·.pos.length)).map id :=
    forall2_map_eq h _ _ id (fun a b hab => by simp [hab.1])
  rw [h1]
  simp [List.map_map, Function.comp_def, Sens.mapV]

/-- **the pipeline is homogeneous, relational form** -/
theorem tensor_rel (hσ : VHom G σ) (hτ : VHom G τ) (flipX : V → V) (flipX' : W → W)
    (hflip : ∀ v, flipX' (τ v) = τ (flipX v)) (es : List (Entry G V)) (es' : List (Entry G W)) (ks : List (Sens G V))
    (hcol : es'.map Entry.colLen = es.map Entry.colLen)
    (hl : List.Forall₂ (SrcRel σ τ) (es.flatMap Entry.leaves) (es'.flatMap Entry.leaves)) :
    tensor flipX' es' (ks.map (Sens.mapV σ)) = (tensor flipX es ks).map (List.map (List.map (List.map τ))) := by
  have hlen : es'.length = es.length := by simpa using congrArg List.length hcol
  have hll : (es'.flatMap Entry.leaves).length = (es.flatMap Entry.leaves).length := hl.length_eq.symm
  unfold tensor
  simp only [pathLen_rel hl, pixInds_mapV, hlen, hll, hcol]
  have hB0 : (es'.flatMap Entry.leaves).map
        (leafB (ks.map (Sens.mapV σ)) (pathLen (es.flatMap Entry.leaves) ks)) =
      ((es.flatMap Entry.leaves).map (leafB ks (pathLen (es.flatMap Entry.leaves) ks))).map
        (List.map (List.map τ)) := by
    apply forall2_map_eq hl
    intro s s' hss
    rw [hss.eq_mapV]
    exact leafB_mapV hσ hτ _ ks _ s hss.2.2
  rw [hB0]
  split
  · rw [collapse_map hτ, applySensors_mapV hτ flipX flipX' hflip, List.map_map, List.map_map]
    apply List.map_congr_left
    intro Bl _
    simp only [Function.comp, List.map_map]
    apply List.map_congr_left
    intro row _
    exact splitRow_map τ _ row
  · rw [applySensors_mapV hτ flipX flipX' hflip, List.map_map, List.map_map]
    apply List.map_congr_left
    intro Bl _
    simp only [Function.comp, List.map_map]
    apply List.map_congr_left
    intro row _
    exact splitRow_map τ _ row

theorem level2Core_rel (hσ : VHom G σ) (hτ : VHom G τ) (flipX : V → V) (flipX' : W → W)
    (hflip : ∀ v, flipX' (τ v) = τ (flipX v)) (vmin vmax : V → V → V) (vmin' vmax' : W → W → W)
    (hmin : ∀ a b, vmin' (τ a) (τ b) = τ (vmin a b)) (hmax : ∀ a b, vmax' (τ a) (τ b) = τ (vmax a b))
    (es : List (Entry G V)) (es' : List (Entry G W)) (ks : List (Sens G V))
    (hcol : es'.map Entry.colLen = es.map Entry.colLen)
    (hl : List.Forall₂ (SrcRel σ τ) (es.flatMap Entry.leaves) (es'.flatMap Entry.leaves)) (sumup : Bool) (agg : Agg) :
    level2Core flipX' vmin' vmax' es' (ks.map (Sens.mapV σ)) sumup agg =
      (level2Core flipX vmin vmax es ks sumup agg).map (Core.mapV τ) := by
  have hlen : es'.length = es.length := by simpa using congrArg List.length hcol
  have hemp : es'.isEmpty = es.isEmpty := by
    cases es <;> cases es' <;> simp_all
  unfold level2Core
  have h4 : (ks.map (Sens.mapV σ)).map (·.pixShape) = ks.map (·.pixShape) := by
    rw [List.map_map]; rfl
  simp only [tensor_rel hσ hτ flipX flipX' hflip es es' ks hcol hl, pathLen_rel hl, h4, any_leaves_isEmpty, hcol,
    hemp, hlen, List.isEmpty_map]
  split
  · rfl
  · split
    · rfl
    · cases agg <;> cases sumup <;>
        simp only [Except.map, Core.mapV, aggT_map hτ _ vmin vmax vmin' vmax' hmin hmax, sumupT_map hτ,
          if_true, if_false, Bool.false_eq_true]

/-- **`getBH_level2` (ndarray output) is homogeneous, relational form** -/
theorem getBH_rel (hσ : VHom G σ) (hτ : VHom G τ) (flipX : V → V) (flipX' : W → W)
    (hflip : ∀ v, flipX' (τ v) = τ (flipX v)) (vmin vmax : V → V → V) (vmin' vmax' : W → W → W)
    (hmin : ∀ a b, vmin' (τ a) (τ b) = τ (vmin a b)) (hmax : ∀ a b, vmax' (τ a) (τ b) = τ (vmax a b))
    (es : List (Entry G V)) (es' : List (Entry G W)) (ks : List (Sens G V))
    (hcol : es'.map Entry.colLen = es.map Entry.colLen)
    (hl : List.Forall₂ (SrcRel σ τ) (es.flatMap Entry.leaves) (es'.flatMap Entry.leaves))
    (sumup squeeze : Bool) (agg : Agg) :
    getBH flipX' vmin' vmax' es' (ks.map (Sens.mapV σ)) sumup squeeze agg =
      (getBH flipX vmin vmax es ks sumup squeeze agg).map (Out.mapV τ) := by
  unfold getBH
  rw [level2Core_rel hσ hτ flipX flipX' hflip vmin vmax vmin' vmax' hmin hmax es es' ks hcol hl]
  cases level2Core flipX vmin vmax es ks sumup agg with
  | error e => rfl
  | ok c => simp only [Except.map, Core.mapV, Out.mapV, List.length_map, flat4_map]

end natural
/-! ### every source entry with its own degree (through `level2_refines`) -/
section perEntry
variable [Group G] [AddCommGroup V] [DistribMulAction G V] [BEq G] [LawfulBEq G]

theorem sum_map_hom {τ : V → V} (hτ : VHom G τ) (l : List V) : (l.map τ).sum = τ l.sum := by
  induction l with
  | nil => exact hτ.map_zero.symm
  | cons a l ih => simp only [List.map_cons, List.sum_cons, ih, hτ.map_add]

theorem pixPos_mapV {σ : V → V} (hσ : VHom G σ) (k : Sens G V) (m : Nat) :
    pixPos (k.mapV σ) m = (pixPos k m).map σ := by
  unfold pixPos
  simp only [Sens.mapV, clampGet_map]
  cases clampGet k.ori m with
  | none => rfl
  | some r =>
    cases clampGet k.pos m with
    | none => rfl
    | some p => simp only [Option.map_some, List.map_map, Function.comp_def, hσ.map_add, hσ.map_smul]

theorem sensT_hom {τ : V → V} (hτ : VHom G τ) (flipX : V → V) (hflip : ∀ v, flipX (τ v) = τ (flipX v))
    (σ : V → V) (k : Sens G V) (m : Nat) (v : V) :
    sensT flipX (k.mapV σ) m (τ v) = τ (sensT flipX k m v) := by
  unfold sensT
  have hori : (k.mapV σ).ori = k.ori := rfl
  have hleft : (k.mapV σ).left = k.left := rfl
  rw [hori, hleft]
  cases clampGet k.ori m <;> cases k.left <;> simp [← hτ.map_smul, hflip]

theorem specValue_mapV {σ : V → V} (hσ : VHom G σ) {τ : V → V} (hτ : VHom G τ) (flipX : V → V)
    (hflip : ∀ v, flipX (τ v) = τ (flipX v)) (Φ : Src G V → V → V) (e : Entry G V)
    (hF : ∀ s ∈ e.leaves, ∀ x, Φ s (σ x) = τ (s.F x)) (k : Sens G V) (m : Nat) (x : V) :
    specValue flipX (e.mapV σ Φ) (k.mapV σ) m (σ x) = τ (specValue flipX e k m x) := by
  unfold specValue
  rw [← sensT_hom hτ flipX hflip, Entry.mapV_leaves, List.map_map, ← sum_map_hom hτ, List.map_map]
  congr 2
  apply List.map_congr_left
  intro s hs
  exact level1_mapV hσ hτ Φ s (hF s hs) m x

theorem Sens.mapV_WF (σ : V → V) (k : Sens G V) (h : k.WF) : (k.mapV σ).WF := by
  obtain ⟨h1, h2, h3⟩ := h
  exact ⟨h1, by simpa [Sens.mapV] using h2, by simpa [Sens.mapV, pixNum] using h3⟩

/-- **per-entry degrees**: every top-level source entry `e` (a bare source or a whole collection) may transform with its
own `τ e`; entry `i` of the tensor in the new unit is `τ (entries[i])` of entry `i` in the old unit -/
theorem tensor_mapV_per_entry {σ : V → V} (hσ : VHom G σ) (τ : Entry G V → V → V) (hτ : ∀ e, VHom G (τ e))
    (flipX : V → V) (hflip : ∀ e v, flipX (τ e v) = τ e (flipX v)) (Φ : Src G V → V → V)
    (entries : List (Entry G V)) (sensors : List (Sens G V))
    (hF : ∀ e ∈ entries, ∀ s ∈ e.leaves, ∀ x, Φ s (σ x) = τ e (s.F x))
    (he : ∀ e ∈ entries, e.leaves ≠ []) (hs : ∀ k ∈ sensors, k.WF) :
    tensor flipX (entries.map (Entry.mapV σ Φ)) (sensors.map (Sens.mapV σ)) =
      List.zipWith (fun e T => T.map (List.map (List.map (τ e)))) entries (tensor flipX entries sensors) := by
  rw [tensor_eq_spec flipX entries sensors he hs,
    tensor_eq_spec flipX _ _
      (by intro e' he'
          obtain ⟨e, hmem, rfl⟩ := List.mem_map.mp he'
          rw [Entry.mapV_leaves]
          simpa using he e hmem)
      (by intro k' hk'
          obtain ⟨k, hmem, rfl⟩ := List.mem_map.mp hk'
          exact Sens.mapV_WF σ k (hs k hmem))]
  unfold specTensor
  simp only [flatMap_leaves_mapV, pathLen_mapV, List.map_map, List.zipWith_map_right, List.zipWith_self]
  apply List.map_congr_left
  intro e hmem
  simp only [Function.comp, List.map_map]
  apply List.map_congr_left
  intro m _
  simp only [Function.comp, List.map_map]
  apply List.map_congr_left
  intro k _
  simp only [Function.comp, pixPos_mapV hσ, List.map_map]
  apply List.map_congr_left
  intro x _
  exact specValue_mapV hσ (hτ e) flipX (hflip e) Φ e (hF e hmem) k m x

end perEntry
/-! ### arrangements: objects of a pose history read by `getB`

The objects of a collection tree after a history (`Node.objs`, pre-order) are handed to `getB` as sources (each a
bare source or a collection = the list of its source leaves, with the local-frame field function of the leaf's class
and parameters) and as sensors (with their pixel data). -/
section arrangement

/-- one source leaf: which object (pre-order index in the tree) and its local-frame field function in the old (`F`)
and in the new (`F'`) unit -/
structure LeafSel (V W : Type) where
  i : Nat
  F : V → V
  F' : W → W

/-- one top-level source argument: a bare source or a collection of source leaves -/
inductive SrcSel (V W : Type) where
  | one (l : LeafSel V W)
  | coll (ls : List (LeafSel V W))

def SrcSel.leafSels : SrcSel V W → List (LeafSel V W)
  | .one l => [l]
  | .coll ls => ls

/-- one sensor argument: which object, pixel offsets (flattened), pixel shape, handedness -/
structure SensSel (V : Type) where
  i : Nat
  pixels : List V
  pixShape : List Nat
  left : Bool

def SensSel.mapV (σ : V → W) (k : SensSel V) : SensSel W :=
  { i := k.i, pixels := k.pixels.map σ, pixShape := k.pixShape, left := k.left }

def srcAt {U : Type} (objs : List (Obj G U)) (i : Nat) (F : U → U) : Src G U :=
  match objs[i]? with
  | some o => { pos := o.pos, ori := o.ori, F := F }
  | none => { pos := [], ori := [], F := F }

/-- the source entry in the old unit -/
def SrcSel.entry (objs : List (Obj G V)) : SrcSel V W → Entry G V
  | .one l => .leaf (srcAt objs l.i l.F)
  | .coll ls => .coll (ls.map fun l => .leaf (srcAt objs l.i l.F))

/-- the source entry in the new unit -/
def SrcSel.entry' (objs : List (Obj G W)) : SrcSel V W → Entry G W
  | .one l => .leaf (srcAt objs l.i l.F')
  | .coll ls => .coll (ls.map fun l => .leaf (srcAt objs l.i l.F'))

def SensSel.sens {U : Type} (objs : List (Obj G U)) (k : SensSel U) : Sens G U :=
  match objs[k.i]? with
  | some o => { pos := o.pos, ori := o.ori, pixels := k.pixels, pixShape := k.pixShape, left := k.left }
  | none => { pos := [], ori := [], pixels := k.pixels, pixShape := k.pixShape, left := k.left }

theorem Node.mapV_objs (σ : V → W) : ∀ n : Node G V, (n.mapV σ).objs = n.objs.map (Obj.mapV σ) := by
  apply Node.induct
  intro o cs ih
  simp only [Node.mapV_mk, Node.objs, List.map_cons, List.map_map, List.map_flatten]
  congr 2
  apply List.map_congr_left
  intro c hc
  exact ih c hc

theorem SensSel.sens_mapV (σ : V → W) (objs : List (Obj G V)) (k : SensSel V) :
    (k.mapV σ).sens (objs.map (Obj.mapV σ)) = (k.sens objs).mapV σ := by
  unfold SensSel.sens SensSel.mapV
  simp only [List.getElem?_map]
  cases objs[k.i]? <;> simp [Sens.mapV, Obj.mapV]

theorem leaves_coll_leaf {U : Type} (ss : List (Src G U)) :
    (Entry.coll (ss.map Entry.leaf)).leaves = ss := by
  simp only [Entry.leaves, List.map_map]
  induction ss with
  | nil => rfl
  | cons a l ih => simp only [List.map_cons, List.flatten_cons, Function.comp_apply, Entry.leaves, ih]; rfl

theorem SrcSel.leaves_entry (objs : List (Obj G V)) (a : SrcSel V W) :
    (a.entry objs).leaves = a.leafSels.map fun l => srcAt objs l.i l.F := by
  cases a with
  | one l => simp [SrcSel.entry, SrcSel.leafSels, Entry.leaves]
  | coll ls =>
    have := leaves_coll_leaf (ls.map fun l => srcAt objs l.i l.F)
    simpa only [SrcSel.entry, SrcSel.leafSels, List.map_map, Function.comp_def] using this

theorem SrcSel.leaves_entry' (objs : List (Obj G W)) (a : SrcSel V W) :
    (a.entry' objs).leaves = a.leafSels.map fun l => srcAt objs l.i l.F' := by
  cases a with
  | one l => simp [SrcSel.entry', SrcSel.leafSels, Entry.leaves]
  | coll ls =>
    have := leaves_coll_leaf (ls.map fun l => srcAt objs l.i l.F')
    simpa only [SrcSel.entry', SrcSel.leafSels, List.map_map, Function.comp_def] using this

theorem SrcSel.colLen_entry' (objs : List (Obj G V)) (σ : V → W) (a : SrcSel V W) :
    (a.entry' (objs.map (Obj.mapV σ))).colLen = (a.entry objs).colLen := by
  cases a with
  | one l => rfl
  | coll ls =>
    have h1 := SrcSel.leaves_entry objs (SrcSel.coll ls : SrcSel V W)
    have h2 := SrcSel.leaves_entry' (objs.map (Obj.mapV σ)) (SrcSel.coll ls : SrcSel V W)
    simp only [SrcSel.entry, SrcSel.entry'] at h1 h2
    simp only [SrcSel.entry, SrcSel.entry', Entry.colLen, h1, h2, List.length_map]

theorem srcAt_rel {σ τ : V → W} (objs : List (Obj G V)) (l : LeafSel V W) (hF : ∀ x, l.F' (σ x) = τ (l.F x)) :
    SrcRel σ τ (srcAt objs l.i l.F) (srcAt (objs.map (Obj.mapV σ)) l.i l.F') := by
  unfold srcAt
  simp only [List.getElem?_map]
  cases objs[l.i]? with
  | none => exact ⟨rfl, rfl, hF⟩
  | some o => exact ⟨rfl, rfl, hF⟩

theorem forall2_leaves {σ τ : V → W} (objs : List (Obj G V)) :
    ∀ (srcs : List (SrcSel V W)), (∀ a ∈ srcs, ∀ l ∈ a.leafSels, ∀ x, l.F' (σ x) = τ (l.F x)) →
      List.Forall₂ (SrcRel σ τ) ((srcs.map (SrcSel.entry objs)).flatMap Entry.leaves)
        ((srcs.map (SrcSel.entry' (objs.map (Obj.mapV σ)))).flatMap Entry.leaves)
  | [], _ => List.Forall₂.nil
  | a :: srcs, h => by
    simp only [List.map_cons, List.flatMap_cons]
    apply List.rel_append
    · rw [SrcSel.leaves_entry, SrcSel.leaves_entry']
      have ha := h a (by simp)
      generalize a.leafSels = ls at ha
      induction ls with
      | nil => exact List.Forall₂.nil
      | cons l ls ih =>
        simp only [List.map_cons]
        exact List.Forall₂.cons (srcAt_rel objs l (ha l (by simp))) (ih (fun l' hl' => ha l' (by simp [hl'])))
    · exact forall2_leaves objs srcs (fun a' ha' => h a' (by simp [ha']))

end arrangement

section arrangementThm
variable [Mul G] [Inv G] [One G] [SMul G V] [SMul G W] [BEq G]
variable [Add V] [Sub V] [Zero V] [Add W] [Sub W] [Zero W]
variable {α : Type} [Kern.Num α]
set_option linter.unusedSectionVars false

/-- **pose history followed by `getB`, all lengths through `σ`**: run any history of pose operations on any tree in the
new unit (`HOp.mapV`, `Node.mapV`), read any selection of its objects as sources (field functions `τ`-covariant
against the old ones) by any selection of its objects as sensors (pixel offsets in the new unit): the returned array
is the one of the old unit with every vector through `τ`, and the same error otherwise -/
theorem arrangement_covariant {σ τ : V → W} (hσ : VHom G σ) (hτ : VHom G τ) (flipX : V → V) (flipX' : W → W)
    (hflip : ∀ v, flipX' (τ v) = τ (flipX v)) (vmin vmax : V → V → V) (vmin' vmax' : W → W → W)
    (hmin : ∀ a b, vmin' (τ a) (τ b) = τ (vmin a b)) (hmax : ∀ a b, vmax' (τ a) (τ b) = τ (vmax a b))
    (sc : RotFrom.Scipy α G) (ops : List (HOp α G V)) (t : Node G V)
    (srcs : List (SrcSel V W)) (sens : List (SensSel V))
    (hF : ∀ a ∈ srcs, ∀ l ∈ a.leafSels, ∀ x, l.F' (σ x) = τ (l.F x)) (sumup squeeze : Bool) (agg : Agg) :
    getBH flipX' vmin' vmax'
        (srcs.map (SrcSel.entry' ((ops.map (HOp.mapV σ)).foldl (Node.hstep sc) (t.mapV σ)).objs))
        (sens.map fun k => (k.mapV σ).sens ((ops.map (HOp.mapV σ)).foldl (Node.hstep sc) (t.mapV σ)).objs)
        sumup squeeze agg =
      (getBH flipX vmin vmax (srcs.map (SrcSel.entry (ops.foldl (Node.hstep sc) t).objs))
        (sens.map fun k => k.sens (ops.foldl (Node.hstep sc) t).objs) sumup squeeze agg).map (Out.mapV τ) := by
  rw [Node.foldl_hstep_mapV hσ, Node.mapV_objs]
  generalize (ops.foldl (Node.hstep sc) t).objs = objs
  have hsens : (sens.map fun k => (k.mapV σ).sens (objs.map (Obj.mapV σ))) =
      (sens.map fun k => k.sens objs).map (Sens.mapV σ) := by
    rw [List.map_map]
    apply List.map_congr_left
    intro k _
    exact SensSel.sens_mapV σ objs k
  rw [hsens]
  apply getBH_rel hσ hτ flipX flipX' hflip vmin vmax vmin' vmax' hmin hmax
  · rw [List.map_map, List.map_map]
    apply List.map_congr_left
    intro a _
    exact SrcSel.colLen_entry' objs σ a
  · exact forall2_leaves objs srcs hF

end arrangementThm
end MagpyVerif.Level2
