/-
Lemmas/TrimeshWinding.lean — C16: the CROSSING part of the ray test of `lines_end_in_trimesh` (one (line, face) entry of
`result_cross`) does not depend on the order in which the three corners of the face are listed — over the real carrier.
(The TOUCH part `|proj1| < 1e-7` does: the normalised projection is measured from the face's last corner.)
-/
import MagpyVerif.Lemmas.TrimeshInside
namespace MagpyVerif.Kern
open MagpyVerif

theorem vNorm2_nonneg (a : V3 ℝ) : 0 ≤ vNorm2 a := by
  simp only [vNorm2]; nlinarith [mul_self_nonneg a.x, mul_self_nonneg a.y, mul_self_nonneg a.z]

theorem dot_eq_zero_of_vNorm2 (a b : V3 ℝ) (h : vNorm2 a = 0) : V3.dot a b = 0 ∧ V3.dot b a = 0 := by
  simp only [vNorm2] at h
  have hx : a.x = 0 := by nlinarith [mul_self_nonneg a.x, mul_self_nonneg a.y, mul_self_nonneg a.z]
  have hy : a.y = 0 := by nlinarith [mul_self_nonneg a.x, mul_self_nonneg a.y, mul_self_nonneg a.z]
  have hz : a.z = 0 := by nlinarith [mul_self_nonneg a.x, mul_self_nonneg a.y, mul_self_nonneg a.z]
  simp [V3.dot, hx, hy, hz]

/-- the sign of the normalised projection is the sign of the scalar product — also when a vector vanishes (`x / 0 = 0`) -/
theorem vNormProj_sgn_all (a b : V3 ℝ) : sgn (vNormProj a b) = sgn (V3.dot a b) := by
  rcases (mul_nonneg (vNorm2_nonneg a) (vNorm2_nonneg b)).lt_or_eq with h | h
  · exact vNormProj_sgn a b h
  · have hd : V3.dot a b = 0 := by
      rcases mul_eq_zero.mp h.symm with h0 | h0
      · exact (dot_eq_zero_of_vNorm2 a b h0).1
      · exact (dot_eq_zero_of_vNorm2 b a h0).2
    have : vNormProj a b = 0 := by
      simp only [vNormProj, sqrt_real, ← h, Real.sqrt_zero, div_zero]
    rw [this, hd]

/-- signed distance (times the normal's length) of `l` from the face's plane -/
def planeFn (f : Tri ℝ) (l : V3 ℝ) : ℝ := V3.dot (l - f.2.2) (V3.cross (f.1 - f.2.2) (f.2.1 - f.2.2))

theorem planeFn_ref (f : Tri ℝ) (l : V3 ℝ) (c : Prop) [Decidable c] :
    V3.dot (l - (if c then f.2.1 else f.2.2)) (V3.cross (f.1 - f.2.2) (f.2.1 - f.2.2)) = planeFn f l := by
  split
  · simp [planeFn, V3.dot, V3.cross]; ring
  · rfl

/-- `pass_through` for one (line, face) entry as a function of the three signed volumes -/
noncomputable def passThroughB (a1 a2 a3 : ℝ) : Bool :=
  (decide (|a1| < 1 / 1000000000000) || decide (|a2| < 1 / 1000000000000) || decide (|a3| < 1 / 1000000000000)) ||
    (sgn a1 == sgn a2 && sgn a2 == sgn a3)

/-- the entry of `result_cross` -/
theorem faceTest_cross (l0 l1 : V3 ℝ) (f : Tri ℝ) :
    (faceTest l0 l1 f).1 =
      (passThroughB (vDotCross3d (f.1 - l0) (f.2.1 - l0) (l1 - l0)) (vDotCross3d (f.2.1 - l0) (f.2.2 - l0) (l1 - l0))
          (vDotCross3d (f.2.2 - l0) (f.1 - l0) (l1 - l0)) &&
        (sgn (planeFn f l0) != sgn (planeFn f l1))) := by
  simp only [faceTest, passThroughB, lt_real, abs_real, n, ofNat_real, Nat.cast_one, Nat.cast_ofNat, signNe_real, signEq,
    vNormProj_sgn_all, not_bne_nat, planeFn_ref]

theorem sgn_neg_beq (a b : ℝ) : (sgn (-a) == sgn (-b)) = (sgn a == sgn b) := by
  simp only [sgn_real, Left.neg_neg_iff, Left.neg_pos_iff]
  rcases lt_trichotomy a 0 with ha | ha | ha <;> rcases lt_trichotomy b 0 with hb | hb | hb <;>
    simp [ha, hb, not_lt.mpr ha.le, not_lt.mpr hb.le]

theorem sgn_neg_bne (a b : ℝ) : (sgn (-a) != sgn (-b)) = (sgn a != sgn b) := by
  simp only [bne, sgn_neg_beq]

theorem beq3_rot (s1 s2 s3 : Nat) : (s2 == s3 && s3 == s1) = (s1 == s2 && s2 == s3) := by
  rw [Bool.eq_iff_iff]
  simp only [Bool.and_eq_true, beq_iff_eq]
  constructor <;> rintro ⟨h1, h2⟩ <;> constructor <;> omega

theorem beq3_flip (s1 s2 s3 : Nat) : (s3 == s2 && s2 == s1) = (s1 == s2 && s2 == s3) := by
  rw [Bool.eq_iff_iff]
  simp only [Bool.and_eq_true, beq_iff_eq]
  constructor <;> rintro ⟨h1, h2⟩ <;> constructor <;> omega

theorem pt_bool_rot (b1 b2 b3 : Bool) (s1 s2 s3 : Nat) :
    ((b2 || b3 || b1) || (s2 == s3 && s3 == s1)) = ((b1 || b2 || b3) || (s1 == s2 && s2 == s3)) := by
  rw [beq3_rot]
  cases b1 <;> cases b2 <;> cases b3 <;> rfl

theorem pt_bool_flip (b1 b2 b3 : Bool) (s1 s2 s3 : Nat) :
    ((b3 || b2 || b1) || (s3 == s2 && s2 == s1)) = ((b1 || b2 || b3) || (s1 == s2 && s2 == s3)) := by
  rw [beq3_flip]
  cases b1 <;> cases b2 <;> cases b3 <;> rfl

theorem passThroughB_rot (a1 a2 a3 : ℝ) : passThroughB a2 a3 a1 = passThroughB a1 a2 a3 := by
  simp only [passThroughB]
  exact pt_bool_rot _ _ _ _ _ _

theorem passThroughB_flip (a1 a2 a3 : ℝ) : passThroughB (-a3) (-a2) (-a1) = passThroughB a1 a2 a3 := by
  simp only [passThroughB, abs_neg, sgn_neg_beq]
  exact pt_bool_flip _ _ _ _ _ _

/-- cyclic rotation of the corners of a face -/
def triRotate (t : Tri ℝ) : Tri ℝ := (t.2.1, t.2.2, t.1)
/-- exchange of the last two corners (what `fix_trimesh_orientation` does to a face) -/
def triFlip (t : Tri ℝ) : Tri ℝ := (t.1, t.2.2, t.2.1)

theorem faceTest_cross_rotate (l0 l1 : V3 ℝ) (f : Tri ℝ) : (faceTest l0 l1 (triRotate f)).1 = (faceTest l0 l1 f).1 := by
  have hp : ∀ l, planeFn (triRotate f) l = planeFn f l := fun l => by
    simp [planeFn, triRotate, V3.dot, V3.cross]; ring
  rw [faceTest_cross, faceTest_cross, hp, hp]
  simp only [triRotate]
  rw [passThroughB_rot]

theorem faceTest_cross_flip (l0 l1 : V3 ℝ) (f : Tri ℝ) : (faceTest l0 l1 (triFlip f)).1 = (faceTest l0 l1 f).1 := by
  have hp : ∀ l, planeFn (triFlip f) l = -planeFn f l := fun l => by
    simp [planeFn, triFlip, V3.dot, V3.cross]; ring
  have hv : ∀ a b c : V3 ℝ, vDotCross3d b a c = -vDotCross3d a b c := fun a b c => by
    simp [vDotCross3d]; ring
  rw [faceTest_cross, faceTest_cross, hp, hp, sgn_neg_bne]
  simp only [triFlip]
  rw [hv (f.2.2 - l0) (f.1 - l0), hv (f.2.1 - l0) (f.2.2 - l0), hv (f.1 - l0) (f.2.1 - l0), passThroughB_flip]

/-- the six ways of listing the corners of a face -/
def triWindings (t : Tri ℝ) : List (Tri ℝ) :=
  [t, triRotate t, triRotate (triRotate t), triFlip t, triRotate (triFlip t), triRotate (triRotate (triFlip t))]

/-- `result_cross` of a face does not depend on how its corners are listed -/
theorem faceTest_cross_winding (l0 l1 : V3 ℝ) (f g : Tri ℝ) (h : g ∈ triWindings f) : (faceTest l0 l1 g).1 = (faceTest l0 l1 f).1 := by
  simp only [triWindings, List.mem_cons, List.not_mem_nil, or_false] at h
  rcases h with rfl | rfl | rfl | rfl | rfl | rfl <;>
    simp only [faceTest_cross_rotate, faceTest_cross_flip]

/-- the number of crossed faces of `lines_end_in_trimesh` (hence the parity test `inside1`) does not depend on the windings -/
theorem crossCount_winding (l0 l1 : V3 ℝ) (f1 f2 : List (Tri ℝ)) (h : List.Forall₂ (fun f g => g ∈ triWindings f) f1 f2) :
    (f2.map (faceTest l0 l1)).countP (·.1) = (f1.map (faceTest l0 l1)).countP (·.1) := by
  induction h with
  | nil => rfl
  | cons hg _ ih =>
    simp only [List.map_cons, List.countP_cons, ih, faceTest_cross_winding l0 l1 _ _ hg]

end MagpyVerif.Kern
