/-
Lemmas/Angax.lean — Model/Angax.lean at α = ℝ: the rotation vectors `rotate_from_angax` hands to
scipy are `θ · â` (θ in radians, â the normalised axis), one per input angle.
-/
import Mathlib.Tactic
import MagpyVerif.Lemmas.KernReal
import MagpyVerif.Model.Angax
namespace MagpyVerif.Angax
open MagpyVerif MagpyVerif.Kern

theorem allZero_iff (v : V3 ℝ) : allZero v = true ↔ v = ⟨0, 0, 0⟩ := by
  cases v with
  | mk x y z =>
    simp only [allZero, eq0_real, Bool.and_eq_true, decide_eq_true_eq, V3.mk.injEq]
    tauto

theorem norm_pos_of_ne_zero (v : V3 ℝ) (h : v ≠ ⟨0, 0, 0⟩) : 0 < Kern.norm v := by
  cases v with
  | mk x y z =>
    simp only [Kern.norm, sqrt_real]
    apply Real.sqrt_pos.mpr
    have : x ≠ 0 ∨ y ≠ 0 ∨ z ≠ 0 := by
      by_contra hc
      push Not at hc
      exact h (by rw [hc.1, hc.2.1, hc.2.2])
    rcases this with h | h | h
    · nlinarith [mul_self_pos.mpr h, mul_self_nonneg y, mul_self_nonneg z]
    · nlinarith [mul_self_pos.mpr h, mul_self_nonneg x, mul_self_nonneg z]
    · nlinarith [mul_self_pos.mpr h, mul_self_nonneg x, mul_self_nonneg y]

/-- accepted axes are non-zero -/
theorem axisVec_ok_ne_zero {axis : AxisIn ℝ} {a : V3 ℝ} (h : axisVec axis = .ok a) : a ≠ ⟨0, 0, 0⟩ := by
  cases axis with
  | str s =>
    simp only [axisVec] at h
    split at h
    · cases h; simp [Kern.n]
    · split at h
      · cases h; simp [Kern.n]
      · split at h
        · cases h; simp [Kern.n]
        · cases h
  | vec v =>
    simp only [axisVec] at h
    split at h
    · cases h
    · rename_i hz
      cases h
      intro e
      exact hz ((allZero_iff _).mpr e)

/-- the normalised axis is a unit vector -/
theorem norm_unit (a : V3 ℝ) (h : a ≠ ⟨0, 0, 0⟩) : Kern.norm (vd a (Kern.norm a)) = 1 := by
  have hl := norm_pos_of_ne_zero a h
  have hsq := norm_sq a
  simp only [Kern.norm, vd, sqrt_real] at *
  set l := Real.sqrt (a.x * a.x + a.y * a.y + a.z * a.z) with hl'
  have : a.x / l * (a.x / l) + a.y / l * (a.y / l) + a.z / l * (a.z / l) = 1 := by
    field_simp
    nlinarith
  rw [this, Real.sqrt_one]

/-- the length of a rotation vector `θ · u`, `|u| = 1`, is the rotation angle `|θ|` -/
theorem norm_vs_unit (θ : ℝ) (u : V3 ℝ) (hu : Kern.norm u = 1) : Kern.norm (vs θ u) = |θ| := by
  have hsq := norm_sq u
  rw [hu] at hsq
  simp only [Kern.norm, vs, sqrt_real] at *
  have : θ * u.x * (θ * u.x) + θ * u.y * (θ * u.y) + θ * u.z * (θ * u.z) = θ ^ 2 := by nlinarith
  rw [this, Real.sqrt_sq_eq_abs]

theorem rotvecOf_eq (a : V3 ℝ) (θ : ℝ) : rotvecOf a θ = vs θ (vd a (Kern.norm a)) := by
  simp only [rotvecOf, vs, vd]
  congr 1 <;> ring

theorem toRad_eq (degrees : Bool) (θ : ℝ) :
    toRad degrees θ = if degrees then θ * Real.pi / 180 else θ := by
  cases degrees
  · simp [toRad]
  · simp only [toRad, if_true, pi_real]
    show θ / ((180 : ℕ) : ℝ) * Real.pi = _
    push_cast
    ring

end MagpyVerif.Angax
