/- index lemmas for the numpy-like list operations of Model/Basic.lean (core Lean only) -/
import MagpyVerif.Model.Basic

namespace MagpyVerif
variable {α : Type}

@[simp] theorem edgePad_nil (b e : Nat) : edgePad b e ([] : List α) = [] := rfl

@[simp] theorem edgePad_zero (xs : List α) : edgePad 0 0 xs = xs := by
  cases xs <;> simp [edgePad]

theorem length_edgePad (b e : Nat) (xs : List α) (h : xs ≠ []) :
    (edgePad b e xs).length = b + xs.length + e := by
  cases xs with
  | nil => exact absurd rfl h
  | cons x xs => simp [edgePad]; omega

theorem edgePad_ne_nil (b e : Nat) (xs : List α) (h : xs ≠ []) : edgePad b e xs ≠ [] := by
  cases xs with
  | nil => exact absurd rfl h
  | cons x xs => simp [edgePad]

/-- entry `i` of an edge-padded list is the old entry at the clamped index `i - b` -/
theorem getElem?_edgePad (b e : Nat) (xs : List α) (h : xs ≠ []) (i : Nat) :
    (edgePad b e xs)[i]? =
      if i < b + xs.length + e then xs[min (i - b) (xs.length - 1)]? else none := by
  cases xs with
  | nil => exact absurd rfl h
  | cons x xs =>
    simp only [edgePad]
    by_cases h1 : i < b
    · rw [List.append_assoc, List.getElem?_append_left (by simpa using h1)]
      have : i - b = 0 := by omega
      simp [this, h1]; omega
    · by_cases h2 : i < b + (xs.length + 1)
      · rw [List.getElem?_append_left (by simp; omega),
            List.getElem?_append_right (by simp; omega)]
        simp only [List.length_replicate, List.length_cons]
        have : min (i - b) (xs.length + 1 - 1) = i - b := by omega
        rw [this]; simp; omega
      · rw [List.getElem?_append_right (by simp; omega)]
        simp only [List.length_append, List.length_replicate, List.length_cons]
        by_cases h3 : i < b + (xs.length + 1) + e
        · have hm : min (i - b) (xs.length + 1 - 1) = xs.length := by omega
          rw [if_pos h3, hm, List.getElem?_replicate]
          have : i - (b + (xs.length + 1)) < e := by omega
          simp only [this, if_true]
          rw [List.getLast_eq_getElem]
          simp
        · rw [if_neg h3, List.getElem?_replicate]
          have : ¬ i - (b + (xs.length + 1)) < e := by omega
          simp [this]

@[simp] theorem length_mapSlice (f : Nat → α → α) (s e : Nat) (xs : List α) :
    (mapSlice f s e xs).length = xs.length := by simp [mapSlice]

theorem getElem?_mapSlice (f : Nat → α → α) (s e : Nat) (xs : List α) (i : Nat) :
    (mapSlice f s e xs)[i]? =
      (xs[i]?).map (fun x => if s ≤ i ∧ i < e then f (i - s) x else x) := by
  simp [mapSlice, List.getElem?_mapIdx]

theorem length_padSlice (n : Nat) (xs : List α) (h : xs ≠ []) : (padSlice n xs).length = n := by
  unfold padSlice
  split
  · rw [length_edgePad _ _ _ h]; omega
  · split
    · simp; omega
    · omega

theorem padSlice_self (xs : List α) : padSlice xs.length xs = xs := by
  simp [padSlice]

/-- `pad_slice_path`: keep the *last* `n` entries when slicing, repeat the last entry when padding -/
theorem getElem?_padSlice (n : Nat) (xs : List α) (h : xs ≠ []) (i : Nat) :
    (padSlice n xs)[i]? =
      if i < n then
        (if n ≤ xs.length then xs[i + (xs.length - n)]? else xs[min i (xs.length - 1)]?)
      else none := by
  have hl : 0 < xs.length := List.length_pos_iff.mpr h
  unfold padSlice
  split
  · rw [getElem?_edgePad _ _ _ h]
    have h1 : ¬ n ≤ xs.length := by omega
    have h2 : (i < 0 + xs.length + (n - xs.length)) ↔ i < n := by omega
    simp only [h1, if_false, Nat.sub_zero]
    by_cases hi : i < n
    · have : i < 0 + xs.length + (n - xs.length) := h2.mpr hi
      rw [if_pos this, if_pos hi]
    · have : ¬ i < 0 + xs.length + (n - xs.length) := fun h => hi (h2.mp h)
      rw [if_neg this, if_neg hi]
  · split
    · rw [List.getElem?_drop]
      by_cases hi : i < n
      · have : n ≤ xs.length := by omega
        simp only [hi, this, if_true]; congr 1; omega
      · simp only [hi, if_false]
        apply List.getElem?_eq_none; omega
    · have : n = xs.length := by omega
      subst this
      by_cases hi : i < xs.length
      · simp [hi]
      · simp only [hi, if_false]; apply List.getElem?_eq_none; omega

end MagpyVerif
