/-
Lemmas/OpHom.lean — the model functions are *natural* in homomorphisms of the rotation carrier.

The marshalling / object models (Model/Level2, Model/Path, Model/Tree) are polymorphic in the rotation
carrier `G`; they use nothing of `G` but `*`, `⁻¹`, `1`, `•` (on the fixed vector type `V`) and `==`.
A map `φ : G → H` that commutes with these five operations (`OpHom V φ`) therefore commutes with every
model function: evaluating the function at `G` and pushing the rotations of the result through `φ`
is the same as evaluating it at `H` on the `φ`-images of the inputs (`*_mapG` lemmas below; vector
results are literally equal, `V` is the same type on both sides).

This is the generic half of the bridge between the carrier the compiled driver computes with
(`M3 Int`, Model/Basic.lean, `Inv := transpose` — not a group) and the carrier the theorems are
about (any Mathlib `Group`): Lemmas/OctaCarrier.lean builds the group `Oct` of octahedral rotation
matrices and shows that the inclusion `Oct → M3 Int` is such a homomorphism.

Also here: versions of the specification-side definitions of Lemmas/Level2*.lean (`sensT`, `pixPos`,
`specValue`, `specTensor`, `Src.moved`, `Sens.moved`, `Entry.moved`, `obsSensor`), which are declared there
under `[Group G] [AddCommGroup V] [DistribMulAction G V]`, with the bare operation classes only
(`…Op`), so that they can be *written down* at `M3 Int`; each is proved equal to the original when
the operations come from a group action (`…_eq_op`, by `rfl`).
-/
import MagpyVerif.Lemmas.Level2Compose
import MagpyVerif.Lemmas.RelPose
import MagpyVerif.Lemmas.Tree

namespace MagpyVerif

/-- `φ : G → H` commutes with the operations of a rotation carrier that the models use -/
structure OpHom {G H : Type} (V : Type) [Mul G] [Inv G] [One G] [SMul G V] [BEq G]
    [Mul H] [Inv H] [One H] [SMul H V] [BEq H] (φ : G → H) : Prop where
  map_mul : ∀ a b, φ (a * b) = φ a * φ b
  map_inv : ∀ a, φ a⁻¹ = (φ a)⁻¹
  map_one : φ 1 = 1
  map_smul : ∀ a (v : V), φ a • v = a • v
  map_beq : ∀ a b, (φ a == φ b) = (a == b)

/-- a list all of whose members are `φ`-images is the `φ`-image of a list -/
theorem exists_map_eq_of_forall_mem {α β : Type} (φ : α → β) :
    ∀ (l : List β), (∀ b ∈ l, ∃ a, φ a = b) → ∃ l' : List α, l'.map φ = l
  | [], _ => ⟨[], rfl⟩
  | b :: l, h => by
    obtain ⟨a, ha⟩ := h b (by simp)
    obtain ⟨l', hl'⟩ := exists_map_eq_of_forall_mem φ l (fun b' hb' => h b' (by simp [hb']))
    exact ⟨a :: l', by simp [ha, hl']⟩

namespace Level2
variable {G H V : Type}

/-! ### change of the rotation carrier on the inputs of `getBH_level2` -/

def Src.mapG (φ : G → H) (s : Src G V) : Src H V := { pos := s.pos, ori := s.ori.map φ, F := s.F }

def Sens.mapG (φ : G → H) (k : Sens G V) : Sens H V :=
  { pos := k.pos, ori := k.ori.map φ, pixels := k.pixels, pixShape := k.pixShape, left := k.left }

def Entry.mapG (φ : G → H) : Entry G V → Entry H V
  | .leaf s => .leaf (s.mapG φ)
  | .coll cs => .coll (cs.map (Entry.mapG φ))

theorem Entry.mapG_leaves (φ : G → H) (e : Entry G V) :
    (e.mapG φ).leaves = e.leaves.map (Src.mapG φ) := by
  induction e using Entry.leaves.induct with
  | case1 s => simp [Entry.mapG, Entry.leaves]
  | case2 cs ih =>
    simp only [Entry.mapG, Entry.leaves, List.map_map, List.map_flatten]
    congr 1
    apply List.map_congr_left
    intro c hc
    exact ih c hc

theorem flatMap_leaves_mapG (φ : G → H) (es : List (Entry G V)) :
    (es.map (Entry.mapG φ)).flatMap Entry.leaves = (es.flatMap Entry.leaves).map (Src.mapG φ) := by
  induction es with
  | nil => rfl
  | cons e es ih => simp only [List.map_cons, List.flatMap_cons, List.map_append, ih, Entry.mapG_leaves]

theorem Entry.mapG_leaves_ne_nil (φ : G → H) (e : Entry G V) :
    (e.mapG φ).leaves ≠ [] ↔ e.leaves ≠ [] := by
  rw [Entry.mapG_leaves]; simp

theorem Entry.mapG_colLen (φ : G → H) (e : Entry G V) : (e.mapG φ).colLen = e.colLen := by
  cases e with
  | leaf s => simp only [Entry.mapG, Entry.colLen]
  | coll cs =>
    have := Entry.mapG_leaves φ (.coll cs)
    simp only [Entry.mapG] at this
    simp only [Entry.mapG, Entry.colLen, this, List.length_map]

theorem Sens.mapG_WF (φ : G → H) (k : Sens G V) : (k.mapG φ).WF ↔ k.WF := by
  simp [Sens.WF, Sens.mapG, pixNum]

theorem pixNum_mapG (φ : G → H) (k : Sens G V) : pixNum (k.mapG φ) = pixNum k := rfl

theorem pixInds_mapG (φ : G → H) (ks : List (Sens G V)) :
    pixInds (ks.map (Sens.mapG φ)) = pixInds ks := by
  simp [pixInds, List.map_map, Function.comp_def, pixNum_mapG]

/-- every entry whose rotations are `φ`-images is the `φ`-image of an entry -/
theorem Entry.exists_mapG_eq (φ : G → H) (e : Entry H V)
    (h : ∀ s ∈ e.leaves, ∀ r ∈ s.ori, ∃ a, φ a = r) : ∃ e' : Entry G V, e'.mapG φ = e := by
  induction e using Entry.leaves.induct with
  | case1 s =>
    obtain ⟨l', hl'⟩ := exists_map_eq_of_forall_mem φ s.ori (h s (by simp [Entry.leaves]))
    exact ⟨.leaf { pos := s.pos, ori := l', F := s.F }, by simp [Entry.mapG, Src.mapG, hl']⟩
  | case2 cs ih =>
    have hc : ∀ c ∈ cs, ∃ c' : Entry G V, c'.mapG φ = c := by
      intro c hc
      apply ih c hc
      intro s hs r hr
      apply h s _ r hr
      simp only [Entry.leaves, List.mem_flatten, List.mem_map]
      exact ⟨c.leaves, ⟨c, hc, rfl⟩, hs⟩
    obtain ⟨cs', hcs'⟩ := exists_map_eq_of_forall_mem (Entry.mapG φ) cs hc
    exact ⟨.coll cs', by simp [Entry.mapG, hcs']⟩

theorem Sens.exists_mapG_eq (φ : G → H) (k : Sens H V) (h : ∀ r ∈ k.ori, ∃ a, φ a = r) :
    ∃ k' : Sens G V, k'.mapG φ = k := by
  obtain ⟨l', hl'⟩ := exists_map_eq_of_forall_mem φ k.ori h
  exact ⟨{ pos := k.pos, ori := l', pixels := k.pixels, pixShape := k.pixShape, left := k.left },
    by simp [Sens.mapG, hl']⟩

/-! ### naturality of the pipeline `Model/Level2` -/
section natural
variable [Mul G] [Inv G] [One G] [SMul G V] [BEq G] [Mul H] [Inv H] [One H] [SMul H V] [BEq H]
variable [Add V] [Sub V] [Zero V]
variable {φ : G → H}
set_option linter.unusedSectionVars false

theorem level1_mapG (hφ : OpHom V φ) (s : Src G V) (m : Nat) (x : V) :
    level1 (s.mapG φ) m x = level1 s m x := by
  unfold level1 Src.mapG
  simp only [clampGet_map]
  cases clampGet s.ori m with
  | none => rfl
  | some r =>
    cases clampGet s.pos m with
    | none => rfl
    | some p => simp only [Option.map_some, ← hφ.map_inv, hφ.map_smul]

theorem poso_mapG (hφ : OpHom V φ) (ks : List (Sens G V)) (m : Nat) :
    poso (ks.map (Sens.mapG φ)) m = poso ks m := by
  unfold poso
  rw [List.flatMap_map]
  congr 1
  funext k
  simp only [Sens.mapG, clampGet_map]
  cases clampGet k.ori m with
  | none => rfl
  | some r =>
    cases clampGet k.pos m with
    | none => rfl
    | some p => simp only [Option.map_some, hφ.map_smul]

theorem leafB_mapG (hφ : OpHom V φ) (ks : List (Sens G V)) (M : Nat) (s : Src G V) :
    leafB (ks.map (Sens.mapG φ)) M (s.mapG φ) = leafB ks M s := by
  unfold leafB
  simp only [poso_mapG hφ]
  apply List.map_congr_left
  intro m _
  apply List.map_congr_left
  intro x _
  exact level1_mapG hφ s m x

omit [Mul G] [Inv G] [One G] [SMul G V] [BEq G] [Mul H] [Inv H] [One H] [SMul H V] [BEq H]
  [Add V] [Sub V] [Zero V] in
theorem pathLen_mapG (φ : G → H) (ls : List (Src G V)) (ks : List (Sens G V)) :
    pathLen (ls.map (Src.mapG φ)) (ks.map (Sens.mapG φ)) = pathLen ls ks := by
  unfold pathLen
  simp [List.map_map, Function.comp_def, Src.mapG, Sens.mapG]

theorem all_beq_map (hφ : OpHom V φ) (l : List G) (a : G) :
    (l.map φ).all (· == φ a) = l.all (· == a) := by
  induction l with
  | nil => rfl
  | cons b l ih => simp only [List.map_cons, List.all_cons, ih, hφ.map_beq]

theorem unrotated_mapG (hφ : OpHom V φ) (k : Sens G V) : unrotated (k.mapG φ) = unrotated k := by
  unfold unrotated Sens.mapG
  rw [← hφ.map_one]
  exact all_beq_map hφ k.ori 1

theorem staticRot_mapG (hφ : OpHom V φ) (k : Sens G V) : staticRot (k.mapG φ) = staticRot k := by
  unfold staticRot Sens.mapG
  cases h : k.ori with
  | nil => rfl
  | cons q qs => simp only [List.map_cons, all_beq_map hφ]

theorem sensorFrame_mapG (hφ : OpHom V φ) (flipX : V → V) (k : Sens G V) (lo hi : Nat)
    (B : List (List (List V))) :
    sensorFrame flipX (k.mapG φ) lo hi B = sensorFrame flipX k lo hi B := by
  unfold sensorFrame
  rw [unrotated_mapG hφ, staticRot_mapG hφ]
  congr 1; funext Bl; congr 1; funext m row; congr 1; funext j v
  simp only [Sens.mapG, clampGet_map]
  cases clampGet k.ori 0 <;> cases clampGet k.ori m <;>
    simp only [Option.map_some, Option.map_none, ← hφ.map_inv, hφ.map_smul]

theorem applySensors_mapG (hφ : OpHom V φ) (flipX : V → V) (ks : List (Sens G V))
    (B : List (List (List V))) :
    applySensors flipX (ks.map (Sens.mapG φ)) B = applySensors flipX ks B := by
  unfold applySensors
  simp only [pixInds_mapG]
  rw [List.zipIdx_map, List.foldl_map]
  congr 1
  funext B ki
  exact sensorFrame_mapG hφ flipX ki.1 _ _ B

/-- **the pipeline is natural**: `tensor` on the `φ`-images of sources and sensors is `tensor` -/
theorem tensor_mapG (hφ : OpHom V φ) (flipX : V → V) (es : List (Entry G V)) (ks : List (Sens G V)) :
    tensor flipX (es.map (Entry.mapG φ)) (ks.map (Sens.mapG φ)) = tensor flipX es ks := by
  unfold tensor
  simp only [flatMap_leaves_mapG, pathLen_mapG, List.map_map, List.length_map, pixInds_mapG,
    applySensors_mapG hφ]
  have h1 : (leafB (ks.map (Sens.mapG φ)) (pathLen (es.flatMap Entry.leaves) ks)) ∘ Src.mapG φ =
      leafB ks (pathLen (es.flatMap Entry.leaves) ks) := by
    funext s
    exact leafB_mapG hφ ks _ s
  have h2 : (Entry.colLen ∘ Entry.mapG φ : Entry G V → Option Nat) = Entry.colLen := by
    funext e
    exact Entry.mapG_colLen φ e
  rw [h1, h2]

theorem level2Core_mapG (hφ : OpHom V φ) (flipX : V → V) (vmin vmax : V → V → V)
    (es : List (Entry G V)) (ks : List (Sens G V)) (sumup : Bool) (agg : Agg) :
    level2Core flipX vmin vmax (es.map (Entry.mapG φ)) (ks.map (Sens.mapG φ)) sumup agg =
      level2Core flipX vmin vmax es ks sumup agg := by
  unfold level2Core
  have h3 : (es.map (Entry.mapG φ)).any (fun e => e.leaves.isEmpty) = es.any (fun e => e.leaves.isEmpty) := by
    rw [List.any_map]
    congr 1
    funext e
    simp [Entry.mapG_leaves]
  have h4 : (ks.map (Sens.mapG φ)).map (·.pixShape) = ks.map (·.pixShape) := by
    rw [List.map_map]; rfl
  simp only [tensor_mapG hφ, flatMap_leaves_mapG, pathLen_mapG, h3, h4, List.isEmpty_map, List.length_map]

/-- **`getBH_level2` (ndarray output) is natural** -/
theorem getBH_mapG (hφ : OpHom V φ) (flipX : V → V) (vmin vmax : V → V → V)
    (es : List (Entry G V)) (ks : List (Sens G V)) (sumup squeeze : Bool) (agg : Agg) :
    getBH flipX vmin vmax (es.map (Entry.mapG φ)) (ks.map (Sens.mapG φ)) sumup squeeze agg =
      getBH flipX vmin vmax es ks sumup squeeze agg := by
  unfold getBH
  simp only [level2Core_mapG hφ, List.length_map]

/-- **`getBH_level2` (dataframe output) is natural** -/
theorem dataframe_mapG (hφ : OpHom V φ) (flipX : V → V) (vmin vmax : V → V → V)
    (es : List (Entry G V)) (ks : List (Sens G V)) (sumup : Bool) (agg : Agg) :
    dataframe flipX vmin vmax (es.map (Entry.mapG φ)) (ks.map (Sens.mapG φ)) sumup agg =
      dataframe flipX vmin vmax es ks sumup agg := by
  unfold dataframe
  have h4 : (ks.map (Sens.mapG φ)).map (·.pixShape) = ks.map (·.pixShape) := by
    rw [List.map_map]; rfl
  simp only [level2Core_mapG hφ, List.length_map, h4]

end natural

/-! ### the specification side with bare operation classes -/
section specOp
variable [Mul G] [Inv G] [One G] [SMul G V] [Add V] [Sub V] [Zero V]

/-- `sensT` (Lemmas/Level2Compose) with bare operation classes -/
def sensTOp (flipX : V → V) (k : Sens G V) (m : Nat) (v : V) : V :=
  if k.left then flipX (match clampGet k.ori m with | some r => r⁻¹ • v | none => v)
  else (match clampGet k.ori m with | some r => r⁻¹ • v | none => v)

/-- `pixPos` with bare operation classes -/
def pixPosOp (k : Sens G V) (m : Nat) : List V :=
  match clampGet k.ori m, clampGet k.pos m with
  | some r, some p => k.pixels.map fun px => r • px + p
  | _, _ => []

/-- `specValue` with bare operation classes -/
def specValueOp (flipX : V → V) (e : Entry G V) (k : Sens G V) (m : Nat) (x : V) : V :=
  sensTOp flipX k m ((e.leaves.map fun s => level1 s m x).sum)

/-- `specTensor` with bare operation classes -/
def specTensorOp (flipX : V → V) (entries : List (Entry G V)) (sensors : List (Sens G V)) :
    List (List (List (List V))) :=
  entries.map fun e => (List.range (pathLen (entries.flatMap Entry.leaves) sensors)).map fun m =>
    sensors.map fun k => (pixPosOp k m).map (specValueOp flipX e k m)

/-- `Src.moved` with bare operation classes -/
def Src.movedOp (Q : G) (t : V) (s : Src G V) : Src G V :=
  { pos := s.pos.map (fun p => Q • p + t), ori := s.ori.map (Q * ·), F := s.F }

/-- `Sens.moved` with bare operation classes -/
def Sens.movedOp (Q : G) (t : V) (k : Sens G V) : Sens G V :=
  { k with pos := k.pos.map (fun p => Q • p + t), ori := k.ori.map (Q * ·) }

/-- `Entry.moved` with bare operation classes -/
def Entry.movedOp (Q : G) (t : V) : Entry G V → Entry G V
  | .leaf s => .leaf (s.movedOp Q t)
  | .coll cs => .coll (cs.map (Entry.movedOp Q t))

/-- `obsSensor` with bare operation classes -/
def obsSensorOp (X : List V) : Sens G V :=
  { pos := [0], ori := [1], pixels := X, pixShape := [X.length], left := false }
end specOp

section specOpEq
variable [Group G] [AddCommGroup V] [DistribMulAction G V]

theorem sensT_eq_op (flipX : V → V) (k : Sens G V) (m : Nat) (v : V) :
    sensT flipX k m v = sensTOp flipX k m v := rfl
theorem pixPos_eq_op (k : Sens G V) (m : Nat) : pixPos k m = pixPosOp k m := rfl
theorem specValue_eq_op (flipX : V → V) (e : Entry G V) (k : Sens G V) (m : Nat) (x : V) :
    specValue flipX e k m x = specValueOp flipX e k m x := rfl
theorem specTensor_eq_op (flipX : V → V) (es : List (Entry G V)) (ks : List (Sens G V)) :
    specTensor flipX es ks = specTensorOp flipX es ks := rfl
theorem Src.moved_eq_op (Q : G) (t : V) (s : Src G V) : s.moved Q t = s.movedOp Q t := rfl
theorem Sens.moved_eq_op (Q : G) (t : V) (k : Sens G V) : k.moved Q t = k.movedOp Q t := rfl
theorem Entry.moved_eq_op (Q : G) (t : V) (e : Entry G V) : e.moved Q t = e.movedOp Q t := by
  induction e using Entry.leaves.induct with
  | case1 s => simp only [Entry.moved, Entry.movedOp, Src.moved_eq_op]
  | case2 cs ih =>
    simp only [Entry.moved, Entry.movedOp]
    congr 1
    apply List.map_congr_left
    intro c hc
    exact ih c hc
omit [DistribMulAction G V] in
theorem obsSensor_eq_op (X : List V) : obsSensor (G := G) X = obsSensorOp X := rfl
end specOpEq

section specNatural
variable [Mul G] [Inv G] [One G] [SMul G V] [BEq G] [Mul H] [Inv H] [One H] [SMul H V] [BEq H]
variable [Add V] [Sub V] [Zero V]
variable {φ : G → H}
set_option linter.unusedSectionVars false

theorem sensTOp_mapG (hφ : OpHom V φ) (flipX : V → V) (k : Sens G V) (m : Nat) (v : V) :
    sensTOp flipX (k.mapG φ) m v = sensTOp flipX k m v := by
  unfold sensTOp
  simp only [Sens.mapG, clampGet_map]
  cases clampGet k.ori m <;> simp only [Option.map_some, Option.map_none, ← hφ.map_inv, hφ.map_smul]

theorem pixPosOp_mapG (hφ : OpHom V φ) (k : Sens G V) (m : Nat) :
    pixPosOp (k.mapG φ) m = pixPosOp k m := by
  unfold pixPosOp
  simp only [Sens.mapG, clampGet_map]
  cases clampGet k.ori m with
  | none => rfl
  | some r =>
    cases clampGet k.pos m with
    | none => rfl
    | some p => simp only [Option.map_some, hφ.map_smul]

theorem specValueOp_mapG (hφ : OpHom V φ) (flipX : V → V) (e : Entry G V) (k : Sens G V) (m : Nat) (x : V) :
    specValueOp flipX (e.mapG φ) (k.mapG φ) m x = specValueOp flipX e k m x := by
  unfold specValueOp
  rw [sensTOp_mapG hφ, Entry.mapG_leaves, List.map_map]
  congr 2
  apply List.map_congr_left
  intro s _
  exact level1_mapG hφ s m x

theorem specTensorOp_mapG (hφ : OpHom V φ) (flipX : V → V) (es : List (Entry G V)) (ks : List (Sens G V)) :
    specTensorOp flipX (es.map (Entry.mapG φ)) (ks.map (Sens.mapG φ)) = specTensorOp flipX es ks := by
  unfold specTensorOp
  simp only [flatMap_leaves_mapG, pathLen_mapG, List.map_map]
  apply List.map_congr_left
  intro e _
  apply List.map_congr_left
  intro m _
  apply List.map_congr_left
  intro k _
  simp only [Function.comp, pixPosOp_mapG hφ]
  apply List.map_congr_left
  intro x _
  exact specValueOp_mapG hφ flipX e k m x

theorem Src.movedOp_mapG (hφ : OpHom V φ) (Q : G) (t : V) (s : Src G V) :
    (s.movedOp Q t).mapG φ = (s.mapG φ).movedOp (φ Q) t := by
  simp only [Src.movedOp, Src.mapG, List.map_map, Function.comp_def, hφ.map_mul, hφ.map_smul]

theorem Sens.movedOp_mapG (hφ : OpHom V φ) (Q : G) (t : V) (k : Sens G V) :
    (k.movedOp Q t).mapG φ = (k.mapG φ).movedOp (φ Q) t := by
  simp only [Sens.movedOp, Sens.mapG, List.map_map, Function.comp_def, hφ.map_mul, hφ.map_smul]

theorem Entry.movedOp_mapG (hφ : OpHom V φ) (Q : G) (t : V) (e : Entry G V) :
    (e.movedOp Q t).mapG φ = (e.mapG φ).movedOp (φ Q) t := by
  induction e using Entry.leaves.induct with
  | case1 s => simp only [Entry.movedOp, Entry.mapG, Src.movedOp_mapG hφ]
  | case2 cs ih =>
    simp only [Entry.movedOp, Entry.mapG, List.map_map]
    congr 1
    apply List.map_congr_left
    intro c hc
    exact ih c hc

theorem obsSensorOp_mapG (hφ : OpHom V φ) (X : List V) :
    (obsSensorOp (G := G) X).mapG φ = obsSensorOp X := by
  simp [obsSensorOp, Sens.mapG, hφ.map_one]

end specNatural
end Level2

/-! ### naturality of the path / tree model (`Model/Path`, `Model/Tree`) -/
section pathTree
open Gen Spec
variable {G H V : Type}

theorem edgePad_map {α β : Type} (f : α → β) (b e : Nat) (xs : List α) :
    edgePad b e (xs.map f) = (edgePad b e xs).map f := by
  cases xs with
  | nil => rfl
  | cons x xs =>
    simp only [List.map_cons, edgePad, List.map_append, List.map_replicate]
    congr 2
    have := List.getLast_map (f := f) (l := x :: xs) (by simp)
    simpa using this

theorem padSlice_map {α β : Type} (f : α → β) (n : Nat) (xs : List α) :
    padSlice n (xs.map f) = (padSlice n xs).map f := by
  unfold padSlice
  simp only [List.length_map]
  split
  · exact edgePad_map f _ _ xs
  · split
    · rw [List.map_drop]
    · rfl

theorem mapSlice_map {α β : Type} (f : α → β) (g : Nat → β → β) (g' : Nat → α → α)
    (hg : ∀ k x, g k (f x) = f (g' k x)) (s e : Nat) (xs : List α) :
    mapSlice g s e (xs.map f) = (mapSlice g' s e xs).map f := by
  unfold mapSlice
  apply List.ext_getElem?
  intro i
  simp only [List.getElem?_mapIdx, List.getElem?_map]
  cases xs[i]? with
  | none => rfl
  | some x =>
    simp only [Option.map_some]
    split
    · rw [hg]
    · rfl

namespace PathIn
theorem isScalar_map {α β : Type} (f : α → β) (p : PathIn α) : (p.map f).isScalar = p.isScalar := by
  cases p <;> rfl
theorem lenip_map {α β : Type} (f : α → β) (p : PathIn α) : (p.map f).lenip = p.lenip := by
  cases p <;> simp [PathIn.map, PathIn.lenip]
theorem len0_map {α β : Type} (f : α → β) (p : PathIn α) : (p.map f).len0 = p.len0 := by
  cases p <;> simp [PathIn.map, PathIn.len0]
theorem get?_map {α β : Type} (f : α → β) (p : PathIn α) (k : Nat) :
    (p.map f).get? k = (p.get? k).map f := by
  cases p <;> simp [PathIn.map, PathIn.get?]
theorem toList_map {α β : Type} (f : α → β) (p : PathIn α) : (p.map f).toList = p.toList.map f := by
  cases p <;> simp [PathIn.map, PathIn.toList]
theorem WF_map {α β : Type} (f : α → β) (p : PathIn α) : (p.map f).WF ↔ p.WF := by
  cases p <;> simp [PathIn.map, PathIn.WF]
/-- a scalar / vector input all of whose members are `f`-images is the image of an input -/
theorem exists_map_eq {α β : Type} (f : α → β) (p : PathIn β) (h : ∀ b ∈ p.toList, ∃ a, f a = b) :
    ∃ p' : PathIn α, p'.map f = p := by
  cases p with
  | scalar x =>
    obtain ⟨a, ha⟩ := h x (by simp [PathIn.toList])
    exact ⟨.scalar a, by simp [PathIn.map, ha]⟩
  | vector xs =>
    obtain ⟨l, hl⟩ := exists_map_eq_of_forall_mem f xs h
    exact ⟨.vector l, by simp [PathIn.map, hl]⟩
end PathIn

/-- change of the rotation carrier on an object's paths -/
def Obj.mapG (φ : G → H) (o : Obj G V) : Obj H V := { pos := o.pos, ori := o.ori.map φ }

theorem Obj.exists_mapG_eq (φ : G → H) (o : Obj H V) (h : ∀ r ∈ o.ori, ∃ a, φ a = r) :
    ∃ o' : Obj G V, o'.mapG φ = o := by
  obtain ⟨l, hl⟩ := exists_map_eq_of_forall_mem φ o.ori h
  exact ⟨⟨o.pos, l⟩, by simp [Obj.mapG, hl]⟩

theorem pathPadding_mapG (φ : G → H) (scalar : Bool) (lenip : Nat) (start : Option Int) (o : Obj G V) :
    pathPadding scalar lenip start (o.mapG φ) =
      ((pathPadding scalar lenip start o).1, (pathPadding scalar lenip start o).2.1.map φ,
       (pathPadding scalar lenip start o).2.2.1, (pathPadding scalar lenip start o).2.2.2) := by
  simp only [pathPadding, Obj.mapG, edgePad_map]

theorem applyMove_mapG [Add V] (φ : G → H) (inp : PathIn V) (start : Option Int) (o : Obj G V) :
    applyMove inp start (o.mapG φ) = (applyMove inp start o).mapG φ := by
  simp only [applyMove, pathPadding_mapG]
  simp only [Obj.mapG]

theorem multiAnchor_mapG (φ : G → H) (a : PathIn V) (r : PathIn G) :
    multiAnchor a (r.map φ) = ((multiAnchor a r).1, (multiAnchor a r).2.map φ) := by
  unfold multiAnchor
  simp only [PathIn.len0_map, PathIn.toList_map]
  split
  · rfl
  · split
    · simp [PathIn.map, edgePad_map]
    · rfl

theorem setPositionObj_mapG (φ : G → H) (inp : List V) (o : Obj G V) :
    setPositionObj inp (o.mapG φ) = (setPositionObj inp o).mapG φ := by
  simp only [setPositionObj, Obj.mapG, padSlice_map]

theorem setOrientationObj_mapG (φ : G → H) (inp : List G) (o : Obj G V) :
    setOrientationObj (inp.map φ) (o.mapG φ) = (setOrientationObj inp o).mapG φ := by
  simp only [setOrientationObj, Obj.mapG, List.length_map]

/-! #### whole trees and histories (`Node.step`, what the `path` driver family runs) -/

/-- change of the rotation carrier on a collection tree -/
def Node.mapG (φ : G → H) : Node G V → Node H V
  | .mk o cs => .mk (o.mapG φ) (cs.map (Node.mapG φ))

/-- change of the rotation carrier on an operation of a history -/
def Op.mapG (φ : G → H) : Op G V → Op H V
  | .move a i s => .move a i s
  | .rotate a r an s => .rotate a (r.map φ) an s
  | .setPos a i => .setPos a i
  | .setOri a i => .setOri a (i.map φ)
  | .reset a => .reset a
  | .rejected => .rejected

theorem Node.mapG_mk (φ : G → H) (o : Obj G V) (cs : List (Node G V)) :
    (Node.mk o cs).mapG φ = .mk (o.mapG φ) (cs.map (Node.mapG φ)) := by
  simp only [Node.mapG]

theorem Node.mapG_obj_pos (φ : G → H) (n : Node G V) : (n.mapG φ).obj.pos = n.obj.pos := by
  cases n; simp only [Node.mapG, Node.obj, Obj.mapG]

theorem Node.move_mapG [Add V] (φ : G → H) (inp : PathIn V) (start : Option Int) (n : Node G V) :
    (n.mapG φ).move inp start = (n.move inp start).mapG φ := by
  induction n using Node.induct with
  | h o cs ih =>
    simp only [Node.mapG_mk, Node.move, applyMove_mapG, List.map_map]
    congr 1
    apply List.map_congr_left
    intro c hc
    exact ih c hc

theorem Node.setPosition_mapG [Add V] [Sub V] (φ : G → H) (inp : List V) (n : Node G V) :
    (n.mapG φ).setPosition inp = (n.setPosition inp).mapG φ := by
  induction n using Node.induct generalizing inp with
  | h o cs ih =>
    simp only [Node.mapG_mk, Node.setPosition, setPositionObj_mapG, List.map_map]
    congr 1
    apply List.map_congr_left
    intro c hc
    simp only [Function.comp, Node.mapG_obj_pos]
    exact ih c hc _

theorem squeezeRot_map {α β : Type} (f : α → β) (xs : List α) :
    Node.squeezeRot (xs.map f) = (Node.squeezeRot xs).map f := by
  match xs with
  | [] => rfl
  | [x] => rfl
  | x :: y :: l => rfl

theorem Node.modifyAt_mapG (f : Node G V → Node G V) (f' : Node H V → Node H V)
    (hf : ∀ n, f' (n.mapG φ) = (f n).mapG φ) (a : List Nat) (n : Node G V) :
    Node.modifyAt f' a (n.mapG φ) = (Node.modifyAt f a n).mapG φ := by
  induction a generalizing n with
  | nil => exact hf n
  | cons i rest ih =>
    cases n with
    | mk o cs =>
      simp only [Node.mapG_mk, Node.modifyAt]
      congr 1
      apply List.ext_getElem?
      intro j
      simp only [List.getElem?_mapIdx, List.getElem?_map]
      cases cs[j]? with
      | none => rfl
      | some c =>
        simp only [Option.map_some]
        split
        · rw [ih]
        · rfl

section ops
variable [Mul G] [Inv G] [One G] [SMul G V] [BEq G] [Mul H] [Inv H] [One H] [SMul H V] [BEq H]
variable [Add V] [Sub V] [Zero V]
variable {φ : G → H}
set_option linter.unusedSectionVars false

theorem parentAnchor_mapG (φ : G → H) (rot : PathIn G) (start : Option Int) (pp : List V) (o : Obj G V) :
    parentAnchor (rot.map φ) start pp (o.mapG φ) = parentAnchor rot start pp o := by
  simp only [parentAnchor, PathIn.isScalar_map, PathIn.lenip_map, Obj.mapG]

theorem applyRotationAligned_some_mapG (hφ : OpHom V φ) (rot : PathIn G) (a : PathIn V)
    (start : Option Int) (o : Obj G V) :
    applyRotationAligned (rot.map φ) (some a) start none (o.mapG φ) =
      (applyRotationAligned rot (some a) start none o).mapG φ := by
  simp only [applyRotationAligned, pathPadding_mapG, PathIn.isScalar_map, PathIn.lenip_map,
    PathIn.get?_map]
  simp only [Obj.mapG]
  congr 1
  · congr 1
    funext k x
    cases rot.get? k with
    | none => rfl
    | some r =>
      cases a.get? k with
      | none => rfl
      | some c => simp only [Option.map_some, hφ.map_smul]
  · apply mapSlice_map
    intro k x
    cases rot.get? k with
    | none => rfl
    | some r => simp only [Option.map_some, hφ.map_mul]

theorem applyRotationAligned_none_mapG (hφ : OpHom V φ) (rot : PathIn G)
    (start : Option Int) (o : Obj G V) :
    applyRotationAligned (rot.map φ) none start none (o.mapG φ) =
      (applyRotationAligned rot none start none o).mapG φ := by
  simp only [applyRotationAligned, pathPadding_mapG, PathIn.isScalar_map, PathIn.lenip_map,
    PathIn.get?_map]
  simp only [Obj.mapG]
  congr 1
  apply mapSlice_map
  intro k x
  cases rot.get? k with
  | none => rfl
  | some r => simp only [Option.map_some, hφ.map_mul]

theorem applyRotationAligned_mapG (hφ : OpHom V φ) (rot : PathIn G) (anchor : Option (PathIn V))
    (start : Option Int) (pp : Option (List V)) (o : Obj G V) :
    applyRotationAligned (rot.map φ) anchor start pp (o.mapG φ) =
      (applyRotationAligned rot anchor start pp o).mapG φ := by
  cases anchor with
  | some a =>
    rw [aligned_some_pp, aligned_some_pp rot]
    exact applyRotationAligned_some_mapG hφ rot a start o
  | none =>
    cases pp with
    | none => exact applyRotationAligned_none_mapG hφ rot start o
    | some pp =>
      rw [aligned_none_pp, aligned_none_pp rot, parentAnchor_mapG]
      exact applyRotationAligned_some_mapG hφ rot _ start o

theorem applyRotation_mapG (hφ : OpHom V φ) (rot : PathIn G) (anchor : Option (PathIn V))
    (start : Option Int) (pp : Option (List V)) (o : Obj G V) :
    applyRotation (rot.map φ) anchor start pp (o.mapG φ) =
      (applyRotation rot anchor start pp o).mapG φ := by
  unfold applyRotation
  cases anchor with
  | none => exact applyRotationAligned_mapG hφ rot none start pp o
  | some a =>
    simp only [multiAnchor_mapG]
    exact applyRotationAligned_mapG hφ _ _ start pp o

theorem relAt_mapG (hφ : OpHom V φ) (c d : Obj G V) (i : Nat) :
    relAt (c.mapG φ) (d.mapG φ) i = (relAt c d i).map (Prod.map id φ) := by
  unfold relAt
  simp only [Obj.mapG, List.getElem?_map]
  cases c.pos[i]? <;> cases c.ori[i]? <;> cases d.pos[i]? <;> cases d.ori[i]? <;>
    simp [← hφ.map_inv, hφ.map_smul, hφ.map_mul]

theorem Node.rotate_mapG (hφ : OpHom V φ) (rot : PathIn G) (anchor : Option (PathIn V))
    (start : Option Int) (pp : Option (List V)) (n : Node G V) :
    (n.mapG φ).rotate (rot.map φ) anchor start pp = (n.rotate rot anchor start pp).mapG φ := by
  induction n using Node.induct generalizing pp with
  | h o cs ih =>
    cases pp <;>
    · simp only [Node.mapG_mk, Node.rotate, applyRotation_mapG hφ, List.map_map]
      congr 1
      apply List.map_congr_left
      intro c hc
      exact ih c hc _

theorem Node.setOrientation_mapG (hφ : OpHom V φ) (inp : List G) (n : Node G V) :
    (n.mapG φ).setOrientation (inp.map φ) = (n.setOrientation inp).mapG φ := by
  cases n with
  | mk o cs =>
    have hz : List.zipWith (fun a b => a * b⁻¹) (inp.map φ) (padSlice inp.length (o.ori.map φ)) =
        (List.zipWith (fun a b => a * b⁻¹) inp (padSlice inp.length o.ori)).map φ := by
      simp only [padSlice_map, List.zipWith_map, List.map_zipWith, hφ.map_mul, hφ.map_inv]
    simp only [Node.mapG_mk, Node.setOrientation, List.length_map, List.map_map]
    simp only [Obj.mapG]
    rw [hz, squeezeRot_map]
    congr 1
    apply List.map_congr_left
    intro c _
    simp only [Function.comp, Node.mapG_obj_pos, Node.setPosition_mapG]
    exact Node.rotate_mapG hφ _ _ _ _ _

theorem Node.resetPath_mapG (hφ : OpHom V φ) (n : Node G V) :
    (n.mapG φ).resetPath = n.resetPath.mapG φ := by
  unfold Node.resetPath
  rw [Node.setPosition_mapG]
  have := Node.setOrientation_mapG hφ [1] (n.setPosition [0])
  simpa only [List.map_cons, List.map_nil, hφ.map_one] using this

/-- **one step of a history is natural** -/
theorem Node.step_mapG (hφ : OpHom V φ) (t : Node G V) (op : Op G V) :
    (t.mapG φ).step (op.mapG φ) = (t.step op).mapG φ := by
  cases op with
  | move a inp start =>
    exact Node.modifyAt_mapG _ _ (Node.move_mapG φ inp start) a t
  | rotate a rot anchor start =>
    exact Node.modifyAt_mapG _ _ (Node.rotate_mapG hφ rot anchor start none) a t
  | setPos a inp =>
    simp only [Op.mapG, Node.step]
    split
    · rfl
    · exact Node.modifyAt_mapG _ _ (Node.setPosition_mapG φ inp) a t
  | setOri a inp =>
    simp only [Op.mapG, Node.step, List.isEmpty_map]
    split
    · rfl
    · exact Node.modifyAt_mapG _ _ (Node.setOrientation_mapG hφ inp) a t
  | reset a =>
    exact Node.modifyAt_mapG _ _ (Node.resetPath_mapG hφ) a t
  | rejected => rfl

/-- **whole histories are natural** -/
theorem Node.foldl_step_mapG (hφ : OpHom V φ) (ops : List (Op G V)) (t : Node G V) :
    (ops.map (Op.mapG φ)).foldl Node.step (t.mapG φ) = (ops.foldl Node.step t).mapG φ := by
  induction ops generalizing t with
  | nil => rfl
  | cons op ops ih => simp only [List.map_cons, List.foldl_cons, Node.step_mapG hφ, ih]

end ops

/-- the rotations an operation mentions -/
def Op.rots : Op G V → List G
  | .rotate _ r _ _ => r.toList
  | .setOri _ i => i
  | _ => []

theorem Op.exists_mapG_eq (φ : G → H) (op : Op H V) (h : ∀ r ∈ op.rots, ∃ a, φ a = r) :
    ∃ op' : Op G V, op'.mapG φ = op := by
  cases op with
  | move a i s => exact ⟨.move a i s, rfl⟩
  | rotate a r an s =>
    obtain ⟨r', hr'⟩ := PathIn.exists_map_eq φ r h
    exact ⟨.rotate a r' an s, by simp [Op.mapG, hr']⟩
  | setPos a i => exact ⟨.setPos a i, rfl⟩
  | setOri a i =>
    obtain ⟨l, hl⟩ := exists_map_eq_of_forall_mem φ i h
    exact ⟨.setOri a l, by simp [Op.mapG, hl]⟩
  | reset a => exact ⟨.reset a, rfl⟩
  | rejected => exact ⟨.rejected, rfl⟩

theorem Node.exists_mapG_eq (φ : G → H) (n : Node H V)
    (h : n.All (fun o => ∀ r ∈ o.ori, ∃ a, φ a = r)) : ∃ n' : Node G V, n'.mapG φ = n := by
  induction n using Node.induct with
  | h o cs ih =>
    obtain ⟨ho, hcs⟩ := Node.all_mk.mp h
    obtain ⟨o', ho'⟩ := Obj.exists_mapG_eq φ o ho
    obtain ⟨cs', hcs'⟩ := exists_map_eq_of_forall_mem (Node.mapG φ) cs (fun c hc => ih c hc (hcs c hc))
    exact ⟨.mk o' cs', by simp only [Node.mapG_mk, ho', hcs']⟩

theorem Node.mapG_all (φ : G → H) (P : H → Prop) (hP : ∀ a, P (φ a)) (n : Node G V) :
    (n.mapG φ).All (fun o => ∀ r ∈ o.ori, P r) := by
  induction n using Node.induct with
  | h o cs ih =>
    rw [Node.mapG_mk]
    refine .mk ?_ ?_
    · intro r hr
      obtain ⟨a, _, rfl⟩ := List.mem_map.mp hr
      exact hP a
    · intro c hc
      obtain ⟨c0, hc0, rfl⟩ := List.mem_map.mp hc
      exact ih c0 hc0

end pathTree

end MagpyVerif
