/- Lemmas/Validators.lean — helper lemmas for C17: the bottom-up shape inference of the validator model
against the top-down documented notion `hasShape`; normal forms of the validators. -/
import MagpyVerif.Spec.ValidSpec

namespace MagpyVerif.Valid
open MagpyVerif.Gen

/-! ### shapesOf / shapeOf -/

theorem shapesOf_eq (xs : List PyVal) (ss : List (List Nat)) :
    shapesOf xs = some ss ↔ xs.map shapeOf = ss.map some := by
  induction xs generalizing ss with
  | nil =>
    cases ss <;> simp [shapesOf]
  | cons x xs ih =>
    simp only [shapesOf, List.map_cons]
    cases hx : shapeOf x with
    | none =>
      cases ss <;> simp
    | some s =>
      cases hxs : shapesOf xs with
      | none =>
        cases ss with
        | nil => simp
        | cons t ts =>
          simp only [List.map_cons, List.cons.injEq, Option.some.injEq, reduceCtorEq, false_iff, not_and]
          intro _ h
          have := (ih ts).mpr h
          simp [hxs] at this
      | some ss' =>
        cases ss with
        | nil => simp
        | cons t ts =>
          simp only [Option.some.injEq, List.cons.injEq, List.map_cons]
          constructor
          · rintro ⟨rfl, rfl⟩
            exact ⟨rfl, (ih ss').mp hxs⟩
          · rintro ⟨rfl, h⟩
            have := (ih ts).mpr h
            simp [hxs] at this
            exact ⟨rfl, this⟩

theorem shapesOf_const (xs : List PyVal) (s : List Nat) (h : ∀ x ∈ xs, shapeOf x = some s) :
    shapesOf xs = some (List.replicate xs.length s) := by
  rw [shapesOf_eq]
  induction xs with
  | nil => rfl
  | cons x xs ih =>
    simp only [List.map_cons, List.length_cons, List.replicate_succ, List.cons.injEq]
    exact ⟨h x (by simp), ih (fun y hy => h y (by simp [hy]))⟩

/-- the shape numpy infers for a list/tuple -/
theorem shapeOf_seq_iff (xs : List PyVal) (n : Nat) (s : List Nat) :
    shapeOf (.seq xs) = some (n :: s) ↔
      xs.length = n ∧ (if n = 0 then s = [] else ∀ x ∈ xs, shapeOf x = some s) := by
  constructor
  · intro h
    simp only [shapeOf] at h
    cases hs : shapesOf xs with
    | none => simp [hs] at h
    | some l =>
      have hmap := (shapesOf_eq xs l).mp hs
      have hlen : xs.length = l.length := by simpa using congrArg List.length hmap
      cases l with
      | nil =>
        simp only [hs, Option.some.injEq, List.cons.injEq] at h
        obtain ⟨rfl, rfl⟩ := h
        simp at hlen
        simp [hlen]
      | cons t ts =>
        simp only [hs] at h
        split at h
        · rename_i hall
          simp only [Option.some.injEq, List.cons.injEq] at h
          obtain ⟨rfl, rfl⟩ := h
          refine ⟨by simp [hlen], ?_⟩
          simp only [Nat.succ_ne_zero, if_false]
          intro x hx
          have hmem : shapeOf x ∈ xs.map shapeOf := List.mem_map_of_mem hx
          rw [hmap] at hmem
          simp only [List.map_cons, List.mem_cons, List.mem_map] at hmem
          rcases hmem with h1 | ⟨u, hu, h2⟩
          · exact h1
          · have := List.all_eq_true.mp hall u hu
            rw [← h2, eq_of_beq this]
        · simp at h
  · rintro ⟨rfl, h⟩
    cases xs with
    | nil =>
      simp only [List.length_nil, if_true] at h
      subst h
      simp [shapeOf, shapesOf]
    | cons x xs =>
      simp only [List.length_cons, Nat.succ_ne_zero, if_false] at h
      have := shapesOf_const (x :: xs) s h
      simp only [shapeOf, this, List.length_cons, List.replicate_succ]
      simp

/-- KEY LEMMA: the validator's bottom-up shape inference succeeds with shape `sh` exactly when the
value is, in the documented top-down sense, an array_like of shape `sh` -/
theorem shapeOf_iff_hasShape (sh : List Nat) (v : PyVal) : shapeOf v = some sh ↔ hasShape sh v = true := by
  induction sh generalizing v with
  | nil =>
    cases v with
    | seq xs =>
      simp only [hasShape, isEntry, Bool.false_eq_true, iff_false]
      intro h
      simp only [shapeOf] at h
      cases hs : shapesOf xs with
      | none => simp [hs] at h
      | some l =>
        cases l with
        | nil => simp [hs] at h
        | cons t ts => simp only [hs] at h; split at h <;> simp at h
    | arr sh' d => simp [shapeOf, hasShape]
    | str s => simp [shapeOf, hasShape, isEntry]
    | none => simp [shapeOf, hasShape, isEntry]
    | nanf => simp [shapeOf, hasShape, isEntry]
    | bool b => simp [shapeOf, hasShape, isEntry]
    | num n => simp [shapeOf, hasShape, isEntry]
    | flt n => simp [shapeOf, hasShape, isEntry]
    | npbool b => simp [shapeOf, hasShape, isEntry]
    | cplx => simp [shapeOf, hasShape, isEntry]
    | obj => simp [shapeOf, hasShape, isEntry]
    | rot n f => simp [shapeOf, hasShape, isEntry]
  | cons n s ih =>
    cases v with
    | seq xs =>
      rw [shapeOf_seq_iff]
      simp only [hasShape, Bool.and_eq_true, beq_iff_eq]
      by_cases hn : n = 0
      · subst hn; simp
      · simp only [hn, if_false, List.all_eq_true]
        constructor
        · rintro ⟨h1, h2⟩; exact ⟨h1, fun x hx => (ih x).mp (h2 x hx)⟩
        · rintro ⟨h1, h2⟩; exact ⟨h1, fun x hx => (ih x).mpr (h2 x hx)⟩
    | arr sh' d => simp [shapeOf, hasShape]
    | str s => simp [shapeOf, hasShape]
    | none => simp [shapeOf, hasShape]
    | nanf => simp [shapeOf, hasShape]
    | bool b => simp [shapeOf, hasShape]
    | num n => simp [shapeOf, hasShape]
    | flt n => simp [shapeOf, hasShape]
    | npbool b => simp [shapeOf, hasShape]
    | cplx => simp [shapeOf, hasShape]
    | obj => simp [shapeOf, hasShape]
    | rot n f => simp [shapeOf, hasShape]

/-- an array_like has one shape -/
theorem hasShape_unique (sh sh' : List Nat) (v : PyVal) (h : hasShape sh v = true) (h' : hasShape sh' v = true) : sh = sh' := by
  have a := (shapeOf_iff_hasShape sh v).mpr h
  have b := (shapeOf_iff_hasShape sh' v).mpr h'
  rw [a] at b
  exact Option.some.inj b

/-! ### the statement-by-statement `make_float_array` against the shape inference with the strict leaf rule -/

mutual
/-- the float shape is the raw shape of `np.array(inp)` when every leaf is a number, and refused otherwise -/
theorem shapeOf_eq_raw : (v : PyVal) → shapeOf v = if (leaves v).all isEntry then rawShape v else Option.none
  | .seq xs => by
    have h := shapesOf_eq_raw xs
    simp only [shapeOf, rawShape, leaves, h]
    by_cases c : (leavesL xs).all isEntry = true <;> simp only [c, if_true, if_false, Bool.false_eq_true]
  | .arr sh d => by simp [shapeOf, rawShape, leaves]
  | .none => by simp [shapeOf, leaves, isEntry]
  | .bool b => by simp [shapeOf, rawShape, leaves, isEntry]
  | .num n => by simp [shapeOf, rawShape, leaves, isEntry]
  | .flt n => by simp [shapeOf, rawShape, leaves, isEntry]
  | .npbool b => by simp [shapeOf, rawShape, leaves, isEntry]
  | .nanf => by simp [shapeOf, rawShape, leaves, isEntry]
  | .str s => by simp [shapeOf, leaves, isEntry]
  | .cplx => by simp [shapeOf, leaves, isEntry]
  | .obj => by simp [shapeOf, leaves, isEntry]
  | .rot n f => by simp [shapeOf, leaves, isEntry]
theorem shapesOf_eq_raw : (xs : List PyVal) → shapesOf xs = if (leavesL xs).all isEntry then rawShapes xs else Option.none
  | [] => by simp [shapesOf, rawShapes, leavesL]
  | x :: xs => by
    have h1 := shapeOf_eq_raw x
    have h2 := shapesOf_eq_raw xs
    simp only [shapesOf, rawShapes, leavesL, List.all_append, h1, h2]
    by_cases c1 : (leaves x).all isEntry = true <;> by_cases c2 : (leavesL xs).all isEntry = true <;>
      simp only [c1, c2, if_true, if_false, Bool.and_true, Bool.and_false, Bool.false_eq_true, Bool.and_self]
    · cases rawShape x <;> rfl
end

theorem all_entry_iff (ls : List PyVal) :
    ls.all isEntry = true ↔ ls.any isObjLeaf = false ∧ ls.any isStrLeaf = false ∧ ls.any isCplxLeaf = false := by
  induction ls with
  | nil => simp
  | cons l ls ih =>
    simp only [List.all_cons, List.any_cons, Bool.and_eq_true, Bool.or_eq_false_iff, ih]
    cases l <;> simp [isEntry, isObjLeaf, isStrLeaf, isCplxLeaf]

/-- a nesting of numbers has a numeric dtype kind, and every other nesting has not -/
theorem kindOf_numeric_iff (v : PyVal) : kindOf v = .numeric ↔ (leaves v).all isEntry = true := by
  rw [all_entry_iff]
  unfold kindOf
  dsimp only
  cases (leaves v).any isObjLeaf <;> cases (leaves v).any isStrLeaf <;> cases (leaves v).any isCplxLeaf <;> simp

theorem all_entry_no_cplx (ls : List PyVal) (h : ls.all isEntry = true) : ls.any isCplxLeaf = false :=
  ((all_entry_iff ls).mp h).2.2

theorem kindOf_object_not_numbers (v : PyVal) (h : kindOf v = .object) : (leaves v).all isNumberLeaf = false := by
  unfold kindOf at h
  dsimp only at h
  have hobj : (leaves v).any isObjLeaf = true := by
    cases ho : (leaves v).any isObjLeaf with
    | true => rfl
    | false =>
      simp only [ho, Bool.false_eq_true, if_false] at h
      generalize (leaves v).any isStrLeaf = a at h
      generalize (leaves v).any isCplxLeaf = b at h
      cases a <;> cases b <;> simp at h
  obtain ⟨l, hl, ho⟩ := List.any_eq_true.mp hobj
  apply Bool.eq_false_iff.mpr
  intro hall
  have := List.all_eq_true.mp hall l hl
  cases l <;> simp_all [isObjLeaf, isNumberLeaf]

/-- the result of `make_float_array` in the form the lemmas below use -/
def makeFloatArraySimple (v : PyVal) : Except Err NDArr :=
  match shapeOf v with
  | Option.none => .error .badUserInput
  | some sh => .ok ⟨sh, flat v⟩

/-- the model of `make_float_array` written along the statements of the repaired function accepts exactly the
rectangular nestings of numbers (and ndarrays) and returns their shape and entries -/
theorem makeFloatArray_eq (v : PyVal) : makeFloatArray v = makeFloatArraySimple v := by
  unfold makeFloatArray makeFloatArraySimple
  rw [shapeOf_eq_raw]
  by_cases hall : (leaves v).all isEntry = true
  · have hk := (kindOf_numeric_iff v).mpr hall
    simp only [hall, if_true, hk, bne_self_eq_false, Bool.false_and, Bool.false_eq_true, if_false,
      all_entry_no_cplx _ hall]
    cases rawShape v <;> rfl
  · simp only [hall]
    have hk : kindOf v ≠ .numeric := fun h => hall ((kindOf_numeric_iff v).mp h)
    cases hr : rawShape v with
    | none => rfl
    | some sh =>
      simp only [Bool.false_eq_true, if_false]
      have : (kindOf v != Kind.numeric && (kindOf v != Kind.object || !(leaves v).all isNumberLeaf)) = true := by
        cases hkv : kindOf v with
        | numeric => exact absurd hkv hk
        | object => simp [kindOf_object_not_numbers v hkv]
        | other => simp
      simp only [this, if_true]

/-! ### stored data -/

theorem flatL_length_const (xs : List PyVal) (k : Nat) (h : ∀ x ∈ xs, (flat x).length = k) :
    (flatL xs).length = xs.length * k := by
  induction xs with
  | nil => simp [flatL]
  | cons x xs ih =>
    simp only [flatL, List.length_append, List.length_cons]
    rw [h x (by simp), ih (fun y hy => h y (by simp [hy])), Nat.succ_mul, Nat.add_comm]

/-- the float copy of an array_like of shape `sh` has `prod sh` entries -/
theorem flat_length (sh : List Nat) (v : PyVal) (h : hasShape sh v = true) : (flat v).length = prod sh := by
  induction sh generalizing v with
  | nil =>
    cases v with
    | seq xs => simp [hasShape, isEntry] at h
    | arr sh' d =>
      simp only [hasShape, beq_iff_eq] at h
      subst h; simp [flat, prod]
    | str s => simp [hasShape, isEntry] at h
    | none => simp [hasShape, isEntry] at h
    | nanf => simp [flat, prod]
    | bool b => simp [flat, prod]
    | num n => simp [flat, prod]
    | flt n => simp [flat, prod]
    | npbool b => simp [flat, prod]
    | cplx => simp [hasShape, isEntry] at h
    | obj => simp [hasShape, isEntry] at h
    | rot n f => simp [hasShape, isEntry] at h
  | cons n s ih =>
    cases v with
    | seq xs =>
      simp only [hasShape, Bool.and_eq_true, beq_iff_eq] at h
      obtain ⟨hl, hrest⟩ := h
      by_cases hn : n = 0
      · subst hn
        have : xs = [] := List.eq_nil_of_length_eq_zero hl
        subst this
        simp [flat, flatL, prod]
      · simp only [hn, if_false, List.all_eq_true] at hrest
        simp only [flat, prod]
        rw [flatL_length_const xs (prod s) (fun x hx => ih x (hrest x hx)), hl]
    | arr sh' d =>
      simp only [hasShape, beq_iff_eq] at h
      subst h; simp [flat]
    | str s => simp [hasShape] at h
    | none => simp [hasShape] at h
    | nanf => simp [hasShape] at h
    | bool b => simp [hasShape] at h
    | num n => simp [hasShape] at h
    | flt n => simp [hasShape] at h
    | npbool b => simp [hasShape] at h
    | cplx => simp [hasShape] at h
    | obj => simp [hasShape] at h
    | rot n f => simp [hasShape] at h

theorem prod_eq_zero_iff (sh : List Nat) : prod sh = 0 ↔ 0 ∈ sh := by
  induction sh with
  | nil => simp [prod]
  | cons n s ih =>
    simp only [prod, Nat.mul_eq_zero, ih, List.mem_cons]
    constructor
    · rintro (h | h)
      · exact Or.inl h.symm
      · exact Or.inr h
    · rintro (h | h)
      · exact Or.inl h.symm
      · exact Or.inr h

theorem prod_append_singleton (ns : List Nat) (k : Nat) : prod (ns ++ [k]) = prod ns * k := by
  induction ns with
  | nil => simp [prod]
  | cons n s ih => simp only [List.cons_append, prod, ih, Nat.mul_assoc]

/-! ### check_array_shape -/

theorem checkArrayShape_ok_iff (a : NDArr) (dims : List Nat) (m1 : Int) (len : Nat) (h0 : 0 ∉ dims) :
    checkArrayShape a dims m1 len = .ok () ↔ shapeCond dims m1 len a.shape := by
  unfold checkArrayShape shapeCond
  by_cases hd : a.shape.length ∈ dims
  · have hne : a.shape ≠ [] := by
      intro h; rw [h] at hd; exact h0 hd
    obtain ⟨x, rest, hx⟩ := List.exists_cons_of_ne_nil hne
    obtain ⟨l, hl⟩ : ∃ l, a.shape.getLast? = some l := ⟨a.shape.getLast hne, List.getLast?_eq_some_getLast hne⟩
    have hc : dims.contains a.shape.length = true := by simpa using hd
    simp only [hc, if_true, hl, hd, true_and]
    have hhead : a.shape.head? = some x := by rw [hx]; rfl
    simp only [hhead]
    by_cases hm : m1 = -1
    · subst hm
      by_cases hlen : len = 0
      · subst hlen; simp
      · by_cases hxl : x = len
        · subst hxl; simp
        · simp [hlen, hxl]
    · have hm' : (m1 == -1) = false := by simpa using hm
      simp only [hm', Bool.false_eq_true, if_false, hm, false_or]
      by_cases hlm : (l : Int) = m1
      · have : ((l : Int) == m1) = true := by simpa using hlm
        simp only [this, if_true]
        by_cases hlen : len = 0
        · subst hlen; simp [hlm]
        · by_cases hxl : x = len
          · subst hxl; simp [hlm]
          · simp [hlen, hxl]
      · have : ((l : Int) == m1) = false := by simpa using hlm
        simp [this, hlm]
  · have hc : dims.contains a.shape.length = false := by simpa using hd
    simp [hd]

theorem checkArrayShape_error (a : NDArr) (dims : List Nat) (m1 : Int) (len : Nat) (h0 : 0 ∉ dims) (e : Err)
    (h : checkArrayShape a dims m1 len = .error e) : e = .badUserInput := by
  unfold checkArrayShape at h
  by_cases hd : a.shape.length ∈ dims
  · have hne : a.shape ≠ [] := by
      intro h'; rw [h'] at hd; exact h0 hd
    obtain ⟨x, rest, hx⟩ := List.exists_cons_of_ne_nil hne
    obtain ⟨l, hl⟩ : ∃ l, a.shape.getLast? = some l := ⟨a.shape.getLast hne, List.getLast?_eq_some_getLast hne⟩
    have hc : dims.contains a.shape.length = true := by simpa using hd
    have hhead : a.shape.head? = some x := by rw [hx]; rfl
    simp only [hc, if_true, hl, hhead] at h
    repeat' split at h
    all_goals first | (cases h; done) | (injection h with h; exact h.symm) | skip
  · have hc : dims.contains a.shape.length = false := by simpa using hd
    simp only [hc, Bool.false_eq_true, if_false] at h
    injection h with h; exact h.symm

/-! ### normal form of check_format_input_vector -/

/-- the part of check_format_input_vector that follows the float conversion -/
def afterConvert (cfg : Attr.Row) (a : NDArr) : Except Err Stored :=
  match checkArrayShape a cfg.dims cfg.shapeM1 cfg.length with
  | .error e => .error e
  | .ok () =>
    if cfg.reshape then
      if a.size == 0 then .error .badUserInput
      else if a.size % 3 != 0 then .error (.foreign "ValueError")
      else .ok (.array ⟨[a.size / 3, 3], a.data⟩)
    else if cfg.forbidNegative0 && a.data.any (fun x => x.le (.fin 0)) then .error .badUserInput
    else .ok (.array a)

theorem checkVector_none (cfg : Attr.Row) :
    checkVector cfg .none = if cfg.allowNone then .ok .none else .error .badUserInput := by
  unfold checkVector
  cases cfg.allowNone <;> simp [isArrayLikeCheck, isArrayLike]

theorem checkVector_of_not_arrayLike (cfg : Attr.Row) (v : PyVal) (h : isArrayLike v = false) (hn : v ≠ .none) :
    checkVector cfg v = .error .badUserInput := by
  unfold checkVector
  cases v <;> simp_all [isArrayLikeCheck, isArrayLike] <;> split <;> simp_all

theorem checkVector_of_arrayLike (cfg : Attr.Row) (v : PyVal) (h : isArrayLike v = true) :
    checkVector cfg v = match shapeOf v with
      | Option.none => .error .badUserInput
      | some sh => afterConvert cfg ⟨sh, flat v⟩ := by
  unfold checkVector
  cases v with
  | seq xs =>
    simp only [isArrayLikeCheck, isArrayLike, makeFloatArray_eq, makeFloatArraySimple, afterConvert]
    split
    · rename_i heq; cases heq
    · cases shapeOf (.seq xs) <;> rfl
  | arr sh d =>
    simp only [isArrayLikeCheck, isArrayLike, makeFloatArray_eq, makeFloatArraySimple, afterConvert]
    split
    · rename_i heq; cases heq
    · rfl
  | _ => simp [isArrayLike] at h

/-! ### the shape conditions of the concrete configurations -/

theorem shapeCond_vec (k : Nat) (sh : List Nat) : shapeCond [1] (k : Int) 0 sh ↔ sh = [k] := by
  unfold shapeCond
  constructor
  · rintro ⟨hlen, hlast, _⟩
    simp only [List.mem_singleton] at hlen
    match sh, hlen with
    | [a], _ =>
      rcases hlast with h | ⟨l, hl, hk⟩
      · omega
      · simp only [List.getLast?_singleton, Option.some.injEq] at hl
        subst hl
        have : a = k := by omega
        rw [this]
  · rintro rfl
    exact ⟨by simp, Or.inr ⟨k, by simp, rfl⟩, Or.inl rfl⟩

theorem shapeCond_rows (L : Nat) (sh : List Nat) :
    shapeCond [2] 3 L sh ↔ ∃ n, sh = [n, 3] ∧ (L = 0 ∨ n = L) := by
  unfold shapeCond
  constructor
  · rintro ⟨hlen, hlast, hl⟩
    simp only [List.mem_singleton] at hlen
    match sh, hlen with
    | [a, b], _ =>
      rcases hlast with h | ⟨l, hl', hk⟩
      · omega
      · simp only [List.getLast?_cons_cons, List.getLast?_singleton, Option.some.injEq] at hl'
        subst hl'
        have : b = 3 := by omega
        subst this
        refine ⟨a, rfl, ?_⟩
        rcases hl with h | h
        · exact Or.inl h
        · simp only [List.head?_cons, Option.some.injEq] at h
          exact Or.inr h
  · rintro ⟨n, rfl, h⟩
    refine ⟨by simp, Or.inr ⟨3, by simp, rfl⟩, ?_⟩
    rcases h with h | h
    · exact Or.inl h
    · exact Or.inr (by simp [h])

theorem shapeCond_position (sh : List Nat) :
    shapeCond [1, 2] 3 0 sh ↔ sh = [3] ∨ ∃ m, sh = [m, 3] := by
  unfold shapeCond
  constructor
  · rintro ⟨hlen, hlast, _⟩
    rcases hlast with h | ⟨l, hl', hk⟩
    · omega
    · have hl3 : l = 3 := by omega
      subst hl3
      simp only [List.mem_cons, List.not_mem_nil, or_false] at hlen
      rcases hlen with h1 | h2
      · match sh, h1 with
        | [a], _ =>
          simp only [List.getLast?_singleton, Option.some.injEq] at hl'
          exact Or.inl (by rw [hl'])
      · match sh, h2 with
        | [a, b], _ =>
          simp only [List.getLast?_cons_cons, List.getLast?_singleton, Option.some.injEq] at hl'
          exact Or.inr ⟨a, by rw [hl']⟩
  · rintro (rfl | ⟨m, rfl⟩)
    · exact ⟨by simp, Or.inr ⟨3, by simp, rfl⟩, Or.inl rfl⟩
    · exact ⟨by simp, Or.inr ⟨3, by simp, rfl⟩, Or.inl rfl⟩

theorem mem_pixel_dims (n : Nat) : n ∈ pixelCfg.dims ↔ 1 ≤ n ∧ n ≤ 19 := by
  simp only [pixelCfg, List.mem_cons, List.not_mem_nil, or_false]
  omega

theorem shapeCond_pixel (sh : List Nat) :
    shapeCond pixelCfg.dims 3 0 sh ↔ ∃ ns, sh = ns ++ [3] ∧ ns.length ≤ 18 := by
  unfold shapeCond
  rw [mem_pixel_dims]
  constructor
  · rintro ⟨hlen, hlast, _⟩
    rcases hlast with h | ⟨l, hl', hk⟩
    · omega
    · have hl3 : l = 3 := by omega
      subst hl3
      obtain ⟨ns, hns⟩ := List.getLast?_eq_some_iff.mp hl'
      refine ⟨ns, hns, ?_⟩
      rw [hns] at hlen
      simp only [List.length_append, List.length_singleton] at hlen
      omega
  · rintro ⟨ns, rfl, h⟩
    refine ⟨by simp only [List.length_append, List.length_singleton]; omega, Or.inr ⟨3, by simp, rfl⟩, Or.inl rfl⟩

/-! ### reading the documented formats -/

theorem outerLen_of_hasShape (n : Nat) (s : List Nat) (v : PyVal) (h : hasShape (n :: s) v = true) : outerLen v = n := by
  cases v with
  | seq xs =>
    simp only [hasShape, Bool.and_eq_true, beq_iff_eq] at h
    exact h.1
  | arr sh d =>
    simp only [hasShape, beq_iff_eq] at h
    subst h; rfl
  | _ => simp [hasShape] at h

theorem flatL_nums (vals : List Int) : flatL (vals.map .num) = vals.map .fin := by
  induction vals with
  | nil => rfl
  | cons v vs ih => simp [flatL, flat, ih]

/-- "shape (k,)" for a list/tuple: exactly k float-compatible entries -/
theorem hasShape_vec_iff (k : Nat) (xs : List PyVal) :
    hasShape [k] (.seq xs) = true ↔ xs.length = k ∧ ∀ x ∈ xs, hasShape [] x = true := by
  rw [hasShape]
  simp only [Bool.and_eq_true, beq_iff_eq]
  by_cases hk : k = 0
  · subst hk
    simp only [if_true, beq_self_eq_true, and_true]
    constructor
    · intro h
      refine ⟨h, ?_⟩
      intro x hx
      rw [List.eq_nil_of_length_eq_zero h] at hx
      cases hx
    · exact fun h => h.1
  · simp only [hk, if_false, List.all_eq_true]

/-- "shape (n,3)" for a list/tuple of lists/tuples, n ≥ 1: n rows of 3 float-compatible entries -/
theorem hasShape_rows_iff (n : Nat) (hn : n ≠ 0) (xs : List PyVal) :
    hasShape [n, 3] (.seq xs) = true ↔ xs.length = n ∧ ∀ x ∈ xs, hasShape [3] x = true := by
  rw [hasShape]
  simp only [Bool.and_eq_true, beq_iff_eq, hn, if_false, List.all_eq_true]

theorem hasShape_nums (k : Nat) (vals : List Int) : hasShape [k] (.seq (vals.map .num)) = true ↔ vals.length = k := by
  rw [hasShape_vec_iff]
  simp [hasShape, isEntry]

/-! ### the separator rows of Polyline.vertices -/

theorem rawShape_of_hasShape (sh : List Nat) (v : PyVal) (h : hasShape sh v = true) : rawShape v = some sh := by
  have h1 := (shapeOf_iff_hasShape sh v).mpr h
  rw [shapeOf_eq_raw] at h1
  split at h1
  · exact h1
  · cases h1

theorem rawShapes_const (xs : List PyVal) (s : List Nat) (h : ∀ x ∈ xs, rawShape x = some s) :
    rawShapes xs = some (List.replicate xs.length s) := by
  induction xs with
  | nil => rfl
  | cons x xs ih =>
    simp only [rawShapes, h x (by simp), ih (fun y hy => h y (by simp [hy])), List.length_cons, List.replicate_succ]

theorem rawShape_rows (xs : List PyVal) (s : List Nat) (hne : xs ≠ []) (h : ∀ x ∈ xs, rawShape x = some s) :
    rawShape (.seq xs) = some (xs.length :: s) := by
  cases xs with
  | nil => exact absurd rfl hne
  | cons x xs =>
    have := rawShapes_const (x :: xs) s h
    simp only [rawShape, this, List.length_cons, List.replicate_succ]
    simp

theorem isNoneRow3_iff (r : PyVal) : isNoneRow3 r = true ↔ r = .seq [.none, .none, .none] := by
  constructor
  · intro h
    unfold isNoneRow3 at h
    split at h
    · rfl
    · cases h
  · rintro rfl; rfl

theorem all_none_length3 (xs : List PyVal) (h : xs.all isNoneLeaf = true) (hl : xs.length = 3) :
    xs = [.none, .none, .none] := by
  match xs, hl with
  | [a, b, c], _ =>
    simp only [List.all_cons, List.all_nil, Bool.and_true, Bool.and_eq_true] at h
    obtain ⟨ha, hb, hc⟩ := h
    cases a <;> simp [isNoneLeaf] at ha
    cases b <;> simp [isNoneLeaf] at hb
    cases c <;> simp [isNoneLeaf] at hc
    rfl

/-- a row after the replacement is a triple of numbers iff it was one, or was the separator row -/
theorem rowNan_hasShape3 (r : PyVal) :
    hasShape [3] (rowNan r) = true ↔ hasShape [3] r = true ∨ isNoneRow3 r = true := by
  cases r with
  | seq xs =>
    unfold rowNan
    by_cases hall : xs.all isNoneLeaf = true
    · simp only [hall, if_true, hasShape_vec_iff, List.length_map, List.mem_map, forall_exists_index, and_imp,
        forall_apply_eq_imp_iff₂]
      constructor
      · rintro ⟨hl, _⟩
        exact Or.inr ((isNoneRow3_iff _).mpr (by rw [all_none_length3 xs hall hl]))
      · rintro (⟨hl, _⟩ | h)
        · exact ⟨hl, fun _ _ => by simp [hasShape, isEntry]⟩
        · have := (isNoneRow3_iff _).mp h
          injection this with this
          subst this
          exact ⟨rfl, fun _ _ => by simp [hasShape, isEntry]⟩
    · simp only [hall, Bool.false_eq_true, if_false]
      constructor
      · exact Or.inl
      · rintro (h | h)
        · exact h
        · have := (isNoneRow3_iff _).mp h
          injection this with this
          subst this
          exact absurd rfl hall
  | _ => simp [rowNan, isNoneRow3]

theorem rawShape_row3 (r : PyVal) (h : hasShape [3] r = true ∨ isNoneRow3 r = true) : rawShape r = some [3] := by
  rcases h with h | h
  · exact rawShape_of_hasShape _ _ h
  · rw [(isNoneRow3_iff r).mp h]; rfl

theorem noneRowsToNan_seq (rows : List PyVal) :
    noneRowsToNan (.seq rows) = .seq (rows.map rowNan) ∨ noneRowsToNan (.seq rows) = .seq rows := by
  simp only [noneRowsToNan]
  split
  · exact Or.inl rfl
  · exact Or.inr rfl

/-- `none_rows_to_nan`: the result is an (n,3) array_like iff the input is a nonempty list of n rows, each a triple of
numbers or the separator row (None, None, None) -/
theorem noneRowsToNan_hasShape (rows : List PyVal) (n : Nat) :
    hasShape [n, 3] (noneRowsToNan (.seq rows)) = true ↔
      rows.length = n ∧ n ≠ 0 ∧ ∀ r ∈ rows, hasShape [3] r = true ∨ isNoneRow3 r = true := by
  by_cases hn : n = 0
  · subst hn
    simp only [ne_eq, not_true_eq_false, false_and, and_false, iff_false, Bool.not_eq_true]
    rcases noneRowsToNan_seq rows with h | h <;> rw [h] <;> simp [hasShape]
  · constructor
    · intro h
      rcases noneRowsToNan_seq rows with h' | h' <;> rw [h'] at h
      · rw [hasShape_rows_iff n hn] at h
        refine ⟨by simpa using h.1, hn, fun r hr => (rowNan_hasShape3 r).mp (h.2 _ (List.mem_map_of_mem hr))⟩
      · rw [hasShape_rows_iff n hn] at h
        exact ⟨h.1, hn, fun r hr => Or.inl (h.2 r hr)⟩
    · rintro ⟨hl, _, hr⟩
      have hne : rows ≠ [] := by rintro rfl; exact hn hl.symm
      have hraw := rawShape_rows rows [3] hne (fun r hx => rawShape_row3 r (hr r hx))
      unfold noneRowsToNan
      simp only [hraw]
      rw [hasShape_rows_iff n hn]
      refine ⟨by simpa using hl, ?_⟩
      intro x hx
      obtain ⟨r, hrm, rfl⟩ := List.mem_map.mp hx
      exact (rowNan_hasShape3 r).mpr (hr r hrm)

theorem noneRowsToNan_arrayLike (v : PyVal) : isArrayLike (noneRowsToNan v) = isArrayLike v := by
  cases v with
  | seq rows => rcases noneRowsToNan_seq rows with h | h <;> rw [h] <;> rfl
  | _ => rfl

theorem noneRowsToNan_ne_none (v : PyVal) : noneRowsToNan v = .none ↔ v = .none := by
  cases v with
  | seq rows => rcases noneRowsToNan_seq rows with h | h <;> rw [h] <;> simp
  | _ => simp [noneRowsToNan]

theorem vertPrep_eq (v : PyVal) : (if isSeq v then noneRowsToNan v else v) = noneRowsToNan v := by
  cases v <;> simp [isSeq, noneRowsToNan]

/-! ### cylinder segment helpers -/

theorem FVal.exists_fin_of_ne_nan (x : FVal) (h : x ≠ .nan) : ∃ n, x = .fin n := by
  cases x with
  | fin n => exact ⟨n, rfl⟩
  | nan => exact absurd rfl h

theorem list5_fin (l : List FVal) (hl : l.length = 5) (hn : FVal.nan ∉ l) :
    ∃ a b c d e : Int, l = [.fin a, .fin b, .fin c, .fin d, .fin e] := by
  match l, hl with
  | [x1, x2, x3, x4, x5], _ =>
    obtain ⟨a, rfl⟩ := FVal.exists_fin_of_ne_nan x1 (by rintro rfl; simp at hn)
    obtain ⟨b, rfl⟩ := FVal.exists_fin_of_ne_nan x2 (by rintro rfl; simp at hn)
    obtain ⟨c, rfl⟩ := FVal.exists_fin_of_ne_nan x3 (by rintro rfl; simp at hn)
    obtain ⟨d, rfl⟩ := FVal.exists_fin_of_ne_nan x4 (by rintro rfl; simp at hn)
    obtain ⟨e, rfl⟩ := FVal.exists_fin_of_ne_nan x5 (by rintro rfl; simp at hn)
    exact ⟨a, b, c, d, e, rfl⟩

/-- the five geometric conditions of the code (case2 … case5), for finite entries, say `segmentOK` -/
theorem segment_cases_iff (r1 r2 h p1 p2 : Int) :
    ((FVal.fin r2).lt (.fin r1) || (FVal.fin p2).lt (.fin p1) || (FVal.fin 360).lt ((FVal.fin p2).sub (.fin p1)) ||
      ((FVal.fin r1).lt (.fin 0) || (FVal.fin r2).le (.fin 0) || (FVal.fin h).le (.fin 0))) = true ↔
      ¬ segmentOK r1 r2 h p1 p2 := by
  simp only [FVal.lt, FVal.le, FVal.sub, Bool.or_eq_true, decide_eq_true_eq, segmentOK]
  omega

/-! ### check_format_input_vector2 -/

theorem zipShapeCheck_ok_iff (sh : List Nat) (shape : List (Option Nat)) :
    zipShapeCheck sh shape = .ok () ↔ shapeAgrees sh shape := by
  induction sh generalizing shape with
  | nil => simp [zipShapeCheck, shapeAgrees]
  | cons d ds ih =>
    cases shape with
    | nil => simp [zipShapeCheck, shapeAgrees]
    | cons o os =>
      have step : shapeAgrees (d :: ds) (o :: os) ↔ (∀ k, o = some k → d = k) ∧ shapeAgrees ds os := by
        constructor
        · intro h
          refine ⟨fun k hk => h 0 d k rfl (by simp [hk]), ?_⟩
          intro i d' k h1 h2
          exact h (i + 1) d' k (by simpa using h1) (by simpa using h2)
        · rintro ⟨h0, hrest⟩ i d' k h1 h2
          cases i with
          | zero =>
            simp only [List.getElem?_cons_zero, Option.some.injEq] at h1 h2
            subst h1
            exact h0 k h2
          | succ j => exact hrest j d' k (by simpa using h1) (by simpa using h2)
      rw [step]
      cases o with
      | none => simp [zipShapeCheck, ih]
      | some k =>
        simp only [zipShapeCheck]
        by_cases hdk : d = k
        · subst hdk; simp [ih]
        · simp [hdk]

theorem zipShapeCheck_error (sh : List Nat) (shape : List (Option Nat)) (e : Err)
    (h : zipShapeCheck sh shape = .error e) : e = .foreign "ValueError" := by
  induction sh generalizing shape with
  | nil => simp [zipShapeCheck] at h
  | cons d ds ih =>
    cases shape with
    | nil => simp [zipShapeCheck] at h
    | cons o os =>
      cases o with
      | none => simp only [zipShapeCheck] at h; exact ih os h
      | some k =>
        simp only [zipShapeCheck] at h
        split at h
        · injection h with h; exact h.symm
        · exact ih os h

/-! ### unfolding the documented formats for a value other than None; the position branch -/

theorem docVec_of_ne_none (k : Nat) (pos : Bool) (v : PyVal) (hv : v ≠ .none) :
    docVec k pos v = (isArrayLike v && hasShape [k] v && (!pos || (flat v).all fun x => !x.le (.fin 0))) := by
  cases v <;> first | (exact absurd rfl hv) | rfl

theorem docRows_of_ne_none (fixed : Option Nat) (nmin : Nat) (v : PyVal) (hv : v ≠ .none) :
    docRows fixed nmin v = (isArrayLike v && hasShape [outerLen v, 3] v &&
      (match fixed with
       | some n => outerLen v == n
       | Option.none => decide (nmin ≤ outerLen v))) := by
  cases v <;> first | (exact absurd rfl hv) | rfl

theorem afterConvert_position (sh : List Nat) (d : List FVal) (s : Stored) :
    afterConvert positionCfg ⟨sh, d⟩ = .ok s ↔
      (sh = [3] ∧ s = .array ⟨[1, 3], d⟩) ∨ (∃ m, 1 ≤ m ∧ sh = [m, 3] ∧ s = .array ⟨[m, 3], d⟩) := by
  unfold afterConvert
  cases hc : checkArrayShape ⟨sh, d⟩ positionCfg.dims positionCfg.shapeM1 positionCfg.length with
  | error e =>
    simp only [reduceCtorEq, false_iff, not_or, not_and, not_exists]
    have hno : ¬ shapeCond [1, 2] 3 0 sh := by
      intro hcond
      have := (checkArrayShape_ok_iff ⟨sh, d⟩ [1, 2] 3 0 (by simp)).mpr hcond
      simp only [positionCfg] at hc
      rw [this] at hc; cases hc
    rw [shapeCond_position] at hno
    constructor
    · intro h _; exact hno (Or.inl h)
    · intro m _ h _; exact hno (Or.inr ⟨m, h⟩)
  | ok u =>
    have hcond := (checkArrayShape_ok_iff ⟨sh, d⟩ [1, 2] 3 0 (by simp)).mp (by simpa [positionCfg] using hc)
    rw [shapeCond_position] at hcond
    rcases hcond with rfl | ⟨m, rfl⟩
    · simp only [positionCfg, NDArr.size, prod, if_true]
      simp only [Nat.mul_one, Nat.reduceBEq, Bool.false_eq_true, if_false, Nat.mod_self, bne_self_eq_false,
        Nat.div_self (by decide : 0 < 3), Except.ok.injEq, true_and, List.cons.injEq]
      constructor
      · rintro rfl; exact Or.inl rfl
      · rintro (h | ⟨m, _, hm, _⟩)
        · exact h.symm
        · exact absurd hm.2 (by simp)
    · simp only [positionCfg, NDArr.size, prod, if_true, Nat.mul_one]
      by_cases hm : m = 0
      · subst hm
        simp only [Nat.zero_mul, beq_self_eq_true, if_true, reduceCtorEq, false_iff, not_or, not_and, not_exists]
        constructor
        · intro h; cases h
        · intro k hk h
          simp only [List.cons.injEq, and_true] at h
          omega
      · have h1 : (m * 3 == 0) = false := by
          simp only [beq_eq_false_iff_ne, ne_eq]; omega
        simp only [h1, Bool.false_eq_true, if_false, Nat.mul_mod_left, bne_self_eq_false,
          Nat.mul_div_cancel m (by decide : 0 < 3), Except.ok.injEq]
        constructor
        · rintro rfl
          exact Or.inr ⟨m, by omega, rfl, rfl⟩
        · rintro (⟨h, _⟩ | ⟨k, _, hk, rfl⟩)
          · cases h
          · simp only [List.cons.injEq, and_true] at hk
            rw [hk]

theorem docSegment_of_ne_none (v : PyVal) (hv : v ≠ .none) :
    docSegment v = (isArrayLike v && hasShape [5] v &&
      (match flat v with
       | [.fin r1, .fin r2, .fin h, .fin p1, .fin p2] => decide (segmentOK r1 r2 h p1 p2)
       | _ => false)) := by
  cases v <;> first | (exact absurd rfl hv) | rfl

end MagpyVerif.Valid
