/-
Lemmas/SegmentBS.lean — the straight-segment kernel `segmentH` (port of `current_polyline_Hfield`)
equals the Biot–Savart line integral over the segment.

Route.  With `d = p2 − p1`, `w = po − p1`, `L = |d|`, `ρ = d·w`, `W = w·w`, `D² = W − ρ²/L²` (squared
distance of the observer from the carrier line):
  * the Biot–Savart numerator `d × (po − (p1 + s d))` does not depend on `s` (`cross_const`);
  * `|po − (p1 + s d)|² = (L s − ρ/L)² + D²` (`q_eq`), so the scalar integral is the one of
    `Props/C01.integral_seg` after the affine substitution `t = L s − ρ/L`;
  * the code works on the points divided by `L`, computes the foot point `p4`, the distances
    `|p4 − p1| = |s₀|`, `|p4 − p2| = |1 − s₀|` (`s₀ = ρ/L²`), and picks `|sinθ₁ − sinθ₂|` or
    `|sinθ₁ + sinθ₂|` from the masks `|s₀| > 1 ∧ |s₀| > |1 − s₀|` etc.; in each of the three cases
    (foot point beyond p2, before p1, in between) this is `|s₀/|w'| + (1 − s₀)/|w' − d'||`
    (`core_dS`), which is the closed form of the integral.
-/
import Mathlib.Analysis.SpecialFunctions.Integrals.Basic
import Mathlib.Analysis.SpecialFunctions.Sqrt
import MagpyVerif.Lemmas.KernReal

namespace MagpyVerif.SegBS
open MagpyVerif MagpyVerif.Kern Real intervalIntegral

/-- squared Euclidean norm -/
def nsq (v : V3 ℝ) : ℝ := v.x * v.x + v.y * v.y + v.z * v.z

theorem nsq_nonneg (v : V3 ℝ) : 0 ≤ nsq v := by
  unfold nsq; nlinarith [mul_self_nonneg v.x, mul_self_nonneg v.y, mul_self_nonneg v.z]

theorem norm_eq (v : V3 ℝ) : Kern.norm v = Real.sqrt (nsq v) := rfl

theorem norm_nonneg (v : V3 ℝ) : 0 ≤ Kern.norm v := Real.sqrt_nonneg _

theorem norm_mul_self (v : V3 ℝ) : Kern.norm v * Kern.norm v = nsq v :=
  Real.mul_self_sqrt (nsq_nonneg v)

theorem norm_of_nsq_eq_sq (v : V3 ℝ) (c : ℝ) (h : nsq v = c * c) : Kern.norm v = |c| := by
  rw [norm_eq, h, Real.sqrt_mul_self_eq_abs]

/-! ### antiderivative and definite integral of the filament kernel (as in Props/C01) -/

theorem hasDerivAt_g (D2 : ℝ) (hD : 0 < D2) (t : ℝ) :
    HasDerivAt (fun t => t / (D2 * Real.sqrt (t ^ 2 + D2)))
      (1 / ((t ^ 2 + D2) * Real.sqrt (t ^ 2 + D2))) t := by
  have hpos : 0 < t ^ 2 + D2 := by positivity
  have hs : HasDerivAt (fun t => Real.sqrt (t ^ 2 + D2)) ((2 * t) / (2 * Real.sqrt (t ^ 2 + D2))) t := by
    have h1 : HasDerivAt (fun t : ℝ => t ^ 2 + D2) (2 * t) t := by
      simpa using ((hasDerivAt_pow 2 t).add_const D2)
    exact h1.sqrt hpos.ne'
  have hden : HasDerivAt (fun t => D2 * Real.sqrt (t ^ 2 + D2))
      (D2 * ((2 * t) / (2 * Real.sqrt (t ^ 2 + D2)))) t := hs.const_mul D2
  have hspos : 0 < Real.sqrt (t ^ 2 + D2) := Real.sqrt_pos.mpr hpos
  have hq : HasDerivAt (fun t => t / (D2 * Real.sqrt (t ^ 2 + D2))) _ t :=
    (hasDerivAt_id' t).div hden (by positivity)
  refine hq.congr_deriv ?_
  have hss : Real.sqrt (t ^ 2 + D2) * Real.sqrt (t ^ 2 + D2) = t ^ 2 + D2 := Real.mul_self_sqrt hpos.le
  set s := Real.sqrt (t ^ 2 + D2) with hs_def
  have hd2 : t ^ 2 + D2 = s * s := hss.symm
  rw [hd2]
  field_simp
  nlinarith [hss, hd2]

theorem integral_g (D2 a b : ℝ) (hD : 0 < D2) :
    ∫ t in a..b, 1 / ((t ^ 2 + D2) * Real.sqrt (t ^ 2 + D2)) =
      b / (D2 * Real.sqrt (b ^ 2 + D2)) - a / (D2 * Real.sqrt (a ^ 2 + D2)) := by
  apply integral_eq_sub_of_hasDerivAt (fun t _ => hasDerivAt_g D2 hD t)
  apply Continuous.intervalIntegrable
  have : ∀ t : ℝ, (t ^ 2 + D2) * Real.sqrt (t ^ 2 + D2) ≠ 0 := by
    intro t; have hpos : 0 < t ^ 2 + D2 := by positivity
    exact mul_ne_zero hpos.ne' (Real.sqrt_pos.mpr hpos).ne'
  exact continuous_const.div (by fun_prop) this

/-- the closed form is non-negative for `a ≤ b` (it is the integral of a positive function) -/
theorem g_diff_nonneg (D2 a b : ℝ) (hD : 0 < D2) (hab : a ≤ b) :
    0 ≤ b / (D2 * Real.sqrt (b ^ 2 + D2)) - a / (D2 * Real.sqrt (a ^ 2 + D2)) := by
  rw [← integral_g D2 a b hD]
  apply intervalIntegral.integral_nonneg hab
  intro t _
  have hpos : 0 < t ^ 2 + D2 := by positivity
  have := Real.sqrt_pos.mpr hpos
  positivity

/-! ### the code's case split on the position of the foot point -/

section core
variable (p1 p2 po : V3 ℝ)

theorem n41_eq (hu : nsq (p2 - p1) = 1) :
    Kern.norm ((p1 + vs (V3.dot (po - p1) (p1 - p2)) (p1 - p2)) - p1) = |V3.dot (po - p1) (p2 - p1)| := by
  apply norm_of_nsq_eq_sq
  simp only [nsq, vs, V3.dot, V3.add_x, V3.add_y, V3.add_z, V3.sub_x, V3.sub_y, V3.sub_z] at hu ⊢
  linear_combination (((po.x - p1.x) * (p2.x - p1.x) + (po.y - p1.y) * (p2.y - p1.y) + (po.z - p1.z) * (p2.z - p1.z)) ^ 2) * hu

theorem n42_eq (hu : nsq (p2 - p1) = 1) :
    Kern.norm ((p1 + vs (V3.dot (po - p1) (p1 - p2)) (p1 - p2)) - p2) = |1 - V3.dot (po - p1) (p2 - p1)| := by
  apply norm_of_nsq_eq_sq
  simp only [nsq, vs, V3.dot, V3.add_x, V3.add_y, V3.add_z, V3.sub_x, V3.sub_y, V3.sub_z] at hu ⊢
  linear_combination ((1 - ((po.x - p1.x) * (p2.x - p1.x) + (po.y - p1.y) * (p2.y - p1.y) + (po.z - p1.z) * (p2.z - p1.z))) ^ 2) * hu

/-- the code's `deltaSin` in all three positions of the foot point -/
theorem core_dS (hu : nsq (p2 - p1) = 1) :
    (segmentCore p1 p2 po).1 =
      |V3.dot (po - p1) (p2 - p1) / Kern.norm (po - p1) + (1 - V3.dot (po - p1) (p2 - p1)) / Kern.norm (po - p2)| := by
  unfold segmentCore
  simp only [n41_eq p1 p2 po hu, n42_eq p1 p2 po hu, lt_real, abs_real, n, ofNat_real, Nat.cast_one]
  set s0 := V3.dot (po - p1) (p2 - p1) with hs0
  set a := Kern.norm (po - p1)
  set b := Kern.norm (po - p2)
  by_cases h1 : 1 < s0
  · have e1 : |s0| = s0 := abs_of_pos (by linarith)
    have e2 : |1 - s0| = s0 - 1 := by rw [abs_of_neg (by linarith)]; ring
    have c1 : (1 : ℝ) < s0 := h1
    have c2 : s0 - 1 < s0 := by linarith
    simp only [e1, e2, c1, c2, decide_true, Bool.and_true, if_true]
    congr 1; ring
  · by_cases h2 : s0 < 0
    · have e1 : |s0| = -s0 := abs_of_neg h2
      have e2 : |1 - s0| = 1 - s0 := abs_of_pos (by linarith)
      have c1 : ¬ (1 - s0 < -s0) := by linarith
      have c3 : (1 : ℝ) < 1 - s0 := by linarith
      have c4 : -s0 < 1 - s0 := by linarith
      simp only [e1, e2, c1, c3, c4, decide_true, decide_false, Bool.and_true, Bool.and_false, if_true, if_false, Bool.false_eq_true]
      congr 1; ring
    · have e1 : |s0| = s0 := abs_of_nonneg (by linarith)
      have e2 : |1 - s0| = 1 - s0 := abs_of_nonneg (by linarith)
      have c1 : ¬ ((1 : ℝ) < s0) := h1
      have c3 : ¬ ((1 : ℝ) < 1 - s0) := by linarith
      simp only [e1, e2, c1, c3, decide_false, Bool.false_and, if_false, Bool.false_eq_true]
end core

section core2
variable (p1 p2 po : V3 ℝ)

/-- squared distance of the observer from the carrier line (unit direction) -/
theorem no4_eq (hu : nsq (p2 - p1) = 1) :
    nsq (po - (p1 + vs (V3.dot (po - p1) (p1 - p2)) (p1 - p2))) =
      nsq (po - p1) - V3.dot (po - p1) (p2 - p1) ^ 2 := by
  simp only [nsq, vs, V3.dot, V3.add_x, V3.add_y, V3.add_z, V3.sub_x, V3.sub_y, V3.sub_z] at hu ⊢
  linear_combination (((po.x - p1.x) * (p2.x - p1.x) + (po.y - p1.y) * (p2.y - p1.y) + (po.z - p1.z) * (p2.z - p1.z)) ^ 2) * hu

/-- the direction vector: the foot-point term drops out of the cross product -/
theorem cros_eq :
    V3.cross (p2 - p1) (po - (p1 + vs (V3.dot (po - p1) (p1 - p2)) (p1 - p2))) = V3.cross (p2 - p1) (po - p1) := by
  apply V3.ext' <;> simp only [V3.cross, vs, V3.dot, V3.add_x, V3.add_y, V3.add_z, V3.sub_x, V3.sub_y, V3.sub_z] <;> ring

/-- Lagrange's identity for a unit direction -/
theorem nsq_cross (hu : nsq (p2 - p1) = 1) :
    nsq (V3.cross (p2 - p1) (po - p1)) = nsq (po - p1) - V3.dot (po - p1) (p2 - p1) ^ 2 := by
  simp only [nsq, V3.cross, V3.dot, V3.sub_x, V3.sub_y, V3.sub_z] at hu ⊢
  linear_combination ((po.x - p1.x) * (po.x - p1.x) + (po.y - p1.y) * (po.y - p1.y) + (po.z - p1.z) * (po.z - p1.z)) * hu

theorem nsq_o2 (hu : nsq (p2 - p1) = 1) :
    nsq (po - p2) = (1 - V3.dot (po - p1) (p2 - p1)) ^ 2 + (nsq (po - p1) - V3.dot (po - p1) (p2 - p1) ^ 2) := by
  simp only [nsq, V3.dot, V3.sub_x, V3.sub_y, V3.sub_z] at hu ⊢
  linear_combination hu

/-- `segmentCore` on a unit-length segment, observer off the carrier line -/
theorem core_unit (hu : nsq (p2 - p1) = 1) :
    segmentCore p1 p2 po =
      (|V3.dot (po - p1) (p2 - p1) / Kern.norm (po - p1) + (1 - V3.dot (po - p1) (p2 - p1)) / Kern.norm (po - p2)|,
       Real.sqrt (nsq (po - p1) - V3.dot (po - p1) (p2 - p1) ^ 2),
       vd (V3.cross (p2 - p1) (po - p1)) (Real.sqrt (nsq (po - p1) - V3.dot (po - p1) (p2 - p1) ^ 2))) := by
  refine Prod.ext (core_dS p1 p2 po hu) (Prod.ext ?_ ?_)
  · simp only [segmentCore]
    rw [norm_eq, no4_eq p1 p2 po hu]
  · simp only [segmentCore]
    rw [cros_eq, norm_eq, nsq_cross p1 p2 po hu]
end core2

/-! ### the scalar integral over a unit-length segment -/

section integral
variable (p1 p2 po : V3 ℝ)

/-- squared distance from the observer to the point at parameter `s` of a unit-length segment -/
theorem q_unit (hu : nsq (p2 - p1) = 1) (s : ℝ) :
    nsq (po - (p1 + vs s (p2 - p1))) =
      (s - V3.dot (po - p1) (p2 - p1)) ^ 2 + (nsq (po - p1) - V3.dot (po - p1) (p2 - p1) ^ 2) := by
  simp only [nsq, vs, V3.dot, V3.add_x, V3.add_y, V3.add_z, V3.sub_x, V3.sub_y, V3.sub_z] at hu ⊢
  linear_combination (s ^ 2) * hu

/-- the scalar Biot–Savart integral over a unit-length segment in closed form -/
theorem K_unit (hu : nsq (p2 - p1) = 1)
    (hD : 0 < nsq (po - p1) - V3.dot (po - p1) (p2 - p1) ^ 2) :
    ∫ s in (0:ℝ)..1, 1 / (nsq (po - (p1 + vs s (p2 - p1))) * Real.sqrt (nsq (po - (p1 + vs s (p2 - p1))))) =
      (V3.dot (po - p1) (p2 - p1) / Kern.norm (po - p1) + (1 - V3.dot (po - p1) (p2 - p1)) / Kern.norm (po - p2)) /
        (nsq (po - p1) - V3.dot (po - p1) (p2 - p1) ^ 2) := by
  set s0 := V3.dot (po - p1) (p2 - p1) with hs0
  set D2 := nsq (po - p1) - s0 ^ 2 with hD2
  simp only [q_unit p1 p2 po hu, ← hs0, ← hD2]
  have hsub := intervalIntegral.integral_comp_sub_right (a := (0:ℝ)) (b := 1)
    (fun t => 1 / ((t ^ 2 + D2) * Real.sqrt (t ^ 2 + D2))) s0
  beta_reduce at hsub
  rw [hsub, integral_g D2 _ _ hD]
  have ha : Real.sqrt ((0 - s0) ^ 2 + D2) = Kern.norm (po - p1) := by
    rw [norm_eq]; congr 1; rw [hD2]; ring
  have hb : Real.sqrt ((1 - s0) ^ 2 + D2) = Kern.norm (po - p2) := by
    rw [norm_eq, nsq_o2 p1 p2 po hu]
  rw [ha, hb]
  have hD' : D2 ≠ 0 := hD.ne'
  have hna : Kern.norm (po - p1) ≠ 0 := by
    rw [← ha]; apply (Real.sqrt_pos.mpr _).ne'; positivity
  have hnb : Kern.norm (po - p2) ≠ 0 := by
    rw [← hb]; apply (Real.sqrt_pos.mpr _).ne'; positivity
  field_simp
  ring
end integral

/-! ### from the normalised segment (the code divides all points by the segment length) to the general one -/

section scaling
variable (p1 p2 po : V3 ℝ)

theorem nsq_vd (v : V3 ℝ) (L : ℝ) (hL : L ≠ 0) : nsq (vd v L) = nsq v / (L * L) := by
  simp only [nsq, vd]; field_simp

theorem vd_sub (a b : V3 ℝ) (L : ℝ) : vd a L - vd b L = vd (a - b) L := by
  apply V3.ext' <;> simp only [vd, V3.sub_x, V3.sub_y, V3.sub_z] <;> ring

theorem nsq_swap (a b : V3 ℝ) : nsq (a - b) = nsq (b - a) := by
  simp only [nsq, V3.sub_x, V3.sub_y, V3.sub_z]; ring

theorem dot_vd (a b : V3 ℝ) (L : ℝ) (hL : L ≠ 0) : V3.dot (vd a L) (vd b L) = V3.dot a b / (L * L) := by
  simp only [V3.dot, vd]; field_simp

theorem cross_vd (a b : V3 ℝ) (L : ℝ) (hL : L ≠ 0) : V3.cross (vd a L) (vd b L) = vd (V3.cross a b) (L * L) := by
  apply V3.ext' <;> simp only [V3.cross, vd] <;> field_simp

theorem norm_vd (v : V3 ℝ) (L : ℝ) (hL : 0 < L) : Kern.norm (vd v L) = Kern.norm v / L := by
  rw [norm_eq, nsq_vd v L hL.ne', Real.sqrt_div (nsq_nonneg v), Real.sqrt_mul_self hL.le, norm_eq]

/-- the point at parameter `s`, divided by `L` -/
theorem r_vd (s L : ℝ) :
    vd po L - (vd p1 L + vs s (vd p2 L - vd p1 L)) = vd (po - (p1 + vs s (p2 - p1))) L := by
  apply V3.ext' <;> simp only [vd, vs, V3.sub_x, V3.sub_y, V3.sub_z, V3.add_x, V3.add_y, V3.add_z] <;> ring

/-- the scalar Biot–Savart integral of a general segment from the one of the segment divided by its length -/
theorem K_scale (L : ℝ) (hL : 0 < L) :
    ∫ s in (0:ℝ)..1, 1 / (nsq (po - (p1 + vs s (p2 - p1))) * Real.sqrt (nsq (po - (p1 + vs s (p2 - p1))))) =
      (1 / (L * L * L)) * ∫ s in (0:ℝ)..1, 1 / (nsq (vd po L - (vd p1 L + vs s (vd p2 L - vd p1 L))) *
        Real.sqrt (nsq (vd po L - (vd p1 L + vs s (vd p2 L - vd p1 L))))) := by
  rw [← intervalIntegral.integral_const_mul]
  congr 1
  funext s
  rw [r_vd, nsq_vd _ L hL.ne']
  set q := nsq (po - (p1 + vs s (p2 - p1))) with hq
  have hq0 : 0 ≤ q := nsq_nonneg _
  rw [Real.sqrt_div hq0, Real.sqrt_mul_self hL.le]
  by_cases h0 : q = 0
  · simp [h0]
  have : Real.sqrt q ≠ 0 := (Real.sqrt_pos.mpr (lt_of_le_of_ne hq0 (Ne.symm h0))).ne'
  field_simp
end scaling

/-! ### assembly -/

section final
variable (p1 p2 po : V3 ℝ)

/-- the scalar Biot–Savart integral `∫₀¹ ds / |po − (p1 + s (p2 − p1))|³` -/
noncomputable def K : ℝ :=
  ∫ s in (0:ℝ)..1, 1 / (nsq (po - (p1 + vs s (p2 - p1))) * Real.sqrt (nsq (po - (p1 + vs s (p2 - p1)))))

theorem nsq_cross_le (d w : V3 ℝ) : nsq (V3.cross d w) ≤ nsq d * nsq w := by
  have : nsq (V3.cross d w) = nsq d * nsq w - V3.dot d w ^ 2 := by
    simp only [nsq, V3.cross, V3.dot]; ring
  rw [this]; nlinarith [sq_nonneg (V3.dot d w)]

/-- **the straight-segment kernel is the Biot–Savart integral**: for an observer off the carrier
line, `segmentH` (all three branches of its foot-point case split) equals `I/(4π) · K · (p2−p1)×(po−p1)` -/
theorem segmentH_eq (cur : ℝ) (hoff : 0 < nsq (V3.cross (p2 - p1) (po - p1))) :
    segmentH cur p1 p2 po = vs (cur / (4 * Real.pi) * K p1 p2 po) (V3.cross (p2 - p1) (po - p1)) := by
  -- the segment has positive length
  have hd : 0 < nsq (p2 - p1) := by
    by_contra h
    have h0 : nsq (p2 - p1) = 0 := le_antisymm (not_lt.mp h) (nsq_nonneg _)
    have := nsq_cross_le (p2 - p1) (po - p1)
    rw [h0, zero_mul] at this
    linarith
  set L := Kern.norm (p1 - p2) with hLdef
  have hL : 0 < L := by
    rw [hLdef, norm_eq, nsq_swap]; exact Real.sqrt_pos.mpr hd
  have hLL : L * L = nsq (p2 - p1) := by rw [hLdef, norm_mul_self, nsq_swap]
  have hu : nsq (vd p2 L - vd p1 L) = 1 := by
    rw [vd_sub, nsq_vd _ L hL.ne', hLL]; exact div_self hd.ne'
  -- squared distance from the line, in normalised units
  have hD : 0 < nsq (vd po L - vd p1 L) - V3.dot (vd po L - vd p1 L) (vd p2 L - vd p1 L) ^ 2 := by
    rw [← nsq_cross (vd p1 L) (vd p2 L) (vd po L) hu, vd_sub, vd_sub, cross_vd _ _ L hL.ne', nsq_vd _ _ (by positivity)]
    positivity
  have hKu := K_unit (vd p1 L) (vd p2 L) (vd po L) hu hD
  have hKs := K_scale p1 p2 po L hL
  -- the closed form is non-negative (integral of a non-negative function), so the code's |·| is the identity
  have hK0 : 0 ≤ ∫ s in (0:ℝ)..1, 1 / (nsq (vd po L - (vd p1 L + vs s (vd p2 L - vd p1 L))) *
      Real.sqrt (nsq (vd po L - (vd p1 L + vs s (vd p2 L - vd p1 L))))) :=
    intervalIntegral.integral_nonneg (by norm_num)
      (fun s _ => div_nonneg zero_le_one (mul_nonneg (nsq_nonneg _) (Real.sqrt_nonneg _)))
  rw [hKu] at hK0
  unfold segmentH
  simp only [← hLdef, core_unit (vd p1 L) (vd p2 L) (vd po L) hu, n, ofNat_real, Nat.cast_ofNat, pi_real]
  unfold K
  rw [hKs, hKu]
  set s0 := V3.dot (vd po L - vd p1 L) (vd p2 L - vd p1 L)
  set D2 := nsq (vd po L - vd p1 L) - s0 ^ 2
  set A := s0 / Kern.norm (vd po L - vd p1 L) + (1 - s0) / Kern.norm (vd po L - vd p2 L) with hA
  have hA0 : 0 ≤ A := by
    by_contra h
    have : A / D2 < 0 := div_neg_of_neg_of_pos (not_le.mp h) hD
    linarith
  rw [abs_of_nonneg hA0, vd_sub, vd_sub, cross_vd _ _ L hL.ne']
  set sD := Real.sqrt D2 with hsDdef
  have hsD : sD * sD = D2 := Real.mul_self_sqrt hD.le
  have hsD0 : sD ≠ 0 := (Real.sqrt_pos.mpr hD).ne'
  have hpi : Real.pi ≠ 0 := Real.pi_ne_zero
  have hL0 : L ≠ 0 := hL.ne'
  rw [← hsD]
  apply V3.ext' <;> simp only [vs, vd] <;> field_simp
end final

/-! ### additivity along the carrier line, reversal -/

section additivity
variable (p1 p2 po : V3 ℝ)

/-- integrand of `K` as a function of the line parameter -/
noncomputable def fK (t : ℝ) : ℝ :=
  1 / (nsq (po - (p1 + vs t (p2 - p1))) * Real.sqrt (nsq (po - (p1 + vs t (p2 - p1)))))

theorem K_eq_integral : K p1 p2 po = ∫ s in (0:ℝ)..1, fK p1 p2 po s := rfl

/-- off the carrier line the distance to every point of the line is positive -/
theorem q_pos (hoff : 0 < nsq (V3.cross (p2 - p1) (po - p1))) (t : ℝ) :
    0 < nsq (po - (p1 + vs t (p2 - p1))) := by
  have hc : V3.cross (p2 - p1) (po - (p1 + vs t (p2 - p1))) = V3.cross (p2 - p1) (po - p1) := by
    apply V3.ext' <;> simp only [V3.cross, vs, V3.add_x, V3.add_y, V3.add_z, V3.sub_x, V3.sub_y, V3.sub_z] <;> ring
  have h := nsq_cross_le (p2 - p1) (po - (p1 + vs t (p2 - p1)))
  rw [hc] at h
  by_contra hq
  have h0 : nsq (po - (p1 + vs t (p2 - p1))) = 0 := le_antisymm (not_lt.mp hq) (nsq_nonneg _)
  rw [h0, mul_zero] at h
  linarith

theorem fK_continuous (hoff : 0 < nsq (V3.cross (p2 - p1) (po - p1))) : Continuous (fK p1 p2 po) := by
  unfold fK
  refine Continuous.div continuous_const ?_ (fun t => ?_)
  · simp only [nsq, vs, V3.add_x, V3.add_y, V3.add_z, V3.sub_x, V3.sub_y, V3.sub_z]
    fun_prop
  · have h := q_pos p1 p2 po hoff t
    exact (mul_pos h (Real.sqrt_pos.mpr h)).ne'

/-- the point at parameter `τ` of the carrier line -/
noncomputable def lerp (τ : ℝ) : V3 ℝ := p1 + vs τ (p2 - p1)

theorem K_first (τ : ℝ) (hτ : τ ≠ 0) :
    τ * K p1 (lerp p1 p2 τ) po = ∫ s in (0:ℝ)..τ, fK p1 p2 po s := by
  have h := intervalIntegral.integral_comp_mul_left (a := (0:ℝ)) (b := 1) (fK p1 p2 po) hτ
  simp only [mul_zero, mul_one, smul_eq_mul] at h
  have e : ∀ s : ℝ, fK p1 (lerp p1 p2 τ) po s = fK p1 p2 po (τ * s) := by
    intro s
    unfold fK lerp
    have : p1 + vs s (p1 + vs τ (p2 - p1) - p1) = p1 + vs (τ * s) (p2 - p1) := by
      apply V3.ext' <;> simp only [vs, V3.add_x, V3.add_y, V3.add_z, V3.sub_x, V3.sub_y, V3.sub_z] <;> ring
    rw [this]
  rw [K_eq_integral]
  simp only [e]
  rw [h]
  field_simp

theorem K_second (τ : ℝ) (hτ : τ ≠ 1) :
    (1 - τ) * K (lerp p1 p2 τ) p2 po = ∫ s in τ..(1:ℝ), fK p1 p2 po s := by
  have h1 : (1 - τ) ≠ 0 := sub_ne_zero.mpr (Ne.symm hτ)
  have h := intervalIntegral.integral_comp_mul_add (a := (0:ℝ)) (b := 1) (fK p1 p2 po) h1 τ
  simp only [mul_zero, mul_one, zero_add, smul_eq_mul] at h
  have hb : (1 - τ) + τ = 1 := by ring
  rw [hb] at h
  have e : ∀ s : ℝ, fK (lerp p1 p2 τ) p2 po s = fK p1 p2 po ((1 - τ) * s + τ) := by
    intro s
    unfold fK lerp
    have : p1 + vs τ (p2 - p1) + vs s (p2 - (p1 + vs τ (p2 - p1))) = p1 + vs ((1 - τ) * s + τ) (p2 - p1) := by
      apply V3.ext' <;> simp only [vs, V3.add_x, V3.add_y, V3.add_z, V3.sub_x, V3.sub_y, V3.sub_z] <;> ring
    rw [this]
  rw [K_eq_integral]
  simp only [e]
  rw [h]
  field_simp

/-- **a straight segment may be split at any point of its carrier line** (τ ≠ 0, 1; also outside
the segment, where the second piece runs backwards): the two pieces' fields add up to the field of
the whole — inserting a collinear vertex into a Polyline does not change its field -/
theorem segment_split (cur τ : ℝ) (hτ0 : τ ≠ 0) (hτ1 : τ ≠ 1)
    (hoff : 0 < nsq (V3.cross (p2 - p1) (po - p1))) :
    segmentH cur p1 (lerp p1 p2 τ) po + segmentH cur (lerp p1 p2 τ) p2 po = segmentH cur p1 p2 po := by
  have c1 : V3.cross (lerp p1 p2 τ - p1) (po - p1) = vs τ (V3.cross (p2 - p1) (po - p1)) := by
    apply V3.ext' <;> simp only [lerp, V3.cross, vs, V3.add_x, V3.add_y, V3.add_z, V3.sub_x, V3.sub_y, V3.sub_z] <;> ring
  have c2 : V3.cross (p2 - lerp p1 p2 τ) (po - lerp p1 p2 τ) = vs (1 - τ) (V3.cross (p2 - p1) (po - p1)) := by
    apply V3.ext' <;> simp only [lerp, V3.cross, vs, V3.add_x, V3.add_y, V3.add_z, V3.sub_x, V3.sub_y, V3.sub_z] <;> ring
  have nvs : ∀ (c : ℝ) (v : V3 ℝ), nsq (vs c v) = c ^ 2 * nsq v := by
    intro c v; simp only [nsq, vs]; ring
  have hoff1 : 0 < nsq (V3.cross (lerp p1 p2 τ - p1) (po - p1)) := by
    rw [c1, nvs]; have := pow_pos (abs_pos.mpr hτ0) 2; rw [sq_abs] at this; positivity
  have hoff2 : 0 < nsq (V3.cross (p2 - lerp p1 p2 τ) (po - lerp p1 p2 τ)) := by
    have h1 : (1 - τ) ≠ 0 := sub_ne_zero.mpr (Ne.symm hτ1)
    rw [c2, nvs]; have := pow_pos (abs_pos.mpr h1) 2; rw [sq_abs] at this; positivity
  rw [segmentH_eq _ _ _ cur hoff1, segmentH_eq _ _ _ cur hoff2, segmentH_eq _ _ _ cur hoff, c1, c2]
  have hsum : τ * K p1 (lerp p1 p2 τ) po + (1 - τ) * K (lerp p1 p2 τ) p2 po = K p1 p2 po := by
    rw [K_first p1 p2 po τ hτ0, K_second p1 p2 po τ hτ1, K_eq_integral]
    have hc := fK_continuous p1 p2 po hoff
    exact intervalIntegral.integral_add_adjacent_intervals (hc.intervalIntegrable _ _) (hc.intervalIntegrable _ _)
  rw [← hsum]
  apply V3.ext' <;> simp only [vs, V3.add_x, V3.add_y, V3.add_z] <;> ring

/-- reversing the direction of a segment reverses the field -/
theorem segment_reverse (cur : ℝ) (hoff : 0 < nsq (V3.cross (p2 - p1) (po - p1))) :
    segmentH cur p2 p1 po = vs (-1) (segmentH cur p1 p2 po) := by
  have c : V3.cross (p1 - p2) (po - p2) = vs (-1) (V3.cross (p2 - p1) (po - p1)) := by
    apply V3.ext' <;> simp only [V3.cross, vs, V3.sub_x, V3.sub_y, V3.sub_z] <;> ring
  have nvs : ∀ (c : ℝ) (v : V3 ℝ), nsq (vs c v) = c ^ 2 * nsq v := by
    intro c v; simp only [nsq, vs]; ring
  have hoff' : 0 < nsq (V3.cross (p1 - p2) (po - p2)) := by rw [c, nvs]; linarith
  rw [segmentH_eq _ _ _ cur hoff', segmentH_eq _ _ _ cur hoff, c]
  have hK : K p2 p1 po = K p1 p2 po := by
    rw [K_eq_integral, K_eq_integral]
    have h := intervalIntegral.integral_comp_sub_left (a := (0:ℝ)) (b := 1) (fK p1 p2 po) 1
    simp only [sub_zero, sub_self] at h
    rw [← h]
    congr 1
    funext s
    unfold fK
    have : p2 + vs s (p1 - p2) = p1 + vs (1 - s) (p2 - p1) := by
      apply V3.ext' <;> simp only [vs, V3.add_x, V3.add_y, V3.add_z, V3.sub_x, V3.sub_y, V3.sub_z] <;> ring
    rw [this]
  rw [hK]
  apply V3.ext' <;> simp only [vs] <;> ring
end additivity

/-! ### definedness of the closed form off the carrier line -/

section defined
variable (p1 p2 po : V3 ℝ)

/-- off the carrier line: positive length, unit normalised direction, positive normalised distance from the line -/
theorem off_line_facts (hoff : 0 < nsq (V3.cross (p2 - p1) (po - p1))) :
    0 < Kern.norm (p1 - p2) ∧
    nsq (vd p2 (Kern.norm (p1 - p2)) - vd p1 (Kern.norm (p1 - p2))) = 1 ∧
    0 < nsq (vd po (Kern.norm (p1 - p2)) - vd p1 (Kern.norm (p1 - p2))) -
      V3.dot (vd po (Kern.norm (p1 - p2)) - vd p1 (Kern.norm (p1 - p2)))
        (vd p2 (Kern.norm (p1 - p2)) - vd p1 (Kern.norm (p1 - p2))) ^ 2 := by
  have hd : 0 < nsq (p2 - p1) := by
    by_contra h
    have h0 : nsq (p2 - p1) = 0 := le_antisymm (not_lt.mp h) (nsq_nonneg _)
    have := nsq_cross_le (p2 - p1) (po - p1)
    rw [h0, zero_mul] at this
    linarith
  set L := Kern.norm (p1 - p2) with hLdef
  have hL : 0 < L := by
    rw [hLdef, norm_eq, nsq_swap]; exact Real.sqrt_pos.mpr hd
  have hLL : L * L = nsq (p2 - p1) := by rw [hLdef, norm_mul_self, nsq_swap]
  have hu : nsq (vd p2 L - vd p1 L) = 1 := by
    rw [vd_sub, nsq_vd _ L hL.ne', hLL]; exact div_self hd.ne'
  refine ⟨hL, hu, ?_⟩
  rw [← nsq_cross (vd p1 L) (vd p2 L) (vd po L) hu, vd_sub, vd_sub, cross_vd _ _ L hL.ne', nsq_vd _ _ (by positivity)]
  positivity

/-- every divisor of the segment kernel is non-zero for an observer off the carrier line: the
segment length, the distance from the line `norm_o4`, the norm of the direction vector
`norm_cros`, and the distances to both end points `norm_o1`, `norm_o2` (normalised units) -/
theorem segment_divisors (hoff : 0 < nsq (V3.cross (p2 - p1) (po - p1))) :
    let L := Kern.norm (p1 - p2)
    let q1 := vd p1 L; let q2 := vd p2 L; let qo := vd po L
    let p4 := q1 + vs (V3.dot (qo - q1) (q1 - q2)) (q1 - q2)
    0 < L ∧ 0 < Kern.norm (qo - p4) ∧ 0 < Kern.norm (V3.cross (q2 - q1) (qo - p4)) ∧
      0 < Kern.norm (qo - q1) ∧ 0 < Kern.norm (qo - q2) := by
  intro L q1 q2 qo p4
  obtain ⟨hL, hu, hD⟩ := off_line_facts p1 p2 po hoff
  have h4 : nsq (qo - p4) = nsq (qo - q1) - V3.dot (qo - q1) (q2 - q1) ^ 2 := no4_eq q1 q2 qo hu
  have hc : V3.cross (q2 - q1) (qo - p4) = V3.cross (q2 - q1) (qo - q1) := cros_eq q1 q2 qo
  have hcn := nsq_cross q1 q2 qo hu
  have ho2 := nsq_o2 q1 q2 qo hu
  refine ⟨hL, ?_, ?_, ?_, ?_⟩
  · rw [norm_eq, h4]; exact Real.sqrt_pos.mpr hD
  · rw [hc, norm_eq, hcn]; exact Real.sqrt_pos.mpr hD
  · rw [norm_eq]; apply Real.sqrt_pos.mpr; nlinarith [sq_nonneg (V3.dot (qo - q1) (q2 - q1))]
  · rw [norm_eq, ho2]; apply Real.sqrt_pos.mpr; nlinarith [sq_nonneg (1 - V3.dot (qo - q1) (q2 - q1))]
end defined

end MagpyVerif.SegBS
