/-
Lemmas/BoxLaws.lean — INTEGRAL forms of the two laws of magnetostatics over axis-aligned boxes and
rectangles, derived from the pointwise forms (`HasPartials`, `DivFreeAt`, `CurlFreeAt`).

Route (self-contained, no Fréchet derivative, no topology on `V3 ℝ`): the ONE-dimensional fundamental
theorem of calculus along one coordinate under the integrals over the other coordinates,
    ∫∫ [F_x(b.x, y, z) − F_x(a.x, y, z)] dy dz = ∫∫∫ ∂F_x/∂x dx dy dz,
Fubini for continuous functions on boxes (`intervalIntegral_intervalIntegral_swap`), and additivity.
The partial derivatives are only assumed continuous ON THE CLOSED BOX (they are singular elsewhere for
every field of interest); inside the proofs they are extended to globally continuous functions by
clamping the coordinates into the box (`clamp`), which does not change any of the integrals.

  * Part 1: Fubini / parametric continuity for continuous functions of two and three real variables.
  * Part 2: `green_rect` (rectangle in ℝ², circulation form) and `gauss_box` (box in ℝ³).
  * Part 3: the same for fields `V3 ℝ → V3 ℝ`: `boxFlux`, `rectCircXY/YZ/ZX`,
    `box_flux_zero_of_div_free`, `rect_circulation_zero_of_curl_free`; six- and four-integral forms.
-/
import Mathlib.MeasureTheory.Integral.Prod
import Mathlib.MeasureTheory.Integral.DominatedConvergence
import Mathlib.MeasureTheory.Integral.IntervalIntegral.FundThmCalculus
import MagpyVerif.Lemmas.DipoleCalc

namespace MagpyVerif.BoxLaws
open MagpyVerif MagpyVerif.Kern MeasureTheory Set intervalIntegral

/-! ### Part 1: continuous functions of two and three real variables -/

/-- Fubini for a continuous function on a rectangle -/
theorem swap2 {G : ℝ × ℝ → ℝ} (hG : Continuous G) (a b c d : ℝ) :
    ∫ x in a..b, ∫ y in c..d, G (x, y) = ∫ y in c..d, ∫ x in a..b, G (x, y) := by
  have h : IntegrableOn (Function.uncurry fun x y => G (x, y)) (uIoc a b ×ˢ uIoc c d) := by
    have e : (Function.uncurry fun x y => G (x, y)) = G := by funext ⟨x, y⟩; rfl
    rw [e]
    exact (hG.continuousOn.integrableOn_compact (isCompact_uIcc.prod isCompact_uIcc)).mono_set
      (prod_mono uIoc_subset_uIcc uIoc_subset_uIcc)
  exact intervalIntegral_intervalIntegral_swap h

/-- continuity of a parametric interval integral of a jointly continuous integrand -/
theorem cont_param {X : Type*} [TopologicalSpace X] [FirstCountableTopology X] {G : X × ℝ → ℝ}
    (hG : Continuous G) (a b : ℝ) : Continuous fun x => ∫ t in a..b, G (x, t) := by
  have e : (Function.uncurry fun x t => G (x, t)) = G := by funext ⟨x, t⟩; rfl
  exact continuous_parametric_intervalIntegral_of_continuous' (f := fun x t => G (x, t)) (e ▸ hG) a b

section three
variable {G : ℝ × ℝ × ℝ → ℝ} (hG : Continuous G)
include hG

theorem cont_inner (az bz : ℝ) : Continuous fun p : ℝ × ℝ => ∫ z in az..bz, G (p.1, p.2, z) :=
  cont_param (G := fun q : (ℝ × ℝ) × ℝ => G (q.1.1, q.1.2, q.2))
    (hG.comp (by fun_prop : Continuous fun q : (ℝ × ℝ) × ℝ => (q.1.1, q.1.2, q.2))) az bz

theorem cont_mid (ay by' az bz : ℝ) : Continuous fun x : ℝ => ∫ y in ay..by', ∫ z in az..bz, G (x, y, z) :=
  cont_param (G := fun q : ℝ × ℝ => ∫ z in az..bz, G (q.1, q.2, z)) (cont_inner hG az bz) ay by'

/-- `∫y ∫z ∫x = ∫x ∫y ∫z` -/
theorem swap_yzx (ax bx ay by' az bz : ℝ) :
    ∫ y in ay..by', ∫ z in az..bz, ∫ x in ax..bx, G (x, y, z) =
      ∫ x in ax..bx, ∫ y in ay..by', ∫ z in az..bz, G (x, y, z) := by
  have h1 : ∀ y : ℝ, ∫ z in az..bz, ∫ x in ax..bx, G (x, y, z) = ∫ x in ax..bx, ∫ z in az..bz, G (x, y, z) :=
    fun y => swap2 (G := fun q : ℝ × ℝ => G (q.2, y, q.1))
      (hG.comp (by fun_prop : Continuous fun q : ℝ × ℝ => (q.2, y, q.1))) az bz ax bx
  simp_rw [h1]
  exact swap2 (G := fun q : ℝ × ℝ => ∫ z in az..bz, G (q.2, q.1, z))
    ((cont_inner hG az bz).comp (by fun_prop : Continuous fun q : ℝ × ℝ => (q.2, q.1))) ay by' ax bx

/-- `∫x ∫z ∫y = ∫x ∫y ∫z` -/
theorem swap_xzy (ax bx ay by' az bz : ℝ) :
    ∫ x in ax..bx, ∫ z in az..bz, ∫ y in ay..by', G (x, y, z) =
      ∫ x in ax..bx, ∫ y in ay..by', ∫ z in az..bz, G (x, y, z) := by
  have h1 : ∀ x : ℝ, ∫ z in az..bz, ∫ y in ay..by', G (x, y, z) = ∫ y in ay..by', ∫ z in az..bz, G (x, y, z) :=
    fun x => swap2 (G := fun q : ℝ × ℝ => G (x, q.2, q.1))
      (hG.comp (by fun_prop : Continuous fun q : ℝ × ℝ => (x, q.2, q.1))) az bz ay by'
  simp_rw [h1]

end three

/-- additivity of the iterated triple integral for continuous integrands -/
theorem triple_add {G H : ℝ × ℝ × ℝ → ℝ} (hG : Continuous G) (hH : Continuous H) (ax bx ay by' az bz : ℝ) :
    ∫ x in ax..bx, ∫ y in ay..by', ∫ z in az..bz, (G (x, y, z) + H (x, y, z)) =
      (∫ x in ax..bx, ∫ y in ay..by', ∫ z in az..bz, G (x, y, z)) +
        ∫ x in ax..bx, ∫ y in ay..by', ∫ z in az..bz, H (x, y, z) := by
  have i1 : ∀ x y : ℝ, ∫ z in az..bz, (G (x, y, z) + H (x, y, z)) =
      (∫ z in az..bz, G (x, y, z)) + ∫ z in az..bz, H (x, y, z) := fun x y =>
    integral_add ((hG.comp (by fun_prop : Continuous fun z : ℝ => (x, y, z))).intervalIntegrable _ _)
      ((hH.comp (by fun_prop : Continuous fun z : ℝ => (x, y, z))).intervalIntegrable _ _)
  simp_rw [i1]
  have i2 : ∀ x : ℝ, ∫ y in ay..by', ((∫ z in az..bz, G (x, y, z)) + ∫ z in az..bz, H (x, y, z)) =
      (∫ y in ay..by', ∫ z in az..bz, G (x, y, z)) + ∫ y in ay..by', ∫ z in az..bz, H (x, y, z) := fun x =>
    integral_add
      (((cont_inner hG az bz).comp (by fun_prop : Continuous fun y : ℝ => (x, y))).intervalIntegrable _ _)
      (((cont_inner hH az bz).comp (by fun_prop : Continuous fun y : ℝ => (x, y))).intervalIntegrable _ _)
  simp_rw [i2]
  exact integral_add ((cont_mid hG ay by' az bz).intervalIntegrable _ _)
    ((cont_mid hH ay by' az bz).intervalIntegrable _ _)

/-! ### clamping a coordinate into `[a, b]` -/

/-- the retraction of ℝ onto `[a, b]` -/
noncomputable def clamp (a b t : ℝ) : ℝ := max a (min b t)

theorem continuous_clamp (a b : ℝ) : Continuous (clamp a b) := by unfold clamp; fun_prop

theorem clamp_mem {a b : ℝ} (h : a ≤ b) (t : ℝ) : clamp a b t ∈ Icc a b :=
  ⟨le_max_left _ _, max_le h (min_le_left _ _)⟩

theorem clamp_eq {a b t : ℝ} (ht : t ∈ Icc a b) : clamp a b t = t := by
  unfold clamp; rw [min_eq_right ht.2, max_eq_right ht.1]

/-! ### Part 2: Green's theorem on a rectangle, Gauss's theorem on a box (1-D FTC + Fubini) -/

/-- **Green's theorem for an axis-aligned rectangle**, circulation form, with continuity of the two
partial derivatives only on the closed rectangle and no regularity of `P`, `Q` beyond the existence
of `∂Q/∂x`, `∂P/∂y` there: if `∂Q/∂x = ∂P/∂y` on the rectangle, the circulation of `(P, Q)` along its
boundary (opposite sides paired) vanishes. -/
theorem green_rect {ax bx ay by' : ℝ} (hx : ax ≤ bx) (hy : ay ≤ by') (P Q Py Qx : ℝ → ℝ → ℝ)
    (hQ : ∀ x ∈ Icc ax bx, ∀ y ∈ Icc ay by', HasDerivAt (fun t => Q t y) (Qx x y) x)
    (hP : ∀ x ∈ Icc ax bx, ∀ y ∈ Icc ay by', HasDerivAt (fun t => P x t) (Py x y) y)
    (cQ : ContinuousOn (fun q : ℝ × ℝ => Qx q.1 q.2) (Icc ax bx ×ˢ Icc ay by'))
    (cP : ContinuousOn (fun q : ℝ × ℝ => Py q.1 q.2) (Icc ax bx ×ˢ Icc ay by'))
    (hcurl : ∀ x ∈ Icc ax bx, ∀ y ∈ Icc ay by', Qx x y - Py x y = 0) :
    (∫ y in ay..by', (Q bx y - Q ax y)) - (∫ x in ax..bx, (P x by' - P x ay)) = 0 := by
  set Qc : ℝ × ℝ → ℝ := fun q => Qx (clamp ax bx q.1) (clamp ay by' q.2) with hQc
  set Pc : ℝ × ℝ → ℝ := fun q => Py (clamp ax bx q.1) (clamp ay by' q.2) with hPc
  have kQ : Continuous Qc := cQ.comp_continuous
    ((continuous_clamp ax bx).comp continuous_fst |>.prodMk ((continuous_clamp ay by').comp continuous_snd))
    (fun q => ⟨clamp_mem hx _, clamp_mem hy _⟩)
  have kP : Continuous Pc := cP.comp_continuous
    ((continuous_clamp ax bx).comp continuous_fst |>.prodMk ((continuous_clamp ay by').comp continuous_snd))
    (fun q => ⟨clamp_mem hx _, clamp_mem hy _⟩)
  have e1 : ∫ y in ay..by', (Q bx y - Q ax y) = ∫ y in ay..by', ∫ x in ax..bx, Qc (x, y) := by
    refine integral_congr fun y hy' => ?_
    rw [uIcc_of_le hy] at hy'
    symm
    refine integral_eq_sub_of_hasDerivAt (f := fun t => Q t y) (fun x hx' => ?_)
      ((kQ.comp (by fun_prop : Continuous fun x : ℝ => (x, y))).intervalIntegrable _ _)
    rw [uIcc_of_le hx] at hx'
    simp only [hQc, clamp_eq hx', clamp_eq hy']
    exact hQ x hx' y hy'
  have e2 : ∫ x in ax..bx, (P x by' - P x ay) = ∫ x in ax..bx, ∫ y in ay..by', Pc (x, y) := by
    refine integral_congr fun x hx' => ?_
    rw [uIcc_of_le hx] at hx'
    symm
    refine integral_eq_sub_of_hasDerivAt (f := fun t => P x t) (fun y hy' => ?_)
      ((kP.comp (by fun_prop : Continuous fun y : ℝ => (x, y))).intervalIntegrable _ _)
    rw [uIcc_of_le hy] at hy'
    simp only [hPc, clamp_eq hx', clamp_eq hy']
    exact hP x hx' y hy'
  rw [e1, e2, ← swap2 kQ, sub_eq_zero]
  refine integral_congr fun x hx' => ?_
  rw [uIcc_of_le hx] at hx'
  refine integral_congr fun y hy' => ?_
  rw [uIcc_of_le hy] at hy'
  simp only [hQc, hPc, clamp_eq hx', clamp_eq hy']
  linarith [hcurl x hx' y hy']

/-- **Gauss's theorem for an axis-aligned box** (opposite faces paired), with continuity of the three
diagonal partial derivatives only on the closed box and no regularity of `P`, `Q`, `R` beyond the
existence of `∂P/∂x`, `∂Q/∂y`, `∂R/∂z` there: if they add up to zero on the box, the outward flux of
`(P, Q, R)` through its boundary vanishes. -/
theorem gauss_box {ax bx ay by' az bz : ℝ} (hx : ax ≤ bx) (hy : ay ≤ by') (hz : az ≤ bz)
    (P Q R Px Qy Rz : ℝ → ℝ → ℝ → ℝ)
    (hP : ∀ x ∈ Icc ax bx, ∀ y ∈ Icc ay by', ∀ z ∈ Icc az bz, HasDerivAt (fun t => P t y z) (Px x y z) x)
    (hQ : ∀ x ∈ Icc ax bx, ∀ y ∈ Icc ay by', ∀ z ∈ Icc az bz, HasDerivAt (fun t => Q x t z) (Qy x y z) y)
    (hR : ∀ x ∈ Icc ax bx, ∀ y ∈ Icc ay by', ∀ z ∈ Icc az bz, HasDerivAt (fun t => R x y t) (Rz x y z) z)
    (cP : ContinuousOn (fun q : ℝ × ℝ × ℝ => Px q.1 q.2.1 q.2.2) (Icc ax bx ×ˢ Icc ay by' ×ˢ Icc az bz))
    (cQ : ContinuousOn (fun q : ℝ × ℝ × ℝ => Qy q.1 q.2.1 q.2.2) (Icc ax bx ×ˢ Icc ay by' ×ˢ Icc az bz))
    (cR : ContinuousOn (fun q : ℝ × ℝ × ℝ => Rz q.1 q.2.1 q.2.2) (Icc ax bx ×ˢ Icc ay by' ×ˢ Icc az bz))
    (hdiv : ∀ x ∈ Icc ax bx, ∀ y ∈ Icc ay by', ∀ z ∈ Icc az bz, Px x y z + Qy x y z + Rz x y z = 0) :
    (∫ y in ay..by', ∫ z in az..bz, (P bx y z - P ax y z)) +
      (∫ x in ax..bx, ∫ z in az..bz, (Q x by' z - Q x ay z)) +
      (∫ x in ax..bx, ∫ y in ay..by', (R x y bz - R x y az)) = 0 := by
  have kc : Continuous fun q : ℝ × ℝ × ℝ => (clamp ax bx q.1, clamp ay by' q.2.1, clamp az bz q.2.2) := by
    have := continuous_clamp ax bx
    have := continuous_clamp ay by'
    have := continuous_clamp az bz
    fun_prop
  have km : ∀ q : ℝ × ℝ × ℝ, (clamp ax bx q.1, clamp ay by' q.2.1, clamp az bz q.2.2) ∈
      Icc ax bx ×ˢ Icc ay by' ×ˢ Icc az bz := fun q => ⟨clamp_mem hx _, clamp_mem hy _, clamp_mem hz _⟩
  set Pc : ℝ × ℝ × ℝ → ℝ := fun q => Px (clamp ax bx q.1) (clamp ay by' q.2.1) (clamp az bz q.2.2) with hPc
  set Qc : ℝ × ℝ × ℝ → ℝ := fun q => Qy (clamp ax bx q.1) (clamp ay by' q.2.1) (clamp az bz q.2.2) with hQc
  set Rc : ℝ × ℝ × ℝ → ℝ := fun q => Rz (clamp ax bx q.1) (clamp ay by' q.2.1) (clamp az bz q.2.2) with hRc
  have kP : Continuous Pc := cP.comp_continuous kc km
  have kQ : Continuous Qc := cQ.comp_continuous kc km
  have kR : Continuous Rc := cR.comp_continuous kc km
  have e1 : ∫ y in ay..by', ∫ z in az..bz, (P bx y z - P ax y z) =
      ∫ y in ay..by', ∫ z in az..bz, ∫ x in ax..bx, Pc (x, y, z) := by
    refine integral_congr fun y hy' => ?_
    rw [uIcc_of_le hy] at hy'
    refine integral_congr fun z hz' => ?_
    rw [uIcc_of_le hz] at hz'
    symm
    refine integral_eq_sub_of_hasDerivAt (f := fun t => P t y z) (fun x hx' => ?_)
      ((kP.comp (by fun_prop : Continuous fun x : ℝ => (x, y, z))).intervalIntegrable _ _)
    rw [uIcc_of_le hx] at hx'
    simp only [hPc, clamp_eq hx', clamp_eq hy', clamp_eq hz']
    exact hP x hx' y hy' z hz'
  have e2 : ∫ x in ax..bx, ∫ z in az..bz, (Q x by' z - Q x ay z) =
      ∫ x in ax..bx, ∫ z in az..bz, ∫ y in ay..by', Qc (x, y, z) := by
    refine integral_congr fun x hx' => ?_
    rw [uIcc_of_le hx] at hx'
    refine integral_congr fun z hz' => ?_
    rw [uIcc_of_le hz] at hz'
    symm
    refine integral_eq_sub_of_hasDerivAt (f := fun t => Q x t z) (fun y hy' => ?_)
      ((kQ.comp (by fun_prop : Continuous fun y : ℝ => (x, y, z))).intervalIntegrable _ _)
    rw [uIcc_of_le hy] at hy'
    simp only [hQc, clamp_eq hx', clamp_eq hy', clamp_eq hz']
    exact hQ x hx' y hy' z hz'
  have e3 : ∫ x in ax..bx, ∫ y in ay..by', (R x y bz - R x y az) =
      ∫ x in ax..bx, ∫ y in ay..by', ∫ z in az..bz, Rc (x, y, z) := by
    refine integral_congr fun x hx' => ?_
    rw [uIcc_of_le hx] at hx'
    refine integral_congr fun y hy' => ?_
    rw [uIcc_of_le hy] at hy'
    symm
    refine integral_eq_sub_of_hasDerivAt (f := fun t => R x y t) (fun z hz' => ?_)
      ((kR.comp (by fun_prop : Continuous fun z : ℝ => (x, y, z))).intervalIntegrable _ _)
    rw [uIcc_of_le hz] at hz'
    simp only [hRc, clamp_eq hx', clamp_eq hy', clamp_eq hz']
    exact hR x hx' y hy' z hz'
  rw [e1, e2, e3, swap_yzx kP, swap_xzy kQ, ← triple_add kP kQ, ← triple_add (G := fun q => Pc q + Qc q) (kP.add kQ) kR]
  have z0 : ∫ x in ax..bx, ∫ y in ay..by', ∫ z in az..bz, (0 : ℝ) = 0 := by simp
  rw [← z0]
  refine integral_congr fun x hx' => ?_
  rw [uIcc_of_le hx] at hx'
  refine integral_congr fun y hy' => ?_
  rw [uIcc_of_le hy] at hy'
  refine integral_congr fun z hz' => ?_
  rw [uIcc_of_le hz] at hz'
  simp only [hPc, hQc, hRc, clamp_eq hx', clamp_eq hy', clamp_eq hz']
  exact hdiv x hx' y hy' z hz'

/-- `∫∫ (f − g) = ∫∫ f − ∫∫ g` for integrands continuous on the closed rectangle -/
theorem iter2_sub {a b c d : ℝ} (hab : a ≤ b) (hcd : c ≤ d) (f g : ℝ → ℝ → ℝ)
    (cf : ContinuousOn (fun q : ℝ × ℝ => f q.1 q.2) (Icc a b ×ˢ Icc c d))
    (cg : ContinuousOn (fun q : ℝ × ℝ => g q.1 q.2) (Icc a b ×ˢ Icc c d)) :
    ∫ s in a..b, ∫ t in c..d, (f s t - g s t) = (∫ s in a..b, ∫ t in c..d, f s t) - ∫ s in a..b, ∫ t in c..d, g s t := by
  have kc : Continuous fun q : ℝ × ℝ => (clamp a b q.1, clamp c d q.2) :=
    ((continuous_clamp a b).comp continuous_fst).prodMk ((continuous_clamp c d).comp continuous_snd)
  have km : ∀ q : ℝ × ℝ, (clamp a b q.1, clamp c d q.2) ∈ Icc a b ×ˢ Icc c d :=
    fun q => ⟨clamp_mem hab _, clamp_mem hcd _⟩
  set fc : ℝ × ℝ → ℝ := fun q => f (clamp a b q.1) (clamp c d q.2) with hfc
  set gc : ℝ × ℝ → ℝ := fun q => g (clamp a b q.1) (clamp c d q.2) with hgc
  have kf : Continuous fc := cf.comp_continuous kc km
  have kg : Continuous gc := cg.comp_continuous kc km
  have ef : ∀ (h : ℝ → ℝ → ℝ) (hc' : ℝ × ℝ → ℝ), (hc' = fun q => h (clamp a b q.1) (clamp c d q.2)) →
      ∫ s in a..b, ∫ t in c..d, h s t = ∫ s in a..b, ∫ t in c..d, hc' (s, t) := by
    intro h hc' e
    refine integral_congr fun s hs => ?_
    rw [uIcc_of_le hab] at hs
    refine integral_congr fun t ht => ?_
    rw [uIcc_of_le hcd] at ht
    simp only [e, clamp_eq hs, clamp_eq ht]
  rw [ef f fc hfc, ef g gc hgc, ef (fun s t => f s t - g s t) (fun q => fc q - gc q) (by simp only [hfc, hgc])]
  have i1 : ∀ s : ℝ, ∫ t in c..d, (fc (s, t) - gc (s, t)) = (∫ t in c..d, fc (s, t)) - ∫ t in c..d, gc (s, t) :=
    fun s => integral_sub ((kf.comp (by fun_prop : Continuous fun t : ℝ => (s, t))).intervalIntegrable _ _)
      ((kg.comp (by fun_prop : Continuous fun t : ℝ => (s, t))).intervalIntegrable _ _)
  simp_rw [i1]
  exact integral_sub ((cont_param kf c d).intervalIntegrable _ _) ((cont_param kg c d).intervalIntegrable _ _)

/-- the iterated integral of a function that is continuous and strictly positive on a non-degenerate closed
rectangle is strictly positive (used for non-vacuity: single face fluxes are not zero) -/
theorem iter2_pos {a b c d : ℝ} (hab : a < b) (hcd : c < d) (f : ℝ → ℝ → ℝ)
    (cf : ContinuousOn (fun q : ℝ × ℝ => f q.1 q.2) (Icc a b ×ˢ Icc c d))
    (hpos : ∀ s ∈ Icc a b, ∀ t ∈ Icc c d, 0 < f s t) : 0 < ∫ s in a..b, ∫ t in c..d, f s t := by
  have kc : Continuous fun q : ℝ × ℝ => (clamp a b q.1, clamp c d q.2) :=
    ((continuous_clamp a b).comp continuous_fst).prodMk ((continuous_clamp c d).comp continuous_snd)
  have km : ∀ q : ℝ × ℝ, (clamp a b q.1, clamp c d q.2) ∈ Icc a b ×ˢ Icc c d :=
    fun q => ⟨clamp_mem hab.le _, clamp_mem hcd.le _⟩
  set fc : ℝ × ℝ → ℝ := fun q => f (clamp a b q.1) (clamp c d q.2) with hfc
  have kf : Continuous fc := cf.comp_continuous kc km
  have e : ∫ s in a..b, ∫ t in c..d, f s t = ∫ s in a..b, ∫ t in c..d, fc (s, t) := by
    refine integral_congr fun s hs => ?_
    rw [uIcc_of_le hab.le] at hs
    refine integral_congr fun t ht => ?_
    rw [uIcc_of_le hcd.le] at ht
    simp only [hfc, clamp_eq hs, clamp_eq ht]
  rw [e]
  refine intervalIntegral_pos_of_pos_on ((cont_param kf c d).intervalIntegrable _ _) (fun s hs => ?_) hab
  refine intervalIntegral_pos_of_pos_on
    ((kf.comp (by fun_prop : Continuous fun t : ℝ => (s, t))).intervalIntegrable _ _) (fun t ht => ?_) hcd
  simp only [hfc, clamp_eq (Ioo_subset_Icc_self hs), clamp_eq (Ioo_subset_Icc_self ht)]
  exact hpos s (Ioo_subset_Icc_self hs) t (Ioo_subset_Icc_self ht)

/-- the inner integral of a function continuous on a closed rectangle is interval integrable -/
theorem iter2_integrable {a b c d : ℝ} (hab : a ≤ b) (hcd : c ≤ d) (f : ℝ → ℝ → ℝ)
    (cf : ContinuousOn (fun q : ℝ × ℝ => f q.1 q.2) (Icc a b ×ˢ Icc c d)) :
    IntervalIntegrable (fun s => ∫ t in c..d, f s t) volume a b := by
  have kc : Continuous fun q : ℝ × ℝ => (clamp a b q.1, clamp c d q.2) :=
    ((continuous_clamp a b).comp continuous_fst).prodMk ((continuous_clamp c d).comp continuous_snd)
  have km : ∀ q : ℝ × ℝ, (clamp a b q.1, clamp c d q.2) ∈ Icc a b ×ˢ Icc c d :=
    fun q => ⟨clamp_mem hab _, clamp_mem hcd _⟩
  set fc : ℝ × ℝ → ℝ := fun q => f (clamp a b q.1) (clamp c d q.2) with hfc
  have kf : Continuous fc := cf.comp_continuous kc km
  refine ((cont_param kf c d).intervalIntegrable a b).congr fun s hs => ?_
  have hs' : s ∈ Icc a b := by
    rw [uIoc_of_le hab] at hs
    exact Ioc_subset_Icc_self hs
  refine integral_congr fun t ht => ?_
  rw [uIcc_of_le hcd] at ht
  simp only [hfc, clamp_eq hs', clamp_eq ht]

/-- splitting an iterated integral at `s = c` when the integrand is given by two different continuous
functions on the two sides (its values on the line `s = c` do not matter) -/
theorem iter2_split {a c b lo hi : ℝ} (hac : a ≤ c) (hcb : c ≤ b) (hlh : lo ≤ hi) (f fm fp : ℝ → ℝ → ℝ)
    (cm : ContinuousOn (fun q : ℝ × ℝ => fm q.1 q.2) (Icc a c ×ˢ Icc lo hi))
    (cp : ContinuousOn (fun q : ℝ × ℝ => fp q.1 q.2) (Icc c b ×ˢ Icc lo hi))
    (em : ∀ s ∈ Ioo a c, ∀ t ∈ Icc lo hi, f s t = fm s t) (ep : ∀ s ∈ Ioo c b, ∀ t ∈ Icc lo hi, f s t = fp s t) :
    ∫ s in a..b, ∫ t in lo..hi, f s t =
      (∫ s in a..c, ∫ t in lo..hi, fm s t) + ∫ s in c..b, ∫ t in lo..hi, fp s t := by
  have hm : EqOn (fun s => ∫ t in lo..hi, f s t) (fun s => ∫ t in lo..hi, fm s t) (uIoo a c) := fun s hs => by
    rw [uIoo_of_le hac] at hs
    refine integral_congr fun t ht => ?_
    rw [uIcc_of_le hlh] at ht
    exact em s hs t ht
  have hp : EqOn (fun s => ∫ t in lo..hi, f s t) (fun s => ∫ t in lo..hi, fp s t) (uIoo c b) := fun s hs => by
    rw [uIoo_of_le hcb] at hs
    refine integral_congr fun t ht => ?_
    rw [uIcc_of_le hlh] at ht
    exact ep s hs t ht
  have Im := (iter2_integrable hac hlh fm cm).congr_uIoo hm.symm
  have Ip := (iter2_integrable hcb hlh fp cp).congr_uIoo hp.symm
  rw [← integral_add_adjacent_intervals Im Ip, integral_congr_uIoo hm, integral_congr_uIoo hp]

/-! ### Part 3: fields `V3 ℝ → V3 ℝ` -/

/-- the closed axis-aligned box `[a.x, b.x] × [a.y, b.y] × [a.z, b.z]` -/
def InBox (a b p : V3 ℝ) : Prop := p.x ∈ Icc a.x b.x ∧ p.y ∈ Icc a.y b.y ∧ p.z ∈ Icc a.z b.z

/-- `g : V3 ℝ → ℝ`, read as a function of three real variables, is continuous on the closed box
(`V3 ℝ` itself carries no topology) -/
def ContOnBox (g : V3 ℝ → ℝ) (a b : V3 ℝ) : Prop :=
  ContinuousOn (fun q : ℝ × ℝ × ℝ => g ⟨q.1, q.2.1, q.2.2⟩) (Icc a.x b.x ×ˢ Icc a.y b.y ×ˢ Icc a.z b.z)

/-- **outward flux of `F` through the boundary of the box `[a, b]`**, opposite faces paired:
`∫∫ [F_x(b.x,y,z) − F_x(a.x,y,z)] dy dz + ∫∫ [F_y(x,b.y,z) − F_y(x,a.y,z)] dx dz + ∫∫ [F_z(x,y,b.z) − F_z(x,y,a.z)] dx dy` -/
noncomputable def boxFlux (F : V3 ℝ → V3 ℝ) (a b : V3 ℝ) : ℝ :=
  (∫ y in a.y..b.y, ∫ z in a.z..b.z, ((F ⟨b.x, y, z⟩).x - (F ⟨a.x, y, z⟩).x)) +
  (∫ x in a.x..b.x, ∫ z in a.z..b.z, ((F ⟨x, b.y, z⟩).y - (F ⟨x, a.y, z⟩).y)) +
  (∫ x in a.x..b.x, ∫ y in a.y..b.y, ((F ⟨x, y, b.z⟩).z - (F ⟨x, y, a.z⟩).z))

/-- the same flux as the sum of the six face integrals (outward normals `±e_x, ±e_y, ±e_z`) -/
noncomputable def boxFlux6 (F : V3 ℝ → V3 ℝ) (a b : V3 ℝ) : ℝ :=
  (∫ y in a.y..b.y, ∫ z in a.z..b.z, (F ⟨b.x, y, z⟩).x) - (∫ y in a.y..b.y, ∫ z in a.z..b.z, (F ⟨a.x, y, z⟩).x) +
  ((∫ x in a.x..b.x, ∫ z in a.z..b.z, (F ⟨x, b.y, z⟩).y) - (∫ x in a.x..b.x, ∫ z in a.z..b.z, (F ⟨x, a.y, z⟩).y)) +
  ((∫ x in a.x..b.x, ∫ y in a.y..b.y, (F ⟨x, y, b.z⟩).z) - (∫ x in a.x..b.x, ∫ y in a.y..b.y, (F ⟨x, y, a.z⟩).z))

/-- the normal component of `F` is continuous on each of the six faces of the box -/
structure FaceCont (F : V3 ℝ → V3 ℝ) (a b : V3 ℝ) : Prop where
  xb : ContinuousOn (fun q : ℝ × ℝ => (F ⟨b.x, q.1, q.2⟩).x) (Icc a.y b.y ×ˢ Icc a.z b.z)
  xa : ContinuousOn (fun q : ℝ × ℝ => (F ⟨a.x, q.1, q.2⟩).x) (Icc a.y b.y ×ˢ Icc a.z b.z)
  yb : ContinuousOn (fun q : ℝ × ℝ => (F ⟨q.1, b.y, q.2⟩).y) (Icc a.x b.x ×ˢ Icc a.z b.z)
  ya : ContinuousOn (fun q : ℝ × ℝ => (F ⟨q.1, a.y, q.2⟩).y) (Icc a.x b.x ×ˢ Icc a.z b.z)
  zb : ContinuousOn (fun q : ℝ × ℝ => (F ⟨q.1, q.2, b.z⟩).z) (Icc a.x b.x ×ˢ Icc a.y b.y)
  za : ContinuousOn (fun q : ℝ × ℝ => (F ⟨q.1, q.2, a.z⟩).z) (Icc a.x b.x ×ˢ Icc a.y b.y)

/-- six face integrals = three paired integrals, when the normal components are continuous on the faces -/
theorem boxFlux6_eq_boxFlux (F : V3 ℝ → V3 ℝ) (a b : V3 ℝ) (hx : a.x ≤ b.x) (hy : a.y ≤ b.y) (hz : a.z ≤ b.z)
    (hc : FaceCont F a b) : boxFlux6 F a b = boxFlux F a b := by
  unfold boxFlux6 boxFlux
  rw [iter2_sub hy hz (fun y z => (F ⟨b.x, y, z⟩).x) (fun y z => (F ⟨a.x, y, z⟩).x) hc.xb hc.xa,
    iter2_sub hx hz (fun x z => (F ⟨x, b.y, z⟩).y) (fun x z => (F ⟨x, a.y, z⟩).y) hc.yb hc.ya,
    iter2_sub hx hy (fun x y => (F ⟨x, y, b.z⟩).z) (fun x y => (F ⟨x, y, a.z⟩).z) hc.zb hc.za]

/-- **Gauss's theorem for a box, fields on `V3 ℝ`**: if on the closed box the three diagonal partial
derivatives `∂F_x/∂x`, `∂F_y/∂y`, `∂F_z/∂z` exist (as `HasDerivAt` of the one-variable sections, exactly
as in `DivFreeAt`), are continuous there and add up to zero, the outward flux of `F` through the
boundary of the box is zero. -/
theorem box_flux_zero_of_div_free (F : V3 ℝ → V3 ℝ) (a b : V3 ℝ) (hx : a.x ≤ b.x) (hy : a.y ≤ b.y) (hz : a.z ≤ b.z)
    (Dx Dy Dz : V3 ℝ → ℝ)
    (hDx : ∀ p, InBox a b p → HasDerivAt (fun t => (F ⟨t, p.y, p.z⟩).x) (Dx p) p.x)
    (hDy : ∀ p, InBox a b p → HasDerivAt (fun t => (F ⟨p.x, t, p.z⟩).y) (Dy p) p.y)
    (hDz : ∀ p, InBox a b p → HasDerivAt (fun t => (F ⟨p.x, p.y, t⟩).z) (Dz p) p.z)
    (cx : ContOnBox Dx a b) (cy : ContOnBox Dy a b) (cz : ContOnBox Dz a b)
    (hdiv : ∀ p, InBox a b p → Dx p + Dy p + Dz p = 0) : boxFlux F a b = 0 :=
  gauss_box hx hy hz (fun x y z => (F ⟨x, y, z⟩).x) (fun x y z => (F ⟨x, y, z⟩).y) (fun x y z => (F ⟨x, y, z⟩).z)
    (fun x y z => Dx ⟨x, y, z⟩) (fun x y z => Dy ⟨x, y, z⟩) (fun x y z => Dz ⟨x, y, z⟩)
    (fun x h1 y h2 z h3 => hDx ⟨x, y, z⟩ ⟨h1, h2, h3⟩) (fun x h1 y h2 z h3 => hDy ⟨x, y, z⟩ ⟨h1, h2, h3⟩)
    (fun x h1 y h2 z h3 => hDz ⟨x, y, z⟩ ⟨h1, h2, h3⟩) cx cy cz
    (fun x h1 y h2 z h3 => hdiv ⟨x, y, z⟩ ⟨h1, h2, h3⟩)

/-- the same from a Jacobian field: `HasPartials F p (J p)` on the box, continuous diagonal, zero trace -/
theorem box_flux_zero_of_hasPartials (F : V3 ℝ → V3 ℝ) (a b : V3 ℝ) (hx : a.x ≤ b.x) (hy : a.y ≤ b.y)
    (hz : a.z ≤ b.z) (J : V3 ℝ → M3 ℝ) (hJ : ∀ p, InBox a b p → HasPartials F p (J p))
    (cx : ContOnBox (fun p => (J p).r1.x) a b) (cy : ContOnBox (fun p => (J p).r2.y) a b)
    (cz : ContOnBox (fun p => (J p).r3.z) a b) (hdiv : ∀ p, InBox a b p → jacDiv (J p) = 0) :
    boxFlux F a b = 0 :=
  box_flux_zero_of_div_free F a b hx hy hz _ _ _ (fun p hp => (hJ p hp).xx) (fun p hp => (hJ p hp).yy)
    (fun p hp => (hJ p hp).zz) cx cy cz hdiv

/-! circulation around axis-aligned rectangles in the three families of coordinate planes -/

/-- circulation of `F` around the rectangle `[a.x, b.x] × [a.y, b.y]` in the plane `z = c`
(counter-clockwise seen from `+z`), opposite sides paired:
`∫ [F_y(b.x, y, c) − F_y(a.x, y, c)] dy − ∫ [F_x(x, b.y, c) − F_x(x, a.y, c)] dx` -/
noncomputable def rectCircZ (F : V3 ℝ → V3 ℝ) (a b : V3 ℝ) (c : ℝ) : ℝ :=
  (∫ y in a.y..b.y, ((F ⟨b.x, y, c⟩).y - (F ⟨a.x, y, c⟩).y)) - ∫ x in a.x..b.x, ((F ⟨x, b.y, c⟩).x - (F ⟨x, a.y, c⟩).x)

/-- the same as the four line integrals `∮ F·dl` along the sides
`(a.x,a.y) → (b.x,a.y) → (b.x,b.y) → (a.x,b.y) → (a.x,a.y)` -/
noncomputable def rectCircZ4 (F : V3 ℝ → V3 ℝ) (a b : V3 ℝ) (c : ℝ) : ℝ :=
  (∫ x in a.x..b.x, (F ⟨x, a.y, c⟩).x) + (∫ y in a.y..b.y, (F ⟨b.x, y, c⟩).y) +
    (∫ x in b.x..a.x, (F ⟨x, b.y, c⟩).x) + ∫ y in b.y..a.y, (F ⟨a.x, y, c⟩).y

/-- circulation around the rectangle `[a.y, b.y] × [a.z, b.z]` in the plane `x = c` (counter-clockwise seen from `+x`) -/
noncomputable def rectCircX (F : V3 ℝ → V3 ℝ) (a b : V3 ℝ) (c : ℝ) : ℝ :=
  (∫ z in a.z..b.z, ((F ⟨c, b.y, z⟩).z - (F ⟨c, a.y, z⟩).z)) - ∫ y in a.y..b.y, ((F ⟨c, y, b.z⟩).y - (F ⟨c, y, a.z⟩).y)

noncomputable def rectCircX4 (F : V3 ℝ → V3 ℝ) (a b : V3 ℝ) (c : ℝ) : ℝ :=
  (∫ y in a.y..b.y, (F ⟨c, y, a.z⟩).y) + (∫ z in a.z..b.z, (F ⟨c, b.y, z⟩).z) +
    (∫ y in b.y..a.y, (F ⟨c, y, b.z⟩).y) + ∫ z in b.z..a.z, (F ⟨c, a.y, z⟩).z

/-- circulation around the rectangle `[a.z, b.z] × [a.x, b.x]` in the plane `y = c` (counter-clockwise seen from `+y`) -/
noncomputable def rectCircY (F : V3 ℝ → V3 ℝ) (a b : V3 ℝ) (c : ℝ) : ℝ :=
  (∫ x in a.x..b.x, ((F ⟨x, c, b.z⟩).x - (F ⟨x, c, a.z⟩).x)) - ∫ z in a.z..b.z, ((F ⟨b.x, c, z⟩).z - (F ⟨a.x, c, z⟩).z)

noncomputable def rectCircY4 (F : V3 ℝ → V3 ℝ) (a b : V3 ℝ) (c : ℝ) : ℝ :=
  (∫ z in a.z..b.z, (F ⟨a.x, c, z⟩).z) + (∫ x in a.x..b.x, (F ⟨x, c, b.z⟩).x) +
    (∫ z in b.z..a.z, (F ⟨b.x, c, z⟩).z) + ∫ x in b.x..a.x, (F ⟨x, c, a.z⟩).x

theorem rectCircZ4_eq (F : V3 ℝ → V3 ℝ) (a b : V3 ℝ) (c : ℝ)
    (h1 : IntervalIntegrable (fun x => (F ⟨x, a.y, c⟩).x) volume a.x b.x)
    (h2 : IntervalIntegrable (fun y => (F ⟨b.x, y, c⟩).y) volume a.y b.y)
    (h3 : IntervalIntegrable (fun x => (F ⟨x, b.y, c⟩).x) volume a.x b.x)
    (h4 : IntervalIntegrable (fun y => (F ⟨a.x, y, c⟩).y) volume a.y b.y) :
    rectCircZ4 F a b c = rectCircZ F a b c := by
  unfold rectCircZ4 rectCircZ
  rw [integral_sub h2 h4, integral_sub h3 h1, integral_symm a.x b.x, integral_symm a.y b.y]
  ring

theorem rectCircX4_eq (F : V3 ℝ → V3 ℝ) (a b : V3 ℝ) (c : ℝ)
    (h1 : IntervalIntegrable (fun y => (F ⟨c, y, a.z⟩).y) volume a.y b.y)
    (h2 : IntervalIntegrable (fun z => (F ⟨c, b.y, z⟩).z) volume a.z b.z)
    (h3 : IntervalIntegrable (fun y => (F ⟨c, y, b.z⟩).y) volume a.y b.y)
    (h4 : IntervalIntegrable (fun z => (F ⟨c, a.y, z⟩).z) volume a.z b.z) :
    rectCircX4 F a b c = rectCircX F a b c := by
  unfold rectCircX4 rectCircX
  rw [integral_sub h2 h4, integral_sub h3 h1, integral_symm a.y b.y, integral_symm a.z b.z]
  ring

theorem rectCircY4_eq (F : V3 ℝ → V3 ℝ) (a b : V3 ℝ) (c : ℝ)
    (h1 : IntervalIntegrable (fun z => (F ⟨a.x, c, z⟩).z) volume a.z b.z)
    (h2 : IntervalIntegrable (fun x => (F ⟨x, c, b.z⟩).x) volume a.x b.x)
    (h3 : IntervalIntegrable (fun z => (F ⟨b.x, c, z⟩).z) volume a.z b.z)
    (h4 : IntervalIntegrable (fun x => (F ⟨x, c, a.z⟩).x) volume a.x b.x) :
    rectCircY4 F a b c = rectCircY F a b c := by
  unfold rectCircY4 rectCircY
  rw [integral_sub h2 h4, integral_sub h3 h1, integral_symm a.z b.z, integral_symm a.x b.x]
  ring

/-- **Green/Stokes for a rectangle in a plane `z = c`**: if on the closed rectangle the partial
derivatives `∂F_y/∂x`, `∂F_x/∂y` exist, are continuous and `(curl F)_z = ∂F_y/∂x − ∂F_x/∂y = 0`, the
circulation of `F` around the rectangle is zero. -/
theorem rect_circulation_zero_of_curl_free (F : V3 ℝ → V3 ℝ) (a b : V3 ℝ) (c : ℝ) (hx : a.x ≤ b.x) (hy : a.y ≤ b.y)
    (Dyx Dxy : ℝ → ℝ → ℝ)
    (hyx : ∀ x ∈ Icc a.x b.x, ∀ y ∈ Icc a.y b.y, HasDerivAt (fun t => (F ⟨t, y, c⟩).y) (Dyx x y) x)
    (hxy : ∀ x ∈ Icc a.x b.x, ∀ y ∈ Icc a.y b.y, HasDerivAt (fun t => (F ⟨x, t, c⟩).x) (Dxy x y) y)
    (cyx : ContinuousOn (fun q : ℝ × ℝ => Dyx q.1 q.2) (Icc a.x b.x ×ˢ Icc a.y b.y))
    (cxy : ContinuousOn (fun q : ℝ × ℝ => Dxy q.1 q.2) (Icc a.x b.x ×ˢ Icc a.y b.y))
    (hcurl : ∀ x ∈ Icc a.x b.x, ∀ y ∈ Icc a.y b.y, Dyx x y - Dxy x y = 0) : rectCircZ F a b c = 0 :=
  green_rect hx hy (fun x y => (F ⟨x, y, c⟩).x) (fun x y => (F ⟨x, y, c⟩).y) Dxy Dyx hyx hxy cyx cxy hcurl

/-- the same in a plane `x = c`: `(curl F)_x = ∂F_z/∂y − ∂F_y/∂z = 0` on the rectangle -/
theorem rect_circulation_zero_of_curl_free_x (F : V3 ℝ → V3 ℝ) (a b : V3 ℝ) (c : ℝ) (hy : a.y ≤ b.y) (hz : a.z ≤ b.z)
    (Dzy Dyz : ℝ → ℝ → ℝ)
    (hzy : ∀ y ∈ Icc a.y b.y, ∀ z ∈ Icc a.z b.z, HasDerivAt (fun t => (F ⟨c, t, z⟩).z) (Dzy y z) y)
    (hyz : ∀ y ∈ Icc a.y b.y, ∀ z ∈ Icc a.z b.z, HasDerivAt (fun t => (F ⟨c, y, t⟩).y) (Dyz y z) z)
    (czy : ContinuousOn (fun q : ℝ × ℝ => Dzy q.1 q.2) (Icc a.y b.y ×ˢ Icc a.z b.z))
    (cyz : ContinuousOn (fun q : ℝ × ℝ => Dyz q.1 q.2) (Icc a.y b.y ×ˢ Icc a.z b.z))
    (hcurl : ∀ y ∈ Icc a.y b.y, ∀ z ∈ Icc a.z b.z, Dzy y z - Dyz y z = 0) : rectCircX F a b c = 0 :=
  green_rect hy hz (fun y z => (F ⟨c, y, z⟩).y) (fun y z => (F ⟨c, y, z⟩).z) Dyz Dzy hzy hyz czy cyz hcurl

/-- the same in a plane `y = c`: `(curl F)_y = ∂F_x/∂z − ∂F_z/∂x = 0` on the rectangle
(first variable `z`, second variable `x`) -/
theorem rect_circulation_zero_of_curl_free_y (F : V3 ℝ → V3 ℝ) (a b : V3 ℝ) (c : ℝ) (hz : a.z ≤ b.z) (hx : a.x ≤ b.x)
    (Dxz Dzx : ℝ → ℝ → ℝ)
    (hxz : ∀ z ∈ Icc a.z b.z, ∀ x ∈ Icc a.x b.x, HasDerivAt (fun t => (F ⟨x, c, t⟩).x) (Dxz z x) z)
    (hzx : ∀ z ∈ Icc a.z b.z, ∀ x ∈ Icc a.x b.x, HasDerivAt (fun t => (F ⟨t, c, z⟩).z) (Dzx z x) x)
    (cxz : ContinuousOn (fun q : ℝ × ℝ => Dxz q.1 q.2) (Icc a.z b.z ×ˢ Icc a.x b.x))
    (czx : ContinuousOn (fun q : ℝ × ℝ => Dzx q.1 q.2) (Icc a.z b.z ×ˢ Icc a.x b.x))
    (hcurl : ∀ z ∈ Icc a.z b.z, ∀ x ∈ Icc a.x b.x, Dxz z x - Dzx z x = 0) : rectCircY F a b c = 0 :=
  green_rect hz hx (fun z x => (F ⟨x, c, z⟩).z) (fun z x => (F ⟨x, c, z⟩).x) Dzx Dxz hxz hzx cxz czx hcurl

/-- the three circulation laws at once from a Jacobian field on a box: if `HasPartials F p (J p)` on the
closed box `[a, b]`, the off-diagonal entries of `J` are continuous there and `jacCurl (J p) = 0`, the
circulation around EVERY axis-aligned rectangle `[a, b] ∩ {coordinate = c}` vanishes (the box may be
degenerate, `a.z = b.z = c`, so that nothing is assumed off the plane of the rectangle) -/
theorem rect_circulation_zero_of_hasPartials (F : V3 ℝ → V3 ℝ) (a b : V3 ℝ) (hx : a.x ≤ b.x) (hy : a.y ≤ b.y)
    (hz : a.z ≤ b.z) (J : V3 ℝ → M3 ℝ) (hJ : ∀ p, InBox a b p → HasPartials F p (J p))
    (c12 : ContOnBox (fun p => (J p).r1.y) a b) (c13 : ContOnBox (fun p => (J p).r1.z) a b)
    (c21 : ContOnBox (fun p => (J p).r2.x) a b) (c23 : ContOnBox (fun p => (J p).r2.z) a b)
    (c31 : ContOnBox (fun p => (J p).r3.x) a b) (c32 : ContOnBox (fun p => (J p).r3.y) a b)
    (hcurl : ∀ p, InBox a b p → jacCurl (J p) = ⟨0, 0, 0⟩) :
    (∀ c ∈ Icc a.z b.z, rectCircZ F a b c = 0) ∧ (∀ c ∈ Icc a.x b.x, rectCircX F a b c = 0) ∧
      (∀ c ∈ Icc a.y b.y, rectCircY F a b c = 0) := by
  refine ⟨fun c hc => ?_, fun c hc => ?_, fun c hc => ?_⟩
  · refine rect_circulation_zero_of_curl_free F a b c hx hy (fun x y => (J ⟨x, y, c⟩).r2.x)
      (fun x y => (J ⟨x, y, c⟩).r1.y) (fun x h1 y h2 => (hJ ⟨x, y, c⟩ ⟨h1, h2, hc⟩).yx)
      (fun x h1 y h2 => (hJ ⟨x, y, c⟩ ⟨h1, h2, hc⟩).xy) ?_ ?_
      (fun x h1 y h2 => congrArg V3.z (hcurl ⟨x, y, c⟩ ⟨h1, h2, hc⟩))
    · exact c21.comp (f := fun q : ℝ × ℝ => (q.1, q.2, c)) (by fun_prop) fun q hq => ⟨hq.1, hq.2, hc⟩
    · exact c12.comp (f := fun q : ℝ × ℝ => (q.1, q.2, c)) (by fun_prop) fun q hq => ⟨hq.1, hq.2, hc⟩
  · refine rect_circulation_zero_of_curl_free_x F a b c hy hz (fun y z => (J ⟨c, y, z⟩).r3.y)
      (fun y z => (J ⟨c, y, z⟩).r2.z) (fun y h1 z h2 => (hJ ⟨c, y, z⟩ ⟨hc, h1, h2⟩).zy)
      (fun y h1 z h2 => (hJ ⟨c, y, z⟩ ⟨hc, h1, h2⟩).yz) ?_ ?_
      (fun y h1 z h2 => congrArg V3.x (hcurl ⟨c, y, z⟩ ⟨hc, h1, h2⟩))
    · exact c32.comp (f := fun q : ℝ × ℝ => (c, q.1, q.2)) (by fun_prop) fun q hq => ⟨hc, hq.1, hq.2⟩
    · exact c23.comp (f := fun q : ℝ × ℝ => (c, q.1, q.2)) (by fun_prop) fun q hq => ⟨hc, hq.1, hq.2⟩
  · refine rect_circulation_zero_of_curl_free_y F a b c hz hx (fun z x => (J ⟨x, c, z⟩).r1.z)
      (fun z x => (J ⟨x, c, z⟩).r3.x) (fun z h1 x h2 => (hJ ⟨x, c, z⟩ ⟨h2, hc, h1⟩).xz)
      (fun z h1 x h2 => (hJ ⟨x, c, z⟩ ⟨h2, hc, h1⟩).zx) ?_ ?_
      (fun z h1 x h2 => congrArg V3.y (hcurl ⟨x, c, z⟩ ⟨h2, hc, h1⟩))
    · exact c13.comp (f := fun q : ℝ × ℝ => (q.2, c, q.1)) (by fun_prop) fun q hq => ⟨hq.2, hc, hq.1⟩
    · exact c31.comp (f := fun q : ℝ × ℝ => (q.2, c, q.1)) (by fun_prop) fun q hq => ⟨hq.2, hc, hq.1⟩

/-! ### fields whose three components are continuous on the box -/

/-- the three components of `F`, read as functions of three real variables, are continuous on the closed box -/
def FieldContOnBox (F : V3 ℝ → V3 ℝ) (a b : V3 ℝ) : Prop :=
  ContOnBox (fun p => (F p).x) a b ∧ ContOnBox (fun p => (F p).y) a b ∧ ContOnBox (fun p => (F p).z) a b

theorem FieldContOnBox.faceCont {F : V3 ℝ → V3 ℝ} {a b : V3 ℝ} (h : FieldContOnBox F a b)
    (hx : a.x ≤ b.x) (hy : a.y ≤ b.y) (hz : a.z ≤ b.z) : FaceCont F a b := by
  have ex : a.x ∈ Icc a.x b.x ∧ b.x ∈ Icc a.x b.x := ⟨left_mem_Icc.mpr hx, right_mem_Icc.mpr hx⟩
  have ey : a.y ∈ Icc a.y b.y ∧ b.y ∈ Icc a.y b.y := ⟨left_mem_Icc.mpr hy, right_mem_Icc.mpr hy⟩
  have ez : a.z ∈ Icc a.z b.z ∧ b.z ∈ Icc a.z b.z := ⟨left_mem_Icc.mpr hz, right_mem_Icc.mpr hz⟩
  constructor
  · exact h.1.comp (f := fun q : ℝ × ℝ => (b.x, q.1, q.2)) (by fun_prop) fun q hq => ⟨ex.2, hq.1, hq.2⟩
  · exact h.1.comp (f := fun q : ℝ × ℝ => (a.x, q.1, q.2)) (by fun_prop) fun q hq => ⟨ex.1, hq.1, hq.2⟩
  · exact h.2.1.comp (f := fun q : ℝ × ℝ => (q.1, b.y, q.2)) (by fun_prop) fun q hq => ⟨hq.1, ey.2, hq.2⟩
  · exact h.2.1.comp (f := fun q : ℝ × ℝ => (q.1, a.y, q.2)) (by fun_prop) fun q hq => ⟨hq.1, ey.1, hq.2⟩
  · exact h.2.2.comp (f := fun q : ℝ × ℝ => (q.1, q.2, b.z)) (by fun_prop) fun q hq => ⟨hq.1, hq.2, ez.2⟩
  · exact h.2.2.comp (f := fun q : ℝ × ℝ => (q.1, q.2, a.z)) (by fun_prop) fun q hq => ⟨hq.1, hq.2, ez.1⟩

/-- along every axis-parallel segment inside the box the components of `F` are interval integrable -/
theorem FieldContOnBox.integrable_along {F : V3 ℝ → V3 ℝ} {a b : V3 ℝ} (h : FieldContOnBox F a b)
    (f : ℝ → ℝ × ℝ × ℝ) (u v : ℝ) (huv : u ≤ v) (hf : Continuous f)
    (hmem : ∀ t ∈ Icc u v, InBox a b ⟨(f t).1, (f t).2.1, (f t).2.2⟩) :
    IntervalIntegrable (fun t => (F ⟨(f t).1, (f t).2.1, (f t).2.2⟩).x) volume u v ∧
    IntervalIntegrable (fun t => (F ⟨(f t).1, (f t).2.1, (f t).2.2⟩).y) volume u v ∧
    IntervalIntegrable (fun t => (F ⟨(f t).1, (f t).2.1, (f t).2.2⟩).z) volume u v := by
  have hm : ∀ t ∈ uIcc u v, f t ∈ Icc a.x b.x ×ˢ Icc a.y b.y ×ˢ Icc a.z b.z := fun t ht => by
    rw [uIcc_of_le huv] at ht
    exact ⟨(hmem t ht).1, (hmem t ht).2.1, (hmem t ht).2.2⟩
  exact ⟨(h.1.comp hf.continuousOn hm).intervalIntegrable, (h.2.1.comp hf.continuousOn hm).intervalIntegrable,
    (h.2.2.comp hf.continuousOn hm).intervalIntegrable⟩

/-- for a field continuous on the box, the four-line-integral form of the circulation around every
axis-aligned rectangle cut out of the box equals the paired form -/
theorem FieldContOnBox.rectCirc4_eq {F : V3 ℝ → V3 ℝ} {a b : V3 ℝ} (h : FieldContOnBox F a b)
    (hx : a.x ≤ b.x) (hy : a.y ≤ b.y) (hz : a.z ≤ b.z) :
    (∀ c ∈ Icc a.z b.z, rectCircZ4 F a b c = rectCircZ F a b c) ∧
    (∀ c ∈ Icc a.x b.x, rectCircX4 F a b c = rectCircX F a b c) ∧
    (∀ c ∈ Icc a.y b.y, rectCircY4 F a b c = rectCircY F a b c) := by
  have ex : a.x ∈ Icc a.x b.x ∧ b.x ∈ Icc a.x b.x := ⟨left_mem_Icc.mpr hx, right_mem_Icc.mpr hx⟩
  have ey : a.y ∈ Icc a.y b.y ∧ b.y ∈ Icc a.y b.y := ⟨left_mem_Icc.mpr hy, right_mem_Icc.mpr hy⟩
  have ez : a.z ∈ Icc a.z b.z ∧ b.z ∈ Icc a.z b.z := ⟨left_mem_Icc.mpr hz, right_mem_Icc.mpr hz⟩
  have key := h.integrable_along
  refine ⟨fun c hc => ?_, fun c hc => ?_, fun c hc => ?_⟩
  · exact rectCircZ4_eq _ a b c
      (key (fun t => (t, a.y, c)) _ _ hx (by fun_prop) fun t ht => ⟨ht, ey.1, hc⟩).1
      (key (fun t => (b.x, t, c)) _ _ hy (by fun_prop) fun t ht => ⟨ex.2, ht, hc⟩).2.1
      (key (fun t => (t, b.y, c)) _ _ hx (by fun_prop) fun t ht => ⟨ht, ey.2, hc⟩).1
      (key (fun t => (a.x, t, c)) _ _ hy (by fun_prop) fun t ht => ⟨ex.1, ht, hc⟩).2.1
  · exact rectCircX4_eq _ a b c
      (key (fun t => (c, t, a.z)) _ _ hy (by fun_prop) fun t ht => ⟨hc, ht, ez.1⟩).2.1
      (key (fun t => (c, b.y, t)) _ _ hz (by fun_prop) fun t ht => ⟨hc, ey.2, ht⟩).2.2
      (key (fun t => (c, t, b.z)) _ _ hy (by fun_prop) fun t ht => ⟨hc, ht, ez.2⟩).2.1
      (key (fun t => (c, a.y, t)) _ _ hz (by fun_prop) fun t ht => ⟨hc, ey.1, ht⟩).2.2
  · exact rectCircY4_eq _ a b c
      (key (fun t => (a.x, c, t)) _ _ hz (by fun_prop) fun t ht => ⟨ex.1, hc, ht⟩).2.2
      (key (fun t => (t, c, b.z)) _ _ hx (by fun_prop) fun t ht => ⟨ht, hc, ez.2⟩).1
      (key (fun t => (b.x, c, t)) _ _ hz (by fun_prop) fun t ht => ⟨ex.2, hc, ht⟩).2.2
      (key (fun t => (t, c, a.z)) _ _ hx (by fun_prop) fun t ht => ⟨ht, hc, ez.1⟩).1

/-- continuity on the box only depends on the values on the box -/
theorem FieldContOnBox.congr {F G : V3 ℝ → V3 ℝ} {a b : V3 ℝ} (h : FieldContOnBox G a b)
    (heq : ∀ p, InBox a b p → F p = G p) : FieldContOnBox F a b :=
  ⟨h.1.congr fun q hq => congrArg V3.x (heq ⟨q.1, q.2.1, q.2.2⟩ ⟨hq.1, hq.2.1, hq.2.2⟩),
   h.2.1.congr fun q hq => congrArg V3.y (heq ⟨q.1, q.2.1, q.2.2⟩ ⟨hq.1, hq.2.1, hq.2.2⟩),
   h.2.2.congr fun q hq => congrArg V3.z (heq ⟨q.1, q.2.1, q.2.2⟩ ⟨hq.1, hq.2.1, hq.2.2⟩)⟩

/-! ### the flux / circulation only depend on the values of the field on the box -/

section congr
variable {F G : V3 ℝ → V3 ℝ} {a b : V3 ℝ} (hx : a.x ≤ b.x) (hy : a.y ≤ b.y) (hz : a.z ≤ b.z)
  (h : ∀ p, InBox a b p → F p = G p)
include hx hy hz h

theorem boxFlux_congr : boxFlux F a b = boxFlux G a b := by
  have ex : a.x ∈ Icc a.x b.x ∧ b.x ∈ Icc a.x b.x := ⟨left_mem_Icc.mpr hx, right_mem_Icc.mpr hx⟩
  have ey : a.y ∈ Icc a.y b.y ∧ b.y ∈ Icc a.y b.y := ⟨left_mem_Icc.mpr hy, right_mem_Icc.mpr hy⟩
  have ez : a.z ∈ Icc a.z b.z ∧ b.z ∈ Icc a.z b.z := ⟨left_mem_Icc.mpr hz, right_mem_Icc.mpr hz⟩
  unfold boxFlux
  congr 1
  · congr 1
    · refine integral_congr fun y hy' => integral_congr fun z hz' => ?_
      rw [uIcc_of_le hy] at hy'; rw [uIcc_of_le hz] at hz'
      simp only [h ⟨b.x, y, z⟩ ⟨ex.2, hy', hz'⟩, h ⟨a.x, y, z⟩ ⟨ex.1, hy', hz'⟩]
    · refine integral_congr fun x hx' => integral_congr fun z hz' => ?_
      rw [uIcc_of_le hx] at hx'; rw [uIcc_of_le hz] at hz'
      simp only [h ⟨x, b.y, z⟩ ⟨hx', ey.2, hz'⟩, h ⟨x, a.y, z⟩ ⟨hx', ey.1, hz'⟩]
  · refine integral_congr fun x hx' => integral_congr fun y hy' => ?_
    rw [uIcc_of_le hx] at hx'; rw [uIcc_of_le hy] at hy'
    simp only [h ⟨x, y, b.z⟩ ⟨hx', hy', ez.2⟩, h ⟨x, y, a.z⟩ ⟨hx', hy', ez.1⟩]

theorem boxFlux6_congr : boxFlux6 F a b = boxFlux6 G a b := by
  have ex : a.x ∈ Icc a.x b.x ∧ b.x ∈ Icc a.x b.x := ⟨left_mem_Icc.mpr hx, right_mem_Icc.mpr hx⟩
  have ey : a.y ∈ Icc a.y b.y ∧ b.y ∈ Icc a.y b.y := ⟨left_mem_Icc.mpr hy, right_mem_Icc.mpr hy⟩
  have ez : a.z ∈ Icc a.z b.z ∧ b.z ∈ Icc a.z b.z := ⟨left_mem_Icc.mpr hz, right_mem_Icc.mpr hz⟩
  have e1 : ∀ t ∈ Icc a.x b.x, ∫ y in a.y..b.y, ∫ z in a.z..b.z, (F ⟨t, y, z⟩).x =
      ∫ y in a.y..b.y, ∫ z in a.z..b.z, (G ⟨t, y, z⟩).x := fun t ht => by
    refine integral_congr fun y hy' => integral_congr fun z hz' => ?_
    rw [uIcc_of_le hy] at hy'; rw [uIcc_of_le hz] at hz'
    simp only [h ⟨t, y, z⟩ ⟨ht, hy', hz'⟩]
  have e2 : ∀ t ∈ Icc a.y b.y, ∫ x in a.x..b.x, ∫ z in a.z..b.z, (F ⟨x, t, z⟩).y =
      ∫ x in a.x..b.x, ∫ z in a.z..b.z, (G ⟨x, t, z⟩).y := fun t ht => by
    refine integral_congr fun x hx' => integral_congr fun z hz' => ?_
    rw [uIcc_of_le hx] at hx'; rw [uIcc_of_le hz] at hz'
    simp only [h ⟨x, t, z⟩ ⟨hx', ht, hz'⟩]
  have e3 : ∀ t ∈ Icc a.z b.z, ∫ x in a.x..b.x, ∫ y in a.y..b.y, (F ⟨x, y, t⟩).z =
      ∫ x in a.x..b.x, ∫ y in a.y..b.y, (G ⟨x, y, t⟩).z := fun t ht => by
    refine integral_congr fun x hx' => integral_congr fun y hy' => ?_
    rw [uIcc_of_le hx] at hx'; rw [uIcc_of_le hy] at hy'
    simp only [h ⟨x, y, t⟩ ⟨hx', hy', ht⟩]
  unfold boxFlux6
  rw [e1 _ ex.1, e1 _ ex.2, e2 _ ey.1, e2 _ ey.2, e3 _ ez.1, e3 _ ez.2]

/-- all six circulation expressions of the rectangles cut out of the box -/
theorem rectCirc_congr :
    (∀ c ∈ Icc a.z b.z, rectCircZ F a b c = rectCircZ G a b c ∧ rectCircZ4 F a b c = rectCircZ4 G a b c) ∧
    (∀ c ∈ Icc a.x b.x, rectCircX F a b c = rectCircX G a b c ∧ rectCircX4 F a b c = rectCircX4 G a b c) ∧
    (∀ c ∈ Icc a.y b.y, rectCircY F a b c = rectCircY G a b c ∧ rectCircY4 F a b c = rectCircY4 G a b c) := by
  have ex : a.x ∈ Icc a.x b.x ∧ b.x ∈ Icc a.x b.x := ⟨left_mem_Icc.mpr hx, right_mem_Icc.mpr hx⟩
  have ey : a.y ∈ Icc a.y b.y ∧ b.y ∈ Icc a.y b.y := ⟨left_mem_Icc.mpr hy, right_mem_Icc.mpr hy⟩
  have ez : a.z ∈ Icc a.z b.z ∧ b.z ∈ Icc a.z b.z := ⟨left_mem_Icc.mpr hz, right_mem_Icc.mpr hz⟩
  -- line integrals along segments inside the box, in either direction
  have key : ∀ (f : ℝ → V3 ℝ) (π : V3 ℝ → ℝ) (u v : ℝ), u ≤ v → (∀ t ∈ Icc u v, InBox a b (f t)) →
      (∫ t in u..v, π (F (f t))) = (∫ t in u..v, π (G (f t))) ∧
      (∫ t in v..u, π (F (f t))) = ∫ t in v..u, π (G (f t)) := by
    intro f π u v huv hm
    constructor
    · refine integral_congr fun t ht => ?_
      rw [uIcc_of_le huv] at ht
      simp only [h _ (hm t ht)]
    · refine integral_congr fun t ht => ?_
      rw [uIcc_of_ge huv] at ht
      simp only [h _ (hm t ht)]
  have key2 : ∀ (f g : ℝ → V3 ℝ) (π : V3 ℝ → ℝ) (u v : ℝ), u ≤ v → (∀ t ∈ Icc u v, InBox a b (f t)) →
      (∀ t ∈ Icc u v, InBox a b (g t)) →
      (∫ t in u..v, (π (F (f t)) - π (F (g t)))) = ∫ t in u..v, (π (G (f t)) - π (G (g t))) := by
    intro f g π u v huv hf hg
    refine integral_congr fun t ht => ?_
    rw [uIcc_of_le huv] at ht
    simp only [h _ (hf t ht), h _ (hg t ht)]
  refine ⟨fun c hc => ⟨?_, ?_⟩, fun c hc => ⟨?_, ?_⟩, fun c hc => ⟨?_, ?_⟩⟩
  · unfold rectCircZ
    rw [key2 (fun t => ⟨b.x, t, c⟩) (fun t => ⟨a.x, t, c⟩) V3.y _ _ hy (fun t ht => ⟨ex.2, ht, hc⟩)
        (fun t ht => ⟨ex.1, ht, hc⟩),
      key2 (fun t => ⟨t, b.y, c⟩) (fun t => ⟨t, a.y, c⟩) V3.x _ _ hx (fun t ht => ⟨ht, ey.2, hc⟩)
        (fun t ht => ⟨ht, ey.1, hc⟩)]
  · unfold rectCircZ4
    rw [(key (fun t => ⟨t, a.y, c⟩) V3.x _ _ hx (fun t ht => ⟨ht, ey.1, hc⟩)).1,
      (key (fun t => ⟨b.x, t, c⟩) V3.y _ _ hy (fun t ht => ⟨ex.2, ht, hc⟩)).1,
      (key (fun t => ⟨t, b.y, c⟩) V3.x _ _ hx (fun t ht => ⟨ht, ey.2, hc⟩)).2,
      (key (fun t => ⟨a.x, t, c⟩) V3.y _ _ hy (fun t ht => ⟨ex.1, ht, hc⟩)).2]
  · unfold rectCircX
    rw [key2 (fun t => ⟨c, b.y, t⟩) (fun t => ⟨c, a.y, t⟩) V3.z _ _ hz (fun t ht => ⟨hc, ey.2, ht⟩)
        (fun t ht => ⟨hc, ey.1, ht⟩),
      key2 (fun t => ⟨c, t, b.z⟩) (fun t => ⟨c, t, a.z⟩) V3.y _ _ hy (fun t ht => ⟨hc, ht, ez.2⟩)
        (fun t ht => ⟨hc, ht, ez.1⟩)]
  · unfold rectCircX4
    rw [(key (fun t => ⟨c, t, a.z⟩) V3.y _ _ hy (fun t ht => ⟨hc, ht, ez.1⟩)).1,
      (key (fun t => ⟨c, b.y, t⟩) V3.z _ _ hz (fun t ht => ⟨hc, ey.2, ht⟩)).1,
      (key (fun t => ⟨c, t, b.z⟩) V3.y _ _ hy (fun t ht => ⟨hc, ht, ez.2⟩)).2,
      (key (fun t => ⟨c, a.y, t⟩) V3.z _ _ hz (fun t ht => ⟨hc, ey.1, ht⟩)).2]
  · unfold rectCircY
    rw [key2 (fun t => ⟨t, c, b.z⟩) (fun t => ⟨t, c, a.z⟩) V3.x _ _ hx (fun t ht => ⟨ht, hc, ez.2⟩)
        (fun t ht => ⟨ht, hc, ez.1⟩),
      key2 (fun t => ⟨b.x, c, t⟩) (fun t => ⟨a.x, c, t⟩) V3.z _ _ hz (fun t ht => ⟨ex.2, hc, ht⟩)
        (fun t ht => ⟨ex.1, hc, ht⟩)]
  · unfold rectCircY4
    rw [(key (fun t => ⟨a.x, c, t⟩) V3.z _ _ hz (fun t ht => ⟨ex.1, hc, ht⟩)).1,
      (key (fun t => ⟨t, c, b.z⟩) V3.x _ _ hx (fun t ht => ⟨ht, hc, ez.2⟩)).1,
      (key (fun t => ⟨b.x, c, t⟩) V3.z _ _ hz (fun t ht => ⟨ex.2, hc, ht⟩)).2,
      (key (fun t => ⟨t, c, a.z⟩) V3.x _ _ hx (fun t ht => ⟨ht, hc, ez.1⟩)).2]

end congr

/-! ### constant fields; boxes inside / outside a ball -/

/-- flux and circulation of a constant field vanish (all forms) -/
theorem const_field_laws (v a b : V3 ℝ) (c : ℝ) :
    boxFlux (fun _ => v) a b = 0 ∧ boxFlux6 (fun _ => v) a b = 0 ∧
    (rectCircZ (fun _ => v) a b c = 0 ∧ rectCircZ4 (fun _ => v) a b c = 0) ∧
    (rectCircX (fun _ => v) a b c = 0 ∧ rectCircX4 (fun _ => v) a b c = 0) ∧
    (rectCircY (fun _ => v) a b c = 0 ∧ rectCircY4 (fun _ => v) a b c = 0) := by
  refine ⟨?_, ?_, ⟨?_, ?_⟩, ⟨?_, ?_⟩, ⟨?_, ?_⟩⟩
  · simp [boxFlux]
  · simp [boxFlux6]
  · simp [rectCircZ]
  · simp only [rectCircZ4, intervalIntegral.integral_const, smul_eq_mul]; ring
  · simp [rectCircX]
  · simp only [rectCircX4, intervalIntegral.integral_const, smul_eq_mul]; ring
  · simp [rectCircY]
  · simp only [rectCircY4, intervalIntegral.integral_const, smul_eq_mul]; ring

theorem abs_coord_le_norm (p : V3 ℝ) : |p.x| ≤ Kern.norm p ∧ |p.y| ≤ Kern.norm p ∧ |p.z| ≤ Kern.norm p := by
  simp only [Kern.norm, sqrt_real]
  refine ⟨Real.abs_le_sqrt ?_, Real.abs_le_sqrt ?_, Real.abs_le_sqrt ?_⟩ <;>
    nlinarith [mul_self_nonneg p.x, mul_self_nonneg p.y, mul_self_nonneg p.z]

/-- checkable sufficient condition for "the box lies strictly inside the ball of radius `R`": the corner
farthest from the origin does -/
theorem norm_lt_of_inBox {a b p : V3 ℝ} {R : ℝ} (hR : 0 < R)
    (h : max |a.x| |b.x| ^ 2 + max |a.y| |b.y| ^ 2 + max |a.z| |b.z| ^ 2 < R ^ 2) (hp : InBox a b p) :
    Kern.norm p < R := by
  have m : ∀ {t lo hi : ℝ}, t ∈ Icc lo hi → t * t ≤ max |lo| |hi| ^ 2 := by
    intro t lo hi ht
    have h1 : |t| ≤ max |lo| |hi| := abs_le_max_abs_abs ht.1 ht.2
    have h2 : 0 ≤ |t| := abs_nonneg t
    calc t * t = |t| * |t| := (abs_mul_abs_self t).symm
      _ ≤ max |lo| |hi| ^ 2 := by nlinarith
  simp only [Kern.norm, sqrt_real]
  rw [Real.sqrt_lt' hR]
  linarith [m hp.1, m hp.2.1, m hp.2.2]

/-- checkable sufficient condition for "the box lies strictly outside the ball of radius `R`": it lies
beyond the ball along one coordinate axis -/
theorem norm_gt_of_inBox {a b p : V3 ℝ} {R : ℝ}
    (h : (R < a.x ∨ b.x < -R) ∨ (R < a.y ∨ b.y < -R) ∨ (R < a.z ∨ b.z < -R)) (hp : InBox a b p) :
    R < Kern.norm p := by
  obtain ⟨hx, hy, hz⟩ := abs_coord_le_norm p
  rcases h with (h | h) | (h | h) | (h | h)
  · exact lt_of_lt_of_le (lt_of_lt_of_le (lt_of_lt_of_le h hp.1.1) (le_abs_self _)) hx
  · exact lt_of_lt_of_le (lt_of_lt_of_le (by linarith [hp.1.2]) (neg_le_abs _)) hx
  · exact lt_of_lt_of_le (lt_of_lt_of_le (lt_of_lt_of_le h hp.2.1.1) (le_abs_self _)) hy
  · exact lt_of_lt_of_le (lt_of_lt_of_le (by linarith [hp.2.1.2]) (neg_le_abs _)) hy
  · exact lt_of_lt_of_le (lt_of_lt_of_le (lt_of_lt_of_le h hp.2.2.1) (le_abs_self _)) hz
  · exact lt_of_lt_of_le (lt_of_lt_of_le (by linarith [hp.2.2.2]) (neg_le_abs _)) hz

/-! ### boxes cut by a plane across which the field is only piecewise smooth -/

/-- **Flux law for a box that is cut by a plane `x = c` across which the field is only piecewise smooth**
(the situation of a box cutting a magnet's face).  Let `Fm`, `Fp` be fields that are continuous on the closed
half boxes `[a.x, c] × …`, `[c, b.x] × …` and have zero flux through them (e.g. by
`box_flux_zero_of_hasPartials`), let `F` agree with `Fm` on the part `x < c` and with `Fp` on the part `x > c`
of the box (nothing is assumed about `F` on the plane itself), and let the NORMAL component be continuous
across the cut: `Fm_x(c, y, z) = Fp_x(c, y, z)`.  Then the flux of `F` through the whole box is zero; the
tangential components of `Fm`, `Fp` may differ on the cut. -/
theorem box_flux_zero_of_split_x (F Fm Fp : V3 ℝ → V3 ℝ) (a b : V3 ℝ) (c : ℝ) (hac : a.x < c) (hcb : c < b.x)
    (hy : a.y ≤ b.y) (hz : a.z ≤ b.z)
    (cm : FieldContOnBox Fm a ⟨c, b.y, b.z⟩) (cp : FieldContOnBox Fp ⟨c, a.y, a.z⟩ b)
    (hm0 : boxFlux6 Fm a ⟨c, b.y, b.z⟩ = 0) (hp0 : boxFlux6 Fp ⟨c, a.y, a.z⟩ b = 0)
    (em : ∀ p, InBox a b p → p.x < c → F p = Fm p) (ep : ∀ p, InBox a b p → c < p.x → F p = Fp p)
    (hn : ∀ y ∈ Icc a.y b.y, ∀ z ∈ Icc a.z b.z, (Fm ⟨c, y, z⟩).x = (Fp ⟨c, y, z⟩).x) :
    boxFlux6 F a b = 0 := by
  have hx : a.x ≤ b.x := (hac.trans hcb).le
  have fm := cm.faceCont (b := ⟨c, b.y, b.z⟩) hac.le hy hz
  have fp := cp.faceCont (a := ⟨c, a.y, a.z⟩) hcb.le hy hz
  have ey : a.y ∈ Icc a.y b.y ∧ b.y ∈ Icc a.y b.y := ⟨left_mem_Icc.mpr hy, right_mem_Icc.mpr hy⟩
  have ez : a.z ∈ Icc a.z b.z ∧ b.z ∈ Icc a.z b.z := ⟨left_mem_Icc.mpr hz, right_mem_Icc.mpr hz⟩
  -- the two faces x = a.x, x = b.x
  have X1 : ∫ y in a.y..b.y, ∫ z in a.z..b.z, (F ⟨b.x, y, z⟩).x = ∫ y in a.y..b.y, ∫ z in a.z..b.z, (Fp ⟨b.x, y, z⟩).x := by
    refine integral_congr fun y hy' => integral_congr fun z hz' => ?_
    rw [uIcc_of_le hy] at hy'; rw [uIcc_of_le hz] at hz'
    simp only [ep ⟨b.x, y, z⟩ ⟨right_mem_Icc.mpr hx, hy', hz'⟩ hcb]
  have X0 : ∫ y in a.y..b.y, ∫ z in a.z..b.z, (F ⟨a.x, y, z⟩).x = ∫ y in a.y..b.y, ∫ z in a.z..b.z, (Fm ⟨a.x, y, z⟩).x := by
    refine integral_congr fun y hy' => integral_congr fun z hz' => ?_
    rw [uIcc_of_le hy] at hy'; rw [uIcc_of_le hz] at hz'
    simp only [em ⟨a.x, y, z⟩ ⟨left_mem_Icc.mpr hx, hy', hz'⟩ hac]
  -- the cut
  have Xc : ∫ y in a.y..b.y, ∫ z in a.z..b.z, (Fm ⟨c, y, z⟩).x = ∫ y in a.y..b.y, ∫ z in a.z..b.z, (Fp ⟨c, y, z⟩).x := by
    refine integral_congr fun y hy' => integral_congr fun z hz' => ?_
    rw [uIcc_of_le hy] at hy'; rw [uIcc_of_le hz] at hz'
    exact hn y hy' z hz'
  -- the four faces that are cut
  have mem : ∀ s ∈ Ioo a.x c, s ∈ Icc a.x b.x := fun s hs => ⟨hs.1.le, (hs.2.trans hcb).le⟩
  have mem' : ∀ s ∈ Ioo c b.x, s ∈ Icc a.x b.x := fun s hs => ⟨(hac.trans hs.1).le, hs.2.le⟩
  have Y1 := iter2_split hac.le hcb.le hz (fun x z => (F ⟨x, b.y, z⟩).y) (fun x z => (Fm ⟨x, b.y, z⟩).y)
    (fun x z => (Fp ⟨x, b.y, z⟩).y) fm.yb fp.yb
    (fun s hs t ht => by simp only [em ⟨s, b.y, t⟩ ⟨mem s hs, ey.2, ht⟩ hs.2])
    (fun s hs t ht => by simp only [ep ⟨s, b.y, t⟩ ⟨mem' s hs, ey.2, ht⟩ hs.1])
  have Y0 := iter2_split hac.le hcb.le hz (fun x z => (F ⟨x, a.y, z⟩).y) (fun x z => (Fm ⟨x, a.y, z⟩).y)
    (fun x z => (Fp ⟨x, a.y, z⟩).y) fm.ya fp.ya
    (fun s hs t ht => by simp only [em ⟨s, a.y, t⟩ ⟨mem s hs, ey.1, ht⟩ hs.2])
    (fun s hs t ht => by simp only [ep ⟨s, a.y, t⟩ ⟨mem' s hs, ey.1, ht⟩ hs.1])
  have Z1 := iter2_split hac.le hcb.le hy (fun x y => (F ⟨x, y, b.z⟩).z) (fun x y => (Fm ⟨x, y, b.z⟩).z)
    (fun x y => (Fp ⟨x, y, b.z⟩).z) fm.zb fp.zb
    (fun s hs t ht => by simp only [em ⟨s, t, b.z⟩ ⟨mem s hs, ht, ez.2⟩ hs.2])
    (fun s hs t ht => by simp only [ep ⟨s, t, b.z⟩ ⟨mem' s hs, ht, ez.2⟩ hs.1])
  have Z0 := iter2_split hac.le hcb.le hy (fun x y => (F ⟨x, y, a.z⟩).z) (fun x y => (Fm ⟨x, y, a.z⟩).z)
    (fun x y => (Fp ⟨x, y, a.z⟩).z) fm.za fp.za
    (fun s hs t ht => by simp only [em ⟨s, t, a.z⟩ ⟨mem s hs, ht, ez.1⟩ hs.2])
    (fun s hs t ht => by simp only [ep ⟨s, t, a.z⟩ ⟨mem' s hs, ht, ez.1⟩ hs.1])
  unfold boxFlux6 at hm0 hp0 ⊢
  simp only at hm0 hp0 Y1 Y0 Z1 Z0
  rw [X1, X0, Y1, Y0, Z1, Z0]
  linarith

/-! ### Part 4: the point dipole -/

/-- the model's norm as a function of three real variables is continuous -/
theorem continuous_norm3 : Continuous fun q : ℝ × ℝ × ℝ => Kern.norm (⟨q.1, q.2.1, q.2.2⟩ : V3 ℝ) := by
  simp only [Kern.norm, sqrt_real]
  fun_prop

/-- a closed box that does not contain the origin stays away from it -/
theorem norm_ne_zero_of_inBox {a b : V3 ℝ} (h0 : ¬ InBox a b ⟨0, 0, 0⟩) {p : V3 ℝ} (hp : InBox a b p) :
    Kern.norm p ≠ 0 := by
  intro h
  rw [norm_eq_zero_iff] at h
  exact h0 (h ▸ hp)

/-- every entry of the dipole Jacobian is continuous (as a function of three real variables) on any set
of observers that avoids the dipole position -/
theorem contOn_dipoleJ (m : V3 ℝ) (s : Set (ℝ × ℝ × ℝ))
    (hs : ∀ q ∈ s, Kern.norm (⟨q.1, q.2.1, q.2.2⟩ : V3 ℝ) ≠ 0) (mi mj δ : ℝ) {fi fj : ℝ × ℝ × ℝ → ℝ}
    (hfi : Continuous fi) (hfj : Continuous fj) :
    ContinuousOn (fun q : ℝ × ℝ × ℝ => dipoleJ m ⟨q.1, q.2.1, q.2.2⟩ mi (fi q) mj (fj q) δ) s := by
  have hN := continuous_norm3.continuousOn (s := s)
  simp only [dipoleJ, V3.dot]
  refine ContinuousOn.div_const (ContinuousOn.sub (ContinuousOn.div (by fun_prop) (hN.pow 5) ?_)
    (ContinuousOn.div (by fun_prop) (hN.pow 7) ?_)) _
  · exact fun q hq => pow_ne_zero 5 (hs q hq)
  · exact fun q hq => pow_ne_zero 7 (hs q hq)

/-- every entry of the Jacobian `c • dipoleJac m` is continuous on a box that avoids the origin -/
theorem contOnBox_dipoleJac (m a b : V3 ℝ) (c : ℝ) (h0 : ¬ InBox a b ⟨0, 0, 0⟩) :
    (ContOnBox (fun p => (jacScale c (dipoleJac m p)).r1.x) a b ∧
      ContOnBox (fun p => (jacScale c (dipoleJac m p)).r1.y) a b ∧
      ContOnBox (fun p => (jacScale c (dipoleJac m p)).r1.z) a b) ∧
    (ContOnBox (fun p => (jacScale c (dipoleJac m p)).r2.x) a b ∧
      ContOnBox (fun p => (jacScale c (dipoleJac m p)).r2.y) a b ∧
      ContOnBox (fun p => (jacScale c (dipoleJac m p)).r2.z) a b) ∧
    (ContOnBox (fun p => (jacScale c (dipoleJac m p)).r3.x) a b ∧
      ContOnBox (fun p => (jacScale c (dipoleJac m p)).r3.y) a b ∧
      ContOnBox (fun p => (jacScale c (dipoleJac m p)).r3.z) a b) := by
  have hs : ∀ q ∈ Icc a.x b.x ×ˢ Icc a.y b.y ×ˢ Icc a.z b.z, Kern.norm (⟨q.1, q.2.1, q.2.2⟩ : V3 ℝ) ≠ 0 :=
    fun q hq => norm_ne_zero_of_inBox h0 (p := ⟨q.1, q.2.1, q.2.2⟩) ⟨hq.1, hq.2.1, hq.2.2⟩
  have k1 : Continuous fun q : ℝ × ℝ × ℝ => q.1 := by fun_prop
  have k2 : Continuous fun q : ℝ × ℝ × ℝ => q.2.1 := by fun_prop
  have k3 : Continuous fun q : ℝ × ℝ × ℝ => q.2.2 := by fun_prop
  refine ⟨⟨?_, ?_, ?_⟩, ⟨?_, ?_, ?_⟩, ⟨?_, ?_, ?_⟩⟩ <;>
    simp only [ContOnBox, jacScale, dipoleJac, vs] <;>
    refine continuousOn_const.mul (contOn_dipoleJ m _ hs _ _ _ ?_ ?_) <;> assumption

/-- the three components of the dipole field are continuous on any set of observers that avoids the
dipole position -/
theorem contOn_dipoleH (m : V3 ℝ) {X : Type*} [TopologicalSpace X] (s : Set X) (f : X → ℝ × ℝ × ℝ)
    (hf : Continuous f) (hs : ∀ q ∈ s, Kern.norm (⟨(f q).1, (f q).2.1, (f q).2.2⟩ : V3 ℝ) ≠ 0) :
    ContinuousOn (fun q => (dipoleH m ⟨(f q).1, (f q).2.1, (f q).2.2⟩).x) s ∧
    ContinuousOn (fun q => (dipoleH m ⟨(f q).1, (f q).2.1, (f q).2.2⟩).y) s ∧
    ContinuousOn (fun q => (dipoleH m ⟨(f q).1, (f q).2.1, (f q).2.2⟩).z) s := by
  have hN : ContinuousOn (fun q => Kern.norm (⟨(f q).1, (f q).2.1, (f q).2.2⟩ : V3 ℝ)) s :=
    (continuous_norm3.comp hf).continuousOn
  have h3 : ∀ q ∈ s, Kern.norm (⟨(f q).1, (f q).2.1, (f q).2.2⟩ : V3 ℝ) *
      Kern.norm (⟨(f q).1, (f q).2.1, (f q).2.2⟩ : V3 ℝ) * Kern.norm (⟨(f q).1, (f q).2.1, (f q).2.2⟩ : V3 ℝ) ≠ 0 :=
    fun q hq => mul_ne_zero (mul_ne_zero (hs q hq) (hs q hq)) (hs q hq)
  have h5 : ∀ q ∈ s, Kern.norm (⟨(f q).1, (f q).2.1, (f q).2.2⟩ : V3 ℝ) *
      Kern.norm (⟨(f q).1, (f q).2.1, (f q).2.2⟩ : V3 ℝ) * Kern.norm (⟨(f q).1, (f q).2.1, (f q).2.2⟩ : V3 ℝ) *
      Kern.norm (⟨(f q).1, (f q).2.1, (f q).2.2⟩ : V3 ℝ) * Kern.norm (⟨(f q).1, (f q).2.1, (f q).2.2⟩ : V3 ℝ) ≠ 0 :=
    fun q hq => mul_ne_zero (mul_ne_zero (h3 q hq) (hs q hq)) (hs q hq)
  have k1 : Continuous fun q => (f q).1 := by fun_prop
  have k2 : Continuous fun q => (f q).2.1 := by fun_prop
  have k3 : Continuous fun q => (f q).2.2 := by fun_prop
  refine ⟨?_, ?_, ?_⟩ <;>
    simp only [dipoleH, vs, vd, n, ofNat_real, pi_real, V3.dot, V3.sub_x, V3.sub_y, V3.sub_z, Nat.cast_ofNat] <;>
    refine ContinuousOn.div_const (ContinuousOn.div_const (ContinuousOn.sub
      (ContinuousOn.div (by fun_prop) ((((hN.mul hN).mul hN).mul hN).mul hN) h5)
      (ContinuousOn.div continuousOn_const ((hN.mul hN).mul hN) h3)) _) _

/-- the normal components of `c • dipoleH m` are continuous on the faces of a box avoiding the origin -/
theorem faceCont_dipole (m a b : V3 ℝ) (c : ℝ) (hx : a.x ≤ b.x) (hy : a.y ≤ b.y) (hz : a.z ≤ b.z)
    (h0 : ¬ InBox a b ⟨0, 0, 0⟩) : FaceCont (fun q => vs c (dipoleH m q)) a b := by
  have ex : a.x ∈ Icc a.x b.x ∧ b.x ∈ Icc a.x b.x := ⟨left_mem_Icc.mpr hx, right_mem_Icc.mpr hx⟩
  have ey : a.y ∈ Icc a.y b.y ∧ b.y ∈ Icc a.y b.y := ⟨left_mem_Icc.mpr hy, right_mem_Icc.mpr hy⟩
  have ez : a.z ∈ Icc a.z b.z ∧ b.z ∈ Icc a.z b.z := ⟨left_mem_Icc.mpr hz, right_mem_Icc.mpr hz⟩
  constructor
  · exact continuousOn_const.mul (contOn_dipoleH m _ (fun q : ℝ × ℝ => (b.x, q.1, q.2)) (by fun_prop)
      fun q hq => norm_ne_zero_of_inBox h0 (p := ⟨b.x, q.1, q.2⟩) ⟨ex.2, hq.1, hq.2⟩).1
  · exact continuousOn_const.mul (contOn_dipoleH m _ (fun q : ℝ × ℝ => (a.x, q.1, q.2)) (by fun_prop)
      fun q hq => norm_ne_zero_of_inBox h0 (p := ⟨a.x, q.1, q.2⟩) ⟨ex.1, hq.1, hq.2⟩).1
  · exact continuousOn_const.mul (contOn_dipoleH m _ (fun q : ℝ × ℝ => (q.1, b.y, q.2)) (by fun_prop)
      fun q hq => norm_ne_zero_of_inBox h0 (p := ⟨q.1, b.y, q.2⟩) ⟨hq.1, ey.2, hq.2⟩).2.1
  · exact continuousOn_const.mul (contOn_dipoleH m _ (fun q : ℝ × ℝ => (q.1, a.y, q.2)) (by fun_prop)
      fun q hq => norm_ne_zero_of_inBox h0 (p := ⟨q.1, a.y, q.2⟩) ⟨hq.1, ey.1, hq.2⟩).2.1
  · exact continuousOn_const.mul (contOn_dipoleH m _ (fun q : ℝ × ℝ => (q.1, q.2, b.z)) (by fun_prop)
      fun q hq => norm_ne_zero_of_inBox h0 (p := ⟨q.1, q.2, b.z⟩) ⟨hq.1, hq.2, ez.2⟩).2.2
  · exact continuousOn_const.mul (contOn_dipoleH m _ (fun q : ℝ × ℝ => (q.1, q.2, a.z)) (by fun_prop)
      fun q hq => norm_ne_zero_of_inBox h0 (p := ⟨q.1, q.2, a.z⟩) ⟨hq.1, hq.2, ez.1⟩).2.2

/-- for the dipole field the four-line-integral form of the circulation equals the paired form, for
every axis-aligned rectangle cut out of a box that avoids the origin -/
theorem dipoleH_rectCirc4_eq (m a b : V3 ℝ) (hx : a.x ≤ b.x) (hy : a.y ≤ b.y) (hz : a.z ≤ b.z)
    (h0 : ¬ InBox a b ⟨0, 0, 0⟩) :
    (∀ c ∈ Icc a.z b.z, rectCircZ4 (dipoleH m) a b c = rectCircZ (dipoleH m) a b c) ∧
    (∀ c ∈ Icc a.x b.x, rectCircX4 (dipoleH m) a b c = rectCircX (dipoleH m) a b c) ∧
    (∀ c ∈ Icc a.y b.y, rectCircY4 (dipoleH m) a b c = rectCircY (dipoleH m) a b c) := by
  have ex : a.x ∈ Icc a.x b.x ∧ b.x ∈ Icc a.x b.x := ⟨left_mem_Icc.mpr hx, right_mem_Icc.mpr hx⟩
  have ey : a.y ∈ Icc a.y b.y ∧ b.y ∈ Icc a.y b.y := ⟨left_mem_Icc.mpr hy, right_mem_Icc.mpr hy⟩
  have ez : a.z ∈ Icc a.z b.z ∧ b.z ∈ Icc a.z b.z := ⟨left_mem_Icc.mpr hz, right_mem_Icc.mpr hz⟩
  have key : ∀ (f : ℝ → ℝ × ℝ × ℝ) (u v : ℝ), u ≤ v → Continuous f →
      (∀ t ∈ Icc u v, InBox a b ⟨(f t).1, (f t).2.1, (f t).2.2⟩) →
      IntervalIntegrable (fun t => (dipoleH m ⟨(f t).1, (f t).2.1, (f t).2.2⟩).x) volume u v ∧
      IntervalIntegrable (fun t => (dipoleH m ⟨(f t).1, (f t).2.1, (f t).2.2⟩).y) volume u v ∧
      IntervalIntegrable (fun t => (dipoleH m ⟨(f t).1, (f t).2.1, (f t).2.2⟩).z) volume u v := by
    intro f u v huv hf hmem
    have h := contOn_dipoleH m (uIcc u v) f hf (fun t ht => norm_ne_zero_of_inBox h0 (hmem t (by rwa [uIcc_of_le huv] at ht)))
    exact ⟨h.1.intervalIntegrable, h.2.1.intervalIntegrable, h.2.2.intervalIntegrable⟩
  refine ⟨fun c hc => ?_, fun c hc => ?_, fun c hc => ?_⟩
  · exact rectCircZ4_eq _ a b c
      (key (fun t => (t, a.y, c)) _ _ hx (by fun_prop) fun t ht => ⟨ht, ey.1, hc⟩).1
      (key (fun t => (b.x, t, c)) _ _ hy (by fun_prop) fun t ht => ⟨ex.2, ht, hc⟩).2.1
      (key (fun t => (t, b.y, c)) _ _ hx (by fun_prop) fun t ht => ⟨ht, ey.2, hc⟩).1
      (key (fun t => (a.x, t, c)) _ _ hy (by fun_prop) fun t ht => ⟨ex.1, ht, hc⟩).2.1
  · exact rectCircX4_eq _ a b c
      (key (fun t => (c, t, a.z)) _ _ hy (by fun_prop) fun t ht => ⟨hc, ht, ez.1⟩).2.1
      (key (fun t => (c, b.y, t)) _ _ hz (by fun_prop) fun t ht => ⟨hc, ey.2, ht⟩).2.2
      (key (fun t => (c, t, b.z)) _ _ hy (by fun_prop) fun t ht => ⟨hc, ht, ez.2⟩).2.1
      (key (fun t => (c, a.y, t)) _ _ hz (by fun_prop) fun t ht => ⟨hc, ey.1, ht⟩).2.2
  · exact rectCircY4_eq _ a b c
      (key (fun t => (a.x, c, t)) _ _ hz (by fun_prop) fun t ht => ⟨ex.1, hc, ht⟩).2.2
      (key (fun t => (t, c, b.z)) _ _ hx (by fun_prop) fun t ht => ⟨ht, hc, ez.2⟩).1
      (key (fun t => (b.x, c, t)) _ _ hz (by fun_prop) fun t ht => ⟨ex.2, hc, ht⟩).2.2
      (key (fun t => (t, c, a.z)) _ _ hx (by fun_prop) fun t ht => ⟨ht, hc, ez.1⟩).1

end MagpyVerif.BoxLaws
