/-
Lemmas/KernCylSegLinBase.lean — vocabulary for "linear in the magnetization direction" (C05, CylinderSegment).

The case functions of field_BH_cylinder_segment.py receive the magnetization direction as the two spherical
angles `theta_M`, `phi_M` (the latter only as `phi_bar_M = phi_M − phi` and `phi_bar_Mj = phi_M − phi_j`).
A function `g φ θ` of the azimuth and the polar angle is *linear in the unit vector*
`u(φ, θ) = (sin θ cos φ, sin θ sin φ, cos θ)` iff

    g φ θ = cos θ · g 0 0  +  sin θ sin φ · g (π/2) (π/2)  +  sin θ cos φ · g 0 (π/2)

(the three values on the right are the values at u = e_z, e_y, e_x).  This form needs no extracted coefficient
functions: it is the same statement for each of the 129 case functions, whatever their other arguments, so the
statements can be generated from the parameter lists alone (translate/cylseg2lean.py, `render_lin`) and are all
proved by the one tactic `cylseg_sphlin` below.
-/
import MagpyVerif.Lemmas.KernCylSeg

namespace MagpyVerif.Kern.CylSeg
open MagpyVerif MagpyVerif.Kern

/-- `g φ θ` is linear in the unit vector with azimuth `φ` and polar angle `θ` -/
def SphLin (g : ℝ → ℝ → ℝ) : Prop :=
  ∀ φ θ, g φ θ = Real.cos θ * g 0 0 + Real.sin θ * Real.sin φ * g (Real.pi / 2) (Real.pi / 2) +
    Real.sin θ * Real.cos φ * g 0 (Real.pi / 2)

/-- the uniform proof of `SphLin (fun φ θ => f … (φ - a) … θ …)` for a translated case function `f`: unfold it, expand
the sines and cosines of sums and differences, evaluate them at 0 and π/2, and compare the two sides as
polynomials in `sin θ`, `cos θ`, `sin φ`, `cos φ` — everything else (logarithms, square roots, the special
functions with their arguments) is an atom for `ring` -/
macro "cylseg_sphlin" d:ident : tactic => `(tactic| (
  intro φ θ
  simp only [$d:ident, sin_real, cos_real]
  simp only [Real.sin_sub, Real.cos_sub, Real.sin_add, Real.cos_add, Real.sin_zero, Real.cos_zero,
    Real.sin_pi_div_two, Real.cos_pi_div_two]
  ring))

/-- an entry that the assembler leaves at zero -/
theorem sphLin_zero (μ : ℝ) : SphLin fun _ _ => @n ℝ (realNum μ) 0 := by
  intro φ θ
  simp [n]

/-- `a·X + b·Y + c·Z` on 3×3 blocks -/
def comb3 (a b c : ℝ) (X Y Z : V3 (V3 ℝ)) : V3 (V3 ℝ) :=
  ⟨⟨a * X.x.x + b * Y.x.x + c * Z.x.x, a * X.x.y + b * Y.x.y + c * Z.x.y, a * X.x.z + b * Y.x.z + c * Z.x.z⟩,
   ⟨a * X.y.x + b * Y.y.x + c * Z.y.x, a * X.y.y + b * Y.y.y + c * Z.y.y, a * X.y.z + b * Y.y.z + c * Z.y.z⟩,
   ⟨a * X.z.x + b * Y.z.x + c * Z.z.x, a * X.z.y + b * Y.z.y + c * Z.z.y, a * X.z.z + b * Y.z.z + c * Z.z.z⟩⟩

/-- a 3×3 block (component × face type) that is linear in the unit vector, entry by entry -/
def SphLinB (G : ℝ → ℝ → V3 (V3 ℝ)) : Prop :=
  ∀ φ θ, G φ θ = comb3 (Real.cos θ) (Real.sin θ * Real.sin φ) (Real.sin θ * Real.cos φ)
    (G 0 0) (G (Real.pi / 2) (Real.pi / 2)) (G 0 (Real.pi / 2))

theorem blockExt {A B : V3 (V3 ℝ)}
    (h1 : A.x.x = B.x.x) (h2 : A.x.y = B.x.y) (h3 : A.x.z = B.x.z)
    (h4 : A.y.x = B.y.x) (h5 : A.y.y = B.y.y) (h6 : A.y.z = B.y.z)
    (h7 : A.z.x = B.z.x) (h8 : A.z.y = B.z.y) (h9 : A.z.z = B.z.z) : A = B := by
  obtain ⟨⟨a1, a2, a3⟩, ⟨a4, a5, a6⟩, ⟨a7, a8, a9⟩⟩ := A
  obtain ⟨⟨b1, b2, b3⟩, ⟨b4, b5, b6⟩, ⟨b7, b8, b9⟩⟩ := B
  simp only at h1 h2 h3 h4 h5 h6 h7 h8 h9
  subst h1 h2 h3 h4 h5 h6 h7 h8 h9
  rfl

/-- the result of the dispatch on a case id, as a function of the magnetization angles: either the id is not in
the table (no block, whatever the angles) or the block is linear in the unit vector -/
def SphLinO (G : ℝ → ℝ → Option (V3 (V3 ℝ))) : Prop :=
  (∀ φ θ, G φ θ = none) ∨ ∃ G' : ℝ → ℝ → V3 (V3 ℝ), (∀ φ θ, G φ θ = some (G' φ θ)) ∧ SphLinB G'

theorem SphLinO.of_some {G' : ℝ → ℝ → V3 (V3 ℝ)} (h : SphLinB G') : SphLinO fun φ θ => some (G' φ θ) :=
  Or.inr ⟨G', fun _ _ => rfl, h⟩

theorem SphLinO.of_none : SphLinO fun _ _ => none := Or.inl fun _ _ => rfl

/-- an id outside the table falls through the dispatch, whatever the arguments -/
theorem caseDispatch_eq_none_of_not_mem {α : Type} [NumX α] (cid : Nat) (a : AllArgs α) (h : cid ∉ caseIds) :
    caseDispatch cid a = none := by
  unfold caseDispatch
  split <;> first | rfl | (exfalso; apply h; simp [caseIds])

end MagpyVerif.Kern.CylSeg
