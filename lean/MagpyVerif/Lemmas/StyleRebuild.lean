/-
Lemmas/StyleRebuild.lean — well formed ⇒ stable (C20): on a well-formed tree `construct` rebuilds the tree identically.
  * `magic_to_dict` is the identity on good trees (string keys without separator, pairwise different, at every level),
  * the keyword reordering of a constructor call (`ctorKwargs`) keeps trees good and lookups what they were,
  * the loop of `MagicProperties.__init__` run on the dictionary of a well-formed tree reproduces it.
-/
import MagpyVerif.Lemmas.StyleWF
import MagpyVerif.Lemmas.StyleMagic

namespace MagpyVerif.StyleState
open MagpyVerif.StyleNested

/-! ### `magic_to_dict` is the identity on good trees -/

theorem magicLoop_good (sep : Char) : ∀ (kids acc : Dict), keysOK sep kids = true → (∀ kv ∈ kids, lookup kv.1 acc = none) →
    magicLoop sep acc kids = .ok (acc ++ kids) := by
  intro kids
  induction kids with
  | nil => intro acc _ _; simp [magicLoop_nil]
  | cons hd t ih =>
    obtain ⟨k, v⟩ := hd
    intro acc hk hacc
    rw [keysOK_cons] at hk
    simp only [Bool.and_eq_true, Option.isNone_iff_eq_none] at hk
    obtain ⟨s, rfl, hs⟩ := keyOK_iff.mp hk.1.1
    rw [magicLoop_cons, magicStep_of_split (splitOn_of_not_mem hs) acc v]
    simp only []
    rw [setKey_of_lookup_none (hacc _ (List.mem_cons_self ..)), ih _ hk.2]
    · simp
    · intro kv hkv
      rw [lookup_append, hacc kv (List.mem_cons_of_mem _ hkv)]
      have hne : kv.1 ≠ Key.str s := lookup_eq_none_iff.mp hk.1.2 kv hkv
      simp [lookup_cons, Ne.symm hne]

theorem mapValsM_id (f : Dict → Except Err Dict) : ∀ (kids : Dict), (∀ k sub, (k, Tree.node sub) ∈ kids → f sub = .ok sub) →
    mapValsM f kids = .ok kids := by
  intro kids
  induction kids with
  | nil => intro _; rfl
  | cons hd t ih =>
    obtain ⟨k, v⟩ := hd
    intro h
    have ht := ih (fun k' sub hm => h k' sub (List.mem_cons_of_mem _ hm))
    cases v with
    | leaf x => rw [mapValsM_cons_leaf, ht]
    | node sub => rw [mapValsM_cons_node, h k sub (List.mem_cons_self ..), ht]

theorem weight_le_of_mem (sep : Char) {k : Key} {v : Tree} : ∀ {kids : Dict}, (k, v) ∈ kids → v.weight sep ≤ weightKids sep kids := by
  intro kids
  induction kids with
  | nil => intro h; cases h
  | cons hd t ih =>
    obtain ⟨k', v'⟩ := hd
    intro h
    rw [weightKids_cons]
    rcases List.mem_cons.mp h with heq | hm
    · injection heq with h1 h2; subst h2; omega
    · have := ih hm; omega

theorem magicFuel_good (sep : Char) : ∀ (n : Nat) (kids : Dict), goodKids sep kids = true → weightKids sep kids < n →
    magicFuel sep n kids = .ok kids := by
  intro n
  induction n with
  | zero => intro kids _ h; omega
  | succ n ih =>
    intro kids hg hw
    have hk := (goodKids_iff sep kids).mp hg
    rw [magicFuel_succ, magicLoop_good sep kids [] hk.1 (fun _ _ => rfl)]
    simp only [List.nil_append]
    apply mapValsM_id
    intro k sub hm
    have hsub : goodKids sep sub = true := by
      have := hk.2 _ hm
      simpa [Tree.good] using this
    have hwt := weight_le_of_mem sep hm
    rw [weight_node] at hwt
    exact ih sub hsub (by omega)

/-- **`magic_to_dict(d) == d`** for a dictionary whose keys, at every level, are strings without the separator -/
theorem magicToDict_good (sep : Char) (kids : Dict) (hg : goodKids sep kids = true) :
    magicToDict sep (.node kids) = .ok (.node kids) := by
  simp only [magicToDict, magicFuel_good sep _ kids hg (Nat.lt_succ_self _)]

/-! ### the keyword dictionary of a constructor call -/

theorem lookup_map_ctor (kw : Dict) (k : Key) : ∀ (ct : List (Key × Option Val)),
    lookup k (ct.map (fun pd => (pd.1, (lookup pd.1 kw).getD (.leaf pd.2)))) =
      (lookup k ct).map (fun d => (lookup k kw).getD (.leaf d)) := by
  intro ct
  induction ct with
  | nil => rfl
  | cons hd t ih =>
    obtain ⟨p, d⟩ := hd
    by_cases hp : p = k
    · subst hp; simp [lookup_cons]
    · simp [lookup_cons, hp, ih]

theorem lookup_filter_ct (ct : List (Key × Option Val)) (k : Key) : ∀ (kw : Dict),
    lookup k (kw.filter (fun kv => (lookup kv.1 ct).isNone)) = if (lookup k ct).isNone then lookup k kw else none := by
  intro kw
  induction kw with
  | nil => simp
  | cons hd t ih =>
    obtain ⟨k', v'⟩ := hd
    by_cases hk : k' = k
    · subst hk
      cases hc : lookup k' ct with
      | none => simp [List.filter, hc, lookup_cons]
      | some d => simp [List.filter, hc, ih]
    · cases hc : (lookup k' ct).isNone with
      | true => simp [List.filter, hc, lookup_cons, hk, ih]
      | false => simp [List.filter, hc, lookup_cons, hk, ih]

/-- what `MagicProperties.__init__` finds under a key: a named constructor parameter has the caller's value or its
default, any other key the caller's value -/
theorem lookup_ctorKwargs (ct : List (Key × Option Val)) (kw : Dict) (k : Key) :
    lookup k (ctorKwargs ct kw) =
      match lookup k ct with
      | some d => some ((lookup k kw).getD (.leaf d))
      | none => lookup k kw := by
  unfold ctorKwargs
  rw [lookup_append, lookup_map_ctor, lookup_filter_ct]
  cases lookup k ct <;> simp

theorem keysOK_append {α : Type} (sep : Char) : ∀ (a b : List (Key × α)), keysOK sep a = true → keysOK sep b = true →
    (∀ kv ∈ a, lookup kv.1 b = none) → keysOK sep (a ++ b) = true := by
  intro a
  induction a with
  | nil => intro b _ hb _; exact hb
  | cons hd t ih =>
    obtain ⟨k, v⟩ := hd
    intro b ha hb hx
    rw [keysOK_cons] at ha
    simp only [Bool.and_eq_true, Option.isNone_iff_eq_none] at ha
    rw [List.cons_append, keysOK_cons]
    simp only [Bool.and_eq_true, Option.isNone_iff_eq_none]
    refine ⟨⟨ha.1.1, ?_⟩, ih b ha.2 hb (fun kv hkv => hx kv (List.mem_cons_of_mem _ hkv))⟩
    rw [lookup_append, ha.1.2]
    exact hx (k, v) (List.mem_cons_self ..)

theorem keysOK_map_ctor (sep : Char) (kw : Dict) : ∀ (ct : List (Key × Option Val)), keysOK sep ct = true →
    keysOK sep (ct.map (fun pd => (pd.1, (lookup pd.1 kw).getD (Tree.leaf pd.2)))) = true := by
  intro ct
  induction ct with
  | nil => intro _; rfl
  | cons hd t ih =>
    obtain ⟨p, d⟩ := hd
    intro h
    rw [keysOK_cons] at h
    simp only [Bool.and_eq_true, Option.isNone_iff_eq_none] at h
    rw [List.map_cons, keysOK_cons]
    simp only [Bool.and_eq_true, Option.isNone_iff_eq_none]
    refine ⟨⟨h.1.1, ?_⟩, ih h.2⟩
    rw [lookup_map_ctor, h.1.2]; rfl

theorem keysOK_filter_ct (sep : Char) (ct : List (Key × Option Val)) : ∀ (kw : Dict), keysOK sep kw = true →
    keysOK sep (kw.filter (fun kv => (lookup kv.1 ct).isNone)) = true := by
  intro kw
  induction kw with
  | nil => intro _; rfl
  | cons hd t ih =>
    obtain ⟨k, v⟩ := hd
    intro h
    rw [keysOK_cons] at h
    simp only [Bool.and_eq_true, Option.isNone_iff_eq_none] at h
    cases hc : (lookup k ct).isNone with
    | false => simp only [List.filter, hc]; exact ih h.2
    | true =>
      simp only [List.filter, hc]
      rw [keysOK_cons]
      simp only [Bool.and_eq_true, Option.isNone_iff_eq_none]
      refine ⟨⟨h.1.1, ?_⟩, ih h.2⟩
      rw [lookup_filter_ct, h.1.2]; simp

/-- the keyword dictionary of a constructor call on a good dictionary is good -/
theorem goodKids_ctorKwargs (ct : List (Key × Option Val)) (kw : Dict) (hct : keysOK '_' ct = true) (hkw : goodKids '_' kw = true) :
    goodKids '_' (ctorKwargs ct kw) = true := by
  have hk := (goodKids_iff '_' kw).mp hkw
  rw [goodKids_iff]
  constructor
  · unfold ctorKwargs
    apply keysOK_append '_' _ _ (keysOK_map_ctor '_' kw ct hct) (keysOK_filter_ct '_' ct kw hk.1)
    intro kv hkv
    simp only [List.mem_map] at hkv
    obtain ⟨pd, hpd, rfl⟩ := hkv
    rw [lookup_filter_ct]
    obtain ⟨d, hd⟩ := lookup_isSome_of_mem hpd
    simp [hd]
  · intro kv hkv
    unfold ctorKwargs at hkv
    rcases List.mem_append.mp hkv with h1 | h2
    · simp only [List.mem_map] at h1
      obtain ⟨pd, _, rfl⟩ := h1
      simp only []
      cases hl : lookup pd.1 kw with
      | none => rfl
      | some t => exact (good_of_lookup hkw hl).2
    · exact hk.2 kv (List.mem_filter.mp h2).1

/-! ### more that the schema must satisfy (checked on the regenerated classes) -/

/-- an alias property has no constructor default other than None -/
def aliasCtorNone (ct : List (Key × Option Val)) : List (Key × Schema) → Bool
  | [] => true
  | (a, .alias _) :: r => (match lookup a ct with | some (some _) => false | _ => true) && aliasCtorNone ct r
  | (_, .leaf _) :: r => aliasCtorNone ct r
  | (_, .obj _ _ _ _ _) :: r => aliasCtorNone ct r

mutual
/-- in every class: property names and constructor parameter names are strings without underscore, pairwise different;
every named constructor parameter is a property; aliases default to None; `__init__` takes `**kwargs` -/
def okSchema2 : Schema → Bool
  | .obj ps _ _ ct vk => okProps2 ps && keysOK '_' ps && keysOK '_' ct && aliasCtorNone ct ps &&
      ct.all (fun pd => (lookup pd.1 ps).isSome) && vk
  | .leaf _ => true
  | .alias _ => true
def okProps2 : List (Key × Schema) → Bool
  | [] => true
  | (_, s) :: r => okSchema2 s && okProps2 r
end

theorem okProps2_lookup {k : Key} {s : Schema} : ∀ {ps : List (Key × Schema)}, okProps2 ps = true → lookup k ps = some s → okSchema2 s = true := by
  intro ps
  induction ps with
  | nil => intro _ h; simp at h
  | cons hd t ih =>
    obtain ⟨k0, s0⟩ := hd
    intro h hl
    rw [okProps2] at h
    simp only [Bool.and_eq_true] at h
    by_cases hk : k0 = k
    · simp only [lookup_cons, hk, if_true, Option.some.injEq] at hl
      rw [← hl]; exact h.1
    · simp only [lookup_cons, hk, if_false] at hl
      exact ih h.2 hl

theorem aliasCtorNone_mem {ct : List (Key × Option Val)} {a : Key} {tgt : List Key} : ∀ {ps : List (Key × Schema)},
    aliasCtorNone ct ps = true → (a, Schema.alias tgt) ∈ ps → ∀ d, lookup a ct = some d → d = none := by
  intro ps
  induction ps with
  | nil => intro _ h; cases h
  | cons hd t ih =>
    obtain ⟨k0, s0⟩ := hd
    intro h hm d hd
    cases s0 with
    | leaf v =>
      rw [aliasCtorNone] at h
      rcases List.mem_cons.mp hm with e | hm'
      · cases e
      · exact ih h hm' d hd
    | obj p1 p2 p3 p4 p5 =>
      rw [aliasCtorNone] at h
      rcases List.mem_cons.mp hm with e | hm'
      · cases e
      · exact ih h hm' d hd
    | alias t0 =>
      rw [aliasCtorNone] at h
      simp only [Bool.and_eq_true] at h
      rcases List.mem_cons.mp hm with e | hm'
      · injection e with e1 e2
        subst e1
        rw [hd] at h
        cases d with
        | none => rfl
        | some x => simp at h
      · exact ih h.2 hm' d hd

/-! ### well-formed trees are good trees -/

mutual
theorem wfVal_good (P : Nat → Option Val → Bool) : ∀ (s : Schema), okSchema2 s = true → ∀ (v : Tree), wfVal P s v = true → v.good '_' = true
  | .leaf _, _, v, h => by
    cases v with
    | leaf x => rfl
    | node kv => rw [wfVal] at h; cases h
  | .alias _, _, v, h => by rw [wfVal] at h; cases h
  | .obj ps a b ct vk, hok, v, h => by
    obtain ⟨kids, rfl, hk⟩ := wfVal_obj_elim h
    rw [okSchema2] at hok
    simp only [Bool.and_eq_true] at hok
    have := wfKids_good P ps hok.1.1.1.1.1 hok.1.1.1.1.2 kids hk
    simpa [Tree.good] using this
theorem wfKids_good (P : Nat → Option Val → Bool) : ∀ (ps : List (Key × Schema)), okProps2 ps = true → keysOK '_' ps = true →
    ∀ (kids : Dict), wfKids P ps kids = true → goodKids '_' kids = true
  | [], _, _, kids, h => by
    rw [wfKids_nil] at h
    cases kids with
    | nil => rfl
    | cons a b => simp at h
  | (k, s) :: ps, hok, hk, kids, h => by
    rw [okProps2] at hok
    rw [keysOK_cons] at hk
    simp only [Bool.and_eq_true, Option.isNone_iff_eq_none] at hok hk
    cases ha : s.isAlias with
    | true =>
      rw [wfKids_cons_alias P k s ps kids ha] at h
      exact wfKids_good P ps hok.2 hk.2 kids h
    | false =>
      cases kids with
      | nil => rw [wfKids_cons_nil P k s ps ha] at h; cases h
      | cons kv kids' =>
        obtain ⟨k', v⟩ := kv
        rw [wfKids_cons_cons P k k' s v ps kids' ha] at h
        simp only [Bool.and_eq_true, beq_iff_eq] at h
        rw [goodKids_cons]
        simp only [Bool.and_eq_true, Option.isNone_iff_eq_none]
        have hkk : k' = k := h.1.1.symm
        subst hkk
        exact ⟨⟨⟨hk.1.1, wfKids_lookup_none P k' ps kids' h.2 hk.1.2⟩, wfVal_good P s hok.1 v h.1.2⟩,
          wfKids_good P ps hok.2 hk.2 kids' h.2⟩
end

/-! ### what a setter stores, as a function of the assigned value -/

/-- the value a (non-alias) property setter stores under its key -/
def setVal (T : Tables) : Schema → Tree → Except Kind Tree
  | .leaf vid, val =>
    match runV T vid val with
    | .ok v => .ok (.leaf v)
    | .error e => .error e
  | .alias _, _ => .error .other
  | .obj ps _ short ct vk, val =>
    match objKwargs T short val with
    | .error e => .error e
    | .ok kw =>
      match construct T ps ct vk kw with
      | .ok r => .ok (.node r)
      | .error e => .error e

theorem setProp_eq_setVal (T : Tables) (all : List (Key × Schema)) (acc : Dict) (k : Key) (s : Schema) (val : Tree)
    (hs : s.isAlias = false) :
    setProp T all acc k s val = match setVal T s val with | .ok v => .ok (setKey k v acc) | .error e => .error e := by
  cases s with
  | leaf vid => rw [setProp, setVal]; cases runV T vid val <;> rfl
  | alias t => cases hs
  | obj ps a b ct vk =>
    rw [setProp, setVal]
    cases objKwargs T b val with
    | error e => rfl
    | ok kw =>
      simp only [construct]
      cases ctorDict ps ct vk kw with
      | error e => rfl
      | ok g =>
        simp only []
        cases constructProps T ps g ps [] <;> rfl

/-- an alias name is no key of a well-formed tree -/
theorem wfKids_lookup_alias_none (P : Nat → Option Val → Bool) (a : Key) (tgt : List Key) : ∀ (ps : List (Key × Schema)) (kids : Dict),
    wfKids P ps kids = true → lookup a ps = some (.alias tgt) → nodupK ps = true → lookup a kids = none := by
  intro ps
  induction ps with
  | nil => intro kids _ h; simp at h
  | cons hd t ih =>
    obtain ⟨k0, s0⟩ := hd
    intro kids h hl hnd
    rw [nodupK_cons] at hnd
    simp only [Bool.and_eq_true, Option.isNone_iff_eq_none] at hnd
    by_cases hk : k0 = a
    · simp only [lookup_cons, hk, if_true, Option.some.injEq] at hl
      subst hl
      rw [wfKids_cons_alias P k0 _ t kids rfl] at h
      exact wfKids_lookup_none P a t kids h (hk ▸ hnd.1)
    · simp only [lookup_cons, hk, if_false] at hl
      cases ha : s0.isAlias with
      | true =>
        rw [wfKids_cons_alias P k0 s0 t kids ha] at h
        exact ih kids h hl hnd.2
      | false =>
        cases kids with
        | nil => rfl
        | cons kv kids' =>
          obtain ⟨k', v⟩ := kv
          rw [wfKids_cons_cons P k0 k' s0 v t kids' ha] at h
          simp only [Bool.and_eq_true, beq_iff_eq] at h
          have : k' ≠ a := by rw [← h.1.1]; exact hk
          simp only [lookup_cons, this, if_false]
          exact ih kids' h.2 hl hnd.2

/-- every key of a well-formed tree is a property -/
theorem wfKids_keys_props (P : Nat → Option Val → Bool) : ∀ (ps : List (Key × Schema)) (kids : Dict), wfKids P ps kids = true →
    ∀ kv ∈ kids, (lookup kv.1 ps).isSome = true := by
  intro ps
  induction ps with
  | nil =>
    intro kids h kv hkv
    rw [wfKids_nil] at h
    cases kids with
    | nil => cases hkv
    | cons a b => simp at h
  | cons hd t ih =>
    obtain ⟨k0, s0⟩ := hd
    intro kids h kv hkv
    by_cases hk : k0 = kv.1
    · simp [lookup_cons, hk]
    · simp only [lookup_cons, hk, if_false]
      cases ha : s0.isAlias with
      | true =>
        rw [wfKids_cons_alias P k0 s0 t kids ha] at h
        exact ih kids h kv hkv
      | false =>
        cases kids with
        | nil => cases hkv
        | cons kv0 kids' =>
          obtain ⟨k', v⟩ := kv0
          rw [wfKids_cons_cons P k0 k' s0 v t kids' ha] at h
          simp only [Bool.and_eq_true, beq_iff_eq] at h
          rcases List.mem_cons.mp hkv with e | hm
          · exfalso; apply hk; rw [e]; exact h.1.1
          · exact ih kids' h.2 kv hm

/-! ### well formed ⇒ rebuilt identically -/

theorem runV_of_fixB {T : Tables} {vid : Nat} {x : Option Val} (h : fixB T vid x = true) : runV T vid (.leaf x) = .ok x := by
  unfold fixB outIs at h
  cases hr : runV T vid (.leaf x) with
  | ok a => rw [hr] at h; simp only [beq_iff_eq] at h; rw [h]
  | error e => rw [hr] at h; cases h

theorem constructProps_nil (T : Tables) (all : List (Key × Schema)) (g acc : Dict) : constructProps T all g [] acc = .ok acc := by
  rw [constructProps]

theorem constructProps_cons (T : Tables) (all : List (Key × Schema)) (g acc : Dict) (k : Key) (s : Schema) (rest : List (Key × Schema)) :
    constructProps T all g ((k, s) :: rest) acc =
      match setProp T all acc k s ((lookup k g).getD (.leaf none)) with
      | .error e => .error e
      | .ok acc' => constructProps T all g rest acc' := by
  rw [constructProps]
  cases setProp T all acc k s ((lookup k g).getD (.leaf none)) <;> rfl

mutual
/-- assigning a well-formed value to its own property stores it unchanged -/
theorem setVal_wf_id (T : Tables) : ∀ (s : Schema), okSchema s = true → okSchema2 s = true → ∀ (v : Tree), wfVal (fixB T) s v = true →
    setVal T s v = .ok v
  | .leaf vid, _, _, v, h => by
    cases v with
    | leaf x => rw [wfVal] at h; rw [setVal, runV_of_fixB h]
    | node kv => rw [wfVal] at h; cases h
  | .alias _, _, _, v, h => by rw [wfVal] at h; cases h
  | .obj ps a b ct vk, hok, hok2, v, h => by
    obtain ⟨kids, rfl, hk⟩ := wfVal_obj_elim h
    rw [okSchema] at hok
    rw [okSchema2] at hok2
    simp only [Bool.and_eq_true] at hok hok2
    obtain ⟨⟨⟨⟨⟨h2p, h2k⟩, h2c⟩, h2a⟩, h2m⟩, h2v⟩ := hok2
    have hgood := goodKids_ctorKwargs ct kids h2c (wfKids_good (fixB T) ps h2p h2k kids hk)
    have hnames : (ctorKwargs ct kids).all (fun kv => (lookup kv.1 ps).isSome) = true := by
      rw [List.all_eq_true]
      intro kv hkv
      unfold ctorKwargs at hkv
      rcases List.mem_append.mp hkv with h1 | h1
      · simp only [List.mem_map] at h1
        obtain ⟨pd, hpd, rfl⟩ := h1
        exact List.all_eq_true.mp h2m pd hpd
      · exact wfKids_keys_props (fixB T) ps kids hk kv (List.mem_filter.mp h1).1
    have hcp := constructProps_wf_id T ps hok.1.1 h2p ps (ctorKwargs ct kids) [] kids (fun _ _ => rfl) hok.1.2 hk
      (fun k v hl => by
        rw [lookup_ctorKwargs]
        cases lookup k ct with
        | none => exact hl
        | some d => simp [hl])
      (fun a tgt hm => by
        have hla : lookup a ps = some (.alias tgt) := lookup_of_mem_keysOK h2k hm
        have hnone : lookup a kids = none := wfKids_lookup_alias_none (fixB T) a tgt ps kids hk hla hok.1.2
        rw [lookup_ctorKwargs]
        cases hc : lookup a ct with
        | none => simp [hnone]
        | some d =>
          have := aliasCtorNone_mem h2a hm d hc
          subst this
          simp [hnone])
    rw [setVal]
    simp only [objKwargs, construct, ctorDict, h2v, Bool.not_true, Bool.false_and, Bool.false_eq_true, if_false,
      magicToDict_good '_' _ hgood, hnames, if_true, hcp, List.nil_append]
/-- the loop of `__init__` run on the dictionary of a well-formed tree appends exactly that tree -/
theorem constructProps_wf_id (T : Tables) : ∀ (rest : List (Key × Schema)), okProps rest = true → okProps2 rest = true →
    ∀ (all : List (Key × Schema)) (g acc suf : Dict), (∀ kv ∈ rest, lookup kv.1 acc = none) → nodupK rest = true →
      wfKids (fixB T) rest suf = true → (∀ k v, lookup k suf = some v → lookup k g = some v) →
      (∀ a tgt, (a, Schema.alias tgt) ∈ rest → (lookup a g).getD (.leaf none) = .leaf none) →
      constructProps T all g rest acc = .ok (acc ++ suf)
  | [], _, _, all, g, acc, suf, _, _, hw, _, _ => by
    rw [wfKids_nil] at hw
    cases suf with
    | nil => rw [constructProps_nil]; simp
    | cons a b => simp at hw
  | (k, s) :: rest', hok, hok2, all, g, acc, suf, hfresh, hnd, hw, hg1, hg2 => by
    rw [okProps] at hok
    rw [okProps2] at hok2
    rw [nodupK_cons] at hnd
    simp only [Bool.and_eq_true, Option.isNone_iff_eq_none] at hok hok2 hnd
    rw [constructProps_cons]
    cases ha : s.isAlias with
    | true =>
      cases s with
      | leaf v => cases ha
      | obj p1 p2 p3 p4 p5 => cases ha
      | alias tgt =>
        rw [hg2 k tgt (List.mem_cons_self ..), setProp_alias_none]
        simp only []
        rw [wfKids_cons_alias (fixB T) k _ rest' suf rfl] at hw
        exact constructProps_wf_id T rest' hok.2 hok2.2 all g acc suf
          (fun kv hkv => hfresh kv (List.mem_cons_of_mem _ hkv)) hnd.2 hw hg1
          (fun a t hm => hg2 a t (List.mem_cons_of_mem _ hm))
    | false =>
      cases suf with
      | nil => rw [wfKids_cons_nil (fixB T) k s rest' ha] at hw; cases hw
      | cons kv suf' =>
        obtain ⟨k', v⟩ := kv
        rw [wfKids_cons_cons (fixB T) k k' s v rest' suf' ha] at hw
        simp only [Bool.and_eq_true, beq_iff_eq] at hw
        have hkk : k' = k := hw.1.1.symm
        subst hkk
        have hval : (lookup k' g).getD (.leaf none) = v := by
          rw [hg1 k' v (by simp [lookup_cons])]; rfl
        rw [hval, setProp_eq_setVal T all acc k' s v ha, setVal_wf_id T s hok.1 hok2.1 v hw.1.2]
        simp only []
        rw [setKey_of_lookup_none (hfresh (k', s) (List.mem_cons_self ..))]
        have hsuf' : lookup k' suf' = none := wfKids_lookup_none (fixB T) k' rest' suf' hw.2 hnd.1
        have := constructProps_wf_id T rest' hok.2 hok2.2 all g (acc ++ [(k', v)]) suf'
          (fun kv hkv => by
            rw [lookup_append, hfresh kv (List.mem_cons_of_mem _ hkv)]
            have hne : kv.1 ≠ k' := lookup_eq_none_iff.mp hnd.1 kv hkv
            simp [lookup_cons, Ne.symm hne])
          hnd.2 hw.2
          (fun k2 v2 hl => by
            apply hg1
            have hne : k' ≠ k2 := by intro e; rw [e] at hsuf'; rw [hsuf'] at hl; cases hl
            simp [lookup_cons, hne, hl])
          (fun a t hm => hg2 a t (List.mem_cons_of_mem _ hm))
        rw [this]
        simp
end

/-! ### well formed ⇒ stable -/

theorem wfKids_mem_facts (P : Nat → Option Val → Bool) : ∀ (ps : List (Key × Schema)) (kids : Dict), wfKids P ps kids = true → nodupK ps = true →
    ∀ k v, (k, v) ∈ kids → ∃ s, lookup k ps = some s ∧ s.isAlias = false ∧ wfVal P s v = true ∧ lookup k kids = some v := by
  intro ps
  induction ps with
  | nil =>
    intro kids h _ k v hm
    rw [wfKids_nil] at h
    cases kids with
    | nil => cases hm
    | cons a b => simp at h
  | cons hd t ih =>
    obtain ⟨k0, s0⟩ := hd
    intro kids h hnd k v hm
    rw [nodupK_cons] at hnd
    simp only [Bool.and_eq_true, Option.isNone_iff_eq_none] at hnd
    cases ha : s0.isAlias with
    | true =>
      rw [wfKids_cons_alias P k0 s0 t kids ha] at h
      obtain ⟨s, h1, h2, h3, h4⟩ := ih kids h hnd.2 k v hm
      have hne : k0 ≠ k := by intro e; rw [e] at hnd; rw [hnd.1] at h1; cases h1
      exact ⟨s, by simp [lookup_cons, hne, h1], h2, h3, h4⟩
    | false =>
      cases kids with
      | nil => cases hm
      | cons kv kids' =>
        obtain ⟨k', v0⟩ := kv
        rw [wfKids_cons_cons P k0 k' s0 v0 t kids' ha] at h
        simp only [Bool.and_eq_true, beq_iff_eq] at h
        have hkk : k' = k0 := h.1.1.symm
        subst hkk
        rcases List.mem_cons.mp hm with e | hm'
        · injection e with e1 e2
          subst e1; subst e2
          exact ⟨s0, by simp [lookup_cons], ha, h.1.2, by simp [lookup_cons]⟩
        · obtain ⟨s, h1, h2, h3, h4⟩ := ih kids' h.2 hnd.2 k v hm'
          have hne : k' ≠ k := by intro e; rw [e] at hnd; rw [hnd.1] at h1; cases h1
          exact ⟨s, by simp [lookup_cons, hne, h1], h2, h3, by simp [lookup_cons, hne, h4]⟩

/-- **well formed ⇒ stable**: on a well-formed object `obj.update()` — which re-assigns every property from
`as_dict()`, re-building every sub-object from its dictionary — succeeds and changes nothing -/
theorem stable_of_wf (T : Tables) (props : List (Key × Schema)) (hok : okProps props = true) (hok2 : okProps2 props = true)
    (hnd : nodupK props = true) (others : List Str) (cur : Dict) (hw : wfKids (fixB T) props cur = true) : Stable T props others cur := by
  have key : ∀ (items : Dict), (∀ kv ∈ items, kv ∈ cur) → setAllS T props others cur items = (cur, .ok ()) := by
    intro items
    induction items with
    | nil => intro _; rfl
    | cons hd t ih =>
      obtain ⟨k, v⟩ := hd
      intro hm
      obtain ⟨s, h1, h2, h3, h4⟩ := wfKids_mem_facts (fixB T) props cur hw hnd k v (hm _ (List.mem_cons_self ..))
      have hsa : setAttr T props others cur k v = .ok cur := by
        simp only [setAttr, h1]
        rw [setProp_eq_setVal T props cur k s v h2, setVal_wf_id T s (okProps_lookup hok h1) (okProps2_lookup hok2 h1) v h3]
        simp only []
        rw [setKey_self h4]
      rw [setAllS_cons, hsa]
      exact ih (fun kv hkv => hm kv (List.mem_cons_of_mem _ hkv))
  exact key cur (fun _ h => h)

end MagpyVerif.StyleState
