/-
Lemmas/TrimeshTetra.lean — the ray-casting inside test of TriangularMesh (Model/TrimeshInside.lean) on a single
tetrahedron with outward faces: in barycentric terms the test ray from a point outside to a point strictly inside
crosses exactly one face — the one with the smallest ratio (barycentric coordinate of the start)/(barycentric
coordinate of the end point) — provided the ray does not come within the pass-through tolerance of an edge.
-/
import MagpyVerif.Lemmas.TrimeshInside

namespace MagpyVerif.Kern
open MagpyVerif

/-- the four faces of the tetrahedron `v0 v1 v2 v3` in the order and winding `BHJM_magnet_tetrahedron` uses (outward for a
right-handed vertex order) -/
def tetraFaces {α : Type} (v0 v1 v2 v3 : V3 α) : List (Tri α) :=
  [(v0, v2, v1), (v0, v1, v3), (v1, v2, v3), (v0, v3, v2)]

/-- six times the signed volume: the determinant `point_inside` divides by -/
noncomputable def tdet (v0 v1 v2 v3 : V3 ℝ) : ℝ := det3 (v1 - v0) (v2 - v0) (v3 - v0)

/-- numerators of the four barycentric coordinates of `P` (those of `point_inside`, and the remaining one) -/
noncomputable def bary (v0 v1 v2 v3 P : V3 ℝ) : Fin 4 → ℝ :=
  ![tdet v0 v1 v2 v3 - det3 (P - v0) (v2 - v0) (v3 - v0) - det3 (v1 - v0) (P - v0) (v3 - v0) -
      det3 (v1 - v0) (v2 - v0) (P - v0),
    det3 (P - v0) (v2 - v0) (v3 - v0), det3 (v1 - v0) (P - v0) (v3 - v0), det3 (v1 - v0) (v2 - v0) (P - v0)]

section identities
variable (v0 v1 v2 v3 S X : V3 ℝ)

/-! scalar product with the facet normal = − barycentric numerator of the opposite vertex, for either reference corner -/
theorem N_face3_a : V3.dot (X - v1) (V3.cross (v0 - v1) (v2 - v1)) = -(bary v0 v1 v2 v3 X 3) := by
  simp [bary, tdet, det3, V3.dot, V3.cross]; ring
theorem N_face3_b : V3.dot (X - v2) (V3.cross (v0 - v1) (v2 - v1)) = -(bary v0 v1 v2 v3 X 3) := by
  simp [bary, tdet, det3, V3.dot, V3.cross]; ring
theorem N_face2_a : V3.dot (X - v3) (V3.cross (v0 - v3) (v1 - v3)) = -(bary v0 v1 v2 v3 X 2) := by
  simp [bary, tdet, det3, V3.dot, V3.cross]; ring
theorem N_face2_b : V3.dot (X - v1) (V3.cross (v0 - v3) (v1 - v3)) = -(bary v0 v1 v2 v3 X 2) := by
  simp [bary, tdet, det3, V3.dot, V3.cross]; ring
theorem N_face0_a : V3.dot (X - v3) (V3.cross (v1 - v3) (v2 - v3)) = -(bary v0 v1 v2 v3 X 0) := by
  simp [bary, tdet, det3, V3.dot, V3.cross]; ring
theorem N_face0_b : V3.dot (X - v2) (V3.cross (v1 - v3) (v2 - v3)) = -(bary v0 v1 v2 v3 X 0) := by
  simp [bary, tdet, det3, V3.dot, V3.cross]; ring
theorem N_face1_a : V3.dot (X - v2) (V3.cross (v0 - v2) (v3 - v2)) = -(bary v0 v1 v2 v3 X 1) := by
  simp [bary, tdet, det3, V3.dot, V3.cross]; ring
theorem N_face1_b : V3.dot (X - v3) (V3.cross (v0 - v2) (v3 - v2)) = -(bary v0 v1 v2 v3 X 1) := by
  simp [bary, tdet, det3, V3.dot, V3.cross]; ring

/-! `det · (signed volume of the ray with a facet edge)` = 2×2 minor of the barycentric numerators of start and end -/
theorem area_face3_a1 : tdet v0 v1 v2 v3 * vDotCross3d (v0 - S) (v2 - S) (X - S) =
    bary v0 v1 v2 v3 S 3 * bary v0 v1 v2 v3 X 1 - bary v0 v1 v2 v3 S 1 * bary v0 v1 v2 v3 X 3 := by
  simp [bary, tdet, det3, vDotCross3d]; ring
theorem area_face3_a2 : tdet v0 v1 v2 v3 * vDotCross3d (v2 - S) (v1 - S) (X - S) =
    bary v0 v1 v2 v3 S 3 * bary v0 v1 v2 v3 X 0 - bary v0 v1 v2 v3 S 0 * bary v0 v1 v2 v3 X 3 := by
  simp [bary, tdet, det3, vDotCross3d]; ring
theorem area_face3_a3 : tdet v0 v1 v2 v3 * vDotCross3d (v1 - S) (v0 - S) (X - S) =
    bary v0 v1 v2 v3 S 3 * bary v0 v1 v2 v3 X 2 - bary v0 v1 v2 v3 S 2 * bary v0 v1 v2 v3 X 3 := by
  simp [bary, tdet, det3, vDotCross3d]; ring
theorem area_face2_a1 : tdet v0 v1 v2 v3 * vDotCross3d (v0 - S) (v1 - S) (X - S) =
    bary v0 v1 v2 v3 S 2 * bary v0 v1 v2 v3 X 3 - bary v0 v1 v2 v3 S 3 * bary v0 v1 v2 v3 X 2 := by
  simp [bary, tdet, det3, vDotCross3d]; ring
theorem area_face2_a2 : tdet v0 v1 v2 v3 * vDotCross3d (v1 - S) (v3 - S) (X - S) =
    bary v0 v1 v2 v3 S 2 * bary v0 v1 v2 v3 X 0 - bary v0 v1 v2 v3 S 0 * bary v0 v1 v2 v3 X 2 := by
  simp [bary, tdet, det3, vDotCross3d]; ring
theorem area_face2_a3 : tdet v0 v1 v2 v3 * vDotCross3d (v3 - S) (v0 - S) (X - S) =
    bary v0 v1 v2 v3 S 2 * bary v0 v1 v2 v3 X 1 - bary v0 v1 v2 v3 S 1 * bary v0 v1 v2 v3 X 2 := by
  simp [bary, tdet, det3, vDotCross3d]; ring
theorem area_face0_a1 : tdet v0 v1 v2 v3 * vDotCross3d (v1 - S) (v2 - S) (X - S) =
    bary v0 v1 v2 v3 S 0 * bary v0 v1 v2 v3 X 3 - bary v0 v1 v2 v3 S 3 * bary v0 v1 v2 v3 X 0 := by
  simp [bary, tdet, det3, vDotCross3d]; ring
theorem area_face0_a2 : tdet v0 v1 v2 v3 * vDotCross3d (v2 - S) (v3 - S) (X - S) =
    bary v0 v1 v2 v3 S 0 * bary v0 v1 v2 v3 X 1 - bary v0 v1 v2 v3 S 1 * bary v0 v1 v2 v3 X 0 := by
  simp [bary, tdet, det3, vDotCross3d]; ring
theorem area_face0_a3 : tdet v0 v1 v2 v3 * vDotCross3d (v3 - S) (v1 - S) (X - S) =
    bary v0 v1 v2 v3 S 0 * bary v0 v1 v2 v3 X 2 - bary v0 v1 v2 v3 S 2 * bary v0 v1 v2 v3 X 0 := by
  simp [bary, tdet, det3, vDotCross3d]; ring
theorem area_face1_a1 : tdet v0 v1 v2 v3 * vDotCross3d (v0 - S) (v3 - S) (X - S) =
    bary v0 v1 v2 v3 S 1 * bary v0 v1 v2 v3 X 2 - bary v0 v1 v2 v3 S 2 * bary v0 v1 v2 v3 X 1 := by
  simp [bary, tdet, det3, vDotCross3d]; ring
theorem area_face1_a2 : tdet v0 v1 v2 v3 * vDotCross3d (v3 - S) (v2 - S) (X - S) =
    bary v0 v1 v2 v3 S 1 * bary v0 v1 v2 v3 X 0 - bary v0 v1 v2 v3 S 0 * bary v0 v1 v2 v3 X 1 := by
  simp [bary, tdet, det3, vDotCross3d]; ring
theorem area_face1_a3 : tdet v0 v1 v2 v3 * vDotCross3d (v2 - S) (v0 - S) (X - S) =
    bary v0 v1 v2 v3 S 1 * bary v0 v1 v2 v3 X 3 - bary v0 v1 v2 v3 S 3 * bary v0 v1 v2 v3 X 1 := by
  simp [bary, tdet, det3, vDotCross3d]; ring

end identities
/-- among finitely many pairwise distinct ratios with a negative and a positive one, exactly the (unique) smallest is
"non-positive and either below all others or above all others" -/
theorem strict_extreme_iff_argmin {ι : Type} [Fintype ι] [DecidableEq ι] [Nonempty ι] (r : ι → ℝ)
    (hinj : ∀ i j, i ≠ j → r i ≠ r j) (hneg : ∃ i, r i < 0) (hpos : ∃ i, 0 < r i) :
    ∃ k0, ∀ k, (r k ≤ 0 ∧ ((∀ j, j ≠ k → r k < r j) ∨ (∀ j, j ≠ k → r j < r k))) ↔ k = k0 := by
  obtain ⟨k0, -, hk0⟩ := Finset.exists_min_image Finset.univ r Finset.univ_nonempty
  refine ⟨k0, fun k => ⟨?_, ?_⟩⟩
  · rintro ⟨hle, hmin | hmax⟩
    · by_contra hne
      have h1 := hmin k0 (Ne.symm hne)
      have h2 := hk0 k (Finset.mem_univ _)
      linarith
    · exfalso
      obtain ⟨i, hi⟩ := hpos
      by_cases hik : i = k
      · subst hik; linarith
      · have := hmax i hik; linarith
  · rintro rfl
    obtain ⟨i, hi⟩ := hneg
    refine ⟨le_trans (hk0 i (Finset.mem_univ _)) hi.le, Or.inl fun j hj => ?_⟩
    exact lt_of_le_of_ne (hk0 j (Finset.mem_univ _)) (hinj _ _ (Ne.symm hj))

/-- the pass-through-boundary test of `lines_end_in_trimesh` for one (line, face): the line comes within `1e-12` (signed
volume, lengths in units of the mesh size) of one of the three edges -/
noncomputable def rayNearEdge (l0 l1 : V3 ℝ) (f : Tri ℝ) : Bool :=
  Num.lt (Num.abs (vDotCross3d (f.1 - l0) (f.2.1 - l0) (l1 - l0))) (n 1 / n 1000000000000) ||
  Num.lt (Num.abs (vDotCross3d (f.2.1 - l0) (f.2.2 - l0) (l1 - l0))) (n 1 / n 1000000000000) ||
  Num.lt (Num.abs (vDotCross3d (f.2.2 - l0) (f.1 - l0) (l1 - l0))) (n 1 / n 1000000000000)

/-- the reference corner of the plane test: `f[1]` if the end point is within `1e-8` of `f[2]`, else `f[2]` -/
noncomputable def refPoint (l1 : V3 ℝ) (f : Tri ℝ) : V3 ℝ :=
  if Num.lt (vNorm2 (l1 - f.2.2)) (n 1 / n 10000000000000000) then f.2.1 else f.2.2

theorem faceTest_fst (l0 l1 : V3 ℝ) (f : Tri ℝ) :
    (faceTest l0 l1 f).1 =
      ((rayNearEdge l0 l1 f ||
          (signEq (vDotCross3d (f.1 - l0) (f.2.1 - l0) (l1 - l0)) (vDotCross3d (f.2.1 - l0) (f.2.2 - l0) (l1 - l0)) &&
           signEq (vDotCross3d (f.2.1 - l0) (f.2.2 - l0) (l1 - l0)) (vDotCross3d (f.2.2 - l0) (f.1 - l0) (l1 - l0)))) &&
        signNe (vNormProj (l0 - refPoint l1 f) (V3.cross (f.1 - f.2.2) (f.2.1 - f.2.2)))
          (vNormProj (l1 - refPoint l1 f) (V3.cross (f.1 - f.2.2) (f.2.1 - f.2.2)))) := rfl

theorem sgn_neg_ne_zero_iff (a : ℝ) : (sgn (-a) != 0) = decide (a ≤ 0) := by
  rw [sgn_real]
  by_cases h : a ≤ 0
  · have : ¬ (-a < 0) := by linarith
    simp only [this, if_false, h, decide_true]
    split_ifs <;> rfl
  · have : -a < 0 := by linarith
    simp [this, h]

theorem sgn_neg_of_pos (a : ℝ) (h : 0 < a) : sgn (-a) = 0 := by
  rw [sgn_real]; simp [h]

theorem sgn_chain (m1 m2 m3 : ℝ) (h1 : m1 ≠ 0) (h2 : m2 ≠ 0) (h3 : m3 ≠ 0) :
    (sgn m1 == sgn m2 && sgn m2 == sgn m3) = decide ((m1 < 0 ∧ m2 < 0 ∧ m3 < 0) ∨ (0 < m1 ∧ 0 < m2 ∧ 0 < m3)) := by
  simp only [sgn_real]
  rcases lt_or_gt_of_ne h1 with a1 | a1 <;> rcases lt_or_gt_of_ne h2 with a2 | a2 <;>
    rcases lt_or_gt_of_ne h3 with a3 | a3 <;>
    simp [a1, a2, a3, not_lt.mpr a1.le, not_lt.mpr a2.le, not_lt.mpr a3.le]

/-- the crossing verdict of one face in terms of barycentric data: `sk`, `xk` the numerators of start and end point for the
vertex opposite to the face, `m1 m2 m3` the 2×2 minors that carry the signs of the three signed volumes -/
theorem faceTest_fst_of (l0 l1 : V3 ℝ) (f : Tri ℝ) (δ sk xk m1 m2 m3 : ℝ) (hδ : 0 < δ) (hxk : 0 < xk)
    (hb : rayNearEdge l0 l1 f = false)
    (hn : 0 < vNorm2 (V3.cross (f.1 - f.2.2) (f.2.1 - f.2.2)))
    (h0 : 0 < vNorm2 (l0 - refPoint l1 f)) (h1 : 0 < vNorm2 (l1 - refPoint l1 f))
    (hN0 : V3.dot (l0 - refPoint l1 f) (V3.cross (f.1 - f.2.2) (f.2.1 - f.2.2)) = -sk)
    (hN1 : V3.dot (l1 - refPoint l1 f) (V3.cross (f.1 - f.2.2) (f.2.1 - f.2.2)) = -xk)
    (hA1 : δ * vDotCross3d (f.1 - l0) (f.2.1 - l0) (l1 - l0) = m1)
    (hA2 : δ * vDotCross3d (f.2.1 - l0) (f.2.2 - l0) (l1 - l0) = m2)
    (hA3 : δ * vDotCross3d (f.2.2 - l0) (f.1 - l0) (l1 - l0) = m3) :
    (faceTest l0 l1 f).1 =
      decide (sk ≤ 0 ∧ ((m1 < 0 ∧ m2 < 0 ∧ m3 < 0) ∨ (0 < m1 ∧ 0 < m2 ∧ 0 < m3))) := by
  have hs : ∀ a m : ℝ, δ * a = m → sgn a = sgn m := by
    intro a m h
    have : a = m / δ := by rw [← h]; field_simp
    rw [this, sgn_pos_mul _ _ hδ]
  have hne : ∀ a m : ℝ, δ * a = m → ¬ |a| < 1 / 1000000000000 → m ≠ 0 := by
    intro a m h hab hm
    have : a = 0 := by
      rcases mul_eq_zero.mp (h.trans hm) with h' | h'
      · exact absurd h' hδ.ne'
      · exact h'
    rw [this] at hab
    norm_num at hab
  simp only [rayNearEdge, lt_real, abs_real, n, ofNat_real, Nat.cast_one, Nat.cast_ofNat, Bool.or_eq_false_iff,
    decide_eq_false_iff_not] at hb
  obtain ⟨⟨hb1, hb2⟩, hb3⟩ := hb
  have hm1 := hne _ _ hA1 hb1
  have hm2 := hne _ _ hA2 hb2
  have hm3 := hne _ _ hA3 hb3
  have hbf : rayNearEdge l0 l1 f = false := by
    simp only [rayNearEdge, lt_real, abs_real, n, ofNat_real, Nat.cast_one, Nat.cast_ofNat, hb1, hb2, hb3, decide_false,
      Bool.or_self]
  rw [faceTest_fst, hbf, Bool.false_or, signNe_real, vNormProj_sgn _ _ (mul_pos h0 hn), vNormProj_sgn _ _ (mul_pos h1 hn),
    hN0, hN1, sgn_neg_of_pos _ hxk, sgn_neg_ne_zero_iff]
  simp only [signEq, signNe_real, not_bne_nat, hs _ _ hA1, hs _ _ hA2, hs _ _ hA3, sgn_chain _ _ _ hm1 hm2 hm3]
  by_cases hsk : sk ≤ 0 <;> simp [hsk]

theorem vNorm2_eq_zero (a : V3 ℝ) (h : vNorm2 a = 0) : a.x = 0 ∧ a.y = 0 ∧ a.z = 0 := by
  simp only [vNorm2] at h
  refine ⟨?_, ?_, ?_⟩ <;> nlinarith [mul_self_nonneg a.x, mul_self_nonneg a.y, mul_self_nonneg a.z]

theorem vNorm2_nonneg (a : V3 ℝ) : 0 ≤ vNorm2 a := by
  simp only [vNorm2]; nlinarith [mul_self_nonneg a.x, mul_self_nonneg a.y, mul_self_nonneg a.z]

theorem vNorm2_pos_of_dot_left (a b : V3 ℝ) (h : V3.dot a b ≠ 0) : 0 < vNorm2 a := by
  rcases (vNorm2_nonneg a).lt_or_eq with h' | h'
  · exact h'
  · obtain ⟨hx, hy, hz⟩ := vNorm2_eq_zero a h'.symm
    exact absurd (by simp [V3.dot, hx, hy, hz]) h

theorem vNorm2_pos_of_dot_right (a b : V3 ℝ) (h : V3.dot a b ≠ 0) : 0 < vNorm2 b := by
  rcases (vNorm2_nonneg b).lt_or_eq with h' | h'
  · exact h'
  · obtain ⟨hx, hy, hz⟩ := vNorm2_eq_zero b h'.symm
    exact absurd (by simp [V3.dot, hx, hy, hz]) h

theorem vNorm2_pos_of_ne (a b : V3 ℝ) (h : a ≠ b) : 0 < vNorm2 (a - b) := by
  rcases (vNorm2_nonneg (a - b)).lt_or_eq with h' | h'
  · exact h'
  · obtain ⟨hx, hy, hz⟩ := vNorm2_eq_zero _ h'.symm
    simp only [V3.sub_x, V3.sub_y, V3.sub_z] at hx hy hz
    exact absurd (V3.ext' (by linarith) (by linarith) (by linarith)) h

/-- barycentric reading of the crossing verdict of the face opposite vertex `k` -/
theorem cross_iff (s x : Fin 4 → ℝ) (hx : ∀ k, 0 < x k) (k j1 j2 j3 : Fin 4)
    (hall : ∀ j, j ≠ k ↔ (j = j1 ∨ j = j2 ∨ j = j3)) :
    (s k ≤ 0 ∧ ((s k * x j1 - s j1 * x k < 0 ∧ s k * x j2 - s j2 * x k < 0 ∧ s k * x j3 - s j3 * x k < 0) ∨
      (0 < s k * x j1 - s j1 * x k ∧ 0 < s k * x j2 - s j2 * x k ∧ 0 < s k * x j3 - s j3 * x k))) ↔
    (s k / x k ≤ 0 ∧ ((∀ j, j ≠ k → s k / x k < s j / x j) ∨ (∀ j, j ≠ k → s j / x j < s k / x k))) := by
  have e1 : s k / x k ≤ 0 ↔ s k ≤ 0 := by
    rw [div_le_iff₀ (hx k), zero_mul]
  have e2 : ∀ j, s k / x k < s j / x j ↔ s k * x j - s j * x k < 0 := by
    intro j; rw [div_lt_div_iff₀ (hx k) (hx j), sub_neg]
  have e3 : ∀ j, s j / x j < s k / x k ↔ 0 < s k * x j - s j * x k := by
    intro j; rw [div_lt_div_iff₀ (hx j) (hx k), sub_pos]
  have e4 : ∀ P : Fin 4 → Prop, (∀ j, j ≠ k → P j) ↔ (P j1 ∧ P j2 ∧ P j3) := by
    intro P
    constructor
    · intro h
      exact ⟨h j1 ((hall j1).mpr (Or.inl rfl)), h j2 ((hall j2).mpr (Or.inr (Or.inl rfl))),
        h j3 ((hall j3).mpr (Or.inr (Or.inr rfl)))⟩
    · rintro ⟨h1, h2, h3⟩ j hj
      rcases (hall j).mp hj with rfl | rfl | rfl <;> assumption
  rw [e1, e4, e4]
  simp only [e2, e3]

theorem bary_sum (v0 v1 v2 v3 P : V3 ℝ) :
    bary v0 v1 v2 v3 P 0 + bary v0 v1 v2 v3 P 1 + bary v0 v1 v2 v3 P 2 + bary v0 v1 v2 v3 P 3 = tdet v0 v1 v2 v3 := by
  simp [bary]; ring

theorem rayNearEdge_false (l0 l1 : V3 ℝ) (f : Tri ℝ) (hb : rayNearEdge l0 l1 f = false) :
    ¬ |vDotCross3d (f.1 - l0) (f.2.1 - l0) (l1 - l0)| < 1 / 1000000000000 ∧
    ¬ |vDotCross3d (f.2.1 - l0) (f.2.2 - l0) (l1 - l0)| < 1 / 1000000000000 ∧
    ¬ |vDotCross3d (f.2.2 - l0) (f.1 - l0) (l1 - l0)| < 1 / 1000000000000 := by
  simp only [rayNearEdge, lt_real, abs_real, n, ofNat_real, Nat.cast_one, Nat.cast_ofNat, Bool.or_eq_false_iff,
    decide_eq_false_iff_not] at hb
  exact ⟨hb.1.1, hb.1.2, hb.2⟩

theorem minor_ne_zero (δ a m : ℝ) (hδ : 0 < δ) (h : δ * a = m) (hab : ¬ |a| < 1 / 1000000000000) : m ≠ 0 := by
  intro hm
  have : a = 0 := by
    rcases mul_eq_zero.mp (h.trans hm) with h' | h'
    · exact absurd h' hδ.ne'
    · exact h'
  rw [this] at hab
  norm_num at hab

theorem ratio_ne (s x : Fin 4 → ℝ) (hx : ∀ k, 0 < x k) (k j : Fin 4) (h : s k * x j - s j * x k ≠ 0) :
    s k / x k ≠ s j / x j ∧ s j / x j ≠ s k / x k := by
  have : s k / x k ≠ s j / x j := by
    intro he
    rw [div_eq_div_iff (hx k).ne' (hx j).ne'] at he
    exact h (by linarith)
  exact ⟨this, fun h' => this h'.symm⟩

/-- one face of the tetrahedron, all hypotheses of `faceTest_fst_of` discharged from barycentric data -/
theorem tetra_face_cross (v0 v1 v2 v3 S X : V3 ℝ) (f : Tri ℝ) (k j1 j2 j3 : Fin 4)
    (hd : 0 < tdet v0 v1 v2 v3) (hx : ∀ k, 0 < bary v0 v1 v2 v3 X k)
    (hb : rayNearEdge S X f = false)
    (hS1 : S ≠ f.2.1) (hS2 : S ≠ f.2.2)
    (hNa : ∀ P, V3.dot (P - f.2.2) (V3.cross (f.1 - f.2.2) (f.2.1 - f.2.2)) = -(bary v0 v1 v2 v3 P k))
    (hNb : ∀ P, V3.dot (P - f.2.1) (V3.cross (f.1 - f.2.2) (f.2.1 - f.2.2)) = -(bary v0 v1 v2 v3 P k))
    (hA1 : tdet v0 v1 v2 v3 * vDotCross3d (f.1 - S) (f.2.1 - S) (X - S) =
      bary v0 v1 v2 v3 S k * bary v0 v1 v2 v3 X j1 - bary v0 v1 v2 v3 S j1 * bary v0 v1 v2 v3 X k)
    (hA2 : tdet v0 v1 v2 v3 * vDotCross3d (f.2.1 - S) (f.2.2 - S) (X - S) =
      bary v0 v1 v2 v3 S k * bary v0 v1 v2 v3 X j2 - bary v0 v1 v2 v3 S j2 * bary v0 v1 v2 v3 X k)
    (hA3 : tdet v0 v1 v2 v3 * vDotCross3d (f.2.2 - S) (f.1 - S) (X - S) =
      bary v0 v1 v2 v3 S k * bary v0 v1 v2 v3 X j3 - bary v0 v1 v2 v3 S j3 * bary v0 v1 v2 v3 X k)
    (hall : ∀ j, j ≠ k ↔ (j = j1 ∨ j = j2 ∨ j = j3)) :
    (faceTest S X f).1 = decide
      (bary v0 v1 v2 v3 S k / bary v0 v1 v2 v3 X k ≤ 0 ∧
        ((∀ j, j ≠ k → bary v0 v1 v2 v3 S k / bary v0 v1 v2 v3 X k < bary v0 v1 v2 v3 S j / bary v0 v1 v2 v3 X j) ∨
         (∀ j, j ≠ k → bary v0 v1 v2 v3 S j / bary v0 v1 v2 v3 X j < bary v0 v1 v2 v3 S k / bary v0 v1 v2 v3 X k))) := by
  have hN : ∀ P, V3.dot (P - refPoint X f) (V3.cross (f.1 - f.2.2) (f.2.1 - f.2.2)) = -(bary v0 v1 v2 v3 P k) := by
    intro P; unfold refPoint; split
    · exact hNb P
    · exact hNa P
  have hSr : S ≠ refPoint X f := by
    unfold refPoint; split
    · exact hS1
    · exact hS2
  have hXne : V3.dot (X - refPoint X f) (V3.cross (f.1 - f.2.2) (f.2.1 - f.2.2)) ≠ 0 := by
    rw [hN]; exact neg_ne_zero.mpr (hx k).ne'
  rw [faceTest_fst_of S X f (tdet v0 v1 v2 v3) (bary v0 v1 v2 v3 S k) (bary v0 v1 v2 v3 X k) _ _ _ hd (hx k) hb
    (vNorm2_pos_of_dot_right _ _ hXne) (vNorm2_pos_of_ne _ _ hSr) (vNorm2_pos_of_dot_left _ _ hXne) (hN S) (hN X)
    hA1 hA2 hA3]
  exact decide_eq_decide.mpr (cross_iff _ _ hx k j1 j2 j3 hall)

/-- **the ray from a point outside to a point strictly inside a tetrahedron crosses exactly one face** (as
`lines_end_in_trimesh` counts crossings), if it does not come within the pass-through tolerance of an edge -/
theorem crossCount_tetra_inside (v0 v1 v2 v3 S X : V3 ℝ) (hd : 0 < tdet v0 v1 v2 v3)
    (hx : ∀ k, 0 < bary v0 v1 v2 v3 X k) (hs : ∃ k, bary v0 v1 v2 v3 S k < 0)
    (hSv : S ≠ v1 ∧ S ≠ v2 ∧ S ≠ v3)
    (hgen : ∀ f ∈ tetraFaces v0 v1 v2 v3, rayNearEdge S X f = false) :
    ((tetraFaces v0 v1 v2 v3).map (faceTest S X)).countP (·.1) = 1 := by
  obtain ⟨hS1, hS2, hS3⟩ := hSv
  have hg3 := hgen (v0, v2, v1) (by simp [tetraFaces])
  have hg2 := hgen (v0, v1, v3) (by simp [tetraFaces])
  have hg0 := hgen (v1, v2, v3) (by simp [tetraFaces])
  have hg1 := hgen (v0, v3, v2) (by simp [tetraFaces])
  have f3 := tetra_face_cross v0 v1 v2 v3 S X (v0, v2, v1) 3 1 0 2 hd hx hg3 hS2 hS1
    (fun P => N_face3_a v0 v1 v2 v3 P) (fun P => N_face3_b v0 v1 v2 v3 P)
    (area_face3_a1 v0 v1 v2 v3 S X) (area_face3_a2 v0 v1 v2 v3 S X) (area_face3_a3 v0 v1 v2 v3 S X) (by decide)
  have f2 := tetra_face_cross v0 v1 v2 v3 S X (v0, v1, v3) 2 3 0 1 hd hx hg2 hS1 hS3
    (fun P => N_face2_a v0 v1 v2 v3 P) (fun P => N_face2_b v0 v1 v2 v3 P)
    (area_face2_a1 v0 v1 v2 v3 S X) (area_face2_a2 v0 v1 v2 v3 S X) (area_face2_a3 v0 v1 v2 v3 S X) (by decide)
  have f0 := tetra_face_cross v0 v1 v2 v3 S X (v1, v2, v3) 0 3 1 2 hd hx hg0 hS2 hS3
    (fun P => N_face0_a v0 v1 v2 v3 P) (fun P => N_face0_b v0 v1 v2 v3 P)
    (area_face0_a1 v0 v1 v2 v3 S X) (area_face0_a2 v0 v1 v2 v3 S X) (area_face0_a3 v0 v1 v2 v3 S X) (by decide)
  have f1 := tetra_face_cross v0 v1 v2 v3 S X (v0, v3, v2) 1 2 0 3 hd hx hg1 hS3 hS2
    (fun P => N_face1_a v0 v1 v2 v3 P) (fun P => N_face1_b v0 v1 v2 v3 P)
    (area_face1_a1 v0 v1 v2 v3 S X) (area_face1_a2 v0 v1 v2 v3 S X) (area_face1_a3 v0 v1 v2 v3 S X) (by decide)
  -- the twelve ordered pairs of distinct ratios, from the genericity of the ray
  have hx' := hx
  have m3 := rayNearEdge_false _ _ _ hg3
  have m2 := rayNearEdge_false _ _ _ hg2
  have m0 := rayNearEdge_false _ _ _ hg0
  have m1 := rayNearEdge_false _ _ _ hg1
  have r31 := ratio_ne _ _ hx 3 1 (minor_ne_zero _ _ _ hd (area_face3_a1 v0 v1 v2 v3 S X) m3.1)
  have r30 := ratio_ne _ _ hx 3 0 (minor_ne_zero _ _ _ hd (area_face3_a2 v0 v1 v2 v3 S X) m3.2.1)
  have r32 := ratio_ne _ _ hx 3 2 (minor_ne_zero _ _ _ hd (area_face3_a3 v0 v1 v2 v3 S X) m3.2.2)
  have r20 := ratio_ne _ _ hx 2 0 (minor_ne_zero _ _ _ hd (area_face2_a2 v0 v1 v2 v3 S X) m2.2.1)
  have r21 := ratio_ne _ _ hx 2 1 (minor_ne_zero _ _ _ hd (area_face2_a3 v0 v1 v2 v3 S X) m2.2.2)
  have r01 := ratio_ne _ _ hx 0 1 (minor_ne_zero _ _ _ hd (area_face0_a2 v0 v1 v2 v3 S X) m0.2.1)
  have H : ∀ i j : Fin 4, i ≠ j → bary v0 v1 v2 v3 S i / bary v0 v1 v2 v3 X i ≠
      bary v0 v1 v2 v3 S j / bary v0 v1 v2 v3 X j := by
    intro i j hij
    fin_cases i <;> fin_cases j <;>
      first
      | exact absurd rfl hij
      | exact r01.1 | exact r01.2 | exact r20.1 | exact r20.2 | exact r21.1 | exact r21.2
      | exact r30.1 | exact r30.2 | exact r31.1 | exact r31.2 | exact r32.1 | exact r32.2
  have hneg : ∃ i, bary v0 v1 v2 v3 S i / bary v0 v1 v2 v3 X i < 0 := by
    obtain ⟨k, hk⟩ := hs
    exact ⟨k, div_neg_of_neg_of_pos hk (hx k)⟩
  have hpos : ∃ i, 0 < bary v0 v1 v2 v3 S i / bary v0 v1 v2 v3 X i := by
    by_contra hcon
    have hall : ∀ i, bary v0 v1 v2 v3 S i ≤ 0 := by
      intro i
      by_contra hi
      exact hcon ⟨i, div_pos (not_le.mp hi) (hx i)⟩
    have := bary_sum v0 v1 v2 v3 S
    linarith [hall 0, hall 1, hall 2, hall 3]
  obtain ⟨k0, hk0⟩ := strict_extreme_iff_argmin _ H hneg hpos
  simp only [hk0] at f3 f2 f0 f1
  simp only [tetraFaces, List.map_cons, List.map_nil, List.countP_cons, List.countP_nil, f3, f2, f0, f1]
  fin_cases k0 <;> simp

theorem linesEndCore_tetra_inside (v0 v1 v2 v3 S X : V3 ℝ) (hd : 0 < tdet v0 v1 v2 v3)
    (hx : ∀ k, 0 < bary v0 v1 v2 v3 X k) (hs : ∃ k, bary v0 v1 v2 v3 S k < 0)
    (hSv : S ≠ v1 ∧ S ≠ v2 ∧ S ≠ v3)
    (hgen : ∀ f ∈ tetraFaces v0 v1 v2 v3, rayNearEdge S X f = false) :
    linesEndCore S X (tetraFaces v0 v1 v2 v3) = true := by
  simp only [linesEndCore, crossCount_tetra_inside v0 v1 v2 v3 S X hd hx hs hSv hgen]
  simp

theorem foldl_vMin_le (rest : List (V3 ℝ)) (a : V3 ℝ) :
    ∀ v ∈ a :: rest, (rest.foldl vMin a).x ≤ v.x ∧ (rest.foldl vMin a).y ≤ v.y ∧ (rest.foldl vMin a).z ≤ v.z := by
  induction rest generalizing a with
  | nil => intro v hv; simp at hv; subst hv; simp
  | cons w ws ih =>
    intro v hv
    simp only [List.foldl_cons]
    have hm : (vMin a w).x ≤ a.x ∧ (vMin a w).y ≤ a.y ∧ (vMin a w).z ≤ a.z ∧
        (vMin a w).x ≤ w.x ∧ (vMin a w).y ≤ w.y ∧ (vMin a w).z ≤ w.z := by
      simp [vMin, npMin_real]
    have h0 := ih (vMin a w) (vMin a w) (by simp)
    rcases List.mem_cons.mp hv with rfl | hv'
    · exact ⟨h0.1.trans hm.1, h0.2.1.trans hm.2.1, h0.2.2.trans hm.2.2.1⟩
    · rcases List.mem_cons.mp hv' with rfl | hv''
      · exact ⟨h0.1.trans hm.2.2.2.1, h0.2.1.trans hm.2.2.2.2.1, h0.2.2.trans hm.2.2.2.2.2⟩
      · exact ih (vMin a w) v (List.mem_cons_of_mem _ hv'')

theorem le_foldl_vMax (rest : List (V3 ℝ)) (a : V3 ℝ) :
    ∀ v ∈ a :: rest, v.x ≤ (rest.foldl vMax a).x ∧ v.y ≤ (rest.foldl vMax a).y ∧ v.z ≤ (rest.foldl vMax a).z := by
  induction rest generalizing a with
  | nil => intro v hv; simp at hv; subst hv; simp
  | cons w ws ih =>
    intro v hv
    simp only [List.foldl_cons]
    have hm : a.x ≤ (vMax a w).x ∧ a.y ≤ (vMax a w).y ∧ a.z ≤ (vMax a w).z ∧
        w.x ≤ (vMax a w).x ∧ w.y ≤ (vMax a w).y ∧ w.z ≤ (vMax a w).z := by
      simp [vMax, npMax_real]
    have h0 := ih (vMax a w) (vMax a w) (by simp)
    rcases List.mem_cons.mp hv with rfl | hv'
    · exact ⟨hm.1.trans h0.1, hm.2.1.trans h0.2.1, hm.2.2.1.trans h0.2.2⟩
    · rcases List.mem_cons.mp hv' with rfl | hv''
      · exact ⟨hm.2.2.2.1.trans h0.1, hm.2.2.2.2.1.trans h0.2.1, hm.2.2.2.2.2.trans h0.2.2⟩
      · exact ih (vMax a w) v (List.mem_cons_of_mem _ hv'')

theorem vertsMin_le (verts : List (V3 ℝ)) (v : V3 ℝ) (hv : v ∈ verts) :
    (vertsMin verts).x ≤ v.x ∧ (vertsMin verts).y ≤ v.y ∧ (vertsMin verts).z ≤ v.z := by
  cases verts with
  | nil => simp at hv
  | cons a rest => exact foldl_vMin_le rest a v hv

theorem le_vertsMax (verts : List (V3 ℝ)) (v : V3 ℝ) (hv : v ∈ verts) :
    v.x ≤ (vertsMax verts).x ∧ v.y ≤ (vertsMax verts).y ∧ v.z ≤ (vertsMax verts).z := by
  cases verts with
  | nil => simp at hv
  | cons a rest => exact le_foldl_vMax rest a v hv

/-- Cramer: `det · P = Σ (barycentric numerator k of P) · v_k`, componentwise -/
theorem bary_combo (v0 v1 v2 v3 P : V3 ℝ) :
    tdet v0 v1 v2 v3 * P.x = bary v0 v1 v2 v3 P 0 * v0.x + bary v0 v1 v2 v3 P 1 * v1.x + bary v0 v1 v2 v3 P 2 * v2.x +
      bary v0 v1 v2 v3 P 3 * v3.x ∧
    tdet v0 v1 v2 v3 * P.y = bary v0 v1 v2 v3 P 0 * v0.y + bary v0 v1 v2 v3 P 1 * v1.y + bary v0 v1 v2 v3 P 2 * v2.y +
      bary v0 v1 v2 v3 P 3 * v3.y ∧
    tdet v0 v1 v2 v3 * P.z = bary v0 v1 v2 v3 P 0 * v0.z + bary v0 v1 v2 v3 P 1 * v1.z + bary v0 v1 v2 v3 P 2 * v2.z +
      bary v0 v1 v2 v3 P 3 * v3.z := by
  refine ⟨?_, ?_, ?_⟩ <;> (simp [bary, tdet, det3]; ring)

/-- a weighted mean with non-negative weights lies between the smallest and the largest entry -/
theorem combo_bounds (δ b0 b1 b2 b3 a0 a1 a2 a3 p lo hi : ℝ) (hδ : 0 < δ) (hsum : b0 + b1 + b2 + b3 = δ)
    (h0 : 0 ≤ b0) (h1 : 0 ≤ b1) (h2 : 0 ≤ b2) (h3 : 0 ≤ b3)
    (hc : δ * p = b0 * a0 + b1 * a1 + b2 * a2 + b3 * a3)
    (l0 : lo ≤ a0) (l1 : lo ≤ a1) (l2 : lo ≤ a2) (l3 : lo ≤ a3)
    (u0 : a0 ≤ hi) (u1 : a1 ≤ hi) (u2 : a2 ≤ hi) (u3 : a3 ≤ hi) : lo ≤ p ∧ p ≤ hi := by
  constructor
  · have : δ * lo ≤ δ * p := by
      rw [hc, ← hsum]
      nlinarith [mul_le_mul_of_nonneg_left l0 h0, mul_le_mul_of_nonneg_left l1 h1, mul_le_mul_of_nonneg_left l2 h2,
        mul_le_mul_of_nonneg_left l3 h3]
    exact le_of_mul_le_mul_left this hδ
  · have : δ * p ≤ δ * hi := by
      rw [hc, ← hsum]
      nlinarith [mul_le_mul_of_nonneg_left u0 h0, mul_le_mul_of_nonneg_left u1 h1, mul_le_mul_of_nonneg_left u2 h2,
        mul_le_mul_of_nonneg_left u3 h3]
    exact le_of_mul_le_mul_left this hδ

theorem tdet_vd (v0 v1 v2 v3 : V3 ℝ) (s : ℝ) (hs : s ≠ 0) :
    tdet (vd v0 s) (vd v1 s) (vd v2 s) (vd v3 s) = tdet v0 v1 v2 v3 / s ^ 3 := by
  simp [tdet, det3, vd]; field_simp

theorem bary_vd (v0 v1 v2 v3 P : V3 ℝ) (s : ℝ) (hs : s ≠ 0) (k : Fin 4) :
    bary (vd v0 s) (vd v1 s) (vd v2 s) (vd v3 s) (vd P s) k = bary v0 v1 v2 v3 P k / s ^ 3 := by
  fin_cases k <;> (simp [bary, tdet, det3, vd]; field_simp)

/-- the test ray of observer `x` (from the start point outside, lengths in units of the mesh size, exactly the numbers
`lines_end_in_trimesh` works with) does not come within the pass-through tolerance `1e-12` of any edge of any face -/
def RayGeneric (faces : List (Tri ℝ)) (x : V3 ℝ) : Prop :=
  ∀ f ∈ faces.map (triDiv (meshSize faces)),
    rayNearEdge (vd (startPointOutside (meshVerts faces)) (meshSize faces)) (vd x (meshSize faces)) f = false

theorem tetraFaces_triDiv (v0 v1 v2 v3 : V3 ℝ) (s : ℝ) :
    (tetraFaces v0 v1 v2 v3).map (triDiv s) = tetraFaces (vd v0 s) (vd v1 s) (vd v2 s) (vd v3 s) := by
  simp [tetraFaces, triDiv]

theorem vd_ne_of_x_lt (a b : V3 ℝ) (s : ℝ) (hs : 0 < s) (h : a.x < b.x) : vd a s ≠ vd b s := by
  intro he
  have : (vd a s).x = (vd b s).x := by rw [he]
  simp only [vd] at this
  have := (div_left_inj' hs.ne').mp this
  linarith

/-- a point strictly inside a tetrahedron: it passes the bounding-box pre-filter, the mesh size is positive, and its (generic) test ray,
in units of the mesh size, crosses exactly one face -/
theorem tetra_inside_count (v0 v1 v2 v3 X : V3 ℝ) (hd : 0 < tdet v0 v1 v2 v3)
    (hx : ∀ k, 0 < bary v0 v1 v2 v3 X k) (hgen : RayGeneric (tetraFaces v0 v1 v2 v3) X) :
    insideBoxV (meshVerts (tetraFaces v0 v1 v2 v3)) X = true ∧ 0 < vertsSize (meshVerts (tetraFaces v0 v1 v2 v3)) ∧
    (((tetraFaces v0 v1 v2 v3).map (triDiv (vertsSize (meshVerts (tetraFaces v0 v1 v2 v3))))).map
      (faceTest (vd (startPointOutside (meshVerts (tetraFaces v0 v1 v2 v3))) (vertsSize (meshVerts (tetraFaces v0 v1 v2 v3))))
        (vd X (vertsSize (meshVerts (tetraFaces v0 v1 v2 v3)))))).countP (·.1) = 1 := by
  have hm0 : v0 ∈ meshVerts (tetraFaces v0 v1 v2 v3) := by simp [meshVerts, tetraFaces, triVerts]
  have hm1 : v1 ∈ meshVerts (tetraFaces v0 v1 v2 v3) := by simp [meshVerts, tetraFaces, triVerts]
  have hm2 : v2 ∈ meshVerts (tetraFaces v0 v1 v2 v3) := by simp [meshVerts, tetraFaces, triVerts]
  have hm3 : v3 ∈ meshVerts (tetraFaces v0 v1 v2 v3) := by simp [meshVerts, tetraFaces, triVerts]
  unfold RayGeneric at hgen
  simp only [meshSize] at hgen
  generalize hverts : meshVerts (tetraFaces v0 v1 v2 v3) = verts at *
  obtain ⟨l0x, l0y, l0z⟩ := vertsMin_le verts v0 hm0
  obtain ⟨l1x, l1y, l1z⟩ := vertsMin_le verts v1 hm1
  obtain ⟨l2x, l2y, l2z⟩ := vertsMin_le verts v2 hm2
  obtain ⟨l3x, l3y, l3z⟩ := vertsMin_le verts v3 hm3
  obtain ⟨u0x, u0y, u0z⟩ := le_vertsMax verts v0 hm0
  obtain ⟨u1x, u1y, u1z⟩ := le_vertsMax verts v1 hm1
  obtain ⟨u2x, u2y, u2z⟩ := le_vertsMax verts v2 hm2
  obtain ⟨u3x, u3y, u3z⟩ := le_vertsMax verts v3 hm3
  -- the mesh size is positive (otherwise all four vertices coincide and the determinant vanishes)
  have hsz : vertsSize verts = max (max ((vertsMax verts).x - (vertsMin verts).x) ((vertsMax verts).y - (vertsMin verts).y))
      ((vertsMax verts).z - (vertsMin verts).z) := by
    simp only [vertsSize, npMax_real]
  have hsize : 0 < vertsSize verts := by
    by_contra hneg
    rw [not_lt, hsz] at hneg
    have hxle := (le_max_left _ _).trans ((le_max_left _ _).trans hneg)
    have hyle := (le_max_right _ _).trans ((le_max_left _ _).trans hneg)
    have hzle := (le_max_right _ _).trans hneg
    have e1x : v1.x - v0.x = 0 := by linarith
    have e1y : v1.y - v0.y = 0 := by linarith
    have e1z : v1.z - v0.z = 0 := by linarith
    have : tdet v0 v1 v2 v3 = 0 := by
      simp [tdet, det3, e1x, e1y, e1z]
    linarith
  -- the observer lies in the bounding box
  have hsum := bary_sum v0 v1 v2 v3 X
  obtain ⟨cx, cy, cz⟩ := bary_combo v0 v1 v2 v3 X
  have bx := combo_bounds _ _ _ _ _ _ _ _ _ X.x (vertsMin verts).x (vertsMax verts).x hd hsum (hx 0).le (hx 1).le (hx 2).le
    (hx 3).le cx l0x l1x l2x l3x u0x u1x u2x u3x
  have by' := combo_bounds _ _ _ _ _ _ _ _ _ X.y (vertsMin verts).y (vertsMax verts).y hd hsum (hx 0).le (hx 1).le (hx 2).le
    (hx 3).le cy l0y l1y l2y l3y u0y u1y u2y u3y
  have bz := combo_bounds _ _ _ _ _ _ _ _ _ X.z (vertsMin verts).z (vertsMax verts).z hd hsum (hx 0).le (hx 1).le (hx 2).le
    (hx 3).le cz l0z l1z l2z l3z u0z u1z u2z u3z
  have hbox : insideBoxV verts X = true := by
    simp only [insideBoxV, pyMax_real, lt_real, n, ofNat_real, Nat.cast_one, Nat.cast_ofNat, Bool.and_eq_true,
      decide_eq_true_eq]
    rw [← hsz]
    have heps : 0 < (1 : ℝ) / 1000000000000 * vertsSize verts := by positivity
    refine ⟨⟨⟨?_, ?_⟩, ⟨?_, ?_⟩⟩, ⟨?_, ?_⟩⟩ <;> linarith [bx.1, bx.2, by'.1, by'.2, bz.1, bz.2]
  -- the start point lies below the box in x: it is no vertex, and one of its barycentric coordinates is negative
  have hSx : (startPointOutside verts).x < (vertsMin verts).x := by
    simp only [startPointOutside, n, ofNat_real]
    have : 0 < vertsSize verts * ((120012345 : ℕ) / (10000000 : ℕ) : ℝ) := by positivity
    linarith
  have hSneg : ∃ k, bary v0 v1 v2 v3 (startPointOutside verts) k < 0 := by
    by_contra hcon
    have hall : ∀ k, 0 ≤ bary v0 v1 v2 v3 (startPointOutside verts) k := fun k => not_lt.mp fun h => hcon ⟨k, h⟩
    obtain ⟨sx, -, -⟩ := bary_combo v0 v1 v2 v3 (startPointOutside verts)
    have := (combo_bounds _ _ _ _ _ _ _ _ _ (startPointOutside verts).x (vertsMin verts).x (vertsMax verts).x hd
      (bary_sum v0 v1 v2 v3 _) (hall 0) (hall 1) (hall 2) (hall 3) sx l0x l1x l2x l3x u0x u1x u2x u3x).1
    linarith
  -- assemble
  have hs3 : 0 < vertsSize verts ^ 3 := by positivity
  refine ⟨hbox, hsize, ?_⟩
  rw [tetraFaces_triDiv] at hgen ⊢
  apply crossCount_tetra_inside
  · rw [tdet_vd _ _ _ _ _ hsize.ne']; exact div_pos hd hs3
  · intro k; rw [bary_vd _ _ _ _ _ _ hsize.ne']; exact div_pos (hx k) hs3
  · obtain ⟨k, hk⟩ := hSneg
    exact ⟨k, by rw [bary_vd _ _ _ _ _ _ hsize.ne']; exact div_neg_of_neg_of_pos hk hs3⟩
  · exact ⟨vd_ne_of_x_lt _ _ _ hsize (by linarith), vd_ne_of_x_lt _ _ _ hsize (by linarith),
      vd_ne_of_x_lt _ _ _ hsize (by linarith)⟩
  · exact hgen

theorem maskInsideTrimesh_tetra_inside (v0 v1 v2 v3 X : V3 ℝ) (hd : 0 < tdet v0 v1 v2 v3)
    (hx : ∀ k, 0 < bary v0 v1 v2 v3 X k) (hgen : RayGeneric (tetraFaces v0 v1 v2 v3) X) :
    maskInsideTrimesh (tetraFaces v0 v1 v2 v3) X = true := by
  obtain ⟨hbox, hsize, hcnt⟩ := tetra_inside_count v0 v1 v2 v3 X hd hx hgen
  simp only [maskInsideTrimesh, hbox, if_true, linesEndInTrimesh, meshSize, lt_real, n, ofNat_real, Nat.cast_zero,
    hsize, decide_true, linesEndCore, hcnt]
  simp

/-- strictly positive barycentric numerators: `point_inside` of the Tetrahedron class says "inside" -/
theorem tetraInside_of_bary_pos (v0 v1 v2 v3 X : V3 ℝ) (hd : 0 < tdet v0 v1 v2 v3)
    (hx : ∀ k, 0 < bary v0 v1 v2 v3 X k) : tetraInside v0 v1 v2 v3 X = true := by
  have h0 := hx 0
  have h1 := hx 1
  have h2 := hx 2
  have h3 := hx 3
  simp only [bary, Matrix.cons_val_zero, Matrix.cons_val_one, Matrix.cons_val, tdet] at h0 h1 h2 h3
  simp only [tdet] at hd
  simp only [tetraInside, le_real, n, ofNat_real, Nat.cast_zero, Nat.cast_one, Bool.and_eq_true, decide_eq_true_eq]
  have e : ∀ a : ℝ, a / det3 (v1 - v0) (v2 - v0) (v3 - v0) ≤ 1 ↔ a ≤ det3 (v1 - v0) (v2 - v0) (v3 - v0) := by
    intro a; rw [div_le_one hd]
  refine ⟨⟨⟨⟨⟨⟨⟨?_, ?_⟩, ?_⟩, ?_⟩, ?_⟩, ?_⟩, ?_⟩, ?_⟩
  · simp [hd.ne']
  · exact (div_pos h1 hd).le
  · exact (div_pos h2 hd).le
  · exact (div_pos h3 hd).le
  · rw [e]; linarith
  · rw [e]; linarith
  · rw [e]; linarith
  · rw [← add_div, ← add_div, e]; linarith

theorem unitTetra_eq : unitTetra = tetraFaces (⟨0, 0, 0⟩ : V3 ℝ) ⟨1, 0, 0⟩ ⟨0, 1, 0⟩ ⟨0, 0, 1⟩ := rfl

/-- the test ray to (1/4, 1/4, 1/4) of the unit tetrahedron stays clear of all edges -/
theorem unitTetra_quarter_generic : RayGeneric unitTetra ⟨1 / 4, 1 / 4, 1 / 4⟩ := by
  have hs : meshSize unitTetra = 1 := ut_size
  have hm : unitTetra.map (triDiv 1) = unitTetra :=
    (List.map_congr_left fun f _ => triDiv_one f).trans (List.map_id _)
  intro f hf
  rw [hs, hm] at hf
  rw [hs, vd_one, vd_one, ut_start]
  simp only [unitTetra, List.mem_cons, List.not_mem_nil, or_false] at hf
  rcases hf with rfl | rfl | rfl | rfl <;>
    (simp only [rayNearEdge, lt_real, abs_real, n, ofNat_real, vDotCross3d, V3.sub_x, V3.sub_y, V3.sub_z]; norm_num)

end MagpyVerif.Kern
