/-
Lemmas/RectCharge.lean — the Coulomb field of a uniformly charged rectangle, in closed form.

Setting: a rectangle in a plane, unit surface charge; the observer sits at normal distance `z ≠ 0`
from the plane; `x`, `y` are the in-plane offsets observer − source point, running over
`[x₁,x₂] × [y₁,y₂]`; `r = √(x²+y²+z²)`.  The three field components are the double integrals of
`z/r³` (normal) and `x/r³`, `y/r³` (tangential).  All are obtained by two applications of the
one-variable fundamental theorem of calculus (`intervalIntegral.integral_eq_sub_of_hasDerivAt`):

  normal      ∫∫ z/r³  = Δ arctan(x y / (z r))
  tangential  ∫∫ x/r³  = Δ log(r − y) = Δ (−log(y + r))

where `Δ F = F(x₂,y₂) − F(x₂,y₁) − F(x₁,y₂) + F(x₁,y₁)` (`d2`).  Both orders of integration are
covered for each (the tangential one has a different inner primitive in the two orders), so no
Fubini theorem is needed.  No hypothesis on the order of the limits.
-/
import Mathlib.Analysis.SpecialFunctions.Integrals.Basic
import Mathlib.Analysis.SpecialFunctions.Sqrt
import Mathlib.Analysis.SpecialFunctions.Trigonometric.ArctanDeriv
import Mathlib.Analysis.SpecialFunctions.Log.Deriv
import Mathlib.Tactic

namespace MagpyVerif.RectCharge
open Real intervalIntegral

/-- distance `√(x²+y²+z²)` -/
noncomputable def rr (x y z : ℝ) : ℝ := Real.sqrt (x ^ 2 + y ^ 2 + z ^ 2)

/-- mixed second difference over the corners of `[x₁,x₂] × [y₁,y₂]` -/
def d2 (F : ℝ → ℝ → ℝ) (x1 x2 y1 y2 : ℝ) : ℝ := F x2 y2 - F x2 y1 - F x1 y2 + F x1 y1

theorem rr_comm (x y z : ℝ) : rr x y z = rr y x z := by
  unfold rr; rw [add_comm (x ^ 2)]

theorem ssq_pos {z : ℝ} (hz : z ≠ 0) (x y : ℝ) : 0 < x ^ 2 + y ^ 2 + z ^ 2 := by positivity

theorem rr_pos {z : ℝ} (hz : z ≠ 0) (x y : ℝ) : 0 < rr x y z := Real.sqrt_pos.mpr (ssq_pos hz x y)

theorem rr_sq (x y z : ℝ) : rr x y z ^ 2 = x ^ 2 + y ^ 2 + z ^ 2 := Real.sq_sqrt (by positivity)

theorem abs_lt_rr_y {z : ℝ} (hz : z ≠ 0) (x y : ℝ) : |y| < rr x y z := by
  have h := rr_pos hz x y
  have h2 := rr_sq x y z
  have hz2 : 0 < z ^ 2 := by positivity
  apply abs_lt_of_sq_lt_sq _ h.le
  nlinarith [sq_nonneg x]

theorem rr_sub_pos {z : ℝ} (hz : z ≠ 0) (x y : ℝ) : 0 < rr x y z - y := by
  have := abs_lt_rr_y hz x y
  have := le_abs_self y
  linarith

theorem rr_add_pos {z : ℝ} (hz : z ≠ 0) (x y : ℝ) : 0 < y + rr x y z := by
  have := abs_lt_rr_y hz x y
  have := neg_abs_le y
  linarith

theorem continuous_rr_x (y z : ℝ) : Continuous fun x => rr x y z := by unfold rr; fun_prop
theorem continuous_rr_y (x z : ℝ) : Continuous fun y => rr x y z := by unfold rr; fun_prop

/-! ### derivatives -/

theorem hasDerivAt_rr_x {z : ℝ} (hz : z ≠ 0) (x y : ℝ) :
    HasDerivAt (fun x => rr x y z) (x / rr x y z) x := by
  have hpos := ssq_pos hz x y
  have h1 : HasDerivAt (fun x : ℝ => x ^ 2 + y ^ 2 + z ^ 2) (2 * x) x := by
    simpa using (((hasDerivAt_pow 2 x).add_const (y ^ 2)).add_const (z ^ 2))
  have h2 := h1.sqrt hpos.ne'
  refine h2.congr_deriv ?_
  unfold rr
  have : Real.sqrt (x ^ 2 + y ^ 2 + z ^ 2) ≠ 0 := (Real.sqrt_pos.mpr hpos).ne'
  field_simp

theorem hasDerivAt_rr_y {z : ℝ} (hz : z ≠ 0) (x y : ℝ) :
    HasDerivAt (fun y => rr x y z) (y / rr x y z) y := by
  have h := hasDerivAt_rr_x hz y x
  rw [rr_comm y x z] at h
  exact h.congr_of_eventuallyEq (Filter.Eventually.of_forall fun t => rr_comm x t z)

/-- primitive in `x` of `1/r³` -/
theorem hasDerivAt_inner_one {z : ℝ} (hz : z ≠ 0) (x y : ℝ) :
    HasDerivAt (fun x => x / ((y ^ 2 + z ^ 2) * rr x y z)) (1 / rr x y z ^ 3) x := by
  have hr := rr_pos hz x y
  have hr2 := rr_sq x y z
  have hD : 0 < y ^ 2 + z ^ 2 := by positivity
  have h := (hasDerivAt_id' x).div ((hasDerivAt_rr_x hz x y).const_mul (y ^ 2 + z ^ 2))
    (mul_pos hD hr).ne'
  refine h.congr_deriv ?_
  set r := rr x y z
  have hD' : y ^ 2 + z ^ 2 = r ^ 2 - x ^ 2 := by linarith
  rw [hD'] at hD ⊢
  have hne : r ^ 2 - x ^ 2 ≠ 0 := hD.ne'
  field_simp

/-- primitive in `x` of `x/r³` -/
theorem hasDerivAt_inner_x {z : ℝ} (hz : z ≠ 0) (x y : ℝ) :
    HasDerivAt (fun x => -(1 / rr x y z)) (x / rr x y z ^ 3) x := by
  have hr := rr_pos hz x y
  have h := ((hasDerivAt_rr_x hz x y).inv hr.ne').neg
  simp only [one_div]
  refine h.congr_deriv ?_
  set r := rr x y z
  field_simp

/-- primitive in `y` of `x z / ((y²+z²) r)`: the solid-angle arctan -/
theorem hasDerivAt_arctan_corner {z : ℝ} (hz : z ≠ 0) (x y : ℝ) :
    HasDerivAt (fun y => Real.arctan (x * y / (z * rr x y z)))
      (x * z / ((y ^ 2 + z ^ 2) * rr x y z)) y := by
  have hr := rr_pos hz x y
  have hr2 := rr_sq x y z
  have hD : 0 < y ^ 2 + z ^ 2 := by positivity
  have hu : HasDerivAt (fun y => x * y / (z * rr x y z)) _ y :=
    ((hasDerivAt_id' y).const_mul x).div ((hasDerivAt_rr_y hz x y).const_mul z)
    (mul_ne_zero hz hr.ne')
  have h := hu.arctan
  refine h.congr_deriv ?_
  set r := rr x y z
  have h1 : 1 + (x * y / (z * r)) ^ 2 = (r ^ 2 - y ^ 2) * (y ^ 2 + z ^ 2) / (z ^ 2 * r ^ 2) := by
    field_simp
    rw [hr2]; ring
  have hx : 0 < r ^ 2 - y ^ 2 := by rw [hr2]; nlinarith [sq_nonneg x, sq_pos_of_ne_zero hz]
  rw [h1]
  have hne : r ^ 2 - y ^ 2 ≠ 0 := hx.ne'
  field_simp

/-- primitive in `y` of `1/r`, minus form -/
theorem hasDerivAt_log_sub {z : ℝ} (hz : z ≠ 0) (x y : ℝ) :
    HasDerivAt (fun y => Real.log (rr x y z - y)) (-(1 / rr x y z)) y := by
  have hr := rr_pos hz x y
  have hs := rr_sub_pos hz x y
  have h0 : HasDerivAt (fun y => rr x y z - y) _ y := (hasDerivAt_rr_y hz x y).sub (hasDerivAt_id' y)
  have h := h0.log hs.ne'
  refine h.congr_deriv ?_
  set r := rr x y z
  field_simp
  ring

/-- primitive in `y` of `1/r`, plus form (arsinh) -/
theorem hasDerivAt_log_add {z : ℝ} (hz : z ≠ 0) (x y : ℝ) :
    HasDerivAt (fun y => Real.log (y + rr x y z)) (1 / rr x y z) y := by
  have hr := rr_pos hz x y
  have hs := rr_add_pos hz x y
  have h0 : HasDerivAt (fun y => y + rr x y z) _ y := (hasDerivAt_id' y).add (hasDerivAt_rr_y hz x y)
  have h := h0.log hs.ne'
  refine h.congr_deriv ?_
  set r := rr x y z
  field_simp
  ring

/-- primitive in `x` of `x y / ((x²+z²) r)` (the inner `y`-integral of `x/r³`) -/
theorem hasDerivAt_log_outer {z : ℝ} (hz : z ≠ 0) (x y : ℝ) :
    HasDerivAt (fun x => Real.log (rr x y z - y) - 1 / 2 * Real.log (x ^ 2 + z ^ 2))
      (x * y / ((x ^ 2 + z ^ 2) * rr x y z)) x := by
  have hr := rr_pos hz x y
  have hr2 := rr_sq x y z
  have hs := rr_sub_pos hz x y
  have hD : 0 < x ^ 2 + z ^ 2 := by positivity
  have h0 : HasDerivAt (fun x => rr x y z - y) _ x := (hasDerivAt_rr_x hz x y).sub_const y
  have h1 : HasDerivAt (fun x : ℝ => x ^ 2 + z ^ 2) (2 * x) x := by
    simpa using ((hasDerivAt_pow 2 x).add_const (z ^ 2))
  have h := (h0.log hs.ne').sub ((h1.log hD.ne').const_mul (1 / 2))
  refine h.congr_deriv ?_
  set r := rr x y z
  have hD' : x ^ 2 + z ^ 2 = (r - y) * (r + y) := by linarith [hr2]
  have hp : 0 < r + y := by have := rr_add_pos hz x y; linarith
  rw [hD']
  have hne1 : r - y ≠ 0 := hs.ne'
  have hne2 : r + y ≠ 0 := hp.ne'
  field_simp
  ring

/-! ### one-variable integrals -/

theorem integral_inner_one {z : ℝ} (hz : z ≠ 0) (y x1 x2 : ℝ) :
    ∫ x in x1..x2, 1 / rr x y z ^ 3 =
      x2 / ((y ^ 2 + z ^ 2) * rr x2 y z) - x1 / ((y ^ 2 + z ^ 2) * rr x1 y z) := by
  apply integral_eq_sub_of_hasDerivAt (fun x _ => hasDerivAt_inner_one hz x y)
  apply Continuous.intervalIntegrable
  exact continuous_const.div ((continuous_rr_x y z).pow 3) fun x => (pow_pos (rr_pos hz x y) 3).ne'

theorem integral_inner_x {z : ℝ} (hz : z ≠ 0) (y x1 x2 : ℝ) :
    ∫ x in x1..x2, x / rr x y z ^ 3 = -(1 / rr x2 y z) - -(1 / rr x1 y z) := by
  apply integral_eq_sub_of_hasDerivAt (fun x _ => hasDerivAt_inner_x hz x y)
  apply Continuous.intervalIntegrable
  exact continuous_id.div ((continuous_rr_x y z).pow 3) fun x => (pow_pos (rr_pos hz x y) 3).ne'

/-- the same two with the roles of the in-plane variables exchanged -/
theorem integral_inner_one_y {z : ℝ} (hz : z ≠ 0) (x y1 y2 : ℝ) :
    ∫ y in y1..y2, 1 / rr x y z ^ 3 =
      y2 / ((x ^ 2 + z ^ 2) * rr x y2 z) - y1 / ((x ^ 2 + z ^ 2) * rr x y1 z) := by
  simp_rw [rr_comm x _ z]
  exact integral_inner_one hz x y1 y2

theorem integral_inner_y {z : ℝ} (hz : z ≠ 0) (x y1 y2 : ℝ) :
    ∫ y in y1..y2, y / rr x y z ^ 3 = -(1 / rr x y2 z) - -(1 / rr x y1 z) := by
  simp_rw [rr_comm x _ z]
  exact integral_inner_x hz x y1 y2

theorem integral_arctan_corner {z : ℝ} (hz : z ≠ 0) (x y1 y2 : ℝ) :
    ∫ y in y1..y2, x * z / ((y ^ 2 + z ^ 2) * rr x y z) =
      Real.arctan (x * y2 / (z * rr x y2 z)) - Real.arctan (x * y1 / (z * rr x y1 z)) := by
  apply integral_eq_sub_of_hasDerivAt (fun y _ => hasDerivAt_arctan_corner hz x y)
  apply Continuous.intervalIntegrable
  refine continuous_const.div ((by fun_prop : Continuous fun y : ℝ => y ^ 2 + z ^ 2).mul (continuous_rr_y x z)) fun y => ?_
  have : 0 < y ^ 2 + z ^ 2 := by positivity
  exact (mul_pos this (rr_pos hz x y)).ne'

theorem integral_inv_rr_sub {z : ℝ} (hz : z ≠ 0) (x y1 y2 : ℝ) :
    ∫ y in y1..y2, -(1 / rr x y z) = Real.log (rr x y2 z - y2) - Real.log (rr x y1 z - y1) := by
  apply integral_eq_sub_of_hasDerivAt (fun y _ => hasDerivAt_log_sub hz x y)
  apply Continuous.intervalIntegrable
  exact (continuous_const.div (continuous_rr_y x z) fun y => (rr_pos hz x y).ne').neg

theorem integral_inv_rr_add {z : ℝ} (hz : z ≠ 0) (x y1 y2 : ℝ) :
    ∫ y in y1..y2, 1 / rr x y z = Real.log (y2 + rr x y2 z) - Real.log (y1 + rr x y1 z) := by
  apply integral_eq_sub_of_hasDerivAt (fun y _ => hasDerivAt_log_add hz x y)
  apply Continuous.intervalIntegrable
  exact continuous_const.div (continuous_rr_y x z) fun y => (rr_pos hz x y).ne'

theorem integral_log_outer {z : ℝ} (hz : z ≠ 0) (y x1 x2 : ℝ) :
    ∫ x in x1..x2, x * y / ((x ^ 2 + z ^ 2) * rr x y z) =
      (Real.log (rr x2 y z - y) - 1 / 2 * Real.log (x2 ^ 2 + z ^ 2)) -
      (Real.log (rr x1 y z - y) - 1 / 2 * Real.log (x1 ^ 2 + z ^ 2)) := by
  apply integral_eq_sub_of_hasDerivAt (fun x _ => hasDerivAt_log_outer hz x y)
  apply Continuous.intervalIntegrable
  refine (by fun_prop : Continuous fun x : ℝ => x * y).div
    ((by fun_prop : Continuous fun x : ℝ => x ^ 2 + z ^ 2).mul (continuous_rr_x y z)) fun x => ?_
  have : 0 < x ^ 2 + z ^ 2 := by positivity
  exact (mul_pos this (rr_pos hz x y)).ne'

/-! ### the corner functions -/

/-- solid-angle term: the corner function of the normal component -/
noncomputable def FN (z x y : ℝ) : ℝ := Real.arctan (x * y / (z * rr x y z))
/-- corner function of the tangential (`x`) component, minus form `log(r − y)` -/
noncomputable def FLm (z x y : ℝ) : ℝ := Real.log (rr x y z - y)
/-- corner function of the tangential (`x`) component, plus form `−log(y + r)` -/
noncomputable def FLp (z x y : ℝ) : ℝ := -Real.log (y + rr x y z)

theorem FN_comm (z x y : ℝ) : FN z x y = FN z y x := by
  unfold FN; rw [rr_comm x y z, mul_comm x y]

theorem FLm_eq_FLp {z : ℝ} (hz : z ≠ 0) (x y : ℝ) :
    FLm z x y = FLp z x y + Real.log (x ^ 2 + z ^ 2) := by
  unfold FLm FLp
  have h1 := rr_sub_pos hz x y
  have h2 := rr_add_pos hz x y
  have h3 : x ^ 2 + z ^ 2 = (rr x y z - y) * (y + rr x y z) := by linarith [rr_sq x y z]
  rw [h3, Real.log_mul h1.ne' h2.ne']
  ring

theorem d2_FLm_eq_FLp {z : ℝ} (hz : z ≠ 0) (x1 x2 y1 y2 : ℝ) :
    d2 (FLm z) x1 x2 y1 y2 = d2 (FLp z) x1 x2 y1 y2 := by
  simp only [d2, FLm_eq_FLp hz]
  ring

/-! ### the double integrals -/

/-- **normal component**, inner integral over `x` -/
theorem rect_normal {z : ℝ} (hz : z ≠ 0) (x1 x2 y1 y2 : ℝ) :
    ∫ y in y1..y2, ∫ x in x1..x2, z / rr x y z ^ 3 = d2 (FN z) x1 x2 y1 y2 := by
  have hin : ∀ y : ℝ, ∫ x in x1..x2, z / rr x y z ^ 3 =
      x2 * z / ((y ^ 2 + z ^ 2) * rr x2 y z) - x1 * z / ((y ^ 2 + z ^ 2) * rr x1 y z) := by
    intro y
    have : ∀ x : ℝ, z / rr x y z ^ 3 = z * (1 / rr x y z ^ 3) := fun x => by ring
    simp_rw [this]
    rw [intervalIntegral.integral_const_mul, integral_inner_one hz]
    ring
  simp_rw [hin]
  have hc : ∀ x : ℝ, IntervalIntegrable (fun y => x * z / ((y ^ 2 + z ^ 2) * rr x y z)) MeasureTheory.volume y1 y2 := by
    intro x
    apply Continuous.intervalIntegrable
    refine continuous_const.div ((by fun_prop : Continuous fun y : ℝ => y ^ 2 + z ^ 2).mul (continuous_rr_y x z)) fun y => ?_
    have : 0 < y ^ 2 + z ^ 2 := by positivity
    exact (mul_pos this (rr_pos hz x y)).ne'
  rw [intervalIntegral.integral_sub (hc x2) (hc x1), integral_arctan_corner hz, integral_arctan_corner hz]
  simp only [d2, FN]
  ring

/-- **normal component**, inner integral over `y` -/
theorem rect_normal' {z : ℝ} (hz : z ≠ 0) (x1 x2 y1 y2 : ℝ) :
    ∫ x in x1..x2, ∫ y in y1..y2, z / rr x y z ^ 3 = d2 (FN z) x1 x2 y1 y2 := by
  have h : (fun x => ∫ y in y1..y2, z / rr x y z ^ 3) = fun x => ∫ y in y1..y2, z / rr y x z ^ 3 := by
    funext x
    exact intervalIntegral.integral_congr fun y _ => by simp only [rr_comm x y z]
  rw [h, rect_normal hz y1 y2 x1 x2]
  unfold d2
  rw [FN_comm z y2 x2, FN_comm z y1 x2, FN_comm z y2 x1, FN_comm z y1 x1]
  ring

/-- **tangential component**, the numerator variable is the inner one -/
theorem rect_tangential {z : ℝ} (hz : z ≠ 0) (x1 x2 y1 y2 : ℝ) :
    ∫ y in y1..y2, ∫ x in x1..x2, x / rr x y z ^ 3 = d2 (FLm z) x1 x2 y1 y2 := by
  simp_rw [integral_inner_x hz]
  have hc : ∀ x : ℝ, IntervalIntegrable (fun y => -(1 / rr x y z)) MeasureTheory.volume y1 y2 := fun x =>
    ((continuous_const.div (continuous_rr_y x z) fun y => (rr_pos hz x y).ne').neg).intervalIntegrable _ _
  rw [intervalIntegral.integral_sub (hc x2) (hc x1), integral_inv_rr_sub hz, integral_inv_rr_sub hz]
  simp only [d2, FLm]
  ring

/-- **tangential component**, the numerator variable is the outer one -/
theorem rect_tangential' {z : ℝ} (hz : z ≠ 0) (x1 x2 y1 y2 : ℝ) :
    ∫ x in x1..x2, ∫ y in y1..y2, x / rr x y z ^ 3 = d2 (FLm z) x1 x2 y1 y2 := by
  have hin : ∀ x : ℝ, ∫ y in y1..y2, x / rr x y z ^ 3 =
      x * y2 / ((x ^ 2 + z ^ 2) * rr x y2 z) - x * y1 / ((x ^ 2 + z ^ 2) * rr x y1 z) := by
    intro x
    have : ∀ y : ℝ, x / rr x y z ^ 3 = x * (1 / rr x y z ^ 3) := fun y => by ring
    simp_rw [this]
    rw [intervalIntegral.integral_const_mul, integral_inner_one_y hz]
    ring
  simp_rw [hin]
  have hc : ∀ y : ℝ, IntervalIntegrable (fun x => x * y / ((x ^ 2 + z ^ 2) * rr x y z)) MeasureTheory.volume x1 x2 := by
    intro y
    apply Continuous.intervalIntegrable
    refine (by fun_prop : Continuous fun x : ℝ => x * y).div
      ((by fun_prop : Continuous fun x : ℝ => x ^ 2 + z ^ 2).mul (continuous_rr_x y z)) fun x => ?_
    have : 0 < x ^ 2 + z ^ 2 := by positivity
    exact (mul_pos this (rr_pos hz x y)).ne'
  rw [intervalIntegral.integral_sub (hc y2) (hc y1), integral_log_outer hz, integral_log_outer hz]
  simp only [d2, FLm]
  ring

/-- corner function of the tangential (`y`) component, minus form `log(r − x)` -/
noncomputable def FLm' (z x y : ℝ) : ℝ := Real.log (rr x y z - x)
/-- corner function of the tangential (`y`) component, plus form `−log(x + r)` -/
noncomputable def FLp' (z x y : ℝ) : ℝ := -Real.log (x + rr x y z)

theorem d2_transpose (F : ℝ → ℝ → ℝ) (x1 x2 y1 y2 : ℝ) :
    d2 (fun y x => F x y) y1 y2 x1 x2 = d2 F x1 x2 y1 y2 := by
  unfold d2; ring

theorem d2_FLm'_eq_FLp' {z : ℝ} (hz : z ≠ 0) (x1 x2 y1 y2 : ℝ) :
    d2 (FLm' z) x1 x2 y1 y2 = d2 (FLp' z) x1 x2 y1 y2 := by
  have h := d2_FLm_eq_FLp hz y1 y2 x1 x2
  simp only [d2, FLm, FLp, FLm', FLp'] at h ⊢
  simp only [rr_comm _ x1 z, rr_comm _ x2 z] at h
  linarith

/-- **tangential (`y`) component**, the numerator variable is the inner one -/
theorem rect_tangential_y {z : ℝ} (hz : z ≠ 0) (x1 x2 y1 y2 : ℝ) :
    ∫ x in x1..x2, ∫ y in y1..y2, y / rr x y z ^ 3 = d2 (FLm' z) x1 x2 y1 y2 := by
  have h : (fun x => ∫ y in y1..y2, y / rr x y z ^ 3) = fun x => ∫ y in y1..y2, y / rr y x z ^ 3 := by
    funext x
    exact intervalIntegral.integral_congr fun y _ => by simp only [rr_comm x y z]
  rw [h, rect_tangential hz y1 y2 x1 x2]
  simp only [d2, FLm, FLm']
  rw [rr_comm y2 x2 z, rr_comm y1 x2 z, rr_comm y2 x1 z, rr_comm y1 x1 z]
  ring

end MagpyVerif.RectCharge
