/-
Lemmas/StyleCopy.lean — helper lemmas about copies in the style state machine (Model/StyleCopy.lean): world growth,
the frame of `stepC`, locality of an operation (its effect on its target depends on the target alone), the simulation
relation between histories that differ in operations on OTHER objects, `step` on a world with an object appended.
-/
import MagpyVerif.Model.StyleCopy
import MagpyVerif.Lemmas.StyleState

namespace MagpyVerif.StyleCopy
open MagpyVerif.StyleNested MagpyVerif.StyleState

/-! ### operations that never change the world; world length -/

theorem step_setStyleObj_world (T : Tables) (Cs : List ClassInfo) (D : Tree) (w : World) (i j : Nat) :
    (step T Cs D w (.setStyleObj i j)).1 = w := by
  simp only [step]
  split
  · rfl
  · split
    · split
      · split <;> rfl
      · rfl
    · rfl

theorem step_read_world (T : Tables) (Cs : List ClassInfo) (D : Tree) (w : World) (i : Nat) (p : List Key) :
    (step T Cs D w (.read i p)).1 = w := by
  simp only [step]
  split
  · rfl
  · split
    · rfl
    · split <;> rfl

theorem onObj_length (Cs : List ClassInfo) (w : World) (i : Nat)
    (f : List (Key × Schema) → List Str → Dict → Dict × Except Kind Unit) : (onObj Cs w i f).1.length = w.length := by
  unfold onObj
  cases w[i]? with
  | none => rfl
  | some o =>
    simp only []
    cases Cs[o.cls]? with
    | none => rfl
    | some c => simp only []; exact setTree_length w i _

/-- no operation of Model/StyleState creates or deletes an object -/
theorem step_length (T : Tables) (Cs : List ClassInfo) (D : Tree) (w : World) (op : Op) :
    (step T Cs D w op).1.length = w.length := by
  cases op with
  | update i path arg kwargs mt rno => exact onObj_length Cs w i _
  | setattr i path name val => exact onObj_length Cs w i _
  | reset => exact onObj_length Cs w 0 _
  | resetStyle => exact onObj_length Cs w 0 _
  | setStyle i val =>
    simp only [step]
    split
    · rfl
    · cases val with
      | leaf v =>
        cases v with
        | none => exact onObj_length Cs w i _
        | some n => rfl
      | node kv => exact onObj_length Cs w i _
  | setStyleObj i j => rw [step_setStyleObj_world]
  | read i p => rw [step_read_world]

theorem exec_length (T : Tables) (Cs : List ClassInfo) (D : Tree) : ∀ (ops : List Op) (w : World),
    (exec T Cs D w ops).length = w.length := by
  intro ops
  induction ops with
  | nil => intro w; rfl
  | cons op t ih => intro w; rw [exec_cons, ih, step_length]

/-- copies only append: the world never shrinks -/
theorem stepC_length_le (T : Tables) (Cs : List ClassInfo) (D : Tree) (w : World) (op : OpC) :
    w.length ≤ (stepC T Cs D w op).1.length := by
  cases op with
  | base o => exact Nat.le_of_eq (step_length T Cs D w o).symm
  | copy i lab =>
    simp only [stepC]
    cases copyObj T Cs w i lab with
    | error e => exact Nat.le_refl _
    | ok o => simp
  | copyKw i lab arg kwargs =>
    simp only [stepC]
    cases copyObj T Cs w i lab with
    | error e => exact Nat.le_refl _
    | ok o =>
      simp only []
      split
      · simp only []
        rw [step_length]
        simp
      · exact Nat.le_refl _
  | styleCopy i =>
    simp only [stepC]
    cases w[i]? with
    | none => exact Nat.le_refl _
    | some o => simp

/-! ### histories -/

theorem execC_nil (T : Tables) (Cs : List ClassInfo) (D : Tree) (w : World) : execC T Cs D w [] = w := rfl

theorem execC_cons (T : Tables) (Cs : List ClassInfo) (D : Tree) (w : World) (op : OpC) (ops : List OpC) :
    execC T Cs D w (op :: ops) = execC T Cs D (stepC T Cs D w op).1 ops := rfl

theorem execC_append (T : Tables) (Cs : List ClassInfo) (D : Tree) : ∀ (a b : List OpC) (w : World),
    execC T Cs D w (a ++ b) = execC T Cs D (execC T Cs D w a) b := by
  intro a
  induction a with
  | nil => intro b w; rfl
  | cons op t ih => intro b w; simp only [List.cons_append, execC_cons]; exact ih b _

/-- a history of base operations run by the wrapped machine is the history run by Model/StyleState -/
theorem execC_base (T : Tables) (Cs : List ClassInfo) (D : Tree) : ∀ (ops : List Op) (w : World),
    execC T Cs D w (ops.map .base) = exec T Cs D w ops := by
  intro ops
  induction ops with
  | nil => intro w; rfl
  | cons op t ih => intro w; rw [List.map_cons, execC_cons, exec_cons]; exact ih _

theorem execC_length_le (T : Tables) (Cs : List ClassInfo) (D : Tree) : ∀ (ops : List OpC) (w : World),
    w.length ≤ (execC T Cs D w ops).length := by
  intro ops
  induction ops with
  | nil => intro w; exact Nat.le_refl _
  | cons op t ih => intro w; rw [execC_cons]; exact Nat.le_trans (stepC_length_le T Cs D w op) (ih _)

/-! ### frame -/

/-- **frame of `stepC`**: an operation changes no existing object but the one it writes to; a copy changes none -/
theorem stepC_frame (T : Tables) (Cs : List ClassInfo) (D : Tree) (w : World) (op : OpC) (j : Nat) (hj : j < w.length)
    (h : op.touches ≠ some j) : (stepC T Cs D w op).1[j]? = w[j]? := by
  cases op with
  | base o => exact step_frame T Cs D w o j (fun e => h (by rw [OpC.touches, e]))
  | copy i lab =>
    simp only [stepC]
    cases copyObj T Cs w i lab with
    | error e => rfl
    | ok o => exact List.getElem?_append_left hj
  | copyKw i lab arg kwargs =>
    simp only [stepC]
    cases copyObj T Cs w i lab with
    | error e => rfl
    | ok o =>
      simp only []
      split
      · simp only []
        rw [step_frame T Cs D (w ++ [o]) (.update w.length [] arg kwargs true false) j (Nat.ne_of_lt hj)]
        exact List.getElem?_append_left hj
      · rfl
  | styleCopy i =>
    simp only [stepC]
    cases w[i]? with
    | none => rfl
    | some o => exact List.getElem?_append_left hj

theorem execC_frame (T : Tables) (Cs : List ClassInfo) (D : Tree) : ∀ (ops : List OpC) (w : World) (j : Nat), j < w.length →
    (∀ op ∈ ops, op.touches ≠ some j) → (execC T Cs D w ops)[j]? = w[j]? := by
  intro ops
  induction ops with
  | nil => intro w j _ _; rfl
  | cons op t ih =>
    intro w j hj h
    rw [execC_cons, ih _ j (Nat.lt_of_lt_of_le hj (stepC_length_le T Cs D w op)) (fun o ho => h o (List.mem_cons_of_mem _ ho))]
    exact stepC_frame T Cs D w op j hj (h op (List.mem_cons_self ..))

/-! ### locality: what an operation does to its target depends on the target alone -/

theorem onObj_getElem?_self (Cs : List ClassInfo) (w : World) (i : Nat)
    (f : List (Key × Schema) → List Str → Dict → Dict × Except Kind Unit) :
    (onObj Cs w i f).1[i]? =
      match w[i]? with
      | none => none
      | some o =>
        match Cs[o.cls]? with
        | none => some o
        | some c => some { o with tree := (f c.schema.props c.schema.others o.tree).1 } := by
  unfold onObj
  cases hw : w[i]? with
  | none => simp only []; exact hw
  | some o =>
    simp only []
    cases hc : Cs[o.cls]? with
    | none => simp only []; exact hw
    | some c => simp only []; exact setTree_getElem?_self w i _ o hw

theorem onObj_local (Cs : List ClassInfo) (w w' : World) (i : Nat)
    (f : List (Key × Schema) → List Str → Dict → Dict × Except Kind Unit) (h : w[i]? = w'[i]?) :
    (onObj Cs w i f).1[i]? = (onObj Cs w' i f).1[i]? := by
  rw [onObj_getElem?_self, onObj_getElem?_self, h]

/-- two worlds that agree on object `j`: an operation on `j` gives the same object `j` in both — nothing else of the
world is read (`setStyleObj` reads the class of another object, and then changes nothing) -/
theorem step_local (T : Tables) (Cs : List ClassInfo) (D : Tree) (w w' : World) (op : Op) (j : Nat) (ht : op.target = j)
    (h : w[j]? = w'[j]?) : (step T Cs D w op).1[j]? = (step T Cs D w' op).1[j]? := by
  cases op with
  | update i path arg kwargs mt rno =>
    have hi : i = j := ht
    subst hi
    exact onObj_local Cs w w' i _ h
  | setattr i path name val =>
    have hi : i = j := ht
    subst hi
    exact onObj_local Cs w w' i _ h
  | reset =>
    have hi : 0 = j := ht
    subst hi
    exact onObj_local Cs w w' 0 _ h
  | resetStyle =>
    have hi : 0 = j := ht
    subst hi
    exact onObj_local Cs w w' 0 _ h
  | setStyle i val =>
    have hi : i = j := ht
    subst hi
    simp only [step]
    split
    · exact h
    · cases val with
      | leaf v =>
        cases v with
        | none => exact onObj_local Cs w w' i _ h
        | some n => exact h
      | node kv => exact onObj_local Cs w w' i _ h
  | setStyleObj i k => rw [step_setStyleObj_world, step_setStyleObj_world]; exact h
  | read i p => rw [step_read_world, step_read_world]; exact h

theorem stepC_local (T : Tables) (Cs : List ClassInfo) (D : Tree) (w w' : World) (op : OpC) (j : Nat)
    (ht : op.touches = some j) (h : w[j]? = w'[j]?) : (stepC T Cs D w op).1[j]? = (stepC T Cs D w' op).1[j]? := by
  cases op with
  | base o =>
    have : o.target = j := by simpa [OpC.touches] using ht
    exact step_local T Cs D w w' o j this h
  | copy i lab => cases ht
  | copyKw i lab arg kwargs => cases ht
  | styleCopy i => cases ht

/-! ### histories that differ in operations on other objects -/

/-- two histories that agree on the operations on object `j`: they are obtained from one another by erasing / inserting
operations that do not write to `j` — base operations on other objects (in particular: on a copy of `j`, on the original
`j` was copied from, on `magpylib.defaults`) and copies of any object (also of `j` itself) -/
inductive Sim (j : Nat) : List OpC → List OpC → Prop where
  | nil : Sim j [] []
  | keep (op : OpC) {a b : List OpC} : Sim j a b → Sim j (op :: a) (op :: b)
  | dropL (op : OpC) {a b : List OpC} : op.touches ≠ some j → Sim j a b → Sim j (op :: a) b
  | dropR (op : OpC) {a b : List OpC} : op.touches ≠ some j → Sim j a b → Sim j a (op :: b)

theorem Sim.refl (j : Nat) : ∀ (a : List OpC), Sim j a a
  | [] => .nil
  | op :: t => .keep op (Sim.refl j t)

/-- erasing every operation that does not write to `j` -/
theorem Sim.filter (j : Nat) : ∀ (a : List OpC), Sim j a (a.filter (fun o => o.touches == some j))
  | [] => .nil
  | op :: t => by
    by_cases h : op.touches = some j
    · have : (op.touches == some j) = true := by rw [h]; exact beq_self_eq_true _
      simp only [List.filter_cons, this, if_true]
      exact .keep op (Sim.filter j t)
    · have : (op.touches == some j) = false := by
        cases hb : (op.touches == some j) with
        | false => rfl
        | true => exact absurd (eq_of_beq hb) h
      simp only [List.filter_cons, this, Bool.false_eq_true, if_false]
      exact .dropL op h (Sim.filter j t)

/-- **simulation**: histories that agree on the operations on `j`, run from worlds that agree on object `j`, end in
worlds that agree on object `j` (the worlds may differ in every other object and in their number of objects) -/
theorem execC_sim (T : Tables) (Cs : List ClassInfo) (D : Tree) (j : Nat) {a b : List OpC} (hs : Sim j a b) :
    ∀ (w w' : World), j < w.length → j < w'.length → w[j]? = w'[j]? →
      (execC T Cs D w a)[j]? = (execC T Cs D w' b)[j]? := by
  induction hs with
  | nil => intro w w' _ _ h; exact h
  | keep op _ ih =>
    intro w w' hj hj' h
    rw [execC_cons, execC_cons]
    refine ih _ _ (Nat.lt_of_lt_of_le hj (stepC_length_le T Cs D w op)) (Nat.lt_of_lt_of_le hj' (stepC_length_le T Cs D w' op)) ?_
    by_cases ht : op.touches = some j
    · exact stepC_local T Cs D w w' op j ht h
    · rw [stepC_frame T Cs D w op j hj ht, stepC_frame T Cs D w' op j hj' ht]; exact h
  | dropL op hn _ ih =>
    intro w w' hj hj' h
    rw [execC_cons]
    refine ih _ _ (Nat.lt_of_lt_of_le hj (stepC_length_le T Cs D w op)) hj' ?_
    rw [stepC_frame T Cs D w op j hj hn]; exact h
  | dropR op hn _ ih =>
    intro w w' hj hj' h
    rw [execC_cons]
    refine ih _ _ hj (Nat.lt_of_lt_of_le hj' (stepC_length_le T Cs D w' op)) ?_
    rw [stepC_frame T Cs D w' op j hj' hn]; exact h

theorem readW_congr (Cs : List ClassInfo) {w w' : World} {j j' : Nat} (h : w[j]? = w'[j']?) (q : List Key) :
    readW Cs w j q = readW Cs w' j' q := by
  unfold readW; rw [h]

/-! ### `step` on a world with an object appended -/

/-- the indices an operation mentions exist in a world of `n` objects -/
def opIn (n : Nat) : Op → Prop
  | .update i _ _ _ _ _ => i < n
  | .setattr i _ _ _ => i < n
  | .reset => 0 < n
  | .resetStyle => 0 < n
  | .setStyle i _ => i < n
  | .setStyleObj i j => i < n ∧ j < n
  | .read i _ => i < n

theorem setTree_append (w : World) (o : Obj) (i : Nat) (t : Dict) (h : i < w.length) :
    setTree (w ++ [o]) i t = setTree w i t ++ [o] := by
  unfold setTree
  rw [List.getElem?_append_left h]
  cases w[i]? with
  | none => rfl
  | some x => simp only []; exact List.set_append_left _ _ h

theorem onObj_append (Cs : List ClassInfo) (w : World) (o : Obj) (i : Nat)
    (f : List (Key × Schema) → List Str → Dict → Dict × Except Kind Unit) (h : i < w.length) :
    onObj Cs (w ++ [o]) i f = ((onObj Cs w i f).1 ++ [o], (onObj Cs w i f).2) := by
  unfold onObj
  rw [List.getElem?_append_left h]
  cases w[i]? with
  | none => rfl
  | some x =>
    simp only []
    cases Cs[x.cls]? with
    | none => rfl
    | some c => simp only []; rw [setTree_append w o i _ h]

/-- **an object appended to the world is invisible** to every operation on the existing objects: same outcome, same new
state of the existing objects, the appended object untouched -/
theorem step_append (T : Tables) (Cs : List ClassInfo) (D : Tree) (w : World) (o : Obj) (op : Op) (h : opIn w.length op) :
    step T Cs D (w ++ [o]) op = ((step T Cs D w op).1 ++ [o], (step T Cs D w op).2) := by
  cases op with
  | update i path arg kwargs mt rno => simp only [step]; exact onObj_append Cs w o i _ h
  | setattr i path name val => simp only [step]; exact onObj_append Cs w o i _ h
  | reset => simp only [step]; exact onObj_append Cs w o 0 _ h
  | resetStyle => simp only [step]; exact onObj_append Cs w o 0 _ h
  | setStyle i val =>
    have hi : i < w.length := h
    simp only [step]
    split
    · rfl
    · cases val with
      | leaf v =>
        cases v with
        | none => exact onObj_append Cs w o i _ hi
        | some n => rfl
      | node kv => exact onObj_append Cs w o i _ hi
  | setStyleObj i j =>
    have hi : i < w.length := h.1
    have hj : j < w.length := h.2
    simp only [step]
    rw [List.getElem?_append_left hi, List.getElem?_append_left hj]
    split
    · rfl
    · cases w[i]? with
      | none => rfl
      | some oi =>
        cases w[j]? with
        | none => rfl
        | some oj =>
          simp only []
          cases Cs[oi.cls]? with
          | none => rfl
          | some ci =>
            cases Cs[oj.cls]? with
            | none => rfl
            | some cj =>
              simp only []
              split <;> rfl
  | read i p =>
    have hi : i < w.length := h
    simp only [step]
    rw [List.getElem?_append_left hi]
    cases w[i]? with
    | none => rfl
    | some x =>
      simp only []
      cases Cs[x.cls]? with
      | none => rfl
      | some c =>
        simp only []
        cases readPath c.schema.props x.tree p <;> rfl

/-- … for a whole history of operations on the existing objects: outcomes and states are those of the history run
without the appended object -/
theorem run_append (T : Tables) (Cs : List ClassInfo) (D : Tree) (o : Obj) : ∀ (ops : List Op) (w : World),
    (∀ op ∈ ops, opIn w.length op) →
    run T Cs D (w ++ [o]) ops = ((run T Cs D w ops).1 ++ [o], (run T Cs D w ops).2) := by
  intro ops
  induction ops with
  | nil => intro w _; rfl
  | cons op t ih =>
    intro w h
    have h1 := step_append T Cs D w o op (h op (List.mem_cons_self ..))
    have h2 := ih (step T Cs D w op).1 (fun x hx => by rw [step_length]; exact h x (List.mem_cons_of_mem _ hx))
    simp only [run]
    rw [h1]
    simp only []
    rw [h2]

theorem exec_append_obj (T : Tables) (Cs : List ClassInfo) (D : Tree) (o : Obj) (ops : List Op) (w : World)
    (h : ∀ op ∈ ops, opIn w.length op) : exec T Cs D (w ++ [o]) ops = exec T Cs D w ops ++ [o] := by
  unfold exec
  rw [run_append T Cs D o ops w h]

/-! ### what `copy` creates -/

theorem setAttr_none_error (T : Tables) (props : List (Key × Schema)) (others : List Str) (cur : Dict) (k : Key) (val : Tree)
    (h : lookup k props = none) : ∃ e, setAttr T props others cur k val = .error e := by
  unfold setAttr
  rw [h]
  cases k with
  | str n => simp only []; split <;> exact ⟨_, rfl⟩
  | int n => exact ⟨_, rfl⟩

/-- `label` is a plain property (or no property at all) in every class -/
def labelPlain (Cs : List ClassInfo) : Bool :=
  Cs.all (fun c => match lookup labelKey c.schema.props with
    | some (.leaf _) => true
    | none => true
    | _ => false)

/-- `copyObj` reads nothing of the world but object `i` -/
theorem copyObj_congr (T : Tables) (Cs : List ClassInfo) (w w' : World) (i : Nat) (lab : Option Val) (h : w[i]? = w'[i]?) :
    copyObj T Cs w i lab = copyObj T Cs w' i lab := by
  unfold copyObj
  rw [h]

/-- a successful `obj_i.copy()`: `i` is an object with a known class whose plain property `label` accepts the value, and
the new style object has the class of `i` and its tree with the setter's image of the value at `label` -/
theorem copyObj_ok_elim (T : Tables) (Cs : List ClassInfo) (hL : labelPlain Cs = true) (w : World) (i : Nat) (lab : Option Val)
    (o' : Obj) (h : copyObj T Cs w i lab = .ok o') :
    ∃ o c vid v', i ≠ 0 ∧ w[i]? = some o ∧ Cs[o.cls]? = some c ∧ lookup labelKey c.schema.props = some (.leaf vid) ∧
      runV T vid (.leaf lab) = .ok v' ∧ o' = { cls := o.cls, tree := setKey labelKey (.leaf v') o.tree } := by
  unfold copyObj at h
  split at h
  · cases h
  · rename_i hi
    cases hw : w[i]? with
    | none => rw [hw] at h; cases h
    | some o =>
      rw [hw] at h
      simp only [] at h
      cases hc : Cs[o.cls]? with
      | none => rw [hc] at h; cases h
      | some c =>
        rw [hc] at h
        simp only [] at h
        have hmem : c ∈ Cs := List.mem_of_getElem? hc
        have hlc := List.all_eq_true.mp hL c hmem
        cases hl : lookup labelKey c.schema.props with
        | none =>
          obtain ⟨e, he⟩ := setAttr_none_error T c.schema.props c.schema.others o.tree labelKey (.leaf lab) hl
          rw [he] at h
          cases h
        | some s =>
          rw [hl] at hlc
          cases s with
          | alias tg => cases hlc
          | obj a b c1 d e => cases hlc
          | leaf vid =>
            rw [setAttr_leaf T _ _ _ _ _ vid hl] at h
            cases hv : runV T vid (.leaf lab) with
            | error e => rw [hv] at h; cases h
            | ok v' =>
              rw [hv] at h
              simp only [] at h
              injection h with h
              exact ⟨o, c, vid, v', hi, rfl, hc, hl, hv, h.symm⟩

/-- reading the new tree at any plain property other than `label` gives what the original gives; `label` gives the
setter's image of the assigned value -/
theorem readPath_copyTree (ps : List (Key × Schema)) (tree : Dict) (vid : Nat) (v' : Option Val)
    (hk : lookup labelKey ps = some (.leaf vid)) :
    (∀ (q : List Key) (vq : Nat), leafVid ps q = some vq → q ≠ [labelKey] →
      readPath ps (setKey labelKey (.leaf v') tree) q = readPath ps tree q) ∧
    readPath ps (setKey labelKey (.leaf v') tree) [labelKey] = .ok (.leaf v') := by
  refine ⟨?_, ?_⟩
  · intro q vq hq hne
    cases q with
    | nil => simp [leafVid] at hq
    | cons k0 ks =>
      have hkk : labelKey ≠ k0 := by
        intro e
        subst e
        cases ks with
        | nil => exact hne rfl
        | cons k2 ks' => simp [leafVid, hk] at hq
      cases ks with
      | nil =>
        have hk0 : ∃ v0, lookup k0 ps = some (.leaf v0) := by
          simp only [leafVid] at hq
          split at hq
          · rename_i v0 hl; exact ⟨v0, hl⟩
          · cases hq
        obtain ⟨v0, hk0⟩ := hk0
        simp only [readPath, hk0, lookup_setKey_ne hkk]
      | cons k2 ks' =>
        have hk0 : ∃ ps1 os1 sh ct vk, lookup k0 ps = some (.obj ps1 os1 sh ct vk) := by
          simp only [leafVid] at hq
          split at hq
          · rename_i ps1 os1 sh ct vk hl; exact ⟨ps1, os1, sh, ct, vk, hl⟩
          · cases hq
        obtain ⟨ps1, os1, sh, ct, vk, hk0⟩ := hk0
        simp only [readPath, hk0, lookup_setKey_ne hkk]
  · simp only [readPath, hk, lookup_setKey_self]

end MagpyVerif.StyleCopy
