/-
Lemmas/OctaIface.lean — the interface models (Model/Iface.lean: input formatting + method wrappers;
Model/DictIface.lean: `getBH_dict_level2`) on the carrier the driver computes with.

Continuation of Lemmas/OpHom.lean / Lemmas/OctaCarrier.lean (AUDIT X1): both interface models are natural in
homomorphisms `φ : G → H` of the rotation carrier (`OpHom V φ`): formatting only moves rotations around
(`formatSrc_mapG`, `formatObs_mapG`: the formatted lists at `H` are the `φ`-images of the formatted lists at `G`),
the freshly created position sensor has unit orientation (`φ 1 = 1`), and the computation behind is
`Level2.getBH` (`getBH_mapG`) resp. the row-wise `level1` (`call_mapG`).  Instantiated at the inclusion
`Oct.toM3 : Oct → M3 Int`: the driver families `iface` and `dict` compute, on octahedral rotation matrices, exactly
what the same models compute at the group `Oct` (`getBtop_at_Oct_eq_at_M3Int`, `srcMethod_…`, `sensMethod_…`,
`collMethod_…`, `call_at_Oct_eq_at_M3Int`).
-/
import MagpyVerif.Lemmas.OctaCarrier
import MagpyVerif.Lemmas.Iface
import MagpyVerif.Lemmas.DictIface

namespace MagpyVerif.Iface
open MagpyVerif MagpyVerif.Level2
variable {G H V : Type}

/-! ### change of the rotation carrier on the object world and on call inputs -/

mutual
def Obj.mapG (φ : G → H) : Obj G V → Obj H V
  | .src i s => .src i (s.mapG φ)
  | .sens i k => .sens i (k.mapG φ)
  | .coll i cs => .coll i (Obj.mapGs φ cs)
def Obj.mapGs (φ : G → H) : List (Obj G V) → List (Obj H V)
  | [] => []
  | o :: os => o.mapG φ :: Obj.mapGs φ os
end

mutual
def Inp.mapG (φ : G → H) : Inp G V → Inp H V
  | .pos sh d => .pos sh d
  | .obj o => .obj (o.mapG φ)
  | .list xs => .list (Inp.mapGs φ xs)
  | .junk => .junk
def Inp.mapGs (φ : G → H) : List (Inp G V) → List (Inp H V)
  | [] => []
  | x :: xs => x.mapG φ :: Inp.mapGs φ xs
end

theorem Obj.mapGs_eq_map (φ : G → H) (os : List (Obj G V)) : Obj.mapGs φ os = os.map (Obj.mapG φ) := by
  induction os with
  | nil => rfl
  | cons o os ih => simp only [Obj.mapGs, List.map_cons, ih]

theorem Inp.mapGs_eq_map (φ : G → H) (xs : List (Inp G V)) : Inp.mapGs φ xs = xs.map (Inp.mapG φ) := by
  induction xs with
  | nil => rfl
  | cons x xs ih => simp only [Inp.mapGs, List.map_cons, ih]

theorem Inp.mapGs_length (φ : G → H) (xs : List (Inp G V)) : (Inp.mapGs φ xs).length = xs.length := by
  rw [Inp.mapGs_eq_map, List.length_map]

theorem Inp.mapGs_isEmpty (φ : G → H) (xs : List (Inp G V)) : (Inp.mapGs φ xs).isEmpty = xs.isEmpty := by
  cases xs <;> rfl

mutual
theorem sourcesAll_mapG (φ : G → H) : ∀ (o : Obj G V),
    (o.mapG φ).sourcesAll = o.sourcesAll.map fun p => (p.1, p.2.mapG φ)
  | .src i s => by simp [Obj.mapG, Obj.sourcesAll]
  | .sens i k => by simp [Obj.mapG, Obj.sourcesAll]
  | .coll i cs => by
    simp only [Obj.mapG, sourcesAll_coll]
    exact sourcesAll_mapGs φ cs
theorem sourcesAll_mapGs (φ : G → H) : ∀ (os : List (Obj G V)),
    (Obj.mapGs φ os).flatMap Obj.sourcesAll = (os.flatMap Obj.sourcesAll).map fun p => (p.1, p.2.mapG φ)
  | [] => rfl
  | o :: os => by
    simp only [Obj.mapGs, List.flatMap_cons, List.map_append, sourcesAll_mapG φ o, sourcesAll_mapGs φ os]
end

mutual
theorem sensorsAll_mapG (φ : G → H) : ∀ (o : Obj G V),
    (o.mapG φ).sensorsAll = o.sensorsAll.map fun p => (p.1, p.2.mapG φ)
  | .src i s => by simp [Obj.mapG, Obj.sensorsAll]
  | .sens i k => by simp [Obj.mapG, Obj.sensorsAll]
  | .coll i cs => by
    simp only [Obj.mapG, sensorsAll_coll]
    exact sensorsAll_mapGs φ cs
theorem sensorsAll_mapGs (φ : G → H) : ∀ (os : List (Obj G V)),
    (Obj.mapGs φ os).flatMap Obj.sensorsAll = (os.flatMap Obj.sensorsAll).map fun p => (p.1, p.2.mapG φ)
  | [] => rfl
  | o :: os => by
    simp only [Obj.mapGs, List.flatMap_cons, List.map_append, sensorsAll_mapG φ o, sensorsAll_mapGs φ os]
end

mutual
theorem toEntry?_mapG (φ : G → H) : ∀ (o : Obj G V),
    (o.mapG φ).toEntry? = o.toEntry?.map (Entry.mapG φ)
  | .src i s => by simp [Obj.mapG, Obj.toEntry?, Entry.mapG]
  | .sens i k => by simp [Obj.mapG, Obj.toEntry?]
  | .coll i cs => by
    simp only [Obj.mapG, Obj.toEntry?, Option.map_some, Entry.mapG, toEntries_mapG φ cs]
theorem toEntries_mapG (φ : G → H) : ∀ (os : List (Obj G V)),
    Obj.toEntries (Obj.mapGs φ os) = (Obj.toEntries os).map (Entry.mapG φ)
  | [] => rfl
  | o :: os => by
    have ih := toEntries_mapG φ os
    have h1 := toEntry?_mapG φ o
    cases h : o.toEntry? with
    | none =>
      rw [h] at h1
      simp only [Obj.mapGs, Obj.toEntries, h, h1, Option.map_none, ih]
    | some e =>
      rw [h] at h1
      simp only [Obj.mapGs, Obj.toEntries, h, h1, Option.map_some, ih, List.map_cons]
end

theorem Obj.mapG_id (φ : G → H) (o : Obj G V) : (o.mapG φ).id = o.id := by
  cases o <;> simp [Obj.mapG, Obj.id]

/-! ### `format_src_inputs` -/

def SrcFmt.mapG (φ : G → H) (f : SrcFmt G V) : SrcFmt H V :=
  { sources := Obj.mapGs φ f.sources, srcList := f.srcList.map fun p => (p.1, p.2.mapG φ) }

theorem checkSrcEntry_mapG (φ : G → H) (x : Inp G V) :
    checkSrcEntry (x.mapG φ) = (checkSrcEntry x).map (Obj.mapG φ) := by
  cases x with
  | pos sh d => rfl
  | junk => rfl
  | list xs => rfl
  | obj o =>
    cases o with
    | src i s => rfl
    | sens i k => rfl
    | coll i cs =>
      have h := sourcesAll_mapG φ (Obj.coll i cs)
      simp only [Obj.mapG] at h
      simp only [Inp.mapG, Obj.mapG, checkSrcEntry, h, List.isEmpty_map]
      split <;> rfl

theorem checkSrcEntries_mapG (φ : G → H) (xs : List (Inp G V)) :
    checkSrcEntries (Inp.mapGs φ xs) = (checkSrcEntries xs).map (Obj.mapGs φ) := by
  induction xs with
  | nil => rfl
  | cons x xs ih =>
    simp only [Inp.mapGs, checkSrcEntries, checkSrcEntry_mapG, ih]
    cases checkSrcEntry x with
    | error e => rfl
    | ok o =>
      cases checkSrcEntries xs with
      | error e => rfl
      | ok os => rfl

theorem formatSrc_mapG (φ : G → H) (inp : Inp G V) :
    formatSrc (inp.mapG φ) = (formatSrc inp).map (SrcFmt.mapG φ) := by
  have key : ∀ xs : List (Inp G V),
      (if (Inp.mapGs φ xs).isEmpty then (.error .badUserInput : Except ErrKind (SrcFmt H V)) else
        match checkSrcEntries (Inp.mapGs φ xs) with
        | .error e => .error e
        | .ok os => .ok { sources := os, srcList := os.flatMap Obj.sourcesAll }) =
      (if xs.isEmpty then (.error .badUserInput : Except ErrKind (SrcFmt G V)) else
        match checkSrcEntries xs with
        | .error e => .error e
        | .ok os => .ok { sources := os, srcList := os.flatMap Obj.sourcesAll }).map (SrcFmt.mapG φ) := by
    intro xs
    rw [Inp.mapGs_isEmpty, checkSrcEntries_mapG]
    split
    · rfl
    · cases checkSrcEntries xs with
      | error e => rfl
      | ok os => simp only [Except.map, SrcFmt.mapG, sourcesAll_mapGs]
  cases inp with
  | list xs => exact key xs
  | pos sh d => exact key [.pos sh d]
  | obj o => exact key [.obj o]
  | junk => exact key [.junk]

theorem SrcFmt.entries_mapG (φ : G → H) (f : SrcFmt G V) :
    (f.mapG φ).entries = f.entries.map (Entry.mapG φ) := by
  simp only [SrcFmt.entries, SrcFmt.mapG, toEntries_mapG]

/-! ### `check_format_input_observers` -/

mutual
theorem asArray_mapG (φ : G → H) : ∀ (x : Inp G V), (x.mapG φ).asArray = x.asArray
  | .pos sh d => rfl
  | .obj o => rfl
  | .junk => rfl
  | .list xs => by
    simp only [Inp.mapG, Inp.asArray, asArrays_mapG φ xs, Inp.mapGs_length]
theorem asArrays_mapG (φ : G → H) : ∀ (xs : List (Inp G V)), Inp.asArrays (Inp.mapGs φ xs) = Inp.asArrays xs
  | [] => rfl
  | x :: xs => by
    simp only [Inp.mapGs, Inp.asArrays, asArray_mapG φ x, asArrays_mapG φ xs]
end

/-- change of carrier on the formatted observer list -/
def mapSensList (φ : G → H) (ks : List (OId × Sens G V)) : List (OId × Sens H V) :=
  ks.map fun p => (p.1, p.2.mapG φ)

section obs
variable [Mul G] [Inv G] [One G] [SMul G V] [BEq G] [Mul H] [Inv H] [One H] [SMul H V] [BEq H] [Zero V]
variable {φ : G → H}
set_option linter.unusedSectionVars false

theorem freshSensor_mapG (hφ : OpHom V φ) (sh : List Nat) (d : List V) :
    (freshSensor sh d : Sens G V).mapG φ = freshSensor sh d := by
  simp only [freshSensor, Sens.mapG, List.map_cons, List.map_nil, hφ.map_one]

theorem sensorOfArray_mapG (hφ : OpHom V φ) (i : Nat) (a : List Nat × List V) :
    sensorOfArray (G := H) i a = (sensorOfArray (G := G) i a).map (mapSensList φ) := by
  unfold sensorOfArray
  split
  · rfl
  · simp only [Except.map, mapSensList, List.map_cons, List.map_nil, freshSensor_mapG hφ]

theorem obsEntry_mapG (hφ : OpHom V φ) (i : Nat) (x : Inp G V) :
    obsEntry i (x.mapG φ) = (obsEntry i x).map (mapSensList φ) := by
  cases x with
  | pos sh d => exact sensorOfArray_mapG hφ i (sh, d)
  | junk => rfl
  | list xs =>
    have h := asArray_mapG φ (Inp.list xs)
    simp only [Inp.mapG] at h
    simp only [Inp.mapG, obsEntry, h]
    cases (Inp.list xs).asArray with
    | none => rfl
    | some a => exact sensorOfArray_mapG hφ i a
  | obj o =>
    cases o with
    | src j s => rfl
    | sens j k => rfl
    | coll j cs =>
      have h := sensorsAll_mapG φ (Obj.coll j cs)
      simp only [Obj.mapG] at h
      simp only [Inp.mapG, Obj.mapG, obsEntry, h, List.isEmpty_map]
      split
      · rfl
      · simp only [Except.map, mapSensList, List.map_map, Function.comp_def]

theorem obsLoop_mapG (hφ : OpHom V φ) (i : Nat) (xs : List (Inp G V)) :
    obsLoop i (Inp.mapGs φ xs) = (obsLoop i xs).map (mapSensList φ) := by
  induction xs generalizing i with
  | nil => rfl
  | cons x xs ih =>
    simp only [Inp.mapGs, obsLoop, obsEntry_mapG hφ, ih]
    cases obsEntry i x with
    | error e => rfl
    | ok ks =>
      cases obsLoop (i + 1) xs with
      | error e => rfl
      | ok rest => simp only [Except.map, mapSensList, List.map_append]

theorem formatObs_list_mapG (hφ : OpHom V φ) (xs : List (Inp G V)) (agg : Agg) :
    formatObs (.list (Inp.mapGs φ xs)) agg = (formatObs (.list xs) agg).map (mapSensList φ) := by
  have h := asArray_mapG φ (Inp.list xs)
  simp only [Inp.mapG] at h
  simp only [formatObs, Inp.mapGs_isEmpty, h, obsLoop_mapG hφ]
  split
  · rfl
  · cases (Inp.list xs).asArray with
    | some a => exact sensorOfArray_mapG hφ 0 a
    | none =>
      cases obsLoop 0 xs with
      | error e => rfl
      | ok ks =>
        have hsh : (mapSensList φ ks).map (·.2.pixShape) = ks.map (·.2.pixShape) := by
          simp only [mapSensList, List.map_map]; rfl
        simp only [Except.map, hsh]
        split <;> rfl

theorem formatObs_mapG (hφ : OpHom V φ) (inp : Inp G V) (agg : Agg) :
    formatObs (inp.mapG φ) agg = (formatObs inp agg).map (mapSensList φ) := by
  cases inp with
  | junk => rfl
  | pos sh d => exact sensorOfArray_mapG hφ 0 (sh, d)
  | list xs => exact formatObs_list_mapG hφ xs agg
  | obj o =>
    cases o with
    | src j s => rfl
    | sens j k => exact formatObs_list_mapG hφ [.obj (.sens j k)] agg
    | coll j cs => exact formatObs_list_mapG hφ [.obj (.coll j cs)] agg

end obs

/-! ### the top-level call and the method wrappers -/
section call
variable [Mul G] [Inv G] [One G] [SMul G V] [BEq G] [Mul H] [Inv H] [One H] [SMul H V] [BEq H]
variable [Add V] [Sub V] [Zero V]
variable {φ : G → H}
set_option linter.unusedSectionVars false

/-- **`magpylib.getB(sources, observers, …)` is natural** -/
theorem getBtop_mapG (hφ : OpHom V φ) (flipX : V → V) (vmin vmax : V → V → V) (s o : Inp G V) (f : Flags) :
    getBtop flipX vmin vmax (s.mapG φ) (o.mapG φ) f = getBtop flipX vmin vmax s o f := by
  unfold getBtop
  rw [formatSrc_mapG]
  cases formatSrc s with
  | error e => rfl
  | ok sf =>
    simp only [Except.map]
    cases checkPixelAgg f.agg with
    | error e => rfl
    | ok agg =>
      simp only [formatObs_mapG hφ]
      cases formatObs o agg with
      | error e => rfl
      | ok ks =>
        have hk : (mapSensList φ ks).map (·.2) = (ks.map (·.2)).map (Sens.mapG φ) := by
          simp only [mapSensList, List.map_map]; rfl
        simp only [Except.map, SrcFmt.entries_mapG, hk, getBH_mapG hφ]

theorem starInput_mapG (φ : G → H) (xs : List (Inp G V)) :
    starInput (Inp.mapGs φ xs) = (starInput xs).mapG φ := by
  match xs with
  | [] => rfl
  | [x] => rfl
  | x :: y :: l => simp only [starInput, Inp.mapGs, Inp.mapG]

/-- **`BaseSource.getB(*observers, …)` is natural** -/
theorem srcMethod_mapG (hφ : OpHom V φ) (flipX : V → V) (vmin vmax : V → V → V) (selfId : Nat) (self : Src G V)
    (observers : List (Inp G V)) (squeeze : Bool) (agg : AggIn) (outOk : Bool) :
    srcMethod flipX vmin vmax selfId (self.mapG φ) (Inp.mapGs φ observers) squeeze agg outOk =
      srcMethod flipX vmin vmax selfId self observers squeeze agg outOk := by
  unfold srcMethod
  rw [starInput_mapG]
  exact getBtop_mapG hφ flipX vmin vmax (.obj (.src selfId self)) _ _

/-- **`Sensor.getB(*sources, …)` is natural** -/
theorem sensMethod_mapG (hφ : OpHom V φ) (flipX : V → V) (vmin vmax : V → V → V) (selfId : Nat) (self : Sens G V)
    (sources : List (Inp G V)) (f : Flags) :
    sensMethod flipX vmin vmax selfId (self.mapG φ) (Inp.mapGs φ sources) f =
      sensMethod flipX vmin vmax selfId self sources f := by
  unfold sensMethod
  rw [starInput_mapG]
  exact getBtop_mapG hφ flipX vmin vmax _ (.obj (.sens selfId self)) _

omit [Mul G] [Inv G] [One G] [SMul G V] [BEq G] [Mul H] [Inv H] [One H] [SMul H V] [BEq H] [Add V] [Sub V] [Zero V] in
theorem collBranch_mapG (φ : G → H) (selfId : Nat) (children : List (Obj G V)) :
    collBranch selfId (Obj.mapGs φ children) = collBranch selfId children := by
  have h1 := sourcesAll_mapG φ (Obj.coll selfId children)
  have h2 := sensorsAll_mapG φ (Obj.coll selfId children)
  simp only [Obj.mapG] at h1 h2
  simp only [collBranch, h1, h2, List.isEmpty_map]

omit [Mul G] [Inv G] [One G] [SMul G V] [BEq G] [Mul H] [Inv H] [One H] [SMul H V] [BEq H] [Add V] [Sub V] [Zero V] in
theorem validateInputs_mapG (φ : G → H) (selfId : Nat) (children : List (Obj G V)) (inputs : List (Inp G V)) :
    validateInputs selfId (Obj.mapGs φ children) (Inp.mapGs φ inputs) =
      (validateInputs selfId children inputs).map (fun p => (p.1.mapG φ, p.2.mapG φ)) := by
  unfold validateInputs
  rw [collBranch_mapG]
  cases collBranch selfId children with
  | both =>
    simp only [Inp.mapGs_isEmpty]
    split
    · simp only [Except.map, Inp.mapG, Obj.mapG]
    · rfl
  | noSources => simp only [Except.map, Inp.mapG, Obj.mapG]
  | noSensors =>
    simp only [Inp.mapGs_length]
    split
    · cases inputs with
      | nil => simp only [Except.map, Inp.mapG, Obj.mapG, Inp.mapGs, List.headD]
      | cons x xs => simp only [Except.map, Inp.mapG, Obj.mapG, Inp.mapGs, List.headD]
    · simp only [Except.map, Inp.mapG, Obj.mapG]

/-- **`Collection.getB(*inputs, …)` is natural** -/
theorem collMethod_mapG (hφ : OpHom V φ) (flipX : V → V) (vmin vmax : V → V → V) (selfId : Nat)
    (children : List (Obj G V)) (inputs : List (Inp G V)) (squeeze : Bool) (agg : AggIn) (outOk : Bool) :
    collMethod flipX vmin vmax selfId (Obj.mapGs φ children) (Inp.mapGs φ inputs) squeeze agg outOk =
      collMethod flipX vmin vmax selfId children inputs squeeze agg outOk := by
  unfold collMethod
  rw [validateInputs_mapG]
  cases validateInputs selfId children inputs with
  | error e => rfl
  | ok p =>
    obtain ⟨s, o⟩ := p
    simp only [Except.map]
    exact getBtop_mapG hφ flipX vmin vmax s o _

end call
end MagpyVerif.Iface

/-! ## the functional interface `getBH_dict_level2` (Model/DictIface.lean) -/
namespace MagpyVerif.DictIface
open MagpyVerif
variable {G H V α : Type}

def Given.map {β γ : Type} (f : β → γ) : Given β → Given γ
  | .single v => .single (f v)
  | .stack vs => .stack (vs.map f)

theorem Given.len?_map {β γ : Type} (f : β → γ) (g : Given β) : (g.map f).len? = g.len? := by
  cases g <;> simp [Given.map, Given.len?]

theorem rows_map {β γ : Type} (f : β → γ) (n : Nat) (g : Given β) : rows n (g.map f) = (rows n g).map f := by
  cases g with
  | single v => simp [Given.map, rows]
  | stack vs =>
    match vs with
    | [] => rfl
    | [x] => simp [Given.map, rows]
    | x :: y :: l => simp [Given.map, rows]

theorem pick_map {β γ : Type} (f : β → γ) (i : Nat) (g : Given β) : pick i (g.map f) = (pick i g).map f := by
  cases g with
  | single v => rfl
  | stack vs =>
    simp only [Given.map, pick, List.length_map, List.getElem?_map]
    split <;> rfl

/-- change of the rotation carrier on a functional call -/
def Call.mapG (φ : G → H) (c : Call G V α) : Call H V α :=
  { params := c.params, observers := c.observers, position := c.position,
    orientation := c.orientation.map φ, squeeze := c.squeeze }

def Marshalled.mapG (φ : G → H) (m : Marshalled G V α) : Marshalled H V α :=
  { n := m.n, args := m.args, observers := m.observers, position := m.position,
    orientation := m.orientation.map φ }

theorem marshal_mapG (φ : G → H) (table : List (String × Nat)) (c : Call G V α) :
    marshal table (c.mapG φ) = (marshal table c).map (Marshalled.mapG φ) := by
  unfold marshal
  simp only [Call.mapG, Given.len?_map]
  split
  · rfl
  · split
    · rfl
    · simp only [Except.map, Marshalled.mapG, rows_map]

theorem paramSet_mapG (φ : G → H) (m : Marshalled G V α) (i : Nat) :
    paramSet (m.mapG φ) i = paramSet m i := rfl

section
variable [Mul G] [Inv G] [One G] [SMul G V] [BEq G] [Mul H] [Inv H] [One H] [SMul H V] [BEq H]
variable [Sub V] [Zero V]
variable {φ : G → H}
set_option linter.unusedSectionVars false

theorem localObs_mapG (hφ : OpHom V φ) (m : Marshalled G V α) : localObs (m.mapG φ) = localObs m := by
  unfold localObs
  simp only [Marshalled.mapG, List.getElem?_map]
  apply List.map_congr_left
  intro i _
  cases m.orientation[i]? <;> cases m.position[i]? <;> cases m.observers[i]? <;>
    simp only [Option.map_some, Option.map_none, ← hφ.map_inv, hφ.map_smul]

theorem fieldRows_mapG (hφ : OpHom V φ) (F : List (String × Arr α) → V → V) (m : Marshalled G V α) :
    fieldRows F (m.mapG φ) = fieldRows F m := by
  unfold fieldRows
  simp only [paramSet_mapG]
  simp only [Marshalled.mapG, List.getElem?_map]
  apply List.map_congr_left
  intro i _
  cases m.orientation[i]? <;> cases m.position[i]? <;> cases m.observers[i]? <;>
    simp only [Option.map_some, Option.map_none, ← hφ.map_inv, hφ.map_smul]

/-- **`getBH_dict_level2` is natural** -/
theorem call_mapG (hφ : OpHom V φ) (tables : List (String × List (String × Nat))) (cls : String)
    (F : List (String × Arr α) → V → V) (c : Call G V α) :
    call tables cls F (c.mapG φ) = call tables cls F c := by
  unfold call
  cases tables.lookup cls with
  | none => rfl
  | some table =>
    simp only [marshal_mapG]
    cases marshal table c with
    | error e => rfl
    | ok m =>
      simp only [Except.map, fieldRows_mapG hφ]
      rfl
end
end MagpyVerif.DictIface

/-! ## lifting and instantiation at the inclusion `Oct.toM3 : Oct → M3 Int` -/
namespace MagpyVerif.Iface
open MagpyVerif MagpyVerif.Level2
variable {G H V : Type}

/-- every orientation entry of every source and sensor of the object (any depth) satisfies `P` -/
def Obj.RotsIn (P : H → Prop) (o : Obj H V) : Prop :=
  (∀ p ∈ o.sourcesAll, ∀ r ∈ p.2.ori, P r) ∧ (∀ p ∈ o.sensorsAll, ∀ r ∈ p.2.ori, P r)

mutual
/-- the objects a call input mentions -/
def Inp.objs : Inp G V → List (Obj G V)
  | .obj o => [o]
  | .list xs => Inp.objsL xs
  | .pos _ _ => []
  | .junk => []
def Inp.objsL : List (Inp G V) → List (Obj G V)
  | [] => []
  | x :: xs => x.objs ++ Inp.objsL xs
end

theorem Obj.rotsIn_coll (P : H → Prop) (i : Nat) (cs : List (Obj H V)) (h : (Obj.coll i cs).RotsIn P) :
    ∀ c ∈ cs, c.RotsIn P := by
  intro c hc
  obtain ⟨h1, h2⟩ := h
  rw [sourcesAll_coll] at h1
  rw [sensorsAll_coll] at h2
  exact ⟨fun p hp => h1 p (List.mem_flatMap.mpr ⟨c, hc, hp⟩), fun p hp => h2 p (List.mem_flatMap.mpr ⟨c, hc, hp⟩)⟩

mutual
theorem Obj.exists_mapG_eq (φ : G → H) : ∀ (o : Obj H V), o.RotsIn (fun r => ∃ a, φ a = r) →
    ∃ o' : Obj G V, o'.mapG φ = o
  | .src i s, h => by
    obtain ⟨l, hl⟩ := exists_map_eq_of_forall_mem φ s.ori (h.1 (i, s) (by simp [Obj.sourcesAll]))
    exact ⟨.src i { pos := s.pos, ori := l, F := s.F }, by simp [Obj.mapG, Src.mapG, hl]⟩
  | .sens i k, h => by
    obtain ⟨k', hk'⟩ := Sens.exists_mapG_eq φ k (h.2 (i, k) (by simp [Obj.sensorsAll]))
    exact ⟨.sens i k', by simp [Obj.mapG, hk']⟩
  | .coll i cs, h => by
    obtain ⟨cs', hcs'⟩ := Obj.exists_mapGs_eq φ cs (Obj.rotsIn_coll _ i cs h)
    exact ⟨.coll i cs', by simp [Obj.mapG, hcs']⟩
theorem Obj.exists_mapGs_eq (φ : G → H) : ∀ (os : List (Obj H V)),
    (∀ o ∈ os, o.RotsIn (fun r => ∃ a, φ a = r)) → ∃ os' : List (Obj G V), Obj.mapGs φ os' = os
  | [], _ => ⟨[], rfl⟩
  | o :: os, h => by
    obtain ⟨o', ho'⟩ := Obj.exists_mapG_eq φ o (h o (by simp))
    obtain ⟨os', hos'⟩ := Obj.exists_mapGs_eq φ os (fun c hc => h c (by simp [hc]))
    exact ⟨o' :: os', by simp [Obj.mapGs, ho', hos']⟩
end

mutual
theorem Inp.exists_mapG_eq (φ : G → H) : ∀ (x : Inp H V),
    (∀ o ∈ x.objs, o.RotsIn (fun r => ∃ a, φ a = r)) → ∃ x' : Inp G V, x'.mapG φ = x
  | .pos sh d, _ => ⟨.pos sh d, rfl⟩
  | .junk, _ => ⟨.junk, rfl⟩
  | .obj o, h => by
    obtain ⟨o', ho'⟩ := Obj.exists_mapG_eq φ o (h o (by simp [Inp.objs]))
    exact ⟨.obj o', by simp [Inp.mapG, ho']⟩
  | .list xs, h => by
    obtain ⟨xs', hxs'⟩ := Inp.exists_mapGs_eq φ xs (fun o ho => h o (by simpa [Inp.objs] using ho))
    exact ⟨.list xs', by simp [Inp.mapG, hxs']⟩
theorem Inp.exists_mapGs_eq (φ : G → H) : ∀ (xs : List (Inp H V)),
    (∀ o ∈ Inp.objsL xs, o.RotsIn (fun r => ∃ a, φ a = r)) → ∃ xs' : List (Inp G V), Inp.mapGs φ xs' = xs
  | [], _ => ⟨[], rfl⟩
  | x :: xs, h => by
    obtain ⟨x', hx'⟩ := Inp.exists_mapG_eq φ x (fun o ho => h o (by simp [Inp.objsL, ho]))
    obtain ⟨xs', hxs'⟩ := Inp.exists_mapGs_eq φ xs (fun o ho => h o (by simp [Inp.objsL, ho]))
    exact ⟨x' :: xs', by simp [Inp.mapGs, hx', hxs']⟩
end

/-! ### driver side -/

/-- the driver's object world and call inputs (family `iface`) -/
abbrev WObjZ := Obj (M3 Int) (V3 Int)
abbrev InpZ := Inp (M3 Int) (V3 Int)
abbrev Obj.toM3 (o : Obj Oct (V3 Int)) : WObjZ := o.mapG Oct.toM3
abbrev Inp.toM3 (x : Inp Oct (V3 Int)) : InpZ := x.mapG Oct.toM3

/-- every rotation matrix in the world below `o` (orientation paths of all its sources and sensors) is octahedral -/
def Obj.RotsOct (o : WObjZ) : Prop := o.RotsIn IsOct
/-- every rotation matrix of every object the input mentions is octahedral -/
def Inp.RotsOct (x : InpZ) : Prop := ∀ o ∈ x.objs, o.RotsOct
def Inp.RotsOctL (xs : List InpZ) : Prop := ∀ o ∈ Inp.objsL xs, o.RotsOct

theorem Obj.RotsIn.mono {P Q : H → Prop} (hPQ : ∀ r, P r → Q r) {o : Obj H V} (h : o.RotsIn P) : o.RotsIn Q :=
  ⟨fun p hp r hr => hPQ r (h.1 p hp r hr), fun p hp r hr => hPQ r (h.2 p hp r hr)⟩

theorem exists_oct_wobj (o : WObjZ) (h : o.RotsOct) : ∃ o' : Obj Oct (V3 Int), o'.toM3 = o :=
  Obj.exists_mapG_eq Oct.toM3 o (h.mono fun _ hr => Oct.exists_toM3_eq hr)

theorem exists_oct_wobjs (os : List WObjZ) (h : ∀ o ∈ os, o.RotsOct) :
    ∃ os' : List (Obj Oct (V3 Int)), Obj.mapGs Oct.toM3 os' = os :=
  Obj.exists_mapGs_eq Oct.toM3 os fun o ho => (h o ho).mono fun _ hr => Oct.exists_toM3_eq hr

theorem exists_oct_inp (x : InpZ) (h : x.RotsOct) : ∃ x' : Inp Oct (V3 Int), x'.toM3 = x :=
  Inp.exists_mapG_eq Oct.toM3 x fun o ho => (h o ho).mono fun _ hr => Oct.exists_toM3_eq hr

theorem exists_oct_inps (xs : List InpZ) (h : Inp.RotsOctL xs) :
    ∃ xs' : List (Inp Oct (V3 Int)), Inp.mapGs Oct.toM3 xs' = xs :=
  Inp.exists_mapGs_eq Oct.toM3 xs fun o ho => (h o ho).mono fun _ hr => Oct.exists_toM3_eq hr

/-! ### `model @ Oct` = `model @ M3 Int`: the top-level call and the three method forms -/

theorem getBtop_at_Oct_eq_at_M3Int (flipX : V3 Int → V3 Int) (vmin vmax : V3 Int → V3 Int → V3 Int)
    (s o : Inp Oct (V3 Int)) (f : Flags) :
    getBtop flipX vmin vmax s.toM3 o.toM3 f = getBtop flipX vmin vmax s o f :=
  getBtop_mapG octHom flipX vmin vmax s o f

theorem srcMethod_at_Oct_eq_at_M3Int (flipX : V3 Int → V3 Int) (vmin vmax : V3 Int → V3 Int → V3 Int)
    (i : Nat) (self : Src Oct (V3 Int)) (obs : List (Inp Oct (V3 Int))) (squeeze : Bool) (agg : AggIn) (outOk : Bool) :
    srcMethod flipX vmin vmax i self.toM3 (Inp.mapGs Oct.toM3 obs) squeeze agg outOk =
      srcMethod flipX vmin vmax i self obs squeeze agg outOk :=
  srcMethod_mapG octHom flipX vmin vmax i self obs squeeze agg outOk

theorem sensMethod_at_Oct_eq_at_M3Int (flipX : V3 Int → V3 Int) (vmin vmax : V3 Int → V3 Int → V3 Int)
    (i : Nat) (self : Sens Oct (V3 Int)) (srcs : List (Inp Oct (V3 Int))) (f : Flags) :
    sensMethod flipX vmin vmax i self.toM3 (Inp.mapGs Oct.toM3 srcs) f =
      sensMethod flipX vmin vmax i self srcs f :=
  sensMethod_mapG octHom flipX vmin vmax i self srcs f

theorem collMethod_at_Oct_eq_at_M3Int (flipX : V3 Int → V3 Int) (vmin vmax : V3 Int → V3 Int → V3 Int)
    (i : Nat) (cs : List (Obj Oct (V3 Int))) (inputs : List (Inp Oct (V3 Int))) (squeeze : Bool) (agg : AggIn)
    (outOk : Bool) :
    collMethod flipX vmin vmax i (Obj.mapGs Oct.toM3 cs) (Inp.mapGs Oct.toM3 inputs) squeeze agg outOk =
      collMethod flipX vmin vmax i cs inputs squeeze agg outOk :=
  collMethod_mapG octHom flipX vmin vmax i cs inputs squeeze agg outOk

/-- the formatted source / observer lists of the driver's evaluation are the inclusions of the group model's -/
theorem formatSrc_at_Oct_eq_at_M3Int (inp : Inp Oct (V3 Int)) :
    formatSrc inp.toM3 = (formatSrc inp).map (SrcFmt.mapG Oct.toM3) := formatSrc_mapG Oct.toM3 inp

theorem formatObs_at_Oct_eq_at_M3Int (inp : Inp Oct (V3 Int)) (agg : Agg) :
    formatObs inp.toM3 agg = (formatObs inp agg).map (mapSensList Oct.toM3) := formatObs_mapG octHom inp agg

/-- the Sensor created for a position array is the inclusion of the group model's -/
theorem freshSensor_toM3 (sh : List Nat) (d : List (V3 Int)) :
    (freshSensor sh d : Sens Oct (V3 Int)).toM3 = freshSensor sh d := freshSensor_mapG octHom sh d

end MagpyVerif.Iface

namespace MagpyVerif.DictIface
open MagpyVerif

/-- the driver's functional call (family `dict`) -/
abbrev CallZ (α : Type) := Call (M3 Int) (V3 Int) α
abbrev Call.toM3 {α : Type} (c : Call Oct (V3 Int) α) : CallZ α := c.mapG Oct.toM3

def Given.toList {β : Type} : Given β → List β
  | .single v => [v]
  | .stack vs => vs

/-- the orientation argument (one rotation or a stack) consists of octahedral matrices -/
def Call.RotsOct {α : Type} (c : CallZ α) : Prop := ∀ r ∈ c.orientation.toList, IsOct r

theorem exists_oct_call {α : Type} (c : CallZ α) (h : c.RotsOct) : ∃ c' : Call Oct (V3 Int) α, c'.toM3 = c := by
  obtain ⟨ps, obs, pos, ori, sq⟩ := c
  cases ori with
  | single r =>
    obtain ⟨a, ha⟩ := Oct.exists_toM3_eq (h r (by simp [Given.toList]))
    exact ⟨⟨ps, obs, pos, .single a, sq⟩, by simp [Call.mapG, Given.map, ha]⟩
  | stack rs =>
    obtain ⟨l, hl⟩ := exists_map_eq_of_forall_mem Oct.toM3 rs
      (fun r hr => Oct.exists_toM3_eq (h r (by simpa [Given.toList] using hr)))
    exact ⟨⟨ps, obs, pos, .stack l, sq⟩, by simp [Call.mapG, Given.map, hl]⟩

/-- `getBH_dict_level2` as the driver evaluates it = the same model at the group `Oct` -/
theorem call_at_Oct_eq_at_M3Int {α : Type} (tables : List (String × List (String × Nat))) (cls : String)
    (F : List (String × Arr α) → V3 Int → V3 Int) (c : Call Oct (V3 Int) α) :
    call tables cls F c.toM3 = call tables cls F c := call_mapG octHom tables cls F c

theorem marshal_at_Oct_eq_at_M3Int {α : Type} (table : List (String × Nat)) (c : Call Oct (V3 Int) α) :
    marshal table c.toM3 = (marshal table c).map (Marshalled.mapG Oct.toM3) := marshal_mapG Oct.toM3 table c

end MagpyVerif.DictIface
