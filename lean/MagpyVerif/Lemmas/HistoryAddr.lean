/-
Lemmas/HistoryAddr.lean — histories with operations addressed to ANY node of a collection tree (C10, C09).

Lemmas/History.lean abstracts a collection to its frame and, per direct child, the FLAT list of relative paths of that
child's subtree, and covers operations addressed to the collection itself.  Here the abstraction keeps the tree shape
(`HSpec`: the frame and a forest of relative paths, one per descendant, all relative to the collection's frame), so that an
operation addressed to a descendant can be specified by recursion over its address:

* an operation addressed to the collection itself (`HSpec.rootStep`): frame by the single-object semantics (`objStep`),
  every relative path of the forest re-indexed by the operation's index map (the result of Lemmas/History.lean, now with
  the shape kept);
* an operation addressed to the descendant `i :: rest` (`HSpec.modifyAt`): the `i`-th tree of the forest is re-expressed
  as the abstract state of that child (`toChild`: its absolute frame `compose frame rel`, its own descendants relative to
  IT), the operation at address `rest` is applied there, and the result is expressed in the collection's frame again
  (`fromChild`).  Everything else — the frame, every sibling tree — is untouched.

`Op.local_char` is the one structural fact about the code model everything rests on: an operation applied to the node it
is addressed to keeps the shape of the subtree, maps every descendant object by ONE function `F`, and `F` re-indexes the
relative path.  From it: the refinement for any address (`absH_hstep`, `absH_history`), the closed index map of a
history (`histIdx`, `objAt_history`), and the own-sensor statement over whole histories (Lemmas/OwnSensorHist.lean).
-/
import MagpyVerif.Lemmas.History
namespace MagpyVerif
open Gen Spec RotFrom
variable {G V : Type}

/-- rose tree of per-object data (the shape of a collection tree with a value per object) -/
inductive RTree (α : Type) where
  | mk (val : α) (kids : List (RTree α))

namespace RTree
variable {α β γ : Type}
def val : RTree α → α
  | mk v _ => v
def kids : RTree α → List (RTree α)
  | mk _ ks => ks
def map (f : α → β) : RTree α → RTree β
  | mk v ks => mk (f v) (ks.map (map f))
/-- values in pre-order -/
def flat : RTree α → List α
  | mk v ks => v :: (ks.map flat).flatten

theorem induct {motive : RTree α → Prop}
    (h : ∀ v ks, (∀ k ∈ ks, motive k) → motive (RTree.mk v ks)) : ∀ t, motive t := by
  intro t
  exact RTree.rec (motive_1 := motive) (motive_2 := fun ks => ∀ k ∈ ks, motive k)
    (fun v ks ih => h v ks ih) (by simp) (fun k ks hk hks => by simpa using ⟨hk, hks⟩) t

theorem map_map (f : α → β) (g : β → γ) : ∀ t : RTree α, (t.map f).map g = t.map (g ∘ f) := by
  apply RTree.induct
  intro v ks ih
  simp only [map, List.map_map, Function.comp_apply]
  congr 1
  apply List.map_congr_left
  intro k hk
  exact ih k hk

theorem map_congr (f g : α → β) : ∀ t : RTree α, (∀ v ∈ t.flat, f v = g v) → t.map f = t.map g := by
  apply RTree.induct
  intro v ks ih h
  simp only [map]
  rw [h v (by simp [flat])]
  congr 1
  apply List.map_congr_left
  intro k hk
  apply ih k hk
  intro w hw
  apply h w
  simp only [flat, List.mem_cons]
  exact Or.inr (List.mem_flatten.mpr ⟨k.flat, List.mem_map.mpr ⟨k, hk, rfl⟩, hw⟩)

theorem flat_map (f : α → β) : ∀ t : RTree α, (t.map f).flat = t.flat.map f := by
  apply RTree.induct
  intro v ks ih
  simp only [map, flat, List.map_cons, List.map_map, List.map_flatten]
  congr 2
  apply List.map_congr_left
  intro k hk
  exact ih k hk
end RTree

namespace Node
variable {α : Type}

/-- the same tree with every object replaced by its image -/
def mapObj (F : Obj G V → Obj G V) : Node G V → Node G V
  | mk o cs => mk (F o) (cs.map (mapObj F))

/-- the shape of the tree with a value computed from every object -/
def toR (f : Obj G V → α) : Node G V → RTree α
  | mk o cs => .mk (f o) (cs.map (toR f))

theorem obj_mk (o : Obj G V) (cs : List (Node G V)) : (Node.mk o cs).obj = o := rfl

theorem mem_objs_self (n : Node G V) : n.obj ∈ n.objs := by
  cases n with | mk o cs => simp [Node.objs, Node.obj]

theorem toR_mapObj (f : Obj G V → α) (F : Obj G V → Obj G V) :
    ∀ n : Node G V, toR f (mapObj F n) = toR (f ∘ F) n := by
  apply Node.induct
  intro o cs ih
  simp only [mapObj, toR, List.map_map, Function.comp_apply]
  congr 1
  apply List.map_congr_left
  intro c hc
  exact ih c hc

theorem toR_congr (f g : Obj G V → α) : ∀ n : Node G V, (∀ d ∈ n.objs, f d = g d) → toR f n = toR g n := by
  apply Node.induct
  intro o cs ih h
  simp only [toR]
  rw [h o (by simp [Node.objs])]
  congr 1
  apply List.map_congr_left
  intro c hc
  exact ih c hc (fun d hd => h d (Node.mem_objs_of_child hc hd))

theorem map_toR {β : Type} (f : Obj G V → α) (h : α → β) : ∀ n : Node G V, (toR f n).map h = toR (h ∘ f) n := by
  apply Node.induct
  intro o cs ih
  simp only [toR, RTree.map, List.map_map, Function.comp_apply]
  congr 1
  apply List.map_congr_left
  intro c hc
  exact ih c hc

theorem flat_toR (f : Obj G V → α) : ∀ n : Node G V, (toR f n).flat = n.objs.map f := by
  apply Node.induct
  intro o cs ih
  simp only [toR, RTree.flat, Node.objs, List.map_cons, List.map_map, List.map_flatten]
  congr 2
  apply List.map_congr_left
  intro c hc
  exact ih c hc

theorem objs_mapObj (F : Obj G V → Obj G V) : ∀ n : Node G V, (mapObj F n).objs = n.objs.map F := by
  apply Node.induct
  intro o cs ih
  simp only [mapObj, Node.objs, List.map_cons, List.map_map, List.map_flatten]
  congr 2
  apply List.map_congr_left
  intro c hc
  exact ih c hc

theorem mapObj_congr (F F' : Obj G V → Obj G V) :
    ∀ n : Node G V, (∀ d ∈ n.objs, F d = F' d) → mapObj F n = mapObj F' n := by
  apply Node.induct
  intro o cs ih h
  simp only [mapObj]
  rw [h o (by simp [Node.objs])]
  congr 1
  apply List.map_congr_left
  intro c hc
  exact ih c hc (fun d hd => h d (Node.mem_objs_of_child hc hd))

theorem mapObj_mapObj (F1 F2 : Obj G V → Obj G V) :
    ∀ n : Node G V, mapObj F2 (mapObj F1 n) = mapObj (F2 ∘ F1) n := by
  apply Node.induct
  intro o cs ih
  simp only [mapObj, List.map_map, Function.comp_apply]
  congr 1
  apply List.map_congr_left
  intro c hc
  exact ih c hc

theorem objAt?_mapObj (F : Obj G V → Obj G V) :
    ∀ (m : List Nat) (n : Node G V), (mapObj F n).objAt? m = (n.objAt? m).map F := by
  intro m
  induction m with
  | nil => intro n; cases n with | mk o cs => simp [mapObj, objAt?]
  | cons i rest ih =>
    intro n
    cases n with | mk o cs =>
    simp only [mapObj, objAt?, List.getElem?_map]
    cases cs[i]? with
    | none => rfl
    | some c => exact ih c

theorem objAt?_mem : ∀ (m : List Nat) (n : Node G V) (d : Obj G V), n.objAt? m = some d → d ∈ n.objs := by
  intro m
  induction m with
  | nil =>
    intro n d h
    cases n with | mk o cs =>
    simp only [objAt?, Option.some.injEq] at h
    subst h
    simp [Node.objs]
  | cons i rest ih =>
    intro n d h
    cases n with | mk o cs =>
    simp only [objAt?] at h
    cases hc : cs[i]? with
    | none => rw [hc] at h; cases h
    | some c =>
      rw [hc] at h
      exact Node.mem_objs_of_child (List.mem_of_getElem? hc) (ih c d h)

/-! ### the tree operations keep the shape and map every object by one function -/

theorem move_eq_mapObj [Add V] (inp : PathIn V) (start : Option Int) :
    ∀ n : Node G V, n.move inp start = n.mapObj (applyMove inp start) := by
  apply Node.induct
  intro o cs ih
  rw [Node.move, mapObj]
  congr 1
  apply List.map_congr_left
  intro c hc
  exact ih c hc

theorem rotate_some_eq_mapObj [Mul G] [SMul G V] [Add V] [Sub V] (rot : PathIn G) (anchor : Option (PathIn V))
    (start : Option Int) (pp : List V) :
    ∀ n : Node G V, n.rotate rot anchor start (some pp) = n.mapObj (applyRotation rot anchor start (some pp)) := by
  apply Node.induct
  intro o cs ih
  rw [Node.rotate.eq_def]
  simp only
  rw [mapObj]
  congr 1
  apply List.map_congr_left
  intro c hc
  exact ih c hc

end Node

section grp
variable [Group G] [AddCommGroup V] [DistribMulAction G V]

theorem Node.rotate_anchor_eq_mapObj (r : PathIn G) (a : PathIn V) (s : Option Int) :
    ∀ (n : Node G V) (pp : Option (List V)),
      n.rotate r (some a) s pp = n.mapObj (applyRotation r (some a) s none) := by
  apply Node.induct
  intro o cs ih pp
  rw [Node.rotate.eq_def]
  simp only
  rw [Node.mapObj, applyRotation_some_pp]
  congr 1
  apply List.map_congr_left
  intro c hc
  exact ih c hc _

/-- what `position = Y` on a node whose own position path is `p` does to a descendant object -/
def spChild (Y p : List V) (d : Obj G V) : Obj G V :=
  { pos := vadd Y (vsub (padSlice Y.length d.pos) (padSlice Y.length p)), ori := padSlice Y.length d.ori }

theorem Node.setPosition_eq_mapObj :
    ∀ (n : Node G V) (Y : List V), Y ≠ [] → n.All Obj.Inv → n.setPosition Y = n.mapObj (spChild Y n.obj.pos) := by
  apply Node.induct
  intro o cs ih Y hY hall
  rw [Node.all_mk] at hall
  have hM : 0 < Y.length := List.length_pos_iff.mpr hY
  have hop : o.pos ≠ [] := ne_nil_of_one_le hall.1.2
  have hlo : (padSlice Y.length o.pos).length = Y.length := length_padSlice _ _ hop
  rw [Node.setPosition, Node.mapObj]
  congr 1
  · simp only [setPositionObj, spChild, Node.obj_mk]
    rw [vadd_vsub_self Y _ hlo]
  · apply List.map_congr_left
    intro c hc
    have hcinv : c.All Obj.Inv := hall.2 c hc
    have hcp : c.obj.pos ≠ [] := ne_nil_of_one_le (Node.obj_inv_of_all hcinv).2
    have hlc : (padSlice Y.length c.obj.pos).length = Y.length := length_padSlice _ _ hcp
    have hYc : (List.zipWith (· + ·) Y (List.zipWith (· - ·) (padSlice Y.length c.obj.pos) (padSlice Y.length o.pos))).length = Y.length := by
      simp [hlc, hlo]
    have hYc_ne : List.zipWith (· + ·) Y (List.zipWith (· - ·) (padSlice Y.length c.obj.pos) (padSlice Y.length o.pos)) ≠ [] := by
      intro h; rw [h] at hYc; simp at hYc; omega
    simp only
    rw [ih c hc _ hYc_ne hcinv]
    apply Node.mapObj_congr
    intro d hd
    have hdinv : d.Inv := Node.all_objs c hcinv d hd
    have hdp : d.pos ≠ [] := ne_nil_of_one_le hdinv.2
    have hld : (padSlice Y.length d.pos).length = Y.length := length_padSlice _ _ hdp
    have := vadd_vsub_chain Y (padSlice Y.length o.pos) (padSlice Y.length c.obj.pos) (padSlice Y.length d.pos) hlo hlc hld
    simp only [spChild, hYc, Node.obj_mk]
    simp only [vadd, vsub] at this ⊢
    rw [this]

/-- what `orientation = Q` on a node with paths `o` does to a descendant object -/
def soChild (Q : List G) (o : Obj G V) (d : Obj G V) : Obj G V :=
  applyRotation (Node.squeezeRot (List.zipWith (fun a b => a * b⁻¹) Q (padSlice Q.length o.ori)))
    (some (.vector (padSlice Q.length o.pos))) (some 0) none (psObj Q.length d)

theorem Node.setOrientation_eq_mapObj (o : Obj G V) (cs : List (Node G V)) (Q : List G) (hQ : Q ≠ [])
    (hall : (Node.mk o cs).All Obj.Inv) :
    (Node.mk o cs).setOrientation Q =
      Node.mk { pos := padSlice Q.length o.pos, ori := Q } (cs.map (Node.mapObj (soChild Q o))) := by
  rw [Node.all_mk] at hall
  have hM : 0 < Q.length := List.length_pos_iff.mpr hQ
  have hop : o.pos ≠ [] := ne_nil_of_one_le hall.1.2
  have hlo : (padSlice Q.length o.pos).length = Q.length := length_padSlice _ _ hop
  rw [Node.setOrientation.eq_def]
  simp only
  congr 1
  apply List.map_congr_left
  intro c hc
  have hcinv : c.All Obj.Inv := hall.2 c hc
  have hcp : c.obj.pos ≠ [] := ne_nil_of_one_le (Node.obj_inv_of_all hcinv).2
  rw [Node.rotate_anchor_eq_mapObj, hlo]
  have hYne : padSlice Q.length c.obj.pos ≠ [] := by
    intro h; have := length_padSlice Q.length _ hcp; rw [h] at this; simp at this; omega
  rw [Node.setPosition_eq_mapObj c _ hYne hcinv, Node.mapObj_mapObj]
  apply Node.mapObj_congr
  intro d hd
  simp only [Function.comp_apply, soChild, spChild, length_padSlice _ _ hcp]
  have hdinv : d.Inv := Node.all_objs c hcinv d hd
  have hdp : d.pos ≠ [] := ne_nil_of_one_le hdinv.2
  have hld : (padSlice Q.length d.pos).length = (padSlice Q.length c.obj.pos).length := by
    rw [length_padSlice _ _ hdp, length_padSlice _ _ hcp]
  rw [vadd_vsub_cancel _ _ hld]
  rfl


/-! ### the abstract state with the tree shape kept -/

/-- abstract state of a collection: its own pose path and the forest of its descendants' pose paths RELATIVE TO THE
COLLECTION FRAME (one tree per direct child, shaped like the child's subtree) -/
structure HSpec (G V : Type) where
  frame : Obj G V
  kids : List (RTree (List (V × G)))

/-- the abstraction function -/
def absH (t : Node G V) : HSpec G V := ⟨t.obj, t.children.map (Node.toR (relPath t.obj))⟩

/-- the flat abstraction of Lemmas/History.lean is this one with the shape forgotten -/
theorem absColl_eq_flat (t : Node G V) : absColl t = ⟨(absH t).frame, (absH t).kids.map RTree.flat⟩ := by
  simp only [absColl, absH, List.map_map]
  congr 1
  apply List.map_congr_left
  intro c _
  simp only [Function.comp_apply, Node.flat_toR]

omit [Group G] [AddCommGroup V] [DistribMulAction G V] in
theorem Node.uniform_child {o : Obj G V} {cs : List (Node G V)} {c : Node G V} {N : Nat}
    (hU : (Node.mk o cs).UniformLen N) (hc : c ∈ cs) : c.UniformLen N :=
  fun d hd => hU d (Node.mem_objs_of_child hc hd)

omit [Group G] [AddCommGroup V] [DistribMulAction G V] in
theorem Node.mem_objs_mk {o : Obj G V} {cs : List (Node G V)} {d : Obj G V} (h : d ∈ (Node.mk o cs).objs) :
    d = o ∨ ∃ c ∈ cs, d ∈ c.objs := by
  rw [Node.objs] at h
  rcases List.mem_cons.mp h with rfl | h
  · exact Or.inl rfl
  · obtain ⟨l, hl, hdl⟩ := List.mem_flatten.mp h
    obtain ⟨c, hc, rfl⟩ := List.mem_map.mp hl
    exact Or.inr ⟨c, hc, hdl⟩

/-- **what an operation does to the subtree of the node it is addressed to** (own object `o`, children `cs`, common path
length `N`): the result `t'` has the new own object `o'`, the SAME SHAPE, every descendant object mapped by one function
`F`, all paths of the new common length `N'`, and `F` re-indexes the pose relative to the node by `σ` -/
def RootChar (o : Obj G V) (cs : List (Node G V)) (N N' : Nat) (σ : Nat → Nat) (t' : Node G V) (o' : Obj G V) : Prop :=
  ∃ F : Obj G V → Obj G V, t' = Node.mk o' (cs.map (Node.mapObj F)) ∧ (o'.pos.length = N' ∧ o'.ori.length = N') ∧
    ∀ d : Obj G V, d.pos.length = N ∧ d.ori.length = N →
      ((F d).pos.length = N' ∧ (F d).ori.length = N') ∧ relPath o' (F d) = reindex σ N' (relPath o d)

theorem char_move (o : Obj G V) (cs : List (Node G V)) (N : Nat) (hN : 1 ≤ N)
    (ho : o.pos.length = N ∧ o.ori.length = N) (inp : PathIn V) (start : Option Int) :
    RootChar o cs N (window inp.isScalar N inp.lenip start).newLen (winIdx (window inp.isScalar N inp.lenip start) N)
      ((Node.mk o cs).move inp start) (applyMove inp start o) := by
  refine ⟨applyMove inp start, ?_, length_applyMove inp start o N hN ho, ?_⟩
  · rw [Node.move]
    congr 1
    apply List.map_congr_left
    intro c _
    exact Node.move_eq_mapObj inp start c
  · intro d hd
    exact ⟨length_applyMove inp start d N hN hd,
      relPath_eq_reindex o _ d _ N _ _ ho hd (length_applyMove inp start o N hN ho)
        (length_applyMove inp start d N hN hd) (fun i _ => by simp only [winIdx]; omega)
        (fun i => rel_applyMove inp start o d N hN ho hd i)⟩

theorem char_rotate (o : Obj G V) (cs : List (Node G V)) (N : Nat) (hN : 1 ≤ N)
    (ho : o.pos.length = N ∧ o.ori.length = N) (rot : PathIn G) (anchor : Option (PathIn V)) (start : Option Int)
    (hr : rot.WF) (ha : ∀ a, anchor = some a → a.WF) :
    RootChar o cs N (rotWindow rot anchor N start).newLen (winIdx (rotWindow rot anchor N start) N)
      ((Node.mk o cs).rotate rot anchor start none) (applyRotation rot anchor start none o) := by
  refine ⟨applyRotation rot anchor start (some o.pos), ?_, length_applyRotation rot anchor start none o N hN ho hr ha, ?_⟩
  · rw [Node.rotate.eq_def]
    simp only
    congr 1
    apply List.map_congr_left
    intro c _
    exact Node.rotate_some_eq_mapObj rot anchor start o.pos c
  · intro d hd
    exact ⟨length_applyRotation rot anchor start (some o.pos) d N hN hd hr ha,
      relPath_eq_reindex o _ d _ N _ _ ho hd (length_applyRotation rot anchor start none o N hN ho hr ha)
        (length_applyRotation rot anchor start (some o.pos) d N hN hd hr ha) (fun i _ => by simp only [winIdx]; omega)
        (fun i => rel_applyRotation rot anchor start o d N hN ho hd hr ha i)⟩

theorem char_setPosition (o : Obj G V) (cs : List (Node G V)) (N : Nat) (hN : 1 ≤ N)
    (hU : (Node.mk o cs).UniformLen N) (Y : List V) (hY : Y ≠ []) :
    RootChar o cs N Y.length (psIndex N Y.length) ((Node.mk o cs).setPosition Y) (setPositionObj Y o) := by
  have ho := hU o (by simp [Node.objs])
  have hM : 0 < Y.length := List.length_pos_iff.mpr hY
  have hall := Node.uniform_all_inv hN hU
  have hop : o.pos ≠ [] := ne_nil_of_one_le (by omega)
  have hoo : o.ori ≠ [] := ne_nil_of_one_le (by omega)
  have hoinv : o.Inv := ⟨by rw [ho.1, ho.2], by omega⟩
  have hlo : (padSlice Y.length o.pos).length = Y.length := length_padSlice _ _ hop
  refine ⟨spChild Y o.pos, ?_, ?_, ?_⟩
  · rw [Node.setPosition_eq_mapObj _ Y hY hall, Node.mapObj, Node.obj_mk]
    congr 1
    simp only [setPositionObj, spChild]
    rw [vadd_vsub_self Y _ hlo]
  · simp only [setPositionObj, length_padSlice _ _ hoo, and_self]
  · intro d hd
    have hdp : d.pos ≠ [] := ne_nil_of_one_le (by omega)
    have hdo : d.ori ≠ [] := ne_nil_of_one_le (by omega)
    have hdinv : d.Inv := ⟨by rw [hd.1, hd.2], by omega⟩
    have hl : (spChild Y o.pos d).pos.length = Y.length ∧ (spChild Y o.pos d).ori.length = Y.length := by
      refine ⟨?_, length_padSlice _ _ hdo⟩
      simp only [spChild, vadd, vsub, List.length_zipWith, length_padSlice _ _ hdp, hlo]
      omega
    refine ⟨hl, relPath_eq_reindex o _ d _ N Y.length _ ho hd ?_ hl (fun i hi => psIndex_lt N _ i hN hi) ?_⟩
    · simp only [setPositionObj, length_padSlice _ _ hoo, and_self]
    · intro i
      have h1 := rel_setPosition Y o d hY hoinv hdinv i
      simp only [setPositionObj, spChild]
      rw [h1, rel_psObj o d N Y.length hN ho hd i]

theorem char_setOrientation (o : Obj G V) (cs : List (Node G V)) (N : Nat) (hN : 1 ≤ N)
    (hU : (Node.mk o cs).UniformLen N) (Q : List G) (hQ : Q ≠ []) :
    RootChar o cs N Q.length (psIndex N Q.length) ((Node.mk o cs).setOrientation Q) (setOrientationObj Q o) := by
  have ho := hU o (by simp [Node.objs])
  have hM : 0 < Q.length := List.length_pos_iff.mpr hQ
  have hall := Node.uniform_all_inv hN hU
  have hop : o.pos ≠ [] := ne_nil_of_one_le (by omega)
  have hoinv : o.Inv := ⟨by rw [ho.1, ho.2], by omega⟩
  have hlo : (padSlice Q.length o.pos).length = Q.length := length_padSlice _ _ hop
  refine ⟨soChild Q o, ?_, ⟨hlo, rfl⟩, ?_⟩
  · rw [Node.setOrientation_eq_mapObj o cs Q hQ hall]
    rfl
  · intro d hd
    have hdinv : d.Inv := ⟨by rw [hd.1, hd.2], by omega⟩
    have hl := length_setOri_child Q hQ o d hoinv hdinv
    refine ⟨hl, relPath_eq_reindex o _ d _ N Q.length _ ho hd ⟨hlo, rfl⟩ hl (fun i hi => psIndex_lt N _ i hN hi) ?_⟩
    intro i
    have h1 := rel_setOrientation Q hQ o d hoinv hdinv i
    simp only at h1
    show relAt { pos := padSlice Q.length o.pos, ori := Q } (soChild Q o d) i = _
    unfold soChild
    rw [h1, rel_psObj o d N Q.length hN ho hd i]

/-- two operations one after the other: the functions compose, the index maps compose the other way round -/
theorem char_comp (o o1 o2 : Obj G V) (cs cs1 : List (Node G V)) (N N1 N2 : Nat) (σ1 σ2 : Nat → Nat) (t2 : Node G V)
    (h1 : RootChar o cs N N1 σ1 (Node.mk o1 cs1) o1) (h2 : RootChar o1 cs1 N1 N2 σ2 t2 o2)
    (hσ : ∀ i, i < N2 → σ2 i < N1) : RootChar o cs N N2 (σ1 ∘ σ2) t2 o2 := by
  obtain ⟨F1, e1, _, g1⟩ := h1
  obtain ⟨F2, e2, l2, g2⟩ := h2
  have hcs : cs1 = cs.map (Node.mapObj F1) := by injection e1
  refine ⟨F2 ∘ F1, ?_, l2, ?_⟩
  · rw [e2, hcs, List.map_map]
    congr 1
    apply List.map_congr_left
    intro c _
    exact Node.mapObj_mapObj F1 F2 c
  · intro d hd
    obtain ⟨l1, r1⟩ := g1 d hd
    obtain ⟨l2', r2⟩ := g2 (F1 d) l1
    refine ⟨l2', ?_⟩
    simp only [Function.comp_apply]
    rw [r2, r1, reindex_reindex _ _ _ _ _ hσ]

theorem RootChar.congr_idx {o o' : Obj G V} {cs : List (Node G V)} {N N' : Nat} {σ τ : Nat → Nat} {t' : Node G V}
    (h : RootChar o cs N N' σ t' o') (hστ : ∀ i, i < N' → σ i = τ i) : RootChar o cs N N' τ t' o' := by
  obtain ⟨F, e, l, g⟩ := h
  refine ⟨F, e, l, fun d hd => ⟨(g d hd).1, ?_⟩⟩
  rw [(g d hd).2]
  exact reindex_congr _ _ _ _ hστ

/-- consequences of `RootChar` for the abstraction and for the common path length -/
theorem absH_of_char {o o' : Obj G V} {cs : List (Node G V)} {N N' : Nat} {σ : Nat → Nat} {t' : Node G V}
    (h : RootChar o cs N N' σ t' o') (hU : (Node.mk o cs).UniformLen N) :
    absH t' = ⟨o', (absH (Node.mk o cs)).kids.map (RTree.map (reindex σ N'))⟩ ∧ t'.UniformLen N' := by
  obtain ⟨F, rfl, l, g⟩ := h
  constructor
  · simp only [absH, Node.obj, Node.children, List.map_map]
    congr 1
    apply List.map_congr_left
    intro c hc
    simp only [Function.comp_apply]
    rw [Node.toR_mapObj, Node.map_toR]
    apply Node.toR_congr
    intro d hd
    exact (g d (hU d (Node.mem_objs_of_child hc hd))).2
  · intro d' hd'
    rcases Node.mem_objs_mk hd' with rfl | ⟨c', hc', hd''⟩
    · exact l
    · obtain ⟨c, hc, rfl⟩ := List.mem_map.mp hc'
      rw [Node.objs_mapObj] at hd''
      obtain ⟨d, hd, rfl⟩ := List.mem_map.mp hd''
      exact (g d (hU d (Node.mem_objs_of_child hc hd))).1

/-- … and for the object at an address below the node -/
theorem objAt_of_char {o o' : Obj G V} {cs : List (Node G V)} {N N' : Nat} {σ : Nat → Nat} {t' : Node G V}
    (h : RootChar o cs N N' σ t' o') (hU : (Node.mk o cs).UniformLen N) (k : Nat) (m : List Nat) (d : Obj G V)
    (hd : (Node.mk o cs).objAt? (k :: m) = some d) :
    ∃ d', t'.objAt? (k :: m) = some d' ∧ (d'.pos.length = N' ∧ d'.ori.length = N') ∧
      relPath o' d' = reindex σ N' (relPath o d) := by
  obtain ⟨F, rfl, l, g⟩ := h
  have hmem := Node.objAt?_mem _ _ _ hd
  simp only [Node.objAt?] at hd ⊢
  rw [List.getElem?_map]
  cases hc : cs[k]? with
  | none => rw [hc] at hd; cases hd
  | some c =>
    rw [hc] at hd
    simp only [Option.map_some]
    refine ⟨F d, ?_, g d (hU d hmem)⟩
    simp only at hd
    rw [Node.objAt?_mapObj, hd]
    rfl

/-! ### one operation at the node it is addressed to -/

omit [Group G] [AddCommGroup V] [DistribMulAction G V] in
/-- operations that change nothing: rejected calls, the empty position / orientation path -/
def Op.isNoop : Op G V → Bool
  | .setPos _ Y => Y.isEmpty
  | .setOri _ Q => Q.isEmpty
  | .rejected => true
  | _ => false

/-- the function an operation applies to the node it is addressed to -/
def Op.local : Op G V → Node G V → Node G V
  | .move _ inp s => Node.move inp s
  | .rotate _ rot an s => Node.rotate rot an s none
  | .setPos _ Y => Node.setPosition Y
  | .setOri _ Q => Node.setOrientation Q
  | .reset _ => Node.resetPath
  | .rejected => id

theorem Node.step_eq_local (t : Node G V) (op : Op G V) :
    t.step op = if op.isNoop then t else Node.modifyAt op.local op.addr t := by
  cases op with
  | move a inp s => rfl
  | rotate a rot an s => rfl
  | setPos a Y => rfl
  | setOri a Q => rfl
  | reset a => rfl
  | rejected => rfl

/-- **every operation has the `RootChar` shape at the node it is addressed to** -/
theorem Op.local_char (o : Obj G V) (cs : List (Node G V)) (N : Nat) (hN : 1 ≤ N)
    (hU : (Node.mk o cs).UniformLen N) (op : Op G V) (hwf : op.WF) (N' : Nat) (σ : Nat → Nat)
    (he : op.effect N = some (N', σ)) :
    RootChar o cs N N' σ (op.local (Node.mk o cs)) (objStep o op) ∧ 1 ≤ N' := by
  have ho := hU o (by simp [Node.objs])
  cases op with
  | move a inp s =>
    simp only [Op.effect, Option.some.injEq, Prod.mk.injEq] at he
    obtain ⟨rfl, rfl⟩ := he
    exact ⟨char_move o cs N hN ho inp s, window_newLen_pos _ _ _ _ hN⟩
  | rotate a rot an s =>
    simp only [Op.effect, Option.some.injEq, Prod.mk.injEq] at he
    obtain ⟨rfl, rfl⟩ := he
    exact ⟨char_rotate o cs N hN ho rot an s hwf.1 hwf.2, window_newLen_pos _ _ _ _ hN⟩
  | setPos a Y =>
    by_cases hY : Y.isEmpty
    · simp [Op.effect, hY] at he
    · have hY' : Y ≠ [] := by simpa using hY
      simp only [Op.effect, hY, Bool.false_eq_true, if_false, Option.some.injEq, Prod.mk.injEq] at he
      obtain ⟨rfl, rfl⟩ := he
      simp only [objStep, hY, Bool.false_eq_true, if_false]
      exact ⟨char_setPosition o cs N hN hU Y hY', List.length_pos_iff.mpr hY'⟩
  | setOri a Q =>
    by_cases hQ : Q.isEmpty
    · simp [Op.effect, hQ] at he
    · have hQ' : Q ≠ [] := by simpa using hQ
      simp only [Op.effect, hQ, Bool.false_eq_true, if_false, Option.some.injEq, Prod.mk.injEq] at he
      obtain ⟨rfl, rfl⟩ := he
      simp only [objStep, hQ, Bool.false_eq_true, if_false]
      exact ⟨char_setOrientation o cs N hN hU Q hQ', List.length_pos_iff.mpr hQ'⟩
  | reset a =>
    simp only [Op.effect, Option.some.injEq, Prod.mk.injEq] at he
    obtain ⟨rfl, rfl⟩ := he
    refine ⟨?_, le_refl 1⟩
    have h1 := char_setPosition o cs N hN hU [0] (by simp)
    cases hm : (Node.mk o cs).setPosition [0] with
    | mk o1 cs1 =>
      have ho1 : o1 = setPositionObj [0] o := by
        obtain ⟨F, e, _⟩ := h1
        rw [hm] at e
        injection e
      rw [hm, ← ho1] at h1
      have hU1 := (absH_of_char h1 hU).2
      have h2 := char_setOrientation o1 cs1 1 (le_refl 1) hU1 [1] (by simp)
      have h3 := char_comp o o1 _ cs cs1 N 1 1 _ _ _ h1 h2 (fun i hi => by simp only [psIndex]; split <;> simp at * <;> omega)
      have e3 : setOrientationObj [1] o1 = (⟨[0], [1]⟩ : Obj G V) := by
        rw [ho1]; simp [setOrientationObj, setPositionObj, padSlice]
      simp only [Op.local, Node.resetPath, hm, objStep]
      rw [← e3]
      apply h3.congr_idx
      intro i hi
      simp only [Function.comp_apply, psIndex, List.length_cons, List.length_nil]
      have : i = 0 := by omega
      subst this
      simp
      omega
  | rejected => simp [Op.effect] at he


/-! ### the abstract step at any address -/

namespace HSpec

/-- an operation addressed to the collection the abstract state belongs to: the frame follows the single-object
semantics, EVERY relative path of the forest is re-indexed by the operation's index map -/
def rootStep (s : HSpec G V) (op : Op G V) : HSpec G V :=
  match op.effect s.frame.pos.length with
  | none => s
  | some (N', σ) => ⟨objStep s.frame op, s.kids.map (RTree.map (reindex σ N'))⟩

/-- the abstract state of a child collection, from its tree in the parent's forest: absolute frame = parent frame
composed with the child's relative path; its descendants re-expressed relative to the child -/
def toChild (fr : Obj G V) (k : RTree (List (V × G))) : HSpec G V :=
  ⟨compose fr k.val, k.kids.map (RTree.map fun r => relPath (compose fr k.val) (compose fr r))⟩

/-- … and back: the child's state expressed in the parent's frame -/
def fromChild (fr : Obj G V) (s : HSpec G V) : RTree (List (V × G)) :=
  .mk (relPath fr s.frame) (s.kids.map (RTree.map fun r => relPath fr (compose s.frame r)))

/-- apply the abstract step `f` at the descendant with address `addr`: only the addressed tree of the forest changes -/
def modifyAt (f : HSpec G V → HSpec G V) : List Nat → HSpec G V → HSpec G V
  | [], s => f s
  | i :: rest, s =>
    ⟨s.frame, s.kids.mapIdx fun j k => if j = i then fromChild s.frame (modifyAt f rest (toChild s.frame k)) else k⟩

end HSpec

theorem toChild_absR (o : Obj G V) (c : Node G V) (N : Nat) (ho : o.pos.length = N ∧ o.ori.length = N)
    (hc : c.UniformLen N) : HSpec.toChild o (Node.toR (relPath o) c) = absH c := by
  cases c with | mk oc ccs =>
  have hoc := hc oc (by simp [Node.objs])
  simp only [HSpec.toChild, Node.toR, RTree.val, RTree.kids, absH, Node.obj_mk, Node.children]
  rw [compose_relPath o oc N ho hoc, List.map_map]
  congr 1
  apply List.map_congr_left
  intro cc hcc
  simp only [Function.comp_apply]
  rw [Node.map_toR]
  apply Node.toR_congr
  intro d hd
  simp only [Function.comp_apply]
  rw [compose_relPath o d N ho (hc d (Node.mem_objs_of_child hcc hd))]

theorem fromChild_absH (o : Obj G V) (c : Node G V) (N : Nat) (ho : o.pos.length = N ∧ o.ori.length = N)
    (hc : c.UniformLen N) : HSpec.fromChild o (absH c) = Node.toR (relPath o) c := by
  cases c with | mk oc ccs =>
  have hoc := hc oc (by simp [Node.objs])
  simp only [HSpec.fromChild, Node.toR, absH, Node.obj_mk, Node.children, List.map_map]
  congr 1
  apply List.map_congr_left
  intro cc hcc
  simp only [Function.comp_apply]
  rw [Node.map_toR]
  apply Node.toR_congr
  intro d hd
  simp only [Function.comp_apply]
  rw [compose_relPath oc d N hoc (hc d (Node.mem_objs_of_child hcc hd))]

omit [Group G] [AddCommGroup V] [DistribMulAction G V] in
theorem Node.modifyAt_uniform_cons (N : Nat) (g : Node G V → Node G V) (i : Nat) (rest : List Nat) (o : Obj G V)
    (cs : List (Node G V)) (hU : (Node.mk o cs).UniformLen N)
    (h : ∀ c ∈ cs, (Node.modifyAt g rest c).UniformLen N) :
    (Node.modifyAt g (i :: rest) (Node.mk o cs)).UniformLen N := by
  intro d hd
  simp only [Node.modifyAt] at hd
  rcases Node.mem_objs_mk hd with rfl | ⟨c', hc', hd'⟩
  · exact hU _ (by simp [Node.objs])
  · obtain ⟨j, hj, rfl⟩ := List.mem_mapIdx.mp hc'
    have hmem : cs[j] ∈ cs := List.getElem_mem hj
    split at hd'
    · exact h _ hmem d hd'
    · exact hU d (Node.mem_objs_of_child hmem hd')

/-- **induction over the address**: if `g` on the addressed node is abstracted by `f` (and keeps the common path
length), then `g` applied at ANY address of ANY tree is abstracted by `f` applied at that address of the abstract state -/
theorem absH_modifyAt (N : Nat) (g : Node G V → Node G V) (f : HSpec G V → HSpec G V)
    (hg : ∀ m : Node G V, m.UniformLen N → absH (g m) = f (absH m) ∧ (g m).UniformLen N) :
    ∀ (a : List Nat) (t : Node G V), t.UniformLen N →
      absH (Node.modifyAt g a t) = HSpec.modifyAt f a (absH t) ∧ (Node.modifyAt g a t).UniformLen N := by
  intro a
  induction a with
  | nil => intro t hU; exact hg t hU
  | cons i rest ih =>
    intro t hU
    cases t with | mk o cs =>
    have ho := hU o (by simp [Node.objs])
    have key : ∀ c ∈ cs, absH (Node.modifyAt g rest c) = HSpec.modifyAt f rest (absH c) ∧
        (Node.modifyAt g rest c).UniformLen N := fun c hc => ih c (Node.uniform_child hU hc)
    refine ⟨?_, Node.modifyAt_uniform_cons N g i rest o cs hU (fun c hc => (key c hc).2)⟩
    simp only [Node.modifyAt, absH, Node.obj_mk, Node.children, HSpec.modifyAt]
    congr 1
    apply List.ext_getElem?
    intro j
    simp only [List.getElem?_map, List.getElem?_mapIdx]
    cases hc : cs[j]? with
    | none => rfl
    | some c =>
      have hcm : c ∈ cs := List.mem_of_getElem? hc
      simp only [Option.map_some]
      congr 1
      by_cases hj : j = i
      · simp only [hj, if_true]
        rw [toChild_absR o c N ho (Node.uniform_child hU hcm), ← (key c hcm).1,
          fromChild_absH o _ N ho (key c hcm).2]
      · simp only [hj, if_false]

/-! ### one user-level operation, any address -/

omit [Group G] [AddCommGroup V] [DistribMulAction G V] in
theorem Op.effect_of_not_noop (op : Op G V) (N : Nat) (h : op.isNoop = false) :
    ∃ N' σ, op.effect N = some (N', σ) := by
  cases op with
  | move a inp s => exact ⟨_, _, rfl⟩
  | rotate a rot an s => exact ⟨_, _, rfl⟩
  | setPos a Y => simp only [Op.isNoop] at h; exact ⟨Y.length, psIndex N Y.length, by simp [Op.effect, h]⟩
  | setOri a Q => simp only [Op.isNoop] at h; exact ⟨Q.length, psIndex N Q.length, by simp [Op.effect, h]⟩
  | reset a => exact ⟨_, _, rfl⟩
  | rejected => simp [Op.isNoop] at h

omit [Group G] [AddCommGroup V] [DistribMulAction G V] in
theorem Op.effect_of_noop (op : Op G V) (N : Nat) (h : op.isNoop = true) : op.effect N = none := by
  cases op with
  | move a inp s => simp [Op.isNoop] at h
  | rotate a rot an s => simp [Op.isNoop] at h
  | setPos a Y => simp only [Op.isNoop] at h; simp [Op.effect, h]
  | setOri a Q => simp only [Op.isNoop] at h; simp [Op.effect, h]
  | reset a => simp [Op.isNoop] at h
  | rejected => rfl

/-- the operation at the node it is addressed to, in terms of the abstraction -/
theorem absH_local (m : Node G V) (N : Nat) (hN : 1 ≤ N) (hU : m.UniformLen N) (op : Op G V) (hwf : op.WF)
    (hn : op.isNoop = false) :
    absH (op.local m) = (absH m).rootStep op ∧ (op.local m).UniformLen (op.newLen N) ∧ 1 ≤ op.newLen N := by
  cases m with | mk o cs =>
  have ho := hU o (by simp [Node.objs])
  obtain ⟨N', σ, he⟩ := op.effect_of_not_noop N hn
  obtain ⟨hc, hN'⟩ := Op.local_char o cs N hN hU op hwf N' σ he
  obtain ⟨h1, h2⟩ := absH_of_char hc hU
  have hfr : (absH (Node.mk o cs)).frame.pos.length = N := ho.1
  have hnl : op.newLen N = N' := by simp only [Op.newLen, he]
  rw [hnl]
  refine ⟨?_, h2, hN'⟩
  rw [h1]
  simp only [HSpec.rootStep, hfr, he]
  rfl

omit [Group G] [AddCommGroup V] [DistribMulAction G V] in
/-- what may be applied to a collection tree of common path length `N`: any operation inside the domain of `rotate`,
addressed to ANY node; an operation addressed to a descendant must keep the path length (otherwise the members no longer
share one length and "relative pose at every path index" has no meaning) -/
def Op.AdmAt (N : Nat) (o : Op G V) : Prop := o.WF ∧ (o.addr ≠ [] → o.newLen N = N)

/-- the abstract step of one base operation -/
def specStepOpH (s : HSpec G V) (op : Op G V) : HSpec G V :=
  if op.isNoop then s else HSpec.modifyAt (fun s => s.rootStep op) op.addr s

theorem absH_stepOp (t : Node G V) (N : Nat) (hN : 1 ≤ N) (hU : t.UniformLen N) (op : Op G V) (hadm : op.AdmAt N) :
    absH (t.step op) = specStepOpH (absH t) op ∧ (t.step op).UniformLen (op.newLen N) ∧ 1 ≤ op.newLen N := by
  rw [Node.step_eq_local]
  unfold specStepOpH
  cases hn : op.isNoop with
  | true =>
    simp only [if_true]
    have : op.newLen N = N := by simp only [Op.newLen, op.effect_of_noop N hn]
    rw [this]
    exact ⟨trivial, hU, hN⟩
  | false =>
    simp only [Bool.false_eq_true, if_false]
    cases ha : op.addr with
    | nil => exact absH_local t N hN hU op hadm.1 hn
    | cons i rest =>
      have hlen : op.newLen N = N := hadm.2 (by rw [ha]; simp)
      rw [hlen]
      have := absH_modifyAt N op.local (fun s => s.rootStep op) (fun m hm => by
        obtain ⟨h1, h2, _⟩ := absH_local m N hN hm op hadm.1 hn
        rw [hlen] at h2
        exact ⟨h1, h2⟩) (i :: rest) t hU
      exact ⟨this.1, this.2, hN⟩

section hops
variable {α : Type} [Kern.Num α]

omit [AddCommGroup V] [DistribMulAction G V] in
/-- admissible operations of the full set, any address -/
def HOp.AdmAt (sc : Scipy α G) (N : Nat) : HOp α G V → Prop
  | .base o => o.AdmAt N
  | .rotFrom a e an s => (rotFromOp sc a e an s).AdmAt N
  | .add _ c => c.UniformLen N
  | .remove _ _ => True

/-- the abstract step over the full operation set, any address -/
def specStepH (sc : Scipy α G) (s : HSpec G V) : HOp α G V → HSpec G V
  | .base o => specStepOpH s o
  | .rotFrom a e an st => specStepOpH s (rotFromOp sc a e an st)
  | .add a c => HSpec.modifyAt (fun s => ⟨s.frame, s.kids ++ [c.toR (relPath s.frame)]⟩) a s
  | .remove a j => HSpec.modifyAt (fun s => ⟨s.frame, s.kids.eraseIdx j⟩) a s

omit [AddCommGroup V] [DistribMulAction G V] in
def AdmissibleAt (sc : Scipy α G) : Nat → List (HOp α G V) → Prop
  | _, [] => True
  | N, op :: rest => op.AdmAt sc N ∧ AdmissibleAt sc (op.newLen sc N) rest

omit [AddCommGroup V] [DistribMulAction G V] in
/-- the admissible histories of Lemmas/History.lean (everything addressed to the collection itself) are admissible here -/
theorem Admissible.at (sc : Scipy α G) : ∀ (ops : List (HOp α G V)) (N : Nat), Admissible sc N ops → AdmissibleAt sc N ops
  | [], _, _ => trivial
  | op :: rest, N, h => by
    refine ⟨?_, Admissible.at sc rest _ h.2⟩
    have h1 := h.1
    cases op with
    | base o => exact ⟨h1.2, fun hne => absurd h1.1 hne⟩
    | rotFrom a e an s =>
      obtain ⟨rfl, hwf⟩ := h1
      exact ⟨hwf, fun hne => absurd (rotFromOp_addr sc e an s) hne⟩
    | add a c => exact h1.2
    | remove a j => trivial

theorem absH_hstep (sc : Scipy α G) (t : Node G V) (N : Nat) (hN : 1 ≤ N) (hU : t.UniformLen N) (op : HOp α G V)
    (hadm : op.AdmAt sc N) :
    absH (t.hstep sc op) = specStepH sc (absH t) op ∧ (t.hstep sc op).UniformLen (op.newLen sc N) ∧
      1 ≤ op.newLen sc N := by
  cases op with
  | base b => exact absH_stepOp t N hN hU b hadm
  | rotFrom a e an s => exact absH_stepOp t N hN hU _ hadm
  | add a c =>
    have := absH_modifyAt N (Node.addChild c) (fun s => ⟨s.frame, s.kids ++ [c.toR (relPath s.frame)]⟩) (fun m hm => by
      cases m with | mk o cs =>
      refine ⟨by simp [Node.addChild, absH, Node.obj, Node.children], ?_⟩
      intro d hd
      simp only [Node.addChild] at hd
      rcases Node.mem_objs_mk hd with rfl | ⟨c', hc', hd'⟩
      · exact hm _ (by simp [Node.objs])
      · rcases List.mem_append.mp hc' with h1 | h1
        · exact hm d (Node.mem_objs_of_child h1 hd')
        · rw [List.mem_singleton.mp h1] at hd'; exact hadm d hd') a t hU
    exact ⟨this.1, this.2, hN⟩
  | remove a j =>
    have := absH_modifyAt N (Node.removeChild j) (fun s => ⟨s.frame, s.kids.eraseIdx j⟩) (fun m hm => by
      cases m with | mk o cs =>
      refine ⟨by simp [Node.removeChild, absH, Node.obj, Node.children, map_eraseIdx'], ?_⟩
      intro d hd
      simp only [Node.removeChild] at hd
      rcases Node.mem_objs_mk hd with rfl | ⟨c', hc', hd'⟩
      · exact hm _ (by simp [Node.objs])
      · exact hm d (Node.mem_objs_of_child (List.mem_of_mem_eraseIdx hc') hd')) a t hU
    exact ⟨this.1, this.2, hN⟩

/-- **the abstraction commutes with every history, operations at any address** -/
theorem absH_history (sc : Scipy α G) : ∀ (ops : List (HOp α G V)) (t : Node G V) (N : Nat), 1 ≤ N →
    t.UniformLen N → AdmissibleAt sc N ops →
    absH (ops.foldl (Node.hstep sc) t) = ops.foldl (specStepH sc) (absH t) ∧
    (ops.foldl (Node.hstep sc) t).UniformLen (histLen sc N ops) ∧ 1 ≤ histLen sc N ops := by
  intro ops
  induction ops with
  | nil => intro t N hN hU _; exact ⟨rfl, hU, hN⟩
  | cons op rest ih =>
    intro t N hN hU hadm
    obtain ⟨h1, h2, h3⟩ := absH_hstep sc t N hN hU op hadm.1
    obtain ⟨g1, g2, g3⟩ := ih _ _ h3 h2 hadm.2
    simp only [List.foldl_cons, histLen]
    exact ⟨by rw [g1, h1], g2, g3⟩
end hops


/-! ### the index map of a history in closed form, and the members it applies to -/

omit [Group G] [AddCommGroup V] [DistribMulAction G V] in
/-- index map of one base operation on the collection (root) frame: the operation's own map (`min (i − b) (N − 1)` for
move / rotate, `psIndex` for the setters, `N − 1` for `reset_path`) if it is addressed to the collection, the identity if it
is addressed to a descendant or changes nothing -/
def Op.idx (N : Nat) (o : Op G V) : Nat → Nat :=
  if o.addr.isEmpty then (match o.effect N with | some (_, σ) => σ | none => id) else id

section hops
variable {α : Type} [Kern.Num α]

omit [Group G] [AddCommGroup V] [DistribMulAction G V] in
def HOp.idx (sc : Scipy α G) (N : Nat) : HOp α G V → Nat → Nat
  | .base o => o.idx N
  | .rotFrom a e an s => (rotFromOp (V := V) sc a e an s).idx N
  | .add _ _ => id
  | .remove _ _ => id

omit [Group G] [AddCommGroup V] [DistribMulAction G V] in
/-- **the index map of a history**: final path index `i` shows the initial relative pose at `histIdx … i` — the per-operation
maps composed, first operation outermost -/
def histIdx (sc : Scipy α G) : Nat → List (HOp α G V) → Nat → Nat
  | _, [] => id
  | N, op :: rest => op.idx sc N ∘ histIdx sc (op.newLen sc N) rest
end hops

omit [Group G] [AddCommGroup V] [DistribMulAction G V] in
/-- address of a member after `remove` of child `j` of the collection at address `b`: later siblings move up by one,
the removed subtree is gone -/
def trackRemove : List Nat → Nat → List Nat → Option (List Nat)
  | [], j, k :: rest => if k = j then none else if j < k then some ((k - 1) :: rest) else some (k :: rest)
  | [], _, [] => some []
  | x :: b, j, k :: rest => if x = k then (trackRemove b j rest).map (k :: ·) else some (k :: rest)
  | _ :: _, _, [] => some []

omit [Group G] [AddCommGroup V] [DistribMulAction G V] in
/-- a base operation leaves the member at address `m` where it is unless it is addressed to a descendant that is the
member itself or one of its ancestors (then the member's relative pose is changed on purpose: `none`) -/
def Op.track (o : Op G V) (m : List Nat) : Option (List Nat) :=
  if o.isNoop || o.addr.isEmpty then some m else if o.addr.isPrefixOf m then none else some m

section hops
variable {α : Type} [Kern.Num α]
omit [Group G] [AddCommGroup V] [DistribMulAction G V] in
def HOp.track (sc : Scipy α G) : HOp α G V → List Nat → Option (List Nat)
  | .base o, m => o.track m
  | .rotFrom a e an s, m => (rotFromOp (V := V) sc a e an s).track m
  | .add _ _, m => some m
  | .remove a j, m => trackRemove a j m

omit [Group G] [AddCommGroup V] [DistribMulAction G V] in
/-- the address of a member after a history; `none` if it was removed or touched by an operation addressed to it or to
one of its ancestors below the collection -/
def histTrack (sc : Scipy α G) : List (HOp α G V) → List Nat → Option (List Nat)
  | [], m => some m
  | op :: rest, m => (op.track sc m).bind (histTrack sc rest)
end hops

theorem reindex_id (N : Nat) (r : List (V × G)) (h : r.length = N) : reindex id N r = r := by
  apply List.ext_getElem?
  intro i
  unfold reindex
  by_cases hi : i < N
  · simp only [List.getElem?_map, List.getElem?_range hi, Option.map_some, id_eq]
    rw [List.getD_eq_getElem?_getD, List.getElem?_eq_getElem (by omega)]
    rfl
  · have : r[i]? = none := List.getElem?_eq_none (by omega)
    simp [hi, this]

omit [Group G] [AddCommGroup V] [DistribMulAction G V] in
theorem Node.obj_modifyAt (g : Node G V → Node G V) (hg : ∀ m, (g m).obj = m.obj) :
    ∀ (a : List Nat) (t : Node G V), (Node.modifyAt g a t).obj = t.obj := by
  intro a t
  cases a with
  | nil => exact hg t
  | cons i rest => cases t with | mk o cs => rfl

omit [Group G] [AddCommGroup V] [DistribMulAction G V] in
/-- an operation applied at an address that is not a prefix of `m` leaves the object at `m` alone -/
theorem Node.objAt?_modifyAt_of_not_prefix (g : Node G V → Node G V) :
    ∀ (a m : List Nat) (t : Node G V), a.isPrefixOf m = false → (Node.modifyAt g a t).objAt? m = t.objAt? m := by
  intro a
  induction a with
  | nil => intro m t h; simp at h
  | cons i rest ih =>
    intro m t h
    cases t with | mk o cs =>
    cases m with
    | nil => rfl
    | cons k m0 =>
      simp only [Node.modifyAt, Node.objAt?, List.getElem?_mapIdx]
      cases hc : cs[k]? with
      | none => rfl
      | some c =>
        simp only [Option.map_some]
        by_cases hk : k = i
        · subst hk
          simp only [if_true]
          apply ih
          simpa [List.isPrefixOf] using h
        · simp only [hk, if_false]

omit [Group G] [AddCommGroup V] [DistribMulAction G V] in
theorem Node.objAt?_modifyAt_add (c : Node G V) :
    ∀ (a m : List Nat) (t : Node G V) (d : Obj G V), t.objAt? m = some d →
      (Node.modifyAt (Node.addChild c) a t).objAt? m = some d := by
  intro a
  induction a with
  | nil =>
    intro m t d h
    cases t with | mk o cs =>
    cases m with
    | nil => exact h
    | cons k m0 =>
      simp only [Node.modifyAt, Node.addChild, Node.objAt?] at h ⊢
      cases hc : cs[k]? with
      | none => rw [hc] at h; cases h
      | some c' =>
        have hk : k < cs.length := by
          by_contra hk
          rw [List.getElem?_eq_none (by omega)] at hc
          cases hc
        rw [List.getElem?_append_left hk, hc]
        rw [hc] at h
        exact h
  | cons i rest ih =>
    intro m t d h
    cases t with | mk o cs =>
    cases m with
    | nil => exact h
    | cons k m0 =>
      simp only [Node.modifyAt, Node.objAt?, List.getElem?_mapIdx] at h ⊢
      cases hc : cs[k]? with
      | none => rw [hc] at h; cases h
      | some c' =>
        rw [hc] at h
        simp only [Option.map_some]
        by_cases hk : k = i
        · simp only [hk, if_true]
          exact ih m0 c' d h
        · simp only [hk, if_false]
          exact h

omit [Group G] [AddCommGroup V] [DistribMulAction G V] in
theorem Node.objAt?_modifyAt_remove (j : Nat) :
    ∀ (a m m' : List Nat) (t : Node G V), trackRemove a j m = some m' →
      (Node.modifyAt (Node.removeChild j) a t).objAt? m' = t.objAt? m := by
  intro a
  induction a with
  | nil =>
    intro m m' t h
    cases t with | mk o cs =>
    cases m with
    | nil => simp only [trackRemove, Option.some.injEq] at h; subst h; rfl
    | cons k m0 =>
      simp only [trackRemove] at h
      by_cases hk : k = j
      · simp [hk] at h
      · simp only [hk, if_false] at h
        by_cases hjk : j < k
        · simp only [hjk, if_true, Option.some.injEq] at h
          subst h
          simp only [Node.modifyAt, Node.removeChild, Node.objAt?, List.getElem?_eraseIdx]
          have h1 : ¬ (k - 1 < j) := by omega
          have h2 : k - 1 + 1 = k := by omega
          simp only [h1, if_false, h2]
        · simp only [hjk, if_false, Option.some.injEq] at h
          subst h
          simp only [Node.modifyAt, Node.removeChild, Node.objAt?, List.getElem?_eraseIdx]
          have h1 : k < j := by omega
          simp only [h1, if_true]
  | cons x b ih =>
    intro m m' t h
    cases t with | mk o cs =>
    cases m with
    | nil => simp only [trackRemove, Option.some.injEq] at h; subst h; rfl
    | cons k m0 =>
      simp only [trackRemove] at h
      by_cases hx : x = k
      · subst hx
        simp only [if_true, Option.map_eq_some_iff] at h
        obtain ⟨r', hr', rfl⟩ := h
        simp only [Node.modifyAt, Node.objAt?, List.getElem?_mapIdx]
        cases hc : cs[x]? with
        | none => rfl
        | some c' =>
          simp only [Option.map_some, if_true]
          exact ih m0 r' c' hr'
      · simp only [hx, if_false, Option.some.injEq] at h
        subst h
        simp only [Node.modifyAt, Node.objAt?, List.getElem?_mapIdx]
        cases hc : cs[k]? with
        | none => rfl
        | some c' =>
          have : ¬ k = x := fun e => hx e.symm
          simp only [Option.map_some, this, if_false]

omit [Group G] [AddCommGroup V] [DistribMulAction G V] in
theorem trackRemove_cons (a : List Nat) (j k : Nat) (m0 m' : List Nat) (h : trackRemove a j (k :: m0) = some m') :
    ∃ k' m0', m' = k' :: m0' := by
  cases a with
  | nil =>
    simp only [trackRemove] at h
    split at h
    · cases h
    · split at h <;> (cases h; exact ⟨_, _, rfl⟩)
  | cons x b =>
    simp only [trackRemove] at h
    split at h
    · simp only [Option.map_eq_some_iff] at h
      obtain ⟨r', _, rfl⟩ := h
      exact ⟨_, _, rfl⟩
    · cases h; exact ⟨_, _, rfl⟩

omit [Group G] [AddCommGroup V] [DistribMulAction G V] in
theorem Op.idx_lt (N : Nat) (hN : 1 ≤ N) (op : Op G V) (hadm : op.AdmAt N) (i : Nat) (hi : i < op.newLen N) :
    op.idx N i < N := by
  unfold Op.idx
  cases ha : op.addr.isEmpty with
  | false =>
    have : op.addr ≠ [] := by intro e; rw [e] at ha; simp at ha
    rw [hadm.2 this] at hi
    simpa using hi
  | true =>
    simp only [if_true]
    cases op with
    | move a inp s => simp only [Op.effect, winIdx]; omega
    | rotate a rot an s => simp only [Op.effect, winIdx]; omega
    | setPos a Y =>
      by_cases hY : Y.isEmpty
      · simp only [Op.newLen, Op.effect, hY, if_true] at hi ⊢; simpa using hi
      · simp only [Op.newLen, Op.effect, hY, Bool.false_eq_true, if_false] at hi ⊢
        exact psIndex_lt N _ i hN hi
    | setOri a Q =>
      by_cases hQ : Q.isEmpty
      · simp only [Op.newLen, Op.effect, hQ, if_true] at hi ⊢; simpa using hi
      · simp only [Op.newLen, Op.effect, hQ, Bool.false_eq_true, if_false] at hi ⊢
        exact psIndex_lt N _ i hN hi
    | reset a => simp only [Op.effect]; omega
    | rejected => simp only [Op.newLen, Op.effect] at hi ⊢; simpa using hi

omit [Group G] [AddCommGroup V] [DistribMulAction G V] in
theorem Op.newLen_pos (N : Nat) (hN : 1 ≤ N) (o : Op G V) : 1 ≤ o.newLen N := by
  simp only [Op.newLen]
  cases he : o.effect N with
  | none => exact hN
  | some p =>
    cases o with
    | move a inp s => simp only [Op.effect, Option.some.injEq] at he; subst he; exact window_newLen_pos _ _ _ _ hN
    | rotate a rot an s => simp only [Op.effect, Option.some.injEq] at he; subst he; exact window_newLen_pos _ _ _ _ hN
    | setPos a Y =>
      simp only [Op.effect] at he
      split at he
      · cases he
      · rename_i hY
        cases he
        exact List.length_pos_iff.mpr (by simpa using hY)
    | setOri a Q =>
      simp only [Op.effect] at he
      split at he
      · cases he
      · rename_i hQ
        cases he
        exact List.length_pos_iff.mpr (by simpa using hQ)
    | reset a => simp only [Op.effect, Option.some.injEq] at he; subst he; exact le_refl 1
    | rejected => simp [Op.effect] at he

/-- one base operation and a member it does not touch -/
theorem objAt_stepOp (o : Obj G V) (cs : List (Node G V)) (N : Nat) (hN : 1 ≤ N) (hU : (Node.mk o cs).UniformLen N)
    (op : Op G V) (hadm : op.AdmAt N) (k : Nat) (m0 : List Nat) (d : Obj G V)
    (htr : ∃ m', op.track (k :: m0) = some m') (hd : (Node.mk o cs).objAt? (k :: m0) = some d) :
    op.track (k :: m0) = some (k :: m0) ∧
    ∃ d', ((Node.mk o cs).step op).objAt? (k :: m0) = some d' ∧
      relPath ((Node.mk o cs).step op).obj d' = reindex (op.idx N) (op.newLen N) (relPath o d) := by
  have ho := hU o (by simp [Node.objs])
  have hdl := hU d (Node.objAt?_mem _ _ _ hd)
  have hrl := length_relPath o d N ho hdl
  rw [Node.step_eq_local]
  obtain ⟨m', hm'⟩ := htr
  unfold Op.track at hm' ⊢
  unfold Op.idx
  cases hn : op.isNoop with
  | true =>
    have he := op.effect_of_noop N hn
    have hnl : op.newLen N = N := by simp only [Op.newLen, he]
    simp only [Bool.true_or, if_true, he, hnl]
    refine ⟨trivial, d, hd, ?_⟩
    rw [Node.obj_mk]
    split <;> exact (reindex_id N _ hrl).symm
  | false =>
    simp only [hn, Bool.false_or, Bool.false_eq_true, if_false] at hm' ⊢
    cases ha : op.addr with
    | nil =>
      simp only [List.isEmpty_nil, if_true]
      obtain ⟨N', σ, he⟩ := op.effect_of_not_noop N hn
      obtain ⟨hc, _⟩ := Op.local_char o cs N hN hU op hadm.1 N' σ he
      obtain ⟨d', h1, _, h3⟩ := objAt_of_char hc hU k m0 d hd
      have hnl : op.newLen N = N' := by simp only [Op.newLen, he]
      have hobj : (op.local (Node.mk o cs)).obj = objStep o op := by
        obtain ⟨F, e, _⟩ := hc
        rw [e, Node.obj_mk]
      refine ⟨trivial, d', h1, ?_⟩
      simp only [Node.modifyAt, he, hnl, hobj]
      exact h3
    | cons i rest =>
      rw [ha] at hm'
      simp only [List.isEmpty_cons, Bool.false_eq_true, if_false] at hm' ⊢
      have hlen : op.newLen N = N := hadm.2 (by rw [ha]; simp)
      cases hp : (i :: rest).isPrefixOf (k :: m0) with
      | true => rw [hp] at hm'; simp at hm'
      | false =>
        simp only [Bool.false_eq_true, if_false, hlen]
        refine ⟨trivial, d, ?_, ?_⟩
        · rw [Node.objAt?_modifyAt_of_not_prefix _ _ _ _ hp]
          exact hd
        · exact (reindex_id N _ hrl).symm

section hops
variable {α : Type} [Kern.Num α]

omit [AddCommGroup V] [DistribMulAction G V] in
theorem HOp.idx_lt (sc : Scipy α G) (N : Nat) (hN : 1 ≤ N) (op : HOp α G V) (hadm : op.AdmAt sc N) (i : Nat)
    (hi : i < op.newLen sc N) : op.idx sc N i < N := by
  cases op with
  | base o => exact Op.idx_lt N hN o hadm i hi
  | rotFrom a e an s => exact Op.idx_lt N hN _ hadm i hi
  | add a c => exact hi
  | remove a j => exact hi

/-- one operation of the full set and a member it does not touch -/
theorem objAt_hstep (sc : Scipy α G) (t : Node G V) (N : Nat) (hN : 1 ≤ N) (hU : t.UniformLen N)
    (op : HOp α G V) (hadm : op.AdmAt sc N) (k : Nat) (m0 : List Nat) (m' : List Nat) (d : Obj G V)
    (htr : op.track sc (k :: m0) = some m') (hd : t.objAt? (k :: m0) = some d) :
    (∃ k' m0', m' = k' :: m0') ∧
    ∃ d', (t.hstep sc op).objAt? m' = some d' ∧
      relPath (t.hstep sc op).obj d' = reindex (op.idx sc N) (op.newLen sc N) (relPath t.obj d) := by
  cases t with | mk o cs =>
  have ho := hU o (by simp [Node.objs])
  have hdl := hU d (Node.objAt?_mem _ _ _ hd)
  have hrl := length_relPath o d N ho hdl
  cases op with
  | base b =>
    obtain ⟨h1, h2⟩ := objAt_stepOp o cs N hN hU b hadm k m0 d ⟨m', htr⟩ hd
    have : m' = k :: m0 := by
      have := htr.symm.trans h1
      exact (Option.some.inj this)
    subst this
    exact ⟨⟨_, _, rfl⟩, h2⟩
  | rotFrom a e an s =>
    obtain ⟨h1, h2⟩ := objAt_stepOp o cs N hN hU _ hadm k m0 d ⟨m', htr⟩ hd
    have : m' = k :: m0 := by
      have := htr.symm.trans h1
      exact (Option.some.inj this)
    subst this
    exact ⟨⟨_, _, rfl⟩, h2⟩
  | add a c =>
    simp only [HOp.track, Option.some.injEq] at htr
    subst htr
    refine ⟨⟨_, _, rfl⟩, d, Node.objAt?_modifyAt_add c a _ _ d hd, ?_⟩
    have : ((Node.mk o cs).hstep sc (.add a c)).obj = o :=
      Node.obj_modifyAt _ (fun m => by cases m; rfl) a _
    rw [this]
    exact (reindex_id N _ hrl).symm
  | remove a j =>
    simp only [HOp.track] at htr
    refine ⟨trackRemove_cons a j k m0 m' htr, d, ?_, ?_⟩
    · show (Node.modifyAt (Node.removeChild j) a (Node.mk o cs)).objAt? m' = some d
      rw [Node.objAt?_modifyAt_remove j a _ m' _ htr]
      exact hd
    · have : ((Node.mk o cs).hstep sc (.remove a j)).obj = o :=
        Node.obj_modifyAt _ (fun m => by cases m; rfl) a _
      rw [this]
      exact (reindex_id N _ hrl).symm

omit [AddCommGroup V] [DistribMulAction G V] in
theorem histIdx_lt (sc : Scipy α G) : ∀ (ops : List (HOp α G V)) (N : Nat), 1 ≤ N → AdmissibleAt sc N ops →
    ∀ i, i < histLen sc N ops → histIdx sc N ops i < N
  | [], N, _, _, i, hi => hi
  | op :: rest, N, hN, hadm, i, hi => by
    simp only [histIdx, histLen, Function.comp_apply] at hi ⊢
    have hpos : 1 ≤ op.newLen sc N := by
      cases op with
      | base o => exact Op.newLen_pos N hN o
      | rotFrom a e an s => exact Op.newLen_pos N hN _
      | add a c => exact hN
      | remove a j => exact hN
    exact HOp.idx_lt sc N hN op hadm.1 _ (histIdx_lt sc rest _ hpos hadm.2 i hi)

/-- **the members a history does not touch keep their relative pose, re-indexed by `histIdx`** (induction over the
operation list; at every step the member is either mapped rigidly with the collection or not touched at all) -/
theorem objAt_history (sc : Scipy α G) : ∀ (ops : List (HOp α G V)) (t : Node G V) (N : Nat), 1 ≤ N →
    t.UniformLen N → AdmissibleAt sc N ops → ∀ (k : Nat) (m0 m' : List Nat) (d : Obj G V),
    histTrack sc ops (k :: m0) = some m' → t.objAt? (k :: m0) = some d →
    ∃ d', (ops.foldl (Node.hstep sc) t).objAt? m' = some d' ∧
      relPath (ops.foldl (Node.hstep sc) t).obj d' =
        reindex (histIdx sc N ops) (histLen sc N ops) (relPath t.obj d) := by
  intro ops
  induction ops with
  | nil =>
    intro t N hN hU _ k m0 m' d htr hd
    simp only [histTrack, Option.some.injEq] at htr
    subst htr
    refine ⟨d, hd, ?_⟩
    simp only [List.foldl_nil, histIdx, histLen]
    have ho := hU t.obj (Node.mem_objs_self t)
    exact (reindex_id N _ (length_relPath t.obj d N ho (hU d (Node.objAt?_mem _ _ _ hd)))).symm
  | cons op rest ih =>
    intro t N hN hU hadm k m0 m' d htr hd
    simp only [histTrack] at htr
    cases h1 : op.track sc (k :: m0) with
    | none => rw [h1] at htr; cases htr
    | some m1 =>
      rw [h1] at htr
      simp only [Option.bind_some] at htr
      obtain ⟨⟨k1, m01, rfl⟩, d1, hd1, hr1⟩ := objAt_hstep sc t N hN hU op hadm.1 k m0 m1 d h1 hd
      obtain ⟨_, hU1, hN1⟩ := absH_hstep sc t N hN hU op hadm.1
      obtain ⟨d', hd', hr'⟩ := ih _ _ hN1 hU1 hadm.2 k1 m01 m' d1 htr hd1
      refine ⟨d', hd', ?_⟩
      simp only [List.foldl_cons, histIdx, histLen]
      rw [hr', hr1, reindex_reindex]
      intro i hi
      exact histIdx_lt sc rest _ hN1 hadm.2 i hi
end hops

end grp
end MagpyVerif
