/- C10 helper lemmas for the pose setters on collections (position=, orientation=) -/
import MagpyVerif.Lemmas.RelPose
namespace MagpyVerif
open Gen Spec
variable {G V : Type}

section vec
variable [AddCommGroup V]

def vadd (a b : List V) : List V := List.zipWith (· + ·) a b
def vsub (a b : List V) : List V := List.zipWith (· - ·) a b

theorem vadd_vsub_self (Y a : List V) (h : a.length = Y.length) : vadd Y (vsub a a) = Y := by
  apply List.ext_getElem
  · simp [vadd, vsub, h]
  · intro i h1 h2
    simp [vadd, vsub]

theorem vadd_vsub_chain (Y a b c : List V) (ha : a.length = Y.length) (hb : b.length = Y.length)
    (hc : c.length = Y.length) :
    vadd (vadd Y (vsub b a)) (vsub c b) = vadd Y (vsub c a) := by
  apply List.ext_getElem
  · simp [vadd, vsub, ha, hb, hc]
  · intro i h1 h2
    simp only [vadd, vsub, List.getElem_zipWith]
    abel

theorem vadd_vsub_cancel (a d : List V) (h : d.length = a.length) : vadd a (vsub d a) = d := by
  apply List.ext_getElem
  · simp [vadd, vsub, h]
  · intro i h1 h2
    simp only [vadd, vsub, List.getElem_zipWith]
    abel
end vec

/-- an object with both paths padded/sliced to length `M` -/
def psObj (M : Nat) (d : Obj G V) : Obj G V := { pos := padSlice M d.pos, ori := padSlice M d.ori }

section
variable [AddCommGroup V]

theorem Node.all_objs {P : Obj G V → Prop} : ∀ (n : Node G V), n.All P → ∀ d ∈ n.objs, P d := by
  apply Node.induct
  intro o cs ih h d hd
  rw [Node.all_mk] at h
  rw [Node.objs] at hd
  rcases List.mem_cons.mp hd with rfl | hd
  · exact h.1
  · obtain ⟨l, hl, hdl⟩ := List.mem_flatten.mp hd
    obtain ⟨c, hc, rfl⟩ := List.mem_map.mp hl
    exact ih c hc (h.2 c hc) d hdl

/-- what `position = Y` does to every object of the subtree of `n` (pre-order): the new path `Y`
shifted by the object's (padded/sliced) offset from `n`, orientation padded/sliced -/
theorem Node.setPosition_objs :
    ∀ (n : Node G V) (Y : List V), Y ≠ [] → n.All Obj.Inv →
      (n.setPosition Y).objs = n.objs.map (fun d =>
        { pos := vadd Y (vsub (padSlice Y.length d.pos) (padSlice Y.length n.obj.pos)),
          ori := padSlice Y.length d.ori }) := by
  apply Node.induct
  intro o cs ih Y hY hall
  rw [Node.all_mk] at hall
  have hM : 0 < Y.length := List.length_pos_iff.mpr hY
  have hop : o.pos ≠ [] := ne_nil_of_one_le hall.1.2
  have hlo : (padSlice Y.length o.pos).length = Y.length := length_padSlice _ _ hop
  rw [Node.setPosition, Node.objs, Node.objs, List.map_cons]
  congr 1
  · show setPositionObj Y o = _
    simp only [setPositionObj, Node.obj]
    rw [vadd_vsub_self Y _ hlo]
  · rw [List.map_flatten, List.map_map, List.map_map]
    congr 1
    apply List.map_congr_left
    intro c hc
    have hcinv : c.All Obj.Inv := hall.2 c hc
    have hcp : c.obj.pos ≠ [] := ne_nil_of_one_le (Node.obj_inv_of_all hcinv).2
    have hlc : (padSlice Y.length c.obj.pos).length = Y.length := length_padSlice _ _ hcp
    simp only [Function.comp_apply]
    have hYc : (List.zipWith (· + ·) Y (List.zipWith (· - ·) (padSlice Y.length c.obj.pos) (padSlice Y.length o.pos))).length = Y.length := by
      simp [hlc, hlo]
    have hYc_ne : List.zipWith (· + ·) Y (List.zipWith (· - ·) (padSlice Y.length c.obj.pos) (padSlice Y.length o.pos)) ≠ [] := by
      intro h; rw [h] at hYc; simp at hYc; omega
    rw [ih c hc _ hYc_ne hcinv]
    apply List.map_congr_left
    intro d hd
    rw [hYc]
    have hdinv : d.Inv := Node.all_objs c hcinv d hd
    have hdp : d.pos ≠ [] := ne_nil_of_one_le hdinv.2
    have hld : (padSlice Y.length d.pos).length = Y.length := length_padSlice _ _ hdp
    have := vadd_vsub_chain Y (padSlice Y.length o.pos) (padSlice Y.length c.obj.pos) (padSlice Y.length d.pos) hlo hlc hld
    simp only [vadd, vsub] at this ⊢
    rw [this]
    rfl

theorem getElem?_of_len {α} (xs : List α) (M i : Nat) (h : xs.length = M) :
    (i < M → ∃ x, xs[i]? = some x) ∧ (¬ i < M → xs[i]? = none) := by
  constructor
  · intro hi; exact ⟨xs[i], List.getElem?_eq_getElem (by omega)⟩
  · intro hi; exact List.getElem?_eq_none (by omega)
end

section
variable [Group G] [AddCommGroup V] [DistribMulAction G V]

/-- relative pose after `position = Y` on the collection: the padded/sliced relative pose -/
theorem rel_setPosition (Y : List V) (c d : Obj G V) (hY : Y ≠ []) (hc : c.Inv) (hd : d.Inv) (i : Nat) :
    relAt { pos := Y, ori := padSlice Y.length c.ori }
          { pos := vadd Y (vsub (padSlice Y.length d.pos) (padSlice Y.length c.pos)), ori := padSlice Y.length d.ori } i =
      relAt (psObj Y.length c) (psObj Y.length d) i := by
  have hcp : c.pos ≠ [] := ne_nil_of_one_le hc.2
  have hco : c.ori ≠ [] := ne_nil_of_one_le (hc.1 ▸ hc.2)
  have hdp : d.pos ≠ [] := ne_nil_of_one_le hd.2
  have hdo : d.ori ≠ [] := ne_nil_of_one_le (hd.1 ▸ hd.2)
  have l1 := length_padSlice Y.length _ hcp
  have l2 := length_padSlice Y.length _ hco
  have l3 := length_padSlice Y.length _ hdp
  have l4 := length_padSlice Y.length _ hdo
  unfold relAt psObj
  simp only
  by_cases hi : i < Y.length
  · obtain ⟨y, hy⟩ := (getElem?_of_len Y _ i rfl).1 hi
    obtain ⟨pc, hpc⟩ := (getElem?_of_len _ _ i l1).1 hi
    obtain ⟨qc, hqc⟩ := (getElem?_of_len _ _ i l2).1 hi
    obtain ⟨pd, hpd⟩ := (getElem?_of_len _ _ i l3).1 hi
    obtain ⟨qd, hqd⟩ := (getElem?_of_len _ _ i l4).1 hi
    have hv : (vadd Y (vsub (padSlice Y.length d.pos) (padSlice Y.length c.pos)))[i]? = some (y + (pd - pc)) := by
      simp [vadd, vsub, List.getElem?_zipWith, hy, hpd, hpc]
    simp only [hy, hqc, hv, hqd, hpc, hpd]
    congr 2
    abel_nf
  · have h1 := (getElem?_of_len Y _ i rfl).2 hi
    have h2 := (getElem?_of_len _ _ i l1).2 hi
    simp [h1, h2]

omit [AddCommGroup V] [DistribMulAction G V] in
theorem bcast_squeezeRot (T : List G) (i : Nat) (hi : i < T.length) :
    bcast (Node.squeezeRot T) i = T[i]? := by
  match T, hi with
  | [x], hi => simp at hi; subst hi; rfl
  | [], hi => simp at hi
  | x :: y :: zs, hi =>
    simp only [Node.squeezeRot, bcast]
    congr 1
    simp at hi ⊢
    omega

omit [AddCommGroup V] [DistribMulAction G V] in
theorem squeezeRot_facts (T : List G) (hT : T ≠ []) :
    (Node.squeezeRot T).WF ∧ (Node.squeezeRot T).len0 ≤ T.length ∧
    ((Node.squeezeRot T).len0 = T.length ∨ T.length = 1) := by
  match T, hT with
  | [x], _ => simp [Node.squeezeRot, PathIn.WF, PathIn.len0]
  | x :: y :: zs, _ => simp [Node.squeezeRot, PathIn.WF, PathIn.len0]

theorem applyRotation_some_pp (r : PathIn G) (a : PathIn V) (s : Option Int) (pp : Option (List V)) (o : Obj G V) :
    applyRotation r (some a) s pp o = applyRotation r (some a) s none o := by
  simp only [applyRotation]
  exact aligned_some_pp _ _ _ _ _

theorem Node.rotate_objs_anchor (r : PathIn G) (a : PathIn V) (s : Option Int) :
    ∀ (n : Node G V) (pp : Option (List V)),
      (n.rotate r (some a) s pp).objs = n.objs.map (applyRotation r (some a) s none) := by
  apply Node.induct
  intro o cs ih pp
  rw [Node.rotate.eq_def]
  simp only
  rw [Node.objs, Node.objs, List.map_cons, List.map_flatten, List.map_map, List.map_map, applyRotation_some_pp]
  congr 2
  apply List.map_congr_left
  intro c hc
  exact ih c hc _

/-- objects after `orientation = Q` on a collection: the collection itself takes `Q` (position
padded/sliced); every descendant is padded/sliced and then rotated about the collection's position
path by `Q_i * old_i⁻¹` -/
theorem Node.setOrientation_objs (o : Obj G V) (cs : List (Node G V)) (Q : List G) (hQ : Q ≠ [])
    (hall : (Node.mk o cs).All Obj.Inv) :
    let M := Q.length
    let t := Node.squeezeRot (List.zipWith (fun a b => a * b⁻¹) Q (padSlice M o.ori))
    ((Node.mk o cs).setOrientation Q).objs =
      { pos := padSlice M o.pos, ori := Q } ::
        ((cs.map Node.objs).flatten).map (fun d =>
          applyRotation t (some (.vector (padSlice M o.pos))) (some 0) none (psObj M d)) := by
  intro M t
  rw [Node.all_mk] at hall
  have hM : 0 < Q.length := List.length_pos_iff.mpr hQ
  have hop : o.pos ≠ [] := ne_nil_of_one_le hall.1.2
  have hlo : (padSlice Q.length o.pos).length = Q.length := length_padSlice _ _ hop
  rw [Node.setOrientation.eq_def]
  simp only
  rw [Node.objs, List.map_flatten, List.map_map, List.map_map]
  congr 2
  apply List.map_congr_left
  intro c hc
  have hcinv : c.All Obj.Inv := hall.2 c hc
  have hcp : c.obj.pos ≠ [] := ne_nil_of_one_le (Node.obj_inv_of_all hcinv).2
  simp only [Function.comp_apply]
  rw [Node.rotate_objs_anchor, hlo]
  have hYne : padSlice Q.length c.obj.pos ≠ [] := by
    intro h; have := length_padSlice Q.length _ hcp; rw [h] at this; simp at this; omega
  rw [Node.setPosition_objs c _ hYne hcinv, List.map_map]
  apply List.map_congr_left
  intro d hd
  simp only [Function.comp_apply, length_padSlice _ _ hcp]
  have hdinv : d.Inv := Node.all_objs c hcinv d hd
  have hdp : d.pos ≠ [] := ne_nil_of_one_le hdinv.2
  have hld : (padSlice Q.length d.pos).length = (padSlice Q.length c.obj.pos).length := by
    rw [length_padSlice _ _ hdp, length_padSlice _ _ hcp]
  rw [vadd_vsub_cancel _ _ hld]
  rfl

/-- relative pose after `orientation = Q` on the collection -/
theorem rel_setOrientation (Q : List G) (hQ : Q ≠ []) (c d : Obj G V) (hc : c.Inv) (hd : d.Inv) (i : Nat) :
    let M := Q.length
    let t := Node.squeezeRot (List.zipWith (fun a b => a * b⁻¹) Q (padSlice M c.ori))
    relAt { pos := padSlice M c.pos, ori := Q }
          (applyRotation t (some (.vector (padSlice M c.pos))) (some 0) none (psObj M d)) i =
      relAt (psObj M c) (psObj M d) i := by
  intro M t
  have hM : 0 < Q.length := List.length_pos_iff.mpr hQ
  have hcp : c.pos ≠ [] := ne_nil_of_one_le hc.2
  have hco : c.ori ≠ [] := ne_nil_of_one_le (hc.1 ▸ hc.2)
  have hdp : d.pos ≠ [] := ne_nil_of_one_le hd.2
  have hdo : d.ori ≠ [] := ne_nil_of_one_le (hd.1 ▸ hd.2)
  have l1 : (padSlice M c.pos).length = M := length_padSlice M _ hcp
  have l2 : (padSlice M c.ori).length = M := length_padSlice M _ hco
  have l3 : (padSlice M d.pos).length = M := length_padSlice M _ hdp
  have l4 : (padSlice M d.ori).length = M := length_padSlice M _ hdo
  set T := List.zipWith (fun a b => a * b⁻¹) Q (padSlice M c.ori) with hT
  have lT : T.length = M := by simp [hT, l2, M]
  have hTne : T ≠ [] := by intro h; rw [h] at lT; simp at lT; omega
  obtain ⟨wf, _, hlen0⟩ := squeezeRot_facts T hTne
  have hpd_ne : (psObj M d : Obj G V).pos ≠ [] := by
    simp only [psObj]; intro h; rw [h] at l3; simp at l3; omega
  have hat := applyRotation_at t (some (.vector (padSlice M c.pos))) (some 0) (psObj M d) hpd_ne
    (by simp only [psObj]; rw [l3, l4]) wf
    (by intro a ha; cases ha; show padSlice M c.pos ≠ []; intro h; rw [h] at l1; simp at l1; omega) i
  have hatp := congrArg Prod.fst hat
  have hato := congrArg Prod.snd hat
  -- the window: start = 0, vector input of length M on a path of length M
  have ht : t = Node.squeezeRot T := rfl
  have ha0 : (PathIn.vector (padSlice M c.pos)).len0 = M := by simp only [PathIn.len0, l1]
  have hL : max t.len0 (PathIn.vector (padSlice M c.pos)).len0 = M := by
    rw [ha0, ht]
    have h1 : (Node.squeezeRot T).len0 ≤ M := by
      have := (squeezeRot_facts T hTne).2.1
      omega
    exact max_eq_right h1
  have hw : window (t.isScalar && (PathIn.vector (padSlice M c.pos)).isScalar) M
      (max t.len0 (PathIn.vector (padSlice M c.pos)).len0) (some 0) = ⟨0, 0, M, M⟩ := by
    simp only [PathIn.isScalar, Bool.and_false, hL, window, normStart]
    simp
  simp only [rotateAt, psObj, l3, hw, baseAt] at hatp hato
  unfold relAt psObj
  simp only
  rw [hatp, hato]
  by_cases hi : i < M
  · obtain ⟨pc, hpc⟩ := (getElem?_of_len _ _ i l1).1 hi
    obtain ⟨qc, hqc⟩ := (getElem?_of_len _ _ i l2).1 hi
    obtain ⟨pd, hpd⟩ := (getElem?_of_len _ _ i l3).1 hi
    obtain ⟨qd, hqd⟩ := (getElem?_of_len _ _ i l4).1 hi
    obtain ⟨q, hq⟩ := (getElem?_of_len Q M i rfl).1 hi
    have hTi : T[i]? = some (q * qc⁻¹) := by
      simp [hT, List.getElem?_zipWith, hq, hqc]
    have hbt : bcast t i = some (q * qc⁻¹) := by
      rw [bcast_squeezeRot T i (by omega), hTi]
    have hba : bcast (PathIn.vector (padSlice M c.pos)) i = some pc := by
      simp only [bcast, l1]
      have : min i (M - 1) = i := by omega
      rw [this, hpc]
    have hmin : min (i - 0) (M - 1) = i := by omega
    simp only [hi, if_true, hmin, l3, l4, hpd, hqd, Option.map_some, Nat.zero_le, true_and, Nat.sub_zero, hbt, hba,
      hpc, hq]
    have hmin2 : min i (M - 1) = i := by omega
    simp only [hmin2, hpd, hqd, hqc, Option.map_some]
    congr 2
    · rw [add_sub_cancel_right, smul_smul]
      congr 1
      group
    · group
  · have h1 := (getElem?_of_len _ _ i l1).2 hi
    simp [hi, h1]

/-- index of the old path entry that entry `i` of a path padded/sliced from length `N` to `M` shows -/
def psIndex (N M i : Nat) : Nat := if M ≤ N then i + (N - M) else min i (N - 1)

omit [AddCommGroup V] [DistribMulAction G V] in
theorem getElem?_psIndex {α} (xs : List α) (N M i : Nat) (h : xs.length = N) (hN : 1 ≤ N) :
    (padSlice M xs)[i]? = if i < M then xs[psIndex N M i]? else none := by
  rw [getElem?_padSlice M xs (ne_nil_of_one_le (by omega)) i, h]
  unfold psIndex
  by_cases h1 : i < M <;> by_cases h2 : M ≤ N <;> simp [h1, h2]

/-- padded/sliced relative pose = old relative pose at the retained index -/
theorem rel_psObj (c d : Obj G V) (N M : Nat) (hN : 1 ≤ N)
    (hc : c.pos.length = N ∧ c.ori.length = N) (hd : d.pos.length = N ∧ d.ori.length = N) (i : Nat) :
    relAt (psObj M c) (psObj M d) i = if i < M then relAt c d (psIndex N M i) else none := by
  unfold relAt psObj
  simp only [getElem?_psIndex _ N M i hc.1 hN, getElem?_psIndex _ N M i hc.2 hN,
    getElem?_psIndex _ N M i hd.1 hN, getElem?_psIndex _ N M i hd.2 hN]
  by_cases hi : i < M <;> simp [hi]
end
end MagpyVerif
