/-
Lemmas/DisplayWind.lean — winding (orientation) of the display triangulations for EVERY size (C19):
directed edges of `make_CylinderSegment`, `make_Prism`, `make_Pyramid`, `make_Arrow`, `make_Ellipsoid`
(index arrays of Model/Display.lean and Model/DisplayIdx.lean in the closed forms proved in Lemmas/Display.lean and
Lemmas/DisplayIdx.lean).

A triangle `(i, j, k)` uses the directed edges `i→j, j→k, k→i` (`Mesh.dirEdges`).  A triangulated surface is consistently
wound iff no directed edge is used twice (`Wound`); if it is also closed, every edge is then used exactly once in each
direction (`closed_wound_each_direction_once`).
-/
import Mathlib.Tactic
import MagpyVerif.Lemmas.DisplayIdx
namespace MagpyVerif.Display
open MagpyVerif.Mesh

/-! ### generalities -/

/-- consistently wound: no directed edge is used by two triangles (nor twice by one) -/
def Wound (fs : List Face) : Prop := (dirOf fs).Nodup

theorem dirOf_append (a b : List Face) : dirOf (a ++ b) = dirOf a ++ dirOf b := List.flatMap_append

theorem dirOf_cons (f : Face) (fs : List Face) : dirOf (f :: fs) = dirEdges f ++ dirOf fs := rfl

theorem count_dirOf_map (l : List Nat) (t : Nat → Face) (e : Edge) :
    (dirOf (l.map t)).count e =
      (l.map fun q => ((t q).1, (t q).2.1)).count e + (l.map fun q => ((t q).2.1, (t q).2.2)).count e +
        (l.map fun q => ((t q).2.2, (t q).1)).count e := by
  induction l with
  | nil => rfl
  | cons a l ih =>
    simp only [List.map_cons, dirOf_cons, List.count_append, ih, dirEdges, List.count_cons, List.count_nil]
    omega

/-- the directed edges of a family of triangles, up to order: the three edge families -/
theorem dirOf_map_perm (l : List Nat) (t : Nat → Face) :
    (dirOf (l.map t)).Perm
      ((l.map fun q => ((t q).1, (t q).2.1)) ++ (l.map fun q => ((t q).2.1, (t q).2.2)) ++
        (l.map fun q => ((t q).2.2, (t q).1))) := by
  rw [List.perm_iff_count]
  intro e
  rw [count_dirOf_map, List.count_append, List.count_append]

theorem sortPair_eq_iff (x y a b : Nat) : sortPair x y = sortPair a b ↔ (x, y) = (a, b) ∨ (x, y) = (b, a) := by
  unfold sortPair
  split_ifs <;> simp only [Prod.mk.injEq] <;> omega

/-- an undirected edge `{a, b}`, `a ≠ b`, is used as often as `a→b` and `b→a` together -/
theorem edgesOf_count_eq_dir (fs : List Face) (a b : Nat) (hab : a ≠ b) :
    (edgesOf fs).count (sortPair a b) = (dirOf fs).count (a, b) + (dirOf fs).count (b, a) := by
  have one : ∀ x y : Nat, [sortPair x y].count (sortPair a b) = [(x, y)].count (a, b) + [(x, y)].count (b, a) := by
    intro x y
    have h := sortPair_eq_iff x y a b
    simp only [List.count_cons, List.count_nil, beq_iff_eq, Nat.zero_add]
    by_cases h1 : (x, y) = (a, b)
    · have h2 : (x, y) ≠ (b, a) := by
        rw [h1]; simp only [ne_eq, Prod.mk.injEq, not_and]; intro h; exact absurd h hab
      rw [if_pos (h.2 (Or.inl h1)), if_pos h1, if_neg h2]
    · by_cases h2 : (x, y) = (b, a)
      · rw [if_pos (h.2 (Or.inr h2)), if_neg h1, if_pos h2]
      · rw [if_neg (fun hc => (h.1 hc).elim h1 h2), if_neg h1, if_neg h2]
  induction fs with
  | nil => rfl
  | cons f fs ih =>
    have e1 : (edgesOf (f :: fs)).count (sortPair a b) =
        (edgesOf fs).count (sortPair a b) + ([sortPair f.1 f.2.1].count (sortPair a b) +
          [sortPair f.2.1 f.2.2].count (sortPair a b) + [sortPair f.2.2 f.1].count (sortPair a b)) := by
      rw [sortPair_comm' f.2.2 f.1]
      simp only [edgesOf, List.map_cons, List.count_append, List.count_cons, List.count_nil]
      omega
    have e2 : ∀ e : Edge, (dirOf (f :: fs)).count e =
        [(f.1, f.2.1)].count e + [(f.2.1, f.2.2)].count e + [(f.2.2, f.1)].count e + (dirOf fs).count e := by
      intro e
      simp only [dirOf_cons, List.count_append, dirEdges, List.count_cons, List.count_nil]
      omega
    rw [e1, e2, e2, ih, one, one, one]
    omega

theorem count_two_of_openEdges_nil {fs : List Face} (h : openEdges fs = []) :
    ∀ e ∈ edgesOf fs, (edgesOf fs).count e = 2 := by
  intro e he
  by_contra hc
  have : e ∈ openEdges fs := by
    simp only [openEdges, List.mem_filter, List.mem_eraseDups, bne_iff_ne, ne_eq]
    exact ⟨he, hc⟩
  rw [h] at this
  exact absurd this (by simp)

theorem mem_edgesOf_of_mem_dirOf {fs : List Face} {a b : Nat} (h : (a, b) ∈ dirOf fs) : sortPair a b ∈ edgesOf fs := by
  simp only [dirOf, List.mem_flatMap, dirEdges, List.mem_cons, Prod.mk.injEq, List.not_mem_nil, or_false] at h
  obtain ⟨f, hf, h⟩ := h
  simp only [edgesOf, List.mem_append, List.mem_map]
  rcases h with ⟨rfl, rfl⟩ | ⟨rfl, rfl⟩ | ⟨rfl, rfl⟩
  · exact Or.inl (Or.inl ⟨f, hf, rfl⟩)
  · exact Or.inl (Or.inr ⟨f, hf, rfl⟩)
  · exact Or.inr ⟨f, hf, sortPair_comm' _ _⟩

/-- closed + consistently wound (+ no triangle repeats an index): every directed edge that occurs is used exactly once,
and so is its reverse — every edge of the surface is used exactly once in each direction -/
theorem closed_wound_each_direction_once {fs : List Face} (hc : openEdges fs = []) (hw : Wound fs)
    (hd : ∀ t ∈ fs, t.1 ≠ t.2.1 ∧ t.2.1 ≠ t.2.2 ∧ t.1 ≠ t.2.2) :
    ∀ a b, (a, b) ∈ dirOf fs → (dirOf fs).count (a, b) = 1 ∧ (dirOf fs).count (b, a) = 1 := by
  intro a b h
  have hab : a ≠ b := by
    simp only [dirOf, List.mem_flatMap, dirEdges, List.mem_cons, Prod.mk.injEq, List.not_mem_nil, or_false] at h
    obtain ⟨f, hf, h⟩ := h
    obtain ⟨d1, d2, d3⟩ := hd f hf
    rcases h with ⟨rfl, rfl⟩ | ⟨rfl, rfl⟩ | ⟨rfl, rfl⟩
    · exact d1
    · exact d2
    · exact fun e => d3 e.symm
  have h2 := count_two_of_openEdges_nil hc _ (mem_edgesOf_of_mem_dirOf h)
  rw [edgesOf_count_eq_dir fs a b hab] at h2
  have h1 : (dirOf fs).count (a, b) = 1 := List.count_eq_one_of_mem hw h
  omega

/-! ### `make_CylinderSegment`: the start cap is wound against the rest, for every arc count -/

/-- the two triangles of the cap at `phi1` as the code writes them, and turned over -/
def segStartCap (N : Nat) : List Face := [(0, 2 * N, 3 * N), (N, 0, 3 * N)]
/-- the start cap as the code wrote it BEFORE repo fix 64dd71f (`j.extend([k5, …]); k.extend([j5, …])` for both caps) -/
def segStartCapOld (N : Nat) : List Face := [(0, 3 * N, 2 * N), (N, 3 * N, 0)]
/-- the two triangles of the cap at `phi2` -/
def segEndCap (N : Nat) : List Face := [(0 + N - 1, 3 * N + N - 1, 2 * N + N - 1), (N + N - 1, 3 * N + N - 1, 0 + N - 1)]

theorem segCaps_eq (N : Nat) : segCaps N = segStartCap N ++ segEndCap N := rfl

/-- the directed edges used twice: the boundary of the start-cap quad, `a₀→b₀→d₀→c₀→a₀`
(inner top → outer top → outer bottom → inner bottom at `phi1`) -/
def segBadEdges (N : Nat) : List Edge := [(0, N), (N, 3 * N), (3 * N, 2 * N), (2 * N, 0)]

/-- the directed edges of the four surfaces and the end cap, family by family -/
def segRestDir (N : Nat) : List Edge :=
  (((List.range (N - 1)).map fun q => (q, q + N)) ++ ((List.range (N - 1)).map fun q => (q + N, q + 1)) ++
    ((List.range (N - 1)).map fun q => (q + 1, q))) ++
  (((List.range (N - 1)).map fun q => (q + 1, q + N)) ++ ((List.range (N - 1)).map fun q => (q + N, q + N + 1)) ++
    ((List.range (N - 1)).map fun q => (q + N + 1, q + 1))) ++
  (((List.range (N - 1)).map fun q => (q + 2 * N, q + 1 + 2 * N)) ++ ((List.range (N - 1)).map fun q => (q + 1 + 2 * N, q + N + 2 * N)) ++
    ((List.range (N - 1)).map fun q => (q + N + 2 * N, q + 2 * N))) ++
  (((List.range (N - 1)).map fun q => (q + 1 + 2 * N, q + N + 1 + 2 * N)) ++ ((List.range (N - 1)).map fun q => (q + N + 1 + 2 * N, q + N + 2 * N)) ++
    ((List.range (N - 1)).map fun q => (q + N + 2 * N, q + 1 + 2 * N))) ++
  (((List.range (N - 1)).map fun q => (q, q + 1)) ++ ((List.range (N - 1)).map fun q => (q + 1, q + N + N)) ++
    ((List.range (N - 1)).map fun q => (q + N + N, q))) ++
  (((List.range (N - 1)).map fun q => (q + N + N + 1, q + N + N)) ++ ((List.range (N - 1)).map fun q => (q + N + N, q + 1)) ++
    ((List.range (N - 1)).map fun q => (q + 1, q + N + N + 1))) ++
  (((List.range (N - 1)).map fun q => (q + N, q + N + N + N)) ++ ((List.range (N - 1)).map fun q => (q + N + N + N, q + 1 + N)) ++
    ((List.range (N - 1)).map fun q => (q + 1 + N, q + N))) ++
  (((List.range (N - 1)).map fun q => (q + N + N + 1 + N, q + 1 + N)) ++ ((List.range (N - 1)).map fun q => (q + 1 + N, q + N + N + N)) ++
    ((List.range (N - 1)).map fun q => (q + N + N + N, q + N + N + 1 + N))) ++
  dirOf (segEndCap N)

theorem segRest_perm (N : Nat) : (dirOf (segSpec N ++ segEndCap N)).Perm (segRestDir N) := by
  unfold segSpec segRestDir
  simp only [dirOf_append]
  refine List.Perm.append ?_ (List.Perm.refl _)
  repeat' apply List.Perm.append
  all_goals exact dirOf_map_perm _ _

/-! #### families of directed edges between the four arcs, and when they are pairwise disjoint -/

/-- a family of directed edges between two of the four arcs: `(bu, bv, su, sv, kind)` -/
abbrev Fam := Nat × Nat × Nat × Nat × Nat

def famQs (N kind : Nat) : List Nat :=
  match kind with
  | 0 => List.range (N - 1)
  | 1 => [0]
  | _ => [N - 1]

def famEdge (N : Nat) (f : Fam) (q : Nat) : Edge := (q + f.2.2.1 + f.1 * N, q + f.2.2.2.1 + f.2.1 * N)
def famList (N : Nat) (f : Fam) : List Edge := (famQs N f.2.2.2.2).map (famEdge N f)
def famSig (f : Fam) : Nat × Nat × Nat := (f.1, f.2.1, f.2.2.2.1 + 1 - f.2.2.1)
/-- code of the set of first-vertex offsets: 0: `[0, N-1)`, 1: `[1, N-1]`, 2: `{0}`, 3: `{N-1}` -/
def famU (f : Fam) : Nat := if f.2.2.2.2 = 0 then f.2.2.1 else if f.2.2.2.2 = 1 then 2 else 3
def famOk (f : Fam) : Bool :=
  decide (f.1 < 4) && decide (f.2.1 < 4) && decide (f.2.2.1 ≤ 1) && decide (f.2.2.2.1 ≤ 1) &&
    (f.2.2.2.2 == 0 || (f.2.2.1 == 0 && f.2.2.2.1 == 0))
def famCompat (f g : Fam) : Bool :=
  famSig f != famSig g || [(0, 3), (3, 0), (1, 2), (2, 1), (2, 3), (3, 2)].contains (famU f, famU g)

theorem blk_decode {N o o' b b' : Nat} (ho : o < N) (ho' : o' < N) (hb : b < 4) (hb' : b' < 4)
    (h : o + b * N = o' + b' * N) : b = b' ∧ o = o' := by
  interval_cases b <;> interval_cases b' <;> omega

theorem famQs_lt {N kind q : Nat} (_hN : 2 ≤ N) (h : q ∈ famQs N kind) : q ≤ N - 1 ∧ (kind = 0 → q < N - 1) ∧
    (kind = 1 → q = 0) ∧ (2 ≤ kind → q = N - 1) := by
  unfold famQs at h
  split at h
  · simp at h; omega
  · simp at h; omega
  · rename_i h0 h1
    simp at h
    refine ⟨by omega, fun e => absurd e h0, fun e => absurd e h1, fun _ => h⟩

theorem famQs_nodup (N kind : Nat) : (famQs N kind).Nodup := by
  unfold famQs
  split <;> simp [List.nodup_range]

theorem fams_nodup {N : Nat} (hN : 2 ≤ N) (fams : List Fam) (hok : ∀ f ∈ fams, famOk f = true)
    (hp : fams.Pairwise (fun f g => famCompat f g = true)) : (fams.flatMap (famList N)).Nodup := by
  rw [List.nodup_flatMap]
  constructor
  · intro f hf
    have ok := hok f hf
    obtain ⟨bu, bv, su, sv, kind⟩ := f
    simp only [famOk, Bool.and_eq_true, decide_eq_true_eq, Bool.or_eq_true, beq_iff_eq] at ok
    apply List.Nodup.map_on _ (famQs_nodup N kind)
    intro q _ q' _ h
    simp only [famEdge, Prod.mk.injEq] at h
    omega
  · refine List.Pairwise.imp_of_mem ?_ hp
    intro f g hf hg hc
    have okf := hok f hf
    have okg := hok g hg
    obtain ⟨bu, bv, su, sv, kind⟩ := f
    obtain ⟨bu', bv', su', sv', kind'⟩ := g
    simp only [famOk, Bool.and_eq_true, decide_eq_true_eq, Bool.or_eq_true, beq_iff_eq] at okf okg
    simp only [Function.onFun, List.disjoint_left, famList, List.mem_map, not_exists, not_and]
    rintro e ⟨q, hq, rfl⟩ q' hq' h
    have b1 := famQs_lt hN hq
    have b2 := famQs_lt hN hq'
    simp only [famEdge, Prod.mk.injEq] at h
    obtain ⟨h1, h2⟩ := h
    have d1 := blk_decode (N := N) (o := q' + su') (o' := q + su) (by omega) (by omega) okg.1.1.1.1 okf.1.1.1.1 h1
    have d2 := blk_decode (N := N) (o := q' + sv') (o' := q + sv) (by omega) (by omega) okg.1.1.1.2 okf.1.1.1.2 h2
    have hs : famSig (bu, bv, su, sv, kind) = famSig (bu', bv', su', sv', kind') := by
      simp only [famSig, Prod.mk.injEq]
      omega
    simp only [famCompat, hs, bne_self_eq_false, Bool.false_or, List.contains_eq_mem, List.mem_cons, Prod.mk.injEq,
      List.not_mem_nil, or_false, decide_eq_true_eq, famU] at hc
    by_cases k0 : kind = 0 <;> by_cases k1 : kind = 1 <;> by_cases k0' : kind' = 0 <;> by_cases k1' : kind' = 1 <;>
      (try simp [k0, k1, k0', k1'] at hc) <;> omega


/-! #### the segment with the start cap turned over is consistently wound -/

def segFams24 : List Fam :=
  [(0,1,0,0,0), (1,0,0,1,0), (0,0,1,0,0),   (0,1,1,0,0), (1,1,0,1,0), (1,0,1,1,0),
   (2,2,0,1,0), (2,3,1,0,0), (3,2,0,0,0),   (2,3,1,1,0), (3,3,1,0,0), (3,2,0,1,0),
   (0,0,0,1,0), (0,2,1,0,0), (2,0,0,0,0),   (2,2,1,0,0), (2,0,0,1,0), (0,2,1,1,0),
   (1,3,0,0,0), (3,1,0,1,0), (1,1,1,0,0),   (3,1,1,1,0), (1,3,1,0,0), (3,3,0,1,0)]
def segFamsCaps : List Fam :=
  [(0,3,0,0,2), (3,2,0,0,2), (2,0,0,0,2),   (1,3,0,0,2), (3,0,0,0,2), (0,1,0,0,2),
   (0,2,0,0,1), (2,3,0,0,1), (3,0,0,0,1),   (1,0,0,0,1), (0,3,0,0,1), (3,1,0,0,1)]
/-- the 36 directed-edge families of the segment with the start cap turned over: three per triangle family of `segSpec`,
then the end cap, then the flipped start cap -/
def segFixedFams : List Fam := segFams24 ++ segFamsCaps

theorem segFixedFams_ok : (∀ f ∈ segFixedFams, famOk f = true) ∧ segFixedFams.Pairwise (fun f g => famCompat f g = true) := by
  decide

theorem append_congr' {α : Type} {a b c d : List α} (h1 : a = b) (h2 : c = d) : a ++ c = b ++ d := by rw [h1, h2]

theorem segFixed_eq (N : Nat) (hN : 1 ≤ N) :
    segRestDir N ++ dirOf (segStartCap N) = segFixedFams.flatMap (famList N) := by
  have caps : (dirOf (segEndCap N) ++ dirOf (segStartCap N)) = segFamsCaps.flatMap (famList N) := by
    simp only [segFamsCaps, segEndCap, segStartCap, dirOf, dirEdges, List.flatMap_cons, List.flatMap_nil, List.append_nil,
      famList, famQs, List.map_cons, List.map_nil, famEdge, List.cons_append, List.nil_append]
    simp only [List.cons.injEq, Prod.mk.injEq, and_true]
    omega
  unfold segRestDir segFixedFams
  rw [List.append_assoc _ (dirOf (segEndCap N)), caps, List.flatMap_append]
  refine append_congr' ?_ rfl
  simp only [segFams24, List.flatMap_cons, List.flatMap_nil, List.append_nil, List.append_assoc, famList, famQs]
  repeat' (first | apply append_congr')
  all_goals (apply List.map_congr_left; intro q _; simp only [famEdge, Prod.mk.injEq]; constructor <;> first | omega | trivial)

theorem segFixed_perm (N : Nat) (hN : 1 ≤ N) :
    (dirOf (segSpec N ++ segEndCap N ++ segStartCap N)).Perm (segFixedFams.flatMap (famList N)) := by
  rw [dirOf_append, ← segFixed_eq N hN]
  exact List.Perm.append (segRest_perm N) (List.Perm.refl _)

theorem segFixed_wound {N : Nat} (hN : 2 ≤ N) : Wound (segSpec N ++ segEndCap N ++ segStartCap N) :=
  (segFixed_perm N (by omega)).nodup_iff.2 (fams_nodup hN _ segFixedFams_ok.1 segFixedFams_ok.2)

/-! #### … and as the code writes it, it is not: the exact multiplicities of the directed edges -/

theorem mem_dirOf_of_face {fs : List Face} {f : Face} {e : Edge} (hf : f ∈ fs) (he : e ∈ dirEdges f) : e ∈ dirOf fs :=
  List.mem_flatMap.2 ⟨f, hf, he⟩

theorem dirOf_segStartCapOld (N : Nat) :
    dirOf (segStartCapOld N) = [(0, 3 * N), (3 * N, 2 * N), (2 * N, 0), (N, 3 * N), (3 * N, 0), (0, N)] := rfl

theorem dirOf_segStartCap (N : Nat) :
    dirOf (segStartCap N) = [(0, 2 * N), (2 * N, 3 * N), (3 * N, 0), (N, 0), (0, 3 * N), (3 * N, N)] := rfl

theorem segRest_nodup {N : Nat} (hN : 2 ≤ N) :
    (dirOf (segSpec N ++ segEndCap N)).Nodup ∧
      ∀ e ∈ dirOf (segStartCap N), e ∉ dirOf (segSpec N ++ segEndCap N) := by
  have h := segFixed_wound hN
  unfold Wound at h
  rw [dirOf_append, List.nodup_append] at h
  exact ⟨h.1, fun e he hc => h.2.2 e hc e he rfl⟩

theorem segBad_mem_rest {N : Nat} (hN : 2 ≤ N) : ∀ e ∈ segBadEdges N, e ∈ dirOf (segSpec N ++ segEndCap N) := by
  have m : ∀ (t : Nat → Face) (l : List Face), l = (List.range (N - 1)).map t → t 0 ∈ l := by
    intro t l hl
    rw [hl]
    exact List.mem_map.2 ⟨0, List.mem_range.2 (by omega), rfl⟩
  intro e he
  simp only [segBadEdges, List.mem_cons, List.not_mem_nil, or_false] at he
  rcases he with rfl | rfl | rfl | rfl
  · refine mem_dirOf_of_face (f := (0, 0 + N, 0 + 1)) ?_ (by simp [dirEdges])
    simp only [segSpec, List.mem_append]
    exact Or.inl (Or.inl (Or.inl (Or.inl (Or.inl (Or.inl (Or.inl (Or.inl (m (fun q => (q, q + N, q + 1)) _ rfl))))))))
  · refine mem_dirOf_of_face (f := (0 + N, 0 + N + N + N, 0 + 1 + N)) ?_ (by simp [dirEdges]; omega)
    simp only [segSpec, List.mem_append]
    exact Or.inl (Or.inl (Or.inr (m (fun q => (q + N, q + N + N + N, q + 1 + N)) _ rfl)))
  · refine mem_dirOf_of_face (f := (0 + 2 * N, 0 + 1 + 2 * N, 0 + N + 2 * N)) ?_ (by simp [dirEdges]; omega)
    simp only [segSpec, List.mem_append]
    exact Or.inl (Or.inl (Or.inl (Or.inl (Or.inl (Or.inl (Or.inr (m (fun q => (q + 2 * N, q + 1 + 2 * N, q + N + 2 * N)) _ rfl)))))))
  · refine mem_dirOf_of_face (f := (0, 0 + 1, 0 + N + N)) ?_ (by simp [dirEdges]; omega)
    simp only [segSpec, List.mem_append]
    exact Or.inl (Or.inl (Or.inl (Or.inl (Or.inr (m (fun q => (q, q + 1, q + N + N)) _ rfl)))))

theorem seg_dir_count (N : Nat) (e : Edge) :
    (dirOf (segSpec N ++ (segStartCapOld N ++ segEndCap N))).count e =
      (dirOf (segSpec N ++ segEndCap N)).count e + (dirOf (segStartCapOld N)).count e := by
  simp only [dirOf_append, List.count_append]
  omega

/-- the multiplicity of every directed edge of the CylinderSegment graphic (caps drawn): 2 on the boundary of the start cap,
0 for the reverses of those, 1 for every other directed edge that occurs -/
theorem seg_dir_multiplicities {N : Nat} (hN : 2 ≤ N) :
    (∀ e ∈ segBadEdges N, (dirOf (segSpec N ++ (segStartCapOld N ++ segEndCap N))).count e = 2 ∧
      (dirOf (segSpec N ++ (segStartCapOld N ++ segEndCap N))).count (e.2, e.1) = 0) ∧
    (∀ e ∈ dirOf (segSpec N ++ (segStartCapOld N ++ segEndCap N)), e ∉ segBadEdges N →
      (dirOf (segSpec N ++ (segStartCapOld N ++ segEndCap N))).count e = 1) := by
  obtain ⟨hnd, hdis⟩ := segRest_nodup hN
  have hsn : (dirOf (segStartCapOld N)).Nodup := by
    rw [dirOf_segStartCapOld]
    simp only [List.nodup_cons, List.mem_cons, Prod.mk.injEq, List.not_mem_nil, or_false, not_or, List.nodup_nil, and_true,
      true_and, not_false_eq_true]
    omega
  constructor
  · intro e he
    have h1 := segBad_mem_rest hN e he
    have h2 : e ∈ dirOf (segStartCapOld N) := by
      rw [dirOf_segStartCapOld]
      simp only [segBadEdges, List.mem_cons, List.not_mem_nil, or_false] at he ⊢
      rcases he with rfl | rfl | rfl | rfl <;> simp
    have h3 : (e.2, e.1) ∈ dirOf (segStartCap N) := by
      rw [dirOf_segStartCap]
      simp only [segBadEdges, List.mem_cons, List.not_mem_nil, or_false] at he ⊢
      rcases he with rfl | rfl | rfl | rfl <;> simp
    have h4 : (e.2, e.1) ∉ dirOf (segStartCapOld N) := by
      rw [dirOf_segStartCapOld]
      simp only [segBadEdges, List.mem_cons, List.not_mem_nil, or_false] at he
      rcases he with rfl | rfl | rfl | rfl <;>
        simp only [List.mem_cons, Prod.mk.injEq, List.not_mem_nil, or_false, not_or] <;> omega
    rw [seg_dir_count, seg_dir_count, List.count_eq_one_of_mem hnd h1, List.count_eq_one_of_mem hsn h2,
      List.count_eq_zero_of_not_mem (hdis _ h3), List.count_eq_zero_of_not_mem h4]
    exact ⟨rfl, rfl⟩
  · intro e he hb
    rw [seg_dir_count]
    rw [← List.append_assoc, dirOf_append, dirOf_append, List.mem_append, List.mem_append] at he
    have key : e ∈ dirOf (segStartCapOld N) → e ∉ dirOf (segSpec N ++ segEndCap N) := by
      intro h2
      rw [dirOf_segStartCapOld] at h2
      simp only [List.mem_cons, List.not_mem_nil, or_false] at h2
      simp only [segBadEdges, List.mem_cons, List.not_mem_nil, or_false, not_or] at hb
      rcases h2 with rfl | rfl | rfl | rfl | rfl | rfl
      · exact hdis _ (by rw [dirOf_segStartCap]; simp)
      · exact absurd rfl hb.2.2.1
      · exact absurd rfl hb.2.2.2
      · exact absurd rfl hb.2.1
      · exact hdis _ (by rw [dirOf_segStartCap]; simp)
      · exact absurd rfl hb.1
    by_cases h2 : e ∈ dirOf (segStartCapOld N)
    · rw [List.count_eq_zero_of_not_mem (key h2), List.count_eq_one_of_mem hsn h2]
    · have h1 : e ∈ dirOf (segSpec N ++ segEndCap N) := by
        rw [dirOf_append, List.mem_append]
        rcases he with (h | h) | h
        · exact Or.inl h
        · exact absurd h h2
        · exact Or.inr h
      rw [List.count_eq_one_of_mem hnd h1, List.count_eq_zero_of_not_mem h2]


/-! #### closedness does not depend on the winding -/

theorem edgesOf_count_append (a b : List Face) (e : Edge) :
    (edgesOf (a ++ b)).count e = (edgesOf a).count e + (edgesOf b).count e := by
  simp only [edgesOf, List.map_append, List.count_append]
  omega

theorem edgesOf_count_flip (fs : List Face) (e : Edge) : (edgesOf (fs.map flipFace)).count e = (edgesOf fs).count e := by
  induction fs with
  | nil => rfl
  | cons f fs ih =>
    have h1 := edgesOf_count_append [flipFace f] (fs.map flipFace) e
    have h2 := edgesOf_count_append [f] fs e
    simp only [List.singleton_append] at h1 h2
    rw [List.map_cons, h1, h2, ih]
    congr 1
    simp only [edgesOf, flipFace, List.map_cons, List.map_nil, List.count_append]
    rw [sortPair_comm' f.2.2 f.2.1]
    omega

theorem openEdges_nil_of_count_eq {fs gs : List Face} (h : ∀ e, (edgesOf gs).count e = (edgesOf fs).count e)
    (hc : openEdges fs = []) : openEdges gs = [] := by
  apply openEdges_eq_nil_of_count
  intro e he
  rw [h]
  apply count_two_of_openEdges_nil hc
  apply List.count_pos_iff.1
  rw [← h]
  exact List.count_pos_iff.2 he

theorem segStartCap_eq_flip (N : Nat) : segStartCap N = (segStartCapOld N).map flipFace := rfl

/-- the pre-fix surface was closed too (closedness does not see the winding) -/
theorem segOld_closed {N : Nat} (hN : 2 ≤ N) : openEdges (segSpec N ++ (segStartCapOld N ++ segEndCap N)) = [] := by
  refine openEdges_nil_of_count_eq (fun e => ?_) (segSpec_caps_closed hN)
  rw [segCaps_eq, edgesOf_count_append, edgesOf_count_append, edgesOf_count_append, edgesOf_count_append,
    segStartCap_eq_flip, edgesOf_count_flip]

/-- the CylinderSegment graphic (caps drawn) is consistently wound, for every arc count -/
theorem seg_wound {N : Nat} (hN : 2 ≤ N) : Wound (segSpec N ++ segCaps N) := by
  have h := segFixed_wound hN
  unfold Wound at h ⊢
  refine (List.Perm.nodup_iff ?_).1 h
  rw [segCaps_eq, dirOf_append, dirOf_append, dirOf_append, dirOf_append, List.append_assoc]
  exact List.Perm.append_left _ List.perm_append_comm

theorem mem_windingDefects (fs : List Face) (e : Edge) :
    e ∈ windingDefects fs ↔ e ∈ dirOf fs ∧ (dirOf fs).count e ≠ 1 := by
  simp [windingDefects, List.mem_filter, List.mem_eraseDups]

theorem windingDefects_nil_iff (fs : List Face) : windingDefects fs = [] ↔ Wound fs := by
  unfold Wound
  rw [List.eq_nil_iff_forall_not_mem, List.nodup_iff_count_eq_one]
  constructor
  · intro h e he
    by_contra hc
    exact h e ((mem_windingDefects fs e).2 ⟨he, hc⟩)
  · intro h e he
    obtain ⟨h1, h2⟩ := (mem_windingDefects fs e).1 he
    exact h2 (h e h1)


/-! ### the other generators: closed + every directed edge has its reverse ⇒ consistently wound -/

/-- closed, no triangle repeats an index, and every directed edge that occurs has its reverse: then consistently wound -/
theorem wound_of_closed_of_reverse {fs : List Face} (hc : openEdges fs = [])
    (hd : ∀ t ∈ fs, t.1 ≠ t.2.1 ∧ t.2.1 ≠ t.2.2 ∧ t.1 ≠ t.2.2)
    (hr : ∀ a b, (a, b) ∈ dirOf fs → (b, a) ∈ dirOf fs) : Wound fs := by
  unfold Wound
  rw [List.nodup_iff_count_le_one]
  rintro ⟨a, b⟩
  by_cases h : (a, b) ∈ dirOf fs
  · have hab : a ≠ b := by
      simp only [dirOf, List.mem_flatMap, dirEdges, List.mem_cons, Prod.mk.injEq, List.not_mem_nil, or_false] at h
      obtain ⟨f, hf, h⟩ := h
      obtain ⟨d1, d2, d3⟩ := hd f hf
      rcases h with ⟨rfl, rfl⟩ | ⟨rfl, rfl⟩ | ⟨rfl, rfl⟩
      · exact d1
      · exact d2
      · exact fun e => d3 e.symm
    have h2 := count_two_of_openEdges_nil hc _ (mem_edgesOf_of_mem_dirOf h)
    rw [edgesOf_count_eq_dir fs a b hab] at h2
    have h3 : 0 < (dirOf fs).count (b, a) := List.count_pos_iff.2 (hr a b h)
    omega
  · rw [List.count_eq_zero_of_not_mem h]; omega

theorem exists_succMod_eq {N q : Nat} (hq : q < N) : ∃ q' < N, succMod N q' = q := by
  by_cases h0 : q = 0
  · refine ⟨N - 1, by omega, ?_⟩
    unfold succMod
    rw [show N - 1 + 1 = N by omega, Nat.mod_self, h0]
  · refine ⟨q - 1, by omega, ?_⟩
    unfold succMod
    rw [show q - 1 + 1 = q by omega, Nat.mod_eq_of_lt hq]

/-! ### `make_Prism` -/

theorem prism_F1 {N q : Nat} (hq : q < N) : (q, succMod N q, q + N) ∈ prismSpec N := by
  simp only [prismSpec, List.mem_append, List.mem_map, List.mem_range]
  exact Or.inl (Or.inl (Or.inl ⟨q, hq, rfl⟩))
theorem prism_F2 {N q : Nat} (hq : q < N) : (q + N, succMod N q, succMod N q + N) ∈ prismSpec N := by
  simp only [prismSpec, List.mem_append, List.mem_map, List.mem_range]
  exact Or.inl (Or.inl (Or.inr ⟨q, hq, rfl⟩))
theorem prism_F3 {N q : Nat} (hq : q < N) : (q, 2 * N, succMod N q) ∈ prismSpec N := by
  simp only [prismSpec, List.mem_append, List.mem_map, List.mem_range]
  exact Or.inl (Or.inr ⟨q, hq, rfl⟩)
theorem prism_F4 {N q : Nat} (hq : q < N) : (q + N, succMod N q + N, 2 * N + 1) ∈ prismSpec N := by
  simp only [prismSpec, List.mem_append, List.mem_map, List.mem_range]
  exact Or.inr ⟨q, hq, rfl⟩

theorem prism_reverse {N : Nat} (_hN : 1 ≤ N) : ∀ a b, (a, b) ∈ dirOf (prismSpec N) → (b, a) ∈ dirOf (prismSpec N) := by
  intro a b h
  obtain ⟨f, hf, he⟩ := List.mem_flatMap.1 h
  simp only [prismSpec, List.mem_append, List.mem_map, List.mem_range] at hf
  rcases hf with ((⟨q, hq, rfl⟩ | ⟨q, hq, rfl⟩) | ⟨q, hq, rfl⟩) | ⟨q, hq, rfl⟩ <;>
    simp only [dirEdges, List.mem_cons, Prod.mk.injEq, List.not_mem_nil, or_false] at he <;>
    rcases he with ⟨rfl, rfl⟩ | ⟨rfl, rfl⟩ | ⟨rfl, rfl⟩
  · exact mem_dirOf_of_face (prism_F3 hq) (by simp [dirEdges])
  · exact mem_dirOf_of_face (prism_F2 hq) (by simp [dirEdges])
  · obtain ⟨q', hq', hs⟩ := exists_succMod_eq hq
    exact mem_dirOf_of_face (prism_F2 hq') (by simp [dirEdges, hs])
  · exact mem_dirOf_of_face (prism_F1 hq) (by simp [dirEdges])
  · exact mem_dirOf_of_face (prism_F1 (succMod_lt hq)) (by simp [dirEdges])
  · exact mem_dirOf_of_face (prism_F4 hq) (by simp [dirEdges])
  · obtain ⟨q', hq', hs⟩ := exists_succMod_eq hq
    exact mem_dirOf_of_face (prism_F3 hq') (by simp [dirEdges, hs])
  · exact mem_dirOf_of_face (prism_F3 (succMod_lt hq)) (by simp [dirEdges])
  · exact mem_dirOf_of_face (prism_F1 hq) (by simp [dirEdges])
  · exact mem_dirOf_of_face (prism_F2 hq) (by simp [dirEdges])
  · exact mem_dirOf_of_face (prism_F4 (succMod_lt hq)) (by simp [dirEdges])
  · obtain ⟨q', hq', hs⟩ := exists_succMod_eq hq
    exact mem_dirOf_of_face (prism_F4 hq') (by simp [dirEdges, hs])

theorem prism_wound {N : Nat} (hN : 3 ≤ N) : Wound (prismSpec N) :=
  wound_of_closed_of_reverse (prismSpec_closed hN)
    (fun t ht => let h := prismSpec_indices (show 2 ≤ N by omega) t ht; ⟨h.1, h.2.1, h.2.2.1⟩) (prism_reverse (by omega))


/-! ### `make_Pyramid`, `make_Arrow` -/

theorem mem_dirOf_pyramid {N : Nat} {e : Edge} (h : e ∈ dirOf (pyramidSpec N)) :
    ∃ q < N, e = (q, succMod N q) ∨ e = (succMod N q, N) ∨ e = (N, q) := by
  obtain ⟨f, hf, he⟩ := List.mem_flatMap.1 h
  simp only [pyramidSpec, List.mem_map, List.mem_range] at hf
  obtain ⟨q, hq, rfl⟩ := hf
  simp only [dirEdges, List.mem_cons, List.not_mem_nil, or_false] at he
  exact ⟨q, hq, he⟩

theorem succMod_inj {N q q' : Nat} (hq : q < N) (hq' : q' < N) (h : succMod N q = succMod N q') : q = q' := by
  rcases succMod_cases hq with ⟨_, e1⟩ | ⟨_, e1⟩ <;> rcases succMod_cases hq' with ⟨_, e2⟩ | ⟨_, e2⟩ <;> omega

/-- the cone's side surface (no base cap) is consistently wound for every base -/
theorem pyramid_wound (N : Nat) : Wound (pyramidSpec N) := by
  unfold Wound
  refine ((dirOf_map_perm (List.range N) (fun q => (q, succMod N q, N))).nodup_iff).2 ?_
  simp only [List.nodup_append, List.mem_append, List.mem_map, List.mem_range]
  refine ⟨⟨?_, ?_, ?_⟩, ?_, ?_⟩
  · exact List.Nodup.map_on (fun q _ q' _ h => (Prod.mk.inj h).1) List.nodup_range
  · exact List.Nodup.map_on (fun q hq q' hq' h =>
      succMod_inj (List.mem_range.1 hq) (List.mem_range.1 hq') (Prod.mk.inj h).1) List.nodup_range
  · rintro _ ⟨q, hq, rfl⟩ _ ⟨q', hq', rfl⟩ h
    have h1 := succMod_lt hq
    have h2 := (Prod.mk.inj h).2
    omega
  · exact List.Nodup.map_on (fun q _ q' _ h => (Prod.mk.inj h).2) List.nodup_range
  · rintro _ (⟨q, hq, rfl⟩ | ⟨q, hq, rfl⟩) _ ⟨q', hq', rfl⟩ h
    · have h2 := (Prod.mk.inj h).1
      omega
    · have h1 := succMod_lt hq
      have h2 := (Prod.mk.inj h).1
      omega

def shiftFace (o : Nat) (t : Face) : Face := (t.1 + o, t.2.1 + o, t.2.2 + o)

theorem dirOf_map_shift (o : Nat) (fs : List Face) :
    dirOf (fs.map (shiftFace o)) = (dirOf fs).map (fun e => (e.1 + o, e.2 + o)) := by
  induction fs with
  | nil => rfl
  | cons f fs ih => simp [dirOf_cons, ih, dirEdges, shiftFace]

/-- `make_Arrow`: cone (open base ring) + shaft prism with the index offset `N + 1`: no directed edge is used twice -/
theorem arrow_wound {N : Nat} (hN : 3 ≤ N) : Wound (pyramidSpec N ++ (prismSpec N).map (shiftFace (N + 1))) := by
  unfold Wound
  rw [dirOf_append, dirOf_map_shift, List.nodup_append]
  refine ⟨pyramid_wound N, ?_, ?_⟩
  · exact List.Nodup.map (fun a b h => by
      obtain ⟨a1, a2⟩ := a; obtain ⟨b1, b2⟩ := b
      simp only [Prod.mk.injEq] at h ⊢; omega) (prism_wound hN)
  · intro e he e' he' h
    obtain ⟨q, hq, hc⟩ := mem_dirOf_pyramid he
    obtain ⟨x, _, rfl⟩ := List.mem_map.1 he'
    have := succMod_lt hq
    rcases hc with rfl | rfl | rfl <;> · have h2 := (Prod.mk.inj h).1; omega


/-! ### `make_Ellipsoid` -/

theorem ell_S {N q : Nat} (hq : q < N) : (0, ringJ N q + 0 * N, ringJ N (succMod N q) + 0 * N) ∈ ellSpec N := by
  simp only [ellSpec, List.mem_append, List.mem_map, List.mem_flatMap, List.mem_range]
  exact Or.inl (Or.inl (Or.inl ⟨q, hq, rfl⟩))
theorem ell_A {N i q : Nat} (hi : i < N - 3) (hq : q < N) :
    (ringJ N (succMod N q) + i * N, ringJ N q + i * N, ringJ N q + (i + 1) * N) ∈ ellSpec N := by
  simp only [ellSpec, List.mem_append, List.mem_map, List.mem_flatMap, List.mem_range]
  exact Or.inl (Or.inl (Or.inr ⟨i, hi, q, hq, rfl⟩))
theorem ell_B {N i q : Nat} (hi : i < N - 3) (hq : q < N) :
    (ringJ N (succMod N q) + i * N, ringJ N q + (i + 1) * N, ringJ N (succMod N q) + (i + 1) * N) ∈ ellSpec N := by
  simp only [ellSpec, List.mem_append, List.mem_map, List.mem_flatMap, List.mem_range]
  exact Or.inl (Or.inr ⟨i, hi, q, hq, rfl⟩)
theorem ell_T {N q : Nat} (hq : q < N) :
    (1 + (N - 2) * N, ringJ N (succMod N q) + (N - 3) * N, ringJ N q + (N - 3) * N) ∈ ellSpec N := by
  simp only [ellSpec, List.mem_append, List.mem_map, List.mem_flatMap, List.mem_range]
  exact Or.inr ⟨q, hq, rfl⟩

theorem ell_reverse {N : Nat} (hN : 4 ≤ N) : ∀ a b, (a, b) ∈ dirOf (ellSpec N) → (b, a) ∈ dirOf (ellSpec N) := by
  intro a b h
  obtain ⟨f, hf, he⟩ := List.mem_flatMap.1 h
  simp only [ellSpec, List.mem_append, List.mem_map, List.mem_flatMap, List.mem_range] at hf
  rcases hf with ((⟨q, hq, rfl⟩ | ⟨i, hi, q, hq, rfl⟩) | ⟨i, hi, q, hq, rfl⟩) | ⟨q, hq, rfl⟩ <;>
    simp only [dirEdges, List.mem_cons, Prod.mk.injEq, List.not_mem_nil, or_false] at he <;>
    rcases he with ⟨rfl, rfl⟩ | ⟨rfl, rfl⟩ | ⟨rfl, rfl⟩
  -- south fan
  · obtain ⟨q', hq', hs⟩ := exists_succMod_eq hq
    exact mem_dirOf_of_face (ell_S hq') (by simp [dirEdges, hs])
  · exact mem_dirOf_of_face (ell_A (i := 0) (by omega) hq) (by simp [dirEdges])
  · exact mem_dirOf_of_face (ell_S (succMod_lt hq)) (by simp [dirEdges])
  -- lower triangles of the bands
  · cases i with
    | zero => exact mem_dirOf_of_face (ell_S hq) (by simp [dirEdges])
    | succ i' => exact mem_dirOf_of_face (ell_B (i := i') (by omega) hq) (by simp [dirEdges])
  · obtain ⟨q', hq', hs⟩ := exists_succMod_eq hq
    exact mem_dirOf_of_face (ell_B hi hq') (by simp [dirEdges, hs])
  · exact mem_dirOf_of_face (ell_B hi hq) (by simp [dirEdges])
  -- upper triangles of the bands
  · exact mem_dirOf_of_face (ell_A hi hq) (by simp [dirEdges])
  · by_cases h1 : i + 1 < N - 3
    · exact mem_dirOf_of_face (ell_A h1 hq) (by simp [dirEdges])
    · have e : i + 1 = N - 3 := by omega
      rw [e]
      exact mem_dirOf_of_face (ell_T hq) (by simp [dirEdges])
  · exact mem_dirOf_of_face (ell_A hi (succMod_lt hq)) (by simp [dirEdges])
  -- north fan
  · exact mem_dirOf_of_face (ell_T (succMod_lt hq)) (by simp [dirEdges])
  · have e : N - 3 = (N - 4) + 1 := by omega
    rw [e]
    exact mem_dirOf_of_face (ell_B (i := N - 4) (by omega) hq) (by simp [dirEdges])
  · obtain ⟨q', hq', hs⟩ := exists_succMod_eq hq
    exact mem_dirOf_of_face (ell_T hq') (by simp [dirEdges, hs])

/-- the Sphere graphic is consistently wound for every `vert ≥ 4` -/
theorem ell_wound {N : Nat} (hN : 4 ≤ N) : Wound (ellSpec N) :=
  wound_of_closed_of_reverse (ellSpec_closed hN)
    (fun t ht => let h := ellSpec_indices hN t ht; ⟨h.1, h.2.1, h.2.2.1⟩) (ell_reverse hN)


end MagpyVerif.Display
