/-
Lemmas/DisplayTrig.lean — Model/DisplayTrig.lean at α = ℝ: `np.linspace` as an arithmetic
progression, and the vertex lists of make_Prism / make_CylinderSegment / make_Ellipsoid /
make_Pyramid / make_Circle lie on the surfaces they draw.
-/
import Mathlib.Analysis.SpecialFunctions.Trigonometric.Basic
import Mathlib.Tactic
import MagpyVerif.Lemmas.KernReal
import MagpyVerif.Model.DisplayTrig
namespace MagpyVerif.DisplayTrig
open MagpyVerif MagpyVerif.Kern

/-- `int(x)` at ℝ -/
noncomputable instance : FloorNat ℝ := ⟨fun x => ⌊x⌋₊⟩

@[simp] theorem n_real (k : Nat) : (Kern.n k : ℝ) = (k : ℝ) := rfl
@[simp] theorem half_real : (half : ℝ) = 1 / 2 := by simp [half]

/-! ### `np.linspace` -/

theorem setLast_length {α : Type} (l : List α) (v : α) : (setLast l v).length = l.length := by
  cases l with
  | nil => rfl
  | cons x xs => simp [setLast]

theorem linspaceBody_length {α : Type} [Num α] (a b : α) (num div : Nat) :
    (linspaceBody a b num div).length = num := by
  unfold linspaceBody
  simp only
  split
  · split <;> simp
  · simp

theorem linspace_length {α : Type} [Num α] (a b : α) (num : Nat) (ep : Bool) :
    (linspace a b num ep).length = num := by
  unfold linspace
  simp only
  split
  · rw [setLast_length, linspaceBody_length]
  · rw [linspaceBody_length]

/-- in exact arithmetic both branches of the `step == 0` test give the arithmetic progression
`a + k (b - a) / div`, `k < num` -/
theorem linspaceBody_eq (a b : ℝ) (num div : Nat) (hd : 0 < div) :
    linspaceBody a b num div = (List.range num).map (fun (k : ℕ) => a + (k : ℝ) * ((b - a) / div)) := by
  unfold linspaceBody
  simp only [n_real, eq0_real, decide_eq_true_eq, if_pos hd]
  split
  · rename_i h0
    have hn : (div : ℝ) ≠ 0 := by exact_mod_cast (Nat.pos_iff_ne_zero.mp hd)
    have hd : b - a = 0 := by
      rcases div_eq_zero_iff.mp h0 with h | h
      · exact h
      · exact absurd h hn
    apply List.map_congr_left
    intro k _
    rw [hd]; ring
  · apply List.map_congr_left
    intro k _
    ring

/-- without end point: `a + k (b - a) / num`, `k < num` -/
theorem linspace_false_eq (a b : ℝ) (num : Nat) :
    linspace a b num false = (List.range num).map (fun (k : ℕ) => a + (k : ℝ) * ((b - a) / num)) := by
  unfold linspace
  simp only [Bool.false_and, Bool.false_eq_true, if_false]
  rcases Nat.eq_zero_or_pos num with h | h
  · subst h; simp [linspaceBody]
  · exact linspaceBody_eq a b num num h

theorem setLast_concat {α : Type} (xs : List α) (y v : α) : setLast (xs ++ [y]) v = xs ++ [v] := by
  unfold setLast
  split
  · rename_i h; simp at h
  · simp

/-- with end point (`num ≥ 2`): `a + k (b - a) / (num - 1)`, `k < num`; in exact arithmetic the
overwritten last entry `stop` is what the progression gives anyway -/
theorem linspace_true_eq (a b : ℝ) (num : Nat) (h : 2 ≤ num) :
    linspace a b num true =
      (List.range num).map (fun (k : ℕ) => a + (k : ℝ) * ((b - a) / ((num - 1 : ℕ) : ℝ))) := by
  unfold linspace
  have h1 : (1 < num) := by omega
  simp only [Bool.true_and, decide_eq_true_eq, if_true, if_pos h1]
  rw [linspaceBody_eq a b num (num - 1) (by omega)]
  obtain ⟨m, rfl⟩ : ∃ m, num = m + 1 := ⟨num - 1, by omega⟩
  rw [List.range_succ, List.map_append, List.map_singleton, setLast_concat]
  congr 2
  have hm : ((m + 1 - 1 : ℕ) : ℝ) ≠ 0 := by
    simp only [Nat.add_sub_cancel]
    exact_mod_cast (show m ≠ 0 by omega)
  simp only [Nat.add_sub_cancel] at hm ⊢
  field_simp
  ring

theorem mem_linspace_false {a b t : ℝ} {num : Nat} (h : t ∈ linspace a b num false) :
    ∃ k : ℕ, k < num ∧ t = a + (k : ℝ) * ((b - a) / num) := by
  rw [linspace_false_eq] at h
  simp only [List.mem_map, List.mem_range] at h
  obtain ⟨k, hk, rfl⟩ := h
  exact ⟨k, hk, rfl⟩

theorem mem_linspace_true {a b t : ℝ} {num : Nat} (hn : 2 ≤ num) (h : t ∈ linspace a b num true) :
    ∃ k : ℕ, k < num ∧ t = a + (k : ℝ) * ((b - a) / ((num - 1 : ℕ) : ℝ)) := by
  rw [linspace_true_eq a b num hn] at h
  simp only [List.mem_map, List.mem_range] at h
  obtain ⟨k, hk, rfl⟩ := h
  exact ⟨k, hk, rfl⟩

/-- the points of `np.linspace(a, b, num)` lie between the end points -/
theorem linspace_true_between {a b t : ℝ} {num : Nat} (hn : 2 ≤ num) (hab : a ≤ b)
    (h : t ∈ linspace a b num true) : a ≤ t ∧ t ≤ b := by
  obtain ⟨k, hk, rfl⟩ := mem_linspace_true hn h
  have hm : (0 : ℝ) < ((num - 1 : ℕ) : ℝ) := by exact_mod_cast (show 0 < num - 1 by omega)
  have hk' : (k : ℝ) ≤ ((num - 1 : ℕ) : ℝ) := by exact_mod_cast (show k ≤ num - 1 by omega)
  have hk0 : (0 : ℝ) ≤ (k : ℝ) := Nat.cast_nonneg k
  have hd : 0 ≤ (b - a) / ((num - 1 : ℕ) : ℝ) := div_nonneg (by linarith) hm.le
  constructor
  · nlinarith
  · have : (k : ℝ) * ((b - a) / ((num - 1 : ℕ) : ℝ)) ≤ ((num - 1 : ℕ) : ℝ) * ((b - a) / ((num - 1 : ℕ) : ℝ)) :=
      mul_le_mul_of_nonneg_right hk' hd
    have e : ((num - 1 : ℕ) : ℝ) * ((b - a) / ((num - 1 : ℕ) : ℝ)) = b - a := by field_simp
    linarith

theorem linspace_true_head (a b : ℝ) (num : Nat) (hn : 2 ≤ num) : (linspace a b num true).head? = some a := by
  rw [linspace_true_eq a b num hn]
  obtain ⟨m, rfl⟩ : ∃ m, num = m + 1 := ⟨num - 1, by omega⟩
  rw [List.range_succ_eq_map]
  simp

theorem linspace_true_last (a b : ℝ) (num : Nat) (hn : 2 ≤ num) : (linspace a b num true).getLast? = some b := by
  rw [linspace_true_eq a b num hn]
  obtain ⟨m, rfl⟩ : ∃ m, num = m + 1 := ⟨num - 1, by omega⟩
  rw [List.range_succ, List.map_append, List.map_singleton, List.getLast?_concat]
  have hm : (m : ℝ) ≠ 0 := by exact_mod_cast (show m ≠ 0 by omega)
  simp only [Nat.add_sub_cancel]
  congr 1
  field_simp
  ring

theorem linspace_true_first_mem (a b : ℝ) (num : Nat) (hn : 2 ≤ num) : a ∈ linspace a b num true :=
  List.mem_of_mem_head? (linspace_true_head a b num hn)

theorem linspace_true_last_mem (a b : ℝ) (num : Nat) (hn : 2 ≤ num) : b ∈ linspace a b num true :=
  List.mem_of_mem_getLast? (linspace_true_last a b num hn)

/-! ### `make_Prism` -/

theorem ringAngles_eq (N : Nat) :
    (ringAngles N : List ℝ) = (List.range N).map (fun (k : ℕ) => 2 * Real.pi * (k : ℝ) / (N : ℝ)) := by
  unfold ringAngles
  rw [linspace_false_eq]
  apply List.map_congr_left
  intro k _
  simp only [n_real, pi_real]
  push_cast
  ring

theorem ringAngles_length (N : Nat) : (ringAngles N : List ℝ).length = N := by
  rw [ringAngles_eq]; simp

/-- the bottom ring, the top ring, the two cap centres -/
theorem prismVerts_eq (N : Nat) (d h : ℝ) :
    prismVerts N d h =
      (ringAngles N).map (fun t => (⟨d / 2 * Real.cos t, d / 2 * Real.sin t, -(h / 2)⟩ : V3 ℝ)) ++
      (ringAngles N).map (fun t => (⟨d / 2 * Real.cos t, d / 2 * Real.sin t, h / 2⟩ : V3 ℝ)) ++
      [⟨0, 0, -(h / 2)⟩, ⟨0, 0, h / 2⟩] := by
  unfold prismVerts
  simp only [n_real, half_real, cos_real, sin_real, Nat.cast_zero, Nat.cast_one]
  congr 1
  · congr 1
    · apply List.map_congr_left
      intro t _
      congr 1 <;> ring
    · apply List.map_congr_left
      intro t _
      congr 1 <;> ring
  · congr 1
    · congr 1 <;> ring
    · congr 1
      congr 1 <;> ring

theorem prismVerts_length (N : Nat) (d h : ℝ) : (prismVerts N d h).length = 2 * N + 2 := by
  rw [prismVerts_eq]
  simp [ringAngles_length]
  omega

theorem prism_rings (N : Nat) (d h : ℝ) :
    (prismVerts N d h).take (2 * N) =
      (ringAngles N).map (fun t => (⟨d / 2 * Real.cos t, d / 2 * Real.sin t, -(h / 2)⟩ : V3 ℝ)) ++
      (ringAngles N).map (fun t => (⟨d / 2 * Real.cos t, d / 2 * Real.sin t, h / 2⟩ : V3 ℝ)) := by
  rw [prismVerts_eq]
  apply List.take_left'
  simp [ringAngles_length]; omega

theorem prism_centres (N : Nat) (d h : ℝ) :
    (prismVerts N d h).drop (2 * N) = [⟨0, 0, -(h / 2)⟩, ⟨0, 0, h / 2⟩] := by
  rw [prismVerts_eq]
  apply List.drop_left'
  simp [ringAngles_length]; omega

theorem prism_ring_on_hull (N : Nat) (d h : ℝ) (v : V3 ℝ) (hv : v ∈ (prismVerts N d h).take (2 * N)) :
    v.x ^ 2 + v.y ^ 2 = (d / 2) ^ 2 ∧ (v.z = -(h / 2) ∨ v.z = h / 2) := by
  rw [prism_rings] at hv
  simp only [List.mem_append, List.mem_map] at hv
  rcases hv with ⟨t, _, rfl⟩ | ⟨t, _, rfl⟩
  · refine ⟨?_, Or.inl rfl⟩
    simp only
    nlinarith [Real.sin_sq_add_cos_sq t]
  · refine ⟨?_, Or.inr rfl⟩
    simp only
    nlinarith [Real.sin_sq_add_cos_sq t]

/-- vertex `k` of the bottom ring and vertex `N + k` of the top ring: the regular `N`-gon inscribed
in the circle of diameter `d`, starting on the +x axis, counter-clockwise -/
theorem prism_vertex_formula (N : Nat) (d h : ℝ) (k : Nat) (hk : k < N) :
    (prismVerts N d h)[k]? =
        some ⟨d / 2 * Real.cos (2 * Real.pi * k / N), d / 2 * Real.sin (2 * Real.pi * k / N), -(h / 2)⟩ ∧
    (prismVerts N d h)[N + k]? =
        some ⟨d / 2 * Real.cos (2 * Real.pi * k / N), d / 2 * Real.sin (2 * Real.pi * k / N), h / 2⟩ := by
  rw [prismVerts_eq, ringAngles_eq]
  simp only [List.map_map]
  constructor
  · rw [List.append_assoc, List.getElem?_append_left (by simpa using hk)]
    simp [hk]
  · rw [List.getElem?_append_left (by simp; omega), List.getElem?_append_right (by simp)]
    simp [hk]

/-! ### `make_Circle` (line trace) -/

theorem circleTrace_eq (base : Nat) (d : ℝ) (hb : 2 ≤ base) :
    circleTrace base d = (List.range base).map (fun (k : ℕ) =>
      (⟨d / 2 * Real.cos (2 * Real.pi * k / ((base - 1 : ℕ) : ℝ)),
        d / 2 * Real.sin (2 * Real.pi * k / ((base - 1 : ℕ) : ℝ)), 0⟩ : V3 ℝ)) := by
  unfold circleTrace
  rw [linspace_true_eq _ _ _ hb, List.map_map]
  apply List.map_congr_left
  intro k _
  simp only [Function.comp, n_real, pi_real, cos_real, sin_real, Nat.cast_zero, Nat.cast_ofNat]
  have e : (0 : ℝ) + (k : ℝ) * ((2 * Real.pi - 0) / ((base - 1 : ℕ) : ℝ)) = 2 * Real.pi * k / ((base - 1 : ℕ) : ℝ) := by ring
  rw [e]
  congr 1 <;> ring

theorem circleTrace_length (base : Nat) (d : ℝ) : (circleTrace base d).length = base := by
  unfold circleTrace
  rw [List.length_map, linspace_length]

theorem circleTrace_on_circle (base : Nat) (d : ℝ) (v : V3 ℝ) (hv : v ∈ circleTrace base d) :
    v.x ^ 2 + v.y ^ 2 = (d / 2) ^ 2 ∧ v.z = 0 := by
  unfold circleTrace at hv
  simp only [List.mem_map] at hv
  obtain ⟨t, _, rfl⟩ := hv
  simp only [n_real, cos_real, sin_real, Nat.cast_zero, Nat.cast_ofNat, and_true]
  nlinarith [Real.sin_sq_add_cos_sq t]

theorem circleTrace_head (base : Nat) (d : ℝ) (hb : 2 ≤ base) :
    (circleTrace base d).head? = some ⟨d / 2, 0, 0⟩ := by
  unfold circleTrace
  rw [List.head?_map, linspace_true_head _ _ _ hb]
  simp

theorem circleTrace_last (base : Nat) (d : ℝ) (hb : 2 ≤ base) :
    (circleTrace base d).getLast? = some ⟨d / 2, 0, 0⟩ := by
  unfold circleTrace
  rw [List.getLast?_map, linspace_true_last _ _ _ hb]
  simp

/-! ### `make_CylinderSegment` -/

theorem le_segN (vert : Nat) (phi1 phi2 : ℝ) : 5 ≤ segN vert phi1 phi2 := by
  unfold segN; exact Nat.le_max_left _ _

theorem segN_eq (vert : Nat) (phi1 phi2 : ℝ) :
    segN vert phi1 phi2 = max 5 ⌊(vert : ℝ) * |phi1 - phi2| / 360⌋₊ := by
  unfold segN
  simp [FloorNat.floorNat]

theorem deg2rad_real (x : ℝ) : deg2rad x = x * (Real.pi / 180) := by
  simp [deg2rad]

theorem segArc_length (phis : List ℝ) (r h : ℝ) (top : Bool) : (segArc phis r h top).length = phis.length := by
  simp [segArc]

theorem segVertsN_length (N : Nat) (r1 r2 h phi1 phi2 : ℝ) :
    (segVertsN N r1 r2 h phi1 phi2).length = 4 * N := by
  unfold segVertsN
  simp only [List.length_append, segArc_length, linspace_length]
  omega

theorem mem_segArc {phis : List ℝ} {r h : ℝ} {top : Bool} {v : V3 ℝ} :
    v ∈ segArc phis r h top ↔ ∃ p ∈ phis, v = ⟨r * Real.cos (p * (Real.pi / 180)), r * Real.sin (p * (Real.pi / 180)),
      if top then h / 2 else -(h / 2)⟩ := by
  unfold segArc
  simp only [List.mem_map, deg2rad_real, n_real, cos_real, sin_real, Nat.cast_zero, Nat.cast_ofNat]
  constructor
  · rintro ⟨p, hp, rfl⟩
    refine ⟨p, hp, ?_⟩
    cases top <;> simp
  · rintro ⟨p, hp, rfl⟩
    refine ⟨p, hp, ?_⟩
    cases top <;> simp

theorem mem_segVertsN {N : Nat} {r1 r2 h phi1 phi2 : ℝ} {v : V3 ℝ} :
    v ∈ segVertsN N r1 r2 h phi1 phi2 ↔
      ∃ p ∈ linspace phi1 phi2 N true, ∃ r, (r = r1 ∨ r = r2) ∧ ∃ z, (z = h / 2 ∨ z = -(h / 2)) ∧
        v = ⟨r * Real.cos (p * (Real.pi / 180)), r * Real.sin (p * (Real.pi / 180)), z⟩ := by
  unfold segVertsN
  simp only [List.mem_append, mem_segArc]
  constructor
  · rintro (((⟨p, hp, rfl⟩ | ⟨p, hp, rfl⟩) | ⟨p, hp, rfl⟩) | ⟨p, hp, rfl⟩)
    · exact ⟨p, hp, r1, Or.inl rfl, h / 2, Or.inl rfl, by simp⟩
    · exact ⟨p, hp, r2, Or.inr rfl, h / 2, Or.inl rfl, by simp⟩
    · exact ⟨p, hp, r1, Or.inl rfl, -(h / 2), Or.inr rfl, by simp⟩
    · exact ⟨p, hp, r2, Or.inr rfl, -(h / 2), Or.inr rfl, by simp⟩
  · rintro ⟨p, hp, r, (rfl | rfl), z, (rfl | rfl), rfl⟩
    · exact Or.inl (Or.inl (Or.inl ⟨p, hp, by simp⟩))
    · exact Or.inl (Or.inr ⟨p, hp, by simp⟩)
    · exact Or.inl (Or.inl (Or.inr ⟨p, hp, by simp⟩))
    · exact Or.inr ⟨p, hp, by simp⟩

/-! ### `make_Ellipsoid` -/

theorem mem_ellipsoidGrid {N : Nat} {a b c : ℝ} {v : V3 ℝ} (hv : v ∈ ellipsoidGrid N a b c) :
    ∃ th ∈ linspace (-Real.pi / 2) (Real.pi / 2) N true, ∃ ph ∈ linspace (0 : ℝ) (2 * Real.pi) N false,
      v = ⟨a / 2 * (Real.cos th * Real.sin ph), b / 2 * (Real.cos th * Real.cos ph), c / 2 * Real.sin th⟩ := by
  unfold ellipsoidGrid at hv
  simp only [List.mem_flatMap, List.mem_map, n_real, pi_real, cos_real, sin_real, half_real, Nat.cast_zero,
    Nat.cast_ofNat] at hv
  obtain ⟨th, hth, ph, hph, rfl⟩ := hv
  refine ⟨th, hth, ph, hph, ?_⟩
  congr 1 <;> ring

theorem poleSlice_subset {β : Type} (N : Nat) (l : List β) {x : β} (h : x ∈ poleSlice N l) : x ∈ l := by
  unfold poleSlice at h
  split at h
  · simp at h
  · exact List.mem_of_mem_take (List.mem_of_mem_drop h)

theorem mem_ellipsoidVerts {N : Nat} {a b c : ℝ} {v : V3 ℝ} (hv : v ∈ ellipsoidVerts N a b c) :
    ∃ th ∈ linspace (-Real.pi / 2) (Real.pi / 2) N true, ∃ ph ∈ linspace (0 : ℝ) (2 * Real.pi) N false,
      v = ⟨a / 2 * (Real.cos th * Real.sin ph), b / 2 * (Real.cos th * Real.cos ph), c / 2 * Real.sin th⟩ :=
  mem_ellipsoidGrid (poleSlice_subset N _ hv)

theorem ellipsoidVerts_on_surface {N : Nat} {a b c : ℝ} (ha : a ≠ 0) (hb : b ≠ 0) (hc : c ≠ 0) {v : V3 ℝ}
    (hv : v ∈ ellipsoidVerts N a b c) :
    (v.x / (a / 2)) ^ 2 + (v.y / (b / 2)) ^ 2 + (v.z / (c / 2)) ^ 2 = 1 := by
  obtain ⟨th, _, ph, _, rfl⟩ := mem_ellipsoidVerts hv
  simp only
  have ha2 : a / 2 ≠ 0 := by positivity
  have hb2 : b / 2 ≠ 0 := by positivity
  have hc2 : c / 2 ≠ 0 := by positivity
  rw [mul_div_cancel_left₀ _ ha2, mul_div_cancel_left₀ _ hb2, mul_div_cancel_left₀ _ hc2]
  nlinarith [Real.sin_sq_add_cos_sq th, Real.sin_sq_add_cos_sq ph]

theorem ellipsoidGrid_length (N : Nat) (a b c : ℝ) : (ellipsoidGrid N a b c).length = N * N := by
  unfold ellipsoidGrid
  simp only [List.length_flatMap, List.length_map, linspace_length]
  rw [List.map_const', List.sum_replicate, linspace_length]
  simp

theorem ellipsoidVerts_length (N : Nat) (a b c : ℝ) (hN : 2 ≤ N) :
    (ellipsoidVerts N a b c).length = N * N - 2 * N + 2 := by
  unfold ellipsoidVerts poleSlice
  rw [if_neg (by omega)]
  simp only [List.length_drop, List.length_take, ellipsoidGrid_length]
  have : N * N ≥ 2 * N := Nat.mul_le_mul_right N hN
  omega



/-! ### poles of `make_Ellipsoid`, `make_Pyramid` -/

theorem ellipsoidRow_length (N : Nat) (a b c th : ℝ) :
    ((linspace (0 : ℝ) (2 * Real.pi) N false).map (fun ph =>
      (⟨Real.cos th * Real.sin ph * a * (1 / 2), Real.cos th * Real.cos ph * b * (1 / 2), Real.sin th * c * (1 / 2)⟩ : V3 ℝ))).length = N := by
  rw [List.length_map, linspace_length]

theorem ellipsoidGrid_unfold (N : Nat) (a b c : ℝ) :
    ellipsoidGrid N a b c = (linspace (-Real.pi / 2) (Real.pi / 2) N true).flatMap (fun th =>
      (linspace (0 : ℝ) (2 * Real.pi) N false).map (fun ph =>
        (⟨Real.cos th * Real.sin ph * a * (1 / 2), Real.cos th * Real.cos ph * b * (1 / 2), Real.sin th * c * (1 / 2)⟩ : V3 ℝ))) := by
  unfold ellipsoidGrid
  simp only [n_real, pi_real, cos_real, sin_real, half_real, Nat.cast_zero, Nat.cast_ofNat]

/-- first vertex: the south pole `(0, 0, -c/2)`; last vertex: the north pole `(0, 0, c/2)` -/
theorem ellipsoidVerts_poles (N : Nat) (a b c : ℝ) (hN : 2 ≤ N) :
    (ellipsoidVerts N a b c).head? = some ⟨0, 0, -(c / 2)⟩ ∧
    (ellipsoidVerts N a b c).getLast? = some ⟨0, 0, c / 2⟩ := by
  have hlen := ellipsoidGrid_length N a b c
  have hNN : N ≤ N * N := Nat.le_mul_of_pos_left N (by omega)
  have h2 : 2 * N ≤ N * N := Nat.mul_le_mul_right N hN
  unfold ellipsoidVerts poleSlice
  rw [if_neg (by omega)]
  constructor
  · -- head = grid[N-1] = row 0, column N-1
    rw [List.head?_drop, List.getElem?_take_of_lt (by omega)]
    rw [ellipsoidGrid_unfold]
    obtain ⟨tl, htl⟩ : ∃ tl, linspace (-Real.pi / 2) (Real.pi / 2) N true = (-Real.pi / 2) :: tl := by
      have := linspace_true_head (-Real.pi / 2) (Real.pi / 2) N hN
      cases h : linspace (-Real.pi / 2) (Real.pi / 2) N true with
      | nil => rw [h] at this; simp at this
      | cons x xs => rw [h] at this; simp at this; exact ⟨xs, by rw [this]⟩
    rw [htl, List.flatMap_cons, List.getElem?_append_left (by rw [ellipsoidRow_length]; omega)]
    rw [List.getElem?_map]
    have hl : (linspace (0 : ℝ) (2 * Real.pi) N false).length = N := linspace_length _ _ _ _
    obtain ⟨ph, hph⟩ : ∃ ph, (linspace (0 : ℝ) (2 * Real.pi) N false)[N - 1]? = some ph :=
      ⟨_, List.getElem?_eq_getElem (by omega)⟩
    rw [hph]
    have hc : Real.cos (-Real.pi / 2) = 0 := by rw [neg_div, Real.cos_neg, Real.cos_pi_div_two]
    have hs : Real.sin (-Real.pi / 2) = -1 := by rw [neg_div, Real.sin_neg, Real.sin_pi_div_two]
    simp only [Option.map_some, hc, hs, Option.some.injEq]
    congr 1 <;> ring
  · -- last = grid[N*N-N] = row N-1, column 0
    have hidx : N * N - (N - 1) - 1 = (N - 1) * N := by
      obtain ⟨m, rfl⟩ : ∃ m, N = m + 1 := ⟨N - 1, by omega⟩
      simp only [Nat.add_sub_cancel]
      have : (m + 1) * (m + 1) = m * (m + 1) + m + 1 := by ring
      omega
    have key : (ellipsoidGrid N a b c)[(N - 1) * N]? = some ⟨0, 0, c / 2⟩ := by
      rw [ellipsoidGrid_unfold]
      obtain ⟨ini, hini⟩ : ∃ ini, linspace (-Real.pi / 2) (Real.pi / 2) N true = ini ++ [Real.pi / 2] := by
        have := linspace_true_last (-Real.pi / 2) (Real.pi / 2) N hN
        rcases List.eq_nil_or_concat (linspace (-Real.pi / 2) (Real.pi / 2) N true) with h | ⟨ini, x, h⟩
        · rw [h] at this; simp at this
        · rw [h] at this
          simp only [List.concat_eq_append, List.getLast?_concat, Option.some.injEq] at this
          exact ⟨ini, by rw [h, this]; simp⟩
      have hil : ini.length = N - 1 := by
        have := linspace_length (-Real.pi / 2) (Real.pi / 2) N true
        rw [hini] at this; simp at this; omega
      rw [hini, List.flatMap_append, List.flatMap_singleton]
      have hA : ∀ (l : List ℝ), (l.flatMap (fun th => (linspace (0 : ℝ) (2 * Real.pi) N false).map (fun ph =>
          (⟨Real.cos th * Real.sin ph * a * (1 / 2), Real.cos th * Real.cos ph * b * (1 / 2), Real.sin th * c * (1 / 2)⟩ : V3 ℝ)))).length = l.length * N := by
        intro l
        induction l with
        | nil => simp
        | cons x xs ih => rw [List.flatMap_cons, List.length_append, ih, ellipsoidRow_length, List.length_cons]; ring
      rw [List.getElem?_append_right (by rw [hA, hil]), hA, hil, Nat.sub_self, List.getElem?_map]
      obtain ⟨tl, htl⟩ : ∃ tl, linspace (0 : ℝ) (2 * Real.pi) N false = 0 :: tl := by
        rw [linspace_false_eq]
        obtain ⟨m, rfl⟩ : ∃ m, N = m + 1 := ⟨N - 1, by omega⟩
        rw [List.range_succ_eq_map]
        simp only [List.map_cons, Nat.cast_zero, zero_mul, add_zero]
        exact ⟨_, rfl⟩
      rw [htl]
      simp only [List.getElem?_cons_zero, Option.map_some, Real.cos_pi_div_two, Real.sin_pi_div_two, Option.some.injEq]
      congr 1 <;> ring
    rw [List.getLast?_drop, if_neg (by simp [hlen]; omega), List.getLast?_take, if_neg (by omega), hidx, key]
    rfl

/-! ### `make_Pyramid` -/


theorem zShift_real (p : Pivot) (h : ℝ) :
    zShift p h = match p with | .tail => h / 2 | .tip => -(h / 2) | .middle => 0 := by
  cases p <;> simp [zShift]
  ring

/-- the base ring (regular `N`-gon of diameter `d` at `z = -h/2 + z_shift`), then the tip on the axis
at `z = h/2 + z_shift` -/
theorem pyramidVerts_eq (N : Nat) (d h : ℝ) (p : Pivot) :
    pyramidVerts N d h p =
      (ringAngles N).map (fun t => (⟨d / 2 * Real.cos t, d / 2 * Real.sin t, -(h / 2) + zShift p h⟩ : V3 ℝ)) ++
      [⟨0, 0, h / 2 + zShift p h⟩] := by
  unfold pyramidVerts
  simp only [n_real, half_real, cos_real, sin_real, Nat.cast_zero, Nat.cast_one]
  congr 1
  · apply List.map_congr_left
    intro t _
    congr 1 <;> ring
  · congr 1
    congr 1 <;> ring

theorem pyramid_on_cone (N : Nat) (d h : ℝ) (p : Pivot) :
    (pyramidVerts N d h p).length = N + 1 ∧
    (∀ v ∈ (pyramidVerts N d h p).take N, v.x ^ 2 + v.y ^ 2 = (d / 2) ^ 2 ∧ v.z = -(h / 2) + zShift p h) ∧
    (pyramidVerts N d h p)[N]? = some ⟨0, 0, h / 2 + zShift p h⟩ := by
  rw [pyramidVerts_eq]
  have hl : ((ringAngles N).map (fun t => (⟨d / 2 * Real.cos t, d / 2 * Real.sin t, -(h / 2) + zShift p h⟩ : V3 ℝ))).length = N := by
    rw [List.length_map, ringAngles_length]
  refine ⟨by rw [List.length_append, hl]; rfl, ?_, ?_⟩
  · intro v hv
    rw [List.take_left' hl] at hv
    simp only [List.mem_map] at hv
    obtain ⟨t, _, rfl⟩ := hv
    refine ⟨?_, rfl⟩
    simp only
    nlinarith [Real.sin_sq_add_cos_sq t]
  · rw [List.getElem?_append_right (by rw [hl]), hl, Nat.sub_self]
    rfl

end MagpyVerif.DisplayTrig
