/-
Lemmas/StyleMagic.lean — what `magic_to_dict` computes on a flat keyword dictionary whose keys are
separator-joined paths (no key a prefix-path of another): the trie of the paths.
-/
import MagpyVerif.Lemmas.StyleNested

namespace MagpyVerif.StyleNested

/-- a flat keyword list given by the segment paths of its keys -/
abbrev Entries := List (List Str × Option Val)

/-- the keyword dictionary `{sep.join(path): value}` -/
def kwOf (sep : Char) (E : Entries) : Dict := E.map fun e => (Key.str (joinWith sep e.1), Tree.leaf e.2)

def tailOf (k0 : Str) (e : List Str × Option Val) : Option (List Str × Option Val) :=
  match e.1 with
  | k :: q' => if k = k0 then some (q', e.2) else none
  | [] => none

/-- the entries whose path starts with `k0`, without that first segment -/
def tails (k0 : Str) (E : Entries) : Entries := E.filterMap (tailOf k0)

/-- neither path is a prefix of the other (in particular they differ) -/
def Incomp (a b : List Str × Option Val) : Prop := ¬ a.1 <+: b.1 ∧ ¬ b.1 <+: a.1

/-- no key is a prefix-path of another, no duplicates -/
def PF (E : Entries) : Prop := E.Pairwise Incomp

/-- every path is non-empty and its segments do not contain the separator -/
def SF (sep : Char) (E : Entries) : Prop := ∀ e ∈ E, e.1 ≠ [] ∧ ∀ w ∈ e.1, sep ∉ w

instance (a b : List Str × Option Val) : Decidable (Incomp a b) := by unfold Incomp; exact inferInstance
instance (E : Entries) : Decidable (PF E) := by unfold PF; exact inferInstance
instance (sep : Char) (E : Entries) : Decidable (SF sep E) := by unfold SF; exact inferInstance

theorem mem_tails {k0 : Str} {q' : List Str} {v : Option Val} {E : Entries} :
    (q', v) ∈ tails k0 E ↔ (k0 :: q', v) ∈ E := by
  simp only [tails, List.mem_filterMap]
  constructor
  · rintro ⟨⟨p, w⟩, hm, hf⟩
    cases p with
    | nil => simp [tailOf] at hf
    | cons k r =>
      simp only [tailOf] at hf
      split at hf
      · rename_i hk
        simp only [Option.some.injEq, Prod.mk.injEq] at hf
        obtain ⟨rfl, rfl⟩ := hf
        subst hk; exact hm
      · cases hf
  · intro hm
    exact ⟨(k0 :: q', v), hm, by simp [tailOf]⟩

theorem PF_tails {k0 : Str} {E : Entries} (h : PF E) : PF (tails k0 E) := by
  refine List.Pairwise.filterMap (tailOf k0) ?_ h
  intro a a' hR b hb b' hb'
  obtain ⟨p, w⟩ := a
  obtain ⟨p', w'⟩ := a'
  cases p with
  | nil => simp [tailOf] at hb
  | cons k r =>
    cases p' with
    | nil => simp [tailOf] at hb'
    | cons k' r' =>
      simp only [tailOf] at hb hb'
      split at hb
      · rename_i hk
        split at hb'
        · rename_i hk'
          simp only [Option.some.injEq] at hb hb'
          subst hb; subst hb'; subst hk; subst hk'
          simp only [Incomp, List.cons_prefix_cons, true_and] at hR ⊢
          exact hR
        · cases hb'
      · cases hb

theorem SF_tails {sep : Char} {k0 : Str} {E : Entries} (h : SF sep E) (hne : ∀ t ∈ tails k0 E, t.1 ≠ []) :
    SF sep (tails k0 E) := by
  intro t ht
  refine ⟨hne t ht, ?_⟩
  obtain ⟨q', v⟩ := t
  have := (h _ (mem_tails.mp ht)).2
  intro w hw
  exact this w (List.mem_cons_of_mem _ hw)

theorem tails_append (k0 : Str) (E1 E2 : Entries) : tails k0 (E1 ++ E2) = tails k0 E1 ++ tails k0 E2 := by
  simp [tails, List.filterMap_append]

theorem tails_single (k0 k : Str) (q' : List Str) (v : Option Val) :
    tails k0 [(k :: q', v)] = if k = k0 then [(q', v)] else [] := by
  by_cases h : k = k0 <;> simp [tails, tailOf, h]

theorem kwOf_append (sep : Char) (E1 E2 : Entries) : kwOf sep (E1 ++ E2) = kwOf sep E1 ++ kwOf sep E2 := by
  simp [kwOf]

theorem joinWith_inj {sep : Char} {a b : List Str} (ha : a ≠ []) (hb : b ≠ []) (hfa : ∀ w ∈ a, sep ∉ w)
    (hfb : ∀ w ∈ b, sep ∉ w) (h : joinWith sep a = joinWith sep b) : a = b := by
  rw [← splitOn_joinWith ha hfa, ← splitOn_joinWith hb hfb, h]

/-! ### keys: strings without separator, pairwise different -/

def keyOK (sep : Char) : Key → Bool
  | .str s => !s.contains sep
  | .int _ => false

def keysOK {α : Type} (sep : Char) : List (Key × α) → Bool
  | [] => true
  | (k, _) :: r => keyOK sep k && (lookup k r).isNone && keysOK sep r

theorem keyOK_str {sep : Char} {s : Str} (h : sep ∉ s) : keyOK sep (.str s) = true := by
  simp [keyOK, h]

theorem keyOK_iff {sep : Char} {k : Key} : keyOK sep k = true ↔ ∃ s, k = .str s ∧ sep ∉ s := by
  cases k with
  | str s => simp [keyOK]
  | int n => simp [keyOK]

theorem keysOK_cons {α : Type} (sep : Char) (k : Key) (v : α) (r : List (Key × α)) :
    keysOK sep ((k, v) :: r) = (keyOK sep k && (lookup k r).isNone && keysOK sep r) := rfl

theorem keysOK_setKey {α : Type} {sep : Char} {k : Key} (hk : keyOK sep k = true) (v : α) :
    ∀ {l : List (Key × α)}, keysOK sep l = true → keysOK sep (setKey k v l) = true := by
  intro l
  induction l with
  | nil => intro _; simp [setKey, keysOK, hk]
  | cons hd t ih =>
    intro h
    obtain ⟨k', v'⟩ := hd
    rw [keysOK_cons] at h
    simp only [Bool.and_eq_true, Option.isNone_iff_eq_none] at h
    by_cases e : k' = k
    · simp only [setKey, e, if_true, keysOK_cons, Bool.and_eq_true, Option.isNone_iff_eq_none]
      subst e; exact h
    · simp only [setKey, e, if_false, keysOK_cons, Bool.and_eq_true, Option.isNone_iff_eq_none]
      refine ⟨⟨h.1.1, ?_⟩, ih h.2⟩
      rw [lookup_setKey_ne (fun x => e x.symm)]; exact h.1.2

theorem keyOK_of_mem {α : Type} {sep : Char} {l : List (Key × α)} (h : keysOK sep l = true) {kv : Key × α}
    (hm : kv ∈ l) : keyOK sep kv.1 = true := by
  induction l with
  | nil => cases hm
  | cons hd t ih =>
    obtain ⟨k', v'⟩ := hd
    rw [keysOK_cons] at h
    simp only [Bool.and_eq_true] at h
    rcases List.mem_cons.mp hm with e | e
    · subst e; exact h.1.1
    · exact ih h.2 e

theorem lookup_of_mem_keysOK {α : Type} {sep : Char} {l : List (Key × α)} (h : keysOK sep l = true) {k : Key} {v : α}
    (hm : (k, v) ∈ l) : lookup k l = some v := by
  induction l with
  | nil => cases hm
  | cons hd t ih =>
    obtain ⟨k', v'⟩ := hd
    rw [keysOK_cons] at h
    simp only [Bool.and_eq_true, Option.isNone_iff_eq_none] at h
    rcases List.mem_cons.mp hm with e | e
    · cases e; simp [lookup_cons]
    · have hne : k' ≠ k := by
        intro e2; subst e2
        have := lookup_eq_none_iff.mp h.1.2 _ e
        exact this rfl
      simp only [lookup_cons, hne, if_false]
      exact ih h.2 e

/-! ### the first loop builds, per first segment, the dictionary of the remainders -/

/-- state of `new_kwargs[k0]` after the first loop over `E` -/
def InvK (sep : Char) (E : Entries) (G : Dict) (k0 : Str) : Prop :=
  (tails k0 E = [] ∧ lookup (.str k0) G = none) ∨
  (∃ v, tails k0 E = [([], v)] ∧ lookup (.str k0) G = some (.leaf v)) ∨
  (tails k0 E ≠ [] ∧ (∀ t ∈ tails k0 E, t.1 ≠ []) ∧ lookup (.str k0) G = some (.node (kwOf sep (tails k0 E))))

theorem InvK_of_ne {sep : Char} {E0 : Entries} {G0 G1 : Dict} {k0 k1 : Str} {q' : List Str} {v : Option Val}
    (hne : k1 ≠ k0) (hl : lookup (.str k1) G1 = lookup (.str k1) G0) (h : InvK sep E0 G0 k1) :
    InvK sep (E0 ++ [(k0 :: q', v)]) G1 k1 := by
  have ht : tails k1 (E0 ++ [(k0 :: q', v)]) = tails k1 E0 := by
    rw [tails_append, tails_single, if_neg (fun e => hne e.symm), List.append_nil]
  unfold InvK
  rw [ht, hl]
  exact h

theorem magicStep_inv (sep : Char) (E0 : Entries) (e : List Str × Option Val) (G0 : Dict)
    (hsf : SF sep (E0 ++ [e])) (hpf : PF (E0 ++ [e])) (hk : keysOK sep G0 = true) (hinv : ∀ k0, InvK sep E0 G0 k0) :
    ∃ G1, magicStep sep G0 (.str (joinWith sep e.1)) (.leaf e.2) = .ok G1 ∧ keysOK sep G1 = true ∧
      ∀ k0, InvK sep (E0 ++ [e]) G1 k0 := by
  obtain ⟨q, v⟩ := e
  have hq := hsf (q, v) (by simp)
  have hinc : ∀ a ∈ E0, Incomp a (q, v) := by
    have := (List.pairwise_append.mp hpf).2.2
    intro a ha; exact this a ha (q, v) (by simp)
  cases q with
  | nil => exact absurd rfl hq.1
  | cons k0 q' =>
    have hs : splitOn sep (joinWith sep (k0 :: q')) = k0 :: q' := splitOn_joinWith (by simp) hq.2
    have hk0 : keyOK sep (.str k0) = true := keyOK_str (hq.2 k0 (by simp))
    rw [magicStep_of_split hs]
    cases q' with
    | nil =>
      refine ⟨_, rfl, keysOK_setKey hk0 _ hk, ?_⟩
      intro k1
      by_cases hne : k1 = k0
      · subst hne
        have hT : tails k1 E0 = [] := by
          apply List.eq_nil_iff_forall_not_mem.mpr
          intro t ht
          obtain ⟨t1, t2⟩ := t
          have := hinc _ (mem_tails.mp ht)
          exact this.2 (by simp [List.cons_prefix_cons])
        right; left
        refine ⟨v, ?_, lookup_setKey_self _ _ _⟩
        rw [tails_append, hT, tails_single]; simp
      · exact InvK_of_ne hne (lookup_setKey_ne (by intro x; exact hne (by injection x with x; exact x.symm)) _ _) (hinv k1)
    | cons m ms =>
      simp only []
      rcases hinv k0 with ⟨hT, hl⟩ | ⟨v0, hT, hl⟩ | ⟨hT, hne0, hl⟩
      · -- first key with this first segment
        rw [hl]
        refine ⟨_, rfl, keysOK_setKey hk0 _ hk, ?_⟩
        intro k1
        by_cases hne : k1 = k0
        · subst hne
          right; right
          have ht : tails k1 (E0 ++ [(k1 :: m :: ms, v)]) = [(m :: ms, v)] := by
            rw [tails_append, hT, tails_single]; simp
          rw [ht]
          refine ⟨by simp, by simp, ?_⟩
          rw [lookup_setKey_self]; rfl
        · exact InvK_of_ne hne (lookup_setKey_ne (by intro x; exact hne (by injection x with x; exact x.symm)) _ _) (hinv k1)
      · -- `k0` alone was a key: excluded, it is a prefix-path of the new key
        exfalso
        have hm : (([] : List Str), v0) ∈ tails k0 E0 := by rw [hT]; simp
        have := hinc _ (mem_tails.mp hm)
        exact this.1 (by simp [List.cons_prefix_cons])
      · -- merge into the dictionary of remainders
        rw [hl]
        have hnone : lookup (.str (joinWith sep (m :: ms))) (kwOf sep (tails k0 E0)) = none := by
          apply lookup_eq_none_iff.mpr
          intro kv hkv
          simp only [kwOf, List.mem_map] at hkv
          obtain ⟨t, ht, rfl⟩ := hkv
          obtain ⟨t1, t2⟩ := t
          intro heq
          have hmem := mem_tails.mp ht
          have hsf0 := hsf _ (List.mem_append_left _ hmem)
          have : t1 = m :: ms := by
            apply joinWith_inj (hne0 _ ht) (by simp) (fun w hw => hsf0.2 w (List.mem_cons_of_mem _ hw))
              (fun w hw => hq.2 w (List.mem_cons_of_mem _ hw))
            simpa using heq
          subst this
          exact (hinc _ hmem).1 List.prefix_rfl
        refine ⟨_, rfl, keysOK_setKey hk0 _ hk, ?_⟩
        intro k1
        by_cases hne : k1 = k0
        · subst hne
          right; right
          have ht : tails k1 (E0 ++ [(k1 :: m :: ms, v)]) = tails k1 E0 ++ [(m :: ms, v)] := by
            rw [tails_append, tails_single]; simp
          rw [ht]
          refine ⟨by simp, ?_, ?_⟩
          · intro t htm
            rcases List.mem_append.mp htm with h1 | h1
            · exact hne0 t h1
            · simp at h1; subst h1; simp
          · rw [lookup_setKey_self, setKey_of_lookup_none hnone, kwOf_append]; rfl
        · exact InvK_of_ne hne (lookup_setKey_ne (by intro x; exact hne (by injection x with x; exact x.symm)) _ _) (hinv k1)

theorem magicLoop_inv (sep : Char) : ∀ (E1 E0 : Entries) (G0 : Dict), SF sep (E0 ++ E1) → PF (E0 ++ E1) →
    keysOK sep G0 = true → (∀ k0, InvK sep E0 G0 k0) →
    ∃ G, magicLoop sep G0 (kwOf sep E1) = .ok G ∧ keysOK sep G = true ∧ ∀ k0, InvK sep (E0 ++ E1) G k0 := by
  intro E1
  induction E1 with
  | nil => intro E0 G0 _ _ hk hinv; exact ⟨G0, rfl, hk, by simpa using hinv⟩
  | cons e E1' ih =>
    intro E0 G0 hsf hpf hk hinv
    have happ : E0 ++ e :: E1' = (E0 ++ [e]) ++ E1' := by simp
    have hsf1 : SF sep (E0 ++ [e]) := fun x hx => hsf x (by rw [happ]; exact List.mem_append_left _ hx)
    have hpf1 : PF (E0 ++ [e]) := by
      unfold PF at hpf ⊢
      rw [happ] at hpf
      exact (List.pairwise_append.mp hpf).1
    obtain ⟨G1, hstep, hk1, hinv1⟩ := magicStep_inv sep E0 e G0 hsf1 hpf1 hk hinv
    obtain ⟨G, hloop, hkG, hinvG⟩ := ih (E0 ++ [e]) G1 (by rw [← happ]; exact hsf) (by rw [← happ]; exact hpf) hk1 hinv1
    refine ⟨G, ?_, hkG, by rw [happ]; exact hinvG⟩
    simp only [kwOf, List.map_cons]
    rw [magicLoop_cons, hstep]
    exact hloop

theorem magicLoop_kwOf (sep : Char) (E : Entries) (hsf : SF sep E) (hpf : PF E) :
    ∃ G, magicLoop sep [] (kwOf sep E) = .ok G ∧ keysOK sep G = true ∧ ∀ k0, InvK sep E G k0 := by
  have := magicLoop_inv sep E [] [] (by simpa using hsf) (by simpa using hpf) rfl
    (fun k0 => Or.inl ⟨rfl, rfl⟩)
  simpa using this

/-! ### the second loop -/

theorem mapValsM_lookup {f : Dict → Except Err Dict} : ∀ (G R : Dict), mapValsM f G = .ok R → ∀ k : Key,
    match lookup k G with
    | none => lookup k R = none
    | some (.leaf v) => lookup k R = some (.leaf v)
    | some (.node kv) => ∃ r, f kv = .ok r ∧ lookup k R = some (.node r) := by
  intro G
  induction G with
  | nil => intro R h k; simp only [mapValsM_nil, Except.ok.injEq] at h; subst h; simp
  | cons hd t ih =>
    intro R h k
    obtain ⟨k', v'⟩ := hd
    cases v' with
    | leaf lv =>
      rw [mapValsM_cons_leaf] at h
      cases ht : mapValsM f t with
      | error e => rw [ht] at h; cases h
      | ok rs =>
        rw [ht] at h; simp only [Except.ok.injEq] at h; subst h
        by_cases e : k' = k
        · simp [lookup_cons, e]
        · simp only [lookup_cons, e, if_false]; exact ih rs ht k
    | node kv =>
      rw [mapValsM_cons_node] at h
      cases hf : f kv with
      | error e => rw [hf] at h; cases h
      | ok r1 =>
        rw [hf] at h; simp only [] at h
        cases ht : mapValsM f t with
        | error e => rw [ht] at h; cases h
        | ok rs =>
          rw [ht] at h; simp only [Except.ok.injEq] at h; subst h
          by_cases e : k' = k
          · simp only [lookup_cons, e, if_true]; exact ⟨r1, hf, rfl⟩
          · simp only [lookup_cons, e, if_false]; exact ih rs ht k

theorem mapValsM_lookup_none {f : Dict → Except Err Dict} {G R : Dict} (h : mapValsM f G = .ok R) (k : Key) :
    lookup k R = none ↔ lookup k G = none := by
  have := mapValsM_lookup G R h k
  cases hl : lookup k G with
  | none => rw [hl] at this; simpa using this
  | some c =>
    rw [hl] at this
    cases c with
    | leaf v => simp only [] at this; simp [this]
    | node kv => obtain ⟨r, _, hr⟩ := this; simp [hr]

theorem mapValsM_keysOK {f : Dict → Except Err Dict} (sep : Char) : ∀ (G R : Dict), mapValsM f G = .ok R →
    keysOK sep G = true → keysOK sep R = true := by
  intro G
  induction G with
  | nil => intro R h _; simp only [mapValsM_nil, Except.ok.injEq] at h; subst h; rfl
  | cons hd t ih =>
    intro R h hk
    obtain ⟨k', v'⟩ := hd
    rw [keysOK_cons] at hk
    simp only [Bool.and_eq_true, Option.isNone_iff_eq_none] at hk
    cases v' with
    | leaf lv =>
      rw [mapValsM_cons_leaf] at h
      cases ht : mapValsM f t with
      | error e => rw [ht] at h; cases h
      | ok rs =>
        rw [ht] at h; simp only [Except.ok.injEq] at h; subst h
        rw [keysOK_cons]
        simp only [Bool.and_eq_true, Option.isNone_iff_eq_none]
        exact ⟨⟨hk.1.1, (mapValsM_lookup_none ht k').mpr hk.1.2⟩, ih rs ht hk.2⟩
    | node kv =>
      rw [mapValsM_cons_node] at h
      cases hf : f kv with
      | error e => rw [hf] at h; cases h
      | ok r1 =>
        rw [hf] at h; simp only [] at h
        cases ht : mapValsM f t with
        | error e => rw [ht] at h; cases h
        | ok rs =>
          rw [ht] at h; simp only [Except.ok.injEq] at h; subst h
          rw [keysOK_cons]
          simp only [Bool.and_eq_true, Option.isNone_iff_eq_none]
          exact ⟨⟨hk.1.1, (mapValsM_lookup_none ht k').mpr hk.1.2⟩, ih rs ht hk.2⟩

theorem mapValsM_values {f : Dict → Except Err Dict} : ∀ (G R : Dict), mapValsM f G = .ok R → ∀ kv ∈ R,
    (∃ v, kv.2 = .leaf v) ∨ (∃ kd r, (kv.1, Tree.node kd) ∈ G ∧ f kd = .ok r ∧ kv.2 = .node r) := by
  intro G
  induction G with
  | nil => intro R h kv hm; simp only [mapValsM_nil, Except.ok.injEq] at h; subst h; cases hm
  | cons hd t ih =>
    intro R h kv hm
    obtain ⟨k', v'⟩ := hd
    cases v' with
    | leaf lv =>
      rw [mapValsM_cons_leaf] at h
      cases ht : mapValsM f t with
      | error e => rw [ht] at h; cases h
      | ok rs =>
        rw [ht] at h; simp only [Except.ok.injEq] at h; subst h
        rcases List.mem_cons.mp hm with e | e
        · subst e; exact Or.inl ⟨lv, rfl⟩
        · rcases ih rs ht kv e with h1 | ⟨kd, r, h1, h2, h3⟩
          · exact Or.inl h1
          · exact Or.inr ⟨kd, r, List.mem_cons_of_mem _ h1, h2, h3⟩
    | node kv0 =>
      rw [mapValsM_cons_node] at h
      cases hf : f kv0 with
      | error e => rw [hf] at h; cases h
      | ok r1 =>
        rw [hf] at h; simp only [] at h
        cases ht : mapValsM f t with
        | error e => rw [ht] at h; cases h
        | ok rs =>
          rw [ht] at h; simp only [Except.ok.injEq] at h; subst h
          rcases List.mem_cons.mp hm with e | e
          · subst e; exact Or.inr ⟨kv0, r1, by simp, hf, rfl⟩
          · rcases ih rs ht kv e with h1 | ⟨kd, r, h1, h2, h3⟩
            · exact Or.inl h1
            · exact Or.inr ⟨kd, r, List.mem_cons_of_mem _ h1, h2, h3⟩

theorem mapValsM_error {f : Dict → Except Err Dict} : ∀ (G : Dict) (e : Err), mapValsM f G = .error e →
    ∃ k kd, (k, Tree.node kd) ∈ G ∧ f kd = .error e := by
  intro G
  induction G with
  | nil => intro e h; cases h
  | cons hd t ih =>
    intro e h
    obtain ⟨k', v'⟩ := hd
    cases v' with
    | leaf lv =>
      rw [mapValsM_cons_leaf] at h
      cases ht : mapValsM f t with
      | ok rs => rw [ht] at h; cases h
      | error e' =>
        rw [ht] at h; simp only [Except.error.injEq] at h; subst h
        obtain ⟨k, kd, h1, h2⟩ := ih e' ht
        exact ⟨k, kd, List.mem_cons_of_mem _ h1, h2⟩
    | node kv0 =>
      rw [mapValsM_cons_node] at h
      cases hf : f kv0 with
      | error e' =>
        rw [hf] at h; simp only [Except.error.injEq] at h; subst h
        exact ⟨k', kv0, by simp, hf⟩
      | ok r1 =>
        rw [hf] at h; simp only [] at h
        cases ht : mapValsM f t with
        | ok rs => rw [ht] at h; cases h
        | error e' =>
          rw [ht] at h; simp only [Except.error.injEq] at h; subst h
          obtain ⟨k, kd, h1, h2⟩ := ih e' ht
          exact ⟨k, kd, List.mem_cons_of_mem _ h1, h2⟩

/-! ### good trees: string keys without separator, pairwise different, at every level -/

mutual
def Tree.good (sep : Char) : Tree → Bool
  | .leaf _ => true
  | .node kids => goodKids sep kids
def goodKids (sep : Char) : List (Key × Tree) → Bool
  | [] => true
  | (k, v) :: r => keyOK sep k && (lookup k r).isNone && v.good sep && goodKids sep r
end

theorem goodKids_cons (sep : Char) (k : Key) (v : Tree) (r : Dict) :
    goodKids sep ((k, v) :: r) = (keyOK sep k && (lookup k r).isNone && v.good sep && goodKids sep r) := by
  simp only [goodKids]

theorem goodKids_iff (sep : Char) (l : Dict) :
    goodKids sep l = true ↔ keysOK sep l = true ∧ ∀ kv ∈ l, kv.2.good sep = true := by
  induction l with
  | nil => simp [goodKids, keysOK]
  | cons hd t ih =>
    obtain ⟨k, v⟩ := hd
    rw [goodKids_cons, keysOK_cons]
    simp only [Bool.and_eq_true, ih, List.mem_cons, forall_eq_or_imp]
    constructor
    · rintro ⟨⟨⟨h1, h2⟩, h3⟩, h4, h5⟩; exact ⟨⟨⟨h1, h2⟩, h4⟩, h3, h5⟩
    · rintro ⟨⟨⟨h1, h2⟩, h4⟩, h3, h5⟩; exact ⟨⟨⟨h1, h2⟩, h3⟩, h4, h5⟩

/-! ### the result of `magic_to_dict` on a prefix-free flat keyword dictionary -/

/-- for every fuel: the only possible failure is lack of fuel; a result is a good tree whose non-dict values sit
exactly at the paths of the keys, with the values given -/
theorem magicFuel_kwOf (sep : Char) : ∀ (n : Nat) (E : Entries), SF sep E → PF E →
    (∀ e, magicFuel sep n (kwOf sep E) = .error e → e = .fuel) ∧
    (∀ R, magicFuel sep n (kwOf sep E) = .ok R → goodKids sep R = true ∧
      (∀ (q : List Str) (v : Option Val), getPath (.node R) (q.map Key.str) = some (.leaf v) ↔ (q, v) ∈ E) ∧
      (∀ (q : List Str) (x : Tree), q ≠ [] → getPath (.node R) (q.map Key.str) = some x → ∃ p v, (p, v) ∈ E ∧ q <+: p)) := by
  intro n
  induction n with
  | zero =>
    intro E _ _
    refine ⟨fun e h => by cases h; rfl, fun R h => by cases h⟩
  | succ m ih =>
    intro E hsf hpf
    obtain ⟨G, hloop, hkG, hinv⟩ := magicLoop_kwOf sep E hsf hpf
    rw [magicFuel_succ, hloop]
    simp only []
    -- facts about the dictionaries of remainders
    have hsub : ∀ k0, tails k0 E ≠ [] → (∀ t ∈ tails k0 E, t.1 ≠ []) → SF sep (tails k0 E) ∧ PF (tails k0 E) :=
      fun k0 _ hne => ⟨SF_tails hsf hne, PF_tails hpf⟩
    have hnode : ∀ k kd, (k, Tree.node kd) ∈ G → ∃ k0, k = .str k0 ∧ tails k0 E ≠ [] ∧ (∀ t ∈ tails k0 E, t.1 ≠ []) ∧
        kd = kwOf sep (tails k0 E) := by
      intro k kd hm
      obtain ⟨k0, rfl, _⟩ := keyOK_iff.mp (keyOK_of_mem hkG hm)
      have hl := lookup_of_mem_keysOK hkG hm
      rcases hinv k0 with ⟨_, h2⟩ | ⟨v0, _, h2⟩ | ⟨h1, h2, h3⟩
      · rw [h2] at hl; cases hl
      · rw [h2] at hl; cases hl
      · rw [h3] at hl; cases hl; exact ⟨k0, rfl, h1, h2, rfl⟩
    constructor
    · intro e he
      obtain ⟨k, kd, hm, hf⟩ := mapValsM_error G e he
      obtain ⟨k0, _, h1, h2, rfl⟩ := hnode k kd hm
      exact (ih _ (hsub k0 h1 h2).1 (hsub k0 h1 h2).2).1 e hf
    · intro R hR
      refine ⟨?_, ?_⟩
      · rw [goodKids_iff]
        refine ⟨mapValsM_keysOK sep G R hR hkG, ?_⟩
        intro kv hkv
        rcases mapValsM_values G R hR kv hkv with ⟨v, hv⟩ | ⟨kd, r, hm, hf, hv⟩
        · rw [hv]; rfl
        · obtain ⟨k0, _, h1, h2, rfl⟩ := hnode kv.1 kd hm
          rw [hv]
          simpa [Tree.good] using ((ih _ (hsub k0 h1 h2).1 (hsub k0 h1 h2).2).2 r hf).1
      refine ⟨?_, ?_⟩
      · intro q v
        cases q with
        | nil =>
          simp only [List.map_nil, getPath_nil]
          constructor
          · intro h; cases h
          · intro h; exact absurd rfl (hsf _ h).1
        | cons k0 q' =>
          simp only [List.map_cons, getPath_node_cons]
          have hlk := mapValsM_lookup G R hR (.str k0)
          rcases hinv k0 with ⟨hT, hl⟩ | ⟨v0, hT, hl⟩ | ⟨hT, hne0, hl⟩
          · rw [hl] at hlk; simp only [] at hlk
            rw [hlk]
            constructor
            · intro h; cases h
            · intro h
              have := mem_tails.mpr h
              rw [hT] at this; cases this
          · rw [hl] at hlk; simp only [] at hlk
            rw [hlk]; simp only []
            rw [← mem_tails, hT]
            cases q' with
            | nil => simp [getPath_nil, eq_comm]
            | cons a b => simp [getPath_leaf_cons]
          · rw [hl] at hlk; simp only [] at hlk
            obtain ⟨r, hf, hr⟩ := hlk
            rw [hr]; simp only []
            rw [← mem_tails]
            exact ((ih _ (hsub k0 hT hne0).1 (hsub k0 hT hne0).2).2 r hf).2.1 q' v
      · -- every value of the result lies on the path of some key (no empty dictionaries)
        intro q x hq hx
        cases q with
        | nil => exact absurd rfl hq
        | cons k0 q' =>
          simp only [List.map_cons, getPath_node_cons] at hx
          have hlk := mapValsM_lookup G R hR (.str k0)
          rcases hinv k0 with ⟨hT, hl⟩ | ⟨v0, hT, hl⟩ | ⟨hT, hne0, hl⟩
          · rw [hl] at hlk; simp only [] at hlk
            rw [hlk] at hx; cases hx
          · rw [hl] at hlk; simp only [] at hlk
            rw [hlk] at hx; simp only [] at hx
            cases q' with
            | cons a b => simp [getPath_leaf_cons] at hx
            | nil =>
              refine ⟨[k0], v0, ?_, List.prefix_rfl⟩
              rw [← mem_tails, hT]; simp
          · rw [hl] at hlk; simp only [] at hlk
            obtain ⟨r, hf, hr⟩ := hlk
            rw [hr] at hx; simp only [] at hx
            cases q' with
            | nil =>
              cases hte : tails k0 E with
              | nil => exact absurd hte hT
              | cons t ts =>
                obtain ⟨t1, t2⟩ := t
                refine ⟨k0 :: t1, t2, mem_tails.mp (by rw [hte]; simp), ?_⟩
                simp [List.cons_prefix_cons]
            | cons a b =>
              obtain ⟨p', v', hm, hp⟩ := ((ih _ (hsub k0 hT hne0).1 (hsub k0 hT hne0).2).2 r hf).2.2 (a :: b) x (by simp) hx
              exact ⟨k0 :: p', v', mem_tails.mp hm, by simpa [List.cons_prefix_cons] using hp⟩

theorem weightKids_nonneg_fuel (sep : Char) (kw : Dict) : weightKids sep kw < weightKids sep kw + 1 := Nat.lt_succ_self _

/-- `magic_to_dict` succeeds on a prefix-free flat keyword dictionary, and the result is the trie of the keys -/
theorem magicToDict_kwOf (sep : Char) (E : Entries) (hsf : SF sep E) (hpf : PF E) :
    ∃ R, magicToDict sep (.node (kwOf sep E)) = .ok (.node R) ∧ goodKids sep R = true ∧
      (∀ (q : List Str) (v : Option Val), getPath (.node R) (q.map Key.str) = some (.leaf v) ↔ (q, v) ∈ E) ∧
      (∀ (q : List Str) (x : Tree), q ≠ [] → getPath (.node R) (q.map Key.str) = some x → ∃ p v, (p, v) ∈ E ∧ q <+: p) := by
  have h := magicFuel_kwOf sep (weightKids sep (kwOf sep E) + 1) E hsf hpf
  cases hr : magicFuel sep (weightKids sep (kwOf sep E) + 1) (kwOf sep E) with
  | error e =>
    have := h.1 e hr
    subst this
    exact absurd hr (magicFuel_no_fuel_error sep _ _ (Nat.lt_succ_self _))
  | ok R =>
    refine ⟨R, ?_, h.2 R hr⟩
    simp only [magicToDict, hr]

end MagpyVerif.StyleNested
