/- C16, `get_disconnected_faces_subsets`: the nested while/for merge computes the partition of the faces'
vertices into vertex-connected components; the fuel the driver uses is sufficient. -/
import Mathlib.Logic.Relation
import Mathlib.Tactic
import MagpyVerif.Model.Mesh
namespace MagpyVerif.Mesh

/-- two vertices lie on a common face of the list -/
def Adj (L : List Face) (a b : Nat) : Prop := ∃ g ∈ L, a ∈ verts g ∧ b ∈ verts g

/-- `u` and `v` are linked by a chain of faces of `L` in which consecutive faces share a vertex
(written on the vertices: `u = v₀, v₁, …, vₖ = v` with `vᵢ, vᵢ₊₁` on a common face) -/
def VConn (L : List Face) : Nat → Nat → Prop := Relation.ReflTransGen (Adj L)

/-- two faces of the list share a vertex -/
def FaceAdj (L : List Face) (f g : Face) : Prop := f ∈ L ∧ g ∈ L ∧ ∃ v, v ∈ verts f ∧ v ∈ verts g

/-- chain of faces of `L`, consecutive ones sharing a vertex -/
def FaceConn (L : List Face) : Face → Face → Prop := Relation.ReflTransGen (FaceAdj L)

/-- the mesh is vertex-connected: any two vertices of faces are linked -/
def VertexConnected (L : List Face) : Prop :=
  ∀ g ∈ L, ∀ h ∈ L, ∀ u ∈ verts g, ∀ v ∈ verts h, VConn L u v

theorem adj_symm {L : List Face} {a b : Nat} (h : Adj L a b) : Adj L b a := by
  obtain ⟨g, hg, ha, hb⟩ := h
  exact ⟨g, hg, hb, ha⟩

theorem vconn_symm {L : List Face} {a b : Nat} (h : VConn L a b) : VConn L b a := by
  induction h with
  | refl => exact Relation.ReflTransGen.refl
  | tail _ hbc ih => exact Relation.ReflTransGen.head (adj_symm hbc) ih

theorem vconn_trans {L : List Face} {a b c : Nat} (h1 : VConn L a b) (h2 : VConn L b c) : VConn L a c :=
  Relation.ReflTransGen.trans h1 h2

theorem vconn_refl (L : List Face) (a : Nat) : VConn L a a := Relation.ReflTransGen.refl

theorem vconn_of_face {L : List Face} {g : Face} (hg : g ∈ L) {a b : Nat} (ha : a ∈ verts g) (hb : b ∈ verts g) :
    VConn L a b := Relation.ReflTransGen.single ⟨g, hg, ha, hb⟩

/-- connectivity only depends on which pairs of vertices lie on a common face -/
theorem vconn_congr {L1 L2 : List Face} (h : ∀ a b, Adj L1 a b → Adj L2 a b) {u v : Nat} (huv : VConn L1 u v) :
    VConn L2 u v := by
  induction huv with
  | refl => exact Relation.ReflTransGen.refl
  | tail _ hbc ih => exact Relation.ReflTransGen.tail ih (h _ _ hbc)

/-- a vertex linked to a different vertex lies on a face -/
theorem vconn_vertex {L : List Face} {u v : Nat} (h : VConn L u v) : u = v ∨ ∃ g ∈ L, u ∈ verts g := by
  rcases Relation.ReflTransGen.cases_head h with h | ⟨b, ⟨g, hg, hu, _⟩, _⟩
  · exact Or.inl h
  · exact Or.inr ⟨g, hg, hu⟩

/-- vertex chain → face chain -/
theorem faceConn_of_vconn {L : List Face} {u v : Nat} (h : VConn L u v) :
    ∀ f ∈ L, u ∈ verts f → ∃ g ∈ L, v ∈ verts g ∧ FaceConn L f g := by
  induction h with
  | refl => intro f hf hu; exact ⟨f, hf, hu, Relation.ReflTransGen.refl⟩
  | tail _ hbc ih =>
    intro f hf hu
    obtain ⟨g, hg, hb, hfg⟩ := ih f hf hu
    obtain ⟨k, hk, hbk, hck⟩ := hbc
    exact ⟨k, hk, hck, hfg.tail ⟨hg, hk, _, hb, hbk⟩⟩

/-- face chain → vertex chain -/
theorem vconn_of_faceConn {L : List Face} {f g : Face} (h : FaceConn L f g) (hf : f ∈ L) :
    ∀ u ∈ verts f, ∀ v ∈ verts g, VConn L u v := by
  induction h with
  | refl => intro u hu v hv; exact vconn_of_face hf hu hv
  | tail _ hbc ih =>
    intro u hu v hv
    obtain ⟨hb, hc, w, hwb, hwc⟩ := hbc
    exact vconn_trans (ih u hu w hwb) (vconn_of_face hc hwc hv)

/-! ### one pass of the `for r in rest` loop -/

theorem touches_iff (S : List Nat) (r : Face) :
    ((verts r).any (fun v => S.contains v) = true) ↔ ∃ v ∈ verts r, v ∈ S := by
  simp [List.any_eq_true]

theorem mem_newVerts (S : List Nat) (r : Face) (v : Nat) :
    v ∈ ((verts r).filter (fun v => !S.contains v)).eraseDups ↔ v ∈ verts r ∧ v ∉ S := by
  simp [List.mem_eraseDups, List.mem_filter]

/-- what one pass from `(S0, K0)` over `rest` yields -/
structure SweepSpec (S0 : List Nat) (K0 rest : List Face) (S1 : List Nat) (K1 : List Face) : Prop where
  sub : ∀ v ∈ S0, v ∈ S1
  keep0 : ∀ g ∈ K0, g ∈ K1
  kept : ∀ g ∈ K1, g ∈ K0 ∨ (g ∈ rest ∧ ∀ v ∈ verts g, v ∉ S0)
  split : ∀ g ∈ rest, (∀ v ∈ verts g, v ∈ S1) ∨ g ∈ K1
  closed : ∀ C : Nat → Prop, (∀ g ∈ rest, ∀ a ∈ verts g, ∀ b ∈ verts g, C a → C b) → (∀ v ∈ S0, C v) → ∀ v ∈ S1, C v
  lenK : K1.length ≤ K0.length + rest.length
  lenS : S0.length ≤ S1.length
  nogrow : S1.length ≤ S0.length → S1 = S0
  grow : S0.length < S1.length → K1.length < K0.length + rest.length

theorem foldl_sweepStep_spec (rest : List Face) : ∀ (S0 : List Nat) (K0 : List Face),
    SweepSpec S0 K0 rest (rest.foldl sweepStep (S0, K0)).1 (rest.foldl sweepStep (S0, K0)).2 := by
  induction rest with
  | nil =>
    intro S0 K0
    refine ⟨fun v h => h, fun g h => h, fun g h => Or.inl h, ?_, fun C _ h => h, ?_, ?_, fun _ => rfl, ?_⟩
    · intro g hg; cases hg
    · simp
    · simp
    · intro h; simp at h
  | cons r rest ih =>
    intro S0 K0
    rw [List.foldl_cons]
    by_cases ht : (verts r).any (fun v => S0.contains v) = true
    · -- the face touches `first`: it is absorbed
      have hstep : sweepStep (S0, K0) r = (S0 ++ ((verts r).filter (fun v => !S0.contains v)).eraseDups, K0) := by
        simp only [sweepStep, ht, if_true]
      rw [hstep]
      set N := ((verts r).filter (fun v => !S0.contains v)).eraseDups with hN
      have sp := ih (S0 ++ N) K0
      obtain ⟨a, har, haS⟩ := (touches_iff S0 r).mp ht
      refine ⟨?_, sp.keep0, ?_, ?_, ?_, ?_, ?_, ?_, ?_⟩
      · intro v hv; exact sp.sub v (List.mem_append_left _ hv)
      · intro g hg
        rcases sp.kept g hg with h | ⟨h1, h2⟩
        · exact Or.inl h
        · exact Or.inr ⟨List.mem_cons_of_mem _ h1, fun v hv hS => h2 v hv (List.mem_append_left _ hS)⟩
      · intro g hg
        rcases List.mem_cons.mp hg with rfl | hg
        · left
          intro v hv
          apply sp.sub
          by_cases hS : v ∈ S0
          · exact List.mem_append_left _ hS
          · exact List.mem_append_right _ ((mem_newVerts S0 g v).mpr ⟨hv, hS⟩)
        · exact sp.split g hg
      · intro C hC h0
        apply sp.closed C (fun g hg => hC g (List.mem_cons_of_mem _ hg))
        intro v hv
        rcases List.mem_append.mp hv with hv | hv
        · exact h0 v hv
        · exact hC r List.mem_cons_self a har v ((mem_newVerts S0 r v).mp hv).1 (h0 a haS)
      · have := sp.lenK; simp only [List.length_cons]; omega
      · have := sp.lenS; simp only [List.length_append] at this; omega
      · intro hle
        have h1 := sp.lenS
        simp only [List.length_append] at h1
        have hN0 : N = [] := List.eq_nil_of_length_eq_zero (by omega)
        have h2 := sp.nogrow (by simp only [List.length_append]; omega)
        rw [h2, hN0, List.append_nil]
      · intro _
        have := sp.lenK; simp only [List.length_cons]; omega
    · -- the face does not touch `first`: it goes to `rest2`
      have hstep : sweepStep (S0, K0) r = (S0, K0 ++ [r]) := by
        simp only [sweepStep, ht, Bool.false_eq_true, if_false]
      rw [hstep]
      have sp := ih S0 (K0 ++ [r])
      have hnt : ∀ v ∈ verts r, v ∉ S0 := fun v hv hS => ht ((touches_iff S0 r).mpr ⟨v, hv, hS⟩)
      refine ⟨sp.sub, ?_, ?_, ?_, ?_, ?_, sp.lenS, sp.nogrow, ?_⟩
      · intro g hg; exact sp.keep0 g (List.mem_append_left _ hg)
      · intro g hg
        rcases sp.kept g hg with h | ⟨h1, h2⟩
        · rcases List.mem_append.mp h with h | h
          · exact Or.inl h
          · rw [List.mem_singleton] at h
            subst h
            exact Or.inr ⟨List.mem_cons_self, hnt⟩
        · exact Or.inr ⟨List.mem_cons_of_mem _ h1, h2⟩
      · intro g hg
        rcases List.mem_cons.mp hg with rfl | hg
        · exact Or.inr (sp.keep0 g (List.mem_append_right _ (List.mem_singleton.mpr rfl)))
        · exact sp.split g hg
      · intro C hC h0
        exact sp.closed C (fun g hg => hC g (List.mem_cons_of_mem _ hg)) h0
      · have := sp.lenK; simp only [List.length_append, List.length_cons, List.length_nil] at this ⊢; omega
      · intro h
        have := sp.grow h; simp only [List.length_append, List.length_cons, List.length_nil] at this ⊢; omega

theorem sweep_spec (S0 : List Nat) (rest : List Face) :
    SweepSpec S0 [] rest (sweep S0 rest).1 (sweep S0 rest).2 := foldl_sweepStep_spec rest S0 []

/-! ### the inner `while len(first) > lf` loop -/

/-- what the inner while loop yields when it is run to its end -/
structure AbsorbSpec (S0 : List Nat) (rest : List Face) (S : List Nat) (R : List Face) : Prop where
  sub : ∀ v ∈ S0, v ∈ S
  restSub : ∀ g ∈ R, g ∈ rest
  split : ∀ g ∈ rest, (∀ v ∈ verts g, v ∈ S) ∨ g ∈ R
  sep : ∀ g ∈ R, ∀ v ∈ verts g, v ∉ S
  closed : ∀ C : Nat → Prop, (∀ g ∈ rest, ∀ a ∈ verts g, ∀ b ∈ verts g, C a → C b) → (∀ v ∈ S0, C v) → ∀ v ∈ S, C v
  len : R.length ≤ rest.length

theorem absorb_spec : ∀ (n : Nat) (S0 : List Nat) (rest : List Face), rest.length < n →
    AbsorbSpec S0 rest (absorb n S0 rest).1 (absorb n S0 rest).2 := by
  intro n
  induction n with
  | zero => intro S0 rest h; omega
  | succ n ih =>
    intro S0 rest hlen
    have sp := sweep_spec S0 rest
    simp only [absorb]
    by_cases hg : (sweep S0 rest).1.length > S0.length
    · rw [if_pos hg]
      have hK := sp.grow hg
      simp only [List.length_nil, Nat.zero_add] at hK
      have a := ih (sweep S0 rest).1 (sweep S0 rest).2 (by omega)
      have hsub : ∀ g ∈ (sweep S0 rest).2, g ∈ rest := by
        intro g hg
        rcases sp.kept g hg with h | h
        · cases h
        · exact h.1
      refine ⟨fun v hv => a.sub v (sp.sub v hv), fun g hg => hsub g (a.restSub g hg), ?_, a.sep, ?_, by have := a.len; omega⟩
      · intro g hg
        rcases sp.split g hg with h | h
        · exact Or.inl fun v hv => a.sub v (h v hv)
        · exact a.split g h
      · intro C hC h0
        exact a.closed C (fun g hg => hC g (hsub g hg)) (sp.closed C hC h0)
    · rw [if_neg hg]
      have heq := sp.nogrow (by omega)
      refine ⟨sp.sub, ?_, sp.split, ?_, sp.closed, by have := sp.lenK; simpa using this⟩
      · intro g hg
        rcases sp.kept g hg with h | h
        · cases h
        · exact h.1
      · intro g hg v hv
        rw [heq]
        rcases sp.kept g hg with h | h
        · cases h
        · exact h.2 v hv

/-- more fuel than `rest.length` never changes the result of the inner loop: it has run to its end -/
theorem absorb_fuel_irrelevant : ∀ (n m : Nat) (S0 : List Nat) (rest : List Face), rest.length < n → rest.length < m →
    absorb n S0 rest = absorb m S0 rest := by
  intro n
  induction n with
  | zero => intro m S0 rest h; omega
  | succ n ih =>
    intro m S0 rest hn hm
    cases m with
    | zero => omega
    | succ m =>
      simp only [absorb]
      by_cases hg : (sweep S0 rest).1.length > S0.length
      · rw [if_pos hg, if_pos hg]
        have hK := (sweep_spec S0 rest).grow hg
        simp only [List.length_nil, Nat.zero_add] at hK
        exact ih m _ _ (by omega) (by omega)
      · rw [if_neg hg, if_neg hg]

/-! ### the outer `while len(tria_temp) > 0` loop -/

/-- `SS` is the list of vertex-connected components of `L` -/
structure IsComponents (L : List Face) (SS : List (List Nat)) : Prop where
  /-- every subset is exactly the connectivity class of each of its members -/
  cls : ∀ s ∈ SS, ∀ u ∈ s, ∀ v, v ∈ s ↔ VConn L u v
  cover : ∀ g ∈ L, ∀ v ∈ verts g, ∃ s ∈ SS, v ∈ s
  vertsOnly : ∀ s ∈ SS, ∀ u ∈ s, ∃ g ∈ L, u ∈ verts g
  nonempty : ∀ s ∈ SS, s ≠ []
  disjoint : SS.Pairwise (fun s t => ∀ v ∈ s, v ∉ t)

theorem subsets_nil (n : Nat) : subsets n [] = [] := by
  cases n <;> rfl

theorem subsets_isComponents : ∀ (n : Nat) (L : List Face), L.length ≤ n → IsComponents L (subsets n L) := by
  intro n
  induction n with
  | zero =>
    intro L hL
    have : L = [] := List.eq_nil_of_length_eq_zero (by omega)
    subst this
    refine ⟨?_, ?_, ?_, ?_, ?_⟩ <;> simp [subsets]
  | succ n ih =>
    intro L hL
    cases L with
    | nil => refine ⟨?_, ?_, ?_, ?_, ?_⟩ <;> simp [subsets]
    | cons f rest =>
      simp only [subsets]
      have a := absorb_spec (3 * (rest.length + 1) + 1) (verts f).eraseDups rest (by omega)
      set S := (absorb (3 * (rest.length + 1) + 1) (verts f).eraseDups rest).1 with hS
      set R := (absorb (3 * (rest.length + 1) + 1) (verts f).eraseDups rest).2 with hR
      have hlenR : R.length ≤ n := by have := a.len; simp only [List.length_cons] at hL; omega
      have c := ih R hlenR
      have hfS : ∀ v ∈ verts f, v ∈ S := fun v hv => a.sub v (List.mem_eraseDups.mpr hv)
      -- every face of the input is inside S or left in R
      have hsplit : ∀ g ∈ f :: rest, (∀ v ∈ verts g, v ∈ S) ∨ g ∈ R := by
        intro g hg
        rcases List.mem_cons.mp hg with rfl | hg
        · exact Or.inl hfS
        · exact a.split g hg
      have hRsub : ∀ g ∈ R, g ∈ f :: rest := fun g hg => List.mem_cons_of_mem _ (a.restSub g hg)
      -- S is closed under adjacency of the whole input
      have hclosed : ∀ u ∈ S, ∀ v, VConn (f :: rest) u v → v ∈ S := by
        intro u hu v huv
        induction huv with
        | refl => exact hu
        | tail _ hbc ihb =>
          obtain ⟨g, hg, hb, hc⟩ := hbc
          rcases hsplit g hg with h | h
          · exact h _ hc
          · exact absurd ihb (a.sep g h _ hb)
      -- every member of S is linked to the first vertex of f
      have hlink : ∀ v ∈ S, VConn (f :: rest) f.1 v := by
        apply a.closed (fun v => VConn (f :: rest) f.1 v)
        · intro g hg x hx y hy hC
          exact vconn_trans hC (vconn_of_face (List.mem_cons_of_mem _ hg) hx hy)
        · intro v hv
          exact vconn_of_face List.mem_cons_self (by simp [verts]) (List.mem_eraseDups.mp hv)
      -- outside S, connectivity in the input and in R agree
      have hRconn : ∀ u, u ∉ S → ∀ v, VConn (f :: rest) u v → VConn R u v ∧ v ∉ S := by
        intro u hu v huv
        induction huv with
        | refl => exact ⟨vconn_refl _ _, hu⟩
        | tail _ hbc ihb =>
          obtain ⟨g, hg, hb, hc⟩ := hbc
          rcases hsplit g hg with h | h
          · exact absurd (h _ hb) ihb.2
          · exact ⟨vconn_trans ihb.1 (vconn_of_face h hb hc), a.sep g h _ hc⟩
      have hRout : ∀ s ∈ subsets n R, ∀ u ∈ s, u ∉ S := by
        intro s hs u hu
        obtain ⟨g, hg, hug⟩ := c.vertsOnly s hs u hu
        exact a.sep g hg u hug
      refine ⟨?_, ?_, ?_, ?_, ?_⟩
      · intro s hs u hu v
        rcases List.mem_cons.mp hs with rfl | hs
        · exact ⟨fun hv => vconn_trans (vconn_symm (hlink u hu)) (hlink v hv), hclosed u hu v⟩
        · rw [c.cls s hs u hu v]
          exact ⟨vconn_congr (fun a b ⟨g, hg, h⟩ => ⟨g, hRsub g hg, h⟩), fun h => (hRconn u (hRout s hs u hu) v h).1⟩
      · intro g hg v hv
        rcases hsplit g hg with h | h
        · exact ⟨S, List.mem_cons_self, h v hv⟩
        · obtain ⟨s, hs, hvs⟩ := c.cover g h v hv
          exact ⟨s, List.mem_cons_of_mem _ hs, hvs⟩
      · intro s hs u hu
        rcases List.mem_cons.mp hs with rfl | hs
        · rcases vconn_vertex (vconn_symm (hlink u hu)) with h | h
          · exact ⟨f, List.mem_cons_self, by rw [h]; simp [verts]⟩
          · exact h
        · obtain ⟨g, hg, hug⟩ := c.vertsOnly s hs u hu
          exact ⟨g, hRsub g hg, hug⟩
      · intro s hs
        rcases List.mem_cons.mp hs with rfl | hs
        · exact List.ne_nil_of_mem (hfS f.1 (by simp [verts]))
        · exact c.nonempty s hs
      · rw [List.pairwise_cons]
        exact ⟨fun t ht v hv hvt => hRout t ht v hvt hv, c.disjoint⟩

/-- fuel beyond the number of faces never changes the result of the outer loop -/
theorem subsets_fuel_irrelevant : ∀ (n m : Nat) (L : List Face), L.length ≤ n → L.length ≤ m →
    subsets n L = subsets m L := by
  intro n
  induction n with
  | zero =>
    intro m L hn _
    have : L = [] := List.eq_nil_of_length_eq_zero (by omega)
    subst this
    rw [subsets_nil, subsets_nil]
  | succ n ih =>
    intro m L hn hm
    cases L with
    | nil => rw [subsets_nil, subsets_nil]
    | cons f rest =>
      cases m with
      | zero => simp at hm
      | succ m =>
        simp only [subsets]
        have a := absorb_spec (3 * (rest.length + 1) + 1) (verts f).eraseDups rest (by omega)
        have := a.len
        simp only [List.length_cons] at hn hm
        rw [ih m _ (by omega) (by omega)]

/-! ### consequences -/

theorem IsComponents.length_eq_one_iff {L : List Face} {SS : List (List Nat)} (c : IsComponents L SS) :
    SS.length = 1 ↔ L ≠ [] ∧ VertexConnected L := by
  constructor
  · intro h1
    obtain ⟨s, rfl⟩ := List.length_eq_one_iff.mp h1
    have hs : s ∈ [s] := List.mem_singleton.mpr rfl
    constructor
    · obtain ⟨u, hu⟩ := List.exists_mem_of_ne_nil s (c.nonempty s hs)
      obtain ⟨g, hg, _⟩ := c.vertsOnly s hs u hu
      exact List.ne_nil_of_mem hg
    · intro g hg h hh u hu v hv
      obtain ⟨s1, hs1, hu1⟩ := c.cover g hg u hu
      obtain ⟨s2, hs2, hv2⟩ := c.cover h hh v hv
      rw [List.mem_singleton] at hs1 hs2
      subst hs1; subst hs2
      exact (c.cls _ hs u hu1 v).mp hv2
  · rintro ⟨hne, hconn⟩
    obtain ⟨g, L', rfl⟩ := List.exists_cons_of_ne_nil hne
    obtain ⟨s, hs, hgs⟩ := c.cover g List.mem_cons_self g.1 (by simp [verts])
    match SS, c, hs with
    | [s'], _, _ => rfl
    | s1 :: s2 :: T, c, hs =>
      exfalso
      have hs1 : s1 ∈ s1 :: s2 :: T := List.mem_cons_self
      have hs2 : s2 ∈ s1 :: s2 :: T := List.mem_cons_of_mem _ List.mem_cons_self
      obtain ⟨u, hu⟩ := List.exists_mem_of_ne_nil s1 (c.nonempty s1 hs1)
      obtain ⟨v, hv⟩ := List.exists_mem_of_ne_nil s2 (c.nonempty s2 hs2)
      obtain ⟨gu, hgu, hugu⟩ := c.vertsOnly s1 hs1 u hu
      obtain ⟨gv, hgv, hvgv⟩ := c.vertsOnly s2 hs2 v hv
      have huv := hconn gu hgu gv hgv u hugu v hvgv
      have hv1 : v ∈ s1 := (c.cls s1 hs1 u hu v).mpr huv
      have hd := c.disjoint
      rw [List.pairwise_cons] at hd
      exact hd.1 s2 List.mem_cons_self v hv1 hv

theorem IsComponents.eq_nil_iff {L : List Face} {SS : List (List Nat)} (c : IsComponents L SS) :
    SS = [] ↔ L = [] := by
  constructor
  · intro h
    subst h
    cases L with
    | nil => rfl
    | cons g L' =>
      obtain ⟨s, hs, _⟩ := c.cover g List.mem_cons_self g.1 (by simp [verts])
      cases hs
  · intro h
    subst h
    cases SS with
    | nil => rfl
    | cons s T =>
      obtain ⟨u, hu⟩ := List.exists_mem_of_ne_nil s (c.nonempty s List.mem_cons_self)
      obtain ⟨g, hg, _⟩ := c.vertsOnly s List.mem_cons_self u hu
      cases hg

/-- two face lists with the same vertex sets of faces (in any order, with any windings) -/
def SameFaceSets (L1 L2 : List Face) : Prop :=
  (∀ g ∈ L1, ∃ h ∈ L2, ∀ v, v ∈ verts g ↔ v ∈ verts h) ∧ (∀ h ∈ L2, ∃ g ∈ L1, ∀ v, v ∈ verts h ↔ v ∈ verts g)

theorem SameFaceSets.symm {L1 L2 : List Face} (h : SameFaceSets L1 L2) : SameFaceSets L2 L1 := ⟨h.2, h.1⟩

theorem SameFaceSets.adj {L1 L2 : List Face} (h : SameFaceSets L1 L2) (a b : Nat) (hab : Adj L1 a b) : Adj L2 a b := by
  obtain ⟨g, hg, ha, hb⟩ := hab
  obtain ⟨k, hk, hv⟩ := h.1 g hg
  exact ⟨k, hk, (hv a).mp ha, (hv b).mp hb⟩

theorem SameFaceSets.vconn {L1 L2 : List Face} (h : SameFaceSets L1 L2) (u v : Nat) : VConn L1 u v ↔ VConn L2 u v :=
  ⟨vconn_congr h.adj, vconn_congr h.symm.adj⟩

theorem SameFaceSets.vertexConnected {L1 L2 : List Face} (h : SameFaceSets L1 L2) (hc : VertexConnected L1) :
    VertexConnected L2 := by
  intro g hg k hk u hu v hv
  obtain ⟨g', hg', hgv⟩ := h.2 g hg
  obtain ⟨k', hk', hkv⟩ := h.2 k hk
  exact (h.vconn u v).mp (hc g' hg' k' hk' u ((hgv u).mp hu) v ((hkv v).mp hv))

theorem SameFaceSets.ne_nil {L1 L2 : List Face} (h : SameFaceSets L1 L2) (hne : L1 ≠ []) : L2 ≠ [] := by
  obtain ⟨g, L', rfl⟩ := List.exists_cons_of_ne_nil hne
  obtain ⟨k, hk, _⟩ := h.1 g List.mem_cons_self
  exact List.ne_nil_of_mem hk

/-- the six windings of a face: three rotations, each also flipped -/
def windings (f : Face) : List Face :=
  [(f.1, f.2.1, f.2.2), (f.2.1, f.2.2, f.1), (f.2.2, f.1, f.2.1), (f.1, f.2.2, f.2.1), (f.2.2, f.2.1, f.1), (f.2.1, f.1, f.2.2)]

theorem verts_of_winding {f g : Face} (h : g ∈ windings f) (v : Nat) : v ∈ verts f ↔ v ∈ verts g := by
  obtain ⟨a, b, c⟩ := f
  simp only [windings, List.mem_cons, List.not_mem_nil, or_false] at h
  rcases h with rfl | rfl | rfl | rfl | rfl | rfl <;> simp only [verts, List.mem_cons, List.not_mem_nil, or_false] <;> tauto

theorem sameFaceSets_of_perm {L1 L2 : List Face} (h : L1.Perm L2) : SameFaceSets L1 L2 :=
  ⟨fun g hg => ⟨g, h.mem_iff.mp hg, fun _ => Iff.rfl⟩, fun g hg => ⟨g, h.mem_iff.mpr hg, fun _ => Iff.rfl⟩⟩

theorem sameFaceSets_of_rewind {L1 L2 : List Face} (h : List.Forall₂ (fun f g => g ∈ windings f) L1 L2) :
    SameFaceSets L1 L2 := by
  induction h with
  | nil => constructor <;> intro g hg <;> cases hg
  | cons hab _ ih =>
    constructor
    · intro g hg
      rcases List.mem_cons.mp hg with rfl | hg
      · exact ⟨_, List.mem_cons_self, verts_of_winding hab⟩
      · obtain ⟨k, hk, hv⟩ := ih.1 g hg
        exact ⟨k, List.mem_cons_of_mem _ hk, hv⟩
    · intro g hg
      rcases List.mem_cons.mp hg with rfl | hg
      · exact ⟨_, List.mem_cons_self, fun v => (verts_of_winding hab v).symm⟩
      · obtain ⟨k, hk, hv⟩ := ih.2 g hg
        exact ⟨k, List.mem_cons_of_mem _ hk, hv⟩

theorem SameFaceSets.trans {L1 L2 L3 : List Face} (h12 : SameFaceSets L1 L2) (h23 : SameFaceSets L2 L3) :
    SameFaceSets L1 L3 := by
  constructor
  · intro g hg
    obtain ⟨k, hk, hv⟩ := h12.1 g hg
    obtain ⟨l, hl, hw⟩ := h23.1 k hk
    exact ⟨l, hl, fun v => (hv v).trans (hw v)⟩
  · intro g hg
    obtain ⟨k, hk, hv⟩ := h23.2 g hg
    obtain ⟨l, hl, hw⟩ := h12.2 k hk
    exact ⟨l, hl, fun v => (hv v).trans (hw v)⟩

/-! ### renumbering the vertices -/

def mapFace (σ : Nat → Nat) (f : Face) : Face := (σ f.1, σ f.2.1, σ f.2.2)

theorem mem_verts_mapFace (σ : Nat → Nat) (f : Face) (w : Nat) : w ∈ verts (mapFace σ f) ↔ ∃ v ∈ verts f, w = σ v := by
  simp only [verts, mapFace, List.mem_cons, List.not_mem_nil, or_false]
  constructor
  · rintro (h | h | h)
    · exact ⟨_, Or.inl rfl, h⟩
    · exact ⟨_, Or.inr (Or.inl rfl), h⟩
    · exact ⟨_, Or.inr (Or.inr rfl), h⟩
  · rintro ⟨v, (h | h | h), rfl⟩ <;> simp [h]

theorem vconn_map (σ : Nat → Nat) {L : List Face} {u v : Nat} (h : VConn L u v) : VConn (L.map (mapFace σ)) (σ u) (σ v) := by
  induction h with
  | refl => exact vconn_refl _ _
  | tail _ hbc ih =>
    obtain ⟨g, hg, hb, hc⟩ := hbc
    exact vconn_trans ih (vconn_of_face (List.mem_map_of_mem hg)
      ((mem_verts_mapFace σ g _).mpr ⟨_, hb, rfl⟩) ((mem_verts_mapFace σ g _).mpr ⟨_, hc, rfl⟩))

theorem vconn_of_map {σ : Nat → Nat} (hσ : Function.Injective σ) {L : List Face} {u' v' : Nat}
    (h : VConn (L.map (mapFace σ)) u' v') : ∀ u, u' = σ u → (∃ g ∈ L, u ∈ verts g) → ∃ v, v' = σ v ∧ VConn L u v := by
  induction h with
  | refl => intro u hu _; exact ⟨u, hu, vconn_refl _ _⟩
  | tail _ hbc ih =>
    intro u hu hvert
    obtain ⟨b, hb, hub⟩ := ih u hu hvert
    obtain ⟨g', hg', hbg, hcg⟩ := hbc
    obtain ⟨g, hg, rfl⟩ := List.mem_map.mp hg'
    obtain ⟨x, hx, hbx⟩ := (mem_verts_mapFace σ g _).mp hbg
    obtain ⟨y, hy, hcy⟩ := (mem_verts_mapFace σ g _).mp hcg
    have : b = x := hσ (hb.symm.trans hbx)
    subst this
    exact ⟨y, hcy, vconn_trans hub (vconn_of_face hg hx hy)⟩

theorem vertexConnected_map_iff {σ : Nat → Nat} (hσ : Function.Injective σ) (L : List Face) :
    VertexConnected (L.map (mapFace σ)) ↔ VertexConnected L := by
  constructor
  · intro h g hg k hk u hu v hv
    have := h _ (List.mem_map_of_mem hg) _ (List.mem_map_of_mem hk) (σ u) ((mem_verts_mapFace σ g _).mpr ⟨u, hu, rfl⟩)
      (σ v) ((mem_verts_mapFace σ k _).mpr ⟨v, hv, rfl⟩)
    obtain ⟨w, hw, huw⟩ := vconn_of_map hσ this u rfl ⟨g, hg, hu⟩
    rw [hσ hw]
    exact huw
  · intro h g' hg' k' hk' u' hu' v' hv'
    obtain ⟨g, hg, rfl⟩ := List.mem_map.mp hg'
    obtain ⟨k, hk, rfl⟩ := List.mem_map.mp hk'
    obtain ⟨u, hu, rfl⟩ := (mem_verts_mapFace σ g _).mp hu'
    obtain ⟨v, hv, rfl⟩ := (mem_verts_mapFace σ k _).mp hv'
    exact vconn_map σ (h g hg k hk u hu v hv)

end MagpyVerif.Mesh
