/- C16, `get_inwards_mask`: the edge-propagation sweep orients an orientable mesh consistently. -/
import Mathlib.Tactic
import MagpyVerif.Model.Mesh
namespace MagpyVerif.Mesh

def faceAt (tris : List Face) (i : Nat) : Face := tris.getD i (0, 0, 0)

/-- directed edges of a face, as given (`false`) or flipped (`true`) -/
def orient (b : Bool) (f : Face) : List Edge := if b then dirEdgesR f else dirEdges f

/-- with the faces flagged by `ρ` flipped, no two distinct faces traverse an edge in the same direction -/
def Consistent (tris : List Face) (ρ : Nat → Bool) : Prop :=
  ∀ i j, i < tris.length → j < tris.length → i ≠ j →
    ∀ e, e ∈ orient (ρ i) (faceAt tris i) → e ∉ orient (ρ j) (faceAt tris j)

/-- the two faces have no edge in common, whatever the windings -/
def NoShared (f g : Face) : Prop :=
  ∀ e, (e ∈ dirEdges f ∨ e ∈ dirEdgesR f) → e ∉ dirEdges g ∧ e ∉ dirEdgesR g

theorem mem_dirEdgesR_iff (f : Face) (e : Edge) : e ∈ dirEdgesR f ↔ e.swap ∈ dirEdges f := by
  obtain ⟨a, b, c⟩ := f
  obtain ⟨x, y⟩ := e
  simp only [dirEdges, dirEdgesR, List.mem_cons, Prod.mk.injEq, Prod.swap_prod_mk, List.not_mem_nil, or_false]
  tauto

theorem mem_dirEdges_iff (f : Face) (e : Edge) : e ∈ dirEdges f ↔ e.swap ∈ dirEdgesR f := by
  rw [mem_dirEdgesR_iff, Prod.swap_swap]

theorem mem_orient_not (b : Bool) (f : Face) (e : Edge) : e ∈ orient (!b) f ↔ e.swap ∈ orient b f := by
  cases b
  · simp only [orient, Bool.not_false, if_true, Bool.false_eq_true, if_false]; exact mem_dirEdgesR_iff f e
  · simp only [orient, Bool.not_true, if_true, Bool.false_eq_true, if_false]; exact mem_dirEdges_iff f e

theorem mem_orient_either (b : Bool) (f : Face) (e : Edge) (h : e ∈ orient b f) : e ∈ dirEdges f ∨ e ∈ dirEdgesR f := by
  cases b
  · exact Or.inl h
  · exact Or.inr h

theorem orient_nonempty (b : Bool) (f : Face) : ∃ e, e ∈ orient b f := by
  cases b
  · exact ⟨(f.1, f.2.1), by simp [orient, dirEdges]⟩
  · exact ⟨(f.2.1, f.1), by simp [orient, dirEdgesR]⟩

theorem mem_dirEdges_flipFace (f : Face) (e : Edge) : e ∈ dirEdges (flipFace f) ↔ e ∈ dirEdgesR f := by
  obtain ⟨a, b, c⟩ := f
  simp only [dirEdges, dirEdgesR, flipFace, List.mem_cons, List.not_mem_nil, or_false]
  tauto

theorem Consistent.xor {tris : List Face} {ρ : Nat → Bool} (h : Consistent tris ρ) (c : Bool) :
    Consistent tris (fun i => ρ i ^^ c) := by
  cases c
  · simpa only [Bool.xor_false] using h
  · intro i j hi hj hij e he hej
    simp only [Bool.xor_true] at he hej
    rw [mem_orient_not] at he hej
    exact h i j hi hj hij _ he hej

theorem NoShared.symm {f g : Face} (h : NoShared f g) : NoShared g f := by
  intro e he
  constructor
  · intro hf; exact absurd he (by have := h e (Or.inl hf); tauto)
  · intro hf; exact absurd he (by have := h e (Or.inr hf); tauto)

theorem NoShared.orient {f g : Face} (h : NoShared f g) (a b : Bool) (e : Edge) (he : e ∈ orient a f) : e ∉ orient b g := by
  have := h e (mem_orient_either a f e he)
  cases b
  · exact this.1
  · exact this.2

theorem mem_symmDiff (free es : List Edge) (e : Edge) :
    e ∈ symmDiff free es ↔ (e ∈ free ∧ e ∉ es) ∨ (e ∈ es ∧ e ∉ free) := by
  simp [symmDiff, List.mem_filter, List.mem_eraseDups]

/-! ### the `for tri_ind in indices` scan -/

theorem scan_some {tris : List Face} {free : List Edge} : ∀ {idx : List Nat} {i : Nat} {flip : Bool} {free' : List Edge},
    scan tris free idx = some (i, flip, free') →
    i ∈ idx ∧ free' = symmDiff free (orient flip (faceAt tris i)) ∧
      ((free = [] ∧ flip = false) ∨ (free ≠ [] ∧ flip = true ∧ ∃ e ∈ dirEdges (faceAt tris i), e ∈ free) ∨
        (free ≠ [] ∧ flip = false ∧ ∃ e ∈ dirEdgesR (faceAt tris i), e ∈ free)) := by
  intro idx
  induction idx with
  | nil => intro i flip free' h; simp [scan] at h
  | cons k ks ih =>
    intro i flip free' h
    simp only [scan] at h
    split at h
    · rename_i hE
      simp only [Option.some.injEq, Prod.mk.injEq] at h
      obtain ⟨rfl, rfl, rfl⟩ := h
      exact ⟨List.mem_cons_self, rfl, Or.inl ⟨List.isEmpty_iff.mp hE, rfl⟩⟩
    · rename_i hE
      have hne : free ≠ [] := fun h0 => hE (List.isEmpty_iff.mpr h0)
      split at h
      · rename_i h1
        simp only [Option.some.injEq, Prod.mk.injEq] at h
        obtain ⟨rfl, rfl, rfl⟩ := h
        obtain ⟨e, he, hf⟩ := List.any_eq_true.mp h1
        exact ⟨List.mem_cons_self, rfl, Or.inr (Or.inl ⟨hne, rfl, e, he, by simpa using hf⟩)⟩
      · split at h
        · rename_i h2
          simp only [Option.some.injEq, Prod.mk.injEq] at h
          obtain ⟨rfl, rfl, rfl⟩ := h
          obtain ⟨e, he, hf⟩ := List.any_eq_true.mp h2
          exact ⟨List.mem_cons_self, rfl, Or.inr (Or.inr ⟨hne, rfl, e, he, by simpa using hf⟩)⟩
        · obtain ⟨h1, h2⟩ := ih h
          exact ⟨List.mem_cons_of_mem _ h1, h2⟩

theorem scan_none {tris : List Face} {free : List Edge} : ∀ {idx : List Nat}, scan tris free idx = none →
    idx = [] ∨ (free ≠ [] ∧ ∀ j ∈ idx, ∀ e, (e ∈ dirEdges (faceAt tris j) ∨ e ∈ dirEdgesR (faceAt tris j)) → e ∉ free) := by
  intro idx
  induction idx with
  | nil => intro _; exact Or.inl rfl
  | cons k ks ih =>
    intro h
    right
    simp only [scan] at h
    split at h
    · simp at h
    · rename_i hE
      have hne : free ≠ [] := fun h0 => hE (List.isEmpty_iff.mpr h0)
      split at h
      · simp at h
      · rename_i h1
        split at h
        · simp at h
        · rename_i h2
          refine ⟨hne, ?_⟩
          intro j hj e he hf
          rcases List.mem_cons.mp hj with rfl | hj
          · rcases he with he | he
            · exact h1 (List.any_eq_true.mpr ⟨e, he, by simpa using hf⟩)
            · exact h2 (List.any_eq_true.mpr ⟨e, he, by simpa using hf⟩)
          · rcases ih h with h0 | ⟨_, h3⟩
            · subst h0; cases hj
            · exact h3 j hj e he hf

/-! ### mask updates -/

theorem length_setAt (mask : List Bool) (idx : List Nat) (v : Bool) : (setAt mask idx v).length = mask.length := by
  simp [setAt]

theorem length_toggleAt (mask : List Bool) (i : Nat) : (toggleAt mask i).length = mask.length := by
  simp [toggleAt]

theorem getD_setAt (mask : List Bool) (idx : List Nat) (v : Bool) (i : Nat) (hi : i < mask.length) :
    (setAt mask idx v).getD i false = if i ∈ idx then v else mask.getD i false := by
  simp only [setAt, List.getD_eq_getElem?_getD, List.getElem?_mapIdx, List.getElem?_eq_getElem hi, Option.map_some,
    Option.getD_some, List.contains_iff_mem]

theorem getD_toggleAt (mask : List Bool) (j i : Nat) (hi : i < mask.length) :
    (toggleAt mask j).getD i false = if i = j then !(mask.getD i false) else mask.getD i false := by
  simp only [toggleAt, List.getD_eq_getElem?_getD, List.getElem?_mapIdx, List.getElem?_eq_getElem hi, Option.map_some,
    Option.getD_some, beq_iff_eq]

/-! ### the loop invariant -/

/-- loop invariant of `while indices:`; ghost variables: `D` = faces done in earlier seed groups, `c` = whether the
current group's seed face is flipped in the reference orientation `ρ`, `s` = the current seed verdict -/
structure Inv (tris : List Face) (ρ : Nat → Bool) (st : OrientSt) (D : Nat → Prop) (c s : Bool) : Prop where
  len : st.mask.length = tris.length
  nodup : st.indices.Nodup
  lt : ∀ i ∈ st.indices, i < tris.length
  dDone : ∀ i, D i → i < tris.length ∧ i ∉ st.indices
  dFinal : ∀ i j, D i → D j → i ≠ j →
    ∀ e, e ∈ orient (st.mask.getD i false) (faceAt tris i) → e ∉ orient (st.mask.getD j false) (faceAt tris j)
  dSep : ∀ i j, D i → j < tris.length → ¬ D j → NoShared (faceAt tris i) (faceAt tris j)
  grpFree : st.anyConnected = true → ∀ e, e ∈ st.free ↔
    ∃ i, i < tris.length ∧ i ∉ st.indices ∧ ¬ D i ∧ e ∈ orient (ρ i ^^ c) (faceAt tris i)
  grpMask : st.anyConnected = true → ∀ i, i < tris.length → i ∉ st.indices → ¬ D i → st.mask.getD i false = (ρ i ^^ c ^^ s)
  idxMask : st.anyConnected = true → ∀ i ∈ st.indices, st.mask.getD i false = s
  grpNe : st.anyConnected = true → ∃ i, i < tris.length ∧ i ∉ st.indices ∧ ¬ D i
  idle : st.anyConnected = false → ∀ i, i < tris.length → i ∉ st.indices → D i

theorem inv_init (tris : List Face) (ρ : Nat → Bool) : Inv tris ρ (orientInit tris) (fun _ => False) false false := by
  refine ⟨by simp [orientInit], by simp [orientInit, List.nodup_range], by simp [orientInit], by simp, by simp, by simp,
    by simp [orientInit], by simp [orientInit], by simp [orientInit], by simp [orientInit], ?_⟩
  intro _ i hi hn
  simp [orientInit] at hn
  omega

/-- closing a seed group (the `else:` of the for loop, or the end of the while loop): all its faces become "done" -/
theorem Inv.close {tris : List Face} {ρ : Nat → Bool} (hρ : Consistent tris ρ) {st : OrientSt} {D : Nat → Prop} {c s : Bool}
    (inv : Inv tris ρ st D c s) (hconn : st.anyConnected = true)
    (hsep : ∀ j ∈ st.indices, ∀ e, (e ∈ dirEdges (faceAt tris j) ∨ e ∈ dirEdgesR (faceAt tris j)) → e ∉ st.free) :
    Inv tris ρ { st with anyConnected := false } (fun i => i < tris.length ∧ i ∉ st.indices) c s := by
  have hcs := (hρ.xor (c ^^ s))
  refine ⟨inv.len, inv.nodup, inv.lt, fun i h => h, ?_, ?_, by simp, by simp, by simp, by simp, fun _ i hi hn => ⟨hi, hn⟩⟩
  · -- final orientations of done faces are pairwise consistent
    intro i j hi hj hij e he
    show e ∉ orient (st.mask.getD j false) (faceAt tris j)
    have he' : e ∈ orient (st.mask.getD i false) (faceAt tris i) := he
    by_cases hDi : D i <;> by_cases hDj : D j
    · exact inv.dFinal i j hDi hDj hij e he'
    · exact (inv.dSep i j hDi hj.1 hDj).orient _ _ e he'
    · exact (inv.dSep j i hDj hi.1 hDi).symm.orient _ _ e he'
    · rw [inv.grpMask hconn i hi.1 hi.2 hDi] at he'
      rw [inv.grpMask hconn j hj.1 hj.2 hDj]
      have := hcs i j hi.1 hj.1 hij e
      simp only [Bool.xor_assoc] at this he' ⊢
      exact this he'
  · -- done faces share no edge with the remaining ones
    intro i j hi hj hnj
    have hjidx : j ∈ st.indices := by
      by_contra h; exact hnj ⟨hj, h⟩
    by_cases hDi : D i
    · exact inv.dSep i j hDi hj (fun hDj => (inv.dDone j hDj).2 hjidx)
    · intro e he
      have hfree : ∀ e', e' ∈ orient (ρ i ^^ c) (faceAt tris i) → e' ∈ st.free :=
        fun e' he' => (inv.grpFree hconn e').mpr ⟨i, hi.1, hi.2, hDi, he'⟩
      have key : e ∈ st.free ∨ e.swap ∈ st.free := by
        generalize (ρ i ^^ c) = b at hfree
        cases b
        · rcases he with he | he
          · exact Or.inl (hfree e he)
          · exact Or.inr (hfree _ ((mem_dirEdgesR_iff _ e).mp he))
        · rcases he with he | he
          · exact Or.inr (hfree _ ((mem_dirEdges_iff _ e).mp he))
          · exact Or.inl (hfree e he)
      rcases key with hk | hk
      · exact ⟨fun h => hsep j hjidx e (Or.inl h) hk, fun h => hsep j hjidx e (Or.inr h) hk⟩
      · exact ⟨fun h => hsep j hjidx _ (Or.inr ((mem_dirEdges_iff _ e).mp h)) hk,
          fun h => hsep j hjidx _ (Or.inl ((mem_dirEdgesR_iff _ e).mp h)) hk⟩

/-- a new seed: `free_edges = set()`, `mask[indices] = is_inwards`, the first remaining face is taken as it is -/
theorem Inv.seedStep {tris : List Face} {ρ : Nat → Bool} {st : OrientSt} {D : Nat → Prop} {c s : Bool}
    (inv : Inv tris ρ st D c s) (hconn : st.anyConnected = false) (v : Bool) (i0 : Nat) (rest : List Nat)
    (hidx : st.indices = i0 :: rest) :
    Inv tris ρ { mask := setAt st.mask st.indices v, indices := st.indices.erase i0,
                 free := symmDiff [] (dirEdges (faceAt tris i0)), anyConnected := true } D (ρ i0) v := by
  have hi0 : i0 ∈ st.indices := by rw [hidx]; exact List.mem_cons_self
  have hmem : ∀ i, i ∈ st.indices.erase i0 ↔ i ≠ i0 ∧ i ∈ st.indices := fun i => inv.nodup.mem_erase_iff
  have hgrp : ∀ i, i < tris.length → i ∉ st.indices.erase i0 → ¬ D i → i = i0 := by
    intro i hi hn hD
    by_contra hne
    have : i ∉ st.indices := fun h => hn ((hmem i).mpr ⟨hne, h⟩)
    exact hD (inv.idle hconn i hi this)
  refine ⟨?_, inv.nodup.erase _, ?_, ?_, ?_, inv.dSep, ?_, ?_, ?_, ?_, by simp⟩
  · simp only [length_setAt]; exact inv.len
  · intro i hi; exact inv.lt i ((hmem i).mp hi).2
  · intro i hD; exact ⟨(inv.dDone i hD).1, fun h => (inv.dDone i hD).2 ((hmem i).mp h).2⟩
  · intro i j hDi hDj hij e
    show e ∈ orient ((setAt st.mask st.indices v).getD i false) _ → e ∉ orient ((setAt st.mask st.indices v).getD j false) _
    rw [getD_setAt _ _ _ i (by rw [inv.len]; exact (inv.dDone i hDi).1), if_neg (inv.dDone i hDi).2,
      getD_setAt _ _ _ j (by rw [inv.len]; exact (inv.dDone j hDj).1), if_neg (inv.dDone j hDj).2]
    exact inv.dFinal i j hDi hDj hij e
  · intro _ e
    show e ∈ symmDiff [] (dirEdges (faceAt tris i0)) ↔ _
    rw [mem_symmDiff]
    constructor
    · rintro (⟨h, _⟩ | ⟨h, _⟩)
      · cases h
      · refine ⟨i0, inv.lt i0 hi0, fun h => ((hmem i0).mp h).1 rfl, fun hD => (inv.dDone i0 hD).2 hi0, ?_⟩
        simpa [orient] using h
    · rintro ⟨i, hi, hn, hD, he⟩
      have := hgrp i hi hn hD
      subst this
      right
      exact ⟨by simpa [orient] using he, by simp⟩
  · intro _ i hi hn hD
    have := hgrp i hi hn hD
    subst this
    show (setAt st.mask st.indices v).getD i false = _
    rw [getD_setAt _ _ _ i (by rw [inv.len]; exact hi), if_pos hi0]
    simp
  · intro _ i hi
    have h := ((hmem i).mp hi).2
    show (setAt st.mask st.indices v).getD i false = _
    rw [getD_setAt _ _ _ i (by rw [inv.len]; exact inv.lt i h), if_pos h]
  · intro _
    exact ⟨i0, inv.lt i0 hi0, fun h => ((hmem i0).mp h).1 rfl, fun hD => (inv.dDone i0 hD).2 hi0⟩

/-- a face with an edge in common with `free_edges` is added to the group, flipped iff it traverses that edge in the
same direction as the face already in the group -/
theorem Inv.growStep {tris : List Face} {ρ : Nat → Bool} (hρ : Consistent tris ρ) {st : OrientSt} {D : Nat → Prop} {c s : Bool}
    (inv : Inv tris ρ st D c s) (hconn : st.anyConnected = true) {j : Nat} {flip : Bool} {free' : List Edge}
    (hscan : scan tris st.free st.indices = some (j, flip, free')) :
    Inv tris ρ { mask := if flip then toggleAt st.mask j else st.mask, indices := st.indices.erase j,
                 free := free', anyConnected := true } D c s := by
  obtain ⟨hj, hfree', hcase⟩ := scan_some hscan
  have hc := hρ.xor c
  have hjlt := inv.lt j hj
  have hDj : ¬ D j := fun hD => (inv.dDone j hD).2 hj
  have hmem : ∀ i, i ∈ st.indices.erase j ↔ i ≠ j ∧ i ∈ st.indices := fun i => inv.nodup.mem_erase_iff
  obtain ⟨g, hg, hgn, hgD⟩ := inv.grpNe hconn
  have hfne : st.free ≠ [] := by
    obtain ⟨e, he⟩ := orient_nonempty (ρ g ^^ c) (faceAt tris g)
    exact List.ne_nil_of_mem ((inv.grpFree hconn e).mpr ⟨g, hg, hgn, hgD, he⟩)
  -- the flip decision is the reference orientation relative to the group
  have hflip : flip = (ρ j ^^ c) := by
    rcases hcase with ⟨h, _⟩ | ⟨_, hf, e, he, hef⟩ | ⟨_, hf, e, he, hef⟩
    · exact absurd h hfne
    · obtain ⟨i, hi, hin, hiD, hei⟩ := (inv.grpFree hconn e).mp hef
      have hij : i ≠ j := fun h => hin (h ▸ hj)
      have := hc i j hi hjlt hij e hei
      rw [hf]
      cases hb : (ρ j ^^ c)
      · exfalso; apply this; simp only [hb]; simpa [orient] using he
      · rfl
    · obtain ⟨i, hi, hin, hiD, hei⟩ := (inv.grpFree hconn e).mp hef
      have hij : i ≠ j := fun h => hin (h ▸ hj)
      have := hc i j hi hjlt hij e hei
      rw [hf]
      cases hb : (ρ j ^^ c)
      · rfl
      · exfalso; apply this; simp only [hb]; simpa [orient] using he
  have hmaskOther : ∀ i, i ≠ j → i < tris.length →
      (if flip then toggleAt st.mask j else st.mask).getD i false = st.mask.getD i false := by
    intro i hij hi
    cases flip
    · rfl
    · simp only [if_true]
      rw [getD_toggleAt _ _ _ (by rw [inv.len]; exact hi), if_neg hij]
  refine ⟨?_, inv.nodup.erase _, ?_, ?_, ?_, inv.dSep, ?_, ?_, ?_, ?_, by simp⟩
  · show (if flip then toggleAt st.mask j else st.mask).length = _
    cases flip
    · exact inv.len
    · simp only [if_true, length_toggleAt]; exact inv.len
  · intro i hi; exact inv.lt i ((hmem i).mp hi).2
  · intro i hD; exact ⟨(inv.dDone i hD).1, fun h => (inv.dDone i hD).2 ((hmem i).mp h).2⟩
  · intro i k hDi hDk hik e
    show e ∈ orient ((if flip then toggleAt st.mask j else st.mask).getD i false) _ →
      e ∉ orient ((if flip then toggleAt st.mask j else st.mask).getD k false) _
    rw [hmaskOther i (fun h => hDj (h ▸ hDi)) (inv.dDone i hDi).1, hmaskOther k (fun h => hDj (h ▸ hDk)) (inv.dDone k hDk).1]
    exact inv.dFinal i k hDi hDk hik e
  · intro _ e
    show e ∈ free' ↔ _
    rw [hfree', mem_symmDiff, hflip]
    constructor
    · rintro (⟨h, _⟩ | ⟨h, _⟩)
      · obtain ⟨i, hi, hin, hiD, hei⟩ := (inv.grpFree hconn e).mp h
        exact ⟨i, hi, fun h => hin ((hmem i).mp h).2, hiD, hei⟩
      · exact ⟨j, hjlt, fun h => ((hmem j).mp h).1 rfl, hDj, h⟩
    · rintro ⟨i, hi, hin, hiD, hei⟩
      by_cases hij : i = j
      · subst hij
        right
        refine ⟨hei, fun hf => ?_⟩
        obtain ⟨k, hk, hkn, hkD, hek⟩ := (inv.grpFree hconn e).mp hf
        have hki : k ≠ i := fun h => hkn (h ▸ hj)
        exact hc k i hk hi hki e hek hei
      · left
        have hin' : i ∉ st.indices := fun h => hin ((hmem i).mpr ⟨hij, h⟩)
        refine ⟨(inv.grpFree hconn e).mpr ⟨i, hi, hin', hiD, hei⟩, fun hf => ?_⟩
        exact hc i j hi hjlt hij e hei hf
  · intro _ i hi hin hiD
    show (if flip then toggleAt st.mask j else st.mask).getD i false = _
    by_cases hij : i = j
    · subst hij
      have hs := inv.idxMask hconn i hj
      rw [hflip]
      generalize (ρ i ^^ c) = b
      cases b
      · simp only [Bool.false_eq_true, if_false, hs, Bool.false_xor]
      · simp only [if_true]
        rw [getD_toggleAt _ _ _ (by rw [inv.len]; exact hi), if_pos rfl, hs]
        simp
    · rw [hmaskOther i hij hi]
      exact inv.grpMask hconn i hi (fun h => hin ((hmem i).mpr ⟨hij, h⟩)) hiD
  · intro _ i hi
    obtain ⟨hij, hi'⟩ := (hmem i).mp hi
    show (if flip then toggleAt st.mask j else st.mask).getD i false = _
    rw [hmaskOther i hij (inv.lt i hi')]
    exact inv.idxMask hconn i hi'
  · intro _
    exact ⟨j, hjlt, fun h => ((hmem j).mp h).1 rfl, hDj⟩

/-! ### one iteration and the whole loop -/

def measure (st : OrientSt) : Nat := 2 * st.indices.length + (if st.anyConnected then 1 else 0)

theorem step_inv {tris : List Face} {ρ : Nat → Bool} (hρ : Consistent tris ρ) (seed : List Nat → Bool) {st : OrientSt}
    (h : ∃ D c s, Inv tris ρ st D c s) (hne : st.indices ≠ []) :
    (∃ D c s, Inv tris ρ (orientStep seed tris st) D c s) ∧ measure (orientStep seed tris st) < measure st := by
  obtain ⟨D, c, s, inv⟩ := h
  obtain ⟨i0, rest, hidx⟩ := List.exists_cons_of_ne_nil hne
  cases hconn : st.anyConnected
  · -- reseed
    have hstep : orientStep seed tris st = OrientSt.mk (setAt st.mask st.indices (seed st.indices)) (st.indices.erase i0)
        (symmDiff [] (dirEdges (faceAt tris i0))) true := by
      simp only [orientStep, hconn, Bool.false_eq_true, if_false, hidx, scan, List.isEmpty_nil, if_true, faceAt]
    rw [hstep]
    refine ⟨⟨D, ρ i0, seed st.indices, inv.seedStep hconn _ i0 rest hidx⟩, ?_⟩
    simp only [measure, hconn, hidx, List.erase_cons_head, List.length_cons, if_true, Bool.false_eq_true, if_false]
    omega
  · cases hscan : scan tris st.free st.indices with
    | none =>
      have hstep : orientStep seed tris st = { st with anyConnected := false } := by
        simp only [orientStep, hconn, if_true, hscan]
      rw [hstep]
      rcases scan_none hscan with h0 | ⟨_, hsep⟩
      · exact absurd h0 hne
      · refine ⟨⟨_, c, s, inv.close hρ hconn hsep⟩, ?_⟩
        simp only [measure, hconn, if_true, Bool.false_eq_true, if_false]
        omega
    | some r =>
      obtain ⟨j, flip, free'⟩ := r
      have hstep : orientStep seed tris st = OrientSt.mk (if flip then toggleAt st.mask j else st.mask) (st.indices.erase j)
          free' true := by
        simp only [orientStep, hconn, if_true, hscan]
      rw [hstep]
      refine ⟨⟨D, c, s, inv.growStep hρ hconn hscan⟩, ?_⟩
      have hj := (scan_some hscan).1
      have hl := List.length_erase_of_mem hj
      have hpos : 0 < st.indices.length := List.length_pos_of_mem hj
      simp only [measure, hconn, if_true, hl]
      omega

theorem loop_inv {tris : List Face} {ρ : Nat → Bool} (hρ : Consistent tris ρ) (seed : List Nat → Bool) :
    ∀ (fuel : Nat) (st : OrientSt), (∃ D c s, Inv tris ρ st D c s) → measure st ≤ fuel →
      (∃ D c s, Inv tris ρ (orientLoop seed tris fuel st) D c s) ∧ (orientLoop seed tris fuel st).indices = [] := by
  intro fuel
  induction fuel with
  | zero =>
    intro st h hm
    refine ⟨h, ?_⟩
    simp only [measure] at hm
    simp only [orientLoop]
    exact List.eq_nil_of_length_eq_zero (by omega)
  | succ fuel ih =>
    intro st h hm
    simp only [orientLoop]
    by_cases hE : st.indices.isEmpty = true
    · rw [if_pos hE]
      exact ⟨h, List.isEmpty_iff.mp hE⟩
    · rw [if_neg hE]
      have hne : st.indices ≠ [] := fun h0 => hE (List.isEmpty_iff.mpr h0)
      obtain ⟨h1, h2⟩ := step_inv hρ seed h hne
      exact ih _ h1 (by omega)

/-- more fuel than `2 * number of faces` never changes the result -/
theorem orientLoop_fuel_irrelevant (seed : List Nat → Bool) (tris : List Face) :
    ∀ (n m : Nat) (st : OrientSt), (orientLoop seed tris n st).indices = [] → n ≤ m →
      orientLoop seed tris m st = orientLoop seed tris n st := by
  intro n
  induction n with
  | zero =>
    intro m st h _
    simp only [orientLoop] at h ⊢
    cases m with
    | zero => rfl
    | succ m => simp only [orientLoop, h, List.isEmpty_nil, if_true]
  | succ n ih =>
    intro m st h hm
    cases m with
    | zero => omega
    | succ m =>
      simp only [orientLoop] at h ⊢
      by_cases hE : st.indices.isEmpty = true
      · simp only [if_pos hE]
      · simp only [if_neg hE] at h ⊢
        exact ih m _ h (by omega)

theorem orientLoop_consistent {tris : List Face} {ρ : Nat → Bool} (hρ : Consistent tris ρ) (seed : List Nat → Bool) :
    (orientLoop seed tris (2 * tris.length + 1) (orientInit tris)).indices = [] ∧
    (inwardsMask seed tris).length = tris.length ∧
    Consistent tris (fun i => (inwardsMask seed tris).getD i false) := by
  have hm : measure (orientInit tris) ≤ 2 * tris.length + 1 := by
    simp [measure, orientInit]
  obtain ⟨⟨D, c, s, inv⟩, hnil⟩ := loop_inv hρ seed (2 * tris.length + 1) (orientInit tris) ⟨_, _, _, inv_init tris ρ⟩ hm
  refine ⟨hnil, inv.len, ?_⟩
  set st := orientLoop seed tris (2 * tris.length + 1) (orientInit tris) with hst
  intro i j hi hj hij e he
  show e ∉ orient (st.mask.getD j false) (faceAt tris j)
  have he' : e ∈ orient (st.mask.getD i false) (faceAt tris i) := he
  cases hconn : st.anyConnected
  · have hDi := inv.idle hconn i hi (by rw [hnil]; simp)
    have hDj := inv.idle hconn j hj (by rw [hnil]; simp)
    exact inv.dFinal i j hDi hDj hij e he'
  · have inv' := inv.close hρ hconn (by rw [hnil]; simp)
    exact inv'.dFinal i j ⟨hi, by rw [hnil]; simp⟩ ⟨hj, by rw [hnil]; simp⟩ hij e he'

/-! ### a decidable test, and a closed non-orientable example -/

/-- decidable form of "two distinct faces traverse an edge in the same direction" for a mask given as a list -/
def conflict (tris : List Face) (m : List Bool) : Bool :=
  (List.range tris.length).any fun i => (List.range tris.length).any fun j =>
    i != j && (orient (m.getD i false) (faceAt tris i)).any fun e => (orient (m.getD j false) (faceAt tris j)).contains e

theorem conflict_iff (tris : List Face) (m : List Bool) :
    conflict tris m = false ↔ Consistent tris (fun i => m.getD i false) := by
  constructor
  · intro h i j hi hj hij e he hej
    have : conflict tris m = true := by
      simp only [conflict, List.any_eq_true, List.mem_range, Bool.and_eq_true, bne_iff_ne, ne_eq, List.contains_iff_mem]
      exact ⟨i, hi, j, hj, hij, e, he, hej⟩
    rw [h] at this
    cases this
  · intro h
    by_contra hc
    rw [Bool.not_eq_false] at hc
    simp only [conflict, List.any_eq_true, List.mem_range, Bool.and_eq_true, bne_iff_ne, ne_eq, List.contains_iff_mem] at hc
    obtain ⟨i, hi, j, hj, hij, e, he, hej⟩ := hc
    exact h i j hi hj hij e he hej

/-- all masks of a given length -/
def allMasks : Nat → List (List Bool)
  | 0 => [[]]
  | n + 1 => (allMasks n).flatMap fun m => [false :: m, true :: m]

theorem mem_allMasks : ∀ (n : Nat) (m : List Bool), m.length = n → m ∈ allMasks n := by
  intro n
  induction n with
  | zero => intro m h; simp [allMasks, List.eq_nil_of_length_eq_zero h]
  | succ n ih =>
    intro m h
    cases m with
    | nil => simp at h
    | cons b m =>
      simp only [allMasks, List.mem_flatMap]
      refine ⟨m, ih m (by simpa using h), ?_⟩
      cases b <;> simp

theorem not_orientable_of_all_conflict (tris : List Face) (h : ∀ m ∈ allMasks tris.length, conflict tris m = true) :
    ¬ ∃ ρ, Consistent tris ρ := by
  rintro ⟨ρ, hρ⟩
  have hm := h ((List.range tris.length).map ρ) (mem_allMasks _ _ (by simp))
  have : Consistent tris (fun i => ((List.range tris.length).map ρ).getD i false) := by
    intro i j hi hj hij e he hej
    simp only [List.getD_eq_getElem?_getD, List.getElem?_map, List.getElem?_range hi, List.getElem?_range hj, Option.map_some,
      Option.getD_some] at he hej
    exact hρ i j hi hj hij e he hej
  rw [← conflict_iff] at this
  rw [this] at hm
  cases hm

/-- the 6-vertex triangulation of the projective plane -/
def rp2 : List Face := [(0, 1, 2), (0, 2, 3), (0, 3, 4), (0, 4, 5), (0, 5, 1), (1, 2, 4), (2, 3, 5), (3, 4, 1), (4, 5, 2), (5, 1, 3)]

end MagpyVerif.Mesh
