/-
Lemmas/BoxLawsCuboid.lean — continuity of the Cuboid closed form and of its Jacobian `coulombJac` on
closed boxes that avoid the six (infinitely extended) face planes: what the integral laws of
Lemmas/BoxLaws.lean need in order to apply to `cuboidB` / `cuboidHfield`.

A closed box that misses all six planes lies in one of the 27 open cells cut out by them (the
magnet's interior, or one of the 26 outside cells); there the closed form is the smooth
surface-charge field `coulombG` plus a constant (`J` inside, `0` outside), `cuboidB_eq_G_add`.
-/
import MagpyVerif.Lemmas.BoxLaws
import MagpyVerif.Lemmas.CuboidDiv

namespace MagpyVerif.BoxLaws
open MagpyVerif MagpyVerif.Kern MagpyVerif.RectCharge MagpyVerif.CuboidCoulomb MagpyVerif.CuboidDiv Set

set_option linter.unusedSectionVars false

/-! ### vector- and matrix-valued maps with continuous entries -/

structure VecCont {X : Type*} [TopologicalSpace X] (F : X → V3 ℝ) (S : Set X) : Prop where
  c1 : ContinuousOn (fun q => (F q).x) S
  c2 : ContinuousOn (fun q => (F q).y) S
  c3 : ContinuousOn (fun q => (F q).z) S

structure JacCont {X : Type*} [TopologicalSpace X] (J : X → M3 ℝ) (S : Set X) : Prop where
  c11 : ContinuousOn (fun q => (J q).r1.x) S
  c12 : ContinuousOn (fun q => (J q).r1.y) S
  c13 : ContinuousOn (fun q => (J q).r1.z) S
  c21 : ContinuousOn (fun q => (J q).r2.x) S
  c22 : ContinuousOn (fun q => (J q).r2.y) S
  c23 : ContinuousOn (fun q => (J q).r2.z) S
  c31 : ContinuousOn (fun q => (J q).r3.x) S
  c32 : ContinuousOn (fun q => (J q).r3.y) S
  c33 : ContinuousOn (fun q => (J q).r3.z) S

section algebra
variable {X : Type*} [TopologicalSpace X] {S : Set X}

theorem VecCont.add {F G : X → V3 ℝ} (hF : VecCont F S) (hG : VecCont G S) : VecCont (fun q => F q + G q) S :=
  ⟨hF.c1.add hG.c1, hF.c2.add hG.c2, hF.c3.add hG.c3⟩

theorem VecCont.smul {F : X → V3 ℝ} (hF : VecCont F S) (c : ℝ) : VecCont (fun q => vs c (F q)) S :=
  ⟨continuousOn_const.mul hF.c1, continuousOn_const.mul hF.c2, continuousOn_const.mul hF.c3⟩

theorem VecCont.vd {F : X → V3 ℝ} (hF : VecCont F S) (c : ℝ) : VecCont (fun q => Kern.vd (F q) c) S :=
  ⟨hF.c1.div_const c, hF.c2.div_const c, hF.c3.div_const c⟩

theorem VecCont.add_const {F : X → V3 ℝ} (hF : VecCont F S) (c : V3 ℝ) : VecCont (fun q => F q + c) S :=
  ⟨hF.c1.add continuousOn_const, hF.c2.add continuousOn_const, hF.c3.add continuousOn_const⟩

theorem JacCont.add {J K : X → M3 ℝ} (hJ : JacCont J S) (hK : JacCont K S) :
    JacCont (fun q => jacAdd (J q) (K q)) S :=
  ⟨hJ.c11.add hK.c11, hJ.c12.add hK.c12, hJ.c13.add hK.c13, hJ.c21.add hK.c21, hJ.c22.add hK.c22,
   hJ.c23.add hK.c23, hJ.c31.add hK.c31, hJ.c32.add hK.c32, hJ.c33.add hK.c33⟩

theorem JacCont.scale {J : X → M3 ℝ} (hJ : JacCont J S) (c : ℝ) : JacCont (fun q => jacScale c (J q)) S :=
  ⟨continuousOn_const.mul hJ.c11, continuousOn_const.mul hJ.c12, continuousOn_const.mul hJ.c13,
   continuousOn_const.mul hJ.c21, continuousOn_const.mul hJ.c22, continuousOn_const.mul hJ.c23,
   continuousOn_const.mul hJ.c31, continuousOn_const.mul hJ.c32, continuousOn_const.mul hJ.c33⟩

theorem JacCont.cyc {J : X → M3 ℝ} (hJ : JacCont J S) : JacCont (fun q => jacCyc (J q)) S :=
  ⟨hJ.c33, hJ.c31, hJ.c32, hJ.c13, hJ.c11, hJ.c12, hJ.c23, hJ.c21, hJ.c22⟩

theorem JacCont.swp {J : X → M3 ℝ} (hJ : JacCont J S) : JacCont (fun q => jacSwp (J q)) S :=
  ⟨hJ.c11, hJ.c13, hJ.c12, hJ.c31, hJ.c33, hJ.c32, hJ.c21, hJ.c23, hJ.c22⟩

end algebra

/-! ### the corner functions and their derivatives, as functions of a parameter -/

section corner
variable {X : Type*} [TopologicalSpace X] {S : Set X} {fw : X → ℝ} (cw : Continuous fw)
  (hw : ∀ q ∈ S, fw q ≠ 0) {fu fv : X → ℝ} (cu : Continuous fu) (cv : Continuous fv)
include cw hw cu cv

theorem contOn_rr : ContinuousOn (fun q => rr (fu q) (fv q) (fw q)) S := by
  unfold rr; fun_prop

theorem rr_ne (q : X) (hq : q ∈ S) : rr (fu q) (fv q) (fw q) ≠ 0 := (rr_pos (hw q hq) _ _).ne'

theorem sqU_ne (q : X) (hq : q ∈ S) : fu q ^ 2 + fw q ^ 2 ≠ 0 := by
  have := hw q hq
  positivity

theorem sqV_ne (q : X) (hq : q ∈ S) : fv q ^ 2 + fw q ^ 2 ≠ 0 := by
  have := hw q hq
  positivity

theorem contOn_FLm : ContinuousOn (fun q => FLm (fw q) (fu q) (fv q)) S := by
  unfold FLm
  exact ((contOn_rr cw hw cu cv).sub cv.continuousOn).log fun q hq => (rr_sub_pos (hw q hq) _ _).ne'

theorem contOn_FLm' : ContinuousOn (fun q => FLm' (fw q) (fu q) (fv q)) S := by
  unfold FLm'
  refine ((contOn_rr cw hw cu cv).sub cu.continuousOn).log fun q hq => ?_
  have := rr_sub_pos (hw q hq) (fv q) (fu q)
  rw [rr_comm] at this
  exact this.ne'

theorem contOn_FN : ContinuousOn (fun q => FN (fw q) (fu q) (fv q)) S := by
  unfold FN
  exact Real.continuous_arctan.comp_continuousOn
    ((cu.mul cv).continuousOn.div (cw.continuousOn.mul (contOn_rr cw hw cu cv))
      fun q hq => mul_ne_zero (hw q hq) (rr_ne cw hw cu cv q hq))

theorem contOn_Lu : ContinuousOn (fun q => Lu (fw q) (fu q) (fv q)) S := by
  unfold Lu
  have cU : ContinuousOn (fun q => fu q ^ 2 + fw q ^ 2) S := by fun_prop
  exact ((cu.mul cv).continuousOn.div (cU.mul (contOn_rr cw hw cu cv))
    fun q hq => mul_ne_zero (sqU_ne cw hw cu cv q hq) (rr_ne cw hw cu cv q hq)).add
    (cu.continuousOn.div cU (sqU_ne cw hw cu cv))

theorem contOn_Lv : ContinuousOn (fun q => Lv (fw q) (fu q) (fv q)) S := by
  unfold Lv
  exact (continuousOn_const.div (contOn_rr cw hw cu cv) (rr_ne cw hw cu cv)).neg

theorem contOn_Lw : ContinuousOn (fun q => Lw (fw q) (fu q) (fv q)) S := by
  unfold Lw
  have cU : ContinuousOn (fun q => fu q ^ 2 + fw q ^ 2) S := by fun_prop
  exact ((cw.mul cv).continuousOn.div (cU.mul (contOn_rr cw hw cu cv))
    fun q hq => mul_ne_zero (sqU_ne cw hw cu cv q hq) (rr_ne cw hw cu cv q hq)).add
    (cw.continuousOn.div cU (sqU_ne cw hw cu cv))

theorem contOn_Mu : ContinuousOn (fun q => Mu (fw q) (fu q) (fv q)) S := by
  unfold Mu
  exact (continuousOn_const.div (contOn_rr cw hw cu cv) (rr_ne cw hw cu cv)).neg

theorem contOn_Mv : ContinuousOn (fun q => Mv (fw q) (fu q) (fv q)) S := by
  unfold Mv
  have cV : ContinuousOn (fun q => fv q ^ 2 + fw q ^ 2) S := by fun_prop
  exact ((cv.mul cu).continuousOn.div (cV.mul (contOn_rr cw hw cu cv))
    fun q hq => mul_ne_zero (sqV_ne cw hw cu cv q hq) (rr_ne cw hw cu cv q hq)).add
    (cv.continuousOn.div cV (sqV_ne cw hw cu cv))

theorem contOn_Mw : ContinuousOn (fun q => Mw (fw q) (fu q) (fv q)) S := by
  unfold Mw
  have cV : ContinuousOn (fun q => fv q ^ 2 + fw q ^ 2) S := by fun_prop
  exact ((cw.mul cu).continuousOn.div (cV.mul (contOn_rr cw hw cu cv))
    fun q hq => mul_ne_zero (sqV_ne cw hw cu cv q hq) (rr_ne cw hw cu cv q hq)).add
    (cw.continuousOn.div cV (sqV_ne cw hw cu cv))

theorem contOn_Nu : ContinuousOn (fun q => Nu (fw q) (fu q) (fv q)) S := by
  unfold Nu
  have cU : ContinuousOn (fun q => fu q ^ 2 + fw q ^ 2) S := by fun_prop
  exact (cv.mul cw).continuousOn.div (cU.mul (contOn_rr cw hw cu cv))
    fun q hq => mul_ne_zero (sqU_ne cw hw cu cv q hq) (rr_ne cw hw cu cv q hq)

theorem contOn_Nv : ContinuousOn (fun q => Nv (fw q) (fu q) (fv q)) S := by
  unfold Nv
  have cV : ContinuousOn (fun q => fv q ^ 2 + fw q ^ 2) S := by fun_prop
  exact (cu.mul cw).continuousOn.div (cV.mul (contOn_rr cw hw cu cv))
    fun q hq => mul_ne_zero (sqV_ne cw hw cu cv q hq) (rr_ne cw hw cu cv q hq)

theorem contOn_Nw : ContinuousOn (fun q => Nw (fw q) (fu q) (fv q)) S := by
  unfold Nw
  have cU : ContinuousOn (fun q => fu q ^ 2 + fw q ^ 2) S := by fun_prop
  have cV : ContinuousOn (fun q => fv q ^ 2 + fw q ^ 2) S := by fun_prop
  exact (((cu.mul cv).continuousOn.div (cU.mul (contOn_rr cw hw cu cv))
    fun q hq => mul_ne_zero (sqU_ne cw hw cu cv q hq) (rr_ne cw hw cu cv q hq)).add
    ((cu.mul cv).continuousOn.div (cV.mul (contOn_rr cw hw cu cv))
    fun q hq => mul_ne_zero (sqV_ne cw hw cu cv q hq) (rr_ne cw hw cu cv q hq))).neg

end corner

/-- a mixed second difference of a corner function with continuous corner offsets -/
theorem contOn_d2 {X : Type*} [TopologicalSpace X] {S : Set X} {K : ℝ → ℝ → ℝ → ℝ} {fw : X → ℝ}
    (hK : ∀ fu fv : X → ℝ, Continuous fu → Continuous fv → ContinuousOn (fun q => K (fw q) (fu q) (fv q)) S)
    {u1 u2 v1 v2 : X → ℝ} (h1 : Continuous u1) (h2 : Continuous u2) (k1 : Continuous v1) (k2 : Continuous v2) :
    ContinuousOn (fun q => d2 (K (fw q)) (u1 q) (u2 q) (v1 q) (v2 q)) S := by
  unfold d2
  exact (((hK u2 v2 h2 k2).sub (hK u2 v1 h2 k1)).sub (hK u1 v2 h1 k2)).add (hK u1 v1 h1 k1)

/-! ### one charged rectangle -/

section rect
variable {X : Type*} [TopologicalSpace X] {S : Set X} {fx fy fz : X → ℝ} (cx : Continuous fx)
  (cy : Continuous fy) (cz : Continuous fz) (b c s : ℝ) (hw : ∀ q ∈ S, fz q - s ≠ 0)
include cx cy cz hw

theorem vecCont_rectE : VecCont (fun q => rectE b c s ⟨fx q, fy q, fz q⟩) S := by
  have cw : Continuous fun q => fz q - s := by fun_prop
  have h1 : Continuous fun q => fx q - b := by fun_prop
  have h2 : Continuous fun q => fx q + b := by fun_prop
  have k1 : Continuous fun q => fy q - c := by fun_prop
  have k2 : Continuous fun q => fy q + c := by fun_prop
  exact ⟨contOn_d2 (fun fu fv cu cv => contOn_FLm cw hw cu cv) h1 h2 k1 k2,
    contOn_d2 (fun fu fv cu cv => contOn_FLm' cw hw cu cv) h1 h2 k1 k2,
    contOn_d2 (fun fu fv cu cv => contOn_FN cw hw cu cv) h1 h2 k1 k2⟩

theorem jacCont_rectJac : JacCont (fun q => rectJac b c s ⟨fx q, fy q, fz q⟩) S := by
  have cw : Continuous fun q => fz q - s := by fun_prop
  have h1 : Continuous fun q => fx q - b := by fun_prop
  have h2 : Continuous fun q => fx q + b := by fun_prop
  have k1 : Continuous fun q => fy q - c := by fun_prop
  have k2 : Continuous fun q => fy q + c := by fun_prop
  exact ⟨contOn_d2 (fun fu fv cu cv => contOn_Lu cw hw cu cv) h1 h2 k1 k2,
    contOn_d2 (fun fu fv cu cv => contOn_Lv cw hw cu cv) h1 h2 k1 k2,
    contOn_d2 (fun fu fv cu cv => contOn_Lw cw hw cu cv) h1 h2 k1 k2,
    contOn_d2 (fun fu fv cu cv => contOn_Mu cw hw cu cv) h1 h2 k1 k2,
    contOn_d2 (fun fu fv cu cv => contOn_Mv cw hw cu cv) h1 h2 k1 k2,
    contOn_d2 (fun fu fv cu cv => contOn_Mw cw hw cu cv) h1 h2 k1 k2,
    contOn_d2 (fun fu fv cu cv => contOn_Nu cw hw cu cv) h1 h2 k1 k2,
    contOn_d2 (fun fu fv cu cv => contOn_Nv cw hw cu cv) h1 h2 k1 k2,
    contOn_d2 (fun fu fv cu cv => contOn_Nw cw hw cu cv) h1 h2 k1 k2⟩

end rect

/-! ### the surface-charge field of the cuboid and its Jacobian -/

section cuboid
variable {X : Type*} [TopologicalSpace X] {S : Set X} {fx fy fz : X → ℝ} (cx : Continuous fx)
  (cy : Continuous fy) (cz : Continuous fz) (dim pol : V3 ℝ) (hS : ∀ q ∈ S, OffP dim ⟨fx q, fy q, fz q⟩)
include cx cy cz hS

theorem vecCont_coulombG : VecCont (fun q => coulombG dim pol ⟨fx q, fy q, fz q⟩) S := by
  have hx1 : ∀ q ∈ S, fx q - dim.x / 2 ≠ 0 := fun q hq => (hS q hq).1.1
  have hx2 : ∀ q ∈ S, fx q - -(dim.x / 2) ≠ 0 := fun q hq => by rw [sub_neg_eq_add]; exact (hS q hq).1.2
  have hy1 : ∀ q ∈ S, fy q - dim.y / 2 ≠ 0 := fun q hq => (hS q hq).2.1.1
  have hy2 : ∀ q ∈ S, fy q - -(dim.y / 2) ≠ 0 := fun q hq => by rw [sub_neg_eq_add]; exact (hS q hq).2.1.2
  have hz1 : ∀ q ∈ S, fz q - dim.z / 2 ≠ 0 := fun q hq => (hS q hq).2.2.1
  have hz2 : ∀ q ∈ S, fz q - -(dim.z / 2) ≠ 0 := fun q hq => by rw [sub_neg_eq_add]; exact (hS q hq).2.2.2
  have cycE : ∀ s, (∀ q ∈ S, fx q - s ≠ 0) → VecCont (fun q => faceXf dim s ⟨fx q, fy q, fz q⟩) S := fun s h =>
    have r := vecCont_rectE cy cz cx (dim.y / 2) (dim.z / 2) s h
    ⟨r.c3, r.c1, r.c2⟩
  have swpE : ∀ s, (∀ q ∈ S, fy q - s ≠ 0) → VecCont (fun q => faceYf dim s ⟨fx q, fy q, fz q⟩) S := fun s h =>
    have r := vecCont_rectE cx cz cy (dim.x / 2) (dim.z / 2) s h
    ⟨r.c1, r.c3, r.c2⟩
  have zE : ∀ s, (∀ q ∈ S, fz q - s ≠ 0) → VecCont (fun q => faceZf dim s ⟨fx q, fy q, fz q⟩) S := fun s h =>
    vecCont_rectE cx cy cz (dim.x / 2) (dim.y / 2) s h
  exact (((((((cycE _ hx1).smul pol.x).add ((cycE _ hx2).smul (-pol.x))).add ((swpE _ hy1).smul pol.y)).add
    ((swpE _ hy2).smul (-pol.y))).add ((zE _ hz1).smul pol.z)).add ((zE _ hz2).smul (-pol.z))).smul _

theorem jacCont_coulombJac : JacCont (fun q => coulombJac dim pol ⟨fx q, fy q, fz q⟩) S := by
  have hx1 : ∀ q ∈ S, fx q - dim.x / 2 ≠ 0 := fun q hq => (hS q hq).1.1
  have hx2 : ∀ q ∈ S, fx q - -(dim.x / 2) ≠ 0 := fun q hq => by rw [sub_neg_eq_add]; exact (hS q hq).1.2
  have hy1 : ∀ q ∈ S, fy q - dim.y / 2 ≠ 0 := fun q hq => (hS q hq).2.1.1
  have hy2 : ∀ q ∈ S, fy q - -(dim.y / 2) ≠ 0 := fun q hq => by rw [sub_neg_eq_add]; exact (hS q hq).2.1.2
  have hz1 : ∀ q ∈ S, fz q - dim.z / 2 ≠ 0 := fun q hq => (hS q hq).2.2.1
  have hz2 : ∀ q ∈ S, fz q - -(dim.z / 2) ≠ 0 := fun q hq => by rw [sub_neg_eq_add]; exact (hS q hq).2.2.2
  exact (((((((jacCont_rectJac cy cz cx (dim.y / 2) (dim.z / 2) _ hx1).cyc.scale pol.x).add
    ((jacCont_rectJac cy cz cx (dim.y / 2) (dim.z / 2) _ hx2).cyc.scale (-pol.x))).add
    ((jacCont_rectJac cx cz cy (dim.x / 2) (dim.z / 2) _ hy1).swp.scale pol.y)).add
    ((jacCont_rectJac cx cz cy (dim.x / 2) (dim.z / 2) _ hy2).swp.scale (-pol.y))).add
    ((jacCont_rectJac cx cy cz (dim.x / 2) (dim.y / 2) _ hz1).scale pol.z)).add
    ((jacCont_rectJac cx cy cz (dim.x / 2) (dim.y / 2) _ hz2).scale (-pol.z))).scale _

end cuboid

/-! ### boxes inside one cell -/

/-- the closed box `[a, b]` meets none of the six (infinitely extended) face planes `p_i = ± dim_i/2` -/
def CellBox (dim a b : V3 ℝ) : Prop :=
  (dim.x / 2 ∉ Icc a.x b.x ∧ -(dim.x / 2) ∉ Icc a.x b.x) ∧ (dim.y / 2 ∉ Icc a.y b.y ∧ -(dim.y / 2) ∉ Icc a.y b.y) ∧
    (dim.z / 2 ∉ Icc a.z b.z ∧ -(dim.z / 2) ∉ Icc a.z b.z)

theorem CellBox.offP {dim a b p : V3 ℝ} (h : CellBox dim a b) (hp : InBox a b p) : OffP dim p := by
  have off : ∀ {t lo hi c : ℝ}, t ∈ Icc lo hi → c ∉ Icc lo hi → -c ∉ Icc lo hi → t - c ≠ 0 ∧ t + c ≠ 0 := by
    intro t lo hi c ht h1 h2
    constructor
    · intro e; apply h1; rwa [show c = t by linarith]
    · intro e; apply h2; rwa [show -c = t by linarith]
  exact ⟨off hp.1 h.1.1 h.1.2, off hp.2.1 h.2.1.1 h.2.1.2, off hp.2.2 h.2.2.1 h.2.2.2⟩

/-- all points of a cell box lie on the same side of the magnet's surface -/
theorem CellBox.inside_iff {dim a b p q : V3 ℝ} (h : CellBox dim a b) (hp : InBox a b p) (hq : InBox a b q) :
    insideP dim q ↔ insideP dim p := by
  have ax : ∀ {t t' lo hi c : ℝ}, t ∈ Icc lo hi → t' ∈ Icc lo hi → c ∉ Icc lo hi → -c ∉ Icc lo hi →
      (|t'| < c ↔ |t| < c) := by
    intro t t' lo hi c ht ht' h1 h2
    simp only [mem_Icc, not_and_or, not_le] at h1 h2
    obtain ⟨t1, t2⟩ := ht
    obtain ⟨t1', t2'⟩ := ht'
    rw [abs_lt, abs_lt]
    constructor <;> intro hh <;> constructor <;> rcases h1 with h1 | h1 <;> rcases h2 with h2 | h2 <;> linarith [hh.1, hh.2]
  unfold insideP
  rw [ax hp.1 hq.1 h.1.1 h.1.2, ax hp.2.1 hq.2.1 h.2.1.1 h.2.1.2, ax hp.2.2 hq.2.2 h.2.2.1 h.2.2.2]

theorem CellBox.good {dim a b p q : V3 ℝ} (h : CellBox dim a b) (hp : InBox a b p) (hq : InBox a b q) :
    Good dim p q := ⟨h.offP hq, h.inside_iff hp hq⟩

section cellbox
variable (dim pol : V3 ℝ) {a b : V3 ℝ} (h : CellBox dim a b)
include h

theorem offP_of_mem_box (q : ℝ × ℝ × ℝ) (hq : q ∈ Icc a.x b.x ×ˢ Icc a.y b.y ×ˢ Icc a.z b.z) :
    OffP dim ⟨q.1, q.2.1, q.2.2⟩ := h.offP (p := ⟨q.1, q.2.1, q.2.2⟩) ⟨hq.1, hq.2.1, hq.2.2⟩

/-- every entry of `c • coulombJac` is continuous on a box inside one cell -/
theorem jacCont_coulombJac_box (c : ℝ) :
    JacCont (fun q : ℝ × ℝ × ℝ => jacScale c (coulombJac dim pol ⟨q.1, q.2.1, q.2.2⟩))
      (Icc a.x b.x ×ˢ Icc a.y b.y ×ˢ Icc a.z b.z) :=
  (jacCont_coulombJac (fx := fun q : ℝ × ℝ × ℝ => q.1) (fy := fun q => q.2.1) (fz := fun q => q.2.2)
    (by fun_prop) (by fun_prop) (by fun_prop) dim pol (offP_of_mem_box dim h)).scale c

/-- the surface-charge field is continuous on a box inside one cell -/
theorem fieldCont_coulombG_box : FieldContOnBox (coulombG dim pol) a b :=
  have r := vecCont_coulombG (fx := fun q : ℝ × ℝ × ℝ => q.1) (fy := fun q => q.2.1) (fz := fun q => q.2.2)
    (by fun_prop) (by fun_prop) (by fun_prop) dim pol (offP_of_mem_box dim h)
  ⟨r.c1, r.c2, r.c3⟩

/-- the Cuboid closed form is continuous on a box inside one cell -/
theorem fieldCont_cuboidB_box (hdx : 0 < dim.x) (hdy : 0 < dim.y) (hdz : 0 < dim.z) (hx : a.x ≤ b.x)
    (hy : a.y ≤ b.y) (hz : a.z ≤ b.z) : FieldContOnBox (cuboidB dim pol) a b := by
  have ha : InBox a b a := ⟨left_mem_Icc.mpr hx, left_mem_Icc.mpr hy, left_mem_Icc.mpr hz⟩
  have r := (vecCont_coulombG (fx := fun q : ℝ × ℝ × ℝ => q.1) (fy := fun q => q.2.1) (fz := fun q => q.2.2)
    (by fun_prop) (by fun_prop) (by fun_prop) dim pol (offP_of_mem_box dim h)).add_const
    (if insideP dim a then pol else ⟨0, 0, 0⟩)
  have r' : FieldContOnBox (fun q => coulombG dim pol q + (if insideP dim a then pol else ⟨0, 0, 0⟩)) a b :=
    ⟨r.c1, r.c2, r.c3⟩
  exact r'.congr fun p hp => cuboidB_eq_G_add dim pol a p hdx hdy hdz (h.good ha hp)

/-- `H = (B − J·1_inside)/μ₀` of the Cuboid closed form is continuous on a box inside one cell -/
theorem fieldCont_cuboidH_box (hdx : 0 < dim.x) (hdy : 0 < dim.y) (hdz : 0 < dim.z) :
    FieldContOnBox (cuboidHfield dim pol) a b := by
  have r := (vecCont_coulombG (fx := fun q : ℝ × ℝ × ℝ => q.1) (fy := fun q => q.2.1) (fz := fun q => q.2.2)
    (by fun_prop) (by fun_prop) (by fun_prop) dim pol (offP_of_mem_box dim h)).vd mu0R
  have r' : FieldContOnBox (fun q => Kern.vd (coulombG dim pol q) mu0R) a b := ⟨r.c1, r.c2, r.c3⟩
  exact r'.congr fun p hp => cuboidHfield_eq dim pol p hdx hdy hdz (h.offP hp)

end cellbox

/-! ### boxes that stay out of the wrapper's shells -/

/-- the interval `[lo, hi]` stays out of the two OPEN shells `(±c − rtol·c, ±c + rtol·c)` in which the wrapper
`BHJM_magnet_cuboid` treats an observer as lying on the surface -/
def ShellAxis (c lo hi : ℝ) : Prop :=
  (hi ≤ c - rtol * c ∨ c + rtol * c ≤ lo) ∧ (hi ≤ -c - rtol * c ∨ -c + rtol * c ≤ lo)

theorem ShellAxis.clear {c lo hi t : ℝ} (h : ShellAxis c lo hi) (ht : t ∈ Icc lo hi) :
    rtol * c ≤ |(|t| - c)| := by
  rw [le_abs]
  rcases le_total 0 t with h0 | h0
  · rw [abs_of_nonneg h0]
    rcases h.1 with h1 | h1
    · right; linarith [ht.2]
    · left; linarith [ht.1]
  · rw [abs_of_nonpos h0]
    rcases h.2 with h1 | h1
    · left; linarith [ht.2]
    · right; linarith [ht.1]

theorem ShellAxis.cell {c lo hi : ℝ} (hc : 0 < c) (h : ShellAxis c lo hi) : c ∉ Icc lo hi ∧ -c ∉ Icc lo hi := by
  have hr : 0 < rtol * c := mul_pos rtol_pos hc
  constructor
  · intro hm; rcases h.1 with h1 | h1 <;> linarith [hm.1, hm.2]
  · intro hm; rcases h.2 with h1 | h1 <;> linarith [hm.1, hm.2]

/-- the closed box `[a, b]` stays out of the six open shells around the face planes (endpoint conditions,
decidable by comparing numbers) -/
def ShellBox (dim a b : V3 ℝ) : Prop :=
  ShellAxis (dim.x / 2) a.x b.x ∧ ShellAxis (dim.y / 2) a.y b.y ∧ ShellAxis (dim.z / 2) a.z b.z

theorem ShellBox.cellBox {dim a b : V3 ℝ} (hdx : 0 < dim.x) (hdy : 0 < dim.y) (hdz : 0 < dim.z)
    (h : ShellBox dim a b) : CellBox dim a b :=
  ⟨h.1.cell (half_pos hdx), h.2.1.cell (half_pos hdy), h.2.2.cell (half_pos hdz)⟩

theorem ShellBox.clear {dim a b p : V3 ℝ} (h : ShellBox dim a b) (hp : InBox a b p) :
    rtol * (dim.x / 2) ≤ |(|p.x| - dim.x / 2)| ∧ rtol * (dim.y / 2) ≤ |(|p.y| - dim.y / 2)| ∧
      rtol * (dim.z / 2) ≤ |(|p.z| - dim.z / 2)| :=
  ⟨h.1.clear hp.1, h.2.1.clear hp.2.1, h.2.2.clear hp.2.2⟩

/-! ### a box cutting the face `x = dim.x/2` of a cuboid polarized parallel to that face (`pol.x = 0`)

The two faces normal to `x` then carry no surface charge, the surface-charge field is the field `restG` of the
other four faces, which is smooth across the plane `x = ±dim.x/2` (off the other four planes), and
`B = restG + J·1_inside` jumps across the face by the TANGENTIAL vector `J`. -/

/-- the surface-charge field of the four faces normal to `y` and `z` -/
noncomputable def restG (dim pol : V3 ℝ) (q : V3 ℝ) : V3 ℝ :=
  vs (1 / (4 * Real.pi))
    (vs pol.y (faceYf dim (dim.y / 2) q) + vs (-pol.y) (faceYf dim (-(dim.y / 2)) q) +
     vs pol.z (faceZf dim (dim.z / 2) q) + vs (-pol.z) (faceZf dim (-(dim.z / 2)) q))

noncomputable def restJac (dim pol p : V3 ℝ) : M3 ℝ :=
  jacScale (1 / (4 * Real.pi))
    (jacAdd (jacAdd (jacAdd
      (jacScale pol.y (jacSwp (rectJac (dim.x / 2) (dim.z / 2) (dim.y / 2) ⟨p.x, p.z, p.y⟩)))
      (jacScale (-pol.y) (jacSwp (rectJac (dim.x / 2) (dim.z / 2) (-(dim.y / 2)) ⟨p.x, p.z, p.y⟩))))
      (jacScale pol.z (rectJac (dim.x / 2) (dim.y / 2) (dim.z / 2) p)))
      (jacScale (-pol.z) (rectJac (dim.x / 2) (dim.y / 2) (-(dim.z / 2)) p)))

theorem coulombG_eq_restG (dim pol q : V3 ℝ) (hpx : pol.x = 0) : coulombG dim pol q = restG dim pol q := by
  unfold coulombG restG
  rw [hpx]
  apply V3.ext' <;> simp only [vs, V3.add_x, V3.add_y, V3.add_z] <;> ring

/-- off the four planes `y = ±dim.y/2`, `z = ±dim.z/2` -/
def OffYZ (dim q : V3 ℝ) : Prop :=
  (q.y - dim.y / 2 ≠ 0 ∧ q.y + dim.y / 2 ≠ 0) ∧ (q.z - dim.z / 2 ≠ 0 ∧ q.z + dim.z / 2 ≠ 0)

theorem restJac_div (dim pol p : V3 ℝ) : jacDiv (restJac dim pol p) = 0 := by
  simp only [restJac, jacDiv_scale, jacDiv_add, jacDiv_swp, rectJac_div]
  ring

theorem restG_hasPartials (dim pol p : V3 ℝ) (h : OffYZ dim p) : HasPartials (restG dim pol) p (restJac dim pol p) := by
  obtain ⟨⟨hy1, hy2⟩, ⟨hz1, hz2⟩⟩ := h
  have hy2' : p.y - -(dim.y / 2) ≠ 0 := by rwa [sub_neg_eq_add]
  have hz2' : p.z - -(dim.z / 2) ≠ 0 := by rwa [sub_neg_eq_add]
  have Y1 : HasPartials (faceYf dim (dim.y / 2)) p _ :=
    HasPartials.swp (rectE_hasPartials _ _ _ ⟨p.x, p.z, p.y⟩ hy1)
  have Y2 : HasPartials (faceYf dim (-(dim.y / 2))) p _ :=
    HasPartials.swp (rectE_hasPartials _ _ _ ⟨p.x, p.z, p.y⟩ hy2')
  have Z1 : HasPartials (faceZf dim (dim.z / 2)) p _ := rectE_hasPartials _ _ _ p hz1
  have Z2 : HasPartials (faceZf dim (-(dim.z / 2))) p _ := rectE_hasPartials _ _ _ p hz2'
  exact ((((Y1.const_smul pol.y).add (Y2.const_smul (-pol.y))).add (Z1.const_smul pol.z)).add
    (Z2.const_smul (-pol.z))).const_smul _

section restcont
variable {X : Type*} [TopologicalSpace X] {S : Set X} {fx fy fz : X → ℝ} (cx : Continuous fx)
  (cy : Continuous fy) (cz : Continuous fz) (dim pol : V3 ℝ) (hS : ∀ q ∈ S, OffYZ dim ⟨fx q, fy q, fz q⟩)
include cx cy cz hS

theorem vecCont_restG : VecCont (fun q => restG dim pol ⟨fx q, fy q, fz q⟩) S := by
  have hy1 : ∀ q ∈ S, fy q - dim.y / 2 ≠ 0 := fun q hq => (hS q hq).1.1
  have hy2 : ∀ q ∈ S, fy q - -(dim.y / 2) ≠ 0 := fun q hq => by rw [sub_neg_eq_add]; exact (hS q hq).1.2
  have hz1 : ∀ q ∈ S, fz q - dim.z / 2 ≠ 0 := fun q hq => (hS q hq).2.1
  have hz2 : ∀ q ∈ S, fz q - -(dim.z / 2) ≠ 0 := fun q hq => by rw [sub_neg_eq_add]; exact (hS q hq).2.2
  have swpE : ∀ s, (∀ q ∈ S, fy q - s ≠ 0) → VecCont (fun q => faceYf dim s ⟨fx q, fy q, fz q⟩) S := fun s h =>
    have r := vecCont_rectE cx cz cy (dim.x / 2) (dim.z / 2) s h
    ⟨r.c1, r.c3, r.c2⟩
  have zE : ∀ s, (∀ q ∈ S, fz q - s ≠ 0) → VecCont (fun q => faceZf dim s ⟨fx q, fy q, fz q⟩) S := fun s h =>
    vecCont_rectE cx cy cz (dim.x / 2) (dim.y / 2) s h
  exact (((((swpE _ hy1).smul pol.y).add ((swpE _ hy2).smul (-pol.y))).add ((zE _ hz1).smul pol.z)).add
    ((zE _ hz2).smul (-pol.z))).smul _

theorem jacCont_restJac : JacCont (fun q => restJac dim pol ⟨fx q, fy q, fz q⟩) S := by
  have hy1 : ∀ q ∈ S, fy q - dim.y / 2 ≠ 0 := fun q hq => (hS q hq).1.1
  have hy2 : ∀ q ∈ S, fy q - -(dim.y / 2) ≠ 0 := fun q hq => by rw [sub_neg_eq_add]; exact (hS q hq).1.2
  have hz1 : ∀ q ∈ S, fz q - dim.z / 2 ≠ 0 := fun q hq => (hS q hq).2.1
  have hz2 : ∀ q ∈ S, fz q - -(dim.z / 2) ≠ 0 := fun q hq => by rw [sub_neg_eq_add]; exact (hS q hq).2.2
  exact (((((jacCont_rectJac cx cz cy (dim.x / 2) (dim.z / 2) _ hy1).swp.scale pol.y).add
    ((jacCont_rectJac cx cz cy (dim.x / 2) (dim.z / 2) _ hy2).swp.scale (-pol.y))).add
    ((jacCont_rectJac cx cy cz (dim.x / 2) (dim.y / 2) _ hz1).scale pol.z)).add
    ((jacCont_rectJac cx cy cz (dim.x / 2) (dim.y / 2) _ hz2).scale (-pol.z))).scale _

end restcont

theorem off_axis {t lo hi c : ℝ} (ht : t ∈ Icc lo hi) (h1 : c ∉ Icc lo hi) (h2 : -c ∉ Icc lo hi) :
    t - c ≠ 0 ∧ t + c ≠ 0 := by
  constructor
  · intro e; apply h1; rwa [show c = t by linarith]
  · intro e; apply h2; rwa [show -c = t by linarith]

theorem abs_lt_iff_axis {t t' lo hi c : ℝ} (ht : t ∈ Icc lo hi) (ht' : t' ∈ Icc lo hi) (h1 : c ∉ Icc lo hi)
    (h2 : -c ∉ Icc lo hi) : (|t'| < c ↔ |t| < c) := by
  simp only [mem_Icc, not_and_or, not_le] at h1 h2
  obtain ⟨t1, t2⟩ := ht
  obtain ⟨t1', t2'⟩ := ht'
  rw [abs_lt, abs_lt]
  constructor <;> intro hh <;> constructor <;> rcases h1 with h1 | h1 <;> rcases h2 with h2 | h2 <;> linarith [hh.1, hh.2]

/-- the `y`- and `z`-ranges of the box miss the four planes `y = ±dim.y/2`, `z = ±dim.z/2` -/
def CellYZ (dim a b : V3 ℝ) : Prop :=
  (dim.y / 2 ∉ Icc a.y b.y ∧ -(dim.y / 2) ∉ Icc a.y b.y) ∧ (dim.z / 2 ∉ Icc a.z b.z ∧ -(dim.z / 2) ∉ Icc a.z b.z)

/-- a field `restG + K` (K constant) has zero flux through, and is continuous on, every box whose `y`- and
`z`-ranges miss the four planes — whatever its `x`-range -/
theorem restG_add_const_box (dim pol K a b : V3 ℝ) (hx : a.x ≤ b.x) (hy : a.y ≤ b.y) (hz : a.z ≤ b.z)
    (h : (dim.y / 2 ∉ Icc a.y b.y ∧ -(dim.y / 2) ∉ Icc a.y b.y) ∧ (dim.z / 2 ∉ Icc a.z b.z ∧ -(dim.z / 2) ∉ Icc a.z b.z)) :
    FieldContOnBox (fun q => restG dim pol q + K) a b ∧ boxFlux6 (fun q => restG dim pol q + K) a b = 0 := by
  have hoff : ∀ p, InBox a b p → OffYZ dim p := fun p hp =>
    ⟨off_axis hp.2.1 h.1.1 h.1.2, off_axis hp.2.2 h.2.1 h.2.2⟩
  have hS : ∀ q ∈ Icc a.x b.x ×ˢ Icc a.y b.y ×ˢ Icc a.z b.z, OffYZ dim ⟨q.1, q.2.1, q.2.2⟩ := fun q hq =>
    hoff ⟨q.1, q.2.1, q.2.2⟩ ⟨hq.1, hq.2.1, hq.2.2⟩
  have r := (vecCont_restG (fx := fun q : ℝ × ℝ × ℝ => q.1) (fy := fun q => q.2.1) (fz := fun q => q.2.2)
    (by fun_prop) (by fun_prop) (by fun_prop) dim pol hS).add_const K
  have fc : FieldContOnBox (fun q => restG dim pol q + K) a b := ⟨r.c1, r.c2, r.c3⟩
  have jc := jacCont_restJac (fx := fun q : ℝ × ℝ × ℝ => q.1) (fy := fun q => q.2.1) (fz := fun q => q.2.2)
    (by fun_prop) (by fun_prop) (by fun_prop) dim pol hS
  have h0 : boxFlux (fun q => restG dim pol q + K) a b = 0 :=
    box_flux_zero_of_hasPartials _ a b hx hy hz (fun p => restJac dim pol p)
      (fun p hp => (restG_hasPartials dim pol p (hoff p hp)).add_const K) jc.c11 jc.c22 jc.c33
      (fun p _ => restJac_div dim pol p)
  exact ⟨fc, (boxFlux6_eq_boxFlux _ a b hx hy hz (fc.faceCont hx hy hz)).trans h0⟩

/-- **a box cutting the face `x = +dim.x/2` of a cuboid polarized parallel to that face**: zero flux of the
Cuboid closed form, although `B` jumps (tangentially, by `J`) across the face when the box's projection
lies inside the face.  The box may not reach the opposite face plane and its `y`- and `z`-ranges miss the
other four planes. -/
theorem cuboidB_box_flux_crossing_tangential (dim pol a b : V3 ℝ) (hdx : 0 < dim.x) (hdy : 0 < dim.y) (hdz : 0 < dim.z)
    (hpx : pol.x = 0) (hac : a.x < dim.x / 2) (hcb : dim.x / 2 < b.x) (hlo : -(dim.x / 2) < a.x)
    (hy : a.y ≤ b.y) (hz : a.z ≤ b.z) (h : CellYZ dim a b) : boxFlux6 (cuboidB dim pol) a b = 0 := by
  set K : V3 ℝ := if |a.y| < dim.y / 2 ∧ |a.z| < dim.z / 2 then pol else ⟨0, 0, 0⟩ with hK
  have hKx : K.x = 0 := by
    rw [hK]; split_ifs
    · exact hpx
    · rfl
  have ay : a.y ∈ Icc a.y b.y := left_mem_Icc.mpr hy
  have az : a.z ∈ Icc a.z b.z := left_mem_Icc.mpr hz
  have rm := restG_add_const_box dim pol K a ⟨dim.x / 2, b.y, b.z⟩ hac.le hy hz h
  have rp := restG_add_const_box dim pol ⟨0, 0, 0⟩ ⟨dim.x / 2, a.y, a.z⟩ b hcb.le hy hz h
  have common : ∀ p, InBox a b p → p.x ≠ dim.x / 2 →
      cuboidB dim pol p = restG dim pol p + (if insideP dim p then pol else ⟨0, 0, 0⟩) := by
    intro p hp hne
    have oy := off_axis hp.2.1 h.1.1 h.1.2
    have oz := off_axis hp.2.2 h.2.1 h.2.2
    have ox1 : p.x - dim.x / 2 ≠ 0 := sub_ne_zero.mpr hne
    have ox2 : p.x + dim.x / 2 ≠ 0 := by have := hp.1.1; intro e; linarith
    rw [cuboidB_eq_coulomb dim pol p hdx hdy hdz ox1 ox2 oy.1 oy.2 oz.1 oz.2,
      coulombB_eq_G dim pol p ⟨⟨ox1, ox2⟩, oy, oz⟩, coulombG_eq_restG dim pol p hpx]
  refine box_flux_zero_of_split_x (cuboidB dim pol) (fun q => restG dim pol q + K)
    (fun q => restG dim pol q + ⟨0, 0, 0⟩) a b (dim.x / 2) hac hcb hy hz rm.1 rp.1 rm.2 rp.2 ?_ ?_ ?_
  · intro p hp hlt
    rw [common p hp hlt.ne]
    have hxin : |p.x| < dim.x / 2 := abs_lt.mpr ⟨by linarith [hp.1.1], hlt⟩
    have e : insideP dim p ↔ (|a.y| < dim.y / 2 ∧ |a.z| < dim.z / 2) := by
      unfold insideP
      rw [abs_lt_iff_axis ay hp.2.1 h.1.1 h.1.2, abs_lt_iff_axis az hp.2.2 h.2.1 h.2.2]
      exact ⟨fun hh => hh.2, fun hh => ⟨hxin, hh⟩⟩
    simp only [hK, e]
  · intro p hp hgt
    rw [common p hp hgt.ne']
    have hni : ¬ insideP dim p := by
      intro hi
      have := (abs_lt.mp hi.1).2
      linarith
    rw [if_neg hni]
  · intro y _ z _
    simp only [V3.add_x, hKx]

end MagpyVerif.BoxLaws
