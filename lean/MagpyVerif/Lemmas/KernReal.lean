/- the real-number carrier of the kernel model -/
import Mathlib.Analysis.SpecialFunctions.Pow.Real
import Mathlib.Analysis.SpecialFunctions.Trigonometric.Basic
import Mathlib.Analysis.SpecialFunctions.Complex.Arg
import Mathlib.Analysis.SpecialFunctions.Log.Basic
import Mathlib.Tactic
import MagpyVerif.Model.Kernels

namespace MagpyVerif.Kern
open Classical

/-- exact real arithmetic with an arbitrary value `μ` for mu_0 -/
@[reducible] noncomputable def realNum (μ : ℝ) : Num ℝ where
  ofNat n := (n : ℝ)
  sqrt := Real.sqrt
  abs := fun x => |x|
  pi := Real.pi
  mu0 := μ
  lt a b := decide (a < b)
  le a b := decide (a ≤ b)
  eq0 a := decide (a = 0)
  log := Real.log
  atan2 := fun y x => Complex.arg ⟨x, y⟩
  sin := Real.sin
  cos := Real.cos

/-- a fixed positive real standing for mu_0 where its value does not matter -/
noncomputable def mu0R : ℝ := 4 * Real.pi * (1 / 10000000)
theorem mu0R_pos : 0 < mu0R := by unfold mu0R; positivity
@[reducible] noncomputable instance instNumReal : Num ℝ := realNum mu0R

@[simp] theorem mu0_real (μ : ℝ) : @Num.mu0 ℝ (realNum μ) = μ := rfl
@[simp] theorem pi_real (μ : ℝ) : @Num.pi ℝ (realNum μ) = Real.pi := rfl
@[simp] theorem ofNat_real (μ : ℝ) (k : Nat) : @Num.ofNat ℝ (realNum μ) k = (k : ℝ) := rfl
@[simp] theorem sqrt_real (μ : ℝ) (x : ℝ) : @Num.sqrt ℝ (realNum μ) x = Real.sqrt x := rfl
@[simp] theorem abs_real (μ : ℝ) (x : ℝ) : @Num.abs ℝ (realNum μ) x = |x| := rfl
@[simp] theorem lt_real (μ : ℝ) (a b : ℝ) : @Num.lt ℝ (realNum μ) a b = decide (a < b) := rfl
@[simp] theorem le_real (μ : ℝ) (a b : ℝ) : @Num.le ℝ (realNum μ) a b = decide (a ≤ b) := rfl
@[simp] theorem sin_real (μ : ℝ) (x : ℝ) : @Num.sin ℝ (realNum μ) x = Real.sin x := rfl
@[simp] theorem cos_real (μ : ℝ) (x : ℝ) : @Num.cos ℝ (realNum μ) x = Real.cos x := rfl
@[simp] theorem log_real (μ : ℝ) (x : ℝ) : @Num.log ℝ (realNum μ) x = Real.log x := rfl
@[simp] theorem atan2_real (μ : ℝ) (y x : ℝ) : @Num.atan2 ℝ (realNum μ) y x = Complex.arg ⟨x, y⟩ := rfl
@[simp] theorem eq0_real (μ : ℝ) (a : ℝ) : @Num.eq0 ℝ (realNum μ) a = decide (a = 0) := rfl

section
variable {α : Type}
@[simp] theorem V3.add_x [Add α] (a b : V3 α) : (a + b).x = a.x + b.x := rfl
@[simp] theorem V3.add_y [Add α] (a b : V3 α) : (a + b).y = a.y + b.y := rfl
@[simp] theorem V3.add_z [Add α] (a b : V3 α) : (a + b).z = a.z + b.z := rfl
@[simp] theorem V3.sub_x [Sub α] (a b : V3 α) : (a - b).x = a.x - b.x := rfl
@[simp] theorem V3.sub_y [Sub α] (a b : V3 α) : (a - b).y = a.y - b.y := rfl
@[simp] theorem V3.sub_z [Sub α] (a b : V3 α) : (a - b).z = a.z - b.z := rfl
end

theorem V3.ext' {a b : V3 ℝ} (hx : a.x = b.x) (hy : a.y = b.y) (hz : a.z = b.z) : a = b := by
  cases a; cases b; simp_all

theorem norm_sq (x : V3 ℝ) : Kern.norm x * Kern.norm x = x.x * x.x + x.y * x.y + x.z * x.z := by
  simp only [Kern.norm, sqrt_real]
  exact Real.mul_self_sqrt (by nlinarith [mul_self_nonneg x.x, mul_self_nonneg x.y, mul_self_nonneg x.z])

/-- the outside formula of `BHJM_magnet_sphere` -/
noncomputable def sphereOutB (R : ℝ) (pol x : V3 ℝ) : V3 ℝ :=
  let r := Kern.norm x
  vs (R * R * R / 3) (vd (vs (3 * V3.dot pol x) x - vs (r * r) pol) (r * r * r * r * r))

end MagpyVerif.Kern
