/-
Lemmas/CuboidDiv.lean — the local (differential) forms of the two laws of magnetostatics for the
Cuboid closed form: div B = 0 and curl H = 0 at every observer off the six face planes.

Route.
  * `Lemmas/CuboidCoulomb.lean` shows that the port of `magnet_cuboid_Bfield` (`cuboidB`) equals, off
    the six face planes and in every octant, the six-face surface-charge integral `cuboidCoulombB`
    plus `J` inside, and that every face integral is a mixed second difference `d2` over the four
    corners of the face of one of three corner functions of the offsets `(u, v, w)` observer − corner
    (`w` normal to the face, `r = √(u²+v²+w²)`):
        `FN  w u v = arctan(u v/(w r))`   (normal component),
        `FLm w u v = log(r − v)`          (component along `u`),
        `FLm' w u v = log(r − u)`         (component along `v`).
    The arctan2 branch corrections (±π, `d2_atan2`) and the indicator of the interior are locally
    constant off the face planes; they have already been absorbed into that identity, which holds on
    the whole open set, so they do not show up in derivatives (`cuboidB_eventually_x/y/z`).
  * Part 1 (here): the nine partial derivatives of the three corner functions (`w ≠ 0`).
  * Part 2: the field of one charged rectangle `rectE` has all nine partial derivatives off its plane
    and is divergence- and curl-free there: the corner-wise sums of the derivatives are
    `u/(u²+w²) + v/(v²+w²)` (divergence) resp. `∓w/(·²+w²)` (curl) — functions of one in-plane
    variable only, which the mixed second difference annihilates.
  * Part 3: bookkeeping: sums, scalar multiples, coordinate permutations (faces normal to x and y),
    locally equal fields, added constants.
  * Part 4: `cuboidCoulombB`, `cuboidB`, and the wrapper `bhjmCuboid`.
-/
import MagpyVerif.Lemmas.CuboidCoulomb
import MagpyVerif.Lemmas.DipoleCalc

namespace MagpyVerif.CuboidDiv
open MagpyVerif MagpyVerif.Kern MagpyVerif.RectCharge MagpyVerif.CuboidCoulomb Filter Topology

/-! ### Part 1: partial derivatives of the corner functions -/

theorem hasDerivAt_rr_z {z : ℝ} (hz : z ≠ 0) (x y : ℝ) :
    HasDerivAt (fun z => rr x y z) (z / rr x y z) z := by
  have hpos := ssq_pos hz x y
  have h1 : HasDerivAt (fun z : ℝ => x ^ 2 + y ^ 2 + z ^ 2) (2 * z) z := by
    simpa using ((hasDerivAt_pow 2 z).const_add (x ^ 2 + y ^ 2))
  have h2 := h1.sqrt hpos.ne'
  refine h2.congr_deriv ?_
  unfold rr
  have : Real.sqrt (x ^ 2 + y ^ 2 + z ^ 2) ≠ 0 := (Real.sqrt_pos.mpr hpos).ne'
  field_simp

/-- `log(R − v)` along a coordinate `t` other than `v`: `R² = t² + k + v²`, `t² + k > 0` -/
theorem hasDerivAt_log_sub_gen {R : ℝ → ℝ} {t v k : ℝ} (hR : HasDerivAt R (t / R t) t) (hpos : 0 < R t)
    (hsq : R t ^ 2 = t ^ 2 + k + v ^ 2) (hk : 0 < t ^ 2 + k) :
    HasDerivAt (fun s => Real.log (R s - v)) (t * v / ((t ^ 2 + k) * R t) + t / (t ^ 2 + k)) t := by
  have hs : 0 < R t - v := by
    by_contra hc
    rw [not_lt] at hc
    nlinarith
  have hp : 0 < R t + v := by
    by_contra hc
    rw [not_lt] at hc
    nlinarith
  have h := (hR.sub_const v).log hs.ne'
  refine h.congr_deriv ?_
  set r := R t
  have hD : t ^ 2 + k = (r - v) * (r + v) := by linarith
  rw [hD]
  have hne1 : r - v ≠ 0 := hs.ne'
  have hne2 : r + v ≠ 0 := hp.ne'
  have hne3 : r ≠ 0 := hpos.ne'
  field_simp
  ring

/-- ∂/∂u, ∂/∂v, ∂/∂w of `FLm w u v = log(r − v)` -/
noncomputable def Lu (w u v : ℝ) : ℝ := u * v / ((u ^ 2 + w ^ 2) * rr u v w) + u / (u ^ 2 + w ^ 2)
noncomputable def Lv (w u v : ℝ) : ℝ := -(1 / rr u v w)
noncomputable def Lw (w u v : ℝ) : ℝ := w * v / ((u ^ 2 + w ^ 2) * rr u v w) + w / (u ^ 2 + w ^ 2)
/-- ∂/∂u, ∂/∂v, ∂/∂w of `FLm' w u v = log(r − u)` -/
noncomputable def Mu (w u v : ℝ) : ℝ := -(1 / rr u v w)
noncomputable def Mv (w u v : ℝ) : ℝ := v * u / ((v ^ 2 + w ^ 2) * rr u v w) + v / (v ^ 2 + w ^ 2)
noncomputable def Mw (w u v : ℝ) : ℝ := w * u / ((v ^ 2 + w ^ 2) * rr u v w) + w / (v ^ 2 + w ^ 2)
/-- ∂/∂u, ∂/∂v, ∂/∂w of `FN w u v = arctan(u v/(w r))` -/
noncomputable def Nu (w u v : ℝ) : ℝ := v * w / ((u ^ 2 + w ^ 2) * rr u v w)
noncomputable def Nv (w u v : ℝ) : ℝ := u * w / ((v ^ 2 + w ^ 2) * rr u v w)
noncomputable def Nw (w u v : ℝ) : ℝ :=
  -(u * v / ((u ^ 2 + w ^ 2) * rr u v w) + u * v / ((v ^ 2 + w ^ 2) * rr u v w))

section corner
variable {w : ℝ} (hw : w ≠ 0) (u v : ℝ)
include hw

theorem hasDerivAt_FLm_u : HasDerivAt (fun t => FLm w t v) (Lu w u v) u := by
  have h := hasDerivAt_log_sub_gen (R := fun s => rr s v w) (t := u) (v := v) (k := w ^ 2)
    (hasDerivAt_rr_x hw u v) (rr_pos hw u v) (by rw [rr_sq]; ring) (by positivity)
  exact h

theorem hasDerivAt_FLm_v : HasDerivAt (fun t => FLm w u t) (Lv w u v) v :=
  hasDerivAt_log_sub hw u v

theorem hasDerivAt_FLm_w : HasDerivAt (fun t => FLm t u v) (Lw w u v) w := by
  have h := hasDerivAt_log_sub_gen (R := fun s => rr u v s) (t := w) (v := v) (k := u ^ 2)
    (hasDerivAt_rr_z hw u v) (rr_pos hw u v) (by rw [rr_sq]; ring) (by positivity)
  refine h.congr_deriv ?_
  unfold Lw
  rw [add_comm (w ^ 2) (u ^ 2)]

theorem hasDerivAt_FLm'_u : HasDerivAt (fun t => FLm' w t v) (Mu w u v) u := by
  have h := hasDerivAt_log_sub hw v u
  unfold Mu
  rw [rr_comm u v w]
  exact h.congr_of_eventuallyEq (Eventually.of_forall fun t => by simp only [FLm', rr_comm t v w])

theorem hasDerivAt_FLm'_v : HasDerivAt (fun t => FLm' w u t) (Mv w u v) v := by
  have h := hasDerivAt_log_sub_gen (R := fun s => rr u s w) (t := v) (v := u) (k := w ^ 2)
    (hasDerivAt_rr_y hw u v) (rr_pos hw u v) (by rw [rr_sq]; ring) (by positivity)
  exact h

theorem hasDerivAt_FLm'_w : HasDerivAt (fun t => FLm' t u v) (Mw w u v) w := by
  have h := hasDerivAt_log_sub_gen (R := fun s => rr u v s) (t := w) (v := u) (k := v ^ 2)
    (hasDerivAt_rr_z hw u v) (rr_pos hw u v) (by rw [rr_sq]; ring) (by positivity)
  refine h.congr_deriv ?_
  unfold Mw
  rw [add_comm (w ^ 2) (v ^ 2)]

theorem hasDerivAt_FN_v : HasDerivAt (fun t => FN w u t) (Nv w u v) v :=
  hasDerivAt_arctan_corner hw u v

theorem hasDerivAt_FN_u : HasDerivAt (fun t => FN w t v) (Nu w u v) u := by
  have h := hasDerivAt_arctan_corner hw v u
  unfold Nu
  rw [rr_comm u v w]
  exact h.congr_of_eventuallyEq (Eventually.of_forall fun t => by simp only [FN, rr_comm t v w, mul_comm t v])

theorem hasDerivAt_FN_w : HasDerivAt (fun t => FN t u v) (Nw w u v) w := by
  have hr := rr_pos hw u v
  have hr2 := rr_sq u v w
  have hq : HasDerivAt (fun t => u * v / (t * rr u v t)) _ w :=
    (hasDerivAt_const w (u * v)).div ((hasDerivAt_id' w).mul (hasDerivAt_rr_z hw u v))
      (mul_ne_zero hw hr.ne')
  have h := hq.arctan
  refine h.congr_deriv ?_
  unfold Nw
  set r := rr u v w
  have hU : 0 < u ^ 2 + w ^ 2 := by positivity
  have hV : 0 < v ^ 2 + w ^ 2 := by positivity
  have k1 : 1 + (u * v / (w * r)) ^ 2 = (u ^ 2 + w ^ 2) * (v ^ 2 + w ^ 2) / (w ^ 2 * r ^ 2) := by
    field_simp
    rw [hr2]; ring
  have k2 : (1 : ℝ) * r + w * (w / r) = ((u ^ 2 + w ^ 2) + (v ^ 2 + w ^ 2)) / r := by
    field_simp
    rw [hr2]; ring
  rw [k1, k2]
  have hne1 : u ^ 2 + w ^ 2 ≠ 0 := hU.ne'
  have hne2 : v ^ 2 + w ^ 2 ≠ 0 := hV.ne'
  have hne3 : r ≠ 0 := hr.ne'
  field_simp
  ring

end corner

/-! ### Part 2: the field of one uniformly charged rectangle -/

/-- derivative of a mixed second difference along the first in-plane variable -/
theorem d2_hasDerivAt_u {F F' : ℝ → ℝ → ℝ} (hF : ∀ u v, HasDerivAt (fun t => F t v) (F' u v) u)
    (b v1 v2 x : ℝ) :
    HasDerivAt (fun t => d2 F (t - b) (t + b) v1 v2) (d2 F' (x - b) (x + b) v1 v2) x := by
  unfold d2
  exact ((((hF (x + b) v2).comp_add_const x b).sub ((hF (x + b) v1).comp_add_const x b)).sub
    ((hF (x - b) v2).comp_sub_const x b)).add ((hF (x - b) v1).comp_sub_const x b)

/-- derivative of a mixed second difference along the second in-plane variable -/
theorem d2_hasDerivAt_v {F F' : ℝ → ℝ → ℝ} (hF : ∀ u v, HasDerivAt (fun t => F u t) (F' u v) v)
    (c u1 u2 y : ℝ) :
    HasDerivAt (fun t => d2 F u1 u2 (t - c) (t + c)) (d2 F' u1 u2 (y - c) (y + c)) y := by
  unfold d2
  exact ((((hF u2 (y + c)).comp_add_const y c).sub ((hF u2 (y - c)).comp_sub_const y c)).sub
    ((hF u1 (y + c)).comp_add_const y c)).add ((hF u1 (y - c)).comp_sub_const y c)

/-- derivative of a mixed second difference along the normal offset -/
theorem d2_hasDerivAt_w {F F' : ℝ → ℝ → ℝ → ℝ} (s z : ℝ)
    (hF : ∀ u v, HasDerivAt (fun t => F t u v) (F' (z - s) u v) (z - s)) (u1 u2 v1 v2 : ℝ) :
    HasDerivAt (fun t => d2 (F (t - s)) u1 u2 v1 v2) (d2 (F' (z - s)) u1 u2 v1 v2) z := by
  unfold d2
  exact ((((hF u2 v2).comp_sub_const z s).sub ((hF u2 v1).comp_sub_const z s)).sub
    ((hF u1 v2).comp_sub_const z s)).add ((hF u1 v1).comp_sub_const z s)

/-- the three face integrals `∫∫ (q − q')/|q − q'|³` over the rectangle `|x'| ≤ b`, `|y'| ≤ c`,
`z' = s` in closed form (field of a unit surface charge, times 4π), observer `q` off the plane -/
noncomputable def rectE (b c s : ℝ) (q : V3 ℝ) : V3 ℝ :=
  ⟨d2 (FLm (q.z - s)) (q.x - b) (q.x + b) (q.y - c) (q.y + c),
   d2 (FLm' (q.z - s)) (q.x - b) (q.x + b) (q.y - c) (q.y + c),
   d2 (FN (q.z - s)) (q.x - b) (q.x + b) (q.y - c) (q.y + c)⟩

/-- its Jacobian -/
noncomputable def rectJac (b c s : ℝ) (q : V3 ℝ) : M3 ℝ :=
  ⟨⟨d2 (Lu (q.z - s)) (q.x - b) (q.x + b) (q.y - c) (q.y + c),
    d2 (Lv (q.z - s)) (q.x - b) (q.x + b) (q.y - c) (q.y + c),
    d2 (Lw (q.z - s)) (q.x - b) (q.x + b) (q.y - c) (q.y + c)⟩,
   ⟨d2 (Mu (q.z - s)) (q.x - b) (q.x + b) (q.y - c) (q.y + c),
    d2 (Mv (q.z - s)) (q.x - b) (q.x + b) (q.y - c) (q.y + c),
    d2 (Mw (q.z - s)) (q.x - b) (q.x + b) (q.y - c) (q.y + c)⟩,
   ⟨d2 (Nu (q.z - s)) (q.x - b) (q.x + b) (q.y - c) (q.y + c),
    d2 (Nv (q.z - s)) (q.x - b) (q.x + b) (q.y - c) (q.y + c),
    d2 (Nw (q.z - s)) (q.x - b) (q.x + b) (q.y - c) (q.y + c)⟩⟩

theorem rectE_hasPartials (b c s : ℝ) (q : V3 ℝ) (hw : q.z - s ≠ 0) :
    HasPartials (rectE b c s) q (rectJac b c s q) := by
  obtain ⟨x, y, z⟩ := q
  simp only at hw
  constructor
  · show HasDerivAt (fun t => d2 (FLm (z - s)) (t - b) (t + b) (y - c) (y + c))
      (d2 (Lu (z - s)) (x - b) (x + b) (y - c) (y + c)) x
    exact d2_hasDerivAt_u (fun u v => hasDerivAt_FLm_u hw u v) b _ _ x
  · show HasDerivAt (fun t => d2 (FLm (z - s)) (x - b) (x + b) (t - c) (t + c))
      (d2 (Lv (z - s)) (x - b) (x + b) (y - c) (y + c)) y
    exact d2_hasDerivAt_v (fun u v => hasDerivAt_FLm_v hw u v) c _ _ y
  · show HasDerivAt (fun t => d2 (FLm (t - s)) (x - b) (x + b) (y - c) (y + c))
      (d2 (Lw (z - s)) (x - b) (x + b) (y - c) (y + c)) z
    exact d2_hasDerivAt_w s z (fun u v => hasDerivAt_FLm_w hw u v) _ _ _ _
  · show HasDerivAt (fun t => d2 (FLm' (z - s)) (t - b) (t + b) (y - c) (y + c))
      (d2 (Mu (z - s)) (x - b) (x + b) (y - c) (y + c)) x
    exact d2_hasDerivAt_u (fun u v => hasDerivAt_FLm'_u hw u v) b _ _ x
  · show HasDerivAt (fun t => d2 (FLm' (z - s)) (x - b) (x + b) (t - c) (t + c))
      (d2 (Mv (z - s)) (x - b) (x + b) (y - c) (y + c)) y
    exact d2_hasDerivAt_v (fun u v => hasDerivAt_FLm'_v hw u v) c _ _ y
  · show HasDerivAt (fun t => d2 (FLm' (t - s)) (x - b) (x + b) (y - c) (y + c))
      (d2 (Mw (z - s)) (x - b) (x + b) (y - c) (y + c)) z
    exact d2_hasDerivAt_w s z (fun u v => hasDerivAt_FLm'_w hw u v) _ _ _ _
  · show HasDerivAt (fun t => d2 (FN (z - s)) (t - b) (t + b) (y - c) (y + c))
      (d2 (Nu (z - s)) (x - b) (x + b) (y - c) (y + c)) x
    exact d2_hasDerivAt_u (fun u v => hasDerivAt_FN_u hw u v) b _ _ x
  · show HasDerivAt (fun t => d2 (FN (z - s)) (x - b) (x + b) (t - c) (t + c))
      (d2 (Nv (z - s)) (x - b) (x + b) (y - c) (y + c)) y
    exact d2_hasDerivAt_v (fun u v => hasDerivAt_FN_v hw u v) c _ _ y
  · show HasDerivAt (fun t => d2 (FN (t - s)) (x - b) (x + b) (y - c) (y + c))
      (d2 (Nw (z - s)) (x - b) (x + b) (y - c) (y + c)) z
    exact d2_hasDerivAt_w s z (fun u v => hasDerivAt_FN_w hw u v) _ _ _ _

/-- **divergence of the rectangle field**: corner by corner the three diagonal derivatives add up to
`u/(u²+w²) + v/(v²+w²)`, a sum of functions of one in-plane variable each, which the mixed second
difference annihilates -/
theorem rectJac_div (b c s : ℝ) (q : V3 ℝ) : jacDiv (rectJac b c s q) = 0 := by
  simp only [jacDiv, rectJac, d2, Lu, Mv, Nw]
  ring

/-- **curl of the rectangle field**: corner by corner the differences of the mixed derivatives are
`−w/(v²+w²)`, `w/(u²+w²)`, `0` -/
theorem rectJac_curl (b c s : ℝ) (q : V3 ℝ) : jacCurl (rectJac b c s q) = ⟨0, 0, 0⟩ := by
  apply V3.ext'
  · simp only [jacCurl, rectJac, d2, Nv, Mw]; ring
  · simp only [jacCurl, rectJac, d2, Lw, Nu]; ring
  · simp only [jacCurl, rectJac, d2, Mu, Lv]; ring

/-! ### Part 3: bookkeeping for Jacobians and for divergence- and curl-free fields -/

/-- sum of two Jacobians -/
def jacAdd (J K : M3 ℝ) : M3 ℝ := ⟨J.r1 + K.r1, J.r2 + K.r2, J.r3 + K.r3⟩

theorem jacDiv_add (J K : M3 ℝ) : jacDiv (jacAdd J K) = jacDiv J + jacDiv K := by
  simp only [jacDiv, jacAdd, V3.add_x, V3.add_y, V3.add_z]; ring

theorem jacCurl_add (J K : M3 ℝ) : jacCurl (jacAdd J K) = jacCurl J + jacCurl K := by
  apply V3.ext' <;> simp only [jacCurl, jacAdd, V3.add_x, V3.add_y, V3.add_z] <;> ring

theorem _root_.MagpyVerif.Kern.HasPartials.add {F G : V3 ℝ → V3 ℝ} {p : V3 ℝ} {J K : M3 ℝ} (hJ : HasPartials F p J)
    (hK : HasPartials G p K) : HasPartials (fun q => F q + G q) p (jacAdd J K) :=
  ⟨hJ.xx.add hK.xx, hJ.xy.add hK.xy, hJ.xz.add hK.xz, hJ.yx.add hK.yx, hJ.yy.add hK.yy, hJ.yz.add hK.yz,
   hJ.zx.add hK.zx, hJ.zy.add hK.zy, hJ.zz.add hK.zz⟩

/-- adding a constant vector does not change the partial derivatives -/
theorem _root_.MagpyVerif.Kern.HasPartials.add_const {F : V3 ℝ → V3 ℝ} {p : V3 ℝ} {J : M3 ℝ} (hJ : HasPartials F p J) (c : V3 ℝ) :
    HasPartials (fun q => F q + c) p J :=
  ⟨hJ.xx.add_const c.x, hJ.xy.add_const c.x, hJ.xz.add_const c.x, hJ.yx.add_const c.y, hJ.yy.add_const c.y,
   hJ.yz.add_const c.y, hJ.zx.add_const c.z, hJ.zy.add_const c.z, hJ.zz.add_const c.z⟩

/-- partial derivatives only see the field near the point, along the three coordinate lines -/
theorem _root_.MagpyVerif.Kern.HasPartials.congr_on {F G : V3 ℝ → V3 ℝ} {p : V3 ℝ} {J : M3 ℝ} {P : V3 ℝ → Prop}
    (hJ : HasPartials G p J) (heq : ∀ q, P q → F q = G q)
    (hx : ∀ᶠ t in 𝓝 p.x, P ⟨t, p.y, p.z⟩) (hy : ∀ᶠ t in 𝓝 p.y, P ⟨p.x, t, p.z⟩)
    (hz : ∀ᶠ t in 𝓝 p.z, P ⟨p.x, p.y, t⟩) : HasPartials F p J :=
  hJ.congr_of_eventuallyEq (hx.mono fun _ ht => heq _ ht) (hy.mono fun _ ht => heq _ ht)
    (hz.mono fun _ ht => heq _ ht)

/-- division by a constant -/
theorem _root_.MagpyVerif.Kern.HasPartials.vd {F : V3 ℝ → V3 ℝ} {p : V3 ℝ} {J : M3 ℝ} (h : HasPartials F p J) (c : ℝ) :
    HasPartials (fun q => vd (F q) c) p (jacScale (1 / c) J) :=
  (h.const_smul (1 / c)).congr_on (P := fun _ => True)
    (fun q _ => by apply V3.ext' <;> simp only [Kern.vd, vs] <;> ring)
    (Eventually.of_forall fun _ => trivial) (Eventually.of_forall fun _ => trivial)
    (Eventually.of_forall fun _ => trivial)

/-- cyclic relabelling of the axes: the local frame `(u, v, w)` is the global `(y, z, x)` -/
def cyc (F : V3 ℝ → V3 ℝ) (q : V3 ℝ) : V3 ℝ := ⟨(F ⟨q.y, q.z, q.x⟩).z, (F ⟨q.y, q.z, q.x⟩).x, (F ⟨q.y, q.z, q.x⟩).y⟩

/-- exchange of the last two axes: the local frame `(u, v, w)` is the global `(x, z, y)` -/
def swp (F : V3 ℝ → V3 ℝ) (q : V3 ℝ) : V3 ℝ := ⟨(F ⟨q.x, q.z, q.y⟩).x, (F ⟨q.x, q.z, q.y⟩).z, (F ⟨q.x, q.z, q.y⟩).y⟩

def jacCyc (J : M3 ℝ) : M3 ℝ := ⟨⟨J.r3.z, J.r3.x, J.r3.y⟩, ⟨J.r1.z, J.r1.x, J.r1.y⟩, ⟨J.r2.z, J.r2.x, J.r2.y⟩⟩
def jacSwp (J : M3 ℝ) : M3 ℝ := ⟨⟨J.r1.x, J.r1.z, J.r1.y⟩, ⟨J.r3.x, J.r3.z, J.r3.y⟩, ⟨J.r2.x, J.r2.z, J.r2.y⟩⟩

theorem _root_.MagpyVerif.Kern.HasPartials.cyc {F : V3 ℝ → V3 ℝ} {p : V3 ℝ} {J : M3 ℝ} (hJ : HasPartials F ⟨p.y, p.z, p.x⟩ J) :
    HasPartials (cyc F) p (jacCyc J) :=
  ⟨hJ.zz, hJ.zx, hJ.zy, hJ.xz, hJ.xx, hJ.xy, hJ.yz, hJ.yx, hJ.yy⟩

theorem _root_.MagpyVerif.Kern.HasPartials.swp {F : V3 ℝ → V3 ℝ} {p : V3 ℝ} {J : M3 ℝ} (hJ : HasPartials F ⟨p.x, p.z, p.y⟩ J) :
    HasPartials (swp F) p (jacSwp J) :=
  ⟨hJ.xx, hJ.xz, hJ.xy, hJ.zx, hJ.zz, hJ.zy, hJ.yx, hJ.yz, hJ.yy⟩

theorem jacDiv_cyc (J : M3 ℝ) : jacDiv (jacCyc J) = jacDiv J := by simp only [jacDiv, jacCyc]; ring
theorem jacDiv_swp (J : M3 ℝ) : jacDiv (jacSwp J) = jacDiv J := by simp only [jacDiv, jacSwp]; ring
theorem jacCurl_cyc (J : M3 ℝ) : jacCurl (jacCyc J) = ⟨(jacCurl J).z, (jacCurl J).x, (jacCurl J).y⟩ := by
  simp only [jacCurl, jacCyc]
theorem jacCurl_swp (J : M3 ℝ) : jacCurl (jacSwp J) = ⟨-(jacCurl J).x, -(jacCurl J).z, -(jacCurl J).y⟩ := by
  apply V3.ext' <;> simp only [jacCurl, jacSwp] <;> ring

/-- all nine partial derivatives exist at `p`, the divergence and the curl vanish -/
def DCFree (F : V3 ℝ → V3 ℝ) (p : V3 ℝ) : Prop :=
  ∃ J : M3 ℝ, HasPartials F p J ∧ jacDiv J = 0 ∧ jacCurl J = ⟨0, 0, 0⟩

theorem DCFree.divFreeAt {F : V3 ℝ → V3 ℝ} {p : V3 ℝ} (h : DCFree F p) : DivFreeAt F p := by
  obtain ⟨J, hJ, hd, _⟩ := h
  exact hJ.divFreeAt hd

theorem DCFree.curlFreeAt {F : V3 ℝ → V3 ℝ} {p : V3 ℝ} (h : DCFree F p) : CurlFreeAt F p := by
  obtain ⟨J, hJ, _, hc⟩ := h
  exact hJ.curlFreeAt hc

theorem DCFree.congr_on {F G : V3 ℝ → V3 ℝ} {p : V3 ℝ} {P : V3 ℝ → Prop} (h : DCFree G p)
    (heq : ∀ q, P q → F q = G q)
    (hx : ∀ᶠ t in 𝓝 p.x, P ⟨t, p.y, p.z⟩) (hy : ∀ᶠ t in 𝓝 p.y, P ⟨p.x, t, p.z⟩)
    (hz : ∀ᶠ t in 𝓝 p.z, P ⟨p.x, p.y, t⟩) : DCFree F p := by
  obtain ⟨J, hJ, hd, hc⟩ := h
  exact ⟨J, hJ.congr_on heq hx hy hz, hd, hc⟩

theorem DCFree.add_const {F : V3 ℝ → V3 ℝ} {p : V3 ℝ} (h : DCFree F p) (c : V3 ℝ) :
    DCFree (fun q => F q + c) p := by
  obtain ⟨J, hJ, hd, hc⟩ := h
  exact ⟨J, hJ.add_const c, hd, hc⟩

theorem jacCurl_scale_zero {c : ℝ} {J : M3 ℝ} (h : jacCurl J = ⟨0, 0, 0⟩) : jacCurl (jacScale c J) = ⟨0, 0, 0⟩ := by
  rw [jacCurl_scale, h]; simp [vs]

/-! ### Part 4: the six faces of the cuboid, `cuboidCoulombB`, `cuboidB` -/

/-- the three components of the face integral over `x' = s` as a vector field -/
noncomputable def faceXf (dim : V3 ℝ) (s : ℝ) : V3 ℝ → V3 ℝ := cyc (rectE (dim.y / 2) (dim.z / 2) s)
/-- the same for the face `y' = s` -/
noncomputable def faceYf (dim : V3 ℝ) (s : ℝ) : V3 ℝ → V3 ℝ := swp (rectE (dim.x / 2) (dim.z / 2) s)
/-- the same for the face `z' = s` -/
noncomputable def faceZf (dim : V3 ℝ) (s : ℝ) : V3 ℝ → V3 ℝ := rectE (dim.x / 2) (dim.y / 2) s

theorem faceXf_eq (dim p : V3 ℝ) (s : ℝ) (hw : p.x - s ≠ 0) :
    faceXf dim s p = ⟨faceX dim s p V3.x, faceX dim s p V3.y, faceX dim s p V3.z⟩ := by
  rw [faceX_x dim p s hw, faceX_y dim p s hw, faceX_z dim p s hw]
  simp only [faceXf, cyc, rectE, d2, FN, FLm, FLm', rr_231]

theorem faceYf_eq (dim p : V3 ℝ) (s : ℝ) (hw : p.y - s ≠ 0) :
    faceYf dim s p = ⟨faceY dim s p V3.x, faceY dim s p V3.y, faceY dim s p V3.z⟩ := by
  have e := d2_FLm'_eq_FLp' hw (p.x - dim.x / 2) (p.x + dim.x / 2) (p.z - dim.z / 2) (p.z + dim.z / 2)
  apply V3.ext'
  · rw [faceY_x dim p s hw]
    simp only [faceYf, swp, rectE, d2, FLm, rr_132]
  · rw [faceY_y dim p s hw]
    simp only [faceYf, swp, rectE, d2, FN, rr_132]
  · rw [faceY_z dim p s hw]
    show d2 (FLm' (p.y - s)) (p.x - dim.x / 2) (p.x + dim.x / 2) (p.z - dim.z / 2) (p.z + dim.z / 2) = _
    rw [e]
    simp only [d2, FLp', rr_132]

theorem faceZf_eq (dim p : V3 ℝ) (s : ℝ) (hw : p.z - s ≠ 0) :
    faceZf dim s p = ⟨faceZ dim s p V3.x, faceZ dim s p V3.y, faceZ dim s p V3.z⟩ := by
  have e := d2_FLm'_eq_FLp' hw (p.x - dim.x / 2) (p.x + dim.x / 2) (p.y - dim.y / 2) (p.y + dim.y / 2)
  apply V3.ext'
  · rw [faceZ_x dim p s hw]
    simp only [faceZf, rectE, d2, FLm, rr_123]
  · rw [faceZ_y dim p s hw]
    show d2 (FLm' (p.z - s)) (p.x - dim.x / 2) (p.x + dim.x / 2) (p.y - dim.y / 2) (p.y + dim.y / 2) = _
    rw [e]
    simp only [d2, FLp', rr_123]
  · rw [faceZ_z dim p s hw]
    simp only [faceZf, rectE, d2, FN, rr_123]

/-- the observer is off the six (infinitely extended) face planes -/
def OffP (dim q : V3 ℝ) : Prop :=
  (q.x - dim.x / 2 ≠ 0 ∧ q.x + dim.x / 2 ≠ 0) ∧ (q.y - dim.y / 2 ≠ 0 ∧ q.y + dim.y / 2 ≠ 0) ∧
    (q.z - dim.z / 2 ≠ 0 ∧ q.z + dim.z / 2 ≠ 0)

theorem offP_of_abs {dim p : V3 ℝ} (hdx : 0 < dim.x) (hdy : 0 < dim.y) (hdz : 0 < dim.z)
    (hx : |p.x| ≠ dim.x / 2) (hy : |p.y| ≠ dim.y / 2) (hz : |p.z| ≠ dim.z / 2) : OffP dim p := by
  have off : ∀ {t a : ℝ}, 0 < a → |t| ≠ a → t - a ≠ 0 ∧ t + a ≠ 0 := by
    intro t a ha h
    constructor
    · intro e; apply h; rw [show t = a by linarith]; exact abs_of_pos ha
    · intro e; apply h; rw [show t = -a by linarith, abs_neg]; exact abs_of_pos ha
  exact ⟨off (half_pos hdx) hx, off (half_pos hdy) hy, off (half_pos hdz) hz⟩

/-- the surface-charge field of the cuboid, written with the closed-form face fields -/
noncomputable def coulombG (dim pol : V3 ℝ) (q : V3 ℝ) : V3 ℝ :=
  vs (1 / (4 * Real.pi))
    (vs pol.x (faceXf dim (dim.x / 2) q) + vs (-pol.x) (faceXf dim (-(dim.x / 2)) q) +
     vs pol.y (faceYf dim (dim.y / 2) q) + vs (-pol.y) (faceYf dim (-(dim.y / 2)) q) +
     vs pol.z (faceZf dim (dim.z / 2) q) + vs (-pol.z) (faceZf dim (-(dim.z / 2)) q))

theorem coulombB_eq_G (dim pol q : V3 ℝ) (h : OffP dim q) : cuboidCoulombB dim pol q = coulombG dim pol q := by
  obtain ⟨⟨hx1, hx2⟩, ⟨hy1, hy2⟩, ⟨hz1, hz2⟩⟩ := h
  have hx2' : q.x - -(dim.x / 2) ≠ 0 := by rwa [sub_neg_eq_add]
  have hy2' : q.y - -(dim.y / 2) ≠ 0 := by rwa [sub_neg_eq_add]
  have hz2' : q.z - -(dim.z / 2) ≠ 0 := by rwa [sub_neg_eq_add]
  rw [coulombG, faceXf_eq dim q _ hx1, faceXf_eq dim q _ hx2', faceYf_eq dim q _ hy1, faceYf_eq dim q _ hy2',
    faceZf_eq dim q _ hz1, faceZf_eq dim q _ hz2']
  apply V3.ext' <;> simp only [cuboidCoulombB, cuboidCoulombComp, vs, V3.add_x, V3.add_y, V3.add_z]

/-- the Jacobian of the Cuboid field off the face planes: six face Jacobians (`rectJac`, relabelled
for the faces normal to x and y), weighted with the surface charges `±J·n` -/
noncomputable def coulombJac (dim pol p : V3 ℝ) : M3 ℝ :=
  jacScale (1 / (4 * Real.pi))
    (jacAdd (jacAdd (jacAdd (jacAdd (jacAdd
      (jacScale pol.x (jacCyc (rectJac (dim.y / 2) (dim.z / 2) (dim.x / 2) ⟨p.y, p.z, p.x⟩)))
      (jacScale (-pol.x) (jacCyc (rectJac (dim.y / 2) (dim.z / 2) (-(dim.x / 2)) ⟨p.y, p.z, p.x⟩))))
      (jacScale pol.y (jacSwp (rectJac (dim.x / 2) (dim.z / 2) (dim.y / 2) ⟨p.x, p.z, p.y⟩))))
      (jacScale (-pol.y) (jacSwp (rectJac (dim.x / 2) (dim.z / 2) (-(dim.y / 2)) ⟨p.x, p.z, p.y⟩))))
      (jacScale pol.z (rectJac (dim.x / 2) (dim.y / 2) (dim.z / 2) p)))
      (jacScale (-pol.z) (rectJac (dim.x / 2) (dim.y / 2) (-(dim.z / 2)) p)))

theorem coulombJac_div (dim pol p : V3 ℝ) : jacDiv (coulombJac dim pol p) = 0 := by
  simp only [coulombJac, jacDiv_scale, jacDiv_add, jacDiv_cyc, jacDiv_swp, rectJac_div]
  ring

theorem coulombJac_curl (dim pol p : V3 ℝ) : jacCurl (coulombJac dim pol p) = ⟨0, 0, 0⟩ := by
  simp only [coulombJac, jacCurl_scale, jacCurl_add, jacCurl_cyc, jacCurl_swp, rectJac_curl]
  apply V3.ext' <;> simp [vs]

theorem coulombG_hasPartials (dim pol p : V3 ℝ) (h : OffP dim p) :
    HasPartials (coulombG dim pol) p (coulombJac dim pol p) := by
  obtain ⟨⟨hx1, hx2⟩, ⟨hy1, hy2⟩, ⟨hz1, hz2⟩⟩ := h
  have hx2' : p.x - -(dim.x / 2) ≠ 0 := by rwa [sub_neg_eq_add]
  have hy2' : p.y - -(dim.y / 2) ≠ 0 := by rwa [sub_neg_eq_add]
  have hz2' : p.z - -(dim.z / 2) ≠ 0 := by rwa [sub_neg_eq_add]
  have X1 : HasPartials (faceXf dim (dim.x / 2)) p _ :=
    HasPartials.cyc (rectE_hasPartials _ _ _ ⟨p.y, p.z, p.x⟩ hx1)
  have X2 : HasPartials (faceXf dim (-(dim.x / 2))) p _ :=
    HasPartials.cyc (rectE_hasPartials _ _ _ ⟨p.y, p.z, p.x⟩ hx2')
  have Y1 : HasPartials (faceYf dim (dim.y / 2)) p _ :=
    HasPartials.swp (rectE_hasPartials _ _ _ ⟨p.x, p.z, p.y⟩ hy1)
  have Y2 : HasPartials (faceYf dim (-(dim.y / 2))) p _ :=
    HasPartials.swp (rectE_hasPartials _ _ _ ⟨p.x, p.z, p.y⟩ hy2')
  have Z1 : HasPartials (faceZf dim (dim.z / 2)) p _ := rectE_hasPartials _ _ _ p hz1
  have Z2 : HasPartials (faceZf dim (-(dim.z / 2))) p _ := rectE_hasPartials _ _ _ p hz2'
  exact ((((((X1.const_smul pol.x).add (X2.const_smul (-pol.x))).add (Y1.const_smul pol.y)).add
    (Y2.const_smul (-pol.y))).add (Z1.const_smul pol.z)).add (Z2.const_smul (-pol.z))).const_smul _

theorem coulombG_dcfree (dim pol p : V3 ℝ) (h : OffP dim p) : DCFree (coulombG dim pol) p :=
  ⟨_, coulombG_hasPartials dim pol p h, coulombJac_div dim pol p, coulombJac_curl dim pol p⟩

/-! the open set off the face planes, along the coordinate lines -/

theorem ev_axis {x a : ℝ} (h1 : x - a ≠ 0) (h2 : x + a ≠ 0) :
    ∀ᶠ t in 𝓝 x, (t - a ≠ 0 ∧ t + a ≠ 0) ∧ (|t| < a ↔ |x| < a) := by
  have hxa : x ≠ a := sub_ne_zero.mp h1
  have hxa' : x ≠ -a := fun e => h2 (by rw [e]; ring)
  have e1 : ∀ᶠ t in 𝓝 x, t ≠ a ∧ (t < a ↔ x < a) := by
    rcases lt_or_gt_of_ne hxa with h | h
    · exact (eventually_lt_nhds h).mono fun t ht => ⟨ht.ne, iff_of_true ht h⟩
    · exact (eventually_gt_nhds h).mono fun t ht =>
        ⟨ht.ne', iff_of_false (not_lt.mpr ht.le) (not_lt.mpr h.le)⟩
  have e2 : ∀ᶠ t in 𝓝 x, t ≠ -a ∧ (-a < t ↔ -a < x) := by
    rcases lt_or_gt_of_ne hxa' with h | h
    · exact (eventually_lt_nhds h).mono fun t ht =>
        ⟨ht.ne, iff_of_false (not_lt.mpr ht.le) (not_lt.mpr h.le)⟩
    · exact (eventually_gt_nhds h).mono fun t ht => ⟨ht.ne', iff_of_true ht h⟩
  filter_upwards [e1, e2] with t ⟨n1, i1⟩ ⟨n2, i2⟩
  refine ⟨⟨sub_ne_zero.mpr n1, fun e => n2 (by linarith)⟩, ?_⟩
  rw [abs_lt, abs_lt, i1, i2]

/-- `q` is off the face planes and on the same side of the surface as `p` -/
def Good (dim p q : V3 ℝ) : Prop := OffP dim q ∧ (insideP dim q ↔ insideP dim p)

theorem good_ev_x {dim p : V3 ℝ} (h : OffP dim p) : ∀ᶠ t in 𝓝 p.x, Good dim p ⟨t, p.y, p.z⟩ :=
  (ev_axis h.1.1 h.1.2).mono fun t ht => ⟨⟨ht.1, h.2.1, h.2.2⟩, by simp only [insideP, ht.2]⟩
theorem good_ev_y {dim p : V3 ℝ} (h : OffP dim p) : ∀ᶠ t in 𝓝 p.y, Good dim p ⟨p.x, t, p.z⟩ :=
  (ev_axis h.2.1.1 h.2.1.2).mono fun t ht => ⟨⟨h.1, ht.1, h.2.2⟩, by simp only [insideP, ht.2]⟩
theorem good_ev_z {dim p : V3 ℝ} (h : OffP dim p) : ∀ᶠ t in 𝓝 p.z, Good dim p ⟨p.x, p.y, t⟩ :=
  (ev_axis h.2.2.1 h.2.2.2).mono fun t ht => ⟨⟨h.1, h.2.1, ht.1⟩, by simp only [insideP, ht.2]⟩

/-- a field that agrees with a divergence- and curl-free one at all points off the face planes on
the same side of the surface as `p` is divergence- and curl-free at `p` -/
theorem DCFree.congr_good {F G : V3 ℝ → V3 ℝ} {dim p : V3 ℝ} (h : DCFree G p) (hp : OffP dim p)
    (heq : ∀ q, Good dim p q → F q = G q) : DCFree F p :=
  h.congr_on heq (good_ev_x hp) (good_ev_y hp) (good_ev_z hp)

theorem _root_.MagpyVerif.Kern.HasPartials.congr_good {F G : V3 ℝ → V3 ℝ} {dim p : V3 ℝ} {J : M3 ℝ} (h : HasPartials G p J)
    (hp : OffP dim p) (heq : ∀ q, Good dim p q → F q = G q) : HasPartials F p J :=
  h.congr_on heq (good_ev_x hp) (good_ev_y hp) (good_ev_z hp)

/-- the surface-charge integral (= μ₀H) is divergence- and curl-free off the face planes -/
theorem cuboidCoulombB_dcfree (dim pol p : V3 ℝ) (h : OffP dim p) : DCFree (cuboidCoulombB dim pol) p :=
  (coulombG_dcfree dim pol p h).congr_good h fun q hq => coulombB_eq_G dim pol q hq.1

/-- the closed form `cuboidB` near `p`: the smooth surface-charge field plus a constant -/
theorem cuboidB_eq_G_add (dim pol p q : V3 ℝ) (hdx : 0 < dim.x) (hdy : 0 < dim.y) (hdz : 0 < dim.z)
    (hq : Good dim p q) :
    cuboidB dim pol q = coulombG dim pol q + (if insideP dim p then pol else ⟨0, 0, 0⟩) := by
  obtain ⟨hoff, hin⟩ := hq
  rw [cuboidB_eq_coulomb dim pol q hdx hdy hdz hoff.1.1 hoff.1.2 hoff.2.1.1 hoff.2.1.2 hoff.2.2.1 hoff.2.2.2,
    coulombB_eq_G dim pol q hoff]
  by_cases hi : insideP dim p
  · rw [if_pos hi, if_pos (hin.mpr hi)]
  · rw [if_neg hi, if_neg (fun h => hi (hin.mp h))]

/-- **the nine partial derivatives of the Cuboid closed form** off the face planes (inside and
outside: the arctan2 branch corrections and the interior term are locally constant there) -/
theorem cuboidB_hasPartials (dim pol p : V3 ℝ) (hdx : 0 < dim.x) (hdy : 0 < dim.y) (hdz : 0 < dim.z)
    (h : OffP dim p) : HasPartials (cuboidB dim pol) p (coulombJac dim pol p) :=
  ((coulombG_hasPartials dim pol p h).add_const (if insideP dim p then pol else ⟨0, 0, 0⟩)).congr_good h
    fun q hq => cuboidB_eq_G_add dim pol p q hdx hdy hdz hq

/-- **the Cuboid closed form is divergence- and curl-free off the face planes** -/
theorem cuboidB_dcfree (dim pol p : V3 ℝ) (hdx : 0 < dim.x) (hdy : 0 < dim.y) (hdz : 0 < dim.z)
    (h : OffP dim p) : DCFree (cuboidB dim pol) p :=
  ⟨_, cuboidB_hasPartials dim pol p hdx hdy hdz h, coulombJac_div dim pol p, coulombJac_curl dim pol p⟩

/-- H = (B − J·1_inside)/μ₀ of the Cuboid closed form -/
noncomputable def cuboidHfield (dim pol q : V3 ℝ) : V3 ℝ :=
  vd (cuboidB dim pol q - (if insideP dim q then pol else ⟨0, 0, 0⟩)) mu0R

theorem cuboidHfield_eq (dim pol q : V3 ℝ) (hdx : 0 < dim.x) (hdy : 0 < dim.y) (hdz : 0 < dim.z)
    (hoff : OffP dim q) : cuboidHfield dim pol q = vd (coulombG dim pol q) mu0R := by
  rw [cuboidHfield, cuboidB_eq_G_add dim pol q q hdx hdy hdz ⟨hoff, Iff.rfl⟩]
  apply V3.ext' <;> simp only [vd, V3.add_x, V3.add_y, V3.add_z, V3.sub_x, V3.sub_y, V3.sub_z] <;> ring

theorem cuboidHfield_hasPartials (dim pol p : V3 ℝ) (hdx : 0 < dim.x) (hdy : 0 < dim.y) (hdz : 0 < dim.z)
    (h : OffP dim p) : HasPartials (cuboidHfield dim pol) p (jacScale (1 / mu0R) (coulombJac dim pol p)) :=
  ((coulombG_hasPartials dim pol p h).vd mu0R).congr_good h
    fun q hq => cuboidHfield_eq dim pol q hdx hdy hdz hq.1

theorem DCFree.vd {F : V3 ℝ → V3 ℝ} {p : V3 ℝ} (h : DCFree F p) (c : ℝ) : DCFree (fun q => vd (F q) c) p := by
  obtain ⟨J, hJ, hd, hc⟩ := h
  exact ⟨_, hJ.vd c, by rw [jacDiv_scale, hd, mul_zero], jacCurl_scale_zero hc⟩

theorem cuboidHfield_dcfree (dim pol p : V3 ℝ) (hdx : 0 < dim.x) (hdy : 0 < dim.y) (hdz : 0 < dim.z)
    (h : OffP dim p) : DCFree (cuboidHfield dim pol) p :=
  ⟨_, cuboidHfield_hasPartials dim pol p hdx hdy hdz h,
    by rw [jacDiv_scale, coulombJac_div, mul_zero], jacCurl_scale_zero (coulombJac_curl dim pol p)⟩

/-! ### the wrapper's surface shells -/

/-- strictly outside the three shells `| |q_i| − dim_i/2 | ≤ 1e-15·dim_i/2` of `BHJM_magnet_cuboid` -/
def ShellOut (dim q : V3 ℝ) : Prop :=
  rtol * (dim.x / 2) < |(|q.x| - dim.x / 2)| ∧ rtol * (dim.y / 2) < |(|q.y| - dim.y / 2)| ∧
    rtol * (dim.z / 2) < |(|q.z| - dim.z / 2)|

theorem ev_shell {x a c : ℝ} (h : c < |(|x| - a)|) : ∀ᶠ t in 𝓝 x, c < |(|t| - a)| :=
  (show Continuous fun t : ℝ => |(|t| - a)| by fun_prop).continuousAt.eventually (eventually_gt_nhds h)

theorem ShellOut.offP {dim q : V3 ℝ} (hdx : 0 < dim.x) (hdy : 0 < dim.y) (hdz : 0 < dim.z)
    (h : ShellOut dim q) : OffP dim q :=
  offP_of_abs hdx hdy hdz (shell_clear (half_pos hdx) h.1.le).2.2 (shell_clear (half_pos hdy) h.2.1.le).2.2
    (shell_clear (half_pos hdz) h.2.2.le).2.2

/-- strictly outside the shells, off the face planes, same side as `p` — along the coordinate lines -/
def GoodS (dim p q : V3 ℝ) : Prop := ShellOut dim q ∧ Good dim p q

theorem DCFree.congr_goodS {F G : V3 ℝ → V3 ℝ} {dim p : V3 ℝ} (h : DCFree G p) (hp : OffP dim p)
    (hs : ShellOut dim p) (heq : ∀ q, GoodS dim p q → F q = G q) : DCFree F p :=
  h.congr_on heq
    ((ev_shell hs.1).and (good_ev_x hp) |>.mono fun _ ht => ⟨⟨ht.1, hs.2.1, hs.2.2⟩, ht.2⟩)
    ((ev_shell hs.2.1).and (good_ev_y hp) |>.mono fun _ ht => ⟨⟨hs.1, ht.1, hs.2.2⟩, ht.2⟩)
    ((ev_shell hs.2.2).and (good_ev_z hp) |>.mono fun _ ht => ⟨⟨hs.1, hs.2.1, ht.1⟩, ht.2⟩)

end MagpyVerif.CuboidDiv
