/-
Lemmas/CylinderBatchScale.lean — unit invariance of the batched Cylinder model (Model/CylinderBatch.lean): the three quotients by
`r0` and the azimuth of a row are the same numbers at every length scale, nothing else of the lengths is used, and the sizes of the
sub-batches `cel` is called on (hence the routine `cel` dispatches to) do not depend on the scale.
-/
import MagpyVerif.Lemmas.CylinderBatch
import MagpyVerif.Lemmas.KernCylinder

namespace MagpyVerif.Kern
/-- all lengths of a row times `l` -/
noncomputable def cylRowScale (l : ℝ) (row : CylRow ℝ) : CylRow ℝ := ⟨l * row.d, l * row.h, row.pol, vs l row.x⟩

theorem cylRowObs_scale (l : ℝ) (hl : 0 < l) (row : CylRow ℝ) : cylRowObs (cylRowScale l row) = cylRowObs row := by
  have hl' : l ≠ 0 := hl.ne'
  have e1 : ∀ a : ℝ, l * a / 2 = l * (a / 2) := fun a => by ring
  simp only [cylRowObs, cylRowScale, vs, sqrt_real, atan2_real, n, ofNat_real, Nat.cast_ofNat, sqrt2_scale l hl,
    arg_pos_smul l hl, e1, mul_div_mul_left _ _ hl']

theorem bhjmCylinderRowWith_scale (Ftv Fax : CelArg ℝ → Option ℝ) (l : ℝ) (hl : 0 < l) (fuel : ℕ) (f : Field) (row : CylRow ℝ) :
    bhjmCylinderRowWith Ftv Fax fuel f (cylRowScale l row) = bhjmCylinderRowWith Ftv Fax fuel f row := by
  have ho := cylRowObs_scale l hl row
  have hp : (cylRowScale l row).pol = row.pol := rfl
  have h3 : cylTvUpd (cylRowScale l row) = cylTvUpd row := rfl
  have h4 : cylAxUpd (cylRowScale l row) = cylAxUpd row := rfl
  cases f <;> simp only [bhjmCylinderRowWith, cylJ, cylRowMasks, cylMaskTv, cylMaskAx, cylMaskGen, cylB0, cylTvObs, cylPost,
    ho, hp, h3, h4] <;> rfl

theorem cylMasks_scale (l : ℝ) (hl : 0 < l) (row : CylRow ℝ) :
    cylMaskAx (cylRowScale l row) = cylMaskAx row ∧ cylMaskTv (cylRowScale l row) = cylMaskTv row ∧
      cylTvObs (cylRowScale l row) = cylTvObs row := by
  have ho := cylRowObs_scale l hl row
  have hp : (cylRowScale l row).pol = row.pol := rfl
  refine ⟨?_, ?_, ?_⟩ <;> simp only [cylMaskAx, cylMaskTv, cylMaskGen, cylRowMasks, cylTvObs, ho, hp]

theorem cylCounts_scale (l : ℝ) (hl : 0 < l) (rows : List (CylRow ℝ)) :
    cylTvGenCount (rows.map (cylRowScale l)) = cylTvGenCount rows ∧ cylAxCount (rows.map (cylRowScale l)) = cylAxCount rows := by
  induction rows with
  | nil => exact ⟨rfl, rfl⟩
  | cons a t ih =>
    obtain ⟨h1, h2, h3⟩ := cylMasks_scale l hl a
    unfold cylTvGenCount cylAxCount at ih ⊢
    simp only [List.map_cons, List.filter_cons, h1, h2]
    constructor
    · cases cylMaskTv a
      · simpa using ih.1
      · simp only [if_true, List.map_cons, List.filter_cons, h3]
        cases (!cylSmallR (cylTvObs a)) <;> simp [ih.1]
    · cases cylMaskAx a <;> simp [ih.2]

/-- `BHJM_magnet_cylinder` on a batch with the dispatcher `cel`, row by row (Props/C06 `cylinder_batch_rowwise`) -/
theorem bhjmCylinderBatch_celDispatch_rowwise {α : Type} [Num α] (fuel : ℕ) (f : Field) (rows : List (CylRow α)) :
    bhjmCylinderBatch (celDispatch fuel) fuel f rows =
      seqOpt (rows.map (bhjmCylinderRowWith (celPath fuel (cylTvGenCount rows)) (celPath fuel (cylAxCount rows)) fuel f)) :=
  bhjmCylinderBatch_rowwise (celDispatch fuel) _ _ fuel f rows
    (fun b hb => by rw [celDispatch_rowwise, hb]) (fun b hb => by rw [celDispatch_rowwise, hb])

theorem bhjmCylinderBatch_scale (l : ℝ) (hl : 0 < l) (fuel : ℕ) (f : Field) (rows : List (CylRow ℝ)) :
    bhjmCylinderBatch (celDispatch fuel) fuel f (rows.map (cylRowScale l)) =
      bhjmCylinderBatch (celDispatch fuel) fuel f rows := by
  rw [bhjmCylinderBatch_celDispatch_rowwise, bhjmCylinderBatch_celDispatch_rowwise, (cylCounts_scale l hl rows).1,
    (cylCounts_scale l hl rows).2, List.map_map]
  apply seqOpt_congr
  intro row _
  exact bhjmCylinderRowWith_scale _ _ l hl fuel f row

end MagpyVerif.Kern
