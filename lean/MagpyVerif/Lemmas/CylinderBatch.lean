/-
Lemmas/CylinderBatch.lean — the batched Cylinder model (Model/CylinderBatch.lean) row by row.
  * generic: `zipOpt` / `maskedUpdate` of row-wise computations are row-wise (`seqOpt` of a map)
  * `cylAxialBBatch`, `cylDiametralHBatch`, `bhjmCylinderBatch` with a `cel` that is row-wise on the sub-batches the call forms
  * `celDispatch` is row-wise on every carrier with the routine `celPath fuel n` chosen by the length of the batch
  * the `…With` row functions at `cel0Arg fuel` are the one-row model of Model/Cylinder.lean
All of it is carrier-independent (`Float` included) except the last section (exact arithmetic: `celv1 = cel0Arg` off the band).
-/
import MagpyVerif.Model.CylinderBatch
import MagpyVerif.Lemmas.Celv

namespace MagpyVerif.Kern

/-! ### generic -/

/-- both present -/
def optPair {A B : Type} (a : Option A) (b : Option B) : Option (A × B) :=
  match a with
  | none => none
  | some a =>
    match b with
    | none => none
    | some b => some (a, b)

@[simp] theorem optPair_none {A B : Type} (b : Option B) : optPair (none : Option A) b = none := rfl
@[simp] theorem optPair_some_none {A B : Type} (a : A) : optPair (some a) (none : Option B) = none := rfl
@[simp] theorem optPair_some_some {A B : Type} (a : A) (b : B) : optPair (some a) (some b) = some (a, b) := rfl

theorem seqOpt_cons_none {β : Type} (l : List (Option β)) : seqOpt (none :: l) = none := rfl
theorem seqOpt_cons_some {β : Type} (a : β) (l : List (Option β)) :
    seqOpt (some a :: l) = (seqOpt l).map (a :: ·) := by
  simp only [seqOpt]
  cases seqOpt l <;> rfl

theorem zipOpt_seqOpt {ρ A B : Type} (f : ρ → Option A) (g : ρ → Option B) : ∀ l : List ρ,
    zipOpt (seqOpt (l.map f)) (seqOpt (l.map g)) = seqOpt (l.map fun x => optPair (f x) (g x))
  | [] => rfl
  | a :: t => by
    have ih := zipOpt_seqOpt f g t
    simp only [List.map_cons]
    cases hfa : f a <;> cases hga : g a <;>
      simp only [seqOpt_cons_none, seqOpt_cons_some, optPair_none, optPair_some_none, optPair_some_some, ← ih] <;>
      cases seqOpt (t.map f) <;> cases seqOpt (t.map g) <;> rfl

set_option linter.unnecessarySeqFocus false in
theorem seqOpt_map_map {ρ A B : Type} (f : ρ → Option A) (h : A → B) : ∀ l : List ρ,
    (seqOpt (l.map f)).map (List.map h) = seqOpt (l.map fun x => (f x).map h)
  | [] => rfl
  | a :: t => by
    have ih := seqOpt_map_map f h t
    simp only [List.map_cons]
    cases hfa : f a <;>
      simp only [seqOpt_cons_none, seqOpt_cons_some, Option.map_none, Option.map_some, ← ih] <;>
      cases seqOpt (t.map f) <;> rfl

theorem seqOpt_eq_none_iff_mem {β : Type} (l : List (Option β)) : seqOpt l = none ↔ none ∈ l := by
  constructor
  · intro h
    by_contra hc
    have : (seqOpt l).isSome := (seqOpt_isSome_iff l).mpr (fun o ho => by
      cases o with
      | none => exact absurd ho hc
      | some _ => rfl)
    rw [h] at this
    cases this
  · exact seqOpt_eq_none_of_mem l

theorem seqOpt_congr {ρ A : Type} {f g : ρ → Option A} {l : List ρ} (h : ∀ x ∈ l, f x = g x) :
    seqOpt (l.map f) = seqOpt (l.map g) := by
  rw [List.map_congr_left h]

/-- `a[mask] = upd(a[mask], vals)` with `vals` computed row by row from the masked rows: row by row -/
theorem seqOpt_maskedUpdate {ρ β γ : Type} (m : ρ → Bool) (upd : ρ → β → γ → β) (g : ρ → Option β) (h : ρ → Option γ) :
    ∀ l : List ρ,
    (seqOpt (l.map fun x => (g x).map (Prod.mk x))).bind (fun st =>
      (seqOpt ((l.filter m).map h)).map (maskedUpdate m upd st)) =
    seqOpt (l.map fun x =>
      (g x).bind fun b => if m x then (h x).map (fun v => (x, upd x b v)) else some (x, b))
  | [] => rfl
  | a :: t => by
    have ih := seqOpt_maskedUpdate m upd g h t
    simp only [List.map_cons, List.filter_cons]
    cases hga : g a <;> cases hma : m a <;> cases hha : h a <;>
      simp only [seqOpt_cons_none, seqOpt_cons_some, Option.map_none, Option.map_some, if_true, if_false,
        Bool.false_eq_true, List.map_cons, hha, Option.bind_none, Option.bind_some, ← ih] <;>
      cases seqOpt (t.map fun x => (g x).map (Prod.mk x)) <;> cases seqOpt ((t.filter m).map h) <;>
      simp [maskedUpdate, hma]

/-- the same on a state that is a plain array -/
theorem seqOpt_maskedUpdate_total {ρ β γ : Type} (m : ρ → Bool) (upd : ρ → β → γ → β) (g : ρ → β) (h : ρ → Option γ)
    (l : List ρ) :
    (seqOpt ((l.filter m).map h)).map (maskedUpdate m upd (l.map fun x => (x, g x))) =
    seqOpt (l.map fun x => if m x then (h x).map (fun v => (x, upd x (g x) v)) else some (x, g x)) := by
  have := seqOpt_maskedUpdate m upd (fun x => some (g x)) h l
  simp only [Option.map_some, Option.bind_some] at this
  have e : (l.map fun x => some (x, g x)) = (l.map fun x => (x, g x)).map some := by
    rw [List.map_map]; rfl
  rw [e, seqOpt_map_some, Option.bind_some] at this
  exact this

/-- the guard `if any(mask)` around a masked update changes nothing -/
theorem any_guard {ρ β γ : Type} (m : ρ → Bool) (upd : ρ → β → γ → β) (l : List ρ) (st : List (ρ × β))
    (E : Option (List γ)) (hE : l.filter m = [] → E = some []) (hst : st.map Prod.fst = l) :
    (if l.any m then E.map (maskedUpdate m upd st) else some st) = E.map (maskedUpdate m upd st) := by
  split_ifs with hany
  · rfl
  · have hall : ∀ x ∈ l, m x = false := by
      intro x hx
      by_contra hc
      exact hany (List.any_eq_true.mpr ⟨x, hx, by simpa using hc⟩)
    have hf : l.filter m = [] := by
      rw [List.filter_eq_nil_iff]
      intro x hx
      simp [hall x hx]
    rw [hE hf]
    simp only [Option.map_some]
    congr 1
    subst hst
    clear hf hE hany
    induction st with
    | nil => rfl
    | cons e t ih =>
      have h1 : m e.1 = false := hall e.1 (by simp)
      have h2 := ih (fun x hx => hall x (by simp only [List.map_cons, List.mem_cons]; exact Or.inr hx))
      simp [maskedUpdate, h1, ← h2]

section generic
variable {α : Type} [Num α]
open Num

/-! ### the dispatcher `cel` is row-wise, with the routine chosen by the length of the batch -/

/-- every carrier: `cel` on a batch of `n` entries is, entry by entry, `cel0` for `n < 10` and one entry of `celv` otherwise -/
theorem celDispatch_rowwise (fuel : ℕ) (batch : List (CelArg α)) :
    celDispatch fuel batch = seqOpt (batch.map (celPath fuel batch.length)) := by
  unfold celDispatch celPath
  split_ifs
  · rfl
  · exact celv_eq_seqOpt_celv1 fuel batch

/-! ### the axial kernel -/

theorem cylAxialBBatch_rowwise (cel : CelFn α) (F : CelArg α → Option α) (rows : List (CylObs α))
    (hcel : ∀ batch : List (CelArg α), batch.length = rows.length → cel batch = seqOpt (batch.map F)) :
    cylAxialBBatch cel rows = seqOpt (rows.map (cylAxialBWith F)) := by
  unfold cylAxialBBatch
  rw [hcel _ (by simp), hcel _ (by simp), hcel _ (by simp), hcel _ (by simp), ← seqOpt_map_some rows]
  simp only [List.map_map]
  rw [zipOpt_seqOpt, zipOpt_seqOpt, zipOpt_seqOpt, zipOpt_seqOpt, seqOpt_map_map]
  apply seqOpt_congr
  intro o _
  simp only [Function.comp, cylAxialBWith]
  cases F (cylAxArgs o).1 <;> cases F (cylAxArgs o).2.1 <;> cases F (cylAxArgs o).2.2.1 <;>
    cases F (cylAxArgs o).2.2.2 <;> rfl

/-! ### the diametral kernel -/

theorem cylDiametralHBatch_rowwise (cel : CelFn α) (F : CelArg α → Option α) (fuel : ℕ) (rows : List (CylObs α))
    (hcel : ∀ batch : List (CelArg α), batch.length = (rows.filter fun o => !cylSmallR o).length →
      cel batch = seqOpt (batch.map F)) :
    cylDiametralHBatch cel fuel rows = seqOpt (rows.map (cylDiametralHWith F fuel)) := by
  unfold cylDiametralHBatch
  simp only
  split_ifs with hemp
  · -- no general rows: every row is a small-r row
    have hall : ∀ o ∈ rows, cylSmallR o = true := by
      intro o ho
      have := List.filter_eq_nil_iff.mp (List.isEmpty_iff.mp hemp) o ho
      simpa using this
    rw [List.map_map, ← seqOpt_map_some (rows.map _), List.map_map]
    apply seqOpt_congr
    intro o ho
    simp [cylDiametralHWith, hall o ho]
  · set gen := rows.filter fun o => !cylSmallR o with hgen
    rw [hcel _ (by simp), hcel _ (by simp), ← seqOpt_map_some gen]
    simp only [List.map_map]
    rw [zipOpt_seqOpt, zipOpt_seqOpt, zipOpt_seqOpt]
    -- the general rows' values, row by row
    set hrow : CylObs α → Option (α × α × α) := fun o =>
      (optPair (optPair (some o) (cylEll4 fuel o)) (optPair ((F ∘ fun o => (cylDiamCelArgs o).1) o)
        ((F ∘ fun o => (cylDiamCelArgs o).2) o))).map fun t => cylDiamGenOf t.1.1 t.1.2 t.2.1 t.2.2 with hhrow
    have hstep := seqOpt_maskedUpdate_total (fun o : CylObs α => !cylSmallR o) (fun _ _ (v : α × α × α) => v)
      (fun o => if cylSmallR o then cylDiametralSmallR o.z0 o.r o.z o.phi else (n 0, n 0, n 0)) hrow rows
    rw [← hgen, hhrow, ← seqOpt_map_map, Option.map_map] at hstep
    -- the model's expression is `hstep`'s left side, mapped to the values
    have hfin := congrArg (fun o : Option (List (CylObs α × (α × α × α))) => o.map (List.map fun e => e.2)) hstep
    simp only at hfin
    rw [seqOpt_map_map, Option.map_map] at hfin
    refine Eq.trans ?_ (Eq.trans hfin ?_)
    · rfl
    · apply seqOpt_congr
      intro o _
      simp only [cylDiametralHWith, Function.comp]
      cases hs : cylSmallR o
      · simp only [Bool.not_false, if_true, Bool.false_eq_true, if_false]
        cases cylEll4 fuel o <;> cases F (cylDiamCelArgs o).1 <;> cases F (cylDiamCelArgs o).2 <;> rfl
      · simp

/-! ### `BHJM_magnet_cylinder` -/

theorem filter_map_filter_length {ρ σ : Type} (m : ρ → Bool) (t : ρ → σ) (q : σ → Bool) (l : List ρ) :
    (((l.filter m).map t).filter q).length = (l.filter fun x => m x && q (t x)).length := by
  induction l with
  | nil => rfl
  | cons a l ih =>
    simp only [List.filter_cons]
    cases m a <;> cases hq : q (t a) <;> simp [hq, ih]

/-- the batch is the row function applied to every row, with `Ftv`, `Fax` what the `cel` calls of the two kernels compute for one
entry of the sub-batches this call forms -/
theorem bhjmCylinderBatch_rowwise (cel : CelFn α) (Ftv Fax : CelArg α → Option α) (fuel : ℕ) (f : Field)
    (rows : List (CylRow α))
    (htv : ∀ batch : List (CelArg α), batch.length = cylTvGenCount rows → cel batch = seqOpt (batch.map Ftv))
    (hax : ∀ batch : List (CelArg α), batch.length = cylAxCount rows → cel batch = seqOpt (batch.map Fax)) :
    bhjmCylinderBatch cel fuel f rows = seqOpt (rows.map (bhjmCylinderRowWith Ftv Fax fuel f)) := by
  have hJ : ∀ g : CylRow α → V3 α, some (rows.map g) = seqOpt (rows.map fun r => some (g r)) := by
    intro g
    rw [← seqOpt_map_some (rows.map g), List.map_map]; rfl
  cases f
  case J => exact hJ _
  case M => exact hJ _
  all_goals
    unfold bhjmCylinderBatch
    simp only
    -- stage 1: transversal
    have hD := cylDiametralHBatch_rowwise cel Ftv fuel ((rows.filter cylMaskTv).map cylTvObs) (fun b hb => htv b (by
      rw [hb]; rfl))
    have hAx := cylAxialBBatch_rowwise cel Fax ((rows.filter cylMaskAx).map cylRowObs) (fun b hb => hax b (by
      rw [hb]; simp [cylAxCount]))
    rw [hD, hAx]
    simp only [List.map_map]
    have g1 := any_guard cylMaskTv cylTvUpd rows (rows.map fun row => (row, cylB0 row))
      (seqOpt ((rows.filter cylMaskTv).map (cylDiametralHWith Ftv fuel ∘ cylTvObs)))
      (by intro h; rw [h]; rfl) (by rw [List.map_map]; exact List.map_id _)
    rw [g1]
    have s1 := seqOpt_maskedUpdate_total cylMaskTv cylTvUpd (fun row => cylB0 row)
      (cylDiametralHWith Ftv fuel ∘ cylTvObs) rows
    rw [s1]
    -- stage 2: axial, on a state that is itself a row-wise computation
    set G1 : CylRow α → Option (V3 α) := fun row =>
      if cylMaskTv row then (cylDiametralHWith Ftv fuel (cylTvObs row)).map (cylTvUpd row (cylB0 row))
      else some (cylB0 row) with hG1
    have e1 : (fun x : CylRow α => if cylMaskTv x = true then
          ((cylDiametralHWith Ftv fuel ∘ cylTvObs) x).map (fun v => (x, cylTvUpd x (cylB0 x) v))
        else some (x, cylB0 x)) = fun x => (G1 x).map (Prod.mk x) := by
      funext x
      simp only [hG1, Function.comp]
      cases cylMaskTv x
      · rfl
      · simp only [if_true]
        cases cylDiametralHWith Ftv fuel (cylTvObs x) <;> rfl
    rw [e1]
    have s2 := seqOpt_maskedUpdate cylMaskAx cylAxUpd G1 (cylAxialBWith Fax ∘ cylRowObs) rows
    cases hst1 : seqOpt (rows.map fun x => (G1 x).map (Prod.mk x)) with
    | none =>
      rw [Option.bind_none]
      symm
      rw [seqOpt_eq_none_iff_mem] at hst1 ⊢
      obtain ⟨x, hx, hnone⟩ := List.mem_map.mp hst1
      refine List.mem_map.mpr ⟨x, hx, ?_⟩
      have hg : G1 x = none := by
        cases hgx : G1 x with
        | none => rfl
        | some v => rw [hgx] at hnone; cases hnone
      simp only [bhjmCylinderRowWith]
      rw [show (if cylMaskTv x = true then (cylDiametralHWith Ftv fuel (cylTvObs x)).map (cylTvUpd x (cylB0 x))
        else some (cylB0 x)) = G1 x from rfl, hg]
    | some st1 =>
      rw [hst1, Option.bind_some] at s2
      rw [Option.bind_some]
      have hfst : st1.map Prod.fst = rows := by
        rw [seqOpt_eq_some_iff] at hst1
        have h4 : ∀ (l : List (CylRow α)) (s : List (CylRow α × V3 α)),
            l.map (fun x => (G1 x).map (Prod.mk x)) = s.map some → s.map Prod.fst = l := by
          intro l
          induction l with
          | nil => intro s hs; cases s <;> simp_all
          | cons a l ih =>
            intro s hs
            cases s with
            | nil => simp at hs
            | cons e s =>
              simp only [List.map_cons, List.cons.injEq] at hs ⊢
              refine ⟨?_, ih s hs.2⟩
              cases hga : G1 a with
              | none => rw [hga] at hs; simp at hs
              | some v =>
                rw [hga] at hs
                simp only [Option.map_some, Option.some.injEq] at hs
                rw [← hs.1]
        exact h4 rows st1 hst1
      have g2 := any_guard cylMaskAx cylAxUpd rows st1
        (seqOpt ((rows.filter cylMaskAx).map (cylAxialBWith Fax ∘ cylRowObs)))
        (by intro h; rw [h]; rfl) hfst
      rw [g2, s2, seqOpt_map_map]
      apply seqOpt_congr
      intro x _
      simp only [bhjmCylinderRowWith, Function.comp]
      rw [show (if cylMaskTv x = true then (cylDiametralHWith Ftv fuel (cylTvObs x)).map (cylTvUpd x (cylB0 x))
        else some (cylB0 x)) = G1 x from rfl]
      cases G1 x with
      | none => rfl
      | some b1 =>
        simp only [Option.bind_some]
        cases cylMaskAx x
        · rfl
        · simp only [if_true]
          cases cylAxialBWith Fax (cylRowObs x) <;> rfl

/-! ### the row functions at `cel0Arg fuel` are the one-row model of Model/Cylinder.lean -/

theorem cylAxialB_eq_with (fuel : ℕ) (o : CylObs α) :
    cylAxialB fuel o.z0 o.r o.z = cylAxialBWith (cel0Arg fuel) o := by
  unfold cylAxialB cylAxialBWith
  simp only [cel0Arg, cylAxArgs, cylAxOf]
  rfl

theorem cylDiametralH_eq_with (fuel : ℕ) (o : CylObs α) :
    cylDiametralH fuel o.z0 o.r o.z o.phi = cylDiametralHWith (cel0Arg fuel) fuel o := by
  unfold cylDiametralH cylDiametralHWith cylSmallR
  split_ifs
  · rfl
  · unfold cylDiametralGeneral cylEll cylEll4
    simp only [cel0Arg, cylDiamCelArgs, cylDiamArgs, cylDiamGenOf]
    generalize cel0 fuel (sqrt (n 1 - -n 4 * o.r / ((o.z + o.z0) * (o.z + o.z0) + (o.r - n 1) * (o.r - n 1)))) (n 1) (n 1)
        (n 1 - -n 4 * o.r / ((o.z + o.z0) * (o.z + o.z0) + (o.r - n 1) * (o.r - n 1))) = c1
    generalize cel0 fuel (sqrt (n 1 - -n 4 * o.r / ((o.z - o.z0) * (o.z - o.z0) + (o.r - n 1) * (o.r - n 1)))) (n 1) (n 1)
        (n 1 - -n 4 * o.r / ((o.z - o.z0) * (o.z - o.z0) + (o.r - n 1) * (o.r - n 1))) = c2
    generalize cel0 fuel (sqrt (n 1 - -n 4 * o.r / ((o.z + o.z0) * (o.z + o.z0) + (o.r - n 1) * (o.r - n 1)))) (n 1) (n 1)
        (n 1) = c3
    generalize cel0 fuel (sqrt (n 1 - -n 4 * o.r / ((o.z - o.z0) * (o.z - o.z0) + (o.r - n 1) * (o.r - n 1)))) (n 1) (n 1)
        (n 1) = c4
    generalize cel0 fuel (sqrt (n 1 - -n 4 * o.r / ((o.z + o.z0) * (o.z + o.z0) + (o.r - n 1) * (o.r - n 1))))
        (n 1 - if eq0 (o.r - n 1) = true then n 10000000000000000 else -n 4 * o.r / ((o.r - n 1) * (o.r - n 1)))
        (n 1) (n 1) = c5
    generalize cel0 fuel (sqrt (n 1 - -n 4 * o.r / ((o.z - o.z0) * (o.z - o.z0) + (o.r - n 1) * (o.r - n 1))))
        (n 1 - if eq0 (o.r - n 1) = true then n 10000000000000000 else -n 4 * o.r / ((o.r - n 1) * (o.r - n 1)))
        (n 1) (n 1) = c6
    cases c1 <;> cases c2 <;> cases c3 <;> cases c4 <;> cases c5 <;> cases c6 <;> rfl

set_option linter.unusedSimpArgs false in
/-- `bhjmCylinder` (Model/Cylinder.lean, the `cylinder` rows of the kern stream) is the row function of the batch model with `cel0`
for both kernels -/
theorem bhjmCylinder_eq_with (fuel : ℕ) (f : Field) (row : CylRow α) :
    bhjmCylinder fuel f (row.d, row.h) row.pol row.x = bhjmCylinderRowWith (cel0Arg fuel) (cel0Arg fuel) fuel f row := by
  unfold bhjmCylinder bhjmCylinderRow bhjmCylinderRowWith
  have hd := cylDiametralH_eq_with fuel (cylTvObs row)
  have ha := cylAxialB_eq_with fuel (cylRowObs row)
  simp only [cylTvObs, cylRowObs] at hd ha
  cases f <;>
    simp only [hd, ha, cylJ, cylRowMasks, cylRowObs, cylMaskTv, cylMaskAx, cylMaskGen, cylB0, cylTvUpd, cylAxUpd, cylPost,
      cylTvObs] <;> rfl

end generic


/-! ### which `cel` entries a row contributes, and congruence of the row function in the scalar routines -/

section args
variable {α : Type} [Num α]

/-- the entries a row contributes to the two `cel` calls of the diametral kernel (rows of `mask_pol_tv` that are not small-r) -/
def cylRowTvArgs (row : CylRow α) : List (CelArg α) :=
  if cylMaskTv row && !cylSmallR (cylTvObs row) then
    [(cylDiamCelArgs (cylTvObs row)).1, (cylDiamCelArgs (cylTvObs row)).2]
  else []

/-- the entries a row contributes to the four `cel` calls of the axial kernel (rows of `mask_pol_ax`) -/
def cylRowAxArgs (row : CylRow α) : List (CelArg α) :=
  if cylMaskAx row then
    [(cylAxArgs (cylRowObs row)).1, (cylAxArgs (cylRowObs row)).2.1, (cylAxArgs (cylRowObs row)).2.2.1,
      (cylAxArgs (cylRowObs row)).2.2.2]
  else []

theorem bhjmCylinderRowWith_congr {Ftv Fax Gtv Gax : CelArg α → Option α} (fuel : ℕ) (f : Field) (row : CylRow α)
    (htv : ∀ a ∈ cylRowTvArgs row, Ftv a = Gtv a) (hax : ∀ a ∈ cylRowAxArgs row, Fax a = Gax a) :
    bhjmCylinderRowWith Ftv Fax fuel f row = bhjmCylinderRowWith Gtv Gax fuel f row := by
  have h1 : (if cylMaskTv row then (cylDiametralHWith Ftv fuel (cylTvObs row)).map (cylTvUpd row (cylB0 row))
        else some (cylB0 row)) =
      (if cylMaskTv row then (cylDiametralHWith Gtv fuel (cylTvObs row)).map (cylTvUpd row (cylB0 row))
        else some (cylB0 row)) := by
    cases hm : cylMaskTv row
    · rfl
    · simp only [if_true]
      unfold cylDiametralHWith
      cases hs : cylSmallR (cylTvObs row)
      · have e1 := htv (cylDiamCelArgs (cylTvObs row)).1 (by simp [cylRowTvArgs, hm, hs])
        have e2 := htv (cylDiamCelArgs (cylTvObs row)).2 (by simp [cylRowTvArgs, hm, hs])
        simp only [e1, e2]
      · rfl
  have h2 : ∀ b1 : V3 α, (if cylMaskAx row then (cylAxialBWith Fax (cylRowObs row)).map (cylAxUpd row b1) else some b1) =
      (if cylMaskAx row then (cylAxialBWith Gax (cylRowObs row)).map (cylAxUpd row b1) else some b1) := by
    intro b1
    cases hm : cylMaskAx row
    · rfl
    · simp only [if_true]
      unfold cylAxialBWith
      have e1 := hax (cylAxArgs (cylRowObs row)).1 (by simp [cylRowAxArgs, hm])
      have e2 := hax (cylAxArgs (cylRowObs row)).2.1 (by simp [cylRowAxArgs, hm])
      have e3 := hax (cylAxArgs (cylRowObs row)).2.2.1 (by simp [cylRowAxArgs, hm])
      have e4 := hax (cylAxArgs (cylRowObs row)).2.2.2 (by simp [cylRowAxArgs, hm])
      simp only [e1, e2, e3, e4]
  unfold bhjmCylinderRowWith
  simp only [h1, h2]

end args

/-! ### permuting the rows -/

/-- a row-wise computation on a permuted batch: the (row, value) pairs are permuted -/
theorem seqOpt_map_perm {β γ : Type} (F : β → Option γ) {l1 l2 : List β} (hp : l1.Perm l2) {v1 : List γ}
    (h : seqOpt (l1.map F) = some v1) :
    ∃ v2, seqOpt (l2.map F) = some v2 ∧ (l1.zip v1).Perm (l2.zip v2) := by
  rw [seqOpt_eq_some_iff] at h
  have hs1 := isSome_of_map_eq_map_some _ _ _ h
  have hs2 : ∀ x ∈ l2, (F x).isSome = true := fun x hx => hs1 x (hp.mem_iff.mpr hx)
  have h2 := map_eq_map_some_of_isSome F l2 hs2
  refine ⟨l2.filterMap F, ?_, ?_⟩
  · rw [seqOpt_eq_some_iff]; exact h2
  · rw [zip_of_map_eq_map_some _ _ _ h, zip_of_map_eq_map_some _ _ _ h2]
    exact hp.filterMap _

section counts
variable {α : Type} [Num α]

theorem cylAxCount_perm {l1 l2 : List (CylRow α)} (hp : l1.Perm l2) : cylAxCount l1 = cylAxCount l2 :=
  (hp.filter _).length_eq

theorem cylTvGenCount_perm {l1 l2 : List (CylRow α)} (hp : l1.Perm l2) : cylTvGenCount l1 = cylTvGenCount l2 :=
  (((hp.filter _).map _).filter _).length_eq

theorem cylAxCount_le (rows : List (CylRow α)) : cylAxCount rows ≤ rows.length := List.length_filter_le _ _

theorem cylTvGenCount_le (rows : List (CylRow α)) : cylTvGenCount rows ≤ rows.length := by
  unfold cylTvGenCount
  refine le_trans (List.length_filter_le _ _) ?_
  rw [List.length_map]
  exact List.length_filter_le _ _

end counts

/-! ### exact arithmetic: off the band the two paths of `cel` compute the same number -/

/-- one entry, `kc ≠ 0`, `|1 − |kc|| > 1e-6`, fuel at least the entry's `cel0` bound plus one: the entry's value in `celv` is its
`cel0` value -/
theorem celv1_eq_cel0Arg_off_band (x : CelArg ℝ) (hkc : x.kc ≠ 0) (hband : 1 / 1000000 < |1 - (|x.kc|)|) (fuel : ℕ)
    (hf : celFuel1 |x.kc| (1 / 1000000) + 1 ≤ fuel) : celv1 fuel x = cel0Arg fuel x := by
  obtain ⟨f, rfl⟩ : ∃ f, fuel = f + 1 := ⟨fuel - 1, by omega⟩
  rw [cel0Arg_eq_celv1 f x (prologue_tests_agree_real _) (by simpa using hkc) ((celvCont_init_iff x).mpr hband)]
  have hs : (celv1 f x).isSome := celv1_isSome_mono (by omega) (celv1_isSome_celFuel1 x hkc)
  obtain ⟨v, hv⟩ := Option.isSome_iff_exists.mp hs
  rw [hv]
  unfold celv1 at hv ⊢
  exact celvDo_fuel_mono f 1 _ v hv

theorem celPath_eq_cel0Arg_off_band (x : CelArg ℝ) (hkc : x.kc ≠ 0) (hband : 1 / 1000000 < |1 - (|x.kc|)|) (fuel : ℕ)
    (hf : celFuel1 |x.kc| (1 / 1000000) + 1 ≤ fuel) (n : ℕ) : celPath fuel n x = cel0Arg fuel x := by
  unfold celPath
  split_ifs
  · rfl
  · exact celv1_eq_cel0Arg_off_band x hkc hband fuel hf

/-- in the band (any `p`, `c`, `s`): `cel0` returns the return expression at the initial state, `celv` the same expression one
pass later -/
theorem band_exact (fuel : ℕ) (x : CelArg ℝ) (hkc : x.kc ≠ 0) (hband : |1 - (|x.kc|)| ≤ 1 / 1000000) :
    cel0Arg (fuel + 1) x = some (celvOut (celvInit x)) ∧
    celv1 (fuel + 1) x = some (celvOut (celvStep (celvInit x))) := by
  have hk : 0 < |x.kc| := abs_pos.mpr hkc
  constructor
  · rw [cel0Arg_of_not_cont _ _ (prologue_tests_agree_real _) (by simpa using hkc)]
    rw [← Bool.not_eq_true, celvCont_init_iff]
    linarith
  · have hc : celvCont (celvStep (celvInit x)) = false := by
      rw [← Bool.not_eq_true, celvCont_iff]
      simp only [celvStep_g, celvStep_k, celvInit_em, celvInit_kk, not_lt]
      generalize |x.kc| = k at hk hband ⊢
      obtain ⟨_, _, _, h4⟩ := agm_step one_pos hk
      rw [mul_one] at h4
      have hk2 : 1 - 1 / 1000000 ≤ k := by
        have := (abs_le.mp hband).2
        linarith
      calc |k + 1 - 2 * √k| = |1 + k - 2 * √k| := by rw [add_comm]
        _ ≤ |1 - k| := h4
        _ ≤ 1 / 1000000 := hband
        _ ≤ (k + 1) * (1 / 1000000) := by nlinarith
    unfold celv1
    rw [celvDo]
    simp only [hc, Bool.false_eq_true, if_false]

/-- the two band values of the complete integral of the first kind (`p = c = s = 1`), `π/(1+k)` from `cel0` and `2π/(1+√k)²` from
`celv`: their difference is exactly `(1−k)²/(1+√k)⁴` of the first -/
theorem band_difference_eq (k : ℝ) (hk : 0 < k) :
    Real.pi / (1 + k) - 2 * Real.pi / (1 + √k) ^ 2 = -((1 - k) ^ 2 / (1 + √k) ^ 4) * (Real.pi / (1 + k)) := by
  have ht : 0 < √k := Real.sqrt_pos.2 hk
  have hkt : k = √k * √k := (Real.mul_self_sqrt hk.le).symm
  generalize √k = t at *
  subst hkt
  have h1 : (1 + t * t) ≠ 0 := by positivity
  have h2 : (1 + t) ≠ 0 := by positivity
  field_simp
  ring

/-- hence at most `(1−k)²/15` of it for `|1−k| ≤ 1e-6`, i.e. below 6.7e-14 relative -/
theorem band_difference_le (k : ℝ) (hk : 0 < k) (hband : |1 - k| ≤ 1 / 1000000) :
    |Real.pi / (1 + k) - 2 * Real.pi / (1 + √k) ^ 2| ≤ (1 - k) ^ 2 / 15 * (Real.pi / (1 + k)) ∧
    (1 - k) ^ 2 / 15 * (Real.pi / (1 + k)) ≤ 1 / 15000000000000 * (Real.pi / (1 + k)) := by
  have ht : 0 < √k := Real.sqrt_pos.2 hk
  have hpos : 0 < Real.pi / (1 + k) := by positivity
  have hk2 : 1 - 1 / 1000000 ≤ k := by
    have := (abs_le.mp hband).2
    linarith
  have hsq : (1 - k) ^ 2 ≤ (1 / 1000000) ^ 2 := by
    rw [← sq_abs (1 - k)]
    exact pow_le_pow_left₀ (abs_nonneg _) hband 2
  -- √k ≥ 1 - 1e-6
  have hts : 1 - 1 / 1000000 ≤ √k := by
    apply Real.le_sqrt_of_sq_le
    nlinarith
  have h4 : (15 : ℝ) ≤ (1 + √k) ^ 4 := by
    have h2 : (1.99 : ℝ) ≤ 1 + √k := by linarith
    calc (15 : ℝ) ≤ 1.99 ^ 4 := by norm_num
      _ ≤ (1 + √k) ^ 4 := pow_le_pow_left₀ (by norm_num) h2 4
  constructor
  · rw [band_difference_eq k hk, abs_mul, abs_neg, abs_of_pos hpos,
      abs_of_nonneg (div_nonneg (sq_nonneg _) (by positivity))]
    apply mul_le_mul_of_nonneg_right _ hpos.le
    exact div_le_div_of_nonneg_left (sq_nonneg _) (by norm_num) h4
  · apply mul_le_mul_of_nonneg_right _ hpos.le
    calc (1 - k) ^ 2 / 15 ≤ (1 / 1000000) ^ 2 / 15 := by gcongr
      _ = 1 / 15000000000000 := by norm_num

/-! ### a concrete row for the non-vacuity examples: unit-radius cylinder of height 2, axial polarization, observer at r = 3 r0 -/

noncomputable def exCylRow : CylRow ℝ := ⟨2, 2, ⟨0, 0, 1⟩, ⟨3, 0, 0⟩⟩

theorem exCylRow_obs : cylRowObs exCylRow = ⟨1, 3, 0, Complex.arg ⟨3, 0⟩⟩ := by
  have h9 : √(3 * 3 + 0 * 0 : ℝ) = 3 := by
    rw [show (3 * 3 + 0 * 0 : ℝ) = 3 ^ 2 by norm_num, Real.sqrt_sq (by norm_num)]
  simp only [cylRowObs, exCylRow, Kern.n, ofNat_real, sqrt_real, atan2_real, h9]
  norm_num

theorem exCylRow_tv : cylRowTvArgs exCylRow = [] := by
  simp [cylRowTvArgs, cylMaskTv, exCylRow]

theorem exCylRow_ax : ∀ a ∈ cylRowAxArgs exCylRow, a.kc = √(5 / 17) := by
  intro a ha
  unfold cylRowAxArgs at ha
  split_ifs at ha
  · simp only [cylAxArgs, exCylRow_obs, Kern.n, ofNat_real, sqrt_real, List.mem_cons, List.not_mem_nil, or_false] at ha
    have e : ((0 + 1) * (0 + 1) + ((1:ℕ) - 3 : ℝ) * ((1:ℕ) - 3)) / ((0 + 1) * (0 + 1) + ((1:ℕ) + 3 : ℝ) * ((1:ℕ) + 3)) = 5 / 17 := by
      norm_num
    have e' : ((0 - 1) * (0 - 1) + ((1:ℕ) - 3 : ℝ) * ((1:ℕ) - 3)) / ((0 - 1) * (0 - 1) + ((1:ℕ) + 3 : ℝ) * ((1:ℕ) + 3)) = 5 / 17 := by
      norm_num
    rcases ha with rfl | rfl | rfl | rfl <;> simp only [e, e']
  · cases ha

/-- the hypotheses of `cylinder_batch_rowwise_off_band` hold for any number of copies of the row, with this fuel -/
theorem exCylRow_off_band (fuel : ℕ) (hf : celFuel1 (√(5 / 17)) (1 / 1000000) + 1 ≤ fuel) (k : ℕ) :
    ∀ row ∈ List.replicate k exCylRow, ∀ a ∈ cylRowTvArgs row ++ cylRowAxArgs row,
      a.kc ≠ 0 ∧ 1 / 1000000 < |1 - (|a.kc|)| ∧ celFuel1 |a.kc| (1 / 1000000) + 1 ≤ fuel := by
  intro row hrow a ha
  rw [List.eq_of_mem_replicate hrow, exCylRow_tv, List.nil_append] at ha
  have hk := exCylRow_ax a ha
  have hpos : 0 < √(5 / 17 : ℝ) := Real.sqrt_pos.2 (by norm_num)
  have hle : √(5 / 17 : ℝ) ≤ 6 / 10 := by
    rw [Real.sqrt_le_iff]; constructor <;> norm_num
  rw [hk, abs_of_pos hpos]
  refine ⟨hpos.ne', ?_, hf⟩
  rw [abs_of_pos (by linarith)]
  linarith

end MagpyVerif.Kern
