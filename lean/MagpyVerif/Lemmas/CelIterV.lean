/-
Lemmas/CelIterV.lean — `cel_iterv` (special_cel.py; `Kern.celIterV`): how many passes an entry gets.

    while np.any(np.fabs(g - qc) >= qc * 1e-8):   <body on ALL entries>

  * any carrier: a returned batch value is the return expression after `N` passes for EVERY entry, `N` the first pass count at which
    all entries meet the exit test (`celIterV_some_spec`); the scalar loop stops an entry at ITS first exit (`celIterRow_of_first_exit`)
  * exact arithmetic, rows with the structure the loop maintains (`em = g + qc`, `kk = qc·g`, as the Circle kernel builds them): an entry
    that meets the exit test keeps meeting it (`CelInv.exit_step`), hence `N` is the LARGEST of the entries' own pass counts and is attained
  * the return expression is invariant under a pass at the fixed point `2√kk = em` of the iteration (`celRowOut_step_fixed`)
-/
import MagpyVerif.Lemmas.CelAGM

namespace MagpyVerif.Kern

section generic
variable {α : Type} [Num α]

theorem iterate_map_step (j : ℕ) (rows : List (CelRow α)) :
    (rows.map celRowStep).map (celRowStep^[j]) = rows.map (celRowStep^[j + 1]) := by
  rw [List.map_map]
  apply List.map_congr_left
  intro s _
  simp [Function.iterate_succ_apply]

/-- a value returned by the batch loop: every entry has been stepped `N` times, where `N` is the first pass count at which no entry
meets the `while` condition -/
theorem celIterV_some_spec (fuel : ℕ) : ∀ (rows : List (CelRow α)) (vs : List α),
    celIterV fuel rows = some vs →
    ∃ N, N < fuel ∧ (∀ j, j < N → ∃ s ∈ rows, celRowCont (celRowStep^[j] s) = true) ∧
      (∀ s ∈ rows, celRowCont (celRowStep^[N] s) = false) ∧
      vs = rows.map fun s => celRowOut (celRowStep^[N] s) := by
  induction fuel with
  | zero => intro rows vs h; simp [celIterV] at h
  | succ n ih =>
    intro rows vs h
    rw [celIterV] at h
    split_ifs at h with hany
    · obtain ⟨N, hN, hall, hex, hv⟩ := ih _ _ h
      refine ⟨N + 1, by omega, ?_, ?_, ?_⟩
      · intro j hj
        cases j with
        | zero =>
          obtain ⟨s, hs, hc⟩ := List.any_eq_true.mp hany
          exact ⟨s, hs, by simpa using hc⟩
        | succ j =>
          obtain ⟨s', hs', hc⟩ := hall j (by omega)
          obtain ⟨s, hs, rfl⟩ := List.mem_map.mp hs'
          exact ⟨s, hs, by rw [Function.iterate_succ_apply]; exact hc⟩
      · intro s hs
        rw [Function.iterate_succ_apply]
        exact hex _ (List.mem_map.mpr ⟨s, hs, rfl⟩)
      · rw [hv, List.map_map]
        apply List.map_congr_left
        intro s _
        simp [Function.iterate_succ_apply]
    · refine ⟨0, by omega, fun j hj => by omega, ?_, ?_⟩
      · intro s hs
        have := List.any_eq_false.mp (by simpa using hany) s hs
        simpa using this
      · simpa using (Option.some.inj h).symm

/-- the scalar loop returns the return expression at the entry's first exit -/
theorem celIterRow_of_first_exit (m : ℕ) : ∀ (fuel : ℕ) (s : CelRow α), m < fuel →
    (∀ j, j < m → celRowCont (celRowStep^[j] s) = true) → celRowCont (celRowStep^[m] s) = false →
    celIterRow fuel s = some (celRowOut (celRowStep^[m] s)) := by
  induction m with
  | zero =>
    intro fuel s hf _ hex
    obtain ⟨f, rfl⟩ : ∃ f, fuel = f + 1 := ⟨fuel - 1, by omega⟩
    rw [celIterRow_succ]
    simp only [Function.iterate_zero, id] at hex ⊢
    simp [hex]
  | succ m ih =>
    intro fuel s hf hall hex
    obtain ⟨f, rfl⟩ : ∃ f, fuel = f + 1 := ⟨fuel - 1, by omega⟩
    rw [celIterRow_succ]
    have h0 : celRowCont s = true := by simpa using hall 0 (by omega)
    rw [if_pos h0, Function.iterate_succ_apply]
    apply ih f _ (by omega)
    · intro j hj
      have := hall (j + 1) (by omega)
      rwa [Function.iterate_succ_apply] at this
    · rwa [Function.iterate_succ_apply] at hex

end generic

/-! ### exact arithmetic -/

/-- the structure the loop body establishes and keeps (`CelInv` with the gap it has) -/
def CelShape (s : CelRow ℝ) : Prop := 0 < s.g ∧ 0 < s.qc ∧ s.em = s.g + s.qc ∧ s.kk = s.qc * s.g

theorem CelShape.inv {s : CelRow ℝ} (h : CelShape s) : CelInv (|s.g - s.qc| / min s.g s.qc) s := by
  obtain ⟨hg, hq, hem, hkk⟩ := h
  refine ⟨hg, hq, hem, hkk, ?_⟩
  rw [div_mul_cancel₀ _ (lt_min hg hq).ne']

theorem CelShape.step {s : CelRow ℝ} (h : CelShape s) : CelShape (celRowStep s) := by
  obtain ⟨h1, h2, h3, h4, _⟩ := h.inv.step
  exact ⟨h1, h2, h3, h4⟩

theorem CelShape.iterate {s : CelRow ℝ} (h : CelShape s) (m : ℕ) : CelShape (celRowStep^[m] s) := by
  induction m with
  | zero => exact h
  | succ m ih => rw [Function.iterate_succ_apply']; exact ih.step

/-- an entry that meets the exit test meets it after one more pass -/
theorem CelShape.exit_step {s : CelRow ℝ} (h : CelShape s) (hex : celRowCont s = false) :
    celRowCont (celRowStep s) = false := by
  apply h.inv.step.exit
  rw [celRowCont_eq_false_iff] at hex
  obtain ⟨hg, hq, _, _⟩ := h
  have hmin : 0 < min s.g s.qc := lt_min hg hq
  have hlow : s.qc * (1 - 1 / 100000000) < min s.g s.qc := by
    rw [lt_min_iff]
    constructor
    · have := (abs_lt.mp hex).1
      nlinarith
    · nlinarith
  rw [div_div, div_lt_iff₀ (by positivity)]
  nlinarith

theorem CelShape.exit_stable {s : CelRow ℝ} (h : CelShape s) {m : ℕ} (hex : celRowCont (celRowStep^[m] s) = false) :
    ∀ m', m ≤ m' → celRowCont (celRowStep^[m'] s) = false := by
  intro m' hm
  obtain ⟨k, rfl⟩ := Nat.exists_eq_add_of_le hm
  induction k with
  | zero => exact hex
  | succ k ih =>
    rw [← Nat.add_assoc, Function.iterate_succ_apply']
    exact (h.iterate (m + k)).exit_step (ih (by omega))

/-- **`cel_iterv` row by row**: on rows of the loop's shape, a returned batch value is, for EVERY entry, the return expression after
`N` passes; each entry alone (`cel_iter0`) would stop after its own `Nₛ ≤ N` passes; and `N` is attained — it is the pass count of the
slowest entry -/
theorem celIterV_passes (fuel : ℕ) (rows : List (CelRow ℝ)) (hshape : ∀ s ∈ rows, CelShape s) (vs : List ℝ)
    (h : celIterV fuel rows = some vs) :
    ∃ N, N < fuel ∧ vs = rows.map (fun s => celRowOut (celRowStep^[N] s)) ∧
      (∀ s ∈ rows, ∃ Ns, Ns ≤ N ∧ celIterRow fuel s = some (celRowOut (celRowStep^[Ns] s))) ∧
      (rows ≠ [] → ∃ s ∈ rows, celIterRow fuel s = some (celRowOut (celRowStep^[N] s))) := by
  classical
  obtain ⟨N, hN, hall, hex, hv⟩ := celIterV_some_spec fuel rows vs h
  refine ⟨N, hN, hv, ?_, ?_⟩
  · intro s hs
    have hexs : ∃ m, celRowCont (celRowStep^[m] s) = false := ⟨N, hex s hs⟩
    refine ⟨Nat.find hexs, Nat.find_min' hexs (hex s hs), ?_⟩
    apply celIterRow_of_first_exit _ fuel s (lt_of_le_of_lt (Nat.find_min' hexs (hex s hs)) hN)
    · intro j hj
      have := Nat.find_min hexs hj
      simpa using this
    · exact Nat.find_spec hexs
  · intro hne
    cases N with
    | zero =>
      obtain ⟨s, hs⟩ := List.exists_mem_of_ne_nil rows hne
      refine ⟨s, hs, ?_⟩
      exact celIterRow_of_first_exit 0 fuel s hN (fun j hj => by omega) (hex s hs)
    | succ N =>
      obtain ⟨s, hs, hc⟩ := hall N (by omega)
      refine ⟨s, hs, ?_⟩
      apply celIterRow_of_first_exit (N + 1) fuel s hN _ (hex s hs)
      intro j hj
      by_contra hcj
      have hcj' : celRowCont (celRowStep^[j] s) = false := by simpa using hcj
      have := (hshape s hs).exit_stable hcj' N (by omega)
      rw [this] at hc
      cases hc

theorem fixed_alg (a p c t : ℝ) (ha : a ≠ 0) (hp : p ≠ 0) (hap : a + p ≠ 0) :
    Real.pi / 2 * (2 * (t + c * (a * a / p)) + (c + t / p) * (a + a)) / ((a + a) * (a + a + (p + a * a / p))) =
      Real.pi / 2 * (t + c * a) / (a * (a + p)) := by
  have hn : 2 * (t + c * (a * a / p)) + (c + t / p) * (a + a) = 2 * (t + c * a) * (a + p) / p := by
    field_simp; ring
  have hd : (a + a) * (a + a + (p + a * a / p)) = 2 * a * (a + p) ^ 2 / p := by
    field_simp; ring
  rw [hn, hd]
  field_simp

/-- at the fixed point of the iteration (`2√kk = em`, where the exit test is met with gap 0 after the next pass) a pass does not
change the return expression -/
theorem celRowOut_step_fixed (s : CelRow ℝ) (hfix : 2 * √s.kk = s.em) (hp : s.p ≠ 0) (hemp : s.em + s.p ≠ 0) :
    celRowOut (celRowStep s) = celRowOut s := by
  rw [celRowOut_eq, celRowOut_eq]
  simp only [celRowStep_em, celRowStep_p, hfix]
  have hcc : (celRowStep s).cc = s.cc + s.ss / s.p := rfl
  have hss : (celRowStep s).ss = 2 * (s.ss + s.cc * (s.em * s.em / s.p)) := by
    simp [celRowStep, Kern.n, hfix]
  rw [hcc, hss]
  by_cases hem : s.em = 0
  · simp [hem]
  · exact fixed_alg s.em s.p s.cc s.ss hem hp hemp

end MagpyVerif.Kern
