/-
Lemmas/StyleEffective.lean — the second update of `get_style` (`_match_properties=False, _replace_None_only=True`) on a
well-formed object, leaf by leaf, and the flat default dictionary `get_style` builds from the tree of `magpylib.defaults`.
  * `compatKids`: a nested dictionary never puts a dict where the class has a plain property,
  * `update_nested_dict(shaped, compatible, same_keys_only, replace_None_only)` is shaped again (`updLoop_shaped_tt`),
  * the leaf it has at a plain property: the old value if that is not None, else the value of the argument (if any),
  * the loop of `update` then sends every leaf through its validator (`setAllS_shaped`, `read_normKids`).
-/
import MagpyVerif.Lemmas.StyleUpdate
import MagpyVerif.Lemmas.StyleResolve
import MagpyVerif.Model.StyleEffective
import MagpyVerif.Model.StyleTree

namespace MagpyVerif.StyleState
open MagpyVerif.StyleNested

/-! ### dictionaries compatible with a class -/

mutual
/-- no dict where the class has a plain property (anything else is ignored by `same_keys_only` / `replace_None_only`) -/
def compatVal : Schema → Tree → Bool
  | .leaf _, .leaf _ => true
  | .leaf _, .node _ => false
  | .alias _, _ => true
  | .obj ps _ _ _ _, .node m => compatKids ps m
  | .obj _ _ _ _ _, .leaf _ => true
def compatKids : List (Key × Schema) → Dict → Bool
  | _, [] => true
  | ps, (k, v) :: r => (match lookup k ps with | some s => compatVal s v | none => true) && compatKids ps r
end

theorem compatKids_cons (ps : List (Key × Schema)) (k : Key) (v : Tree) (r : Dict) :
    compatKids ps ((k, v) :: r) = ((match lookup k ps with | some s => compatVal s v | none => true) && compatKids ps r) := by
  rw [compatKids]

/-- a key of a well-formed tree is a non-alias property and its value is well formed for it -/
theorem wfKids_lookup_rev (P : Nat → Option Val → Bool) (ps : List (Key × Schema)) (kids : Dict) (hw : wfKids P ps kids = true)
    (hnd : nodupK ps = true) (k : Key) (v : Tree) (h : lookup k kids = some v) :
    ∃ s, lookup k ps = some s ∧ s.isAlias = false ∧ wfVal P s v = true := by
  obtain ⟨s, h1, h2, h3, _⟩ := wfKids_mem_facts P ps kids hw hnd k v (mem_of_lookup h)
  exact ⟨s, h1, h2, h3⟩

mutual
theorem updVal_shaped_tt : ∀ (v : Tree) (s : Schema) (cv : Tree), okSchema s = true → compatVal s v = true →
    wfVal anyLeaf s cv = true → ∀ r, updVal true true (some cv) v = some r → wfVal anyLeaf s r = true
  | .leaf x, s, cv, _, _, hc, r, hr => by
    cases s with
    | alias t => rw [wfVal] at hc; cases hc
    | leaf vid =>
      cases cv with
      | node kv => rw [wfVal] at hc; cases hc
      | leaf y =>
        cases y with
        | none =>
          simp [updVal, isNoneOrMissing] at hr
          subst hr
          rw [wfVal]; rfl
        | some n => simp [updVal, isNoneOrMissing] at hr
    | obj ps a b c d =>
      obtain ⟨ck, rfl, _⟩ := wfVal_obj_elim hc
      simp [updVal, isNoneOrMissing] at hr
  | .node mk, s, cv, hok, hf, hc, r, hr => by
    cases s with
    | leaf vid => rw [compatVal] at hf; cases hf
    | alias t => rw [wfVal] at hc; cases hc
    | obj ps a b c d =>
      rw [compatVal] at hf
      obtain ⟨ck, rfl, hck⟩ := wfVal_obj_elim hc
      rw [updVal_node] at hr
      simp [updDict] at hr
      subst hr
      rw [okSchema] at hok
      simp only [Bool.and_eq_true] at hok
      rw [wfVal]
      exact updLoop_shaped_tt mk ps ck hok.1.1 hok.1.2 hf hck
theorem updLoop_shaped_tt : ∀ (m : Dict) (ps : List (Key × Schema)) (acc : Dict), okProps ps = true → nodupK ps = true →
    compatKids ps m = true → wfKids anyLeaf ps acc = true → wfKids anyLeaf ps (updLoop true true acc m) = true
  | [], ps, acc, _, _, _, h => by rw [updLoop_nil]; exact h
  | (k, v) :: r, ps, acc, hok, hnd, hf, h => by
    rw [compatKids_cons] at hf
    simp only [Bool.and_eq_true] at hf
    rw [updLoop_cons]
    cases hl : lookup k acc with
    | none =>
      have : updVal true true none v = none := by
        cases v with
        | leaf x => simp [updVal]
        | node kv => simp [updVal]
      rw [this]
      exact updLoop_shaped_tt r ps acc hok hnd hf.2 h
    | some cv =>
      obtain ⟨s, hs1, hs2, hs3⟩ := wfKids_lookup_rev anyLeaf ps acc h hnd k cv hl
      rw [hs1] at hf
      cases hu : updVal true true (some cv) v with
      | none => exact updLoop_shaped_tt r ps acc hok hnd hf.2 h
      | some r' =>
        have hr' := updVal_shaped_tt v s cv (okProps_lookup hok hs1) hf.1 hs3 r' hu
        exact updLoop_shaped_tt r ps _ hok hnd hf.2 (wfKids_setKey anyLeaf k s r' hr' ps acc h hs1)
end


/-! ### the second update of `get_style`, leaf by leaf -/

/-- **`style.update(**kwargs, _match_properties=False, _replace_None_only=True)` accepted, on a well-formed object, with a
compatible argument**: every plain property now holds its validator's image of the leaf `update_nested_dict(as_dict(),
arg, same_keys_only=True, replace_None_only=True)` has there (ALL leaves are re-assigned, also the ones that keep their
value) -/
theorem updateObj_fill_read (T : Tables) (ps : List (Key × Schema)) (os : List Str) (cur : Dict) (kwargs : Dict) (m : Dict)
    (hm : updArg none kwargs = .ok m) (hcompat : compatKids ps m = true)
    (hok : okProps ps = true) (hok2 : okProps2 ps = true) (hnd : nodupK ps = true) (hw : wfKids (fixB T) ps cur = true)
    (hacc : (updateObj T ps os cur none kwargs false true).2 = .ok ()) (q : List Key) (vid : Nat) (hq : leafVid ps q = some vid) :
    ∃ x x', getPath (.node (updLoop true true cur m)) q = some (.leaf x) ∧ runV T vid (.leaf x) = .ok x' ∧
      readPath ps (updateObj T ps os cur none kwargs false true).1 q = .ok (.leaf x') := by
  have hsh := wfKids_shaped (fixB T) ps cur hw
  have hnds := updLoop_shaped_tt m ps cur hok hnd hcompat hsh
  have hsa := setAllS_shaped T ps os ps [] cur (updLoop true true cur m) (fun _ _ h => h) hnd (fun _ _ => rfl) hnds hsh
  rw [updateObj_eq, hm] at hacc ⊢
  simp only [Bool.not_false] at hacc ⊢
  simp only [List.nil_append] at hsa
  cases hn : normKids T ps (updLoop true true cur m) with
  | error e =>
    rw [hn] at hsa
    simp only [] at hsa hacc
    rcases hs : setAllS T ps os cur (updLoop true true cur m) with ⟨c, r⟩
    rw [hs] at hsa hacc
    simp only [] at hsa
    subst hsa
    simp only [] at hacc
    cases hacc
  | ok out =>
    rw [hn] at hsa
    simp only [] at hsa
    rw [hsa]
    simp only []
    obtain ⟨x, x', g1, g2, g3⟩ := read_normKids T q ps _ out vid hok hok2 hnds hn hq
    exact ⟨x, x', g1, g2, g3⟩

/-- the second update is accepted as soon as every validator accepts the leaf it is handed -/
theorem updateObj_result_wf (T : Tables) (hT : idemB T = true) (ps : List (Key × Schema)) (hok : okProps ps = true) (os : List Str)
    (cur : Dict) (kwargs : Dict) (mt rno : Bool) (hw : wfKids (fixB T) ps cur = true) :
    wfKids (fixB T) ps (updateObj T ps os cur none kwargs mt rno).1 = true :=
  updateObj_wf T hT ps hok os cur none kwargs mt rno hw

/-! ### the flat default dictionary -/

theorem lookup_filter_nodup {α : Type} (f : Key × α → Bool) (key : Key) : ∀ (l : List (Key × α)), nodupK l = true →
    lookup key (l.filter f) = match lookup key l with | some v => if f (key, v) then some v else none | none => none := by
  intro l
  induction l with
  | nil => intro _; rfl
  | cons hd t ih =>
    obtain ⟨k, v⟩ := hd
    intro hnd
    rw [nodupK_cons] at hnd
    simp only [Bool.and_eq_true, Option.isNone_iff_eq_none] at hnd
    by_cases hk : k = key
    · subst hk
      simp only [lookup_cons, if_true]
      cases hf : f (k, v) with
      | true => simp [List.filter_cons, hf, lookup_cons]
      | false =>
        have : List.filter f ((k, v) :: t) = List.filter f t := by simp [List.filter_cons, hf]
        rw [this, ih hnd.2, hnd.1]
        simp
    · simp only [lookup_cons, hk, if_false]
      cases hf : f (k, v) with
      | true =>
        have : List.filter f ((k, v) :: t) = (k, v) :: List.filter f t := by simp [List.filter_cons, hf]
        rw [this]
        simp only [lookup_cons, hk, if_false]; exact ih hnd.2
      | false =>
        have : List.filter f ((k, v) :: t) = List.filter f t := by simp [List.filter_cons, hf]
        rw [this]; exact ih hnd.2

theorem nodupK_filter {α : Type} (f : Key × α → Bool) : ∀ (l : List (Key × α)), nodupK l = true → nodupK (l.filter f) = true := by
  intro l
  induction l with
  | nil => intro h; exact h
  | cons hd t ih =>
    obtain ⟨k, v⟩ := hd
    intro hnd
    rw [nodupK_cons] at hnd
    simp only [Bool.and_eq_true, Option.isNone_iff_eq_none] at hnd
    cases hf : f (k, v) with
    | true =>
      have : List.filter f ((k, v) :: t) = (k, v) :: List.filter f t := by simp [List.filter_cons, hf]
      rw [this, nodupK_cons]
      simp only [Bool.and_eq_true, Option.isNone_iff_eq_none]
      refine ⟨?_, ih hnd.2⟩
      rw [lookup_filter_nodup f k t hnd.2, hnd.1]
    | false =>
      have : List.filter f ((k, v) :: t) = List.filter f t := by simp [List.filter_cons, hf]
      rw [this]; exact ih hnd.2

end MagpyVerif.StyleState

namespace MagpyVerif.StyleEffective
open MagpyVerif.StyleNested MagpyVerif.StyleState MagpyVerif.Style

theorem nodupK_flatDict (sub : Dict) : nodupK (flatDict sub) = true := nodupK_linLoop ['_'] sub [] rfl

/-- the family's value for a flat key: what `as_dict(flatten=True)` of `default_style.<fam>` has there (None for a
missing key, a missing family) -/
def famLeaf (sps : List (Key × Schema)) (sty : Dict) (fam : Str) (key : Key) : Option Val :=
  match famFlat sps sty fam with
  | some fd => (lookup key fd).join
  | none => none

/-- `base_style_flat.update({k: v for k, v in family_dict.items() if v is not None})`, key by key -/
theorem lookup_merge_nonNone (acc fd : FlatD) (hfd : nodupK fd = true) (key : Key) :
    (lookup key (mergeDict acc (nonNone fd))).join = match (lookup key fd).join with | some x => some x | none => (lookup key acc).join := by
  unfold nonNone
  rw [lookup_mergeDict_nodup key _ acc (nodupK_filter _ fd hfd), lookup_filter_nodup _ key fd hfd]
  cases lookup key fd with
  | none => rfl
  | some v => cases v <;> rfl

theorem nodupK_mergeFams (sps : List (Key × Schema)) (sty : Dict) : ∀ (fams : List Str) (acc : FlatD), nodupK acc = true →
    nodupK (mergeFams sps sty acc fams) = true := by
  intro fams
  induction fams with
  | nil => intro acc h; exact h
  | cons f t ih =>
    intro acc h
    unfold mergeFams
    cases famFlat sps sty f with
    | none => exact ih acc h
    | some fd => exact ih _ (nodupK_mergeDict _ acc h)

/-- **the loop over the families**: a flat key resolves to the first non-None of the families' values, LAST family first,
then the value the dictionary had before the loop -/
theorem lookup_mergeFams (sps : List (Key × Schema)) (sty : Dict) (key : Key) : ∀ (fams : List Str) (acc : FlatD),
    (lookup key (mergeFams sps sty acc fams)).join =
      firstSome ((fams.reverse.map (fun f => famLeaf sps sty f key)) ++ [(lookup key acc).join]) := by
  intro fams
  induction fams with
  | nil => intro acc; simp only [mergeFams, List.reverse_nil, List.map_nil, List.nil_append]; cases (lookup key acc).join <;> rfl
  | cons f t ih =>
    intro acc
    have hfs : ∀ (pre : List (Option Val)) (a b : Option Val),
        firstSome (pre ++ [match a with | some x => some x | none => b]) = firstSome (pre ++ [a] ++ [b]) := by
      intro pre a b
      induction pre with
      | nil => cases a <;> cases b <;> rfl
      | cons p ps ihp => cases p with
        | none => simpa [firstSome] using ihp
        | some v => simp [firstSome]
    simp only [List.reverse_cons, List.map_append, List.map_cons, List.map_nil]
    unfold mergeFams
    cases hf : famFlat sps sty f with
    | none =>
      rw [ih acc]
      have : famLeaf sps sty f key = none := by unfold famLeaf; rw [hf]
      rw [this, ← hfs]
    | some fd =>
      have hnd : nodupK fd = true := by
        unfold famFlat at hf
        split at hf
        · injection hf with hf; subst hf; exact nodupK_flatDict _
        · cases hf
      rw [ih, lookup_merge_nonNone acc fd hnd key]
      have : famLeaf sps sty f key = (lookup key fd).join := by unfold famLeaf; rw [hf]
      rw [this, hfs]


/-! ### sub-objects of a well-formed tree -/

theorem subAt_wf (P : Nat → Option Val → Bool) : ∀ (p : List Key) (ps : List (Key × Schema)) (cur : Dict) (ps' : List (Key × Schema)),
    wfKids P ps cur = true → propsAt ps p = some ps' →
    ∃ sub, subAt ps cur p = some (ps', sub) ∧ wfKids P ps' sub = true ∧
      (∀ rest, getPath (.node cur) (p ++ rest) = getPath (.node sub) rest) ∧
      (∀ rest, readPath ps cur (p ++ rest) = readPath ps' sub rest) ∧
      (∀ rest, leafVid ps (p ++ rest) = leafVid ps' rest) := by
  intro p
  induction p with
  | nil =>
    intro ps cur ps' hw hp
    simp only [propsAt, Option.some.injEq] at hp
    subst hp
    exact ⟨cur, rfl, hw, fun _ => rfl, fun _ => rfl, fun _ => rfl⟩
  | cons k p' ih =>
    intro ps cur ps' hw hp
    unfold propsAt at hp
    split at hp
    · rename_i ps1 a b c d hl
      obtain ⟨v, hv1, hv2⟩ := wfKids_lookup P k (.obj ps1 a b c d) rfl ps cur hw hl
      obtain ⟨sub1, rfl, hsub1⟩ := wfVal_obj_elim hv2
      obtain ⟨sub, g1, g2, g3, g4, g5⟩ := ih ps1 sub1 ps' hsub1 hp
      refine ⟨sub, ?_, g2, ?_, ?_, ?_⟩
      · simp only [subAt, hl, hv1]; exact g1
      · intro rest
        rw [List.cons_append, getPath_node_cons, hv1]
        exact g3 rest
      · intro rest
        simp only [List.cons_append, readPath, hl, hv1]
        exact g4 rest
      · intro rest
        have h5 := g5 rest
        rw [List.cons_append]
        cases hpr : p' ++ rest with
        | nil =>
          rw [hpr] at h5
          rw [← h5]
          simp [leafVid, hl]
        | cons a0 b0 =>
          rw [hpr] at h5
          rw [← h5]
          simp [leafVid, hl]
    · cases hp

/-- a non-dict value in a well-formed tree sits at a plain property -/
theorem leafVid_of_getPath_leaf (P : Nat → Option Val → Bool) : ∀ (p : List Key) (ps : List (Key × Schema)) (cur : Dict) (y : Option Val),
    okProps ps = true → nodupK ps = true → wfKids P ps cur = true → getPath (.node cur) p = some (.leaf y) →
    ∃ vid, leafVid ps p = some vid
  | [], ps, cur, y, _, _, _, h => by simp [getPath_nil] at h
  | [k], ps, cur, y, _, hnd, hw, h => by
    rw [getPath_node_cons] at h
    cases hl : lookup k cur with
    | none => rw [hl] at h; cases h
    | some c =>
      rw [hl] at h
      simp only [getPath_nil, Option.some.injEq] at h
      subst h
      obtain ⟨s, hs1, _, hs3⟩ := wfKids_lookup_rev P ps cur hw hnd k _ hl
      cases s with
      | leaf vid => exact ⟨vid, by simp [leafVid, hs1]⟩
      | alias t => rw [wfVal] at hs3; cases hs3
      | obj a b c d e => rw [wfVal] at hs3; cases hs3
  | k :: k2 :: ks, ps, cur, y, hok, hnd, hw, h => by
    rw [getPath_node_cons] at h
    cases hl : lookup k cur with
    | none => rw [hl] at h; cases h
    | some c =>
      rw [hl] at h
      obtain ⟨s, hs1, _, hs3⟩ := wfKids_lookup_rev P ps cur hw hnd k _ hl
      cases c with
      | leaf v => simp only [getPath_leaf_cons] at h; cases h
      | node sub =>
        simp only [] at h
        cases s with
        | leaf vid => rw [wfVal] at hs3; cases hs3
        | alias t => rw [wfVal] at hs3; cases hs3
        | obj ps1 b c d e =>
          rw [wfVal] at hs3
          have hs := okProps_lookup hok hs1
          rw [okSchema] at hs
          simp only [Bool.and_eq_true] at hs
          obtain ⟨vid, hv⟩ := leafVid_of_getPath_leaf P (k2 :: ks) ps1 sub y hs.1.1 hs.1.2 hs3 h
          exact ⟨vid, by simp only [leafVid, hs1]; exact hv⟩

/-! ### `as_dict(flatten=True, separator="_")` of a sub-object, key by key -/

theorem flatDict_lookup (sub : Dict) (hg : goodKids '_' sub = true) (q : List Str) (hne : q ≠ []) (hsf : ∀ w ∈ q, '_' ∉ w) :
    (lookup (.str (joinWith '_' q)) (flatDict sub)).join =
      match getPath (.node sub) (q.map Key.str) with | some (.leaf v) => v | _ => none := by
  have key : ∀ v, lookup (.str (joinWith '_' q)) (flatDict sub) = some v ↔ getPath (.node sub) (q.map Key.str) = some (.leaf v) := by
    intro v
    unfold flatDict
    rw [lookup_linearize '_' sub hg]
    constructor
    · rintro ⟨s, q', hk, hp⟩
      injection hk with hk
      have hsf' := (good_getPath (s :: q') (.node sub) _ (by simpa [Tree.good] using hg) hp).1
      have := joinWith_inj hne (List.cons_ne_nil _ _) hsf hsf' hk
      subst this
      exact hp
    · intro h
      cases q with
      | nil => exact absurd rfl hne
      | cons s q' => exact ⟨s, q', rfl, h⟩
  cases hl : lookup (.str (joinWith '_' q)) (flatDict sub) with
  | some v => rw [(key v).mp hl]; rfl
  | none =>
    cases hgp : getPath (.node sub) (q.map Key.str) with
    | none => rfl
    | some t =>
      cases t with
      | node kv => rfl
      | leaf v => rw [(key v).mpr hgp] at hl; cases hl

/-! ### the leaf paths of a class (for the computed compatibility check of a family's defaults with an object's style) -/

mutual
def leavesS : Schema → List (List Key)
  | .leaf _ => [[]]
  | .alias _ => []
  | .obj ps _ _ _ _ => leavesL ps
def leavesL : List (Key × Schema) → List (List Key)
  | [] => []
  | (k, s) :: r => (leavesS s).map (k :: ·) ++ leavesL r
end

theorem leavesL_cons (k : Key) (s : Schema) (r : List (Key × Schema)) :
    leavesL ((k, s) :: r) = (leavesS s).map (k :: ·) ++ leavesL r := by rw [leavesL]

theorem mem_leavesL_of_lookup {k : Key} {s : Schema} {t : List Key} : ∀ {ps : List (Key × Schema)}, lookup k ps = some s →
    t ∈ leavesS s → k :: t ∈ leavesL ps := by
  intro ps
  induction ps with
  | nil => intro h; simp at h
  | cons hd r ih =>
    obtain ⟨k', s'⟩ := hd
    intro h ht
    rw [leavesL_cons]
    by_cases hk : k' = k
    · simp only [lookup_cons, hk, if_true, Option.some.injEq] at h
      subst h; subst hk
      exact List.mem_append_left _ (List.mem_map.mpr ⟨t, ht, rfl⟩)
    · simp only [lookup_cons, hk, if_false] at h
      exact List.mem_append_right _ (ih h ht)

theorem mem_leavesL : ∀ (p : List Key) (ps : List (Key × Schema)) (vid : Nat), leafVid ps p = some vid → p ∈ leavesL ps
  | [], ps, vid, h => by simp [leafVid] at h
  | [k], ps, vid, h => by
    simp only [leafVid] at h
    split at h
    · rename_i v0 hl
      exact mem_leavesL_of_lookup hl (by rw [leavesS]; simp)
    · cases h
  | k :: k2 :: ks, ps, vid, h => by
    simp only [leafVid] at h
    split at h
    · rename_i ps1 a b c d hl
      exact mem_leavesL_of_lookup hl (by rw [leavesS]; exact mem_leavesL (k2 :: ks) ps1 vid h)
    · cases h

/-- all leaf paths of the default classes of the families (the names that are properties of `DisplayStyle`) -/
def allDefaultLeaves (sps : List (Key × Schema)) (fams : List Str) : List (List Key) :=
  fams.flatMap (fun f => match lookup (.str f) sps with | some s => leavesS s | none => [])

/-- computed per object class: no leaf path of a default class is a proper prefix of a leaf path of another default class
or of the object's style class, and no leaf path of the style class is a proper prefix of a default leaf path -/
def famOK (sps cps : List (Key × Schema)) (fams : List Str) : Bool :=
  let A := allDefaultLeaves sps fams
  A.all (fun a => A.all (fun b => !a.isPrefixOf b || a == b)) &&
  A.all (fun a => (leavesL cps).all (fun q => (!a.isPrefixOf q && !q.isPrefixOf a) || a == q))

theorem famOK_elim {sps cps : List (Key × Schema)} {fams : List Str} (h : famOK sps cps fams = true) :
    (∀ a ∈ allDefaultLeaves sps fams, ∀ b ∈ allDefaultLeaves sps fams, a <+: b → a = b) ∧
    (∀ a ∈ allDefaultLeaves sps fams, ∀ q ∈ leavesL cps, a <+: q ∨ q <+: a → a = q) := by
  unfold famOK at h
  simp only [Bool.and_eq_true, List.all_eq_true, Bool.or_eq_true, Bool.not_eq_true', beq_iff_eq] at h
  refine ⟨fun a ha b hb hp => ?_, fun a ha q hq hp => ?_⟩
  · rcases h.1 a ha b hb with h1 | h1
    · rw [← List.isPrefixOf_iff_prefix] at hp; rw [hp] at h1; cases h1
    · exact h1
  · rcases h.2 a ha q hq with h1 | h1
    · rcases hp with hp | hp
      · rw [← List.isPrefixOf_iff_prefix] at hp; rw [hp] at h1; cases h1.1
      · rw [← List.isPrefixOf_iff_prefix] at hp; rw [hp] at h1; cases h1.2
    · exact h1


/-! ### the keys of the flat default dictionary -/

/-- a key is the joined path of a leaf of one of the default classes -/
def KeyFact (A : List (List Key)) (key : Key) : Prop :=
  ∃ a : List Str, a ≠ [] ∧ (∀ w ∈ a, '_' ∉ w) ∧ key = .str (joinWith '_' a) ∧ a.map Key.str ∈ A

theorem famFlat_keys (P : Nat → Option Val → Bool) (sps : List (Key × Schema)) (sty : Dict) (hok : okProps sps = true)
    (hok2 : okProps2 sps = true) (hw : wfKids P sps sty = true) (F : List Str) (f : Str) (hf : f ∈ F)
    (fd : FlatD) (h : famFlat sps sty f = some fd) (key : Key) (v : Option Val) (hl : lookup key fd = some v) :
    KeyFact (allDefaultLeaves sps F) key := by
  unfold famFlat at h
  split at h
  · rename_i psF a b c d sub hl1 hl2
    injection h with h
    subst h
    obtain ⟨v0, hv1, hv2⟩ := wfKids_lookup P (.str f) (.obj psF a b c d) rfl sps sty hw hl1
    rw [hl2] at hv1
    injection hv1 with hv1
    subst hv1
    rw [wfVal] at hv2
    have hs1 := okProps_lookup hok hl1
    have hs2 := okProps2_lookup hok2 hl1
    rw [okSchema] at hs1
    rw [okSchema2] at hs2
    simp only [Bool.and_eq_true] at hs1 hs2
    have hgood := wfKids_good P psF hs2.1.1.1.1.1 hs2.1.1.1.1.2 sub hv2
    unfold flatDict at hl
    obtain ⟨s0, q', hk, hp⟩ := (lookup_linearize '_' sub hgood key v).mp hl
    have hsf := (good_getPath (s0 :: q') (.node sub) _ (by simpa [Tree.good] using hgood) hp).1
    obtain ⟨vid, hvid⟩ := leafVid_of_getPath_leaf P _ psF sub v hs1.1.1 hs1.1.2 hv2 hp
    refine ⟨s0 :: q', List.cons_ne_nil _ _, hsf, hk, ?_⟩
    unfold allDefaultLeaves
    refine List.mem_flatMap.mpr ⟨f, hf, ?_⟩
    simp only [hl1]
    rw [leavesS]
    exact mem_leavesL _ psF vid hvid
  · cases h

theorem mergeFams_keys (P : Nat → Option Val → Bool) (sps : List (Key × Schema)) (sty : Dict) (hok : okProps sps = true)
    (hok2 : okProps2 sps = true) (hw : wfKids P sps sty = true) (F : List Str) :
    ∀ (fams : List Str) (acc : FlatD), (∀ f ∈ fams, f ∈ F) →
      (∀ key v, lookup key acc = some v → KeyFact (allDefaultLeaves sps F) key) →
      ∀ key v, lookup key (mergeFams sps sty acc fams) = some v → KeyFact (allDefaultLeaves sps F) key := by
  intro fams
  induction fams with
  | nil => intro acc _ hacc key v h; exact hacc key v h
  | cons f t ih =>
    intro acc hF hacc key v h
    unfold mergeFams at h
    cases hff : famFlat sps sty f with
    | none =>
      rw [hff] at h
      exact ih acc (fun g hg => hF g (List.mem_cons_of_mem _ hg)) hacc key v h
    | some fd =>
      rw [hff] at h
      have hnd : nodupK fd = true := by
        unfold famFlat at hff
        split at hff
        · injection hff with hff; subst hff; exact nodupK_flatDict _
        · cases hff
      refine ih _ (fun g hg => hF g (List.mem_cons_of_mem _ hg)) ?_ key v h
      intro key' v' h'
      unfold nonNone at h'
      rw [lookup_mergeDict_nodup key' _ acc (nodupK_filter _ fd hnd), lookup_filter_nodup _ key' fd hnd] at h'
      cases hl : lookup key' fd with
      | none => rw [hl] at h'; exact hacc key' v' h'
      | some x =>
        exact famFlat_keys P sps sty hok hok2 hw F f (hF f (List.mem_cons_self ..)) fd hff key' x hl

/-! ### the trie `magic_to_dict` makes of the flat default dictionary -/

theorem str_map_injective : ∀ {a b : List Str}, a.map Key.str = b.map Key.str → a = b := by
  intro a
  induction a with
  | nil => intro b h; cases b with | nil => rfl | cons x y => simp at h
  | cons x t ih =>
    intro b h
    cases b with
    | nil => simp at h
    | cons y u =>
      simp only [List.map_cons, List.cons.injEq, Key.str.injEq] at h
      rw [h.1, ih h.2]

theorem prefix_of_map_prefix {a b : List Str} (h : a.map Key.str <+: b.map Key.str) : a <+: b := by
  obtain ⟨l, hl, he⟩ := List.prefix_map_iff.mp h
  have := str_map_injective he
  subst this
  exact hl

theorem entries_of_flat (A : List (List Key)) (hA : ∀ a ∈ A, ∀ b ∈ A, a <+: b → a = b) : ∀ (bsf : FlatD), nodupK bsf = true →
    (∀ kv ∈ bsf, KeyFact A kv.1) →
    ∃ E : Entries, flatKw bsf = kwOf '_' E ∧ bsf = flatOf '_' E ∧ SF '_' E ∧ PF E ∧ ∀ e ∈ E, e.1.map Key.str ∈ A := by
  intro bsf
  induction bsf with
  | nil =>
    intro _ _
    refine ⟨[], rfl, rfl, ?_, List.Pairwise.nil, ?_⟩
    · intro e he; cases he
    · intro e he; cases he
  | cons hd r ih =>
    obtain ⟨k, v⟩ := hd
    intro hnd hk
    rw [nodupK_cons] at hnd
    simp only [Bool.and_eq_true, Option.isNone_iff_eq_none] at hnd
    obtain ⟨E, h1, h2, h3, h4, h5⟩ := ih hnd.2 (fun kv hkv => hk kv (List.mem_cons_of_mem _ hkv))
    obtain ⟨a, ha1, ha2, ha3, ha4⟩ := hk (k, v) (List.mem_cons_self ..)
    simp only at ha3
    subst ha3
    refine ⟨(a, v) :: E, ?_, ?_, ?_, ?_, ?_⟩
    · simp only [flatKw, kwOf, List.map_cons] at h1 ⊢; rw [h1]
    · simp only [flatOf, List.map_cons] at h2 ⊢; rw [← h2]
    · intro e he
      rcases List.mem_cons.mp he with rfl | he
      · exact ⟨ha1, ha2⟩
      · exact h3 e he
    · refine List.pairwise_cons.mpr ⟨?_, h4⟩
      intro e he
      have hne : a ≠ e.1 := by
        intro heq
        have hm : (Key.str (joinWith '_' a), e.2) ∈ r := by
          rw [h2]; simp only [flatOf, List.mem_map]; exact ⟨e, he, by rw [heq]⟩
        obtain ⟨v', hv'⟩ := lookup_isSome_of_mem hm
        rw [hnd.1] at hv'; cases hv'
      constructor
      · intro hp
        exact hne (str_map_injective (hA _ ha4 _ (h5 e he) (List.IsPrefix.map _ hp)))
      · intro hp
        exact hne (str_map_injective (hA _ (h5 e he) _ ha4 (List.IsPrefix.map _ hp))).symm
    · intro e he
      rcases List.mem_cons.mp he with rfl | he
      · exact ha4
      · exact h5 e he

theorem mergeDict_append_nodup {α : Type} : ∀ (l acc : List (Key × α)), nodupK l = true → (∀ kv ∈ l, lookup kv.1 acc = none) →
    mergeDict acc l = acc ++ l := by
  intro l
  induction l with
  | nil => intro acc _ _; simp [mergeDict]
  | cons hd t ih =>
    obtain ⟨k, v⟩ := hd
    intro acc hnd hfresh
    rw [nodupK_cons] at hnd
    simp only [Bool.and_eq_true, Option.isNone_iff_eq_none] at hnd
    rw [mergeDict_cons, setKey_of_lookup_none (hfresh (k, v) (List.mem_cons_self ..)),
      ih (acc ++ [(k, v)]) hnd.2 (fun kv hkv => by
        rw [lookup_append, hfresh kv (List.mem_cons_of_mem _ hkv)]
        have hne : kv.1 ≠ k := lookup_eq_none_iff.mp hnd.1 kv hkv
        simp [lookup_cons, Ne.symm hne])]
    simp

theorem nodupK_kwOf {E : Entries} (hsf : SF '_' E) (hpf : PF E) : nodupK (kwOf '_' E) = true := by
  induction E with
  | nil => rfl
  | cons e E' ih =>
    have hsf' : SF '_' E' := fun x hx => hsf x (List.mem_cons_of_mem _ hx)
    simp only [kwOf, List.map_cons]
    rw [nodupK_cons]
    simp only [Bool.and_eq_true, Option.isNone_iff_eq_none]
    refine ⟨?_, ih hsf' (List.pairwise_cons.mp hpf).2⟩
    rw [lookup_eq_none_iff]
    intro kv hkv
    simp only [List.mem_map] at hkv
    obtain ⟨e', he', rfl⟩ := hkv
    intro heq
    injection heq with heq
    have h0 := hsf e (List.mem_cons_self ..)
    have h1 := hsf e' (List.mem_cons_of_mem _ he')
    have := joinWith_inj h1.1 h0.1 h1.2 h0.2 heq
    exact ((List.pairwise_cons.mp hpf).1 e' he').1 (by rw [this]; exact List.prefix_rfl)


/-! ### a trie that has dicts only where the class has sub-objects is compatible -/

mutual
/-- the path names a plain property below a schema -/
def leafAtS : Schema → List Key → Bool
  | .leaf _, [] => true
  | .leaf _, _ :: _ => false
  | .alias _, _ => false
  | .obj ps _ _ _ _, p => leafAtL ps p
def leafAtL : List (Key × Schema) → List Key → Bool
  | _, [] => false
  | [], _ :: _ => false
  | (k', s) :: r, k :: p => if k' = k then leafAtS s p else leafAtL r (k :: p)
end

theorem leafAtL_cons (ps : List (Key × Schema)) (k : Key) (p : List Key) :
    leafAtL ps (k :: p) = match lookup k ps with | some s => leafAtS s p | none => false := by
  induction ps with
  | nil => rw [leafAtL]; rfl
  | cons hd r ih =>
    obtain ⟨k', s⟩ := hd
    rw [leafAtL]
    by_cases hk : k' = k
    · simp [hk, lookup_cons]
    · simp only [hk, if_false, lookup_cons]; exact ih

theorem leafVid_of_leafAtL : ∀ (p : List Key) (ps : List (Key × Schema)), leafAtL ps p = true → ∃ vid, leafVid ps p = some vid
  | [], ps, h => by cases ps <;> simp [leafAtL] at h
  | [k], ps, h => by
    rw [leafAtL_cons] at h
    cases hl : lookup k ps with
    | none => rw [hl] at h; cases h
    | some s =>
      rw [hl] at h
      cases s with
      | leaf vid => exact ⟨vid, by simp [leafVid, hl]⟩
      | alias t => simp [leafAtS] at h
      | obj ps1 a b c d => simp only [] at h; rw [leafAtS] at h; cases ps1 <;> simp [leafAtL] at h
  | k :: k2 :: ks, ps, h => by
    rw [leafAtL_cons] at h
    cases hl : lookup k ps with
    | none => rw [hl] at h; cases h
    | some s =>
      rw [hl] at h
      cases s with
      | leaf vid => simp [leafAtS] at h
      | alias t => simp [leafAtS] at h
      | obj ps1 a b c d =>
        simp only [] at h
        rw [leafAtS] at h
        obtain ⟨vid, hv⟩ := leafVid_of_leafAtL (k2 :: ks) ps1 h
        exact ⟨vid, by simp only [leafVid, hl]; exact hv⟩

mutual
theorem compatVal_of_paths : ∀ (v : Tree) (s : Schema), v.good '_' = true →
    (∀ (q : List Str) (x : Dict), getPath v (q.map Key.str) = some (.node x) → leafAtS s (q.map Key.str) = false) →
    compatVal s v = true
  | .leaf _, s, _, _ => by cases s <;> rfl
  | .node m, s, hg, H => by
    cases s with
    | leaf vid =>
      have := H [] m (by simp [getPath_nil])
      simp [leafAtS] at this
    | alias t => rw [compatVal]
    | obj ps a b c d =>
      rw [compatVal]
      exact compatKids_of_paths m ps (by simpa [Tree.good] using hg) (fun q x h => by have := H q x h; rw [leafAtS] at this; exact this)
theorem compatKids_of_paths : ∀ (m : Dict) (ps : List (Key × Schema)), goodKids '_' m = true →
    (∀ (q : List Str) (x : Dict), getPath (.node m) (q.map Key.str) = some (.node x) → leafAtL ps (q.map Key.str) = false) →
    compatKids ps m = true
  | [], ps, _, _ => by rw [compatKids]
  | (k, v) :: r, ps, hg, H => by
    rw [goodKids_cons] at hg
    simp only [Bool.and_eq_true, Option.isNone_iff_eq_none] at hg
    obtain ⟨s0, rfl, hs0⟩ := keyOK_iff.mp hg.1.1.1
    rw [compatKids_cons]
    simp only [Bool.and_eq_true]
    constructor
    · cases hl : lookup (.str s0) ps with
      | none => rfl
      | some s =>
        simp only []
        refine compatVal_of_paths v s hg.1.2 (fun q x h => ?_)
        have := H (s0 :: q) x (by simp only [List.map_cons, getPath_node_cons, lookup_cons, if_true]; exact h)
        simp only [List.map_cons] at this
        rw [leafAtL_cons, hl] at this
        exact this
    · refine compatKids_of_paths r ps hg.2 (fun q x h => ?_)
      cases q with
      | nil => cases ps <;> simp [leafAtL]
      | cons s1 q' =>
        refine H (s1 :: q') x ?_
        simp only [List.map_cons, getPath_node_cons] at h ⊢
        by_cases hk : Key.str s0 = Key.str s1
        · rw [← hk, hg.1.1.2] at h; cases h
        · simp only [lookup_cons, hk, if_false]; exact h
end

/-! ### the second update of `get_style` at a plain property of the object's style -/

/-- `y` unless it is None, then `d` (what `_replace_None_only` leaves at a leaf) -/
def orDefault (y d : Option Val) : Option Val :=
  match y with
  | some a => some a
  | none => d

theorem orDefault_firstSome (y : Option Val) (L : List (Option Val)) : orDefault y (firstSome L) = firstSome (y :: L) := by
  cases y <;> rfl

/-- **the defaults layer, leaf by leaf.**  `style.update(**base_style_flat, _match_properties=False, _replace_None_only=True)`
accepted, on a well-formed style `t1`, `base_style_flat` a flat dictionary whose keys are joined leaf paths of default
classes that fit the style class: the plain property `q` now holds its validator's image of: the old value `y` if that
is not None, else the value `base_style_flat` has for `"_".join(q)` (None if it has no such key). -/
theorem fill_leaf (T : Tables) (cps : List (Key × Schema)) (cos : List Str) (t1 : Dict) (bsf : FlatD) (A : List (List Key))
    (hok : okProps cps = true) (hok2 : okProps2 cps = true) (hnd : nodupK cps = true) (hkeys : keysOK '_' cps = true)
    (hw : wfKids (fixB T) cps t1 = true) (hbn : nodupK bsf = true) (hbk : ∀ kv ∈ bsf, KeyFact A kv.1)
    (hA1 : ∀ a ∈ A, ∀ b ∈ A, a <+: b → a = b) (hA2 : ∀ a ∈ A, ∀ q ∈ leavesL cps, a <+: q ∨ q <+: a → a = q)
    (hacc : (updateObj T cps cos t1 none (flatKw bsf) false true).2 = .ok ())
    (q : List Str) (vid : Nat) (hq : leafVid cps (q.map Key.str) = some vid) (y : Option Val)
    (hy : getPath (.node t1) (q.map Key.str) = some (.leaf y)) :
    ∃ x', runV T vid (.leaf (orDefault y (lookup (.str (joinWith '_' q)) bsf).join)) = .ok x' ∧
      readPath cps (updateObj T cps cos t1 none (flatKw bsf) false true).1 (q.map Key.str) = .ok (.leaf x') := by
  obtain ⟨E, hE1, hE2, hsf, hpf, hEA⟩ := entries_of_flat A hA1 bsf hbn hbk
  obtain ⟨R, hR, hgood, hleaf, hne⟩ := magicToDict_kwOf '_' E hsf hpf
  have hqne : q ≠ [] := by intro e; subst e; simp [leafVid] at hq
  have hgt : goodKids '_' t1 = true := wfKids_good (fixB T) cps hok2 hkeys t1 hw
  have hqf : ∀ w ∈ q, '_' ∉ w := (good_getPath q (.node t1) _ (by simpa [Tree.good] using hgt) hy).1
  have hqL : q.map Key.str ∈ leavesL cps := mem_leavesL _ cps vid hq
  have hm : updArg none (flatKw bsf) = .ok R := by
    unfold updArg
    simp only []
    rw [hE1, mergeDict_append_nodup _ [] (nodupK_kwOf hsf hpf) (fun _ _ => rfl), List.nil_append, hR]
  have hcompat : compatKids cps R = true := by
    refine compatKids_of_paths R cps hgood (fun q' x h => ?_)
    cases hla : leafAtL cps (q'.map Key.str) with
    | false => rfl
    | true =>
      exfalso
      obtain ⟨vid', hv'⟩ := leafVid_of_leafAtL _ cps hla
      have hq'ne : q' ≠ [] := by intro e; subst e; simp [leafVid] at hv'
      obtain ⟨p, v, hpE, hpre⟩ := hne q' _ hq'ne h
      have := hA2 _ (hEA _ hpE) _ (mem_leavesL _ cps vid' hv') (Or.inr (List.IsPrefix.map _ hpre))
      have := str_map_injective this
      simp only at this
      subst this
      rw [(hleaf _ v).mpr hpE] at h
      cases h
  obtain ⟨x, x', g1, g2, g3⟩ := updateObj_fill_read T cps cos t1 (flatKw bsf) R hm hcompat hok hok2 hnd hw hacc (q.map Key.str) vid hq
  refine ⟨x', ?_, g3⟩
  have hnode : Tree.node (updLoop true true t1 R) = updDict true true (.node t1) R := rfl
  rw [hnode] at g1
  by_cases hin : ∃ v, (q, v) ∈ E
  · obtain ⟨v, hv⟩ := hin
    rw [getPath_updDict_trie_hit true true hgood hleaf (.node t1) hy hv] at g1
    have hlk : lookup (.str (joinWith '_' q)) bsf = some v := by rw [hE2]; exact lookup_flatOf hsf hpf hv
    rw [hlk]
    injection g1 with g1
    injection g1 with g1
    rw [← g2, ← g1]
    cases y <;> simp [orDefault]
  · have hnot : ∀ v, (q, v) ∉ E := fun v hv => hin ⟨v, hv⟩
    have hcomp : ∀ e ∈ E, e.1 <+: q ∨ q <+: e.1 → e.1 = q := by
      intro e he hp
      have := hA2 _ (hEA e he) _ hqL (by
        rcases hp with hp | hp
        · exact Or.inl (List.IsPrefix.map _ hp)
        · exact Or.inr (List.IsPrefix.map _ hp))
      exact str_map_injective this
    rw [getPath_updDict_trie_miss true true hgood hleaf hne (.node t1) hqne hcomp hnot, hy] at g1
    have hlk : lookup (.str (joinWith '_' q)) bsf = none := by
      cases hl : lookup (.str (joinWith '_' q)) bsf with
      | none => rfl
      | some v =>
        exfalso
        rw [hE2] at hl
        obtain ⟨q2, hk2, hm2⟩ := mem_of_lookup_flatOf hl
        injection hk2 with hk2
        have h0 := hsf _ hm2
        have := joinWith_inj hqne h0.1 hqf h0.2 hk2
        exact hnot v (by rw [this]; exact hm2)
    rw [hlk]
    injection g1 with g1
    injection g1 with g1
    rw [← g2, ← g1]
    cases y <;> simp [orDefault]


/-! ### a successful `get_style`, step by step -/

theorem twoUpdates_ok_elim (T : Tables) (ps : List (Key × Schema)) (os : List Str) (tree kwSpec : Dict) (bsf : FlatD) (res : Dict)
    (h : twoUpdates T ps os tree kwSpec bsf = .ok res) :
    ∃ t1, updateObj T ps os tree none kwSpec true false = (t1, .ok ()) ∧
      updateObj T ps os t1 none (flatKw bsf) false true = (res, .ok ()) := by
  unfold twoUpdates at h
  rcases h1 : updateObj T ps os tree none kwSpec true false with ⟨t1, r1⟩
  rw [h1] at h
  cases r1 with
  | error e => cases h
  | ok u =>
    simp only [] at h
    rcases h2 : updateObj T ps os t1 none (flatKw bsf) false true with ⟨t2, r2⟩
    rw [h2] at h
    cases r2 with
    | error e => cases h
    | ok u2 =>
      simp only [Except.ok.injEq] at h
      subst h
      exact ⟨t1, rfl, h2⟩

theorem getStyle_ok_elim (T : Tables) (Cs : List ClassInfo) (D : Tree) (w : World) (j : Nat) (fams : List Str) (kw : Dict) (res : Dict)
    (h : getStyle T Cs D w j fams kw = .ok res) :
    ∃ o0 o c0 c bsf, w[0]? = some o0 ∧ w[j]? = some o ∧ Cs[o0.cls]? = some c0 ∧ Cs[o.cls]? = some c ∧
      baseStyleFlat c0.schema.props o0.tree fams = .ok bsf ∧ validateKeys D kw = .ok () ∧
      twoUpdates T c.schema.props c.schema.others o.tree (specific o.tree kw) bsf = .ok res := by
  unfold getStyle at h
  split at h
  · rename_i o0 o h0 hj
    split at h
    · rename_i c0 c hc0 hc
      split at h
      · cases h
      · rename_i bsf hb
        split at h
        · cases h
        · rename_i u hv
          exact ⟨o0, o, c0, c, bsf, h0, hj, hc0, hc, hb, hv, h⟩
    · cases h
  · cases h

end MagpyVerif.StyleEffective
