/-
Lemmas/KernCylinder.lean — algebra of the Cylinder port (Model/Cylinder.lean) over the real carrier
`realNum μ` (any value `μ` of mu_0).  `cel0` is an opaque function throughout: nothing here looks
inside the elliptic-integral routine, only at which arguments it is called with.
  * `bhjmCylinder_scale'`          unit invariance (C12)
  * `bhjmCylinderRow_eq_wrap`      `BHJM_magnet_cylinder` = the abstract dispatch `wrapCylinder` applied to
                                   the two Cartesian core contributions `cylCoreAx`, `cylCoreTv` (C02)
  * `cylCoreAx_smul`, `cylCoreTv_smul`, `wrapCylinder_smul`, `wrapCylinder_split`   (C05)
  * `cylMasks_inside_iff`          the inside mask is the closed geometric cylinder (C02)
  * `cylSmallR_divisors`           divisors of the Taylor branch (C15)
-/
import MagpyVerif.Lemmas.KernReal
import MagpyVerif.Lemmas.KernAlgebra
import MagpyVerif.Lemmas.CelAGM
import MagpyVerif.Model.Cylinder
namespace MagpyVerif.Kern
open MagpyVerif

/-! ### unit invariance -/

theorem sqrt2_scale (l : ℝ) (hl : 0 < l) (a b : ℝ) :
    Real.sqrt (l * a * (l * a) + l * b * (l * b)) = l * Real.sqrt (a * a + b * b) := by
  have : l * a * (l * a) + l * b * (l * b) = l ^ 2 * (a * a + b * b) := by ring
  rw [this, Real.sqrt_mul (by positivity), Real.sqrt_sq hl.le]

/-- `BHJM_magnet_cylinder` with diameter, height and observer multiplied by `l > 0`: the three
quotients by `r0` and the azimuth are literally the same numbers, and nothing else of the inputs is
used afterwards -/
theorem bhjmCylinder_scale' (μ l : ℝ) (hl : 0 < l) (fuel : Nat) (f : Field) (d h : ℝ) (pol x : V3 ℝ) :
    letI := realNum μ
    bhjmCylinder fuel f (l * d, l * h) pol (vs l x) = bhjmCylinder fuel f (d, h) pol x := by
  have hl' : l ≠ 0 := hl.ne'
  have e1 : ∀ a : ℝ, l * a / 2 = l * (a / 2) := fun a => by ring
  simp only [bhjmCylinder, vs, sqrt_real, atan2_real, n, ofNat_real, Nat.cast_ofNat, sqrt2_scale l hl,
    arg_pos_smul l hl, e1, mul_div_mul_left _ _ hl']

/-! ### `BHJM_magnet_cylinder` as `wrapCylinder` of two Cartesian cores -/

@[simp] theorem V3.neg_x (a : V3 ℝ) : (-a).x = -a.x := rfl
@[simp] theorem V3.neg_y (a : V3 ℝ) : (-a).y = -a.y := rfl
@[simp] theorem V3.neg_z (a : V3 ℝ) : (-a).z = -a.z := rfl

/-- the axial contribution in Cartesian coordinates: `magnet_cylinder_axial_Bfield · pol_z` rotated
back by `cyl_field_to_cart`, on the rows of `mask_pol_ax`; zero elsewhere -/
noncomputable def cylCoreAx (μ : ℝ) (fuel : Nat) (z0 r z phi : ℝ) (pol : V3 ℝ) : Option (V3 ℝ) :=
  letI := realNum μ
  if pol.z ≠ 0 ∧ (cylMasks z0 r z).onEdge = false then
    (cylAxialB fuel z0 r z).map fun b =>
      ⟨b.1 * pol.z * Real.cos phi, b.1 * pol.z * Real.sin phi, b.2 * pol.z⟩
  else some ⟨0, 0, 0⟩

/-- the transversal contribution in Cartesian coordinates: `magnet_cylinder_diametral_Hfield · pol_xy`
(evaluated at the azimuth `phi − tetta` relative to the polarization direction) rotated back by
`cyl_field_to_cart`, on the rows of `mask_pol_tv`; zero elsewhere -/
noncomputable def cylCoreTv (μ : ℝ) (fuel : Nat) (z0 r z phi : ℝ) (pol : V3 ℝ) : Option (V3 ℝ) :=
  letI := realNum μ
  if (pol.x ≠ 0 ∨ pol.y ≠ 0) ∧ (cylMasks z0 r z).onEdge = false then
    (cylDiametralH fuel z0 r z (phi - Complex.arg ⟨pol.x, pol.y⟩)).map fun h =>
      let q := Real.sqrt (pol.x * pol.x + pol.y * pol.y)
      ⟨h.1 * q * Real.cos phi - h.2.1 * q * Real.sin phi, h.1 * q * Real.sin phi + h.2.1 * q * Real.cos phi,
        h.2.2 * q⟩
  else some ⟨0, 0, 0⟩

/-- J and M of `BHJM_magnet_cylinder` are those of `wrapCylinder` (whatever the cores) -/
theorem bhjmCylinderRow_JM (μ : ℝ) (fuel : Nat) (z0 r z phi : ℝ) (pol ax tv : V3 ℝ) :
    letI := realNum μ
    bhjmCylinderRow fuel .J z0 r z phi pol =
      some (wrapCylinder .J (cylMasks z0 r z).inside (cylMasks z0 r z).onEdge pol ax tv) ∧
    bhjmCylinderRow fuel .M z0 r z phi pol =
      some (wrapCylinder .M (cylMasks z0 r z).inside (cylMasks z0 r z).onEdge pol ax tv) :=
  ⟨rfl, rfl⟩

theorem bhjmCylinderRow_eq_wrap_B (μ : ℝ) (fuel : Nat) (z0 r z phi : ℝ) (pol : V3 ℝ) :
    letI := realNum μ
    bhjmCylinderRow fuel .B z0 r z phi pol =
      (cylCoreTv μ fuel z0 r z phi pol).bind fun tv =>
        (cylCoreAx μ fuel z0 r z phi pol).map fun ax =>
          wrapCylinder .B (cylMasks z0 r z).inside (cylMasks z0 r z).onEdge pol ax tv := by
  let _ := realNum μ
  unfold cylCoreTv cylCoreAx bhjmCylinderRow
  generalize @cylMasks ℝ (realNum μ) z0 r z = m
  simp only [atan2_real]
  generalize @cylDiametralH ℝ (realNum μ) fuel z0 r z _ = oh
  generalize @cylAxialB ℝ (realNum μ) fuel z0 r z = oa
  obtain ⟨mi, me⟩ := m
  obtain ⟨px, py, pz⟩ := pol
  by_cases hx : px = 0 <;> by_cases hy : py = 0 <;> by_cases hz : pz = 0 <;> cases me <;>
    rcases oh with _ | ⟨hr, hp, hz'⟩ <;> rcases oa with _ | ⟨br, bz⟩ <;>
    simp [hx, hy, hz, wrapCylinder, zero3, n]
  all_goals (cases mi <;> (apply V3.ext' <;> simp <;> (try ring1)))

theorem bhjmCylinderRow_eq_wrap_H (μ : ℝ) (fuel : Nat) (z0 r z phi : ℝ) (pol : V3 ℝ) :
    letI := realNum μ
    bhjmCylinderRow fuel .H z0 r z phi pol =
      (cylCoreTv μ fuel z0 r z phi pol).bind fun tv =>
        (cylCoreAx μ fuel z0 r z phi pol).map fun ax =>
          wrapCylinder .H (cylMasks z0 r z).inside (cylMasks z0 r z).onEdge pol ax tv := by
  let _ := realNum μ
  unfold cylCoreTv cylCoreAx bhjmCylinderRow
  generalize @cylMasks ℝ (realNum μ) z0 r z = m
  simp only [atan2_real]
  generalize @cylDiametralH ℝ (realNum μ) fuel z0 r z _ = oh
  generalize @cylAxialB ℝ (realNum μ) fuel z0 r z = oa
  obtain ⟨mi, me⟩ := m
  obtain ⟨px, py, pz⟩ := pol
  by_cases hx : px = 0 <;> by_cases hy : py = 0 <;> by_cases hz : pz = 0 <;> cases me <;>
    rcases oh with _ | ⟨hr, hp, hz'⟩ <;> rcases oa with _ | ⟨br, bz⟩ <;>
    simp [hx, hy, hz, wrapCylinder, zero3, n]
  all_goals
    (refine congrArg (fun v => vd v μ) ?_
     cases mi <;> (apply V3.ext' <;> simp <;> (try ring1)))

/-- B and H of `BHJM_magnet_cylinder`: both are computed iff both cores are, and then they are
`wrapCylinder` of the two cores -/
theorem bhjmCylinderRow_eq_wrap (μ : ℝ) (fuel : Nat) (f : Field) (hf : f = .B ∨ f = .H) (z0 r z phi : ℝ)
    (pol : V3 ℝ) :
    letI := realNum μ
    bhjmCylinderRow fuel f z0 r z phi pol =
      (cylCoreTv μ fuel z0 r z phi pol).bind fun tv =>
        (cylCoreAx μ fuel z0 r z phi pol).map fun ax =>
          wrapCylinder f (cylMasks z0 r z).inside (cylMasks z0 r z).onEdge pol ax tv := by
  rcases hf with rfl | rfl
  · exact bhjmCylinderRow_eq_wrap_B μ fuel z0 r z phi pol
  · exact bhjmCylinderRow_eq_wrap_H μ fuel z0 r z phi pol

/-! ### proportionality to the polarization -/

theorem cylCoreAx_smul (μ c : ℝ) (hc : c ≠ 0) (fuel : Nat) (z0 r z phi : ℝ) (pol : V3 ℝ) :
    letI := realNum μ
    cylCoreAx μ fuel z0 r z phi (vs c pol) = (cylCoreAx μ fuel z0 r z phi pol).map (vs c) := by
  let _ := realNum μ
  unfold cylCoreAx
  have h0 : c * pol.z ≠ 0 ↔ pol.z ≠ 0 := by simp [hc]
  simp only [vs, h0]
  split_ifs
  · rcases @cylAxialB ℝ (realNum μ) fuel z0 r z with _ | b
    · rfl
    · simp only [Option.map_some, Option.some.injEq]
      apply V3.ext' <;> simp only [vs] <;> ring
  · simp [vs]

theorem cylCoreTv_smul (μ c : ℝ) (hc : 0 < c) (fuel : Nat) (z0 r z phi : ℝ) (pol : V3 ℝ) :
    letI := realNum μ
    cylCoreTv μ fuel z0 r z phi (vs c pol) = (cylCoreTv μ fuel z0 r z phi pol).map (vs c) := by
  let _ := realNum μ
  unfold cylCoreTv
  have hc' : c ≠ 0 := hc.ne'
  have hx : c * pol.x ≠ 0 ↔ pol.x ≠ 0 := by simp [hc']
  have hy : c * pol.y ≠ 0 ↔ pol.y ≠ 0 := by simp [hc']
  simp only [vs, hx, hy, arg_pos_smul c hc, sqrt2_scale c hc]
  split_ifs
  · rcases @cylDiametralH ℝ (realNum μ) fuel z0 r z _ with _ | h
    · rfl
    · simp only [Option.map_some, Option.some.injEq]
      apply V3.ext' <;> simp only [vs] <;> ring
  · simp [vs]

/-- a purely axial polarization has no transversal core contribution -/
theorem cylCoreTv_axial (μ : ℝ) (fuel : Nat) (z0 r z phi pz : ℝ) :
    cylCoreTv μ fuel z0 r z phi ⟨0, 0, pz⟩ = some ⟨0, 0, 0⟩ := by
  simp [cylCoreTv]

/-- a purely transversal polarization has no axial core contribution -/
theorem cylCoreAx_transversal (μ : ℝ) (fuel : Nat) (z0 r z phi px py : ℝ) :
    cylCoreAx μ fuel z0 r z phi ⟨px, py, 0⟩ = some ⟨0, 0, 0⟩ := by
  simp [cylCoreAx]

theorem cylCoreTv_of_xy (μ : ℝ) (fuel : Nat) (z0 r z phi : ℝ) (pol : V3 ℝ) :
    cylCoreTv μ fuel z0 r z phi ⟨pol.x, pol.y, 0⟩ = cylCoreTv μ fuel z0 r z phi pol := rfl

theorem cylCoreAx_of_z (μ : ℝ) (fuel : Nat) (z0 r z phi : ℝ) (pol : V3 ℝ) :
    cylCoreAx μ fuel z0 r z phi ⟨0, 0, pol.z⟩ = cylCoreAx μ fuel z0 r z phi pol := rfl

theorem vs_zero3' (μ c : ℝ) : letI := realNum μ
    vs c (⟨0, 0, 0⟩ : V3 ℝ) = ⟨0, 0, 0⟩ := by
  apply V3.ext' <;> simp [vs]

theorem wrapCylinder_smul (μ c : ℝ) (f : Field) (i e : Bool) (pol ax tv : V3 ℝ) :
    letI := realNum μ
    wrapCylinder f i e (vs c pol) (vs c ax) (vs c tv) = vs c (wrapCylinder f i e pol ax tv) := by
  cases f <;> cases i <;> cases e <;>
    (apply V3.ext' <;> simp [wrapCylinder, vs, vd, zero3, n] <;> (try ring1))

/-- the dispatch applied to `pol = pol_tv + pol_ax` is the sum of the dispatch applied to the
transversal part (with the transversal core only) and to the axial part (axial core only) -/
theorem wrapCylinder_split (μ : ℝ) (f : Field) (i e : Bool) (pol ax tv : V3 ℝ) :
    letI := realNum μ
    wrapCylinder f i e pol ax tv =
      wrapCylinder f i e ⟨pol.x, pol.y, 0⟩ ⟨0, 0, 0⟩ tv + wrapCylinder f i e ⟨0, 0, pol.z⟩ ax ⟨0, 0, 0⟩ := by
  cases f <;> cases i <;> cases e <;>
    (apply V3.ext' <;> simp [wrapCylinder, vd, zero3, n] <;> (try ring1))

theorem bhjmCylinderRow_smul (μ c : ℝ) (hc : 0 < c) (fuel : Nat) (f : Field) (z0 r z phi : ℝ) (pol : V3 ℝ) :
    letI := realNum μ
    bhjmCylinderRow fuel f z0 r z phi (vs c pol) = (bhjmCylinderRow fuel f z0 r z phi pol).map (vs c) := by
  let _ := realNum μ
  cases f
  case J =>
    simp only [bhjmCylinderRow, Option.map_some]
    split_ifs
    · rfl
    · rw [vs_zero3]
  case M =>
    simp only [bhjmCylinderRow, Option.map_some, Option.some.injEq]
    split_ifs
    · apply V3.ext' <;> simp only [vs, vd] <;> ring
    · apply V3.ext' <;> simp [vs, vd, zero3, n]
  case B =>
    rw [bhjmCylinderRow_eq_wrap_B, bhjmCylinderRow_eq_wrap_B, cylCoreTv_smul μ c hc, cylCoreAx_smul μ c hc.ne']
    rcases cylCoreTv μ fuel z0 r z phi pol with _ | tv
    · rfl
    · rcases cylCoreAx μ fuel z0 r z phi pol with _ | ax
      · rfl
      · simp only [Option.map_some, Option.bind_some, wrapCylinder_smul]
  case H =>
    rw [bhjmCylinderRow_eq_wrap_H, bhjmCylinderRow_eq_wrap_H, cylCoreTv_smul μ c hc, cylCoreAx_smul μ c hc.ne']
    rcases cylCoreTv μ fuel z0 r z phi pol with _ | tv
    · rfl
    · rcases cylCoreAx μ fuel z0 r z phi pol with _ | ax
      · rfl
      · simp only [Option.map_some, Option.bind_some, wrapCylinder_smul]

/-- axial polarization: any non-zero factor (also negative) -/
theorem bhjmCylinderRow_axial_smul (μ c : ℝ) (hc : c ≠ 0) (fuel : Nat) (f : Field) (z0 r z phi pz : ℝ) :
    letI := realNum μ
    bhjmCylinderRow fuel f z0 r z phi ⟨0, 0, c * pz⟩ =
      (bhjmCylinderRow fuel f z0 r z phi ⟨0, 0, pz⟩).map (vs c) := by
  let _ := realNum μ
  have hv : (⟨0, 0, c * pz⟩ : V3 ℝ) = vs c ⟨0, 0, pz⟩ := by
    apply V3.ext' <;> simp [vs]
  cases f
  case J =>
    simp only [bhjmCylinderRow, Option.map_some, hv]
    split_ifs
    · rfl
    · rw [vs_zero3]
  case M =>
    simp only [bhjmCylinderRow, Option.map_some, Option.some.injEq]
    split_ifs
    · apply V3.ext' <;> simp only [vs, vd] <;> ring
    · apply V3.ext' <;> simp [vs, vd, zero3, n]
  case B =>
    rw [bhjmCylinderRow_eq_wrap_B, bhjmCylinderRow_eq_wrap_B, cylCoreTv_axial, cylCoreTv_axial, hv,
      cylCoreAx_smul μ c hc]
    rcases cylCoreAx μ fuel z0 r z phi ⟨0, 0, pz⟩ with _ | ax
    · rfl
    · simp only [Option.map_some, Option.bind_some, Option.some.injEq]
      rw [← wrapCylinder_smul, vs_zero3' μ]
  case H =>
    rw [bhjmCylinderRow_eq_wrap_H, bhjmCylinderRow_eq_wrap_H, cylCoreTv_axial, cylCoreTv_axial, hv,
      cylCoreAx_smul μ c hc]
    rcases cylCoreAx μ fuel z0 r z phi ⟨0, 0, pz⟩ with _ | ax
    · rfl
    · simp only [Option.map_some, Option.bind_some, Option.some.injEq]
      rw [← wrapCylinder_smul, vs_zero3' μ]

/-- `BHJM_magnet_cylinder` of `pol` = that of the transversal part + that of the axial part
(and it is computed iff both parts are) -/
theorem bhjmCylinderRow_split (μ : ℝ) (fuel : Nat) (f : Field) (z0 r z phi : ℝ) (pol : V3 ℝ) :
    letI := realNum μ
    bhjmCylinderRow fuel f z0 r z phi pol =
      (bhjmCylinderRow fuel f z0 r z phi ⟨pol.x, pol.y, 0⟩).bind fun a =>
        (bhjmCylinderRow fuel f z0 r z phi ⟨0, 0, pol.z⟩).map fun b => a + b := by
  let _ := realNum μ
  cases f
  case J =>
    simp only [bhjmCylinderRow, Option.map_some, Option.bind_some, Option.some.injEq]
    split_ifs <;> (apply V3.ext' <;> simp [zero3, n])
  case M =>
    simp only [bhjmCylinderRow, Option.map_some, Option.bind_some, Option.some.injEq]
    split_ifs <;> (apply V3.ext' <;> simp [vd, zero3, n])
  case B =>
    simp only [bhjmCylinderRow_eq_wrap_B, cylCoreTv_axial, cylCoreAx_transversal, cylCoreTv_of_xy, cylCoreAx_of_z]
    rcases cylCoreTv μ fuel z0 r z phi pol with _ | tv
    · rfl
    · rcases cylCoreAx μ fuel z0 r z phi pol with _ | ax
      · rfl
      · simp only [Option.map_some, Option.bind_some, Option.some.injEq]
        exact wrapCylinder_split μ .B _ _ pol ax tv
  case H =>
    simp only [bhjmCylinderRow_eq_wrap_H, cylCoreTv_axial, cylCoreAx_transversal, cylCoreTv_of_xy, cylCoreAx_of_z]
    rcases cylCoreTv μ fuel z0 r z phi pol with _ | tv
    · rfl
    · rcases cylCoreAx μ fuel z0 r z phi pol with _ | ax
      · rfl
      · simp only [Option.map_some, Option.bind_some, Option.some.injEq]
        exact wrapCylinder_split μ .H _ _ pol ax tv

/-! ### full linearity in the polarization -/

/-- azimuthal amplitudes of the diametral kernel: `Hr` at `phi = 0`, `Hphi` at `phi = π/2`, `Hz` at `phi = 0` -/
noncomputable def cylDiametralAmp (μ : ℝ) (fuel : Nat) (z0 r z : ℝ) : Option (ℝ × ℝ × ℝ) :=
  letI := realNum μ
  (cylDiametralH fuel z0 r z 0).bind fun h0 =>
    (cylDiametralH fuel z0 r z (Real.pi / 2)).map fun h1 => (h0.1, h1.2.1, h0.2.2)

/-- `magnet_cylinder_diametral_Hfield` depends on the azimuth through `cos phi` (Hr, Hz) and `sin phi`
(Hphi) only, in both branches; the elliptic integrals do not see `phi` -/
theorem cylDiametralH_phi (μ : ℝ) (fuel : Nat) (z0 r z phi : ℝ) :
    letI := realNum μ
    cylDiametralH fuel z0 r z phi =
      (cylDiametralAmp μ fuel z0 r z).map fun A => (Real.cos phi * A.1, Real.sin phi * A.2.1, Real.cos phi * A.2.2) := by
  let _ := realNum μ
  unfold cylDiametralAmp cylDiametralH
  split_ifs
  · simp only [Option.bind_some, Option.map_some, Option.some.injEq, cylDiametralSmallR, cos_real, sin_real,
      Real.cos_zero, Real.sin_pi_div_two, Prod.mk.injEq]
    refine ⟨by ring, by ring, by ring⟩
  · simp only [cylDiametralGeneral]
    rcases @cylEll ℝ (realNum μ) fuel _ _ _ with _ | E
    · rfl
    · simp only [Option.bind_some, Option.map_some, Option.some.injEq, cylDiametralGeneralOf, cos_real, sin_real,
        Real.cos_zero, Real.sin_pi_div_two, Prod.mk.injEq]
      refine ⟨by ring, by ring, by ring⟩

theorem polar_cos (px py phi : ℝ) :
    Real.sqrt (px * px + py * py) * Real.cos (phi - Complex.arg ⟨px, py⟩) = px * Real.cos phi + py * Real.sin phi := by
  have hn : ‖(⟨px, py⟩ : ℂ)‖ = Real.sqrt (px * px + py * py) := by
    rw [Complex.norm_def, Complex.normSq_apply]
  have hc := Complex.norm_mul_cos_arg ⟨px, py⟩
  have hs := Complex.norm_mul_sin_arg ⟨px, py⟩
  rw [hn] at hc hs
  simp only at hc hs
  rw [Real.cos_sub]
  linear_combination Real.cos phi * hc + Real.sin phi * hs

theorem polar_sin (px py phi : ℝ) :
    Real.sqrt (px * px + py * py) * Real.sin (phi - Complex.arg ⟨px, py⟩) = px * Real.sin phi - py * Real.cos phi := by
  have hn : ‖(⟨px, py⟩ : ℂ)‖ = Real.sqrt (px * px + py * py) := by
    rw [Complex.norm_def, Complex.normSq_apply]
  have hc := Complex.norm_mul_cos_arg ⟨px, py⟩
  have hs := Complex.norm_mul_sin_arg ⟨px, py⟩
  rw [hn] at hc hs
  simp only at hc hs
  rw [Real.sin_sub]
  linear_combination Real.sin phi * hc - Real.cos phi * hs

/-- the transversal core as a linear form in `(pol_x, pol_y)`: `pol_xy·cos(phi − tetta) = pol_x cos phi + pol_y sin phi`,
`pol_xy·sin(phi − tetta) = pol_x sin phi − pol_y cos phi` -/
noncomputable def cylTvLin (A : ℝ × ℝ × ℝ) (phi : ℝ) (pol : V3 ℝ) : V3 ℝ :=
  let u := pol.x * Real.cos phi + pol.y * Real.sin phi
  let w := pol.x * Real.sin phi - pol.y * Real.cos phi
  ⟨A.1 * u * Real.cos phi - A.2.1 * w * Real.sin phi, A.1 * u * Real.sin phi + A.2.1 * w * Real.cos phi, A.2.2 * u⟩

noncomputable def cylAxLin (b : ℝ × ℝ) (phi : ℝ) (pol : V3 ℝ) : V3 ℝ :=
  ⟨b.1 * pol.z * Real.cos phi, b.1 * pol.z * Real.sin phi, b.2 * pol.z⟩

theorem cylCoreTv_lin (μ : ℝ) (fuel : Nat) (z0 r z phi : ℝ) (pol : V3 ℝ) :
    letI := realNum μ
    cylCoreTv μ fuel z0 r z phi pol =
      if (pol.x ≠ 0 ∨ pol.y ≠ 0) ∧ (cylMasks z0 r z).onEdge = false then
        (cylDiametralAmp μ fuel z0 r z).map fun A => cylTvLin A phi pol
      else some ⟨0, 0, 0⟩ := by
  let _ := realNum μ
  unfold cylCoreTv
  rw [cylDiametralH_phi]
  split_ifs
  · rcases cylDiametralAmp μ fuel z0 r z with _ | A
    · rfl
    · simp only [Option.map_some, Option.some.injEq, cylTvLin]
      have hu := polar_cos pol.x pol.y phi
      have hw := polar_sin pol.x pol.y phi
      apply V3.ext' <;> simp only [← hu, ← hw] <;> ring
  · rfl

/-- on every polarization for which the code computes the transversal core, it is one and the same
linear map of the polarization -/
theorem cylCoreTv_total (μ : ℝ) (fuel : Nat) (z0 r z phi : ℝ) :
    ∃ L : V3 ℝ → V3 ℝ, (∀ a b p q, L (@vs ℝ (realNum μ) a p + @vs ℝ (realNum μ) b q) =
        @vs ℝ (realNum μ) a (L p) + @vs ℝ (realNum μ) b (L q)) ∧
      ∀ pol tv, cylCoreTv μ fuel z0 r z phi pol = some tv → tv = L pol := by
  let _ := realNum μ
  have hzero : ∀ a b : ℝ, (⟨0, 0, 0⟩ : V3 ℝ) = vs a ⟨0, 0, 0⟩ + vs b ⟨0, 0, 0⟩ := fun a b => by
    apply V3.ext' <;> simp [vs]
  by_cases he : (cylMasks z0 r z).onEdge = false
  · rcases hA : cylDiametralAmp μ fuel z0 r z with _ | A
    · refine ⟨fun _ => ⟨0, 0, 0⟩, fun a b _ _ => hzero a b, fun pol tv h => ?_⟩
      rw [cylCoreTv_lin, hA] at h
      split_ifs at h
      · simp at h
      · exact (Option.some.inj h).symm
    · refine ⟨cylTvLin A phi, fun a b p q => ?_, fun pol tv h => ?_⟩
      · apply V3.ext' <;> simp [cylTvLin, vs] <;> ring
      · rw [cylCoreTv_lin, hA] at h
        split_ifs at h with hc
        · exact (Option.some.inj h).symm
        · have hx : pol.x = 0 := by
            by_contra hx; exact hc ⟨Or.inl hx, he⟩
          have hy : pol.y = 0 := by
            by_contra hy; exact hc ⟨Or.inr hy, he⟩
          rw [← Option.some.inj h]
          apply V3.ext' <;> simp [cylTvLin, hx, hy]
  · refine ⟨fun _ => ⟨0, 0, 0⟩, fun a b _ _ => hzero a b, fun pol tv h => ?_⟩
    unfold cylCoreTv at h
    rw [if_neg (fun hc => he hc.2)] at h
    exact (Option.some.inj h).symm

theorem cylCoreAx_total (μ : ℝ) (fuel : Nat) (z0 r z phi : ℝ) :
    ∃ L : V3 ℝ → V3 ℝ, (∀ a b p q, L (@vs ℝ (realNum μ) a p + @vs ℝ (realNum μ) b q) =
        @vs ℝ (realNum μ) a (L p) + @vs ℝ (realNum μ) b (L q)) ∧
      ∀ pol ax, cylCoreAx μ fuel z0 r z phi pol = some ax → ax = L pol := by
  let _ := realNum μ
  have hzero : ∀ a b : ℝ, (⟨0, 0, 0⟩ : V3 ℝ) = vs a ⟨0, 0, 0⟩ + vs b ⟨0, 0, 0⟩ := fun a b => by
    apply V3.ext' <;> simp [vs]
  by_cases he : (cylMasks z0 r z).onEdge = false
  · rcases hA : @cylAxialB ℝ (realNum μ) fuel z0 r z with _ | B
    · refine ⟨fun _ => ⟨0, 0, 0⟩, fun a b _ _ => hzero a b, fun pol ax h => ?_⟩
      unfold cylCoreAx at h
      rw [hA] at h
      split_ifs at h
      · simp at h
      · exact (Option.some.inj h).symm
    · refine ⟨cylAxLin B phi, fun a b p q => ?_, fun pol ax h => ?_⟩
      · apply V3.ext' <;> simp [cylAxLin, vs] <;> ring
      · unfold cylCoreAx at h
        rw [hA] at h
        split_ifs at h with hc
        · exact (Option.some.inj h).symm
        · have hz : pol.z = 0 := by
            by_contra hz; exact hc ⟨hz, he⟩
          rw [← Option.some.inj h]
          apply V3.ext' <;> simp [cylAxLin, hz]
  · refine ⟨fun _ => ⟨0, 0, 0⟩, fun a b _ _ => hzero a b, fun pol ax h => ?_⟩
    unfold cylCoreAx at h
    rw [if_neg (fun hc => he hc.2)] at h
    exact (Option.some.inj h).symm

theorem wrapCylinder_linear (μ a b : ℝ) (f : Field) (i e : Bool) (p q ax ax' tv tv' : V3 ℝ) :
    letI := realNum μ
    wrapCylinder f i e (vs a p + vs b q) (vs a ax + vs b ax') (vs a tv + vs b tv') =
      vs a (wrapCylinder f i e p ax tv) + vs b (wrapCylinder f i e q ax' tv') := by
  cases f <;> cases i <;> cases e <;>
    (apply V3.ext' <;> simp [wrapCylinder, vs, vd, zero3, n] <;> (try ring1))

/-- `BHJM_magnet_cylinder` is linear in the polarization: whenever the three evaluations return -/
theorem bhjmCylinderRow_linear (μ a b : ℝ) (fuel : Nat) (f : Field) (z0 r z phi : ℝ) (p1 p2 v1 v2 v : V3 ℝ) :
    letI := realNum μ
    bhjmCylinderRow fuel f z0 r z phi p1 = some v1 → bhjmCylinderRow fuel f z0 r z phi p2 = some v2 →
    bhjmCylinderRow fuel f z0 r z phi (vs a p1 + vs b p2) = some v → v = vs a v1 + vs b v2 := by
  let _ := realNum μ
  obtain ⟨LT, hLT, hT⟩ := cylCoreTv_total μ fuel z0 r z phi
  obtain ⟨LA, hLA, hA⟩ := cylCoreAx_total μ fuel z0 r z phi
  have key : ∀ g : Field, g = .B ∨ g = .H → ∀ p w, bhjmCylinderRow fuel g z0 r z phi p = some w →
      w = wrapCylinder g (cylMasks z0 r z).inside (cylMasks z0 r z).onEdge p (LA p) (LT p) := by
    intro g hg p w hw
    rw [bhjmCylinderRow_eq_wrap μ fuel g hg] at hw
    rcases hT' : cylCoreTv μ fuel z0 r z phi p with _ | tv
    · rw [hT'] at hw; simp at hw
    · rcases hA' : cylCoreAx μ fuel z0 r z phi p with _ | ax
      · rw [hT', hA'] at hw; simp at hw
      · rw [hT', hA'] at hw
        simp only [Option.bind_some, Option.map_some, Option.some.injEq] at hw
        rw [← hw, hT p tv hT', hA p ax hA']
  have fin : ∀ g : Field, g = .B ∨ g = .H → bhjmCylinderRow fuel g z0 r z phi p1 = some v1 →
      bhjmCylinderRow fuel g z0 r z phi p2 = some v2 →
      bhjmCylinderRow fuel g z0 r z phi (vs a p1 + vs b p2) = some v → v = vs a v1 + vs b v2 := by
    intro g hg h1 h2 h3
    rw [key g hg _ _ h1, key g hg _ _ h2, key g hg _ _ h3, hLT, hLA, wrapCylinder_linear]
  cases f
  case B => exact fin .B (Or.inl rfl)
  case H => exact fin .H (Or.inr rfl)
  case J =>
    intro h1 h2 h3
    simp only [bhjmCylinderRow, Option.some.injEq] at h1 h2 h3
    subst h1 h2 h3
    split_ifs <;> (apply V3.ext' <;> simp [vs, zero3, n])
  case M =>
    intro h1 h2 h3
    simp only [bhjmCylinderRow, Option.some.injEq] at h1 h2 h3
    subst h1 h2 h3
    split_ifs <;> (apply V3.ext' <;> simp [vs, vd, zero3, n] <;> (try ring1))

/-! ### the inside mask is the closed geometric cylinder -/

theorem cylMasks_inside_iff (μ r0 z0 r z : ℝ) (hr0 : 0 < r0) :
    letI := realNum μ
    (cylMasks (z0 / r0) (r / r0) (z / r0)).inside = true ↔ (|z| ≤ z0 ∧ r ≤ r0) := by
  simp only [cylMasks, le_real, abs_real, n, ofNat_real, Nat.cast_one, Bool.and_eq_true, decide_eq_true_eq]
  rw [abs_div, abs_of_pos hr0, div_le_div_iff_of_pos_right hr0, div_le_one hr0]

/-! ### the Taylor branch `r < 0.05` of the diametral kernel divides by positive numbers only -/

theorem cylSmallR_divisors (z0 z : ℝ) :
    let zpp := (z + z0) * (z + z0) + 1
    let zmm := (z - z0) * (z - z0) + 1
    0 < zpp ∧ 0 < zmm ∧ 0 < Real.sqrt zpp ∧ 0 < Real.sqrt zmm := by
  have h1 : 0 < (z + z0) * (z + z0) + 1 := by nlinarith [mul_self_nonneg (z + z0)]
  have h2 : 0 < (z - z0) * (z - z0) + 1 := by nlinarith [mul_self_nonneg (z - z0)]
  exact ⟨h1, h2, Real.sqrt_pos.mpr h1, Real.sqrt_pos.mpr h2⟩

/-! ### termination of every `cel0` call of the Cylinder kernels in exact arithmetic -/

theorem cel0_isSome_of_le (kc p c s : ℝ) (hkc : kc ≠ 0) (fuel : ℕ)
    (h : celFuel1 |kc| (1 / 1000000) ≤ fuel) : (cel0 fuel kc p c s).isSome := by
  obtain ⟨v, hv⟩ := Option.isSome_iff_exists.mp (cel0_isSome_celFuel1 kc p c s hkc)
  obtain ⟨k, rfl⟩ := Nat.exists_eq_add_of_le h
  rw [cel0_fuel_mono _ k kc p c s v hv]; rfl

/-- the modulus `k1` / `k0` of the axial kernel as a function of `z ± z0` and `r` -/
noncomputable def cylK (a r : ℝ) : ℝ :=
  Real.sqrt ((a * a + (1 - r) * (1 - r)) / (a * a + (1 + r) * (1 + r)))

/-- the modulus `sqrt(1 - argp)` / `sqrt(1 - argm)` of the diametral kernel -/
noncomputable def cylKd (a r : ℝ) : ℝ :=
  Real.sqrt (1 - -4 * r / (a * a + (r - 1) * (r - 1)))

theorem cylK_ne_zero (a r : ℝ) (hr : 0 ≤ r) (h : ¬ (a = 0 ∧ r = 1)) : cylK a r ≠ 0 := by
  have hD : 0 < a * a + (1 + r) * (1 + r) := by nlinarith [mul_self_nonneg a]
  have hN : 0 < a * a + (1 - r) * (1 - r) := by
    by_cases ha : a = 0
    · have hr1 : 1 - r ≠ 0 := fun h1 => h ⟨ha, by linarith⟩
      nlinarith [mul_self_pos.mpr hr1, mul_self_nonneg a]
    · nlinarith [mul_self_pos.mpr ha, mul_self_nonneg (1 - r)]
  exact (Real.sqrt_pos.mpr (div_pos hN hD)).ne'

theorem cylKd_ne_zero (a r : ℝ) (hr : 0 ≤ r) : cylKd a r ≠ 0 := by
  have hQ : 0 ≤ a * a + (r - 1) * (r - 1) := by nlinarith [mul_self_nonneg a, mul_self_nonneg (r - 1)]
  have h1 : -4 * r / (a * a + (r - 1) * (r - 1)) ≤ 0 :=
    div_nonpos_of_nonpos_of_nonneg (by linarith) hQ
  exact (Real.sqrt_pos.mpr (by linarith)).ne'

/-- number of loop tests after which all `cel0` calls of both Cylinder kernels have returned -/
noncomputable def cylFuel (z0 r z : ℝ) : ℕ :=
  max (max (celFuel1 |cylK (z + z0) r| (1 / 1000000)) (celFuel1 |cylK (z - z0) r| (1 / 1000000)))
    (max (celFuel1 |cylKd (z + z0) r| (1 / 1000000)) (celFuel1 |cylKd (z - z0) r| (1 / 1000000)))

theorem cylAxialB_isSome (fuel : ℕ) (z0 r z : ℝ) (hr : 0 ≤ r)
    (h1 : ¬ (z + z0 = 0 ∧ r = 1)) (h0 : ¬ (z - z0 = 0 ∧ r = 1)) (hf : cylFuel z0 r z ≤ fuel) :
    (cylAxialB fuel z0 r z).isSome := by
  have hf1 : celFuel1 |cylK (z + z0) r| (1 / 1000000) ≤ fuel :=
    le_trans (le_trans (le_max_left _ _) (le_max_left _ _)) hf
  have hf0 : celFuel1 |cylK (z - z0) r| (1 / 1000000) ≤ fuel :=
    le_trans (le_trans (le_max_right _ _) (le_max_left _ _)) hf
  have H1 : ∀ p c s, cel0 fuel (cylK (z + z0) r) p c s ≠ none := fun p c s =>
    Option.isSome_iff_ne_none.mp (cel0_isSome_of_le _ p c s (cylK_ne_zero _ r hr h1) fuel hf1)
  have H0 : ∀ p c s, cel0 fuel (cylK (z - z0) r) p c s ≠ none := fun p c s =>
    Option.isSome_iff_ne_none.mp (cel0_isSome_of_le _ p c s (cylK_ne_zero _ r hr h0) fuel hf0)
  simp only [cylAxialB, n, ofNat_real, Nat.cast_one, sqrt_real]
  split
  · rename_i heq; exact absurd heq (H1 _ _ _)
  · split
    · rename_i heq; exact absurd heq (H0 _ _ _)
    · split
      · rename_i heq; exact absurd heq (H1 _ _ _)
      · split
        · rename_i heq; exact absurd heq (H0 _ _ _)
        · rfl

theorem cylDiametralH_isSome (fuel : ℕ) (z0 r z phi : ℝ) (hr : 0 ≤ r) (hf : cylFuel z0 r z ≤ fuel) :
    (cylDiametralH fuel z0 r z phi).isSome := by
  have hfp : celFuel1 |cylKd (z + z0) r| (1 / 1000000) ≤ fuel :=
    le_trans (le_trans (le_max_left _ _) (le_max_right _ _)) hf
  have hfm : celFuel1 |cylKd (z - z0) r| (1 / 1000000) ≤ fuel :=
    le_trans (le_trans (le_max_right _ _) (le_max_right _ _)) hf
  have HP : ∀ p c s, cel0 fuel (cylKd (z + z0) r) p c s ≠ none := fun p c s =>
    Option.isSome_iff_ne_none.mp (cel0_isSome_of_le _ p c s (cylKd_ne_zero _ r hr) fuel hfp)
  have HM : ∀ p c s, cel0 fuel (cylKd (z - z0) r) p c s ≠ none := fun p c s =>
    Option.isSome_iff_ne_none.mp (cel0_isSome_of_le _ p c s (cylKd_ne_zero _ r hr) fuel hfm)
  unfold cylDiametralH
  split_ifs
  · rfl
  · simp only [cylDiametralGeneral, cylEll, n, ofNat_real, Nat.cast_one, Nat.cast_ofNat, sqrt_real]
    split
    · rename_i heq
      revert heq
      split
      · rename_i h; exact absurd h (HP _ _ _)
      · split
        · rename_i h; exact absurd h (HM _ _ _)
        · split
          · rename_i h; exact absurd h (HP _ _ _)
          · split
            · rename_i h; exact absurd h (HM _ _ _)
            · split
              · rename_i h; exact absurd h (HP _ _ _)
              · split
                · rename_i h; exact absurd h (HM _ _ _)
                · intro h; simp at h
    · rfl

/-- the on-edge mask contains the geometric edge `r = r0 ∧ |z| = h/2` (where `k1` or `k0` vanishes and
`cel0` would raise) -/
theorem cylMasks_onEdge_of_eq (z0 r z : ℝ) (hr1 : r = 1) (hz : |z| = z0) : (cylMasks z0 r z).onEdge = true := by
  simp [cylMasks, isclose, hr1, hz, n]

theorem bhjmCylinderRow_isSome (fuel : ℕ) (f : Field) (z0 r z phi : ℝ) (pol : V3 ℝ) (hr : 0 ≤ r) (hz0 : 0 ≤ z0)
    (hf : cylFuel z0 r z ≤ fuel) : (bhjmCylinderRow fuel f z0 r z phi pol).isSome := by
  have hTv : (cylCoreTv mu0R fuel z0 r z phi pol).isSome := by
    unfold cylCoreTv
    split_ifs
    · rw [Option.isSome_map]; exact cylDiametralH_isSome fuel z0 r z _ hr hf
    · rfl
  have hAx : (cylCoreAx mu0R fuel z0 r z phi pol).isSome := by
    unfold cylCoreAx
    split_ifs with hc
    · rw [Option.isSome_map]
      have he : ¬ (r = 1 ∧ |z| = z0) := fun h => by
        have := cylMasks_onEdge_of_eq z0 r z h.1 h.2
        rw [hc.2] at this
        exact absurd this (by simp)
      apply cylAxialB_isSome fuel z0 r z hr _ _ hf
      · rintro ⟨h1, h2⟩
        apply he ⟨h2, _⟩
        have : z = -z0 := by linarith
        rw [this, abs_neg, abs_of_nonneg hz0]
      · rintro ⟨h1, h2⟩
        apply he ⟨h2, _⟩
        have : z = z0 := by linarith
        rw [this, abs_of_nonneg hz0]
    · rfl
  cases f
  case J => rfl
  case M => rfl
  case B =>
    rw [bhjmCylinderRow_eq_wrap_B mu0R]
    obtain ⟨tv, htv⟩ := Option.isSome_iff_exists.mp hTv
    obtain ⟨ax, hax⟩ := Option.isSome_iff_exists.mp hAx
    rw [htv, hax]; rfl
  case H =>
    rw [bhjmCylinderRow_eq_wrap_H mu0R]
    obtain ⟨tv, htv⟩ := Option.isSome_iff_exists.mp hTv
    obtain ⟨ax, hax⟩ := Option.isSome_iff_exists.mp hAx
    rw [htv, hax]; rfl

/-- number of loop tests sufficient for `BHJM_magnet_cylinder` at this input -/
noncomputable def cylFuelX (d h : ℝ) (x : V3 ℝ) : ℕ :=
  cylFuel (h / 2 / (d / 2)) (Real.sqrt (x.x * x.x + x.y * x.y) / (d / 2)) (x.z / (d / 2))

theorem bhjmCylinder_isSome (fuel : ℕ) (f : Field) (d h : ℝ) (pol x : V3 ℝ) (hd : 0 < d) (hh : 0 ≤ h)
    (hf : cylFuelX d h x ≤ fuel) : (bhjmCylinder fuel f (d, h) pol x).isSome := by
  have hr0 : (0 : ℝ) < d / 2 := by positivity
  have h1 : 0 ≤ Real.sqrt (x.x * x.x + x.y * x.y) / (d / 2) := div_nonneg (Real.sqrt_nonneg _) hr0.le
  have h2 : 0 ≤ h / 2 / (d / 2) := div_nonneg (by positivity) hr0.le
  exact bhjmCylinderRow_isSome fuel f _ _ _ _ pol h1 h2 hf

end MagpyVerif.Kern
