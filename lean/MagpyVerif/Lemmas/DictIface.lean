/-
Lemmas/DictIface.lean — helper lemmas about Model/DictIface.lean (getBH_dict_level2) for Props/C07.
-/
import MagpyVerif.Model.DictIface

namespace MagpyVerif.DictIface

theorem agree_eq_some {ls : List Nat} {n : Nat} (h : agree ls = some n) : ∀ l ∈ ls, l = n := by
  cases ls with
  | nil => intro l hl; cases hl
  | cons a as =>
    simp only [agree] at h
    split at h
    · rename_i hall
      cases h
      intro l hl
      rcases List.mem_cons.mp hl with rfl | hl
      · rfl
      · have := List.all_eq_true.mp hall l hl
        simpa using this
    · cases h

/-- the tiled pose rows have length n and row i is the picked value, whenever the counted length (if any) is n -/
theorem rows_spec {β : Type} (n : Nat) (g : Given β) (hg : ∀ l, g.len? = some l → l = n) :
    (rows n g).length = n ∧ ∀ i, i < n → (rows n g)[i]? = pick i g := by
  cases g with
  | single v =>
    refine ⟨by simp [rows], fun i hi => ?_⟩
    simp [rows, pick, hi]
  | stack vs =>
    match vs, hg with
    | [], hg =>
      have : 0 = n := hg 0 (by simp [Given.len?])
      subst this
      simp [rows]
    | [x], _ =>
      refine ⟨by simp [rows], fun i hi => ?_⟩
      simp [rows, pick, hi]
    | x :: y :: zs, hg =>
      have : zs.length + 2 = n := hg _ (by simp [Given.len?])
      subst this
      simp [rows, pick]

theorem pick_isSome {β : Type} (n i : Nat) (hi : i < n) (g : Given β) (hg : ∀ l, g.len? = some l → l = n) :
    ∃ v, pick i g = some v := by
  cases g with
  | single v => exact ⟨v, rfl⟩
  | stack vs =>
    match vs, hg with
    | [], hg =>
      have : 0 = n := hg 0 (by simp [Given.len?])
      omega
    | [x], _ => exact ⟨x, by simp [pick]⟩
    | x :: y :: zs, hg =>
      have : zs.length + 2 = n := hg _ (by simp [Given.len?])
      subst this
      have hi' : i < (x :: y :: zs).length := by simpa using hi
      exact ⟨(x :: y :: zs)[i], by simp [pick, List.getElem?_eq_getElem hi']⟩

/-- a successful `mapM` in `Except` maps entry by entry -/
theorem mapM_ok_getElem? {ε β γ : Type} (f : β → Except ε γ) : ∀ (l : List β) (out : List γ),
    l.mapM f = .ok out → ∀ (j : Nat) (x : β), l[j]? = some x → ∃ y, f x = .ok y ∧ out[j]? = some y
  | [], _, _, j, x, hx => by simp at hx
  | a :: l, out, h, j, x, hx => by
    rw [List.mapM_cons] at h
    cases hfa : f a with
    | error e => rw [hfa] at h; cases h
    | ok b =>
      rw [hfa] at h
      cases hl : l.mapM f with
      | error e => rw [hl] at h; cases h
      | ok bs =>
        rw [hl] at h
        cases h
        cases j with
        | zero =>
          simp only [List.getElem?_cons_zero, Option.some.injEq] at hx
          subst hx
          exact ⟨b, hfa, rfl⟩
        | succ j =>
          simp only [List.getElem?_cons_succ] at hx
          obtain ⟨y, hy, ho⟩ := mapM_ok_getElem? f l bs hl j x hx
          exact ⟨y, hy, by simpa using ho⟩

variable {α G V : Type}

/-- what a successful `marshal` is made of -/
theorem marshal_ok {table : List (String × Nat)} {c : Call G V α} {m : Marshalled G V α}
    (h : marshal table c = .ok m) :
    ∃ secured : List (String × Conv α × Option Nat),
      c.params.mapM (fun (kv : String × Val α) =>
        (convert kv.2).map fun cv => (kv.1, secure (expected table kv.1) cv)) = .ok secured ∧
      agree (secured.filterMap (·.2.2) ++
        [c.observers.len?, c.position.len?, c.orientation.len?].filterMap id) = some m.n ∧
      m.args = secured.map (fun (k, cv, _) => (k, tileArg (expected table k) m.n cv)) ∧
      m.observers = rows m.n c.observers ∧ m.position = rows m.n c.position ∧
      m.orientation = rows m.n c.orientation := by
  unfold marshal at h
  split at h
  · cases h
  · rename_i secured hs
    simp only [] at h
    split at h
    · cases h
    · rename_i n hn
      cases h
      exact ⟨secured, hs, hn, rfl, rfl, rfl, rfl⟩

theorem marshal_pose_lens {table : List (String × Nat)} {c : Call G V α} {m : Marshalled G V α}
    (h : marshal table c = .ok m) :
    (∀ l, c.observers.len? = some l → l = m.n) ∧ (∀ l, c.position.len? = some l → l = m.n) ∧
    (∀ l, c.orientation.len? = some l → l = m.n) := by
  obtain ⟨secured, _, hn, _⟩ := marshal_ok h
  have hall := agree_eq_some hn
  refine ⟨fun l hl => hall l ?_, fun l hl => hall l ?_, fun l hl => hall l ?_⟩ <;>
    simp [List.mem_append, List.mem_filterMap, hl]

/-! ### arrays -/

theorem flatten_replicate_drop_take (d : List α) : ∀ (n i : Nat), i < n →
    ((List.replicate n d).flatten.drop (i * d.length)).take d.length = d
  | 0, _, h => by omega
  | n + 1, 0, _ => by simp [List.replicate_succ]
  | n + 1, i + 1, h => by
    have ih := flatten_replicate_drop_take d n i (by omega)
    have e : (i + 1) * d.length = d.length + i * d.length := by rw [Nat.add_mul]; omega
    rw [List.replicate_succ, List.flatten_cons, e, List.drop_append]
    have z : d.length + i * d.length - d.length = i * d.length := by omega
    rw [z, List.drop_eq_nil_of_le (by omega), List.nil_append]
    exact ih

theorem prod_replicate_one_append (k : Nat) (s : List Nat) :
    Arr.prod (List.replicate k 1 ++ s) = Arr.prod s := by
  induction k with
  | zero => simp
  | succ k ih => simp [List.replicate_succ, Arr.prod] at *; exact ih

theorem prod_filter_ne_one (s : List Nat) : Arr.prod (s.filter (· ≠ 1)) = Arr.prod s := by
  induction s with
  | nil => rfl
  | cons a s ih =>
    by_cases h : a = 1
    · subst h; simp [Arr.prod] at *; exact ih
    · simp [h, Arr.prod] at *; rw [ih]

theorem squeeze_WF {a : Arr α} (h : a.WF) : a.squeeze.WF := by
  simp only [Arr.WF, Arr.squeeze, prod_filter_ne_one]; exact h

/-- every row of a tiled value is the value itself (promoted to the expected rank − 1 by unit axes) -/
theorem tile_row (e n i : Nat) (hi : i < n) (a : Arr α) (h : a.WF) :
    (a.tile e n).row i = ⟨List.replicate (e - 1 - a.ndim) 1 ++ a.shape, a.data⟩ := by
  have hs : (a.tile e n).stride = a.data.length := by
    simp only [Arr.stride, Arr.tile, List.tail_cons, prod_replicate_one_append]; exact h.symm
  simp only [Arr.row, hs]
  simp only [Arr.tile, List.tail_cons, flatten_replicate_drop_take a.data n i hi]

/-- squeezing a stack of length one leaves fewer axes than the table expects -/
theorem squeeze_ndim_lt {a : Arr α} (h1 : a.len = 1) (hpos : 0 < a.ndim) : a.squeeze.ndim < a.ndim := by
  cases a with
  | mk shape data =>
    cases shape with
    | nil => simp [Arr.ndim] at hpos
    | cons s t =>
      simp only [Arr.len, List.headD_cons] at h1
      subst h1
      simp only [Arr.squeeze, Arr.ndim, List.filter_cons, ne_eq, not_true_eq_false, decide_false,
        Bool.false_eq_true, if_false, List.length_cons]
      exact Nat.lt_succ_of_le (List.length_filter_le _ _)

end MagpyVerif.DictIface
