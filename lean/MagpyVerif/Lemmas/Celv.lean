/-
Lemmas/Celv.lean — the vectorised `celv` / dispatcher `cel` (Model/Celv.lean):
  * carrier-independent structure: the masked batch loop acts on every entry as the scalar
    "body first, then test" loop `celvDo` (so in particular at `Float`, the carrier the driver runs);
  * relation to `cel0` (test first): equal when `cel0` executes its loop body at least once;
  * exact arithmetic: termination with the bound of `cel0`, non-termination at `kc = 0`.
-/
import MagpyVerif.Model.Celv
import MagpyVerif.Lemmas.CelAGM

namespace MagpyVerif.Kern

/-! ### `seqOpt` -/

theorem seqOpt_map_some {β : Type} : ∀ l : List β, seqOpt (l.map some) = some l
  | [] => rfl
  | a :: t => by simp [seqOpt, seqOpt_map_some t]

theorem seqOpt_eq_some_iff {β : Type} : ∀ (l : List (Option β)) (v : List β),
    seqOpt l = some v ↔ l = v.map some
  | [], v => by cases v <;> simp [seqOpt]
  | none :: t, v => by cases v <;> simp [seqOpt]
  | some a :: t, v => by
    have ih := seqOpt_eq_some_iff t
    cases v with
    | nil => simp only [seqOpt]; cases seqOpt t <;> simp
    | cons b w =>
      simp only [seqOpt, List.map_cons, List.cons.injEq, Option.some.injEq]
      cases h : seqOpt t with
      | none =>
        simp only [reduceCtorEq, false_iff, not_and]
        intro _ htw
        rw [(ih w).mpr htw] at h
        cases h
      | some u =>
        simp only [Option.some.injEq, List.cons.injEq]
        rw [← ih w, h, Option.some.injEq]

theorem seqOpt_eq_none_of_mem {β : Type} : ∀ (l : List (Option β)), none ∈ l → seqOpt l = none
  | [], h => by cases h
  | none :: t, _ => rfl
  | some a :: t, h => by
    have : none ∈ t := by simpa using h
    simp [seqOpt, seqOpt_eq_none_of_mem t this]

theorem seqOpt_isSome_iff {β : Type} (l : List (Option β)) :
    (seqOpt l).isSome ↔ ∀ o ∈ l, o.isSome = true := by
  induction l with
  | nil => simp [seqOpt]
  | cons o t ih =>
    cases o with
    | none => simp [seqOpt]
    | some a =>
      simp only [seqOpt, List.mem_cons, forall_eq_or_imp, Option.isSome_some, true_and]
      rw [← ih]
      cases seqOpt t <;> simp

/-- entry `i` of the result is the `i`-th computation's value -/
theorem seqOpt_map_getElem {β γ : Type} (F : β → Option γ) (l : List β) (v : List γ)
    (h : seqOpt (l.map F) = some v) :
    ∃ hl : v.length = l.length, ∀ (i : ℕ) (hi : i < l.length), F l[i] = some (v[i]'(hl ▸ hi)) := by
  rw [seqOpt_eq_some_iff] at h
  have hl : v.length = l.length := by
    have := congrArg List.length h
    simpa using this.symm
  refine ⟨hl, fun i hi => ?_⟩
  have h1 : (l.map F)[i]'(by simpa using hi) = (v.map some)[i]'(by simpa [hl] using hi) := by
    simp only [h]
  simpa using h1

section generic
variable {α : Type} [Num α]
open Num

/-! ### the scalar loops -/

/-- `celvRowLoop` is `cel0Loop` (Model/Kernels.lean) on the row's fields -/
theorem celvRowLoop_eq_cel0Loop (fuel : ℕ) : ∀ r : CelvRow α,
    celvRowLoop fuel r = cel0Loop fuel r.k r.kk r.cc r.ss r.pp r.g r.em := by
  induction fuel with
  | zero => intro r; rfl
  | succ f ih =>
    intro r
    rw [celvRowLoop, cel0Loop, ih]
    rfl

/-- body first, then test = test-first loop started one pass later -/
theorem celvDo_eq_rowLoop (fuel : ℕ) : ∀ r : CelvRow α,
    celvDo fuel r = celvRowLoop fuel (celvStep r) := by
  induction fuel with
  | zero => intro r; rfl
  | succ f ih =>
    intro r
    rw [celvDo, celvRowLoop]
    simp only [ih]

theorem celvRowLoop_succ_of_cont {fuel : ℕ} {r : CelvRow α} (h : celvCont r = true) :
    celvRowLoop (fuel + 1) r = celvDo fuel r := by
  rw [celvRowLoop, if_pos h, celvDo_eq_rowLoop]

theorem celvRowLoop_succ_of_not_cont {fuel : ℕ} {r : CelvRow α} (h : celvCont r = false) :
    celvRowLoop (fuel + 1) r = some (celvOut r) := by
  rw [celvRowLoop, h]; rfl

/-! ### the masked batch loop, entry by entry -/

/-- per-entry meaning of a loop state -/
def celvEntry (fuel : ℕ) (e : CelvRow α × Bool) : Option α :=
  if e.2 then celvDo fuel e.1 else some (celvOut e.1)

theorem celvLoop_of_no_mask (st : List (CelvRow α × Bool)) (fuel : ℕ)
    (h : st.any (fun e => e.2) = false) :
    seqOpt (st.map (celvEntry fuel)) = some (st.map fun e => celvOut e.1) := by
  rw [List.any_eq_false] at h
  have : st.map (celvEntry fuel) = (st.map fun e => celvOut e.1).map some := by
    rw [List.map_map]
    apply List.map_congr_left
    intro e he
    have := h e he
    simp only [Bool.not_eq_true] at this
    simp [celvEntry, this]
  rw [this, seqOpt_map_some]

/-- the batch loop computes, for every entry, `celvDo` of that entry (entries already out of the
loop keep their value).  Hypothesis: the mask bit of an entry that is out is what the code would
recompute for it (true of every state the loop produces, and of the initial all-ones mask) -/
theorem celvLoop_char (fuel : ℕ) : ∀ (st : List (CelvRow α × Bool)),
    (∀ e ∈ st, e.2 = false → celvCont e.1 = false) →
    celvLoop fuel st = seqOpt (st.map (celvEntry fuel)) := by
  induction fuel with
  | zero =>
    intro st _
    rw [celvLoop]
    split_ifs with hany
    · obtain ⟨e, he, h2⟩ := List.any_eq_true.mp hany
      symm
      apply seqOpt_eq_none_of_mem
      apply List.mem_map.mpr
      exact ⟨e, he, by simp [celvEntry, h2, celvDo]⟩
    · simp only [Bool.not_eq_true] at hany
      rw [celvLoop_of_no_mask st 0 hany]
  | succ f ih =>
    intro st hinv
    rw [celvLoop]
    split_ifs with hany
    · rw [ih]
      · rw [List.map_map]
        congr 1
        apply List.map_congr_left
        intro e he
        cases h2 : e.2 with
        | true =>
          simp only [Function.comp, celvEntry, h2, if_true]
          rw [celvDo]
        | false =>
          have := hinv e he h2
          simp [Function.comp, celvEntry, h2, this]
      · intro e' he' h'
        obtain ⟨e, _, rfl⟩ := List.mem_map.mp he'
        exact h'
    · simp only [Bool.not_eq_true] at hany
      rw [celvLoop_of_no_mask st (f + 1) hany]

/-- **`celv` is row-wise**: the result for a batch is, entry by entry, `celv1` of that entry —
on every carrier (exact reals and IEEE doubles alike), for every batch length, with the same
fuel; `none` iff some entry's own loop has not ended after `fuel` passes -/
theorem celv_eq_seqOpt_celv1 (fuel : ℕ) (batch : List (CelArg α)) :
    celv fuel batch = seqOpt (batch.map (celv1 fuel)) := by
  unfold celv
  rw [celvLoop_char]
  · rw [List.map_map]
    rfl
  · intro e he h2
    obtain ⟨x, _, rfl⟩ := List.mem_map.mp he
    cases h2

/-! ### relation to `cel0` -/

theorem cel0Pre_eq_celvPre (kc p c s : α) (hp : lt (n 0) p = !le p (n 0)) :
    cel0Pre kc p c s = celvPre kc p c s := by
  unfold cel0Pre celvPre
  rw [hp]
  cases le p (n 0) <;> rfl

/-- `cel0` in terms of the row functions (given that the two prologue tests `p > 0` / `p <= 0`
select the same branch, i.e. `p` is not NaN) -/
theorem cel0Arg_eq (fuel : ℕ) (x : CelArg α) (hp : lt (n 0) x.p = !le x.p (n 0)) :
    cel0Arg fuel x = if eq0 x.kc then none else celvRowLoop fuel (celvInit x) := by
  unfold cel0Arg cel0
  rw [celvRowLoop_eq_cel0Loop, cel0Pre_eq_celvPre _ _ _ _ hp]
  rfl

/-- an entry on which `cel0` passes through its loop body at least once (and does not raise):
`cel0` with `fuel + 1` tests = `celv1` with `fuel` passes -/
theorem cel0Arg_eq_celv1 (fuel : ℕ) (x : CelArg α) (hp : lt (n 0) x.p = !le x.p (n 0))
    (hkc : eq0 x.kc = false) (hc : celvCont (celvInit x) = true) :
    cel0Arg (fuel + 1) x = celv1 fuel x := by
  rw [cel0Arg_eq _ _ hp, hkc, celvRowLoop_succ_of_cont hc]
  rfl

/-- an entry on which `cel0` returns without a pass: its value is the return expression at the
initial state, while `celv` evaluates it one pass later -/
theorem cel0Arg_of_not_cont (fuel : ℕ) (x : CelArg α) (hp : lt (n 0) x.p = !le x.p (n 0))
    (hkc : eq0 x.kc = false) (hc : celvCont (celvInit x) = false) :
    cel0Arg (fuel + 1) x = some (celvOut (celvInit x)) := by
  rw [cel0Arg_eq _ _ hp, hkc, celvRowLoop_succ_of_not_cont hc]
  rfl

/-! ### re-indexing and permuting a batch -/

theorem map_eq_map_some_of_isSome {β γ : Type} (F : β → Option γ) : ∀ l : List β,
    (∀ x ∈ l, (F x).isSome = true) → l.map F = (l.filterMap F).map some
  | [], _ => rfl
  | a :: t, h => by
    obtain ⟨v, hv⟩ := Option.isSome_iff_exists.mp (h a (by simp))
    have ih := map_eq_map_some_of_isSome F t (fun x hx => h x (by simp [hx]))
    simp [hv, ← ih]

theorem zip_of_map_eq_map_some {β γ : Type} (F : β → Option γ) : ∀ (l : List β) (v : List γ),
    l.map F = v.map some → l.zip v = l.filterMap (fun x => (F x).map (fun y => (x, y)))
  | [], v, _ => by simp
  | a :: t, [], h => by simp at h
  | a :: t, b :: w, h => by
    simp only [List.map_cons, List.cons.injEq] at h
    simp [h.1, zip_of_map_eq_map_some F t w h.2]

theorem isSome_of_map_eq_map_some {β γ : Type} (F : β → Option γ) (l : List β) (v : List γ)
    (h : l.map F = v.map some) : ∀ x ∈ l, (F x).isSome = true := by
  intro x hx
  have : F x ∈ v.map some := h ▸ List.mem_map.mpr ⟨x, hx, rfl⟩
  obtain ⟨y, _, hy⟩ := List.mem_map.mp this
  rw [← hy]; rfl

/-- any re-indexing of a batch (sub-batch, other order, repeated entries, other length) re-indexes
the result -/
theorem celv_reindex (fuel : ℕ) (batch : List (CelArg α)) (vs : List α)
    (h : celv fuel batch = some vs) :
    ∃ hl : vs.length = batch.length, ∀ idx : List (Fin batch.length),
      celv fuel (idx.map fun i => batch[i.1]) = some (idx.map fun i => vs[i.1]'(by have := i.2; omega)) := by
  rw [celv_eq_seqOpt_celv1] at h
  obtain ⟨hl, hget⟩ := seqOpt_map_getElem _ _ _ h
  refine ⟨hl, fun idx => ?_⟩
  rw [celv_eq_seqOpt_celv1, seqOpt_eq_some_iff, List.map_map, List.map_map]
  apply List.map_congr_left
  intro i _
  exact hget i.1 i.2

/-- permuting the batch permutes the (entry, value) pairs -/
theorem celv_perm' (fuel : ℕ) {l1 l2 : List (CelArg α)} (hp : l1.Perm l2) {v1 : List α}
    (h : celv fuel l1 = some v1) :
    ∃ v2, celv fuel l2 = some v2 ∧ (l1.zip v1).Perm (l2.zip v2) := by
  rw [celv_eq_seqOpt_celv1, seqOpt_eq_some_iff] at h
  have hs1 := isSome_of_map_eq_map_some _ _ _ h
  have hs2 : ∀ x ∈ l2, (celv1 fuel x).isSome = true := fun x hx => hs1 x (hp.mem_iff.mpr hx)
  have h2 := map_eq_map_some_of_isSome (celv1 fuel) l2 hs2
  refine ⟨l2.filterMap (celv1 fuel), ?_, ?_⟩
  · rw [celv_eq_seqOpt_celv1, seqOpt_eq_some_iff]; exact h2
  · rw [zip_of_map_eq_map_some _ _ _ h, zip_of_map_eq_map_some _ _ _ h2]
    exact hp.filterMap _

end generic

/-! ### the masked-loop skeleton (`el3v`) is row-wise -/

namespace MaskedLoop
variable {σ : Type} (L : MaskedLoop σ)

/-- per-entry meaning of a loop state -/
def entry (fuel : ℕ) (e : σ × Bool) : Option σ := if e.2 then L.run1 fuel e.1 else some e.1

theorem run_of_no_mask (st : List (σ × Bool)) (fuel : ℕ) (h : st.any (fun e => e.2) = false) :
    seqOpt (st.map (L.entry fuel)) = some (st.map fun e => e.1) := by
  rw [List.any_eq_false] at h
  have : st.map (L.entry fuel) = (st.map fun e => e.1).map some := by
    rw [List.map_map]
    apply List.map_congr_left
    intro e he
    have := h e he
    simp only [Bool.not_eq_true] at this
    simp [entry, this]
  rw [this, seqOpt_map_some]

theorem run_char (fuel : ℕ) : ∀ (st : List (σ × Bool)),
    (∀ e ∈ st, e.2 = false → L.test e.1 = false) →
    L.run fuel st = seqOpt (st.map (L.entry fuel)) := by
  induction fuel with
  | zero =>
    intro st _
    rw [run]
    split_ifs with hany
    · obtain ⟨e, he, h2⟩ := List.any_eq_true.mp hany
      symm
      apply seqOpt_eq_none_of_mem
      apply List.mem_map.mpr
      exact ⟨e, he, by simp [entry, h2, run1]⟩
    · simp only [Bool.not_eq_true] at hany
      rw [L.run_of_no_mask st 0 hany]
  | succ f ih =>
    intro st hinv
    rw [run]
    split_ifs with hany
    · rw [ih]
      · rw [List.map_map]
        congr 1
        apply List.map_congr_left
        intro e he
        cases h2 : e.2 with
        | true =>
          simp only [Function.comp, entry, pass, h2, if_true]
          rw [run1]
          cases L.test (L.body e.1) <;> simp
        | false =>
          have := hinv e he h2
          simp [Function.comp, entry, pass, h2, this]
      · intro e' he' h'
        obtain ⟨e, _, rfl⟩ := List.mem_map.mp he'
        simp only [pass] at h' ⊢
        simp only [h', Bool.false_eq_true, if_false]
    · simp only [Bool.not_eq_true] at hany
      rw [L.run_of_no_mask st (f + 1) hany]

/-- started with the all-ones mask, the array loop is the scalar loop entry by entry -/
theorem run_rowwise (fuel : ℕ) (batch : List σ) :
    L.run fuel (batch.map fun s => (s, true)) = seqOpt (batch.map (L.run1 fuel)) := by
  rw [L.run_char]
  · rw [List.map_map]; rfl
  · intro e he h2
    obtain ⟨x, _, rfl⟩ := List.mem_map.mp he
    cases h2

end MaskedLoop

/-- `celv`'s loop is the instance `body = celvStep`, `test = celvCont`, `post = id` of the skeleton -/
theorem celvLoop_eq_maskedLoop {α : Type} [Num α] (fuel : ℕ) : ∀ st : List (CelvRow α × Bool),
    celvLoop fuel st =
      ((⟨celvStep, celvCont, id⟩ : MaskedLoop (CelvRow α)).run fuel st).map (fun l => l.map celvOut) := by
  induction fuel with
  | zero =>
    intro st
    rw [celvLoop, MaskedLoop.run]
    split_ifs <;> simp
  | succ f ih =>
    intro st
    rw [celvLoop, MaskedLoop.run]
    split_ifs
    · rw [ih]
      congr 3
      funext e
      simp [MaskedLoop.pass]
    · simp

/-! ### exact arithmetic -/

@[simp] theorem celvInit_k (x : CelArg ℝ) : (celvInit x).k = |x.kc| := rfl
@[simp] theorem celvInit_kk (x : CelArg ℝ) : (celvInit x).kk = |x.kc| := rfl
@[simp] theorem celvInit_g (x : CelArg ℝ) : (celvInit x).g = 1 := by simp [celvInit, Kern.n]
@[simp] theorem celvInit_em (x : CelArg ℝ) : (celvInit x).em = |x.kc| + 1 := by simp [celvInit, Kern.n]

@[simp] theorem celvStep_k (r : CelvRow ℝ) : (celvStep r).k = 2 * √r.kk := by simp [celvStep, Kern.n]
@[simp] theorem celvStep_kk (r : CelvRow ℝ) : (celvStep r).kk = 2 * √r.kk * r.em := by
  simp [celvStep, Kern.n]
@[simp] theorem celvStep_g (r : CelvRow ℝ) : (celvStep r).g = r.em := rfl
@[simp] theorem celvStep_em (r : CelvRow ℝ) : (celvStep r).em = 2 * √r.kk + r.em := by
  simp [celvStep, Kern.n]

theorem celvCont_iff (r : CelvRow ℝ) : celvCont r = true ↔ r.g * (1 / 1000000) < |r.g - r.k| := by
  simp [celvCont, Kern.n]

/-- `cel0` enters its loop body iff `|kc|` is farther than 1e-6 from 1 -/
theorem celvCont_init_iff (x : CelArg ℝ) :
    celvCont (celvInit x) = true ↔ 1 / 1000000 < |1 - (|x.kc|)| := by
  rw [celvCont_iff]; simp

theorem prologue_tests_agree_real (p : ℝ) :
    (Num.lt (Kern.n 0 : ℝ) p) = !(Num.le p (Kern.n 0 : ℝ)) := by
  simp only [Kern.n, ofNat_real, lt_real, le_real, Nat.cast_zero]
  by_cases h : 0 < p
  · simp [h]
  · simp [h, not_lt.mp h]

/-- termination of one entry of `celv` in exact arithmetic, with the bound of `cel0` -/
theorem celv1_isSome_celFuel1 (x : CelArg ℝ) (hkc : x.kc ≠ 0) :
    (celv1 (celFuel1 |x.kc| (1 / 1000000)) x).isSome := by
  have hk : 0 < |x.kc| := abs_pos.mpr hkc
  have hmin : 0 < min 1 |x.kc| := lt_min one_pos hk
  have hD : |1 - (|x.kc|)| ≤ |1 - (|x.kc|)| / min 1 |x.kc| * min 1 |x.kc| := by
    rw [div_mul_cancel₀ _ hmin.ne']
  have hgap := agm_gap_halves one_pos hk hD
  obtain ⟨h1, _, _, _⟩ := agm_step one_pos hk
  have hspec := agmSteps_spec (|1 - (|x.kc|)| / min 1 |x.kc|) (1 / 1000000) (by norm_num)
  have hD0 : 0 ≤ |1 - (|x.kc|)| / min 1 |x.kc| := div_nonneg (abs_nonneg _) hmin.le
  unfold celv1 celFuel1
  rw [celvDo_eq_rowLoop, celvRowLoop_eq_cel0Loop]
  simp only [celvStep_k, celvStep_kk, celvStep_g, celvStep_em, celvInit_kk, celvInit_em]
  rw [mul_one] at h1 hgap
  apply cel0Loop_isSome_of_inv _ (|1 - (|x.kc|)| / min 1 |x.kc| / 2) _ _ _ _ _ _ _ (by linarith) h1
    (add_comm _ _) rfl
  · rw [add_comm |x.kc| 1]; exact hgap
  · linarith

theorem celvDo_fuel_mono (n k : ℕ) (r : CelvRow ℝ) (v : ℝ) (h : celvDo n r = some v) :
    celvDo (n + k) r = some v := by
  rw [celvDo_eq_rowLoop, celvRowLoop_eq_cel0Loop] at h ⊢
  exact cel0Loop_fuel_mono n k _ _ _ _ _ _ _ v h

theorem celv1_isSome_mono {n m : ℕ} (hnm : n ≤ m) {x : CelArg ℝ} (h : (celv1 n x).isSome) :
    (celv1 m x).isSome := by
  obtain ⟨v, hv⟩ := Option.isSome_iff_exists.mp h
  obtain ⟨k, rfl⟩ := Nat.exists_eq_add_of_le hnm
  unfold celv1 at hv ⊢
  rw [celvDo_fuel_mono n k _ v hv]; rfl

/-- fuel sufficient for a batch: the largest of the entries' `cel0` bounds -/
noncomputable def celvFuel (batch : List (CelArg ℝ)) : ℕ :=
  batch.foldr (fun x acc => max (celFuel1 |x.kc| (1 / 1000000)) acc) 0

theorem celFuel1_le_celvFuel {batch : List (CelArg ℝ)} {x : CelArg ℝ} (hx : x ∈ batch) :
    celFuel1 |x.kc| (1 / 1000000) ≤ celvFuel batch := by
  induction batch with
  | nil => cases hx
  | cons a t ih =>
    rcases List.mem_cons.mp hx with rfl | h
    · exact le_max_left _ _
    · exact le_trans (ih h) (le_max_right _ _)

theorem celv_isSome_celvFuel (batch : List (CelArg ℝ)) (hkc : ∀ x ∈ batch, x.kc ≠ 0) (fuel : ℕ)
    (hf : celvFuel batch ≤ fuel) : (celv fuel batch).isSome := by
  rw [celv_eq_seqOpt_celv1, seqOpt_isSome_iff]
  intro o ho
  obtain ⟨x, hx, rfl⟩ := List.mem_map.mp ho
  exact celv1_isSome_mono (le_trans (celFuel1_le_celvFuel hx) hf) (celv1_isSome_celFuel1 x (hkc x hx))

/-- with `kk = 0`, `em = 1` the loop variables stay `k = 0`, `g = 1`: the test never fails -/
theorem celvDo_none_of_kk_zero (fuel : ℕ) : ∀ r : CelvRow ℝ, r.kk = 0 → r.em = 1 →
    celvDo fuel r = none := by
  induction fuel with
  | zero => intro r _ _; rfl
  | succ f ih =>
    intro r hkk hem
    rw [celvDo]
    have hc : celvCont (celvStep r) = true := by
      rw [celvCont_iff]; simp [hkk, hem]; norm_num
    simp only [hc, if_true]
    apply ih
    · simp [hkk]
    · simp [hkk, hem]

theorem celv1_none_of_kc_zero (fuel : ℕ) (x : CelArg ℝ) (hkc : x.kc = 0) : celv1 fuel x = none := by
  unfold celv1
  apply celvDo_none_of_kk_zero
  · simp [hkc]
  · simp [hkc]

/-! ### the band `0 < |1 − |kc|| ≤ 1e-6`: `cel0` and `celv` return different numbers -/

theorem band_out0 (k : ℝ) (hk : 0 < k) : celvOut (celvInit ⟨k, 1, 1, 1⟩) = Real.pi / (1 + k) := by
  have h1 : ¬ ((1 : ℝ) ≤ 0) := by norm_num
  simp only [celvOut, celvInit, celvPre, Kern.n, ofNat_real, le_real, sqrt_real, abs_real, pi_real,
    Nat.cast_one, Nat.cast_ofNat, Nat.cast_zero, decide_eq_true_eq, if_neg h1, Real.sqrt_one,
    abs_of_pos hk]
  field_simp
  ring

theorem band_out1 (k : ℝ) (hk : 0 < k) :
    celvOut (celvStep (celvInit ⟨k, 1, 1, 1⟩)) = 2 * Real.pi / (1 + √k) ^ 2 := by
  have h1 : ¬ ((1 : ℝ) ≤ 0) := by norm_num
  have ht : 0 < √k := Real.sqrt_pos.2 hk
  have hkt : k = √k * √k := (Real.mul_self_sqrt hk.le).symm
  simp only [celvOut, celvStep, celvInit, celvPre, Kern.n, ofNat_real, le_real, sqrt_real, abs_real,
    pi_real, Nat.cast_one, Nat.cast_ofNat, Nat.cast_zero, decide_eq_true_eq, if_neg h1, Real.sqrt_one,
    abs_of_pos hk]
  generalize √k = t at *
  subst hkt
  field_simp
  ring

theorem band_values_differ (k : ℝ) (hk : 0 < k) (hk1 : k ≠ 1) :
    Real.pi / (1 + k) ≠ 2 * Real.pi / (1 + √k) ^ 2 := by
  have ht : 0 < √k := Real.sqrt_pos.2 hk
  have hkt : k = √k * √k := (Real.mul_self_sqrt hk.le).symm
  intro h
  rw [div_eq_div_iff (by positivity) (by positivity)] at h
  have h2 : (1 + √k) ^ 2 = 2 * (1 + k) := by
    have := mul_left_cancel₀ Real.pi_ne_zero (by linarith : Real.pi * (1 + √k) ^ 2 = Real.pi * (2 * (1 + k)))
    exact this
  have h3 : (1 - √k) ^ 2 = 0 := by nlinarith
  have h4 : √k = 1 := by
    have := pow_eq_zero_iff (two_ne_zero) |>.mp h3
    linarith
  apply hk1
  rw [hkt, h4]; ring

/-- in the band both routines return after the fewest possible steps: `cel0` without a pass, `celv`
after its one forced pass -/
theorem band_cel0_value (fuel : ℕ) (k : ℝ) (hk : 0 < k) (hband : |1 - k| ≤ 1 / 1000000) :
    cel0Arg (fuel + 1) ⟨k, 1, 1, 1⟩ = some (Real.pi / (1 + k)) := by
  rw [cel0Arg_of_not_cont _ _ (prologue_tests_agree_real _) (by simp [hk.ne']), band_out0 k hk]
  rw [← Bool.not_eq_true, celvCont_init_iff]
  simp only [abs_of_pos hk]
  linarith

theorem band_celv1_value (fuel : ℕ) (k : ℝ) (hk : 0 < k) (hband : |1 - k| ≤ 1 / 1000000) :
    celv1 (fuel + 1) ⟨k, 1, 1, 1⟩ = some (2 * Real.pi / (1 + √k) ^ 2) := by
  have hc : celvCont (celvStep (celvInit (⟨k, 1, 1, 1⟩ : CelArg ℝ))) = false := by
    rw [← Bool.not_eq_true, celvCont_iff]
    simp only [celvStep_g, celvStep_k, celvInit_em, celvInit_kk, abs_of_pos hk, not_lt]
    obtain ⟨_, _, _, h4⟩ := agm_step one_pos hk
    rw [mul_one] at h4
    have hk2 : 1 - 1 / 1000000 ≤ k := by
      have := (abs_le.mp hband).2
      linarith
    calc |k + 1 - 2 * √k| = |1 + k - 2 * √k| := by rw [add_comm]
      _ ≤ |1 - k| := h4
      _ ≤ 1 / 1000000 := hband
      _ ≤ (k + 1) * (1 / 1000000) := by nlinarith
  unfold celv1
  rw [celvDo]
  simp only [hc, Bool.false_eq_true, if_false]
  rw [band_out1 k hk]

end MagpyVerif.Kern
