/-
Lemmas/SolidAngle.lean — C13: the Van Oosterom–Strackee solid angle of `triangle_Bfield` (`solid_angle` of field_BH_triangle.py,
Model/Kernels.lean `solidAngle`) is additive when the triangle `(a, b, c)` is cut through a point `m = a + τ (b − a)` of its first
edge.

With `z(R0, R1, R2) = D + iN` (`N = R2·(R1×R0)`, `D = r0 r1 r2 + (R2·R1) r0 + (R2·R0) r1 + (R1·R0) r2`) the code returns
`Ω = 2·arg z`, replaced by 0 when `|Ω| > 6.2831853`.
  * `N(a,m,c) = τ N(a,b,c)`, `N(m,b,c) = (1−τ) N(a,b,c)` (`saN_split1/2`);
  * `z(a,m,c) · z(m,b,c) = k · z(a,b,c)` with the REAL factor `k = (r_m r_c + R_m·R_c)(r_m + (1−τ) r_a + τ r_b)`
    (`saZ_factor`), `k > 0` unless the observer lies on the closed segment `m c` (`saK_pos`);
  * `|z|² = 2 (r0 r1 + R0·R1)(r1 r2 + R1·R2)(r0 r2 + R0·R2)` (`saZ_normSq`): `z = 0` exactly for an observer on a closed edge;
  * hence `arg z₁ + arg z₂ ≡ arg z (mod 2π)` off the five closed segments (`saArg_add_angle`, `solidAngleRaw_add_mod`), and for an
    observer off the plane of the triangle (`N ≠ 0`, all three `N` of one sign, all three arguments in `(0, π)` or in `(−π, 0)`)
    `arg z₁ + arg z₂ = arg z` in ℝ (`saArg_add`);
  * the clamp: off the plane the pieces' solid angles are not larger in absolute value than the whole's, so they add up to the
    modelled value of the whole exactly when the whole is not clamped (`solidAngleAdditive_iff_of_offplane`).
-/
import MagpyVerif.Lemmas.TriangleSplit
import MagpyVerif.Lemmas.TrimeshGlue
import Mathlib.Analysis.SpecialFunctions.Trigonometric.Angle
import Mathlib.Analysis.SpecialFunctions.Trigonometric.Bounds

namespace MagpyVerif.Kern
open MagpyVerif

/-! ### scalar identities (in the lengths and the scalar products) -/

/-- the real part of `z₁ z₂ = k z`; `rm² = |(1−t) Ra + t Rb|²` is the only relation used -/
theorem sa_factor_re (ra rb rc rm p q s t N2 : ℝ)
    (hrm : rm ^ 2 = (1 - t) ^ 2 * ra ^ 2 + 2 * t * (1 - t) * p + t ^ 2 * rb ^ 2)
    (hN2 : N2 = ra ^ 2 * rb ^ 2 * rc ^ 2 + 2 * p * q * s - ra ^ 2 * s ^ 2 - rb ^ 2 * q ^ 2 - rc ^ 2 * p ^ 2) :
    (ra * rm * rc + ((1 - t) * q + t * s) * ra + q * rm + ((1 - t) * ra ^ 2 + t * p) * rc) *
        (rm * rb * rc + s * rm + ((1 - t) * q + t * s) * rb + ((1 - t) * p + t * rb ^ 2) * rc) - t * (1 - t) * N2 =
      (rm * rc + ((1 - t) * q + t * s)) * (rm + (1 - t) * ra + t * rb) * (ra * rb * rc + s * ra + q * rb + p * rc) := by
  subst hN2
  linear_combination ((q + ra * rc) * (rb * rc + s) - rc * (ra * rb * rc + s * ra + q * rb + p * rc)) * hrm

/-- the factor `k` is `(1−t) D₁ + t D₂` -/
theorem sa_factor_k (ra rb rc rm p q s t : ℝ)
    (hrm : rm ^ 2 = (1 - t) ^ 2 * ra ^ 2 + 2 * t * (1 - t) * p + t ^ 2 * rb ^ 2) :
    (1 - t) * (ra * rm * rc + ((1 - t) * q + t * s) * ra + q * rm + ((1 - t) * ra ^ 2 + t * p) * rc) +
        t * (rm * rb * rc + s * rm + ((1 - t) * q + t * s) * rb + ((1 - t) * p + t * rb ^ 2) * rc) =
      (rm * rc + ((1 - t) * q + t * s)) * (rm + (1 - t) * ra + t * rb) := by
  linear_combination (-rc) * hrm

/-- `|z|²` -/
theorem sa_normSq (ra rb rc p q s : ℝ) :
    (ra * rb * rc + s * ra + q * rb + p * rc) ^ 2 +
        (ra ^ 2 * rb ^ 2 * rc ^ 2 + 2 * p * q * s - ra ^ 2 * s ^ 2 - rb ^ 2 * q ^ 2 - rc ^ 2 * p ^ 2) =
      2 * (ra * rb + p) * (rb * rc + s) * (ra * rc + q) := by
  ring

/-! ### numerator, denominator, `z` -/

/-- numerator of the arctan2 of `solid_angle`: the signed volume `R2·(R1×R0)` -/
def saN (R0 R1 R2 : V3 ℝ) : ℝ := V3.dot R2 (V3.cross R1 R0)

/-- denominator of the arctan2 of `solid_angle` -/
noncomputable def saD (R0 R1 R2 : V3 ℝ) : ℝ :=
  Kern.norm R0 * Kern.norm R1 * Kern.norm R2 + V3.dot R2 R1 * Kern.norm R0 + V3.dot R2 R0 * Kern.norm R1 +
    V3.dot R1 R0 * Kern.norm R2

/-- `z = D + iN` -/
noncomputable def saZ (R0 R1 R2 : V3 ℝ) : ℂ := ⟨saD R0 R1 R2, saN R0 R1 R2⟩

/-- the solid angle before the clamp -/
noncomputable def solidAngleRaw (R0 R1 R2 : V3 ℝ) : ℝ := 2 * Complex.arg (saZ R0 R1 R2)

/-- the value of the code is clamped to 0 -/
def SolidAngleClamped (R0 R1 R2 : V3 ℝ) : Prop := (62831853 : ℝ) / 10000000 < |solidAngleRaw R0 R1 R2|

theorem solidAngle_norm_eq (R0 R1 R2 : V3 ℝ) :
    solidAngle R0 R1 R2 (Kern.norm R0) (Kern.norm R1) (Kern.norm R2) = solidAngleS (saN R0 R1 R2) (saD R0 R1 R2) :=
  solidAngle_eq mu0R R0 R1 R2 _ _ _

theorem solidAngle_clamp (R0 R1 R2 : V3 ℝ) :
    solidAngle R0 R1 R2 (Kern.norm R0) (Kern.norm R1) (Kern.norm R2) =
      if (62831853 : ℝ) / 10000000 < |solidAngleRaw R0 R1 R2| then 0 else solidAngleRaw R0 R1 R2 := by
  rw [solidAngle_norm_eq]
  simp only [solidAngleS, solidAngleRaw, saZ]
  rfl

theorem norm_sq_dot (v : V3 ℝ) : Kern.norm v ^ 2 = V3.dot v v := by
  have h : 0 ≤ v.x * v.x + v.y * v.y + v.z * v.z := by nlinarith [mul_self_nonneg v.x, mul_self_nonneg v.y, mul_self_nonneg v.z]
  simp only [Kern.norm, sqrt_real, V3.dot]
  exact Real.sq_sqrt h

/-- Gram determinant -/
theorem saN_sq (R0 R1 R2 : V3 ℝ) :
    saN R0 R1 R2 ^ 2 = V3.dot R0 R0 * V3.dot R1 R1 * V3.dot R2 R2 + 2 * V3.dot R1 R0 * V3.dot R2 R0 * V3.dot R2 R1 -
      V3.dot R0 R0 * V3.dot R2 R1 ^ 2 - V3.dot R1 R1 * V3.dot R2 R0 ^ 2 - V3.dot R2 R2 * V3.dot R1 R0 ^ 2 := by
  simp only [saN, V3.dot, V3.cross]; ring

/-- `|z|² = 2 (r0 r1 + R0·R1)(r1 r2 + R1·R2)(r0 r2 + R0·R2)` -/
theorem saZ_normSq (R0 R1 R2 : V3 ℝ) :
    saD R0 R1 R2 ^ 2 + saN R0 R1 R2 ^ 2 =
      2 * (Kern.norm R0 * Kern.norm R1 + V3.dot R1 R0) * (Kern.norm R1 * Kern.norm R2 + V3.dot R2 R1) *
        (Kern.norm R0 * Kern.norm R2 + V3.dot R2 R0) := by
  rw [saN_sq, ← norm_sq_dot R0, ← norm_sq_dot R1, ← norm_sq_dot R2, saD]
  have := sa_normSq (Kern.norm R0) (Kern.norm R1) (Kern.norm R2) (V3.dot R1 R0) (V3.dot R2 R0) (V3.dot R2 R1)
  linarith

theorem saZ_ne_zero (R0 R1 R2 : V3 ℝ) (h01 : 0 < Kern.norm R0 * Kern.norm R1 + V3.dot R1 R0)
    (h12 : 0 < Kern.norm R1 * Kern.norm R2 + V3.dot R2 R1) (h02 : 0 < Kern.norm R0 * Kern.norm R2 + V3.dot R2 R0) :
    saZ R0 R1 R2 ≠ 0 := by
  intro h
  have hre : saD R0 R1 R2 = 0 := by simpa [saZ] using congrArg Complex.re h
  have him : saN R0 R1 R2 = 0 := by simpa [saZ] using congrArg Complex.im h
  have := saZ_normSq R0 R1 R2
  rw [hre, him] at this
  have hp : 0 < 2 * (Kern.norm R0 * Kern.norm R1 + V3.dot R1 R0) * (Kern.norm R1 * Kern.norm R2 + V3.dot R2 R1) *
      (Kern.norm R0 * Kern.norm R2 + V3.dot R2 R0) := by positivity
  nlinarith

/-! ### the cut point on the first edge -/

/-- the cut point seen from the observer -/
noncomputable def saM (Ra Rb : V3 ℝ) (τ : ℝ) : V3 ℝ := Ra + vs τ (Rb - Ra)

theorem saM_sub (a b obs : V3 ℝ) (τ : ℝ) : a + vs τ (b - a) - obs = saM (a - obs) (b - obs) τ := by
  apply V3.ext' <;> simp [saM, vs] <;> ring

theorem saN_split1 (Ra Rb Rc : V3 ℝ) (τ : ℝ) : saN Ra (saM Ra Rb τ) Rc = τ * saN Ra Rb Rc := by
  simp only [saN, saM, V3.dot, V3.cross, vs, V3.add_x, V3.add_y, V3.add_z, V3.sub_x, V3.sub_y, V3.sub_z]; ring

theorem saN_split2 (Ra Rb Rc : V3 ℝ) (τ : ℝ) : saN (saM Ra Rb τ) Rb Rc = (1 - τ) * saN Ra Rb Rc := by
  simp only [saN, saM, V3.dot, V3.cross, vs, V3.add_x, V3.add_y, V3.add_z, V3.sub_x, V3.sub_y, V3.sub_z]; ring

/-- the real factor `k` of `z(a,m,c)·z(m,b,c) = k·z(a,b,c)` -/
noncomputable def saK (Ra Rb Rc : V3 ℝ) (τ : ℝ) : ℝ :=
  (Kern.norm (saM Ra Rb τ) * Kern.norm Rc + V3.dot Rc (saM Ra Rb τ)) *
    (Kern.norm (saM Ra Rb τ) + (1 - τ) * Kern.norm Ra + τ * Kern.norm Rb)

private theorem saM_dots (Ra Rb Rc : V3 ℝ) (τ : ℝ) :
    V3.dot (saM Ra Rb τ) (saM Ra Rb τ) = (1 - τ) ^ 2 * V3.dot Ra Ra + 2 * τ * (1 - τ) * V3.dot Rb Ra + τ ^ 2 * V3.dot Rb Rb ∧
    V3.dot Rc (saM Ra Rb τ) = (1 - τ) * V3.dot Rc Ra + τ * V3.dot Rc Rb ∧
    V3.dot (saM Ra Rb τ) Ra = (1 - τ) * V3.dot Ra Ra + τ * V3.dot Rb Ra ∧
    V3.dot Rb (saM Ra Rb τ) = (1 - τ) * V3.dot Rb Ra + τ * V3.dot Rb Rb := by
  refine ⟨?_, ?_, ?_, ?_⟩ <;>
    simp only [saM, V3.dot, vs, V3.add_x, V3.add_y, V3.add_z, V3.sub_x, V3.sub_y, V3.sub_z] <;> ring

/-- **the factorisation** `z(a,m,c) · z(m,b,c) = k · z(a,b,c)`, `k` real — for every observer and every `τ` -/
theorem saZ_factor (Ra Rb Rc : V3 ℝ) (τ : ℝ) :
    saZ Ra (saM Ra Rb τ) Rc * saZ (saM Ra Rb τ) Rb Rc = ((saK Ra Rb Rc τ : ℝ) : ℂ) * saZ Ra Rb Rc := by
  obtain ⟨d1, d2, d3, d4⟩ := saM_dots Ra Rb Rc τ
  have hrm : Kern.norm (saM Ra Rb τ) ^ 2 =
      (1 - τ) ^ 2 * Kern.norm Ra ^ 2 + 2 * τ * (1 - τ) * V3.dot Rb Ra + τ ^ 2 * Kern.norm Rb ^ 2 := by
    rw [norm_sq_dot, norm_sq_dot, norm_sq_dot, d1]
  have hN2 := saN_sq Ra Rb Rc
  rw [← norm_sq_dot Ra, ← norm_sq_dot Rb, ← norm_sq_dot Rc] at hN2
  have hre := sa_factor_re (Kern.norm Ra) (Kern.norm Rb) (Kern.norm Rc) (Kern.norm (saM Ra Rb τ)) (V3.dot Rb Ra) (V3.dot Rc Ra)
    (V3.dot Rc Rb) τ (saN Ra Rb Rc ^ 2) hrm hN2
  have hk := sa_factor_k (Kern.norm Ra) (Kern.norm Rb) (Kern.norm Rc) (Kern.norm (saM Ra Rb τ)) (V3.dot Rb Ra) (V3.dot Rc Ra)
    (V3.dot Rc Rb) τ hrm
  have e1 : saD Ra (saM Ra Rb τ) Rc = Kern.norm Ra * Kern.norm (saM Ra Rb τ) * Kern.norm Rc +
      ((1 - τ) * V3.dot Rc Ra + τ * V3.dot Rc Rb) * Kern.norm Ra + V3.dot Rc Ra * Kern.norm (saM Ra Rb τ) +
      ((1 - τ) * Kern.norm Ra ^ 2 + τ * V3.dot Rb Ra) * Kern.norm Rc := by
    rw [saD, d2, d3, norm_sq_dot]
  have e2 : saD (saM Ra Rb τ) Rb Rc = Kern.norm (saM Ra Rb τ) * Kern.norm Rb * Kern.norm Rc +
      V3.dot Rc Rb * Kern.norm (saM Ra Rb τ) + ((1 - τ) * V3.dot Rc Ra + τ * V3.dot Rc Rb) * Kern.norm Rb +
      ((1 - τ) * V3.dot Rb Ra + τ * Kern.norm Rb ^ 2) * Kern.norm Rc := by
    rw [saD, d2, d4, norm_sq_dot]
  have eK : saK Ra Rb Rc τ = (Kern.norm (saM Ra Rb τ) * Kern.norm Rc + ((1 - τ) * V3.dot Rc Ra + τ * V3.dot Rc Rb)) *
      (Kern.norm (saM Ra Rb τ) + (1 - τ) * Kern.norm Ra + τ * Kern.norm Rb) := by
    rw [saK, d2]
  apply Complex.ext
  · simp only [saZ, Complex.mul_re, Complex.ofReal_re, Complex.ofReal_im, saN_split1, saN_split2, zero_mul, sub_zero]
    rw [e1, e2, eK, saD]
    linear_combination hre
  · simp only [saZ, Complex.mul_im, Complex.ofReal_re, Complex.ofReal_im, saN_split1, saN_split2, zero_mul, add_zero]
    rw [e1, e2, eK]
    linear_combination (saN Ra Rb Rc) * hk

/-- `r_u r_v + U·V > 0` when `U`, `V` are not parallel -/
theorem norm_mul_add_dot_pos (U V : V3 ℝ) (h : 0 < V3.dot (V3.cross U V) (V3.cross U V)) :
    0 < Kern.norm U * Kern.norm V + V3.dot V U := by
  have hL : V3.dot (V3.cross U V) (V3.cross U V) = V3.dot U U * V3.dot V V - V3.dot V U ^ 2 := by
    simp only [V3.dot, V3.cross]; ring
  rw [hL, ← norm_sq_dot U, ← norm_sq_dot V] at h
  have hu := norm_nonneg' U
  have hv := norm_nonneg' V
  have h2 : V3.dot V U ^ 2 < (Kern.norm U * Kern.norm V) ^ 2 := by nlinarith
  have := abs_lt_of_sq_lt_sq h2 (mul_nonneg hu hv)
  linarith [(abs_lt.mp this).1]

/-- `k > 0` when the observer is not on the line through the cut `m c` -/
theorem saK_pos (Ra Rb Rc : V3 ℝ) (τ : ℝ) (h0 : 0 ≤ τ) (h1 : τ ≤ 1)
    (h : 0 < Kern.norm (saM Ra Rb τ) * Kern.norm Rc + V3.dot Rc (saM Ra Rb τ)) : 0 < saK Ra Rb Rc τ := by
  have hm := norm_nonneg' (saM Ra Rb τ)
  have ha := norm_nonneg' Ra
  have hb := norm_nonneg' Rb
  have hm' : 0 < Kern.norm (saM Ra Rb τ) := by
    rcases eq_or_lt_of_le hm with h' | h'
    · exfalso
      have hz := norm_sq_dot (saM Ra Rb τ)
      rw [← h'] at hz
      obtain ⟨x, y, z⟩ := eq_zero_of_dot_self _ (by rw [← hz]; norm_num)
      rw [← h'] at h
      simp only [V3.dot, x, y, z, mul_zero, zero_mul, add_zero, lt_self_iff_false] at h
    · exact h'
  unfold saK
  apply mul_pos h
  have : 0 ≤ (1 - τ) * Kern.norm Ra := mul_nonneg (by linarith) ha
  have : 0 ≤ τ * Kern.norm Rb := mul_nonneg h0 hb
  linarith

/-- off the plane of the triangle the observer is off the line `m c` -/
theorem saK_pos_of_offplane (Ra Rb Rc : V3 ℝ) (τ : ℝ) (h0 : 0 < τ) (h1 : τ < 1) (hN : saN Ra Rb Rc ≠ 0) :
    0 < saK Ra Rb Rc τ := by
  apply saK_pos _ _ _ _ h0.le h1.le
  apply norm_mul_add_dot_pos
  apply dot_self_pos_of_ne
  intro hc
  obtain ⟨x, y, z⟩ := eq_zero_of_dot_self _ hc
  apply hN
  have h1 := saN_split1 Ra Rb Rc τ
  have : saN Ra (saM Ra Rb τ) Rc = 0 := by
    simp only [V3.cross] at x y z
    simp only [saN, V3.dot, V3.cross]
    linear_combination (-Ra.z) * z - Ra.x * x - Ra.y * y
  rw [this] at h1
  rcases mul_eq_zero.mp h1.symm with h | h
  · exact absurd h h0.ne'
  · exact h

/-! ### the arguments add -/

/-- modulo 2π the half solid angles add, for every observer that is on none of the five closed segments `a m`, `m b`, `b c`,
`c a`, `m c` (nothing about the plane, nothing about `τ ∈ (0,1)` beyond `0 ≤ τ ≤ 1`) -/
theorem saArg_add_angle (Ra Rb Rc : V3 ℝ) (τ : ℝ) (h0 : 0 ≤ τ) (h1 : τ ≤ 1)
    (ham : 0 < Kern.norm Ra * Kern.norm (saM Ra Rb τ) + V3.dot (saM Ra Rb τ) Ra)
    (hmb : 0 < Kern.norm (saM Ra Rb τ) * Kern.norm Rb + V3.dot Rb (saM Ra Rb τ))
    (hbc : 0 < Kern.norm Rb * Kern.norm Rc + V3.dot Rc Rb)
    (hac : 0 < Kern.norm Ra * Kern.norm Rc + V3.dot Rc Ra)
    (hmc : 0 < Kern.norm (saM Ra Rb τ) * Kern.norm Rc + V3.dot Rc (saM Ra Rb τ)) :
    ((Complex.arg (saZ Ra (saM Ra Rb τ) Rc) : Real.Angle) + (Complex.arg (saZ (saM Ra Rb τ) Rb Rc) : Real.Angle)) =
      (Complex.arg (saZ Ra Rb Rc) : Real.Angle) := by
  have z1 := saZ_ne_zero Ra (saM Ra Rb τ) Rc ham hmc hac
  have z2 := saZ_ne_zero (saM Ra Rb τ) Rb Rc hmb hbc hmc
  rw [← Complex.arg_mul_coe_angle z1 z2, saZ_factor, Complex.arg_real_mul _ (saK_pos Ra Rb Rc τ h0 h1 hmc)]

/-- the same in ℝ: the unclamped solid angles add up to a multiple of 4π -/
theorem solidAngleRaw_add_mod (Ra Rb Rc : V3 ℝ) (τ : ℝ) (h0 : 0 ≤ τ) (h1 : τ ≤ 1)
    (ham : 0 < Kern.norm Ra * Kern.norm (saM Ra Rb τ) + V3.dot (saM Ra Rb τ) Ra)
    (hmb : 0 < Kern.norm (saM Ra Rb τ) * Kern.norm Rb + V3.dot Rb (saM Ra Rb τ))
    (hbc : 0 < Kern.norm Rb * Kern.norm Rc + V3.dot Rc Rb)
    (hac : 0 < Kern.norm Ra * Kern.norm Rc + V3.dot Rc Ra)
    (hmc : 0 < Kern.norm (saM Ra Rb τ) * Kern.norm Rc + V3.dot Rc (saM Ra Rb τ)) :
    ∃ k : ℤ, solidAngleRaw Ra (saM Ra Rb τ) Rc + solidAngleRaw (saM Ra Rb τ) Rb Rc =
      solidAngleRaw Ra Rb Rc + k * (4 * Real.pi) := by
  have h := saArg_add_angle Ra Rb Rc τ h0 h1 ham hmb hbc hac hmc
  rw [← Real.Angle.coe_add, Real.Angle.angle_eq_iff_two_pi_dvd_sub] at h
  obtain ⟨k, hk⟩ := h
  exact ⟨k, by simp only [solidAngleRaw]; linear_combination 2 * hk⟩

theorem saZ_ne_zero_of_N (R0 R1 R2 : V3 ℝ) (h : saN R0 R1 R2 ≠ 0) : saZ R0 R1 R2 ≠ 0 := fun hz =>
  h (by simpa [saZ] using congrArg Complex.im hz)

theorem arg_pos_of_im_pos (z : ℂ) (h : 0 < z.im) : 0 < Complex.arg z ∧ Complex.arg z < Real.pi := by
  have hne : z ≠ 0 := fun h0 => by rw [h0] at h; simp at h
  refine ⟨?_, lt_of_le_of_ne (Complex.arg_le_pi z) ?_⟩
  · rcases lt_or_eq_of_le (Complex.arg_nonneg_iff.mpr h.le) with h' | h'
    · exact h'
    · exact absurd (Complex.arg_eq_zero_iff.mp h'.symm).2 h.ne'
  · intro hpi
    have := (Complex.arg_eq_pi_iff.mp hpi).2
    exact h.ne' this

theorem arg_neg_of_im_neg (z : ℂ) (h : z.im < 0) : -Real.pi < Complex.arg z ∧ Complex.arg z < 0 :=
  ⟨Complex.neg_pi_lt_arg z, Complex.arg_neg_iff.mpr h⟩

/-- **the half solid angles add in ℝ for every observer off the plane of the triangle**; and all three have the sign of `N` -/
theorem saArg_add (Ra Rb Rc : V3 ℝ) (τ : ℝ) (h0 : 0 < τ) (h1 : τ < 1) (hN : saN Ra Rb Rc ≠ 0) :
    Complex.arg (saZ Ra (saM Ra Rb τ) Rc) + Complex.arg (saZ (saM Ra Rb τ) Rb Rc) = Complex.arg (saZ Ra Rb Rc) ∧
    ((0 < Complex.arg (saZ Ra (saM Ra Rb τ) Rc) ∧ 0 < Complex.arg (saZ (saM Ra Rb τ) Rb Rc)) ∨
      (Complex.arg (saZ Ra (saM Ra Rb τ) Rc) < 0 ∧ Complex.arg (saZ (saM Ra Rb τ) Rb Rc) < 0)) := by
  have h1' : 0 < 1 - τ := by linarith
  have hN1 : saN Ra (saM Ra Rb τ) Rc ≠ 0 := by rw [saN_split1]; exact mul_ne_zero h0.ne' hN
  have hN2 : saN (saM Ra Rb τ) Rb Rc ≠ 0 := by rw [saN_split2]; exact mul_ne_zero h1'.ne' hN
  have z1 := saZ_ne_zero_of_N _ _ _ hN1
  have z2 := saZ_ne_zero_of_N _ _ _ hN2
  have hang : ((Complex.arg (saZ Ra (saM Ra Rb τ) Rc) + Complex.arg (saZ (saM Ra Rb τ) Rb Rc) : ℝ) : Real.Angle) =
      (Complex.arg (saZ Ra Rb Rc) : Real.Angle) := by
    rw [Real.Angle.coe_add, ← Complex.arg_mul_coe_angle z1 z2, saZ_factor,
      Complex.arg_real_mul _ (saK_pos_of_offplane Ra Rb Rc τ h0 h1 hN)]
  rw [Real.Angle.angle_eq_iff_two_pi_dvd_sub] at hang
  obtain ⟨k, hk⟩ := hang
  have hpi := Real.pi_pos
  rcases lt_or_gt_of_ne hN with hneg | hpos
  · have i1 : (saZ Ra (saM Ra Rb τ) Rc).im < 0 := by simp only [saZ, saN_split1]; exact mul_neg_of_pos_of_neg h0 hneg
    have i2 : (saZ (saM Ra Rb τ) Rb Rc).im < 0 := by simp only [saZ, saN_split2]; exact mul_neg_of_pos_of_neg h1' hneg
    have i0 : (saZ Ra Rb Rc).im < 0 := by simpa only [saZ] using hneg
    obtain ⟨a1, a2⟩ := arg_neg_of_im_neg _ i1
    obtain ⟨b1, b2⟩ := arg_neg_of_im_neg _ i2
    obtain ⟨c1, c2⟩ := arg_neg_of_im_neg _ i0
    have hk0 : k = 0 := by
      have l1 : (-1 : ℝ) < k := by nlinarith
      have l2 : (k : ℝ) < 1 := by nlinarith
      have l1' : (-1 : ℤ) < k := by exact_mod_cast l1
      have l2' : k < (1 : ℤ) := by exact_mod_cast l2
      omega
    rw [hk0] at hk
    refine ⟨by simp at hk; linarith, Or.inr ⟨a2, b2⟩⟩
  · have i1 : 0 < (saZ Ra (saM Ra Rb τ) Rc).im := by simp only [saZ, saN_split1]; exact mul_pos h0 hpos
    have i2 : 0 < (saZ (saM Ra Rb τ) Rb Rc).im := by simp only [saZ, saN_split2]; exact mul_pos h1' hpos
    have i0 : 0 < (saZ Ra Rb Rc).im := by simpa only [saZ] using hpos
    obtain ⟨a1, a2⟩ := arg_pos_of_im_pos _ i1
    obtain ⟨b1, b2⟩ := arg_pos_of_im_pos _ i2
    obtain ⟨c1, c2⟩ := arg_pos_of_im_pos _ i0
    have hk0 : k = 0 := by
      have l1 : (-1 : ℝ) < k := by nlinarith
      have l2 : (k : ℝ) < 1 := by nlinarith
      have l1' : (-1 : ℤ) < k := by exact_mod_cast l1
      have l2' : k < (1 : ℤ) := by exact_mod_cast l2
      omega
    rw [hk0] at hk
    refine ⟨by simp at hk; linarith, Or.inl ⟨a1, b1⟩⟩

/-- the unclamped solid angles add off the plane -/
theorem solidAngleRaw_add (Ra Rb Rc : V3 ℝ) (τ : ℝ) (h0 : 0 < τ) (h1 : τ < 1) (hN : saN Ra Rb Rc ≠ 0) :
    solidAngleRaw Ra (saM Ra Rb τ) Rc + solidAngleRaw (saM Ra Rb τ) Rb Rc = solidAngleRaw Ra Rb Rc := by
  have := (saArg_add Ra Rb Rc τ h0 h1 hN).1
  simp only [solidAngleRaw]; linarith

/-! ### with the clamp of the code -/

/-- the clamp `w ↦ if c < |w| then 0 else w` on two numbers of one sign whose sum is below `2c` in absolute value -/
theorem clamp_add_iff (c u v : ℝ) (hs : (0 < u ∧ 0 < v) ∨ (u < 0 ∧ v < 0)) (hb : |u + v| < 2 * c) :
    ((if c < |u| then 0 else u) + (if c < |v| then 0 else v) = (if c < |u + v| then 0 else u + v)) ↔ ¬ c < |u + v| := by
  rcases hs with ⟨pu, pv⟩ | ⟨nu, nv⟩
  · rw [abs_of_pos pu, abs_of_pos pv, abs_of_pos (by linarith : 0 < u + v)] at *
    constructor
    · intro h hc
      rw [if_pos hc] at h
      split_ifs at h <;> linarith
    · intro hc
      rw [if_neg hc, if_neg (by linarith), if_neg (by linarith)]
  · rw [abs_of_neg nu, abs_of_neg nv, abs_of_neg (by linarith : u + v < 0)] at *
    constructor
    · intro h hc
      rw [if_pos hc] at h
      split_ifs at h <;> linarith
    · intro hc
      rw [if_neg hc, if_neg (by linarith), if_neg (by linarith)]

/-- off the plane: the modelled solid angles (clamp included) of the pieces add up to that of the whole **iff** the whole is not
clamped.  (In the clamp band — the observer within about 3.6e-9 rad of the sheet, over its interior — the code returns 0 for the
whole, and at most one piece can be clamped as well, the other then gives its small non-zero angle.) -/
theorem solidAngle_add_iff_of_offplane (Ra Rb Rc : V3 ℝ) (τ : ℝ) (h0 : 0 < τ) (h1 : τ < 1) (hN : saN Ra Rb Rc ≠ 0) :
    (solidAngle Ra (saM Ra Rb τ) Rc (Kern.norm Ra) (Kern.norm (saM Ra Rb τ)) (Kern.norm Rc) +
        solidAngle (saM Ra Rb τ) Rb Rc (Kern.norm (saM Ra Rb τ)) (Kern.norm Rb) (Kern.norm Rc) =
      solidAngle Ra Rb Rc (Kern.norm Ra) (Kern.norm Rb) (Kern.norm Rc)) ↔ ¬ SolidAngleClamped Ra Rb Rc := by
  obtain ⟨hadd, hsign⟩ := saArg_add Ra Rb Rc τ h0 h1 hN
  have hraw := solidAngleRaw_add Ra Rb Rc τ h0 h1 hN
  have hpi := Real.pi_lt_d6
  have hle := Complex.abs_arg_le_pi (saZ Ra Rb Rc)
  rw [solidAngle_clamp, solidAngle_clamp, solidAngle_clamp]
  unfold SolidAngleClamped
  rw [← hraw]
  apply clamp_add_iff
  · simp only [solidAngleRaw]
    rcases hsign with ⟨px, py⟩ | ⟨nx, ny⟩
    · exact Or.inl ⟨by linarith, by linarith⟩
    · exact Or.inr ⟨by linarith, by linarith⟩
  · rw [hraw, solidAngleRaw, abs_mul, abs_of_pos (by norm_num : (0 : ℝ) < 2)]
    linarith

/-- `SolidAngleAdditive` (the named hypothesis of `triangleB_split`) for an observer off the plane of the triangle whose whole
solid angle is not clamped by the code — and only then -/
theorem solidAngleAdditive_iff_of_offplane (a b c obs : V3 ℝ) (τ : ℝ) (h0 : 0 < τ) (h1 : τ < 1)
    (hN : saN (a - obs) (b - obs) (c - obs) ≠ 0) :
    SolidAngleAdditive a (a + vs τ (b - a)) b c obs ↔ ¬ SolidAngleClamped (a - obs) (b - obs) (c - obs) := by
  unfold SolidAngleAdditive
  rw [saM_sub]
  exact solidAngle_add_iff_of_offplane _ _ _ τ h0 h1 hN

/-- a sufficient condition for "not clamped" that can be checked with rational arithmetic: `D ≥ 0` (the solid angle is at most π
in absolute value) -/
theorem not_clamped_of_D_nonneg (R0 R1 R2 : V3 ℝ) (hD : 0 ≤ saD R0 R1 R2) : ¬ SolidAngleClamped R0 R1 R2 := by
  have h := Complex.abs_arg_le_pi_div_two_iff.mpr (show 0 ≤ (saZ R0 R1 R2).re from hD)
  unfold SolidAngleClamped solidAngleRaw
  rw [abs_mul, abs_of_pos (by norm_num : (0 : ℝ) < 2)]
  have := Real.pi_lt_d6
  intro hc
  linarith

/-- the clamp band reaches off the sheet: `D < 0` (the observer sees the triangle under more than π) and `0 < N ≤ 1e-9·|D|` already
give `|2·arg(D + iN)| > 6.2831853`, so the code returns 0 there -/
theorem clamped_of_near_sheet (R0 R1 R2 : V3 ℝ) (hD : saD R0 R1 R2 < 0) (hN0 : 0 < saN R0 R1 R2)
    (hN : saN R0 R1 R2 * 1000000000 ≤ -saD R0 R1 R2) : SolidAngleClamped R0 R1 R2 := by
  have hre : (saZ R0 R1 R2).re < 0 := hD
  have him : 0 ≤ (saZ R0 R1 R2).im := hN0.le
  have harg := Complex.arg_of_re_neg_of_im_nonneg hre him
  have hnorm : -saD R0 R1 R2 ≤ ‖saZ R0 R1 R2‖ := by
    have := Complex.abs_re_le_norm (saZ R0 R1 R2)
    have h2 : |(saZ R0 R1 R2).re| = -saD R0 R1 R2 := abs_of_neg hre
    linarith
  have hnpos : 0 < ‖saZ R0 R1 R2‖ := by linarith
  set t := saN R0 R1 R2 / ‖saZ R0 R1 R2‖ with ht
  have ht0 : 0 ≤ t := div_nonneg hN0.le hnpos.le
  have ht1 : t ≤ 1 / 1000000000 := by
    rw [ht, div_le_iff₀ hnpos]
    nlinarith
  have e : (-(saZ R0 R1 R2)).im / ‖saZ R0 R1 R2‖ = -t := by
    rw [ht, Complex.neg_im, neg_div]; rfl
  rw [e, Real.arcsin_neg] at harg
  have hθ0 : 0 ≤ Real.arcsin t := Real.arcsin_nonneg.mpr ht0
  have hθ1 := Real.arcsin_le_pi_div_two t
  have hsin : Real.sin (Real.arcsin t) = t := Real.sin_arcsin (by linarith) (by linarith)
  have hml := Real.mul_le_sin hθ0 hθ1
  rw [hsin] at hml
  have hpi := Real.pi_pos
  have hp1 := Real.pi_gt_d20
  have hp2 := Real.pi_lt_d20
  have hθ : Real.arcsin t ≤ Real.pi / 2 * t := by
    have : Real.arcsin t = Real.pi / 2 * (2 / Real.pi * Real.arcsin t) := by field_simp
    rw [this]
    exact mul_le_mul_of_nonneg_left hml (by positivity)
  have hθ' : Real.arcsin t ≤ 2 * (1 / 1000000000) := by
    have : Real.pi / 2 * t ≤ 2 * (1 / 1000000000) := by
      have h4 : Real.pi / 2 ≤ 2 := by norm_num at hp2 ⊢; linarith
      exact mul_le_mul h4 ht1 ht0 (by norm_num)
    linarith
  unfold SolidAngleClamped solidAngleRaw
  rw [harg]
  have hpos : 0 < 2 * (-Real.arcsin t + Real.pi) := by norm_num at hp1 hθ' ⊢; linarith
  rw [abs_of_pos hpos]
  norm_num at hp1 hθ' ⊢
  linarith

/-- a concrete observer in the clamp band, OFF the sheet: the triangle (0,0,0), (4,0,0), (0,4,0) seen from (1, 1, 1e-10) — `N = 1.6e-9`,
`D < −2` -/
theorem witness_clamped :
    SolidAngleClamped ((⟨0, 0, 0⟩ : V3 ℝ) - ⟨1, 1, 1 / 10000000000⟩) ((⟨4, 0, 0⟩ : V3 ℝ) - ⟨1, 1, 1 / 10000000000⟩)
      ((⟨0, 4, 0⟩ : V3 ℝ) - ⟨1, 1, 1 / 10000000000⟩) := by
  have ha1 : Kern.norm ((⟨0, 0, 0⟩ : V3 ℝ) - ⟨1, 1, 1 / 10000000000⟩) ≤ 3 / 2 := by
    simp only [Kern.norm, sqrt_real, V3.sub_x, V3.sub_y, V3.sub_z]
    rw [Real.sqrt_le_iff]; norm_num
  have ha2 : 7 / 5 ≤ Kern.norm ((⟨0, 0, 0⟩ : V3 ℝ) - ⟨1, 1, 1 / 10000000000⟩) := by
    simp only [Kern.norm, sqrt_real, V3.sub_x, V3.sub_y, V3.sub_z]
    rw [Real.le_sqrt' (by norm_num)]; norm_num
  have hb1 : Kern.norm ((⟨4, 0, 0⟩ : V3 ℝ) - ⟨1, 1, 1 / 10000000000⟩) ≤ 16 / 5 := by
    simp only [Kern.norm, sqrt_real, V3.sub_x, V3.sub_y, V3.sub_z]
    rw [Real.sqrt_le_iff]; norm_num
  have hb2 : 3 ≤ Kern.norm ((⟨4, 0, 0⟩ : V3 ℝ) - ⟨1, 1, 1 / 10000000000⟩) := by
    simp only [Kern.norm, sqrt_real, V3.sub_x, V3.sub_y, V3.sub_z]
    rw [Real.le_sqrt' (by norm_num)]; norm_num
  have hc1 : Kern.norm ((⟨0, 4, 0⟩ : V3 ℝ) - ⟨1, 1, 1 / 10000000000⟩) ≤ 16 / 5 := by
    simp only [Kern.norm, sqrt_real, V3.sub_x, V3.sub_y, V3.sub_z]
    rw [Real.sqrt_le_iff]; norm_num
  have hc2 : 3 ≤ Kern.norm ((⟨0, 4, 0⟩ : V3 ℝ) - ⟨1, 1, 1 / 10000000000⟩) := by
    simp only [Kern.norm, sqrt_real, V3.sub_x, V3.sub_y, V3.sub_z]
    rw [Real.le_sqrt' (by norm_num)]; norm_num
  have hN : saN ((⟨0, 0, 0⟩ : V3 ℝ) - ⟨1, 1, 1 / 10000000000⟩) ((⟨4, 0, 0⟩ : V3 ℝ) - ⟨1, 1, 1 / 10000000000⟩)
      ((⟨0, 4, 0⟩ : V3 ℝ) - ⟨1, 1, 1 / 10000000000⟩) = 16 / 10000000000 := by
    simp only [saN, V3.dot, V3.cross, V3.sub_x, V3.sub_y, V3.sub_z]; norm_num
  have hD : saD ((⟨0, 0, 0⟩ : V3 ℝ) - ⟨1, 1, 1 / 10000000000⟩) ((⟨4, 0, 0⟩ : V3 ℝ) - ⟨1, 1, 1 / 10000000000⟩)
      ((⟨0, 4, 0⟩ : V3 ℝ) - ⟨1, 1, 1 / 10000000000⟩) ≤ -2 := by
    unfold saD
    set ra := Kern.norm ((⟨0, 0, 0⟩ : V3 ℝ) - ⟨1, 1, 1 / 10000000000⟩)
    set rb := Kern.norm ((⟨4, 0, 0⟩ : V3 ℝ) - ⟨1, 1, 1 / 10000000000⟩)
    set rc := Kern.norm ((⟨0, 4, 0⟩ : V3 ℝ) - ⟨1, 1, 1 / 10000000000⟩)
    simp only [V3.dot, V3.sub_x, V3.sub_y, V3.sub_z]
    have h1 : ra * rb ≤ 3 / 2 * (16 / 5) := mul_le_mul ha1 hb1 (by linarith) (by norm_num)
    have h2 : ra * rb * rc ≤ 3 / 2 * (16 / 5) * (16 / 5) := mul_le_mul h1 hc1 (by linarith) (by norm_num)
    norm_num
    nlinarith
  apply clamped_of_near_sheet
  · linarith
  · rw [hN]; norm_num
  · rw [hN]; linarith

/-- off the plane the observer is off the line through `a`, `b` -/
theorem line_of_offplane (Ra Rb Rc : V3 ℝ) (hN : saN Ra Rb Rc ≠ 0) :
    0 < V3.dot (V3.cross Ra (Rb - Ra)) (V3.cross Ra (Rb - Ra)) := by
  apply dot_self_pos_of_ne
  intro hc
  obtain ⟨x, y, z⟩ := eq_zero_of_dot_self _ hc
  apply hN
  simp only [V3.cross, V3.sub_x, V3.sub_y, V3.sub_z] at x y z
  simp only [saN, V3.dot, V3.cross]
  linear_combination (-Rc.x) * x - Rc.y * y - Rc.z * z

/-- **`triangle_split_additive`**: the sheet `(a, b, c)` is the sum of the sheets `(a, m, c)` and `(m, b, c)`, `m = a + τ (b − a)`,
for every observer off the plane of the triangle, outside the `on_edge` tolerance of the edge `a b`, of its two pieces and of the
new edge `m c`, at which the code does not clamp the solid angle of the whole triangle -/
theorem triangleB_split_offplane (a b c pol obs : V3 ℝ) (τ : ℝ) (h0 : 0 < τ) (h1 : τ < 1)
    (hN : saN (a - obs) (b - obs) (c - obs) ≠ 0) (hcl : ¬ SolidAngleClamped (a - obs) (b - obs) (c - obs))
    (hoffW : ¬ TriEdgeOnV (a - obs) (b - obs) (b - a))
    (hoff1 : ¬ TriEdgeOnV (a - obs) (a + vs τ (b - a) - obs) (a + vs τ (b - a) - a))
    (hoff2 : ¬ TriEdgeOnV (a + vs τ (b - a) - obs) (b - obs) (b - (a + vs τ (b - a))))
    (hoffM : ¬ TriEdgeOnV (a + vs τ (b - a) - obs) (c - obs) (c - (a + vs τ (b - a)))) :
    triangleB a (a + vs τ (b - a)) c pol obs + triangleB (a + vs τ (b - a)) b c pol obs = triangleB a b c pol obs := by
  have hline := line_of_offplane _ _ _ hN
  have e : b - obs - (a - obs) = b - a := by apply V3.ext' <;> simp
  rw [e] at hline
  exact triangleB_split a b c pol obs τ h0 h1 hline hoffW hoff1 hoff2 hoffM
    ((solidAngleAdditive_iff_of_offplane a b c obs τ h0 h1 hN).mpr hcl)

/-! ### a Tetrahedron cut through a point of one edge -/

/-- the `on_edge` test does not depend on the direction in which the edge is run -/
theorem TriEdgeOnV_reverse (R L : V3 ℝ) : TriEdgeOnV (R + L) R (-L) ↔ TriEdgeOnV R (R + L) L := by
  have b1 : V3.dot (-L) (-L) = V3.dot L L := by simp [V3.dot, neg_x, neg_y, neg_z]
  have b2 : V3.dot (R + L) (-L) = -(V3.dot R L + V3.dot L L) := by simp [V3.dot, neg_x, neg_y, neg_z]; ring
  have b3 : V3.dot R (-L) = -V3.dot R L := by simp [V3.dot, neg_x, neg_y, neg_z]; ring
  have b4 : V3.dot (V3.cross (R + L) (-L)) (V3.cross (R + L) (-L)) = V3.dot (V3.cross R L) (V3.cross R L) := by
    simp [V3.dot, V3.cross, neg_x, neg_y, neg_z]; ring
  have b5 : V3.dot (V3.cross R (-L)) (V3.cross R (-L)) = V3.dot (V3.cross R L) (V3.cross R L) := by
    simp [V3.dot, V3.cross, neg_x, neg_y, neg_z]; ring
  have a2 : V3.dot (R + L) L = V3.dot R L + V3.dot L L := by simp [V3.dot]; ring
  have a3 : V3.dot (V3.cross (R + L) L) (V3.cross (R + L) L) = V3.dot (V3.cross R L) (V3.cross R L) := by
    simp [V3.dot, V3.cross]; ring
  unfold TriEdgeOnV
  rw [b1, b2, b3, b4, b5, a2, a3]
  exact triEdgeOn_reverse _ _ _ _ _

/-- … for an edge between two points `p`, `q` seen from `x` -/
theorem TriEdgeOnV_swap (p q x : V3 ℝ) : TriEdgeOnV (q - x) (p - x) (p - q) ↔ TriEdgeOnV (p - x) (q - x) (q - p) := by
  have e1 : q - x = (p - x) + (q - p) := by apply V3.ext' <;> simp
  have e2 : p - q = -(q - p) := by apply V3.ext' <;> simp [neg_x, neg_y, neg_z]
  rw [e2, e1]
  exact TriEdgeOnV_reverse _ _

theorem tetraInside_iff (v0 v1 v2 v3 x : V3 ℝ) :
    tetraInside v0 v1 v2 v3 x = true ↔
      (det3 (v1 - v0) (v2 - v0) (v3 - v0) ≠ 0 ∧
        0 ≤ det3 (x - v0) (v2 - v0) (v3 - v0) / det3 (v1 - v0) (v2 - v0) (v3 - v0) ∧
        0 ≤ det3 (v1 - v0) (x - v0) (v3 - v0) / det3 (v1 - v0) (v2 - v0) (v3 - v0) ∧
        0 ≤ det3 (v1 - v0) (v2 - v0) (x - v0) / det3 (v1 - v0) (v2 - v0) (v3 - v0) ∧
        det3 (x - v0) (v2 - v0) (v3 - v0) / det3 (v1 - v0) (v2 - v0) (v3 - v0) ≤ 1 ∧
        det3 (v1 - v0) (x - v0) (v3 - v0) / det3 (v1 - v0) (v2 - v0) (v3 - v0) ≤ 1 ∧
        det3 (v1 - v0) (v2 - v0) (x - v0) / det3 (v1 - v0) (v2 - v0) (v3 - v0) ≤ 1 ∧
        det3 (x - v0) (v2 - v0) (v3 - v0) / det3 (v1 - v0) (v2 - v0) (v3 - v0) +
          det3 (v1 - v0) (x - v0) (v3 - v0) / det3 (v1 - v0) (v2 - v0) (v3 - v0) +
          det3 (v1 - v0) (v2 - v0) (x - v0) / det3 (v1 - v0) (v2 - v0) (v3 - v0) ≤ 1) := by
  simp only [tetraInside, Bool.and_eq_true, le_real, eq0_real, decide_eq_true_eq, n, ofNat_real, Nat.cast_zero, Nat.cast_one,
    Bool.not_eq_true', decide_eq_false_iff_not]
  tauto

/-- for a positively oriented tetrahedron: inside ⇔ the three sub-determinants are ≥ 0 and their sum is at most the whole -/
theorem tetraInside_pos (v0 v1 v2 v3 x : V3 ℝ) (hΔ : 0 < det3 (v1 - v0) (v2 - v0) (v3 - v0)) :
    tetraInside v0 v1 v2 v3 x = true ↔
      (0 ≤ det3 (x - v0) (v2 - v0) (v3 - v0) ∧ 0 ≤ det3 (v1 - v0) (x - v0) (v3 - v0) ∧ 0 ≤ det3 (v1 - v0) (v2 - v0) (x - v0) ∧
        det3 (x - v0) (v2 - v0) (v3 - v0) + det3 (v1 - v0) (x - v0) (v3 - v0) + det3 (v1 - v0) (v2 - v0) (x - v0) ≤
          det3 (v1 - v0) (v2 - v0) (v3 - v0)) := by
  rw [tetraInside_iff]
  set Δ := det3 (v1 - v0) (v2 - v0) (v3 - v0)
  set E1 := det3 (x - v0) (v2 - v0) (v3 - v0)
  set E2 := det3 (v1 - v0) (x - v0) (v3 - v0)
  set E3 := det3 (v1 - v0) (v2 - v0) (x - v0)
  have hd : ∀ e : ℝ, 0 ≤ e / Δ ↔ 0 ≤ e := fun e => by rw [le_div_iff₀ hΔ, zero_mul]
  rw [← add_div, ← add_div, div_le_one hΔ, div_le_one hΔ, div_le_one hΔ, div_le_one hΔ, hd, hd, hd]
  constructor
  · rintro ⟨_, a1, a2, a3, _, _, _, a7⟩
    exact ⟨a1, a2, a3, a7⟩
  · rintro ⟨a1, a2, a3, a7⟩
    exact ⟨hΔ.ne', a1, a2, a3, by linarith, by linarith, by linarith, a7⟩

private theorem cut_dets (a b c d x : V3 ℝ) (τ : ℝ) :
    det3 (a + vs τ (b - a) - a) (c - a) (d - a) = τ * det3 (b - a) (c - a) (d - a) ∧
    det3 (a + vs τ (b - a) - a) (x - a) (d - a) = τ * det3 (b - a) (x - a) (d - a) ∧
    det3 (a + vs τ (b - a) - a) (c - a) (x - a) = τ * det3 (b - a) (c - a) (x - a) ∧
    det3 (b - (a + vs τ (b - a))) (c - (a + vs τ (b - a))) (d - (a + vs τ (b - a))) = (1 - τ) * det3 (b - a) (c - a) (d - a) ∧
    det3 (x - (a + vs τ (b - a))) (c - (a + vs τ (b - a))) (d - (a + vs τ (b - a))) =
      det3 (x - a) (c - a) (d - a) - τ * det3 (b - a) (c - a) (d - a) + τ * det3 (b - a) (x - a) (d - a) +
        τ * det3 (b - a) (c - a) (x - a) ∧
    det3 (b - (a + vs τ (b - a))) (x - (a + vs τ (b - a))) (d - (a + vs τ (b - a))) = (1 - τ) * det3 (b - a) (x - a) (d - a) ∧
    det3 (b - (a + vs τ (b - a))) (c - (a + vs τ (b - a))) (x - (a + vs τ (b - a))) = (1 - τ) * det3 (b - a) (c - a) (x - a) := by
  refine ⟨?_, ?_, ?_, ?_, ?_, ?_, ?_⟩ <;>
    simp only [det3, vs, V3.sub_x, V3.sub_y, V3.sub_z, V3.add_x, V3.add_y, V3.add_z] <;> ring

/-- the inside test of a positively oriented tetrahedron `(a, b, c, d)` cut through the point `m = a + τ (b − a)` of its edge
`a b`: inside the whole ⇔ inside `(a, m, c, d)` or inside `(m, b, c, d)`; inside both only in the cut plane `m c d` -/
theorem tetraInside_edge_split (a b c d x : V3 ℝ) (τ : ℝ) (h0 : 0 < τ) (h1 : τ < 1)
    (hΔ : 0 < det3 (b - a) (c - a) (d - a)) :
    tetraInside a b c d x = (tetraInside a (a + vs τ (b - a)) c d x || tetraInside (a + vs τ (b - a)) b c d x) ∧
    (det3 (x - (a + vs τ (b - a))) (c - (a + vs τ (b - a))) (d - (a + vs τ (b - a))) ≠ 0 →
      ¬ (tetraInside a (a + vs τ (b - a)) c d x = true ∧ tetraInside (a + vs τ (b - a)) b c d x = true)) := by
  have h1' : 0 < 1 - τ := by linarith
  obtain ⟨c1, c2, c3, c4, c5, c6, c7⟩ := cut_dets a b c d x τ
  have hΔ1 : 0 < det3 (a + vs τ (b - a) - a) (c - a) (d - a) := by rw [c1]; exact mul_pos h0 hΔ
  have hΔ2 : 0 < det3 (b - (a + vs τ (b - a))) (c - (a + vs τ (b - a))) (d - (a + vs τ (b - a))) := by
    rw [c4]; exact mul_pos h1' hΔ
  have iW := tetraInside_pos a b c d x hΔ
  have i1 := tetraInside_pos a (a + vs τ (b - a)) c d x hΔ1
  have i2 := tetraInside_pos (a + vs τ (b - a)) b c d x hΔ2
  rw [c1, c2, c3] at i1
  rw [c4, c5, c6, c7] at i2
  rw [c5]
  set Δ := det3 (b - a) (c - a) (d - a)
  set E1 := det3 (x - a) (c - a) (d - a)
  set E2 := det3 (b - a) (x - a) (d - a)
  set E3 := det3 (b - a) (c - a) (x - a)
  rw [mul_nonneg_iff_of_pos_left h0, mul_nonneg_iff_of_pos_left h0] at i1
  rw [mul_nonneg_iff_of_pos_left h1', mul_nonneg_iff_of_pos_left h1'] at i2
  constructor
  · rw [Bool.eq_iff_iff, Bool.or_eq_true, iW, i1, i2]
    constructor
    · rintro ⟨a1, a2, a3, a4⟩
      by_cases hc : E1 + τ * E2 + τ * E3 ≤ τ * Δ
      · exact Or.inl ⟨a1, a2, a3, hc⟩
      · exact Or.inr ⟨by linarith, a2, a3, by linarith⟩
    · rintro (⟨a1, a2, a3, a4⟩ | ⟨a1, a2, a3, a4⟩)
      · have hs : 0 ≤ Δ - E2 - E3 := by
          have : 0 ≤ τ * (Δ - E2 - E3) := by linarith
          exact (mul_nonneg_iff_of_pos_left h0).mp this
        have := mul_nonneg h1'.le hs
        exact ⟨a1, a2, a3, by nlinarith⟩
      · have hs : 0 ≤ Δ - E2 - E3 := by
          have : 0 ≤ (1 - τ) * (Δ - E2 - E3) := by linarith
          exact (mul_nonneg_iff_of_pos_left h1').mp this
        have := mul_nonneg h0.le hs
        exact ⟨by nlinarith, a2, a3, by linarith⟩
  · rintro hne ⟨p1, p2⟩
    rw [i1] at p1
    rw [i2] at p2
    apply hne
    linarith [p1.2.2.2, p2.1]

/-- **a Tetrahedron cut through a point of one edge**: `Tetrahedron(a, b, c, d)` (positively oriented) and the two tetrahedra
`(a, m, c, d)`, `(m, b, c, d)`, `m = a + τ (b − a)`.  The observer is off the planes of the two faces that are cut (`a c b` and
`a b d`) with their solid angles not clamped, off the cut plane `m c d`, and outside the `on_edge` tolerance of the edge `a b`, of
its pieces and of the three edges of the cut triangle.  Then B, H, J, M of the parts add up to those of the whole. -/
theorem tetra_edge_split (f : Field) (a b c d pol x : V3 ℝ) (τ : ℝ) (h0 : 0 < τ) (h1 : τ < 1)
    (hΔ : 0 < det3 (b - a) (c - a) (d - a))
    (hN1 : saN (b - x) (a - x) (c - x) ≠ 0) (hcl1 : ¬ SolidAngleClamped (b - x) (a - x) (c - x))
    (hN2 : saN (a - x) (b - x) (d - x) ≠ 0) (hcl2 : ¬ SolidAngleClamped (a - x) (b - x) (d - x))
    (hcut : det3 (x - (a + vs τ (b - a))) (c - (a + vs τ (b - a))) (d - (a + vs τ (b - a))) ≠ 0)
    (hab : ¬ TriEdgeOnV (a - x) (b - x) (b - a))
    (ham : ¬ TriEdgeOnV (a - x) (a + vs τ (b - a) - x) (a + vs τ (b - a) - a))
    (hmb : ¬ TriEdgeOnV (a + vs τ (b - a) - x) (b - x) (b - (a + vs τ (b - a))))
    (hwall : TriOffEdges (a + vs τ (b - a)) c d x) :
    bhjmTetra f a (a + vs τ (b - a)) c d pol x + bhjmTetra f (a + vs τ (b - a)) b c d pol x = bhjmTetra f a b c d pol x := by
  have h1' : 0 < 1 - τ := by linarith
  have hτ' : 1 - τ < 1 := by linarith
  obtain ⟨c1, _, _, c4, _, _, _⟩ := cut_dets a b c d x τ
  obtain ⟨hins, hdisj⟩ := tetraInside_edge_split a b c d x τ h0 h1 hΔ
  have hm' : b + vs (1 - τ) (a - b) = a + vs τ (b - a) := by apply V3.ext' <;> simp [vs] <;> ring
  set m := a + vs τ (b - a) with hm
  have hΔ1 : 0 < det3 (m - a) (c - a) (d - a) := by rw [c1]; exact mul_pos h0 hΔ
  have hΔ2 : 0 < det3 (b - m) (c - m) (d - m) := by rw [c4]; exact mul_pos h1' hΔ
  -- the three face lists
  have fW : tetraFaces (a, b, c, d) = [(a, c, b), (a, b, d), (b, c, d), (a, d, c)] := by
    simp [tetraFaces, tetraChirality, n, not_lt.mpr hΔ.le]
  have f1 : tetraFaces (a, m, c, d) = [(a, c, m), (a, m, d), (m, c, d), (a, d, c)] := by
    simp [tetraFaces, tetraChirality, n, not_lt.mpr hΔ1.le]
  have f2 : tetraFaces (m, b, c, d) = [(m, c, b), (m, b, d), (b, c, d), (m, d, c)] := by
    simp [tetraFaces, tetraChirality, n, not_lt.mpr hΔ2.le]
  -- the face `a c b`, as the triangle `(b, a, c)` cut through `m = b + (1 − τ)(a − b)`
  have s1 : triangleB b m c pol x + triangleB m a c pol x = triangleB b a c pol x := by
    have := triangleB_split_offplane b a c pol x (1 - τ) h1' hτ' hN1 hcl1
    rw [hm'] at this
    exact this ((TriEdgeOnV_swap a b x).not.mpr hab) ((TriEdgeOnV_swap m b x).not.mpr hmb)
      ((TriEdgeOnV_swap a m x).not.mpr ham) hwall.1
  -- the face `a b d`
  have s2 : triangleB a m d pol x + triangleB m b d pol x = triangleB a b d pol x :=
    triangleB_split_offplane a b d pol x τ h0 h1 hN2 hcl2 hab ham hmb ((TriEdgeOnV_swap m d x).not.mp hwall.2.2)
  -- the cut triangle, once in each orientation
  have s3 : triangleB m d c pol x = -triangleB m c d pol x := triangleB_flip m c d pol x hwall
  have hsheets : sheetSum (tetraFaces (a, m, c, d)) pol x + sheetSum (tetraFaces (m, b, c, d)) pol x =
      sheetSum (tetraFaces (a, b, c, d)) pol x := by
    rw [fW, f1, f2]
    simp only [sheetSum_cons, sheetSum_nil]
    rw [triangleB_cyclic m a c pol x, triangleB_cyclic b m c pol x, triangleB_cyclic b a c pol x, s3, ← s1, ← s2]
    apply V3.ext' <;> simp [zero3, n, neg_x, neg_y, neg_z] <;> ring
  have e1 := tetra_is_wrapH_of_sheetSum f (a, m, c, d) pol x
  have e2 := tetra_is_wrapH_of_sheetSum f (m, b, c, d) pol x
  have eW := tetra_is_wrapH_of_sheetSum f (a, b, c, d) pol x
  simp only at e1 e2 eW
  rw [e1, e2, eW, hins, ← hsheets]
  exact (wrapH_glue f _ _ (hdisj hcut) pol _ _).symm

end MagpyVerif.Kern
