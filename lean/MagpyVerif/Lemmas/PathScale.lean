/-
Lemmas/PathScale.lean — the pose machinery is HOMOGENEOUS in the position carrier (C12, the part between the
user's numbers and the kernels).

The path / tree / history models (Model/Path, Model/Tree, Model/History: `move`, `rotate` with anchor, the
`position` / `orientation` setters with their child updates, `reset_path`, padding, the `rotate_from_*` entry
points, `add` / `remove`, nested collections) use nothing of the position carrier `V` but `+`, `-`, `0` and the
action `g • v` of the rotation carrier.  A map `σ : V → W` that commutes with these four operations (`VHom G σ`)
therefore commutes with every model function: running an operation on `σ`-images of all LENGTHS (displacements,
anchors, position values, the stored position paths; rotations, angles, `start`, addresses untouched) gives the
`σ`-image of the result (`*_mapV`).  A change of length unit `v ↦ s·v` is such a map — for EVERY scalar `s`
(no `s ≠ 0`, no `s > 0`: an absolute length, e.g. a rounding grid or an absolute tolerance in the pose code,
would be exactly what makes such a lemma unprovable).

Instances at the end: `vs s` on `V3 ℝ` for any rotation carrier acting linearly (`vsHom`), and integer scaling on
the carrier the compiled driver computes with (`V3 Int` under `M3 Int`, `intScaleHom`) — there with the bare
operation instances of Model/Basic.lean, so the statement is literally about what the `path` stream compares.
-/
import MagpyVerif.Lemmas.OpHom
import MagpyVerif.Lemmas.History
import MagpyVerif.Lemmas.KernReal
import Mathlib.Tactic.Ring

namespace MagpyVerif
open Gen Spec RotFrom

/-- `σ : V → W` commutes with the operations of a position carrier that the pose models use -/
structure VHom (G : Type) {V W : Type} [SMul G V] [SMul G W] [Add V] [Sub V] [Zero V] [Add W] [Sub W] [Zero W]
    (σ : V → W) : Prop where
  map_add : ∀ a b, σ (a + b) = σ a + σ b
  map_sub : ∀ a b, σ (a - b) = σ a - σ b
  map_zero : σ 0 = 0
  map_smul : ∀ (g : G) (v : V), σ (g • v) = g • σ v

section pathScale
variable {G V W : Type}

/-- all lengths of an object's state through `σ`: the position path; the orientation path is untouched -/
def Obj.mapV (σ : V → W) (o : Obj G V) : Obj G W := { pos := o.pos.map σ, ori := o.ori }

/-- all lengths of a collection tree through `σ` -/
def Node.mapV (σ : V → W) : Node G V → Node G W
  | .mk o cs => .mk (o.mapV σ) (cs.map (Node.mapV σ))

/-- all lengths an operation mentions through `σ`: displacements, anchors, position values; rotations, `start`,
addresses are untouched -/
def Op.mapV (σ : V → W) : Op G V → Op G W
  | .move a i s => .move a (i.map σ) s
  | .rotate a r an s => .rotate a r (an.map (PathIn.map σ)) s
  | .setPos a i => .setPos a (i.map σ)
  | .setOri a i => .setOri a i
  | .reset a => .reset a
  | .rejected => .rejected

/-- the same for the full operation set: the raw `rotate_from_*` arguments (angles, axes, quaternions, matrices,
Euler sequences, the degree flag) are dimensionless and untouched; an added subtree brings its own lengths -/
def HOp.mapV {α : Type} (σ : V → W) : HOp α G V → HOp α G W
  | .base o => .base (o.mapV σ)
  | .rotFrom a e an s => .rotFrom a e (an.map (PathIn.map σ)) s
  | .add a c => .add a (c.mapV σ)
  | .remove a j => .remove a j

theorem Node.mapV_mk (σ : V → W) (o : Obj G V) (cs : List (Node G V)) :
    (Node.mk o cs).mapV σ = .mk (o.mapV σ) (cs.map (Node.mapV σ)) := by
  simp only [Node.mapV]

theorem Node.mapV_obj (σ : V → W) (n : Node G V) : (n.mapV σ).obj = n.obj.mapV σ := by
  cases n; simp only [Node.mapV, Node.obj]

theorem pathPadding_mapV (σ : V → W) (scalar : Bool) (lenip : Nat) (start : Option Int) (o : Obj G V) :
    pathPadding scalar lenip start (o.mapV σ) =
      ((pathPadding scalar lenip start o).1.map σ, (pathPadding scalar lenip start o).2.1,
       (pathPadding scalar lenip start o).2.2.1, (pathPadding scalar lenip start o).2.2.2) := by
  simp only [pathPadding, Obj.mapV, edgePad_map, List.length_map]

theorem multiAnchor_mapV (σ : V → W) (a : PathIn V) (r : PathIn G) :
    multiAnchor (a.map σ) r = ((multiAnchor a r).1.map σ, (multiAnchor a r).2) := by
  unfold multiAnchor
  simp only [PathIn.len0_map, PathIn.toList_map]
  split
  · simp [PathIn.map, edgePad_map]
  · split
    · rfl
    · rfl

theorem parentAnchor_mapV (σ : V → W) (rot : PathIn G) (start : Option Int) (pp : List V) (o : Obj G V) :
    parentAnchor rot start (pp.map σ) (o.mapV σ) = (parentAnchor rot start pp o).map σ := by
  simp only [parentAnchor, Obj.mapV, List.length_map, edgePad_map, PathIn.map, List.map_take, List.map_drop]

theorem setPositionObj_mapV (σ : V → W) (inp : List V) (o : Obj G V) :
    setPositionObj (inp.map σ) (o.mapV σ) = (setPositionObj inp o).mapV σ := by
  simp only [setPositionObj, Obj.mapV, List.length_map]

theorem setOrientationObj_mapV (σ : V → W) (inp : List G) (o : Obj G V) :
    setOrientationObj inp (o.mapV σ) = (setOrientationObj inp o).mapV σ := by
  simp only [setOrientationObj, Obj.mapV, padSlice_map]

theorem Node.modifyAt_mapV (σ : V → W) (f : Node G V → Node G V) (f' : Node G W → Node G W)
    (hf : ∀ n, f' (n.mapV σ) = (f n).mapV σ) (a : List Nat) (n : Node G V) :
    Node.modifyAt f' a (n.mapV σ) = (Node.modifyAt f a n).mapV σ := by
  induction a generalizing n with
  | nil => exact hf n
  | cons i rest ih =>
    cases n with
    | mk o cs =>
      simp only [Node.mapV_mk, Node.modifyAt]
      congr 1
      apply List.ext_getElem?
      intro j
      simp only [List.getElem?_mapIdx, List.getElem?_map]
      cases cs[j]? with
      | none => rfl
      | some c =>
        simp only [Option.map_some]
        split
        · rw [ih]
        · rfl

section ops
variable [Mul G] [Inv G] [One G] [SMul G V] [SMul G W] [Add V] [Sub V] [Zero V] [Add W] [Sub W] [Zero W]
variable {σ : V → W}
set_option linter.unusedSectionVars false

/-- `apply_move`: displacements and the stored path in the new unit give the result in the new unit -/
theorem applyMove_mapV (hσ : VHom G σ) (inp : PathIn V) (start : Option Int) (o : Obj G V) :
    applyMove (inp.map σ) start (o.mapV σ) = (applyMove inp start o).mapV σ := by
  simp only [applyMove, pathPadding_mapV, PathIn.isScalar_map, PathIn.lenip_map, PathIn.get?_map]
  simp only [Obj.mapV]
  congr 1
  apply mapSlice_map
  intro k x
  cases inp.get? k with
  | none => rfl
  | some d => simp only [Option.map_some, hσ.map_add]

theorem applyRotationAligned_some_mapV (hσ : VHom G σ) (rot : PathIn G) (a : PathIn V)
    (start : Option Int) (o : Obj G V) :
    applyRotationAligned rot (some (a.map σ)) start none (o.mapV σ) =
      (applyRotationAligned rot (some a) start none o).mapV σ := by
  simp only [applyRotationAligned, pathPadding_mapV, PathIn.get?_map]
  simp only [Obj.mapV]
  congr 1
  apply mapSlice_map
  intro k x
  cases rot.get? k with
  | none => rfl
  | some r =>
    cases a.get? k with
    | none => rfl
    | some c => simp only [Option.map_some, hσ.map_add, hσ.map_smul, hσ.map_sub]

theorem applyRotationAligned_none_mapV (rot : PathIn G) (start : Option Int) (o : Obj G V) :
    applyRotationAligned rot none start none (o.mapV σ) =
      (applyRotationAligned rot none start none o).mapV σ := by
  simp only [applyRotationAligned, pathPadding_mapV]
  simp only [Obj.mapV]

theorem applyRotationAligned_mapV (hσ : VHom G σ) (rot : PathIn G) (anchor : Option (PathIn V))
    (start : Option Int) (pp : Option (List V)) (o : Obj G V) :
    applyRotationAligned rot (anchor.map (PathIn.map σ)) start (pp.map (List.map σ)) (o.mapV σ) =
      (applyRotationAligned rot anchor start pp o).mapV σ := by
  cases anchor with
  | some a =>
    rw [Option.map_some, aligned_some_pp, aligned_some_pp rot]
    exact applyRotationAligned_some_mapV hσ rot a start o
  | none =>
    cases pp with
    | none => exact applyRotationAligned_none_mapV rot start o
    | some pp =>
      rw [Option.map_none, Option.map_some, aligned_none_pp, aligned_none_pp rot, parentAnchor_mapV]
      exact applyRotationAligned_some_mapV hσ rot _ start o

/-- `apply_rotation` (with `multi_anchor_behavior` and the parent-path anchor of collection children) -/
theorem applyRotation_mapV (hσ : VHom G σ) (rot : PathIn G) (anchor : Option (PathIn V))
    (start : Option Int) (pp : Option (List V)) (o : Obj G V) :
    applyRotation rot (anchor.map (PathIn.map σ)) start (pp.map (List.map σ)) (o.mapV σ) =
      (applyRotation rot anchor start pp o).mapV σ := by
  unfold applyRotation
  cases anchor with
  | none => exact applyRotationAligned_mapV hσ rot none start pp o
  | some a =>
    simp only [Option.map_some, multiAnchor_mapV]
    exact applyRotationAligned_mapV hσ _ (some _) start pp o

theorem Node.move_mapV (hσ : VHom G σ) (inp : PathIn V) (start : Option Int) (n : Node G V) :
    (n.mapV σ).move (inp.map σ) start = (n.move inp start).mapV σ := by
  induction n using Node.induct with
  | h o cs ih =>
    simp only [Node.mapV_mk, Node.move, applyMove_mapV hσ, List.map_map]
    congr 1
    apply List.map_congr_left
    intro c hc
    exact ih c hc

theorem Node.rotate_mapV (hσ : VHom G σ) (rot : PathIn G) (anchor : Option (PathIn V))
    (start : Option Int) (pp : Option (List V)) (n : Node G V) :
    (n.mapV σ).rotate rot (anchor.map (PathIn.map σ)) start (pp.map (List.map σ)) =
      (n.rotate rot anchor start pp).mapV σ := by
  induction n using Node.induct generalizing pp with
  | h o cs ih =>
    cases pp with
    | none =>
      simp only [Node.mapV_mk, Node.rotate, Option.map_none, List.map_map]
      have := applyRotation_mapV hσ rot anchor start none o
      simp only [Option.map_none] at this
      rw [this]
      congr 1
      apply List.map_congr_left
      intro c hc
      have := ih c hc (some o.pos)
      simpa only [Function.comp, Option.map_some, Obj.mapV] using this
    | some p =>
      simp only [Node.mapV_mk, Node.rotate, Option.map_some, List.map_map]
      have := applyRotation_mapV hσ rot anchor start (some p) o
      simp only [Option.map_some] at this
      rw [this]
      congr 1
      apply List.map_congr_left
      intro c hc
      have := ih c hc (some p)
      simpa only [Function.comp, Option.map_some] using this

omit [Mul G] [Inv G] [One G] [SMul G V] [SMul G W] [Add V] [Sub V] [Zero V] [Add W] [Sub W] [Zero W] in
theorem zipWith_map_both {α β γ α' β' γ' : Type} (f : α → β → γ) (f' : α' → β' → γ') (a : α → α') (b : β → β')
    (c : γ → γ') (h : ∀ x y, f' (a x) (b y) = c (f x y)) :
    ∀ (xs : List α) (ys : List β), List.zipWith f' (xs.map a) (ys.map b) = (List.zipWith f xs ys).map c
  | [], _ => by simp
  | _ :: _, [] => by simp
  | x :: xs, y :: ys => by simp [h, zipWith_map_both f f' a b c h xs ys]

theorem zipWith_add_sub_map (hσ : VHom G σ) (inp cp oldp : List V) :
    List.zipWith (· + ·) (inp.map σ) (List.zipWith (· - ·) (cp.map σ) (oldp.map σ)) =
      (List.zipWith (· + ·) inp (List.zipWith (· - ·) cp oldp)).map σ := by
  rw [zipWith_map_both (· - ·) (· - ·) σ σ σ (fun x y => (hσ.map_sub x y).symm)]
  exact zipWith_map_both (· + ·) (· + ·) σ σ σ (fun x y => (hσ.map_add x y).symm) _ _

/-- `position =` with the re-basing of every descendant -/
theorem Node.setPosition_mapV (hσ : VHom G σ) (inp : List V) (n : Node G V) :
    (n.mapV σ).setPosition (inp.map σ) = (n.setPosition inp).mapV σ := by
  induction n using Node.induct generalizing inp with
  | h o cs ih =>
    simp only [Node.mapV_mk, Node.setPosition, setPositionObj_mapV, List.map_map]
    congr 1
    apply List.map_congr_left
    intro c hc
    simp only [Function.comp, Node.mapV_obj, Obj.mapV, List.length_map, padSlice_map,
      zipWith_add_sub_map hσ]
    exact ih c hc _

/-- `orientation =` with the rotation of every descendant about the collection's position path -/
theorem Node.setOrientation_mapV (hσ : VHom G σ) (inp : List G) (n : Node G V) :
    (n.mapV σ).setOrientation inp = (n.setOrientation inp).mapV σ := by
  cases n with
  | mk o cs =>
    simp only [Node.mapV_mk, Node.setOrientation, List.map_map]
    simp only [Obj.mapV, padSlice_map, List.length_map]
    congr 1
    apply List.map_congr_left
    intro c _
    simp only [Function.comp, Node.mapV_obj, Obj.mapV, padSlice_map, Node.setPosition_mapV hσ]
    have := Node.rotate_mapV hσ (Node.squeezeRot (List.zipWith (fun a b => a * b⁻¹) inp (padSlice inp.length o.ori)))
      (some (.vector (padSlice inp.length o.pos))) (some 0) none
      (Node.setPosition (padSlice (padSlice inp.length o.pos).length c.obj.pos) c)
    simpa only [Option.map_some, Option.map_none, PathIn.map] using this

theorem Node.resetPath_mapV (hσ : VHom G σ) (n : Node G V) :
    (n.mapV σ).resetPath = n.resetPath.mapV σ := by
  unfold Node.resetPath
  rw [← Node.setOrientation_mapV hσ, ← Node.setPosition_mapV hσ]
  simp only [List.map_cons, List.map_nil, hσ.map_zero]

/-- **one operation is homogeneous** (`Node.step`: move / rotate / setters / reset_path / rejected call,
addressed to any node of any tree) -/
theorem Node.step_mapV (hσ : VHom G σ) (t : Node G V) (op : Op G V) :
    (t.mapV σ).step (op.mapV σ) = (t.step op).mapV σ := by
  cases op with
  | move a inp start =>
    exact Node.modifyAt_mapV σ _ _ (Node.move_mapV hσ inp start) a t
  | rotate a rot anchor start =>
    have h := Node.modifyAt_mapV σ (Node.rotate rot anchor start none)
      (Node.rotate rot (anchor.map (PathIn.map σ)) start none)
      (fun n => by simpa only [Option.map_none] using Node.rotate_mapV hσ rot anchor start none n) a t
    exact h
  | setPos a inp =>
    simp only [Op.mapV, Node.step, List.isEmpty_map]
    split
    · rfl
    · exact Node.modifyAt_mapV σ _ _ (Node.setPosition_mapV hσ inp) a t
  | setOri a inp =>
    simp only [Op.mapV, Node.step]
    split
    · rfl
    · exact Node.modifyAt_mapV σ _ _ (Node.setOrientation_mapV hσ inp) a t
  | reset a =>
    exact Node.modifyAt_mapV σ _ _ (Node.resetPath_mapV hσ) a t
  | rejected => rfl

variable {α : Type} [Kern.Num α]

theorem rotFromOp_mapV (σ : V → W) (sc : Scipy α G) (a : List Nat) (e : Entry α) (an : Option (PathIn V))
    (s : Option Int) :
    rotFromOp sc a e (an.map (PathIn.map σ)) s = (rotFromOp sc a e an s).mapV σ := by
  unfold rotFromOp
  cases toRot sc e <;> rfl

theorem Node.addChild_mapV (σ : V → W) (c n : Node G V) :
    Node.addChild (c.mapV σ) (n.mapV σ) = (Node.addChild c n).mapV σ := by
  cases n with
  | mk o cs => simp only [Node.mapV_mk, Node.addChild, List.map_append, List.map_cons, List.map_nil]

theorem Node.removeChild_mapV (σ : V → W) (j : Nat) (n : Node G V) :
    Node.removeChild j (n.mapV σ) = (Node.removeChild j n).mapV σ := by
  cases n with
  | mk o cs => simp only [Node.mapV_mk, Node.removeChild, map_eraseIdx']

/-- **one operation of the full set is homogeneous** (`Node.hstep`, what the `path` driver family runs: also the
six `rotate_from_*` entry points — whatever scipy's conversions `sc` are — and `add` / `remove`) -/
theorem Node.hstep_mapV (hσ : VHom G σ) (sc : Scipy α G) (t : Node G V) (op : HOp α G V) :
    (t.mapV σ).hstep sc (op.mapV σ) = (t.hstep sc op).mapV σ := by
  cases op with
  | base o => exact Node.step_mapV hσ t o
  | rotFrom a e an s =>
    simp only [HOp.mapV, Node.hstep, rotFromOp_mapV σ]
    exact Node.step_mapV hσ t _
  | add a c => exact Node.modifyAt_mapV σ _ _ (Node.addChild_mapV σ c) a t
  | remove a j => exact Node.modifyAt_mapV σ _ _ (Node.removeChild_mapV σ j) a t

/-- **whole histories are homogeneous** -/
theorem Node.foldl_hstep_mapV (hσ : VHom G σ) (sc : Scipy α G) (ops : List (HOp α G V)) (t : Node G V) :
    (ops.map (HOp.mapV σ)).foldl (Node.hstep sc) (t.mapV σ) = (ops.foldl (Node.hstep sc) t).mapV σ := by
  induction ops generalizing t with
  | nil => rfl
  | cons op ops ih => simp only [List.map_cons, List.foldl_cons, Node.hstep_mapV hσ, ih]

end ops
end pathScale

/-! ### the two carriers -/

/-- a change of length unit on `V3 ℝ` (`Kern.vs s`), for any rotation carrier that acts linearly -/
theorem vsHom {G : Type} [SMul G (V3 ℝ)] (s : ℝ) (hlin : ∀ (g : G) (c : ℝ) (v : V3 ℝ), g • Kern.vs c v = Kern.vs c (g • v)) :
    VHom G (Kern.vs s) where
  map_add a b := by apply Kern.V3.ext' <;> simp only [Kern.vs, Kern.V3.add_x, Kern.V3.add_y, Kern.V3.add_z] <;> ring
  map_sub a b := by apply Kern.V3.ext' <;> simp only [Kern.vs, Kern.V3.sub_x, Kern.V3.sub_y, Kern.V3.sub_z] <;> ring
  map_zero := by
    show Kern.vs s (⟨0, 0, 0⟩ : V3 ℝ) = ⟨0, 0, 0⟩
    simp [Kern.vs]
  map_smul g v := (hlin g s v).symm

theorem V3.extInt {a b : V3 Int} (hx : a.x = b.x) (hy : a.y = b.y) (hz : a.z = b.z) : a = b := by
  cases a; cases b; simp_all

/-- integer scaling on the carrier the compiled driver computes with (`V3 Int` under `M3 Int`, the bare instances of
Model/Basic.lean) -/
theorem intScaleHom (s : Int) : VHom (M3 Int) (V3.smul s : V3 Int → V3 Int) where
  map_add a b := by
    apply V3.extInt <;> simp only [V3.smul, Kern.V3.add_x, Kern.V3.add_y, Kern.V3.add_z] <;> ring
  map_sub a b := by
    apply V3.extInt <;> simp only [V3.smul, Kern.V3.sub_x, Kern.V3.sub_y, Kern.V3.sub_z] <;> ring
  map_zero := by
    show V3.smul s (⟨0, 0, 0⟩ : V3 Int) = ⟨0, 0, 0⟩
    simp [V3.smul]
  map_smul g v := by
    show V3.smul s (M3.apply g v) = M3.apply g (V3.smul s v)
    apply V3.extInt <;> simp only [V3.smul, M3.apply, V3.dot] <;> ring

end MagpyVerif
