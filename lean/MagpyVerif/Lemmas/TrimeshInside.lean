/-
Lemmas/TrimeshInside.lean — the TriangularMesh inside test (Model/TrimeshInside.lean) over the real carrier: how the
bounding box, the mesh size, the start point of the test ray and the normalised ray test behave under a common positive
length factor (C12) and under a common translation (C16).  Property-level statements: Props/C12, C06, C16.
-/
import MagpyVerif.Lemmas.KernReal
import MagpyVerif.Lemmas.KernAlgebra
import MagpyVerif.Model.TrimeshInside
import MagpyVerif.Lemmas.TrimeshSum

namespace MagpyVerif.Kern
open MagpyVerif

/-! ### reductions are `max` / `min` -/

theorem npMax_real (a b : ℝ) : npMax a b = max a b := by
  simp only [npMax, lt_real, le_real, decide_eq_true_eq]
  rcases lt_or_ge a b with h | h
  · rw [if_pos h, max_eq_right h.le]
  · rw [if_neg (not_lt.mpr h), if_pos h, max_eq_left h]

theorem npMin_real (a b : ℝ) : npMin a b = min a b := by
  simp only [npMin, lt_real, le_real, decide_eq_true_eq]
  rcases lt_or_ge b a with h | h
  · rw [if_pos h, min_eq_right h.le]
  · rw [if_neg (not_lt.mpr h), if_pos h, min_eq_left h]

theorem pyMax_real (a b : ℝ) : pyMax a b = max a b := by
  simp only [pyMax, lt_real, decide_eq_true_eq]
  rcases lt_or_ge a b with h | h
  · rw [if_pos h, max_eq_right h.le]
  · rw [if_neg (not_lt.mpr h), max_eq_left h]

/-- all corners of a triangle multiplied by `l` -/
noncomputable def triScale (l : ℝ) (t : Tri ℝ) : Tri ℝ := (vs l t.1, vs l t.2.1, vs l t.2.2)
/-- all corners of a triangle shifted by `t` -/
noncomputable def triShift (d : V3 ℝ) (t : Tri ℝ) : Tri ℝ := (t.1 + d, t.2.1 + d, t.2.2 + d)

theorem meshVerts_scale (l : ℝ) (faces : List (Tri ℝ)) :
    meshVerts (faces.map (triScale l)) = (meshVerts faces).map (vs l) := by
  induction faces with
  | nil => rfl
  | cons f fs ih =>
    simp only [meshVerts, List.map_cons, List.flatMap_cons, List.map_append] at ih ⊢
    rw [ih]
    rfl

theorem meshVerts_shift (d : V3 ℝ) (faces : List (Tri ℝ)) :
    meshVerts (faces.map (triShift d)) = (meshVerts faces).map (· + d) := by
  induction faces with
  | nil => rfl
  | cons f fs ih =>
    simp only [meshVerts, List.map_cons, List.flatMap_cons, List.map_append] at ih ⊢
    rw [ih]
    rfl

/-! ### scaling -/
section scale
variable (l : ℝ) (hl : 0 < l)
include hl

theorem vMax_scale (a b : V3 ℝ) : vMax (vs l a) (vs l b) = vs l (vMax a b) := by
  simp only [vMax, vs, npMax_real, mul_max_of_nonneg _ _ hl.le]

theorem vMin_scale (a b : V3 ℝ) : vMin (vs l a) (vs l b) = vs l (vMin a b) := by
  simp only [vMin, vs, npMin_real, mul_min_of_nonneg _ _ hl.le]

theorem foldl_vMax_scale (rest : List (V3 ℝ)) (v : V3 ℝ) :
    (rest.map (vs l)).foldl vMax (vs l v) = vs l (rest.foldl vMax v) := by
  induction rest generalizing v with
  | nil => rfl
  | cons w ws ih => simp only [List.map_cons, List.foldl_cons, vMax_scale l hl, ih]

theorem foldl_vMin_scale (rest : List (V3 ℝ)) (v : V3 ℝ) :
    (rest.map (vs l)).foldl vMin (vs l v) = vs l (rest.foldl vMin v) := by
  induction rest generalizing v with
  | nil => rfl
  | cons w ws ih => simp only [List.map_cons, List.foldl_cons, vMin_scale l hl, ih]

omit hl in
theorem vs_zero3_ti : vs l (zero3 : V3 ℝ) = zero3 := by
  apply V3.ext' <;> simp [vs, zero3, n]

theorem vertsMax_scale (verts : List (V3 ℝ)) : vertsMax (verts.map (vs l)) = vs l (vertsMax verts) := by
  cases verts with
  | nil => simp only [List.map_nil, vertsMax]; exact (vs_zero3_ti l).symm
  | cons v rest => simp only [List.map_cons, vertsMax, foldl_vMax_scale l hl]

theorem vertsMin_scale (verts : List (V3 ℝ)) : vertsMin (verts.map (vs l)) = vs l (vertsMin verts) := by
  cases verts with
  | nil => simp only [List.map_nil, vertsMin]; exact (vs_zero3_ti l).symm
  | cons v rest => simp only [List.map_cons, vertsMin, foldl_vMin_scale l hl]

theorem vertsSize_scale (verts : List (V3 ℝ)) : vertsSize (verts.map (vs l)) = l * vertsSize verts := by
  simp only [vertsSize, vertsMax_scale l hl, vertsMin_scale l hl, vs, npMax_real, ← mul_sub,
    ← mul_max_of_nonneg _ _ hl.le]

theorem mul_lt_mul_iff_left' (u v : ℝ) : (l * u < l * v) ↔ (u < v) :=
  ⟨fun h => lt_of_mul_lt_mul_left h hl.le, fun h => mul_lt_mul_of_pos_left h hl⟩

/-- the bounding-box pre-filter is unit-free: its tolerance is `1e-12` of the largest box edge -/
theorem insideBoxV_scale (verts : List (V3 ℝ)) (x : V3 ℝ) :
    insideBoxV (verts.map (vs l)) (vs l x) = insideBoxV verts x := by
  have e1 : ∀ a b c : ℝ, l * a + c * (l * b) = l * (a + c * b) := fun a b c => by ring
  have e2 : ∀ a b c : ℝ, l * a - c * (l * b) = l * (a - c * b) := fun a b c => by ring
  simp only [insideBoxV, vertsMax_scale l hl, vertsMin_scale l hl, vs, pyMax_real, ← mul_sub,
    ← mul_max_of_nonneg _ _ hl.le, lt_real, e1, e2, mul_lt_mul_iff_left' l hl]

theorem startPointOutside_scale (verts : List (V3 ℝ)) :
    startPointOutside (verts.map (vs l)) = vs l (startPointOutside verts) := by
  simp only [startPointOutside, vertsSize_scale l hl, vertsMin_scale l hl, vs]
  apply V3.ext' <;> simp only [] <;> ring

theorem triDiv_scale (s : ℝ) (f : Tri ℝ) : triDiv (l * s) (triScale l f) = triDiv s f := by
  simp only [triDiv, triScale, vd_vs_vs mu0R l hl.ne']

/-- `lines_end_in_trimesh` on a mesh of positive size: after the division by the size the scaled and the unscaled call
work on literally the same numbers -/
theorem linesEndInTrimesh_scale (l0 l1 : V3 ℝ) (faces : List (Tri ℝ)) (hs : 0 < meshSize faces) :
    linesEndInTrimesh (vs l l0) (vs l l1) (faces.map (triScale l)) = linesEndInTrimesh l0 l1 faces := by
  have hsz : meshSize (faces.map (triScale l)) = l * meshSize faces := by
    simp only [meshSize, meshVerts_scale, vertsSize_scale l hl]
  have hs' : 0 < l * meshSize faces := mul_pos hl hs
  simp only [linesEndInTrimesh, hsz, lt_real, n, ofNat_real, Nat.cast_zero, hs, hs', decide_true, if_true,
    vd_vs_vs mu0R l hl.ne', List.map_map]
  congr 1
  apply List.map_congr_left
  intro f _
  exact triDiv_scale l hl _ f

end scale

/-- a point that passes the bounding-box pre-filter certifies a mesh of positive size (for a mesh collapsed to a point the
two strict comparisons `x < max + 0` and `x > min − 0` cannot both hold) -/
theorem size_pos_of_insideBoxV (verts : List (V3 ℝ)) (x : V3 ℝ) (h : insideBoxV verts x = true) :
    0 < vertsSize verts := by
  simp only [insideBoxV, vertsSize, pyMax_real, npMax_real, lt_real, n, ofNat_real, Nat.cast_one, Nat.cast_ofNat,
    Bool.and_eq_true, decide_eq_true_eq] at h ⊢
  obtain ⟨⟨⟨h1, h2⟩, -⟩, -⟩ := h
  set s := max (max ((vertsMax verts).x - (vertsMin verts).x) ((vertsMax verts).y - (vertsMin verts).y))
    ((vertsMax verts).z - (vertsMin verts).z) with hs
  have hle : (vertsMax verts).x - (vertsMin verts).x ≤ s := le_trans (le_max_left _ _) (le_max_left _ _)
  by_contra hneg
  rw [not_lt] at hneg
  nlinarith

/-! ### translation -/
section shift
variable (d : V3 ℝ)

theorem add_sub_add (a b : V3 ℝ) : (a + d) - (b + d) = a - b := by
  apply V3.ext' <;> simp

theorem vMax_shift (a b : V3 ℝ) : vMax (a + d) (b + d) = vMax a b + d := by
  apply V3.ext' <;> simp [vMax, npMax_real, max_add_add_right]

theorem vMin_shift (a b : V3 ℝ) : vMin (a + d) (b + d) = vMin a b + d := by
  apply V3.ext' <;> simp [vMin, npMin_real, min_add_add_right]

theorem foldl_vMax_shift (rest : List (V3 ℝ)) (v : V3 ℝ) :
    (rest.map (· + d)).foldl vMax (v + d) = rest.foldl vMax v + d := by
  induction rest generalizing v with
  | nil => rfl
  | cons w ws ih => simp only [List.map_cons, List.foldl_cons, vMax_shift, ih]

theorem foldl_vMin_shift (rest : List (V3 ℝ)) (v : V3 ℝ) :
    (rest.map (· + d)).foldl vMin (v + d) = rest.foldl vMin v + d := by
  induction rest generalizing v with
  | nil => rfl
  | cons w ws ih => simp only [List.map_cons, List.foldl_cons, vMin_shift, ih]

theorem vertsMax_shift (verts : List (V3 ℝ)) (hne : verts ≠ []) :
    vertsMax (verts.map (· + d)) = vertsMax verts + d := by
  cases verts with
  | nil => exact absurd rfl hne
  | cons v rest => simp only [List.map_cons, vertsMax, foldl_vMax_shift]

theorem vertsMin_shift (verts : List (V3 ℝ)) (hne : verts ≠ []) :
    vertsMin (verts.map (· + d)) = vertsMin verts + d := by
  cases verts with
  | nil => exact absurd rfl hne
  | cons v rest => simp only [List.map_cons, vertsMin, foldl_vMin_shift]

theorem vertsSize_shift (verts : List (V3 ℝ)) (hne : verts ≠ []) :
    vertsSize (verts.map (· + d)) = vertsSize verts := by
  simp only [vertsSize, vertsMax_shift d verts hne, vertsMin_shift d verts hne, V3.add_x, V3.add_y, V3.add_z,
    add_sub_add_right_eq_sub]

theorem insideBoxV_shift (verts : List (V3 ℝ)) (hne : verts ≠ []) (x : V3 ℝ) :
    insideBoxV (verts.map (· + d)) (x + d) = insideBoxV verts x := by
  simp only [insideBoxV, vertsMax_shift d verts hne, vertsMin_shift d verts hne, V3.add_x, V3.add_y, V3.add_z,
    add_sub_add_right_eq_sub, lt_real]
  have f1 : ∀ a b c e : ℝ, (a + b < c + b + e) ↔ (a < c + e) := fun a b c e => by
    constructor <;> intro h <;> linarith
  have f2 : ∀ a b c e : ℝ, (c + b - e < a + b) ↔ (c - e < a) := fun a b c e => by
    constructor <;> intro h <;> linarith
  simp only [f1, f2]

theorem startPointOutside_shift (verts : List (V3 ℝ)) (hne : verts ≠ []) :
    startPointOutside (verts.map (· + d)) = startPointOutside verts + d := by
  simp only [startPointOutside, vertsSize_shift d verts hne, vertsMin_shift d verts hne]
  apply V3.ext' <;> simp <;> ring

theorem faceTest_shift (l0 l1 : V3 ℝ) (f : Tri ℝ) :
    faceTest (l0 + d) (l1 + d) (triShift d f) = faceTest l0 l1 f := by
  simp only [faceTest, triShift, add_sub_add]
  split <;> simp only [add_sub_add]

/-- the normalised ray test only looks at differences of positions -/
theorem linesEndCore_shift (l0 l1 : V3 ℝ) (faces : List (Tri ℝ)) :
    linesEndCore (l0 + d) (l1 + d) (faces.map (triShift d)) = linesEndCore l0 l1 faces := by
  have : (faces.map (triShift d)).map (faceTest (l0 + d) (l1 + d)) = faces.map (faceTest l0 l1) := by
    rw [List.map_map]
    apply List.map_congr_left
    intro f _
    exact faceTest_shift d l0 l1 f
  simp only [linesEndCore, this]

theorem vd_add (a b : V3 ℝ) (s : ℝ) : vd (a + b) s = vd a s + vd b s := by
  apply V3.ext' <;> simp [vd, add_div]

theorem triDiv_shift (s : ℝ) (f : Tri ℝ) : triDiv s (triShift d f) = triShift (vd d s) (triDiv s f) := by
  simp only [triDiv, triShift, vd_add]

theorem linesEndInTrimesh_shift (l0 l1 : V3 ℝ) (faces : List (Tri ℝ)) (hne : faces ≠ []) :
    linesEndInTrimesh (l0 + d) (l1 + d) (faces.map (triShift d)) = linesEndInTrimesh l0 l1 faces := by
  have hv : meshVerts faces ≠ [] := by
    cases faces with
    | nil => exact absurd rfl hne
    | cons f fs => simp [meshVerts, triVerts]
  have hsz : meshSize (faces.map (triShift d)) = meshSize faces := by
    simp only [meshSize, meshVerts_shift, vertsSize_shift d _ hv]
  simp only [linesEndInTrimesh, hsz]
  split
  · rw [vd_add, vd_add]
    have : (faces.map (triShift d)).map (triDiv (meshSize faces)) =
        (faces.map (triDiv (meshSize faces))).map (triShift (vd d (meshSize faces))) := by
      simp only [List.map_map]
      apply List.map_congr_left
      intro f _
      exact triDiv_shift d _ f
    rw [this, linesEndCore_shift]
  · exact linesEndCore_shift d l0 l1 faces

end shift

/-! ### the whole test, and the facet-orientation seed test -/

theorem meshVerts_ne_nil (f : Tri ℝ) (fs : List (Tri ℝ)) : meshVerts (f :: fs) ≠ [] := by
  simp [meshVerts, triVerts]

theorem maskInsideTrimesh_scale (l : ℝ) (hl : 0 < l) (faces : List (Tri ℝ)) (x : V3 ℝ) :
    maskInsideTrimesh (faces.map (triScale l)) (vs l x) = maskInsideTrimesh faces x := by
  simp only [maskInsideTrimesh, meshVerts_scale, insideBoxV_scale l hl, startPointOutside_scale l hl]
  by_cases hb : insideBoxV (meshVerts faces) x = true
  · have hs : 0 < meshSize faces := size_pos_of_insideBoxV _ _ hb
    simp only [hb, if_true, linesEndInTrimesh_scale l hl _ _ faces hs]
  · simp only [hb, Bool.false_eq_true, if_false]

theorem maskInsideTrimesh_shift (d : V3 ℝ) (faces : List (Tri ℝ)) (x : V3 ℝ) :
    maskInsideTrimesh (faces.map (triShift d)) (x + d) = maskInsideTrimesh faces x := by
  cases faces with
  | nil =>
    have key : ∀ a : ℝ, (decide (a < 0) && decide (0 < a)) = false := by
      intro a
      by_cases h : a < 0
      · simp [h, not_lt.mpr h.le]
      · simp [h]
    simp [maskInsideTrimesh, meshVerts, insideBoxV, vertsMax, vertsMin, zero3, n, pyMax_real, key]
  | cons f fs =>
    have hv := meshVerts_ne_nil f fs
    have hne : f :: fs ≠ [] := List.cons_ne_nil _ _
    simp only [maskInsideTrimesh, meshVerts_shift, insideBoxV_shift d _ hv, startPointOutside_shift d _ hv,
      linesEndInTrimesh_shift d _ _ _ hne]

theorem vd_vs_comm (l c : ℝ) (p : V3 ℝ) : vd (vs l p) c = vs l (vd p c) := by
  apply V3.ext' <;> simp only [vd, vs] <;> ring

theorem isFacetInwards_scale (l : ℝ) (hl : 0 < l) (face : Tri ℝ) (faces : List (Tri ℝ)) :
    isFacetInwards (triScale l face) (faces.map (triScale l)) = isFacetInwards face faces := by
  have hll : 0 < l * l := mul_pos hl hl
  simp only [isFacetInwards, triScale, vs_sub_vs mu0R, vs_add_vs mu0R, cross_vs_vs mu0R, norm_vs mu0R _ hll,
    norm_vs mu0R _ hl, vd_vs_vs mu0R _ hll.ne', vd_vs_comm, pyMax_real, ← mul_max_of_nonneg _ _ hl.le]
  rw [← maskInsideTrimesh_scale l hl faces]
  congr 1
  apply V3.ext' <;> simp only [vs] <;> ring

theorem isFacetInwards_shift (d : V3 ℝ) (face : Tri ℝ) (faces : List (Tri ℝ)) :
    isFacetInwards (triShift d face) (faces.map (triShift d)) = isFacetInwards face faces := by
  simp only [isFacetInwards, triShift, add_sub_add]
  rw [← maskInsideTrimesh_shift d faces]
  congr 1
  apply V3.ext' <;> simp [vd, n] <;> ring


/-! ### the per-face test without square roots (for evaluating the model at concrete rational inputs) -/

theorem sgn_real (x : ℝ) : sgn x = if x < 0 then 0 else if 0 < x then 2 else 1 := by
  simp only [sgn, lt_real, eq0_real, n, ofNat_real, Nat.cast_zero, decide_eq_true_eq]
  by_cases h1 : x < 0
  · simp only [h1, if_true]
  · by_cases h2 : 0 < x
    · simp only [h1, h2, if_true, if_false]
    · have : x = 0 := le_antisymm (not_lt.mp h2) (not_lt.mp h1)
      simp [this]

theorem sgn_ne_three (x : ℝ) : sgn x ≠ 3 := by
  rw [sgn_real]; split_ifs <;> decide

theorem signNe_real (a b : ℝ) : signNe a b = (sgn a != sgn b) := by
  have ha : (sgn a == 3) = false := by simpa using sgn_ne_three a
  have hb : (sgn b == 3) = false := by simpa using sgn_ne_three b
  simp only [signNe, ha, hb, Bool.false_or]

theorem not_bne_nat (a b : Nat) : (!(a != b)) = (a == b) := by
  cases h : a == b <;> simp [bne, h]

theorem sgn_pos_mul (c x : ℝ) (hc : 0 < c) : sgn (x / c) = sgn x := by
  simp only [sgn_real, div_neg_iff, div_pos_iff, hc, not_lt.mpr hc.le, and_true, and_false, or_false, false_or]

theorem vNormProj_sgn (a b : V3 ℝ) (h : 0 < vNorm2 a * vNorm2 b) : sgn (vNormProj a b) = sgn (V3.dot a b) := by
  simp only [vNormProj, sqrt_real]
  exact sgn_pos_mul _ _ (Real.sqrt_pos.mpr h)

theorem vNormProj_abs_lt (a b : V3 ℝ) (h : 0 < vNorm2 a * vNorm2 b) (c : ℝ) (hc : 0 < c) :
    |vNormProj a b| < c ↔ (V3.dot a b) ^ 2 < c ^ 2 * (vNorm2 a * vNorm2 b) := by
  simp only [vNormProj, sqrt_real]
  have hs := Real.sqrt_pos.mpr h
  rw [abs_div, abs_of_pos hs, div_lt_iff₀ hs]
  have hsq : Real.sqrt (vNorm2 a * vNorm2 b) ^ 2 = vNorm2 a * vNorm2 b := Real.sq_sqrt h.le
  have hcs : 0 < c * Real.sqrt (vNorm2 a * vNorm2 b) := mul_pos hc hs
  constructor
  · intro hlt
    have := pow_lt_pow_left₀ hlt (abs_nonneg _) (n := 2) (by norm_num)
    rw [sq_abs, mul_pow, hsq] at this
    exact this
  · intro hlt
    have h2 : |a.x * b.x + a.y * b.y + a.z * b.z| ^ 2 < (c * Real.sqrt (vNorm2 a * vNorm2 b)) ^ 2 := by
      rw [sq_abs, mul_pow, hsq]; exact hlt
    exact lt_of_pow_lt_pow_left₀ 2 hcs.le h2

/-- the per-face test when the observer is not within `1e-8` (normalised) of the reference corner `f[2]` and neither the
facet normal nor the two vectors from the reference corner vanish: signs of the two scalar products with the normal, the
touch test squared, the three signed volumes -/
theorem faceTest_eval (l0 l1 : V3 ℝ) (f : Tri ℝ)
    (hco : ¬ vNorm2 (l1 - f.2.2) < 1 / 10000000000000000)
    (hn : 0 < vNorm2 (V3.cross (f.1 - f.2.2) (f.2.1 - f.2.2))) (h0 : 0 < vNorm2 (l0 - f.2.2)) :
    faceTest l0 l1 f =
      (let nrm := V3.cross (f.1 - f.2.2) (f.2.1 - f.2.2)
       let a1 := vDotCross3d (f.1 - l0) (f.2.1 - l0) (l1 - l0)
       let a2 := vDotCross3d (f.2.1 - l0) (f.2.2 - l0) (l1 - l0)
       let a3 := vDotCross3d (f.2.2 - l0) (f.1 - l0) (l1 - l0)
       let pt := (decide (|a1| < 1 / 1000000000000) || decide (|a2| < 1 / 1000000000000) ||
                  decide (|a3| < 1 / 1000000000000)) || (sgn a1 == sgn a2 && sgn a2 == sgn a3)
       (pt && (sgn (V3.dot (l0 - f.2.2) nrm) != sgn (V3.dot (l1 - f.2.2) nrm)),
        pt && decide ((V3.dot (l1 - f.2.2) nrm) ^ 2 <
          (1 / 10000000) ^ 2 * (vNorm2 (l1 - f.2.2) * vNorm2 nrm)))) := by
  have h1 : 0 < vNorm2 (l1 - f.2.2) := lt_of_lt_of_le (by norm_num) (not_lt.mp hco)
  have hc' : (decide (vNorm2 (l1 - f.2.2) < 1 / 10000000000000000)) = false := by simpa using hco
  simp only [faceTest, lt_real, abs_real, n, ofNat_real, Nat.cast_one, Nat.cast_ofNat, hc', Bool.false_eq_true, if_false,
    signNe_real, signEq, vNormProj_sgn _ _ (mul_pos h0 hn), vNormProj_sgn _ _ (mul_pos h1 hn),
    vNormProj_abs_lt _ _ (mul_pos h1 hn) _ (by norm_num : (0 : ℝ) < 1 / 10000000), not_bne_nat]

/-! ### face order -/

/-- a fold of an associative, commutative, idempotent operation started at the head does not depend on the order -/
theorem foldl_head_perm {β : Type} (op : β → β → β) (hc : ∀ a b, op a b = op b a)
    (ha : ∀ a b c, op (op a b) c = op a (op b c)) (hi : ∀ a, op a a = a)
    {v v' : β} {rest rest' : List β} (hp : (v :: rest).Perm (v' :: rest')) :
    rest.foldl op v = rest'.foldl op v' := by
  have : RightCommutative op := ⟨fun a b c => by rw [ha, hc b c, ← ha]⟩
  have hout : ∀ (L : List β) (a b : β), L.foldl op (op a b) = op a (L.foldl op b) := by
    intro L
    induction L with
    | nil => intro a b; rfl
    | cons w ws ih => intro a b; simp only [List.foldl_cons, ha, ih]
  have hA : rest.foldl op v = op v (rest'.foldl op v') := by
    calc rest.foldl op v = (v :: rest).foldl op v := by simp only [List.foldl_cons, hi]
      _ = (v' :: rest').foldl op v := hp.foldl_eq v
      _ = op v (rest'.foldl op v') := by simp only [List.foldl_cons, hout]
  have hB : rest'.foldl op v' = op v' (rest.foldl op v) := by
    calc rest'.foldl op v' = (v' :: rest').foldl op v' := by simp only [List.foldl_cons, hi]
      _ = (v :: rest).foldl op v' := hp.symm.foldl_eq v'
      _ = op v' (rest.foldl op v) := by simp only [List.foldl_cons, hout]
  set A := rest.foldl op v
  set B := rest'.foldl op v'
  -- A = v ⊔ B, B = v' ⊔ A
  calc A = op v B := hA
    _ = op v (op v' A) := by rw [← hB]
    _ = op v (op v' (op v B)) := by rw [← hA]
    _ = op (op v' v) (op v B) := by rw [← ha, hc v v']
    _ = op v' (op v (op v B)) := by rw [ha]
    _ = op v' (op v B) := by rw [← ha v v B, hi]
    _ = op v' A := by rw [← hA]
    _ = B := hB.symm

theorem vMax_comm (a b : V3 ℝ) : vMax a b = vMax b a := by
  simp only [vMax, npMax_real, max_comm]
theorem vMax_assoc (a b c : V3 ℝ) : vMax (vMax a b) c = vMax a (vMax b c) := by
  simp only [vMax, npMax_real, max_assoc]
theorem vMax_idem (a : V3 ℝ) : vMax a a = a := by
  simp only [vMax, npMax_real, max_self]
theorem vMin_comm (a b : V3 ℝ) : vMin a b = vMin b a := by
  simp only [vMin, npMin_real, min_comm]
theorem vMin_assoc (a b c : V3 ℝ) : vMin (vMin a b) c = vMin a (vMin b c) := by
  simp only [vMin, npMin_real, min_assoc]
theorem vMin_idem (a : V3 ℝ) : vMin a a = a := by
  simp only [vMin, npMin_real, min_self]

theorem vertsMax_perm {v1 v2 : List (V3 ℝ)} (hp : v1.Perm v2) : vertsMax v1 = vertsMax v2 := by
  cases v1 with
  | nil => rw [List.nil_perm.mp hp]
  | cons a r =>
    cases v2 with
    | nil => exact absurd (List.perm_nil.mp hp) (List.cons_ne_nil _ _)
    | cons b r' => exact foldl_head_perm vMax vMax_comm vMax_assoc vMax_idem hp

theorem vertsMin_perm {v1 v2 : List (V3 ℝ)} (hp : v1.Perm v2) : vertsMin v1 = vertsMin v2 := by
  cases v1 with
  | nil => rw [List.nil_perm.mp hp]
  | cons a r =>
    cases v2 with
    | nil => exact absurd (List.perm_nil.mp hp) (List.cons_ne_nil _ _)
    | cons b r' => exact foldl_head_perm vMin vMin_comm vMin_assoc vMin_idem hp

theorem linesEndCore_perm (l0 l1 : V3 ℝ) {f1 f2 : List (Tri ℝ)} (hp : f1.Perm f2) :
    linesEndCore l0 l1 f1 = linesEndCore l0 l1 f2 := by
  have hm := hp.map (faceTest l0 l1)
  simp only [linesEndCore, hm.countP_eq, hm.any_eq]

/-- the inside test does not depend on the order in which the faces are listed -/
theorem maskInsideTrimesh_perm {f1 f2 : List (Tri ℝ)} (hp : f1.Perm f2) (x : V3 ℝ) :
    maskInsideTrimesh f1 x = maskInsideTrimesh f2 x := by
  have hv : (meshVerts f1).Perm (meshVerts f2) := hp.flatMap_right _
  have hmax := vertsMax_perm hv
  have hmin := vertsMin_perm hv
  have hsz : meshSize f1 = meshSize f2 := by simp only [meshSize, vertsSize, hmax, hmin]
  have hcore : ∀ l0 l1, linesEndInTrimesh l0 l1 f1 = linesEndInTrimesh l0 l1 f2 := by
    intro l0 l1
    simp only [linesEndInTrimesh, hsz]
    split
    · exact linesEndCore_perm _ _ (hp.map _)
    · exact linesEndCore_perm _ _ hp
  have hbox : insideBoxV (meshVerts f1) x = insideBoxV (meshVerts f2) x := by simp only [insideBoxV, hmax, hmin]
  have hst : startPointOutside (meshVerts f1) = startPointOutside (meshVerts f2) := by
    simp only [startPointOutside, vertsSize, hmax, hmin]
  simp only [maskInsideTrimesh, hbox, hst, hcore]

/-! ### the model evaluated on the unit tetrahedron -/

/-- the tetrahedron (0,0,0), (1,0,0), (0,1,0), (0,0,1) as four outward-wound faces -/
noncomputable def unitTetra : List (Tri ℝ) :=
  [(⟨0, 0, 0⟩, ⟨0, 1, 0⟩, ⟨1, 0, 0⟩), (⟨0, 0, 0⟩, ⟨1, 0, 0⟩, ⟨0, 0, 1⟩), (⟨1, 0, 0⟩, ⟨0, 1, 0⟩, ⟨0, 0, 1⟩),
   (⟨0, 0, 0⟩, ⟨0, 0, 1⟩, ⟨0, 1, 0⟩)]

theorem vd_one (v : V3 ℝ) : vd v 1 = v := by
  apply V3.ext' <;> simp [vd]

theorem triDiv_one (f : Tri ℝ) : triDiv 1 f = f := by
  simp [triDiv, vd_one]

theorem linesEnd_size_one (l0 l1 : V3 ℝ) (faces : List (Tri ℝ)) (h : meshSize faces = 1) :
    linesEndInTrimesh l0 l1 faces = linesEndCore l0 l1 faces := by
  have hm : faces.map (triDiv 1) = faces :=
    (List.map_congr_left fun f _ => triDiv_one f).trans (List.map_id _)
  simp [linesEndInTrimesh, h, n, vd_one, hm]

theorem ut_min : vertsMin (meshVerts unitTetra) = ⟨0, 0, 0⟩ := by
  simp [unitTetra, meshVerts, triVerts, vertsMin, vMin, npMin_real]
theorem ut_max : vertsMax (meshVerts unitTetra) = ⟨1, 1, 1⟩ := by
  simp [unitTetra, meshVerts, triVerts, vertsMax, vMax, npMax_real]
theorem ut_size : vertsSize (meshVerts unitTetra) = 1 := by
  simp [vertsSize, ut_min, ut_max, npMax_real]
theorem ut_start : startPointOutside (meshVerts unitTetra) =
    ⟨-(120012345 / 10000000), -(59923456 / 10000000), -(69932109 / 10000000)⟩ := by
  simp [startPointOutside, ut_size, ut_min, n]

/-- the centre-ish point (1/4, 1/4, 1/4) of the unit tetrahedron is found inside -/
theorem unitTetra_quarter_inside : maskInsideTrimesh unitTetra ⟨1 / 4, 1 / 4, 1 / 4⟩ = true := by
  have hbox : insideBoxV (meshVerts unitTetra) ⟨1 / 4, 1 / 4, 1 / 4⟩ = true := by
    simp [insideBoxV, ut_min, ut_max, pyMax_real, n]; norm_num
  simp only [maskInsideTrimesh, hbox, if_true, ut_start]
  rw [linesEnd_size_one _ _ _ ut_size]
  simp only [linesEndCore, unitTetra, List.map_cons, List.map_nil]
  rw [faceTest_eval, faceTest_eval, faceTest_eval, faceTest_eval]
  · norm_num [sgn_real, V3.dot, V3.cross, vNorm2, vDotCross3d]
  all_goals norm_num [V3.cross, vNorm2]

/-- (3/5, 3/5, 3/5) lies in the bounding box of the unit tetrahedron but beyond its slanted face: found outside by the ray
test (not by the pre-filter) -/
theorem unitTetra_outside_in_box : insideEnclosingBox unitTetra ⟨3 / 5, 3 / 5, 3 / 5⟩ = true ∧
    maskInsideTrimesh unitTetra ⟨3 / 5, 3 / 5, 3 / 5⟩ = false := by
  have hbox : insideBoxV (meshVerts unitTetra) ⟨3 / 5, 3 / 5, 3 / 5⟩ = true := by
    simp [insideBoxV, ut_min, ut_max, pyMax_real, n]; norm_num
  refine ⟨hbox, ?_⟩
  simp only [maskInsideTrimesh, hbox, if_true, ut_start]
  rw [linesEnd_size_one _ _ _ ut_size]
  simp only [linesEndCore, unitTetra, List.map_cons, List.map_nil]
  rw [faceTest_eval, faceTest_eval, faceTest_eval, faceTest_eval]
  · norm_num [sgn_real, V3.dot, V3.cross, vNorm2, vDotCross3d]
  all_goals norm_num [V3.cross, vNorm2]

/-- the point `e + (e − start)/100` with `e = (0, 0, 1/2)` the midpoint of the edge (0,0,0)–(0,0,1) and `start` the start
point of the test ray: the ray to it passes through that edge, both faces sharing the edge count a crossing
("if line passes through triangle edge/corners it counts as intersection"), the parity is even, the verdict "outside" -/
theorem unitTetra_edge_ray_outside :
    maskInsideTrimesh unitTetra ⟨120012345 / 1000000000, 59923456 / 1000000000, 574932109 / 1000000000⟩ = false := by
  have hbox : insideBoxV (meshVerts unitTetra)
      ⟨120012345 / 1000000000, 59923456 / 1000000000, 574932109 / 1000000000⟩ = true := by
    simp [insideBoxV, ut_min, ut_max, pyMax_real, n]; norm_num
  simp only [maskInsideTrimesh, hbox, if_true, ut_start]
  rw [linesEnd_size_one _ _ _ ut_size]
  simp only [linesEndCore, unitTetra, List.map_cons, List.map_nil]
  rw [faceTest_eval, faceTest_eval, faceTest_eval, faceTest_eval]
  · norm_num [sgn_real, V3.dot, V3.cross, vNorm2, vDotCross3d]
  all_goals norm_num [V3.cross, vNorm2]

/-! ### the batch function with the ported inside test -/

/-- one row with mesh and observer multiplied by `l` (the polarization is not a length) -/
noncomputable def rowScale (l : ℝ) (r : MeshRow ℝ) : MeshRow ℝ :=
  { faces := r.faces.map (triScale l), obs := vs l r.obs, pol := r.pol }

theorem meshRowSheets_scale (l : ℝ) (hl : 0 < l) (r : MeshRow ℝ) : meshRowSheets (rowScale l r) = meshRowSheets r := by
  simp only [meshRowSheets, rowScale, List.map_map]
  congr 1
  apply List.map_congr_left
  intro t _
  exact triangleB_scale' mu0R l hl t.1 t.2.1 t.2.2 r.pol r.obs

theorem bhjmTrimeshRow_scale (l : ℝ) (hl : 0 < l) (f : Field) (r : MeshRow ℝ) :
    bhjmTrimeshRow f (fun r => r.faces) maskInsideTrimesh (rowScale l r) =
      bhjmTrimeshRow f (fun r => r.faces) maskInsideTrimesh r := by
  have h1 := meshRowSheets_scale l hl r
  have h2 : maskInsideTrimesh (rowScale l r).faces (rowScale l r).obs = maskInsideTrimesh r.faces r.obs :=
    maskInsideTrimesh_scale l hl r.faces r.obs
  cases f <;> simp only [bhjmTrimeshRow, h1, h2] <;> rfl

end MagpyVerif.Kern
