/- Lemmas/Polyline.lean — both batch branches of current_vertices_field equal the per-instance sum over segments -/
import MagpyVerif.Model.Polyline
namespace MagpyVerif.Kern
variable {α : Type} [Num α]

theorem pairs_eq_zip {β : Type} : ∀ (l : List β), pairs l = l.dropLast.zip l.tail
  | [] => rfl
  | [_] => rfl
  | a :: b :: rest => by
    have ih := pairs_eq_zip (b :: rest)
    simp only [pairs, ih, List.dropLast_cons_cons, List.tail_cons, List.zip_cons_cons]

theorem length_pairs {β : Type} (l : List β) : (pairs l).length = l.length - 1 := by
  rw [pairs_eq_zip]; simp

theorem zip_flatMap {ι β γ : Type} (l : List ι) (f : ι → List β) (g : ι → List γ)
    (h : ∀ i ∈ l, (f i).length = (g i).length) :
    (l.flatMap f).zip (l.flatMap g) = l.flatMap (fun i => (f i).zip (g i)) := by
  induction l with
  | nil => rfl
  | cons i rest ih =>
    simp only [List.flatMap_cons]
    rw [List.zip_append (h i (by simp)), ih (fun j hj => h j (by simp [hj]))]

theorem splitLens_flatten {β : Type} : ∀ (ls : List (List β)), splitLens (ls.map List.length) ls.flatten = ls
  | [] => rfl
  | l :: rest => by
    simp only [List.map_cons, List.flatten_cons, splitLens, List.take_left', List.drop_left']
    rw [splitLens_flatten rest]

/-- the segments of one instance -/
def rowSegs (f : Field) (i : PolyInst α) : List (V3 α) :=
  (pairs i.verts).map fun (a, b) => bhjmSegment f i.cur a b i.obs

theorem length_rowSegs (f : Field) (i : PolyInst α) : (rowSegs f i).length = i.verts.length - 1 := by
  simp [rowSegs, length_pairs]

theorem flatRows_eq (f : Field) (insts : List (PolyInst α)) :
    flatRows f insts = (insts.map (rowSegs f)).flatten := by
  unfold flatRows
  simp only
  rw [zip_flatMap insts _ _ (by intro i _; simp)]
  rw [zip_flatMap insts _ _ (by intro i _; simp)]
  rw [zip_flatMap insts _ _ (by intro i _; simp)]
  rw [List.map_flatMap, List.flatMap_def]
  congr 1
  apply List.map_congr_left
  intro i _
  simp only [rowSegs, pairs_eq_zip]
  apply List.ext_getElem
  · simp
  · intro n h1 h2
    simp

theorem verticesFieldRagged_rowwise (f : Field) (insts : List (PolyInst α)) :
    verticesFieldRagged f insts = insts.map fun i => polylineRow f i.cur i.verts i.obs := by
  unfold verticesFieldRagged
  rw [flatRows_eq]
  have : (insts.map fun i => i.verts.length - 1) = (insts.map (rowSegs f)).map List.length := by
    simp [length_rowSegs]
  rw [this, splitLens_flatten]
  simp [polylineRow, rowSegs]

theorem verticesFieldEqual_rowwise (f : Field) (n1 : Nat) (insts : List (PolyInst α))
    (h : ∀ i ∈ insts, i.verts.length = n1) :
    verticesFieldEqual f n1 insts = insts.map fun i => polylineRow f i.cur i.verts i.obs := by
  rw [← verticesFieldRagged_rowwise]
  unfold verticesFieldEqual verticesFieldRagged
  congr 2
  apply List.ext_getElem
  · simp
  · intro n h1 h2
    simp only [List.getElem_replicate, List.getElem_map]
    rw [h _ (List.getElem_mem _)]

theorem verticesField_rowwise (f : Field) (insts : List (PolyInst α)) :
    verticesField f insts = insts.map fun i => polylineRow f i.cur i.verts i.obs := by
  cases insts with
  | nil => rfl
  | cons i0 rest =>
    simp only [verticesField]
    split
    · rename_i hall
      apply verticesFieldEqual_rowwise
      intro i hi
      have := List.all_eq_true.mp hall i hi
      simpa using this
    · exact verticesFieldRagged_rowwise f _
end MagpyVerif.Kern
