-- GENERATED from magpylib package source (AST scan) and magpylib.mu_0 by /verif/translate/gen.py — do not edit; rewritten on every check run
namespace MagpyVerif.Gen.Const

/-- bit pattern of the exported `magpylib.mu_0` -/
def mu0Bits : UInt64 := 4518541127364510249

/-- every place in the package where a value for mu_0 enters (file, line, kind, in fields/?): scipy's constant (= the exported one) or a spelled-out 4*pi*1e-7 -/
def mu0Sites : List (String × Nat × String × Bool) := [("magpylib/__init__.py", 56, "scipy", false), ("magpylib/_src/fields/field_BH_circle.py", 7, "scipy", true), ("magpylib/_src/fields/field_BH_cuboid.py", 7, "scipy", true), ("magpylib/_src/fields/field_BH_cylinder.py", 9, "scipy", true), ("magpylib/_src/fields/field_BH_cylinder_segment.py", 9, "scipy", true), ("magpylib/_src/fields/field_BH_dipole.py", 6, "scipy", true), ("magpylib/_src/fields/field_BH_polyline.py", 9, "scipy", true), ("magpylib/_src/fields/field_BH_sphere.py", 7, "scipy", true), ("magpylib/_src/fields/field_BH_tetrahedron.py", 7, "scipy", true), ("magpylib/_src/fields/field_BH_triangle.py", 8, "scipy", true), ("magpylib/_src/fields/field_BH_triangularmesh.py", 11, "scipy", true), ("magpylib/_src/obj_classes/class_BaseExcitations.py", 432, "literal", false), ("magpylib/_src/obj_classes/class_BaseExcitations.py", 455, "literal", false)]

end MagpyVerif.Gen.Const
