-- GENERATED from magpylib/_src/obj_classes/class_BaseTransform.py:path_padding_param by /verif/translate/gen.py — do not edit; rewritten on every check run
namespace MagpyVerif.Gen

def pathPaddingParam (scalar_input : Bool) (lenop : Int) (lenip : Int) (start : Option Int) : Option (Int × Int) × Int :=
  let pad_before := (0 : Int)
  let pad_behind := (0 : Int)
  let start : Int := match start with
    | none =>
      let start :=
        if scalar_input then
          let start := (0 : Int)
          start
        else
          let start := lenop
          start
      start
    | some v => v
  let (start, pad_before) :=
    if (decide (start < (0 : Int))) then
      let start := (lenop + start)
      let (pad_before, start) :=
        if (decide (start < (0 : Int))) then
          let pad_before := (-start)
          let start := (0 : Int)
          (pad_before, start)
        else
          (pad_before, start)
      (start, pad_before)
    else
      (start, pad_before)
  let pad_behind :=
    if (decide ((start + lenip) > (lenop + pad_before))) then
      let pad_behind := ((start + lenip) - (lenop + pad_before))
      pad_behind
    else
      pad_behind
  if (decide ((pad_before + pad_behind) > (0 : Int))) then
    (some (pad_before, pad_behind), start)
  else
    (none, start)

end MagpyVerif.Gen
