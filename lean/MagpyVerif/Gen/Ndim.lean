-- GENERATED from _field_func_kwargs_ndim of every class in magpylib._src.utility.get_registered_sources() by /verif/translate/gen.py — do not edit; rewritten on every check run
namespace MagpyVerif.Gen.Ndim

/-- `_field_func_kwargs_ndim`: (class, [(parameter, rank the interface expects of a STACK of values)]) -/
def table : List (String × List (String × Nat)) := [
  ("Circle", [("current", 1), ("diameter", 1)]),
  ("Cuboid", [("dimension", 2), ("polarization", 2)]),
  ("CustomSource", []),
  ("Cylinder", [("dimension", 2), ("polarization", 2)]),
  ("CylinderSegment", [("dimension", 2), ("polarization", 2)]),
  ("Dipole", [("moment", 2)]),
  ("Line", [("current", 1), ("segment_end", 2), ("segment_start", 2), ("vertices", 3)]),
  ("Loop", [("current", 1), ("diameter", 1)]),
  ("Polyline", [("current", 1), ("segment_end", 2), ("segment_start", 2), ("vertices", 3)]),
  ("Sphere", [("diameter", 1), ("polarization", 2)]),
  ("Tetrahedron", [("polarization", 2), ("vertices", 3)]),
  ("Triangle", [("polarization", 2), ("vertices", 3)]),
  ("TriangularMesh", [("mesh", 4), ("polarization", 2)])]

/-- rank of ONE value of the parameter (np.ndim of the validated attribute of a valid instance) -/
def singleRank : List (String × List (String × Nat)) := [
  ("Circle", [("current", 0), ("diameter", 0)]),
  ("Cuboid", [("dimension", 1), ("polarization", 1)]),
  ("CustomSource", []),
  ("Cylinder", [("dimension", 1), ("polarization", 1)]),
  ("CylinderSegment", [("dimension", 1), ("polarization", 1)]),
  ("Dipole", [("moment", 1)]),
  ("Line", [("current", 0), ("segment_end", 1), ("segment_start", 1), ("vertices", 2)]),
  ("Loop", [("current", 0), ("diameter", 0)]),
  ("Polyline", [("current", 0), ("segment_end", 1), ("segment_start", 1), ("vertices", 2)]),
  ("Sphere", [("diameter", 0), ("polarization", 1)]),
  ("Tetrahedron", [("polarization", 1), ("vertices", 2)]),
  ("Triangle", [("polarization", 1), ("vertices", 2)]),
  ("TriangularMesh", [("mesh", 3), ("polarization", 1)])]

end MagpyVerif.Gen.Ndim
