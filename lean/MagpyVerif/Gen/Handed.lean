-- GENERATED from magpylib/_src/fields/field_wrap_BH.py:getBH_level2 (AST) by /verif/translate/gen.py — do not edit; rewritten on every check run
namespace MagpyVerif.Gen.Handed

/-- `if sens.handedness == <literal>: B[..., pix_slice, <axis>] *= <factor>` — every such statement of getBH_level2 -/
def flipSites : List (String × Nat × Int) := [("left", 0, (-1 : Int))]

/-- statements under a handedness test that are NOT of that form (else branches included) -/
def otherStmts : Nat := 0

/-- no write into `B` follows the handedness branch inside the sensor loop (the flip acts on the rotated values) -/
def flipAfterRotation : Bool := true

end MagpyVerif.Gen.Handed
