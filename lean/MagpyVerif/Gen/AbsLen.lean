-- GENERATED from magpylib/_src/obj_classes/class_BaseTransform.py, class_BaseGeo.py, class_Collection.py, utility.py, fields/field_wrap_BH.py (AST scan) by /verif/translate/gen.py — do not edit; rewritten on every check run
namespace MagpyVerif.Gen.AbsLen

/-- (file, function, expression, class) of every absolute-length construct found by translate/abslen.py in the pose /
marshalling sources: rounding calls, isclose / allclose, atol= / rtol= keywords, comparisons of a non-integer expression with a
non-zero numeric literal, exact float comparisons inside all / any, fractional float literals, powers of ten -/
def sites : List (String × String × String × String) := [
  ("field_wrap_BH.py", "getBH_level2", "all(r == unitQ)", "dimensionless"),
  ("field_wrap_BH.py", "getBH_level2", "int(n_pp / max_path_len)", "count"),
  ("field_wrap_BH.py", "getBH_level2", "int(np.prod(ps[:-1]))", "count"),
  ("field_wrap_BH.py", "getBH_level2", "max_path_len > 1", "count"),
  ("utility.py", "add_iteration_suffix", "int(n)", "count"),
  ("utility.py", "check_static_sensor_orient", "np.all(rot == rot[0])", "dimensionless"),
  ("utility.py", "get_unit_factor", "10 ** factor_power", "display-units"),
  ("utility.py", "unit_prefix", "10 ** digits", "display-units"),
  ("utility.py", "unit_prefix", "int(log10(abs(number)))", "display-units")]

/-- the files scanned -/
def files : List String := ["class_BaseTransform.py", "class_BaseGeo.py", "class_Collection.py", "utility.py", "field_wrap_BH.py"]

end MagpyVerif.Gen.AbsLen
