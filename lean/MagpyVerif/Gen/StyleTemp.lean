-- GENERATED from magpylib/_src/utility.py:style_temp_edit (AST) by /verif/translate/gen.py — do not edit; rewritten on every check run
namespace MagpyVerif.Gen.StyleTemp

/-- the first statement reads the object's current `_style` into a local -/
def origReadFirst : Bool := true

/-- the single `yield` sits inside a `try` (no `except`) whose `finally` assigns that local back to `obj._style` -/
def restoreInFinally : Bool := true

/-- assignments to `obj._style` outside the try (after the read of the original) -/
def assignsOutsideTry : Nat := 0

end MagpyVerif.Gen.StyleTemp
