-- GENERATED from magpylib/_src/utility.py:_UNIT_PREFIX, get_unit_factor by /verif/translate/gen.py — do not edit; rewritten on every check run
namespace MagpyVerif.Gen.Units

/-- (power of ten of the prefix, prefix, decimal exponent of the factor returned for '<prefix>m' -> 'm') -/
def table : List (Int × String × Int) := [((-24 : Int), "y", (24 : Int)), ((-21 : Int), "z", (21 : Int)), ((-18 : Int), "a", (18 : Int)), ((-15 : Int), "f", (15 : Int)), ((-12 : Int), "p", (12 : Int)), ((-9 : Int), "n", (9 : Int)), ((-6 : Int), "µ", (6 : Int)), ((-3 : Int), "m", (3 : Int)), ((3 : Int), "k", (-3 : Int)), ((6 : Int), "M", (-6 : Int)), ((9 : Int), "G", (-9 : Int)), ((12 : Int), "T", (-12 : Int)), ((15 : Int), "P", (-15 : Int)), ((18 : Int), "E", (-18 : Int)), ((21 : Int), "Z", (-21 : Int)), ((24 : Int), "Y", (-24 : Int)), ((-1 : Int), "d", (1 : Int)), ((-2 : Int), "c", (2 : Int))]

end MagpyVerif.Gen.Units
