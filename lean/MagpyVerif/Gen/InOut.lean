-- GENERATED from magpylib/_src/fields/field_wrap_BH.py:getBH_level1, field_BH_tetrahedron.py, field_BH_triangularmesh.py, utility.get_registered_sources (AST + reflection) by /verif/translate/gen.py — do not edit; rewritten on every check run
namespace MagpyVerif.Gen.InOut

/-- registered source class, name of its core field function, does that function have a parameter `in_out` -/
def table : List (String × String × Bool) := [("Circle", "BHJM_circle", false), ("Cuboid", "BHJM_magnet_cuboid", false), ("CustomSource", "none", false), ("Cylinder", "BHJM_magnet_cylinder", false), ("CylinderSegment", "BHJM_cylinder_segment_internal", false), ("Dipole", "BHJM_dipole", false), ("Line", "_field_func", false), ("Loop", "_field_func", false), ("Polyline", "current_vertices_field", false), ("Sphere", "BHJM_magnet_sphere", false), ("Tetrahedron", "BHJM_magnet_tetrahedron", true), ("Triangle", "BHJM_triangle", false), ("TriangularMesh", "BHJM_magnet_trimesh", true)]

/-- the statement of getBH_level1 that removes `in_out` from the keyword arguments, and the call of the field function -/
def level1Filter : List String := ["if not has_parameter(field_func, 'in_out'): kwargs.pop('in_out', None)"]
def level1Call : List String := ["BH = field_func(field=field, observers=pos_rel_rot, **kwargs)"]

/-- the tests on `in_out` in `point_inside` (Tetrahedron) and in `BHJM_magnet_trimesh`, in source order -/
def pointInsideBranches : List String := ["if in_out == 'inside': return np.array([True] * len(points))", "if in_out == 'outside': return np.array([False] * len(points))"]
def tetraUses : List String := ["field 'J': point_inside(observers, vertices, in_out)", "field 'M': point_inside(observers, vertices, in_out)", "field 'B': point_inside(observers, vertices, in_out)"]
def trimeshBranches : List String := ["if in_out == 'auto': prev_ind = 0 [else]", "if in_out == 'inside': BHJM += polarization"]

end MagpyVerif.Gen.InOut
