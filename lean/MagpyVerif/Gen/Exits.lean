-- GENERATED from magpylib/_src/fields/field_wrap_BH.py:getBH_level2 (AST) by /verif/translate/gen.py — do not edit; rewritten on every check run
namespace MagpyVerif.Gen.Exits

/-- the restore of the tiled paths sits in the `finally` of a try that starts right after the tiling -/
def resetInFinally : Bool := true

/-- statements containing a call or a raise between the tiling and an unprotected restore -/
def unprotectedSitesAfterTiling : Nat := 0

/-- the restore slices the tiled path (`obj._position[:m0]`) instead of putting the saved arrays back -/
def restoreBySlicing : Bool := false

/-- (audit2) the restore is ONE loop `for v, (p, o) in zip(A, B): v._position = p; v._orientation = o` and `B` is stored
exactly once, by a top-level statement BEFORE the first tiling statement, as `[(x._position, x._orientation) for x in A]`,
and read nowhere else: the arrays put back are the ones the objects held before the tiling.  `false` for a save taken
after the tiling (which leaves the other three facts as they are) or for any restore of another shape -/
def savedBeforeTiling : Bool := true

end MagpyVerif.Gen.Exits
