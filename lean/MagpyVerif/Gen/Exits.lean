-- GENERATED from magpylib/_src/fields/field_wrap_BH.py:getBH_level2 (AST) by /verif/translate/gen.py — do not edit; rewritten on every check run
namespace MagpyVerif.Gen.Exits

/-- the restore of the tiled paths sits in the `finally` of a try that starts right after the tiling -/
def resetInFinally : Bool := true

/-- statements containing a call or a raise between the tiling and an unprotected restore -/
def unprotectedSitesAfterTiling : Nat := 0

/-- the restore slices the tiled path (`obj._position[:m0]`) instead of putting the saved arrays back -/
def restoreBySlicing : Bool := false

end MagpyVerif.Gen.Exits
