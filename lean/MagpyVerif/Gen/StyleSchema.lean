-- GENERATED from magpylib/_src/defaults/defaults_classes.py, defaults_values.py, style.py (reflection + probing of every setter) by /verif/translate/gen.py — do not edit; rewritten on every check run
import MagpyVerif.Model.StyleState

namespace MagpyVerif.Gen.StyleSchema
open MagpyVerif.StyleNested MagpyVerif.StyleState

/-- the value panel (type-tagged text of the Python value an index stands for) -/
def panel : List String := ["int:10", "int:20", "int:30", "int:200", "int:5", "bool:True", "str:'auto'", "tuple:[str:'#2E91E5',str:'#E15F99',str:'#1CA71C',str:'#FB0D0D',str:'#DA16FF',str:'#B68100',str:'#750D86',str:'#EB663B',str:'#511CFB',str:'#00A08B',str:'#FB00D1',str:'#FC0080',str:'#B2828D',str:'#6C7C32',str:'#778AAE',str:'#862A16',str:'#A777F1',str:'#620042',str:'#1616A7',str:'#DA60CA',str:'#6C4516',str:'#0D2A63',str:'#AF0038',str:'#222A2A']", "int:1", "str:'solid'", "int:3", "str:'o'", "bool:False", "list:[]", "str:'scaled'", "int:2", "str:'#E71111'", "str:'#DDDDDD'", "str:'#00B050'", "float:0.2", "str:'tricolor'", "float:0.5", "str:'red'", "str:'green'", "str:'blue'", "str:'middle'", "str:'grey'", "float:0.9", "str:'arrow3d'", "str:'black'", "str:'cyan'", "tuple:[str:'red',str:'blue',str:'green',str:'cyan',str:'magenta',str:'yellow']", "str:'magenta'", "str:'x'", "int:0", "int:-1", "str:'r'", "str:'dashed'", "str:'absolute'", "str:'arrow'", "str:'bicolor'", "str:'tail'", "str:'matplotlib'", "str:'plotly'", "str:'bogus'", "str:'a.gif'", "str:'txt'", "tuple:[str:'#2e91e5',str:'#e15f99',str:'#1ca71c',str:'#fb0d0d',str:'#da16ff',str:'#b68100',str:'#750d86',str:'#eb663b',str:'#511cfb',str:'#00a08b',str:'#fb00d1',str:'#fc0080',str:'#b2828d',str:'#6c7c32',str:'#778aae',str:'#862a16',str:'#a777f1',str:'#620042',str:'#1616a7',str:'#da60ca',str:'#6c4516',str:'#0d2a63',str:'#af0038',str:'#222a2a']", "tuple:[]", "tuple:[str:'red']", "str:'#ffffff'", "str:'#000000'", "str:'#e71111'", "str:'#dddddd'", "str:'#00b050'", "str:'#333333'", "str:'#7f7f7f'", "str:'#e5e5e5'", "str:'10'", "str:'20'", "str:'30'", "str:'200'", "str:'5'", "str:'True'", "str:\"('#2E91E5', '#E15F99', '#1CA71C', '#FB0D0D', '#DA16FF', '#B68100', '#750D86', '#EB663B', '#511CFB', '#00A08B', '#FB00D1', '#FC0080', '#B2828D', '#6C7C32', '#778AAE', '#862A16', '#A777F1', '#620042', '#1616A7', '#DA60CA', '#6C4516', '#0D2A63', '#AF0038', '#222A2A')\"", "str:'1'", "str:'3'", "str:'False'", "str:'[]'", "str:'2'", "str:'0.2'", "str:'0.5'", "str:'0.9'", "str:\"('red', 'blue', 'green', 'cyan', 'magenta', 'yellow')\"", "str:'0'", "str:'-1'", "str:\"{'x': None}\"", "tuple:[str:'#ffffff',str:'#000000']", "tuple:[str:'#ffffff']", "tuple:[str:'#000000']", "str:\"('#2e91e5', '#e15f99', '#1ca71c', '#fb0d0d', '#da16ff', '#b68100', '#750d86', '#eb663b', '#511cfb', '#00a08b', '#fb00d1', '#fc0080', '#b2828d', '#6c7c32', '#778aae', '#862a16', '#a777f1', '#620042', '#1616a7', '#da60ca', '#6c4516', '#0d2a63', '#af0038', '#222a2a')\"", "str:'()'", "str:\"('red',)\"", "str:\"('#ffffff', '#000000')\"", "str:\"('#ffffff',)\"", "str:\"('#000000',)\""]

/-- which panel values are Python strings -/
def isStr : List Bool := [false, false, false, false, false, false, true, false, false, true, false, true, false, false, true, false, true, true, true, false, true, false, true, true, true, true, true, false, true, true, true, false, true, true, false, false, true, true, true, true, true, true, true, true, true, true, true, false, false, false, true, true, true, true, true, true, true, true, true, true, true, true, true, true, true, true, true, true, true, true, true, true, true, true, true, true, true, false, false, false, true, true, true, true, true, true]

/-- validator rows: what a leaf setter does with None, with each panel value, with a dict -/
def leafV : List LeafV := [
  { onNone := (.ok none), onVal := [(.ok (some 0)), (.ok (some 1)), (.ok (some 2)), (.ok (some 3)), (.ok (some 4)), (.ok (some 5)), (.error .assertion), (.error .assertion), (.ok (some 8)), (.error .assertion), (.ok (some 10)), (.error .assertion), (.error .assertion), (.error .assertion), (.error .assertion), (.ok (some 15)), (.error .assertion), (.error .assertion), (.error .assertion), (.ok (some 19)), (.error .assertion), (.ok (some 21)), (.error .assertion), (.error .assertion), (.error .assertion), (.error .assertion), (.error .assertion), (.ok (some 27)), (.error .assertion), (.error .assertion), (.error .assertion), (.error .assertion), (.error .assertion), (.error .assertion), (.error .assertion), (.error .assertion), (.error .assertion), (.error .assertion), (.error .assertion), (.error .assertion), (.error .assertion), (.error .assertion), (.error .assertion), (.error .assertion), (.error .assertion), (.error .assertion), (.error .assertion), (.error .assertion), (.error .assertion), (.error .assertion), (.error .assertion), (.error .assertion), (.error .assertion), (.error .assertion), (.error .assertion), (.error .assertion), (.error .assertion), (.error .assertion), (.error .assertion), (.error .assertion), (.error .assertion), (.error .assertion), (.error .assertion), (.error .assertion), (.error .assertion), (.error .assertion), (.error .assertion), (.error .assertion), (.error .assertion), (.error .assertion), (.error .assertion), (.error .assertion), (.error .assertion), (.error .assertion), (.error .assertion), (.error .assertion), (.error .assertion), (.error .assertion), (.error .assertion), (.error .assertion), (.error .assertion), (.error .assertion), (.error .assertion), (.error .assertion), (.error .assertion), (.error .assertion)], onDict := (.error .assertion) },
  { onNone := (.ok none), onVal := [(.error .assertion), (.error .assertion), (.error .assertion), (.error .assertion), (.error .assertion), (.error .assertion), (.ok (some 6)), (.error .assertion), (.error .assertion), (.error .assertion), (.error .assertion), (.error .assertion), (.error .assertion), (.error .assertion), (.error .assertion), (.error .assertion), (.error .assertion), (.error .assertion), (.error .assertion), (.error .assertion), (.error .assertion), (.error .assertion), (.error .assertion), (.error .assertion), (.error .assertion), (.error .assertion), (.error .assertion), (.error .assertion), (.error .assertion), (.error .assertion), (.error .assertion), (.error .assertion), (.error .assertion), (.error .assertion), (.error .assertion), (.error .assertion), (.error .assertion), (.error .assertion), (.error .assertion), (.error .assertion), (.error .assertion), (.error .assertion), (.ok (some 42)), (.ok (some 43)), (.error .assertion), (.error .assertion), (.error .assertion), (.error .assertion), (.error .assertion), (.error .assertion), (.error .assertion), (.error .assertion), (.error .assertion), (.error .assertion), (.error .assertion), (.error .assertion), (.error .assertion), (.error .assertion), (.error .assertion), (.error .assertion), (.error .assertion), (.error .assertion), (.error .assertion), (.error .assertion), (.error .assertion), (.error .assertion), (.error .assertion), (.error .assertion), (.error .assertion), (.error .assertion), (.error .assertion), (.error .assertion), (.error .assertion), (.error .assertion), (.error .assertion), (.error .assertion), (.error .assertion), (.error .assertion), (.error .assertion), (.error .assertion), (.error .assertion), (.error .assertion), (.error .assertion), (.error .assertion), (.error .assertion), (.error .assertion)], onDict := (.error .assertion) },
  { onNone := (.ok none), onVal := [(.error .value), (.error .value), (.error .value), (.error .value), (.error .value), (.error .value), (.error .value), (.ok (some 47)), (.error .value), (.error .value), (.error .value), (.error .value), (.error .value), (.ok (some 48)), (.error .value), (.error .value), (.error .value), (.error .value), (.error .value), (.error .value), (.error .value), (.error .value), (.error .value), (.error .value), (.error .value), (.error .value), (.error .value), (.error .value), (.error .value), (.error .value), (.error .value), (.ok (some 31)), (.error .value), (.error .value), (.error .value), (.error .value), (.ok (some 49)), (.error .value), (.error .value), (.error .value), (.error .value), (.error .value), (.error .value), (.error .value), (.error .value), (.error .value), (.error .value), (.ok (some 47)), (.ok (some 48)), (.ok (some 49)), (.error .value), (.error .value), (.error .value), (.error .value), (.error .value), (.error .value), (.error .value), (.error .value), (.ok (some 77)), (.error .value), (.error .value), (.error .value), (.error .value), (.error .value), (.error .value), (.ok (some 78)), (.error .value), (.error .value), (.error .value), (.error .value), (.error .value), (.error .value), (.error .value), (.error .value), (.ok (some 79)), (.error .value), (.error .value), (.ok (some 77)), (.ok (some 78)), (.ok (some 79)), (.error .value), (.error .value), (.error .value), (.error .value), (.error .value), (.error .value)], onDict := (.error .value) },
  { onNone := (.ok none), onVal := [(.ok (some 0)), (.ok (some 1)), (.ok (some 2)), (.ok (some 3)), (.ok (some 4)), (.ok (some 5)), (.error .assertion), (.error .assertion), (.ok (some 8)), (.error .assertion), (.ok (some 10)), (.error .assertion), (.error .assertion), (.error .assertion), (.error .assertion), (.ok (some 15)), (.error .assertion), (.error .assertion), (.error .assertion), (.error .assertion), (.error .assertion), (.error .assertion), (.error .assertion), (.error .assertion), (.error .assertion), (.error .assertion), (.error .assertion), (.error .assertion), (.error .assertion), (.error .assertion), (.error .assertion), (.error .assertion), (.error .assertion), (.error .assertion), (.error .assertion), (.error .assertion), (.error .assertion), (.error .assertion), (.error .assertion), (.error .assertion), (.error .assertion), (.error .assertion), (.error .assertion), (.error .assertion), (.error .assertion), (.error .assertion), (.error .assertion), (.error .assertion), (.error .assertion), (.error .assertion), (.error .assertion), (.error .assertion), (.error .assertion), (.error .assertion), (.error .assertion), (.error .assertion), (.error .assertion), (.error .assertion), (.error .assertion), (.error .assertion), (.error .assertion), (.error .assertion), (.error .assertion), (.error .assertion), (.error .assertion), (.error .assertion), (.error .assertion), (.error .assertion), (.error .assertion), (.error .assertion), (.error .assertion), (.error .assertion), (.error .assertion), (.error .assertion), (.error .assertion), (.error .assertion), (.error .assertion), (.error .assertion), (.error .assertion), (.error .assertion), (.error .assertion), (.error .assertion), (.error .assertion), (.error .assertion), (.error .assertion), (.error .assertion)], onDict := (.error .assertion) },
  { onNone := (.ok none), onVal := [(.error .assertion), (.error .assertion), (.error .assertion), (.error .assertion), (.error .assertion), (.error .assertion), (.error .assertion), (.error .assertion), (.error .assertion), (.error .assertion), (.error .assertion), (.error .assertion), (.error .assertion), (.error .assertion), (.error .assertion), (.error .assertion), (.error .assertion), (.error .assertion), (.error .assertion), (.error .assertion), (.error .assertion), (.error .assertion), (.error .assertion), (.error .assertion), (.error .assertion), (.error .assertion), (.error .assertion), (.error .assertion), (.error .assertion), (.error .assertion), (.error .assertion), (.error .assertion), (.error .assertion), (.error .assertion), (.error .assertion), (.error .assertion), (.error .assertion), (.error .assertion), (.error .assertion), (.error .assertion), (.error .assertion), (.error .assertion), (.error .assertion), (.error .assertion), (.error .assertion), (.ok (some 45)), (.error .assertion), (.error .assertion), (.error .assertion), (.error .assertion), (.error .assertion), (.error .assertion), (.error .assertion), (.error .assertion), (.error .assertion), (.error .assertion), (.error .assertion), (.error .assertion), (.error .assertion), (.error .assertion), (.error .assertion), (.error .assertion), (.error .assertion), (.error .assertion), (.error .assertion), (.error .assertion), (.error .assertion), (.error .assertion), (.error .assertion), (.error .assertion), (.error .assertion), (.error .assertion), (.error .assertion), (.error .assertion), (.error .assertion), (.error .assertion), (.error .assertion), (.error .assertion), (.error .assertion), (.error .assertion), (.error .assertion), (.error .assertion), (.error .assertion), (.error .assertion), (.error .assertion), (.error .assertion)], onDict := (.error .assertion) },
  { onNone := (.ok none), onVal := [(.error .assertion), (.error .assertion), (.error .assertion), (.error .assertion), (.error .assertion), (.ok (some 5)), (.error .assertion), (.error .assertion), (.error .assertion), (.error .assertion), (.error .assertion), (.error .assertion), (.ok (some 12)), (.error .assertion), (.error .assertion), (.error .assertion), (.error .assertion), (.error .assertion), (.error .assertion), (.error .assertion), (.error .assertion), (.error .assertion), (.error .assertion), (.error .assertion), (.error .assertion), (.error .assertion), (.error .assertion), (.error .assertion), (.error .assertion), (.error .assertion), (.error .assertion), (.error .assertion), (.error .assertion), (.error .assertion), (.error .assertion), (.error .assertion), (.error .assertion), (.error .assertion), (.error .assertion), (.error .assertion), (.error .assertion), (.error .assertion), (.error .assertion), (.error .assertion), (.error .assertion), (.error .assertion), (.error .assertion), (.error .assertion), (.error .assertion), (.error .assertion), (.error .assertion), (.error .assertion), (.error .assertion), (.error .assertion), (.error .assertion), (.error .assertion), (.error .assertion), (.error .assertion), (.error .assertion), (.error .assertion), (.error .assertion), (.error .assertion), (.error .assertion), (.error .assertion), (.error .assertion), (.error .assertion), (.error .assertion), (.error .assertion), (.error .assertion), (.error .assertion), (.error .assertion), (.error .assertion), (.error .assertion), (.error .assertion), (.error .assertion), (.error .assertion), (.error .assertion), (.error .assertion), (.error .assertion), (.error .assertion), (.error .assertion), (.error .assertion), (.error .assertion), (.error .assertion), (.error .assertion), (.error .assertion)], onDict := (.error .assertion) },
  { onNone := (.ok none), onVal := [(.error .value), (.error .value), (.error .value), (.error .value), (.error .value), (.ok (some 50)), (.error .value), (.error .value), (.ok (some 50)), (.error .value), (.error .value), (.error .value), (.ok (some 51)), (.error .type), (.error .value), (.error .value), (.ok (some 52)), (.ok (some 53)), (.ok (some 54)), (.ok (some 55)), (.error .value), (.ok (some 56)), (.ok (some 22)), (.ok (some 23)), (.ok (some 24)), (.error .value), (.ok (some 26)), (.ok (some 57)), (.error .value), (.ok (some 29)), (.ok (some 30)), (.error .value), (.ok (some 32)), (.error .value), (.ok (some 51)), (.error .value), (.ok (some 22)), (.error .value), (.error .value), (.error .value), (.error .value), (.error .value), (.error .value), (.error .value), (.error .value), (.error .value), (.error .value), (.error .value), (.error .value), (.error .value), (.ok (some 50)), (.ok (some 51)), (.ok (some 52)), (.ok (some 53)), (.ok (some 54)), (.ok (some 55)), (.ok (some 56)), (.ok (some 57)), (.error .value), (.error .value), (.error .value), (.error .value), (.error .value), (.error .value), (.error .value), (.ok (some 50)), (.error .value), (.error .value), (.error .value), (.error .value), (.ok (some 55)), (.ok (some 56)), (.ok (some 57)), (.error .value), (.ok (some 51)), (.error .value), (.error .value), (.error .value), (.error .value), (.error .value), (.error .value), (.error .value), (.error .value), (.error .value), (.error .value), (.error .value)], onDict := (.error .type) },
  { onNone := (.ok none), onVal := [(.ok (some 58)), (.ok (some 59)), (.ok (some 60)), (.ok (some 61)), (.ok (some 62)), (.ok (some 63)), (.ok (some 6)), (.ok (some 64)), (.ok (some 65)), (.ok (some 9)), (.ok (some 66)), (.ok (some 11)), (.ok (some 67)), (.ok (some 68)), (.ok (some 14)), (.ok (some 69)), (.ok (some 16)), (.ok (some 17)), (.ok (some 18)), (.ok (some 70)), (.ok (some 20)), (.ok (some 71)), (.ok (some 22)), (.ok (some 23)), (.ok (some 24)), (.ok (some 25)), (.ok (some 26)), (.ok (some 72)), (.ok (some 28)), (.ok (some 29)), (.ok (some 30)), (.ok (some 73)), (.ok (some 32)), (.ok (some 33)), (.ok (some 74)), (.ok (some 75)), (.ok (some 36)), (.ok (some 37)), (.ok (some 38)), (.ok (some 39)), (.ok (some 40)), (.ok (some 41)), (.ok (some 42)), (.ok (some 43)), (.ok (some 44)), (.ok (some 45)), (.ok (some 46)), (.ok (some 80)), (.ok (some 81)), (.ok (some 82)), (.ok (some 50)), (.ok (some 51)), (.ok (some 52)), (.ok (some 53)), (.ok (some 54)), (.ok (some 55)), (.ok (some 56)), (.ok (some 57)), (.ok (some 58)), (.ok (some 59)), (.ok (some 60)), (.ok (some 61)), (.ok (some 62)), (.ok (some 63)), (.ok (some 64)), (.ok (some 65)), (.ok (some 66)), (.ok (some 67)), (.ok (some 68)), (.ok (some 69)), (.ok (some 70)), (.ok (some 71)), (.ok (some 72)), (.ok (some 73)), (.ok (some 74)), (.ok (some 75)), (.ok (some 76)), (.ok (some 83)), (.ok (some 84)), (.ok (some 85)), (.ok (some 80)), (.ok (some 81)), (.ok (some 82)), (.ok (some 83)), (.ok (some 84)), (.ok (some 85))], onDict := (.ok (some 76)) },
  { onNone := (.ok none), onVal := [(.error .assertion), (.error .assertion), (.error .assertion), (.error .assertion), (.error .assertion), (.ok (some 5)), (.error .assertion), (.error .assertion), (.ok (some 8)), (.error .assertion), (.error .assertion), (.error .assertion), (.ok (some 12)), (.error .assertion), (.error .assertion), (.error .assertion), (.error .assertion), (.error .assertion), (.error .assertion), (.ok (some 19)), (.error .assertion), (.ok (some 21)), (.error .assertion), (.error .assertion), (.error .assertion), (.error .assertion), (.error .assertion), (.ok (some 27)), (.error .assertion), (.error .assertion), (.error .assertion), (.error .assertion), (.error .assertion), (.error .assertion), (.ok (some 34)), (.error .assertion), (.error .assertion), (.error .assertion), (.error .assertion), (.error .assertion), (.error .assertion), (.error .assertion), (.error .assertion), (.error .assertion), (.error .assertion), (.error .assertion), (.error .assertion), (.error .assertion), (.error .assertion), (.error .assertion), (.error .assertion), (.error .assertion), (.error .assertion), (.error .assertion), (.error .assertion), (.error .assertion), (.error .assertion), (.error .assertion), (.error .assertion), (.error .assertion), (.error .assertion), (.error .assertion), (.error .assertion), (.error .assertion), (.error .assertion), (.error .assertion), (.error .assertion), (.error .assertion), (.error .assertion), (.error .assertion), (.error .assertion), (.error .assertion), (.error .assertion), (.error .assertion), (.error .assertion), (.error .assertion), (.error .assertion), (.error .assertion), (.error .assertion), (.error .assertion), (.error .assertion), (.error .assertion), (.error .assertion), (.error .assertion), (.error .assertion), (.error .assertion)], onDict := (.error .assertion) },
  { onNone := (.ok none), onVal := [(.error .assertion), (.error .assertion), (.error .assertion), (.error .assertion), (.error .assertion), (.error .assertion), (.ok (some 6)), (.error .assertion), (.error .assertion), (.ok (some 9)), (.error .assertion), (.ok (some 11)), (.error .assertion), (.error .assertion), (.ok (some 14)), (.error .assertion), (.ok (some 16)), (.ok (some 17)), (.ok (some 18)), (.error .assertion), (.ok (some 20)), (.error .assertion), (.ok (some 22)), (.ok (some 23)), (.ok (some 24)), (.ok (some 25)), (.ok (some 26)), (.error .assertion), (.ok (some 28)), (.ok (some 29)), (.ok (some 30)), (.error .assertion), (.ok (some 32)), (.ok (some 33)), (.error .assertion), (.error .assertion), (.ok (some 36)), (.ok (some 37)), (.ok (some 38)), (.ok (some 39)), (.ok (some 40)), (.ok (some 41)), (.ok (some 42)), (.ok (some 43)), (.ok (some 44)), (.ok (some 45)), (.ok (some 46)), (.error .assertion), (.error .assertion), (.error .assertion), (.ok (some 50)), (.ok (some 51)), (.ok (some 52)), (.ok (some 53)), (.ok (some 54)), (.ok (some 55)), (.ok (some 56)), (.ok (some 57)), (.ok (some 58)), (.ok (some 59)), (.ok (some 60)), (.ok (some 61)), (.ok (some 62)), (.ok (some 63)), (.ok (some 64)), (.ok (some 65)), (.ok (some 66)), (.ok (some 67)), (.ok (some 68)), (.ok (some 69)), (.ok (some 70)), (.ok (some 71)), (.ok (some 72)), (.ok (some 73)), (.ok (some 74)), (.ok (some 75)), (.ok (some 76)), (.error .assertion), (.error .assertion), (.error .assertion), (.ok (some 80)), (.ok (some 81)), (.ok (some 82)), (.ok (some 83)), (.ok (some 84)), (.ok (some 85))], onDict := (.error .assertion) },
  { onNone := (.ok (some 13)), onVal := [(.error .value), (.error .value), (.error .value), (.error .value), (.error .value), (.error .value), (.error .value), (.error .value), (.error .value), (.error .value), (.error .value), (.error .value), (.error .value), (.ok (some 13)), (.error .value), (.error .value), (.error .value), (.error .value), (.error .value), (.error .value), (.error .value), (.error .value), (.error .value), (.error .value), (.error .value), (.error .value), (.error .value), (.error .value), (.error .value), (.error .value), (.error .value), (.error .value), (.error .value), (.error .value), (.error .value), (.error .value), (.error .value), (.error .value), (.error .value), (.error .value), (.error .value), (.error .value), (.error .value), (.error .value), (.error .value), (.error .value), (.error .value), (.error .value), (.ok (some 13)), (.error .value), (.error .value), (.error .value), (.error .value), (.error .value), (.error .value), (.error .value), (.error .value), (.error .value), (.error .value), (.error .value), (.error .value), (.error .value), (.error .value), (.error .value), (.error .value), (.error .value), (.error .value), (.error .value), (.error .value), (.error .value), (.error .value), (.error .value), (.error .value), (.error .value), (.error .value), (.error .value), (.error .value), (.error .value), (.error .value), (.error .value), (.error .value), (.error .value), (.error .value), (.error .value), (.error .value), (.error .value)], onDict := (.error .attribute) },
  { onNone := (.error .assertion), onVal := [(.error .assertion), (.error .assertion), (.error .assertion), (.error .assertion), (.error .assertion), (.ok (some 5)), (.error .assertion), (.error .assertion), (.error .assertion), (.error .assertion), (.error .assertion), (.error .assertion), (.ok (some 12)), (.error .assertion), (.error .assertion), (.error .assertion), (.error .assertion), (.error .assertion), (.error .assertion), (.error .assertion), (.error .assertion), (.error .assertion), (.error .assertion), (.error .assertion), (.error .assertion), (.error .assertion), (.error .assertion), (.error .assertion), (.error .assertion), (.error .assertion), (.error .assertion), (.error .assertion), (.error .assertion), (.error .assertion), (.error .assertion), (.error .assertion), (.error .assertion), (.error .assertion), (.error .assertion), (.error .assertion), (.error .assertion), (.error .assertion), (.error .assertion), (.error .assertion), (.error .assertion), (.error .assertion), (.error .assertion), (.error .assertion), (.error .assertion), (.error .assertion), (.error .assertion), (.error .assertion), (.error .assertion), (.error .assertion), (.error .assertion), (.error .assertion), (.error .assertion), (.error .assertion), (.error .assertion), (.error .assertion), (.error .assertion), (.error .assertion), (.error .assertion), (.error .assertion), (.error .assertion), (.error .assertion), (.error .assertion), (.error .assertion), (.error .assertion), (.error .assertion), (.error .assertion), (.error .assertion), (.error .assertion), (.error .assertion), (.error .assertion), (.error .assertion), (.error .assertion), (.error .assertion), (.error .assertion), (.error .assertion), (.error .assertion), (.error .assertion), (.error .assertion), (.error .assertion), (.error .assertion), (.error .assertion)], onDict := (.error .assertion) },
  { onNone := (.ok none), onVal := [(.ok (some 0)), (.ok (some 1)), (.ok (some 2)), (.ok (some 3)), (.ok (some 4)), (.error .assertion), (.error .assertion), (.error .assertion), (.ok (some 8)), (.error .assertion), (.ok (some 10)), (.error .assertion), (.error .assertion), (.ok (some 48)), (.error .assertion), (.ok (some 15)), (.error .assertion), (.error .assertion), (.error .assertion), (.error .assertion), (.error .assertion), (.error .assertion), (.error .assertion), (.error .assertion), (.error .assertion), (.error .assertion), (.error .assertion), (.error .assertion), (.error .assertion), (.error .assertion), (.error .assertion), (.error .assertion), (.error .assertion), (.error .assertion), (.ok (some 34)), (.ok (some 35)), (.error .assertion), (.error .assertion), (.error .assertion), (.error .assertion), (.error .assertion), (.error .assertion), (.error .assertion), (.error .assertion), (.error .assertion), (.error .assertion), (.error .assertion), (.error .assertion), (.ok (some 48)), (.error .assertion), (.error .assertion), (.error .assertion), (.error .assertion), (.error .assertion), (.error .assertion), (.error .assertion), (.error .assertion), (.error .assertion), (.error .assertion), (.error .assertion), (.error .assertion), (.error .assertion), (.error .assertion), (.error .assertion), (.error .assertion), (.error .assertion), (.error .assertion), (.error .assertion), (.error .assertion), (.error .assertion), (.error .assertion), (.error .assertion), (.error .assertion), (.error .assertion), (.error .assertion), (.error .assertion), (.error .assertion), (.error .assertion), (.error .assertion), (.error .assertion), (.error .assertion), (.error .assertion), (.error .assertion), (.error .assertion), (.error .assertion), (.error .assertion)], onDict := (.error .assertion) },
  { onNone := (.ok none), onVal := [(.error .assertion), (.error .assertion), (.error .assertion), (.error .assertion), (.error .assertion), (.error .assertion), (.error .assertion), (.error .assertion), (.error .assertion), (.ok (some 9)), (.error .assertion), (.error .assertion), (.error .assertion), (.error .assertion), (.error .assertion), (.error .assertion), (.error .assertion), (.error .assertion), (.error .assertion), (.error .assertion), (.error .assertion), (.error .assertion), (.error .assertion), (.error .assertion), (.error .assertion), (.error .assertion), (.error .assertion), (.error .assertion), (.error .assertion), (.error .assertion), (.error .assertion), (.error .assertion), (.error .assertion), (.error .assertion), (.error .assertion), (.error .assertion), (.error .assertion), (.ok (some 37)), (.error .assertion), (.error .assertion), (.error .assertion), (.error .assertion), (.error .assertion), (.error .assertion), (.error .assertion), (.error .assertion), (.error .assertion), (.error .assertion), (.error .assertion), (.error .assertion), (.error .assertion), (.error .assertion), (.error .assertion), (.error .assertion), (.error .assertion), (.error .assertion), (.error .assertion), (.error .assertion), (.error .assertion), (.error .assertion), (.error .assertion), (.error .assertion), (.error .assertion), (.error .assertion), (.error .assertion), (.error .assertion), (.error .assertion), (.error .assertion), (.error .assertion), (.error .assertion), (.error .assertion), (.error .assertion), (.error .assertion), (.error .assertion), (.error .assertion), (.error .assertion), (.error .assertion), (.error .assertion), (.error .assertion), (.error .assertion), (.error .assertion), (.error .assertion), (.error .assertion), (.error .assertion), (.error .assertion), (.error .assertion)], onDict := (.error .assertion) },
  { onNone := (.ok none), onVal := [(.ok (some 0)), (.ok (some 1)), (.ok (some 2)), (.ok (some 3)), (.ok (some 4)), (.ok (some 5)), (.error .assertion), (.error .assertion), (.ok (some 8)), (.error .assertion), (.ok (some 10)), (.error .assertion), (.ok (some 12)), (.error .assertion), (.error .assertion), (.ok (some 15)), (.error .assertion), (.error .assertion), (.error .assertion), (.ok (some 19)), (.error .assertion), (.ok (some 21)), (.error .assertion), (.error .assertion), (.error .assertion), (.error .assertion), (.error .assertion), (.ok (some 27)), (.error .assertion), (.error .assertion), (.error .assertion), (.error .assertion), (.error .assertion), (.error .assertion), (.ok (some 34)), (.error .assertion), (.error .assertion), (.error .assertion), (.error .assertion), (.error .assertion), (.error .assertion), (.error .assertion), (.error .assertion), (.error .assertion), (.error .assertion), (.error .assertion), (.error .assertion), (.error .assertion), (.error .assertion), (.error .assertion), (.error .assertion), (.error .assertion), (.error .assertion), (.error .assertion), (.error .assertion), (.error .assertion), (.error .assertion), (.error .assertion), (.error .assertion), (.error .assertion), (.error .assertion), (.error .assertion), (.error .assertion), (.error .assertion), (.error .assertion), (.error .assertion), (.error .assertion), (.error .assertion), (.error .assertion), (.error .assertion), (.error .assertion), (.error .assertion), (.error .assertion), (.error .assertion), (.error .assertion), (.error .assertion), (.error .assertion), (.error .assertion), (.error .assertion), (.error .assertion), (.error .assertion), (.error .assertion), (.error .assertion), (.error .assertion), (.error .assertion), (.error .assertion)], onDict := (.error .assertion) },
  { onNone := (.ok none), onVal := [(.error .assertion), (.error .assertion), (.error .assertion), (.error .assertion), (.error .assertion), (.error .assertion), (.error .assertion), (.error .assertion), (.error .assertion), (.error .assertion), (.error .assertion), (.ok (some 11)), (.error .assertion), (.error .assertion), (.error .assertion), (.error .assertion), (.error .assertion), (.error .assertion), (.error .assertion), (.error .assertion), (.error .assertion), (.error .assertion), (.error .assertion), (.error .assertion), (.error .assertion), (.error .assertion), (.error .assertion), (.error .assertion), (.error .assertion), (.error .assertion), (.error .assertion), (.error .assertion), (.error .assertion), (.ok (some 33)), (.error .assertion), (.error .assertion), (.error .assertion), (.error .assertion), (.error .assertion), (.error .assertion), (.error .assertion), (.error .assertion), (.error .assertion), (.error .assertion), (.error .assertion), (.error .assertion), (.error .assertion), (.error .assertion), (.error .assertion), (.error .assertion), (.error .assertion), (.error .assertion), (.error .assertion), (.error .assertion), (.error .assertion), (.error .assertion), (.error .assertion), (.error .assertion), (.error .assertion), (.error .assertion), (.error .assertion), (.error .assertion), (.error .assertion), (.error .assertion), (.error .assertion), (.error .assertion), (.error .assertion), (.error .assertion), (.error .assertion), (.error .assertion), (.error .assertion), (.error .assertion), (.error .assertion), (.error .assertion), (.error .assertion), (.error .assertion), (.error .assertion), (.error .assertion), (.error .assertion), (.error .assertion), (.error .assertion), (.error .assertion), (.error .assertion), (.error .assertion), (.error .assertion), (.error .assertion)], onDict := (.error .assertion) },
  { onNone := (.ok none), onVal := [(.error .assertion), (.error .assertion), (.error .assertion), (.error .assertion), (.error .assertion), (.error .assertion), (.error .assertion), (.error .assertion), (.error .assertion), (.error .assertion), (.error .assertion), (.error .assertion), (.error .assertion), (.error .assertion), (.ok (some 14)), (.error .assertion), (.error .assertion), (.error .assertion), (.error .assertion), (.error .assertion), (.error .assertion), (.error .assertion), (.error .assertion), (.error .assertion), (.error .assertion), (.error .assertion), (.error .assertion), (.error .assertion), (.error .assertion), (.error .assertion), (.error .assertion), (.error .assertion), (.error .assertion), (.error .assertion), (.error .assertion), (.error .assertion), (.error .assertion), (.error .assertion), (.ok (some 38)), (.error .assertion), (.error .assertion), (.error .assertion), (.error .assertion), (.error .assertion), (.error .assertion), (.error .assertion), (.error .assertion), (.error .assertion), (.error .assertion), (.error .assertion), (.error .assertion), (.error .assertion), (.error .assertion), (.error .assertion), (.error .assertion), (.error .assertion), (.error .assertion), (.error .assertion), (.error .assertion), (.error .assertion), (.error .assertion), (.error .assertion), (.error .assertion), (.error .assertion), (.error .assertion), (.error .assertion), (.error .assertion), (.error .assertion), (.error .assertion), (.error .assertion), (.error .assertion), (.error .assertion), (.error .assertion), (.error .assertion), (.error .assertion), (.error .assertion), (.error .assertion), (.error .assertion), (.error .assertion), (.error .assertion), (.error .assertion), (.error .assertion), (.error .assertion), (.error .assertion), (.error .assertion), (.error .assertion)], onDict := (.error .assertion) },
  { onNone := (.ok none), onVal := [(.error .assertion), (.error .assertion), (.error .assertion), (.error .assertion), (.error .assertion), (.error .assertion), (.error .assertion), (.error .assertion), (.error .assertion), (.error .assertion), (.error .assertion), (.error .assertion), (.error .assertion), (.error .assertion), (.error .assertion), (.error .assertion), (.error .assertion), (.error .assertion), (.error .assertion), (.error .assertion), (.error .assertion), (.error .assertion), (.error .assertion), (.error .assertion), (.error .assertion), (.ok (some 25)), (.error .assertion), (.error .assertion), (.error .assertion), (.error .assertion), (.error .assertion), (.error .assertion), (.error .assertion), (.error .assertion), (.error .assertion), (.error .assertion), (.error .assertion), (.error .assertion), (.error .assertion), (.error .assertion), (.error .assertion), (.ok (some 41)), (.error .assertion), (.error .assertion), (.error .assertion), (.error .assertion), (.error .assertion), (.error .assertion), (.error .assertion), (.error .assertion), (.error .assertion), (.error .assertion), (.error .assertion), (.error .assertion), (.error .assertion), (.error .assertion), (.error .assertion), (.error .assertion), (.error .assertion), (.error .assertion), (.error .assertion), (.error .assertion), (.error .assertion), (.error .assertion), (.error .assertion), (.error .assertion), (.error .assertion), (.error .assertion), (.error .assertion), (.error .assertion), (.error .assertion), (.error .assertion), (.error .assertion), (.error .assertion), (.error .assertion), (.error .assertion), (.error .assertion), (.error .assertion), (.error .assertion), (.error .assertion), (.error .assertion), (.error .assertion), (.error .assertion), (.error .assertion), (.error .assertion), (.error .assertion)], onDict := (.error .assertion) },
  { onNone := (.ok none), onVal := [(.error .assertion), (.error .assertion), (.error .assertion), (.error .assertion), (.error .assertion), (.error .assertion), (.ok (some 6)), (.error .assertion), (.error .assertion), (.error .assertion), (.error .assertion), (.error .assertion), (.error .assertion), (.error .assertion), (.error .assertion), (.error .assertion), (.error .assertion), (.error .assertion), (.error .assertion), (.error .assertion), (.error .assertion), (.error .assertion), (.error .assertion), (.error .assertion), (.error .assertion), (.error .assertion), (.error .assertion), (.error .assertion), (.error .assertion), (.error .assertion), (.error .assertion), (.error .assertion), (.error .assertion), (.error .assertion), (.error .assertion), (.error .assertion), (.error .assertion), (.error .assertion), (.error .assertion), (.ok (some 39)), (.error .assertion), (.error .assertion), (.error .assertion), (.error .assertion), (.error .assertion), (.error .assertion), (.error .assertion), (.error .assertion), (.error .assertion), (.error .assertion), (.error .assertion), (.error .assertion), (.error .assertion), (.error .assertion), (.error .assertion), (.error .assertion), (.error .assertion), (.error .assertion), (.error .assertion), (.error .assertion), (.error .assertion), (.error .assertion), (.error .assertion), (.error .assertion), (.error .assertion), (.error .assertion), (.error .assertion), (.error .assertion), (.error .assertion), (.error .assertion), (.error .assertion), (.error .assertion), (.error .assertion), (.error .assertion), (.error .assertion), (.error .assertion), (.error .assertion), (.error .assertion), (.error .assertion), (.error .assertion), (.error .assertion), (.error .assertion), (.error .assertion), (.error .assertion), (.error .assertion), (.error .assertion)], onDict := (.error .assertion) },
  { onNone := (.ok none), onVal := [(.error .assertion), (.error .assertion), (.error .assertion), (.error .assertion), (.error .assertion), (.error .assertion), (.error .assertion), (.error .assertion), (.error .assertion), (.error .assertion), (.error .assertion), (.error .assertion), (.error .assertion), (.error .assertion), (.error .assertion), (.error .assertion), (.error .assertion), (.error .assertion), (.error .assertion), (.error .assertion), (.ok (some 20)), (.error .assertion), (.error .assertion), (.error .assertion), (.error .assertion), (.error .assertion), (.error .assertion), (.error .assertion), (.error .assertion), (.error .assertion), (.error .assertion), (.error .assertion), (.error .assertion), (.error .assertion), (.error .assertion), (.error .assertion), (.error .assertion), (.error .assertion), (.error .assertion), (.error .assertion), (.ok (some 40)), (.error .assertion), (.error .assertion), (.error .assertion), (.error .assertion), (.error .assertion), (.error .assertion), (.error .assertion), (.error .assertion), (.error .assertion), (.error .assertion), (.error .assertion), (.error .assertion), (.error .assertion), (.error .assertion), (.error .assertion), (.error .assertion), (.error .assertion), (.error .assertion), (.error .assertion), (.error .assertion), (.error .assertion), (.error .assertion), (.error .assertion), (.error .assertion), (.error .assertion), (.error .assertion), (.error .assertion), (.error .assertion), (.error .assertion), (.error .assertion), (.error .assertion), (.error .assertion), (.error .assertion), (.error .assertion), (.error .assertion), (.error .assertion), (.error .assertion), (.error .assertion), (.error .assertion), (.error .assertion), (.error .assertion), (.error .assertion), (.error .assertion), (.error .assertion), (.error .assertion)], onDict := (.error .assertion) },
  { onNone := (.ok none), onVal := [(.ok (some 0)), (.ok (some 1)), (.ok (some 2)), (.ok (some 3)), (.ok (some 4)), (.ok (some 5)), (.error .assertion), (.error .assertion), (.ok (some 8)), (.error .assertion), (.ok (some 10)), (.error .assertion), (.ok (some 12)), (.error .assertion), (.error .assertion), (.ok (some 15)), (.error .assertion), (.error .assertion), (.error .assertion), (.ok (some 19)), (.error .assertion), (.ok (some 21)), (.error .assertion), (.error .assertion), (.error .assertion), (.error .assertion), (.error .assertion), (.ok (some 27)), (.error .assertion), (.error .assertion), (.error .assertion), (.error .assertion), (.error .assertion), (.error .assertion), (.ok (some 34)), (.ok (some 35)), (.error .assertion), (.error .assertion), (.error .assertion), (.error .assertion), (.error .assertion), (.error .assertion), (.error .assertion), (.error .assertion), (.error .assertion), (.error .assertion), (.error .assertion), (.error .assertion), (.error .assertion), (.error .assertion), (.error .assertion), (.error .assertion), (.error .assertion), (.error .assertion), (.error .assertion), (.error .assertion), (.error .assertion), (.error .assertion), (.error .assertion), (.error .assertion), (.error .assertion), (.error .assertion), (.error .assertion), (.error .assertion), (.error .assertion), (.error .assertion), (.error .assertion), (.error .assertion), (.error .assertion), (.error .assertion), (.error .assertion), (.error .assertion), (.error .assertion), (.error .assertion), (.error .assertion), (.error .assertion), (.error .assertion), (.error .assertion), (.error .assertion), (.error .assertion), (.error .assertion), (.error .assertion), (.error .assertion), (.error .assertion), (.error .assertion), (.error .assertion)], onDict := (.error .assertion) },
  { onNone := (.ok none), onVal := [(.error .assertion), (.error .assertion), (.error .assertion), (.error .assertion), (.error .assertion), (.error .assertion), (.error .assertion), (.error .assertion), (.error .assertion), (.error .assertion), (.error .assertion), (.error .assertion), (.error .assertion), (.error .assertion), (.error .assertion), (.error .assertion), (.error .assertion), (.error .assertion), (.error .assertion), (.error .assertion), (.error .assertion), (.error .assertion), (.error .assertion), (.error .assertion), (.error .assertion), (.error .assertion), (.error .assertion), (.error .assertion), (.ok (some 28)), (.error .assertion), (.error .assertion), (.error .assertion), (.error .assertion), (.error .assertion), (.error .assertion), (.error .assertion), (.error .assertion), (.error .assertion), (.error .assertion), (.error .assertion), (.error .assertion), (.error .assertion), (.error .assertion), (.error .assertion), (.error .assertion), (.error .assertion), (.error .assertion), (.error .assertion), (.error .assertion), (.error .assertion), (.error .assertion), (.error .assertion), (.error .assertion), (.error .assertion), (.error .assertion), (.error .assertion), (.error .assertion), (.error .assertion), (.error .assertion), (.error .assertion), (.error .assertion), (.error .assertion), (.error .assertion), (.error .assertion), (.error .assertion), (.error .assertion), (.error .assertion), (.error .assertion), (.error .assertion), (.error .assertion), (.error .assertion), (.error .assertion), (.error .assertion), (.error .assertion), (.error .assertion), (.error .assertion), (.error .assertion), (.error .assertion), (.error .assertion), (.error .assertion), (.error .assertion), (.error .assertion), (.error .assertion), (.error .assertion), (.error .assertion), (.error .assertion)], onDict := (.error .assertion) }]

def tables : Tables := { leafV := leafV, isStr := isStr }

/-- class `Animation` -/
def cAnimation : Schema := .obj [
  ((.str "fps".toList), .leaf 3),
  ((.str "maxfps".toList), .leaf 3),
  ((.str "maxframes".toList), .leaf 3),
  ((.str "output".toList), .leaf 4),
  ((.str "slider".toList), .leaf 5),
  ((.str "time".toList), .leaf 3)]
  ["_MagicProperties__isfrozen".toList, "__dict__".toList, "__doc__".toList, "__module__".toList, "__slotnames__".toList, "_fps".toList, "_maxfps".toList, "_maxframes".toList, "_output".toList, "_slider".toList, "_time".toList] none [] true

/-- class `Description` -/
def cDescription : Schema := .obj [
  ((.str "show".toList), .leaf 5),
  ((.str "text".toList), .leaf 9)]
  ["_MagicProperties__isfrozen".toList, "__dict__".toList, "__doc__".toList, "__module__".toList, "__slotnames__".toList, "_show".toList, "_text".toList] none [((.str "text".toList), none), ((.str "show".toList), none)] true

/-- class `Legend` -/
def cLegend : Schema := .obj [
  ((.str "show".toList), .leaf 5),
  ((.str "text".toList), .leaf 9)]
  ["_MagicProperties__isfrozen".toList, "__dict__".toList, "__doc__".toList, "__module__".toList, "__slotnames__".toList, "_show".toList, "_text".toList] none [((.str "show".toList), none)] true

/-- class `Model3d` -/
def cModel3d : Schema := .obj [
  ((.str "data".toList), .leaf 10),
  ((.str "showdefault".toList), .leaf 11)]
  ["_MagicProperties__isfrozen".toList, "__dict__".toList, "__doc__".toList, "__module__".toList, "__slotnames__".toList, "_data".toList, "_showdefault".toList] none [((.str "showdefault".toList), (some 5)), ((.str "data".toList), none)] true

/-- class `Line` -/
def cLine : Schema := .obj [
  ((.str "color".toList), .leaf 6),
  ((.str "style".toList), .leaf 13),
  ((.str "width".toList), .leaf 14)]
  ["_MagicProperties__isfrozen".toList, "__dict__".toList, "__doc__".toList, "__module__".toList, "__slotnames__".toList, "_color".toList, "_style".toList, "_width".toList] none [((.str "style".toList), none), ((.str "color".toList), none), ((.str "width".toList), none)] true

/-- class `Marker` -/
def cMarker : Schema := .obj [
  ((.str "color".toList), .leaf 6),
  ((.str "size".toList), .leaf 14),
  ((.str "symbol".toList), .leaf 15)]
  ["_MagicProperties__isfrozen".toList, "__dict__".toList, "__doc__".toList, "__module__".toList, "__slotnames__".toList, "_color".toList, "_size".toList, "_symbol".toList] none [((.str "size".toList), none), ((.str "color".toList), none), ((.str "symbol".toList), none)] true

/-- class `Path` -/
def cPath : Schema := .obj [
  ((.str "frames".toList), .leaf 12),
  ((.str "line".toList), cLine.withShort none),
  ((.str "marker".toList), cMarker.withShort none),
  ((.str "numbering".toList), .leaf 5),
  ((.str "show".toList), .leaf 5)]
  ["_MagicProperties__isfrozen".toList, "__dict__".toList, "__doc__".toList, "__module__".toList, "__slotnames__".toList, "_frames".toList, "_line".toList, "_marker".toList, "_numbering".toList, "_show".toList] none [((.str "show".toList), none), ((.str "marker".toList), none), ((.str "line".toList), none), ((.str "frames".toList), none), ((.str "numbering".toList), none)] true

/-- class `BaseStyle` -/
def cBaseStyle : Schema := .obj [
  ((.str "color".toList), .leaf 6),
  ((.str "description".toList), cDescription.withShort (some (.str "text".toList))),
  ((.str "label".toList), .leaf 7),
  ((.str "legend".toList), cLegend.withShort (some (.str "text".toList))),
  ((.str "model3d".toList), cModel3d.withShort none),
  ((.str "opacity".toList), .leaf 8),
  ((.str "path".toList), cPath.withShort none)]
  ["_MagicProperties__isfrozen".toList, "__dict__".toList, "__doc__".toList, "__module__".toList, "__slotnames__".toList, "_color".toList, "_description".toList, "_label".toList, "_legend".toList, "_model3d".toList, "_opacity".toList, "_path".toList] none [((.str "label".toList), none), ((.str "description".toList), none), ((.str "legend".toList), none), ((.str "color".toList), none), ((.str "opacity".toList), none), ((.str "path".toList), none), ((.str "model3d".toList), none)] true

/-- class `Arrow` -/
def cArrow : Schema := .obj [
  ((.str "color".toList), .leaf 6),
  ((.str "offset".toList), .leaf 8),
  ((.str "show".toList), .leaf 5),
  ((.str "size".toList), .leaf 14),
  ((.str "sizemode".toList), .leaf 16),
  ((.str "style".toList), .leaf 13),
  ((.str "width".toList), .leaf 14)]
  ["_MagicProperties__isfrozen".toList, "__dict__".toList, "__doc__".toList, "__module__".toList, "__slotnames__".toList, "_color".toList, "_offset".toList, "_show".toList, "_size".toList, "_sizemode".toList, "_style".toList, "_width".toList] none [((.str "style".toList), none), ((.str "color".toList), none), ((.str "width".toList), none), ((.str "show".toList), none), ((.str "size".toList), none)] true

/-- class `CurrentLine` -/
def cCurrentLine : Schema := .obj [
  ((.str "color".toList), .leaf 6),
  ((.str "show".toList), .leaf 5),
  ((.str "style".toList), .leaf 13),
  ((.str "width".toList), .leaf 14)]
  ["_MagicProperties__isfrozen".toList, "__dict__".toList, "__doc__".toList, "__module__".toList, "__slotnames__".toList, "_color".toList, "_show".toList, "_style".toList, "_width".toList] none [((.str "style".toList), none), ((.str "color".toList), none), ((.str "width".toList), none)] true

/-- class `DefaultCurrent` -/
def cDefaultCurrent : Schema := .obj [
  ((.str "arrow".toList), cArrow.withShort none),
  ((.str "line".toList), cCurrentLine.withShort none)]
  ["_MagicProperties__isfrozen".toList, "__dict__".toList, "__doc__".toList, "__module__".toList, "__slotnames__".toList, "_arrow".toList, "_line".toList] none [((.str "arrow".toList), none)] true

/-- class `DefaultDipole` -/
def cDefaultDipole : Schema := .obj [
  ((.str "pivot".toList), .leaf 17),
  ((.str "size".toList), .leaf 14),
  ((.str "sizemode".toList), .leaf 16)]
  ["_MagicProperties__isfrozen".toList, "__dict__".toList, "__doc__".toList, "__module__".toList, "__slotnames__".toList, "_allowed_pivots".toList, "_pivot".toList, "_size".toList, "_sizemode".toList] none [((.str "size".toList), none), ((.str "sizemode".toList), none), ((.str "pivot".toList), none)] true

/-- class `MagnetizationColor` -/
def cMagnetizationColor : Schema := .obj [
  ((.str "middle".toList), .leaf 6),
  ((.str "mode".toList), .leaf 19),
  ((.str "north".toList), .leaf 6),
  ((.str "south".toList), .leaf 6),
  ((.str "transition".toList), .leaf 8)]
  ["_MagicProperties__isfrozen".toList, "__dict__".toList, "__doc__".toList, "__module__".toList, "__slotnames__".toList, "_allowed_modes".toList, "_middle".toList, "_mode".toList, "_north".toList, "_south".toList, "_transition".toList] none [((.str "north".toList), none), ((.str "middle".toList), none), ((.str "south".toList), none), ((.str "transition".toList), none), ((.str "mode".toList), none)] true

/-- class `Magnetization` -/
def cMagnetization : Schema := .obj [
  ((.str "arrow".toList), cArrow.withShort none),
  ((.str "color".toList), cMagnetizationColor.withShort none),
  ((.str "mode".toList), .leaf 18),
  ((.str "show".toList), .leaf 5),
  ((.str "size".toList), .alias [(.str "arrow".toList), (.str "size".toList)])]
  ["_MagicProperties__isfrozen".toList, "__dict__".toList, "__doc__".toList, "__module__".toList, "__slotnames__".toList, "_arrow".toList, "_color".toList, "_mode".toList, "_show".toList] none [((.str "show".toList), none), ((.str "size".toList), none), ((.str "color".toList), none), ((.str "mode".toList), none)] true

/-- class `DefaultMagnet` -/
def cDefaultMagnet : Schema := .obj [
  ((.str "magnetization".toList), cMagnetization.withShort none)]
  ["_MagicProperties__isfrozen".toList, "__dict__".toList, "__doc__".toList, "__module__".toList, "__slotnames__".toList, "_magnetization".toList] none [((.str "magnetization".toList), none)] true

/-- class `DefaultMarkers` -/
def cDefaultMarkers : Schema := .obj [
  ((.str "color".toList), .leaf 6),
  ((.str "description".toList), cDescription.withShort (some (.str "text".toList))),
  ((.str "label".toList), .leaf 7),
  ((.str "legend".toList), cLegend.withShort (some (.str "text".toList))),
  ((.str "marker".toList), cMarker.withShort none),
  ((.str "model3d".toList), cModel3d.withShort none),
  ((.str "opacity".toList), .leaf 8),
  ((.str "path".toList), cPath.withShort none)]
  ["_MagicProperties__isfrozen".toList, "__dict__".toList, "__doc__".toList, "__module__".toList, "__slotnames__".toList, "_color".toList, "_description".toList, "_label".toList, "_legend".toList, "_marker".toList, "_model3d".toList, "_opacity".toList, "_path".toList] none [((.str "label".toList), none), ((.str "description".toList), none), ((.str "legend".toList), none), ((.str "color".toList), none), ((.str "opacity".toList), none), ((.str "path".toList), none), ((.str "model3d".toList), none), ((.str "marker".toList), none)] true

/-- class `ArrowSingle` -/
def cArrowSingle : Schema := .obj [
  ((.str "color".toList), .leaf 6),
  ((.str "show".toList), .leaf 5)]
  ["_MagicProperties__isfrozen".toList, "__dict__".toList, "__doc__".toList, "__module__".toList, "__slotnames__".toList, "_color".toList, "_show".toList] none [((.str "show".toList), (some 5)), ((.str "color".toList), none)] true

/-- class `ArrowCS` -/
def cArrowCS : Schema := .obj [
  ((.str "x".toList), cArrowSingle.withShort none),
  ((.str "y".toList), cArrowSingle.withShort none),
  ((.str "z".toList), cArrowSingle.withShort none)]
  ["_MagicProperties__isfrozen".toList, "__dict__".toList, "__doc__".toList, "__module__".toList, "__slotnames__".toList, "_x".toList, "_y".toList, "_z".toList] none [((.str "x".toList), none), ((.str "y".toList), none), ((.str "z".toList), none)] true

/-- class `Pixel` -/
def cPixel : Schema := .obj [
  ((.str "color".toList), .leaf 6),
  ((.str "size".toList), .leaf 14),
  ((.str "sizemode".toList), .leaf 16),
  ((.str "symbol".toList), .leaf 15)]
  ["_MagicProperties__isfrozen".toList, "__dict__".toList, "__doc__".toList, "__module__".toList, "__slotnames__".toList, "_color".toList, "_size".toList, "_sizemode".toList, "_symbol".toList] none [((.str "size".toList), (some 8)), ((.str "sizemode".toList), none), ((.str "color".toList), none), ((.str "symbol".toList), none)] true

/-- class `DefaultSensor` -/
def cDefaultSensor : Schema := .obj [
  ((.str "arrows".toList), cArrowCS.withShort none),
  ((.str "pixel".toList), cPixel.withShort none),
  ((.str "size".toList), .leaf 14),
  ((.str "sizemode".toList), .leaf 16)]
  ["_MagicProperties__isfrozen".toList, "__dict__".toList, "__doc__".toList, "__module__".toList, "__slotnames__".toList, "_arrows".toList, "_pixel".toList, "_size".toList, "_sizemode".toList] none [((.str "size".toList), none), ((.str "sizemode".toList), none), ((.str "pixel".toList), none), ((.str "arrows".toList), none)] true

/-- class `Orientation` -/
def cOrientation : Schema := .obj [
  ((.str "color".toList), .leaf 6),
  ((.str "offset".toList), .leaf 20),
  ((.str "show".toList), .leaf 5),
  ((.str "size".toList), .leaf 14),
  ((.str "symbol".toList), .leaf 21)]
  ["_MagicProperties__isfrozen".toList, "__dict__".toList, "__doc__".toList, "__module__".toList, "__slotnames__".toList, "_allowed_symbols".toList, "_color".toList, "_offset".toList, "_show".toList, "_size".toList, "_symbol".toList] none [] true

/-- class `DefaultTriangle` -/
def cDefaultTriangle : Schema := .obj [
  ((.str "magnetization".toList), cMagnetization.withShort none),
  ((.str "orientation".toList), cOrientation.withShort none)]
  ["_MagicProperties__isfrozen".toList, "__dict__".toList, "__doc__".toList, "__module__".toList, "__slotnames__".toList, "_magnetization".toList, "_orientation".toList] none [((.str "magnetization".toList), none), ((.str "orientation".toList), none)] true

/-- class `DisconnectedMesh` -/
def cDisconnectedMesh : Schema := .obj [
  ((.str "colorsequence".toList), .leaf 2),
  ((.str "line".toList), cLine.withShort none),
  ((.str "marker".toList), cMarker.withShort none),
  ((.str "show".toList), .leaf 5)]
  ["_MagicProperties__isfrozen".toList, "__dict__".toList, "__doc__".toList, "__module__".toList, "__slotnames__".toList, "_colorsequence".toList, "_line".toList, "_marker".toList, "_show".toList] none [] true

/-- class `GridMesh` -/
def cGridMesh : Schema := .obj [
  ((.str "line".toList), cLine.withShort none),
  ((.str "marker".toList), cMarker.withShort none),
  ((.str "show".toList), .leaf 5)]
  ["_MagicProperties__isfrozen".toList, "__dict__".toList, "__doc__".toList, "__module__".toList, "__slotnames__".toList, "_line".toList, "_marker".toList, "_show".toList] none [] true

/-- class `OpenMesh` -/
def cOpenMesh : Schema := .obj [
  ((.str "line".toList), cLine.withShort none),
  ((.str "marker".toList), cMarker.withShort none),
  ((.str "show".toList), .leaf 5)]
  ["_MagicProperties__isfrozen".toList, "__dict__".toList, "__doc__".toList, "__module__".toList, "__slotnames__".toList, "_line".toList, "_marker".toList, "_show".toList] none [] true

/-- class `SelfIntersectingMesh` -/
def cSelfIntersectingMesh : Schema := .obj [
  ((.str "line".toList), cLine.withShort none),
  ((.str "marker".toList), cMarker.withShort none),
  ((.str "show".toList), .leaf 5)]
  ["_MagicProperties__isfrozen".toList, "__dict__".toList, "__doc__".toList, "__module__".toList, "__slotnames__".toList, "_line".toList, "_marker".toList, "_show".toList] none [] true

/-- class `TriMesh` -/
def cTriMesh : Schema := .obj [
  ((.str "disconnected".toList), cDisconnectedMesh.withShort none),
  ((.str "grid".toList), cGridMesh.withShort none),
  ((.str "open".toList), cOpenMesh.withShort none),
  ((.str "selfintersecting".toList), cSelfIntersectingMesh.withShort none)]
  ["_MagicProperties__isfrozen".toList, "__dict__".toList, "__doc__".toList, "__module__".toList, "__slotnames__".toList, "_disconnected".toList, "_grid".toList, "_open".toList, "_selfintersecting".toList] none [] true

/-- class `DefaultTriangularMesh` -/
def cDefaultTriangularMesh : Schema := .obj [
  ((.str "magnetization".toList), cMagnetization.withShort none),
  ((.str "mesh".toList), cTriMesh.withShort none),
  ((.str "orientation".toList), cOrientation.withShort none)]
  ["_MagicProperties__isfrozen".toList, "__dict__".toList, "__doc__".toList, "__module__".toList, "__slotnames__".toList, "_magnetization".toList, "_mesh".toList, "_orientation".toList] none [((.str "magnetization".toList), none), ((.str "orientation".toList), none), ((.str "mesh".toList), none)] true

/-- class `DisplayStyle` -/
def cDisplayStyle : Schema := .obj [
  ((.str "base".toList), cBaseStyle.withShort none),
  ((.str "current".toList), cDefaultCurrent.withShort none),
  ((.str "dipole".toList), cDefaultDipole.withShort none),
  ((.str "magnet".toList), cDefaultMagnet.withShort none),
  ((.str "markers".toList), cDefaultMarkers.withShort none),
  ((.str "sensor".toList), cDefaultSensor.withShort none),
  ((.str "triangle".toList), cDefaultTriangle.withShort none),
  ((.str "triangularmesh".toList), cDefaultTriangularMesh.withShort none)]
  ["_MagicProperties__isfrozen".toList, "__dict__".toList, "__doc__".toList, "__module__".toList, "__slotnames__".toList, "_base".toList, "_current".toList, "_dipole".toList, "_magnet".toList, "_markers".toList, "_sensor".toList, "_triangle".toList, "_triangularmesh".toList] none [((.str "base".toList), none), ((.str "magnet".toList), none), ((.str "current".toList), none), ((.str "dipole".toList), none), ((.str "triangle".toList), none), ((.str "sensor".toList), none), ((.str "markers".toList), none)] true

/-- class `Display` -/
def cDisplay : Schema := .obj [
  ((.str "animation".toList), cAnimation.withShort none),
  ((.str "autosizefactor".toList), .leaf 0),
  ((.str "backend".toList), .leaf 1),
  ((.str "colorsequence".toList), .leaf 2),
  ((.str "style".toList), cDisplayStyle.withShort none)]
  ["_MagicProperties__isfrozen".toList, "__dict__".toList, "__doc__".toList, "__module__".toList, "__slotnames__".toList, "_animation".toList, "_autosizefactor".toList, "_backend".toList, "_colorsequence".toList, "_style".toList] none [] true

/-- class `DefaultSettings` -/
def cDefaultSettings : Schema := .obj [
  ((.str "display".toList), cDisplay.withShort none)]
  ["_MagicProperties__isfrozen".toList, "__dict__".toList, "__doc__".toList, "__module__".toList, "__slotnames__".toList, "_display".toList] none [((.str "display".toList), none)] true

/-- class `MagnetStyle` -/
def cMagnetStyle : Schema := .obj [
  ((.str "color".toList), .leaf 6),
  ((.str "description".toList), cDescription.withShort (some (.str "text".toList))),
  ((.str "label".toList), .leaf 7),
  ((.str "legend".toList), cLegend.withShort (some (.str "text".toList))),
  ((.str "magnetization".toList), cMagnetization.withShort none),
  ((.str "model3d".toList), cModel3d.withShort none),
  ((.str "opacity".toList), .leaf 8),
  ((.str "path".toList), cPath.withShort none)]
  ["_MagicProperties__isfrozen".toList, "__dict__".toList, "__doc__".toList, "__module__".toList, "__slotnames__".toList, "_color".toList, "_description".toList, "_label".toList, "_legend".toList, "_magnetization".toList, "_model3d".toList, "_opacity".toList, "_path".toList] none [((.str "label".toList), none), ((.str "description".toList), none), ((.str "legend".toList), none), ((.str "color".toList), none), ((.str "opacity".toList), none), ((.str "path".toList), none), ((.str "model3d".toList), none)] true

/-- class `SensorStyle` -/
def cSensorStyle : Schema := .obj [
  ((.str "arrows".toList), cArrowCS.withShort none),
  ((.str "color".toList), .leaf 6),
  ((.str "description".toList), cDescription.withShort (some (.str "text".toList))),
  ((.str "label".toList), .leaf 7),
  ((.str "legend".toList), cLegend.withShort (some (.str "text".toList))),
  ((.str "model3d".toList), cModel3d.withShort none),
  ((.str "opacity".toList), .leaf 8),
  ((.str "path".toList), cPath.withShort none),
  ((.str "pixel".toList), cPixel.withShort none),
  ((.str "size".toList), .leaf 14),
  ((.str "sizemode".toList), .leaf 16)]
  ["_MagicProperties__isfrozen".toList, "__dict__".toList, "__doc__".toList, "__module__".toList, "__slotnames__".toList, "_arrows".toList, "_color".toList, "_description".toList, "_label".toList, "_legend".toList, "_model3d".toList, "_opacity".toList, "_path".toList, "_pixel".toList, "_size".toList, "_sizemode".toList] none [((.str "label".toList), none), ((.str "description".toList), none), ((.str "legend".toList), none), ((.str "color".toList), none), ((.str "opacity".toList), none), ((.str "path".toList), none), ((.str "model3d".toList), none)] true

/-- class `CurrentStyle` -/
def cCurrentStyle : Schema := .obj [
  ((.str "arrow".toList), cArrow.withShort none),
  ((.str "color".toList), .leaf 6),
  ((.str "description".toList), cDescription.withShort (some (.str "text".toList))),
  ((.str "label".toList), .leaf 7),
  ((.str "legend".toList), cLegend.withShort (some (.str "text".toList))),
  ((.str "line".toList), cCurrentLine.withShort none),
  ((.str "model3d".toList), cModel3d.withShort none),
  ((.str "opacity".toList), .leaf 8),
  ((.str "path".toList), cPath.withShort none)]
  ["_MagicProperties__isfrozen".toList, "__dict__".toList, "__doc__".toList, "__module__".toList, "__slotnames__".toList, "_arrow".toList, "_color".toList, "_description".toList, "_label".toList, "_legend".toList, "_line".toList, "_model3d".toList, "_opacity".toList, "_path".toList] none [((.str "label".toList), none), ((.str "description".toList), none), ((.str "legend".toList), none), ((.str "color".toList), none), ((.str "opacity".toList), none), ((.str "path".toList), none), ((.str "model3d".toList), none)] true

/-- class `DipoleStyle` -/
def cDipoleStyle : Schema := .obj [
  ((.str "color".toList), .leaf 6),
  ((.str "description".toList), cDescription.withShort (some (.str "text".toList))),
  ((.str "label".toList), .leaf 7),
  ((.str "legend".toList), cLegend.withShort (some (.str "text".toList))),
  ((.str "model3d".toList), cModel3d.withShort none),
  ((.str "opacity".toList), .leaf 8),
  ((.str "path".toList), cPath.withShort none),
  ((.str "pivot".toList), .leaf 17),
  ((.str "size".toList), .leaf 14),
  ((.str "sizemode".toList), .leaf 16)]
  ["_MagicProperties__isfrozen".toList, "__dict__".toList, "__doc__".toList, "__module__".toList, "__slotnames__".toList, "_allowed_pivots".toList, "_color".toList, "_description".toList, "_label".toList, "_legend".toList, "_model3d".toList, "_opacity".toList, "_path".toList, "_pivot".toList, "_size".toList, "_sizemode".toList] none [((.str "label".toList), none), ((.str "description".toList), none), ((.str "legend".toList), none), ((.str "color".toList), none), ((.str "opacity".toList), none), ((.str "path".toList), none), ((.str "model3d".toList), none)] true

/-- class `TriangleStyle` -/
def cTriangleStyle : Schema := .obj [
  ((.str "color".toList), .leaf 6),
  ((.str "description".toList), cDescription.withShort (some (.str "text".toList))),
  ((.str "label".toList), .leaf 7),
  ((.str "legend".toList), cLegend.withShort (some (.str "text".toList))),
  ((.str "magnetization".toList), cMagnetization.withShort none),
  ((.str "model3d".toList), cModel3d.withShort none),
  ((.str "opacity".toList), .leaf 8),
  ((.str "orientation".toList), cOrientation.withShort none),
  ((.str "path".toList), cPath.withShort none)]
  ["_MagicProperties__isfrozen".toList, "__dict__".toList, "__doc__".toList, "__module__".toList, "__slotnames__".toList, "_color".toList, "_description".toList, "_label".toList, "_legend".toList, "_magnetization".toList, "_model3d".toList, "_opacity".toList, "_orientation".toList, "_path".toList] none [((.str "label".toList), none), ((.str "description".toList), none), ((.str "legend".toList), none), ((.str "color".toList), none), ((.str "opacity".toList), none), ((.str "path".toList), none), ((.str "model3d".toList), none), ((.str "orientation".toList), none)] true

/-- class `TriangularMeshStyle` -/
def cTriangularMeshStyle : Schema := .obj [
  ((.str "color".toList), .leaf 6),
  ((.str "description".toList), cDescription.withShort (some (.str "text".toList))),
  ((.str "label".toList), .leaf 7),
  ((.str "legend".toList), cLegend.withShort (some (.str "text".toList))),
  ((.str "magnetization".toList), cMagnetization.withShort none),
  ((.str "mesh".toList), cTriMesh.withShort none),
  ((.str "model3d".toList), cModel3d.withShort none),
  ((.str "opacity".toList), .leaf 8),
  ((.str "orientation".toList), cOrientation.withShort none),
  ((.str "path".toList), cPath.withShort none)]
  ["_MagicProperties__isfrozen".toList, "__dict__".toList, "__doc__".toList, "__module__".toList, "__slotnames__".toList, "_color".toList, "_description".toList, "_label".toList, "_legend".toList, "_magnetization".toList, "_mesh".toList, "_model3d".toList, "_opacity".toList, "_orientation".toList, "_path".toList] none [((.str "label".toList), none), ((.str "description".toList), none), ((.str "legend".toList), none), ((.str "color".toList), none), ((.str "opacity".toList), none), ((.str "path".toList), none), ((.str "model3d".toList), none), ((.str "orientation".toList), none)] true

/-- every callable attribute name of any of the property classes (methods, dunder methods) -/
def methodNames : List Str := ["__class__".toList, "__delattr__".toList, "__dir__".toList, "__eq__".toList, "__format__".toList, "__ge__".toList, "__getattribute__".toList, "__getstate__".toList, "__gt__".toList, "__hash__".toList, "__init__".toList, "__init_subclass__".toList, "__le__".toList, "__lt__".toList, "__ne__".toList, "__new__".toList, "__reduce__".toList, "__reduce_ex__".toList, "__repr__".toList, "__setattr__".toList, "__sizeof__".toList, "__str__".toList, "__subclasshook__".toList, "_freeze".toList, "_property_names_generator".toList, "_validate_data".toList, "add_trace".toList, "as_dict".toList, "copy".toList, "reset".toList, "update".toList]

/-- `DEFAULTS` (defaults_values.py) -/
def defaults : Tree := (.node [((.str "display".toList), (.node [((.str "autosizefactor".toList), (.leaf (some 0))), ((.str "animation".toList), (.node [((.str "fps".toList), (.leaf (some 1))), ((.str "maxfps".toList), (.leaf (some 2))), ((.str "maxframes".toList), (.leaf (some 3))), ((.str "time".toList), (.leaf (some 4))), ((.str "slider".toList), (.leaf (some 5))), ((.str "output".toList), (.leaf none))])), ((.str "backend".toList), (.leaf (some 6))), ((.str "colorsequence".toList), (.leaf (some 7))), ((.str "style".toList), (.node [((.str "base".toList), (.node [((.str "path".toList), (.node [((.str "line".toList), (.node [((.str "width".toList), (.leaf (some 8))), ((.str "style".toList), (.leaf (some 9))), ((.str "color".toList), (.leaf none))])), ((.str "marker".toList), (.node [((.str "size".toList), (.leaf (some 10))), ((.str "symbol".toList), (.leaf (some 11))), ((.str "color".toList), (.leaf none))])), ((.str "show".toList), (.leaf (some 5))), ((.str "frames".toList), (.leaf none)), ((.str "numbering".toList), (.leaf (some 12)))])), ((.str "description".toList), (.node [((.str "show".toList), (.leaf (some 5))), ((.str "text".toList), (.leaf none))])), ((.str "legend".toList), (.node [((.str "show".toList), (.leaf (some 5))), ((.str "text".toList), (.leaf none))])), ((.str "opacity".toList), (.leaf (some 8))), ((.str "model3d".toList), (.node [((.str "showdefault".toList), (.leaf (some 5))), ((.str "data".toList), (.leaf (some 13)))])), ((.str "color".toList), (.leaf none))])), ((.str "magnet".toList), (.node [((.str "magnetization".toList), (.node [((.str "show".toList), (.leaf (some 5))), ((.str "arrow".toList), (.node [((.str "show".toList), (.leaf (some 5))), ((.str "size".toList), (.leaf (some 8))), ((.str "sizemode".toList), (.leaf (some 14))), ((.str "offset".toList), (.leaf (some 8))), ((.str "width".toList), (.leaf (some 15))), ((.str "style".toList), (.leaf (some 9))), ((.str "color".toList), (.leaf none))])), ((.str "color".toList), (.node [((.str "north".toList), (.leaf (some 16))), ((.str "middle".toList), (.leaf (some 17))), ((.str "south".toList), (.leaf (some 18))), ((.str "transition".toList), (.leaf (some 19))), ((.str "mode".toList), (.leaf (some 20)))])), ((.str "mode".toList), (.leaf (some 6)))]))])), ((.str "current".toList), (.node [((.str "arrow".toList), (.node [((.str "show".toList), (.leaf (some 5))), ((.str "size".toList), (.leaf (some 8))), ((.str "sizemode".toList), (.leaf (some 14))), ((.str "offset".toList), (.leaf (some 21))), ((.str "width".toList), (.leaf (some 8))), ((.str "style".toList), (.leaf (some 9))), ((.str "color".toList), (.leaf none))])), ((.str "line".toList), (.node [((.str "show".toList), (.leaf (some 5))), ((.str "width".toList), (.leaf (some 15))), ((.str "style".toList), (.leaf (some 9))), ((.str "color".toList), (.leaf none))]))])), ((.str "sensor".toList), (.node [((.str "size".toList), (.leaf (some 8))), ((.str "sizemode".toList), (.leaf (some 14))), ((.str "pixel".toList), (.node [((.str "size".toList), (.leaf (some 8))), ((.str "sizemode".toList), (.leaf (some 14))), ((.str "color".toList), (.leaf none)), ((.str "symbol".toList), (.leaf (some 11)))])), ((.str "arrows".toList), (.node [((.str "x".toList), (.node [((.str "color".toList), (.leaf (some 22)))])), ((.str "y".toList), (.node [((.str "color".toList), (.leaf (some 23)))])), ((.str "z".toList), (.node [((.str "color".toList), (.leaf (some 24)))]))]))])), ((.str "dipole".toList), (.node [((.str "size".toList), (.leaf (some 8))), ((.str "sizemode".toList), (.leaf (some 14))), ((.str "pivot".toList), (.leaf (some 25)))])), ((.str "triangle".toList), (.node [((.str "magnetization".toList), (.node [((.str "show".toList), (.leaf (some 5))), ((.str "arrow".toList), (.node [((.str "show".toList), (.leaf (some 5))), ((.str "size".toList), (.leaf (some 8))), ((.str "sizemode".toList), (.leaf (some 14))), ((.str "offset".toList), (.leaf (some 8))), ((.str "width".toList), (.leaf (some 15))), ((.str "style".toList), (.leaf (some 9))), ((.str "color".toList), (.leaf none))])), ((.str "color".toList), (.node [((.str "north".toList), (.leaf (some 16))), ((.str "middle".toList), (.leaf (some 17))), ((.str "south".toList), (.leaf (some 18))), ((.str "transition".toList), (.leaf (some 19))), ((.str "mode".toList), (.leaf (some 20)))])), ((.str "mode".toList), (.leaf (some 6)))])), ((.str "orientation".toList), (.node [((.str "show".toList), (.leaf (some 5))), ((.str "size".toList), (.leaf (some 8))), ((.str "color".toList), (.leaf (some 26))), ((.str "offset".toList), (.leaf (some 27))), ((.str "symbol".toList), (.leaf (some 28)))]))])), ((.str "triangularmesh".toList), (.node [((.str "orientation".toList), (.node [((.str "show".toList), (.leaf (some 12))), ((.str "size".toList), (.leaf (some 8))), ((.str "color".toList), (.leaf (some 26))), ((.str "offset".toList), (.leaf (some 27))), ((.str "symbol".toList), (.leaf (some 28)))])), ((.str "mesh".toList), (.node [((.str "grid".toList), (.node [((.str "show".toList), (.leaf (some 12))), ((.str "line".toList), (.node [((.str "width".toList), (.leaf (some 15))), ((.str "style".toList), (.leaf (some 9))), ((.str "color".toList), (.leaf (some 29)))])), ((.str "marker".toList), (.node [((.str "size".toList), (.leaf (some 8))), ((.str "symbol".toList), (.leaf (some 11))), ((.str "color".toList), (.leaf (some 29)))]))])), ((.str "open".toList), (.node [((.str "show".toList), (.leaf (some 12))), ((.str "line".toList), (.node [((.str "width".toList), (.leaf (some 15))), ((.str "style".toList), (.leaf (some 9))), ((.str "color".toList), (.leaf (some 30)))])), ((.str "marker".toList), (.node [((.str "size".toList), (.leaf (some 8))), ((.str "symbol".toList), (.leaf (some 11))), ((.str "color".toList), (.leaf (some 29)))]))])), ((.str "disconnected".toList), (.node [((.str "show".toList), (.leaf (some 12))), ((.str "line".toList), (.node [((.str "width".toList), (.leaf (some 15))), ((.str "style".toList), (.leaf (some 9))), ((.str "color".toList), (.leaf (some 29)))])), ((.str "marker".toList), (.node [((.str "size".toList), (.leaf (some 4))), ((.str "symbol".toList), (.leaf (some 11))), ((.str "color".toList), (.leaf (some 29)))])), ((.str "colorsequence".toList), (.leaf (some 31)))])), ((.str "selfintersecting".toList), (.node [((.str "show".toList), (.leaf (some 12))), ((.str "line".toList), (.node [((.str "width".toList), (.leaf (some 15))), ((.str "style".toList), (.leaf (some 9))), ((.str "color".toList), (.leaf (some 32)))])), ((.str "marker".toList), (.node [((.str "size".toList), (.leaf (some 8))), ((.str "symbol".toList), (.leaf (some 11))), ((.str "color".toList), (.leaf (some 29)))]))]))]))])), ((.str "markers".toList), (.node [((.str "marker".toList), (.node [((.str "size".toList), (.leaf (some 15))), ((.str "color".toList), (.leaf (some 26))), ((.str "symbol".toList), (.leaf (some 33)))]))]))]))]))])

/-- class table: index 0 is `DefaultSettings`, then the style class of every object class -/
def classes : List ClassInfo := [
  { name := "DefaultSettings".toList, bases := ["DefaultSettings".toList, "MagicProperties".toList, "object".toList], schema := cDefaultSettings },
  { name := "MagnetStyle".toList, bases := ["MagnetStyle".toList, "BaseStyle".toList, "MagicProperties".toList, "MagnetProperties".toList, "object".toList], schema := cMagnetStyle },
  { name := "SensorStyle".toList, bases := ["SensorStyle".toList, "BaseStyle".toList, "MagicProperties".toList, "SensorProperties".toList, "object".toList], schema := cSensorStyle },
  { name := "CurrentStyle".toList, bases := ["CurrentStyle".toList, "BaseStyle".toList, "MagicProperties".toList, "CurrentProperties".toList, "object".toList], schema := cCurrentStyle },
  { name := "DipoleStyle".toList, bases := ["DipoleStyle".toList, "BaseStyle".toList, "MagicProperties".toList, "DipoleProperties".toList, "object".toList], schema := cDipoleStyle },
  { name := "TriangleStyle".toList, bases := ["TriangleStyle".toList, "MagnetStyle".toList, "BaseStyle".toList, "MagicProperties".toList, "MagnetProperties".toList, "TriangleProperties".toList, "object".toList], schema := cTriangleStyle },
  { name := "BaseStyle".toList, bases := ["BaseStyle".toList, "MagicProperties".toList, "object".toList], schema := cBaseStyle },
  { name := "TriangularMeshStyle".toList, bases := ["TriangularMeshStyle".toList, "MagnetStyle".toList, "BaseStyle".toList, "MagicProperties".toList, "MagnetProperties".toList, "TriangleProperties".toList, "TriangularMeshProperties".toList, "object".toList], schema := cTriangularMeshStyle }]

/-- object class name ↦ index of its style class in `classes` -/
def objectClasses : List (String × Nat) := [("Cuboid", 1), ("Sensor", 2), ("Circle", 3), ("Dipole", 4), ("Triangle", 5), ("Collection", 6), ("CustomSource", 6), ("TriangularMesh", 7)]

/-- object class name ↦ its style families, in the order `get_families` (magpylib/_src/style.py) returns them (probed on an instance) -/
def families : List (String × List Str) := [("Cuboid", ["magnet".toList, "cuboid".toList]), ("Sensor", ["sensor".toList]), ("Circle", ["current".toList, "circle".toList]), ("Dipole", ["dipole".toList]), ("Triangle", ["magnet".toList, "triangle".toList]), ("Collection", []), ("CustomSource", ["customsource".toList]), ("TriangularMesh", ["magnet".toList, "triangularmesh".toList])]

end MagpyVerif.Gen.StyleSchema
