-- GENERATED from attribute setters of magpylib/_src/obj_classes/*.py (AST) by /verif/translate/gen.py — do not edit; rewritten on every check run
namespace MagpyVerif.Gen.Attr

structure Row where
  cls : String
  attr : String
  validator : String
  dims : List Nat
  /-- required size of the last axis; -1 = any; 0 = not given -/
  shapeM1 : Int
  length : Nat
  allowNone : Bool
  forbidNegative : Bool
  forbidNegative0 : Bool
  reshape : Bool
  deriving Repr, DecidableEq

def table : List Row := [
  ⟨"BaseCurrent", "current", "check_format_input_scalar", [], 0, 0, true, false, false, false⟩,
  ⟨"BaseGeo", "orientation", "check_format_input_orientation", [], 0, 0, false, false, false, false⟩,
  ⟨"BaseGeo", "position", "check_format_input_vector", [1, 2], 3, 0, false, false, false, true⟩,
  ⟨"BaseMagnet", "magnetization", "check_format_input_vector", [1], 3, 0, true, false, false, false⟩,
  ⟨"BaseMagnet", "polarization", "check_format_input_vector", [1], 3, 0, true, false, false, false⟩,
  ⟨"Circle", "diameter", "check_format_input_scalar", [], 0, 0, true, true, false, false⟩,
  ⟨"Cuboid", "dimension", "check_format_input_vector", [1], 3, 0, true, false, true, false⟩,
  ⟨"Cylinder", "dimension", "check_format_input_vector", [1], 2, 0, true, false, true, false⟩,
  ⟨"CylinderSegment", "dimension", "check_format_input_cylinder_segment", [], 0, 0, false, false, false, false⟩,
  ⟨"Dipole", "moment", "check_format_input_vector", [1], 3, 0, true, false, false, false⟩,
  ⟨"Polyline", "vertices", "check_format_input_vertices", [], 0, 0, false, false, false, false⟩,
  ⟨"Sensor", "pixel", "check_format_input_vector", [], 3, 0, true, false, false, false⟩,
  ⟨"Sphere", "diameter", "check_format_input_scalar", [], 0, 0, true, true, false, false⟩,
  ⟨"Tetrahedron", "vertices", "check_format_input_vector", [2], 3, 4, true, false, false, false⟩,
  ⟨"Triangle", "vertices", "check_format_input_vector", [2], 3, 3, true, false, false, false⟩]

end MagpyVerif.Gen.Attr
