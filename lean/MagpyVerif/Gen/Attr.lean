-- GENERATED from attribute setters of magpylib/_src/obj_classes/*.py and validators of magpylib/_src/input_checks.py (AST) by /verif/translate/gen.py — do not edit; rewritten on every check run
namespace MagpyVerif.Gen.Attr

structure Row where
  cls : String
  attr : String
  validator : String
  dims : List Nat
  /-- required size of the last axis; -1 = any; 0 = not given -/
  shapeM1 : Int
  length : Nat
  allowNone : Bool
  forbidNegative : Bool
  forbidNegative0 : Bool
  reshape : Bool
  deriving Repr, DecidableEq

def table : List Row := [
  ⟨"BaseCurrent", "current", "check_format_input_scalar", [], 0, 0, true, false, false, false⟩,
  ⟨"BaseGeo", "orientation", "check_format_input_orientation", [], 0, 0, false, false, false, false⟩,
  ⟨"BaseGeo", "position", "check_format_input_vector", [1, 2], 3, 0, false, false, false, true⟩,
  ⟨"BaseMagnet", "magnetization", "check_format_input_vector", [1], 3, 0, true, false, false, false⟩,
  ⟨"BaseMagnet", "polarization", "check_format_input_vector", [1], 3, 0, true, false, false, false⟩,
  ⟨"Circle", "diameter", "check_format_input_scalar", [], 0, 0, true, true, false, false⟩,
  ⟨"Cuboid", "dimension", "check_format_input_vector", [1], 3, 0, true, false, true, false⟩,
  ⟨"Cylinder", "dimension", "check_format_input_vector", [1], 2, 0, true, false, true, false⟩,
  ⟨"CylinderSegment", "dimension", "check_format_input_cylinder_segment", [], 0, 0, false, false, false, false⟩,
  ⟨"Dipole", "moment", "check_format_input_vector", [1], 3, 0, true, false, false, false⟩,
  ⟨"Polyline", "vertices", "check_format_input_vertices", [], 0, 0, false, false, false, false⟩,
  ⟨"Sensor", "pixel", "check_format_input_vector", [1, 2, 3, 4, 5, 6, 7, 8, 9, 10, 11, 12, 13, 14, 15, 16, 17, 18, 19], 3, 0, true, false, false, false⟩,
  ⟨"Sphere", "diameter", "check_format_input_scalar", [], 0, 0, true, true, false, false⟩,
  ⟨"Tetrahedron", "vertices", "check_format_input_vector", [2], 3, 4, true, false, false, false⟩,
  ⟨"Triangle", "vertices", "check_format_input_vector", [2], 3, 3, true, false, false, false⟩]

/-- calls of check_format_input_vector inside the composite validators of input_checks.py (attr = calling function) -/
def inner : List Row := [
  ⟨"input_checks", "check_format_input_anchor", "check_format_input_vector", [1, 2], 3, 0, true, false, false, false⟩,
  ⟨"input_checks", "check_format_input_axis", "check_format_input_vector", [1], 3, 0, false, false, false, false⟩,
  ⟨"input_checks", "check_format_input_angle", "check_format_input_vector", [1], -1, 0, false, false, false, false⟩,
  ⟨"input_checks", "check_format_input_vertices", "check_format_input_vector", [2], 3, 0, true, false, false, false⟩,
  ⟨"input_checks", "check_format_input_cylinder_segment", "check_format_input_vector", [1], 5, 0, true, false, false, false⟩]

/-- check_format_input_cylinder_segment: the unpacking, the case conditions and the raise condition, as source text -/
def segConds : List (String × String) := [
  ("unpack", "(r1, r2, h, phi1, phi2) = inp"),
  ("case2", "r1 > r2"),
  ("case3", "phi1 > phi2"),
  ("case4", "phi2 - phi1 > 360"),
  ("case5", "(r1 < 0) | (r2 <= 0) | (h <= 0)"),
  ("raise-if", "case2 | case3 | case4 | case5")]

/-- control-flow skeleton (tests, assignments, raises, returns in source order) of the validators modelled by hand in Model/Validators.lean -/
def skeleton : List (String × List String) := [
  ("is_array_like", ["if not isinstance(inp, (list, tuple, np.ndarray))", "  raise MagpylibBadUserInput"]),
  ("make_float_array", ["try", "  inp_array = np.array(inp, dtype=float)", "except Exception", "  raise MagpylibBadUserInput", "return inp_array"]),
  ("check_array_shape", ["if inp.ndim in dims", "  if shape_m1 == 'any' or inp.shape[-1] == shape_m1", "    if length is None or len(inp) == length", "      return None", "raise MagpylibBadUserInput"]),
  ("check_format_input_scalar", ["if allow_None", "  if inp is None", "    return None", "if not isinstance(inp, numbers.Number)", "  raise MagpylibBadUserInput", "try", "  inp = float(inp)", "except (TypeError, OverflowError)", "  raise MagpylibBadUserInput", "if forbid_negative", "  if inp < 0", "    raise MagpylibBadUserInput", "return inp"]),
  ("check_format_input_vector", ["if allow_None", "  if inp is None", "    return None", "is_array_like(...)", "inp = make_float_array(...)", "check_array_shape(...)", "if isinstance(reshape, tuple)", "  if inp.size == 0", "    raise MagpylibBadUserInput", "  return np.reshape(inp, reshape)", "if forbid_negative0", "  if np.any(inp <= 0)", "    raise MagpylibBadUserInput", "return inp"]),
  ("check_format_input_vector2", ["is_array_like(...)", "inp = make_float_array(...)", "for (d1, d2) in zip(inp.shape, shape)", "  if d2 is not None", "    if d1 != d2", "      raise ValueError", "return inp"]),
  ("check_format_input_vertices", ["inp = check_format_input_vector(...)", "if inp is not None", "  if inp.shape[0] < 2", "    raise MagpylibBadUserInput", "return inp"]),
  ("Sensor.pixel", ["pixel = check_format_input_vector(...)", "if pixel is not None and pixel.size == 0", "  raise MagpylibBadUserInput", "self._pixel = pixel"]),
  ("Sensor.handedness", ["if not (isinstance(val, str) and val in {'right', 'left'})", "  raise MagpylibBadUserInput", "self._handedness = val"])]

end MagpyVerif.Gen.Attr
