-- GENERATED from attribute setters of magpylib/_src/obj_classes/*.py and validators of magpylib/_src/input_checks.py (AST) by /verif/translate/gen.py — do not edit; rewritten on every check run
namespace MagpyVerif.Gen.Attr

structure Row where
  cls : String
  attr : String
  validator : String
  dims : List Nat
  /-- required size of the last axis; -1 = any; 0 = not given -/
  shapeM1 : Int
  length : Nat
  allowNone : Bool
  forbidNegative : Bool
  forbidNegative0 : Bool
  reshape : Bool
  deriving Repr, DecidableEq

def table : List Row := [
  ⟨"BaseCurrent", "current", "check_format_input_scalar", [], 0, 0, true, false, false, false⟩,
  ⟨"BaseGeo", "orientation", "check_format_input_orientation", [], 0, 0, false, false, false, false⟩,
  ⟨"BaseGeo", "position", "check_format_input_vector", [1, 2], 3, 0, false, false, false, true⟩,
  ⟨"BaseMagnet", "magnetization", "check_format_input_vector", [1], 3, 0, true, false, false, false⟩,
  ⟨"BaseMagnet", "polarization", "check_format_input_vector", [1], 3, 0, true, false, false, false⟩,
  ⟨"Circle", "diameter", "check_format_input_scalar", [], 0, 0, true, true, false, false⟩,
  ⟨"Cuboid", "dimension", "check_format_input_vector", [1], 3, 0, true, false, true, false⟩,
  ⟨"Cylinder", "dimension", "check_format_input_vector", [1], 2, 0, true, false, true, false⟩,
  ⟨"CylinderSegment", "dimension", "check_format_input_cylinder_segment", [], 0, 0, false, false, false, false⟩,
  ⟨"Dipole", "moment", "check_format_input_vector", [1], 3, 0, true, false, false, false⟩,
  ⟨"Polyline", "vertices", "check_format_input_vertices", [], 0, 0, false, false, false, false⟩,
  ⟨"Sensor", "pixel", "check_format_input_vector", [1, 2, 3, 4, 5, 6, 7, 8, 9, 10, 11, 12, 13, 14, 15, 16, 17, 18, 19], 3, 0, true, false, false, false⟩,
  ⟨"Sphere", "diameter", "check_format_input_scalar", [], 0, 0, true, true, false, false⟩,
  ⟨"Tetrahedron", "vertices", "check_format_input_vector", [2], 3, 4, true, false, false, false⟩,
  ⟨"Triangle", "vertices", "check_format_input_vector", [2], 3, 3, true, false, false, false⟩]

/-- calls of check_format_input_vector inside the composite validators of input_checks.py (attr = calling function) -/
def inner : List Row := [
  ⟨"input_checks", "check_format_input_anchor", "check_format_input_vector", [1, 2], 3, 0, true, false, false, false⟩,
  ⟨"input_checks", "check_format_input_axis", "check_format_input_vector", [1], 3, 0, false, false, false, false⟩,
  ⟨"input_checks", "check_format_input_angle", "check_format_input_vector", [1], -1, 0, false, false, false, false⟩,
  ⟨"input_checks", "check_format_input_vertices", "check_format_input_vector", [2], 3, 0, true, false, false, false⟩,
  ⟨"input_checks", "check_format_input_cylinder_segment", "check_format_input_vector", [1], 5, 0, true, false, false, false⟩]

/-- check_format_input_cylinder_segment: the unpacking, the case conditions and the raise condition, as source text -/
def segConds : List (String × String) := [
  ("unpack", "(r1, r2, h, phi1, phi2) = inp"),
  ("case2", "r1 > r2"),
  ("case3", "phi1 > phi2"),
  ("case4", "phi2 - phi1 > 360"),
  ("case5", "(r1 < 0) | (r2 <= 0) | (h <= 0)"),
  ("raise-if", "case2 | case3 | case4 | case5")]

/-- control-flow skeleton (tests, assignments, raises, returns in source order) of the validators modelled by hand in Model/Validators.lean -/
def skeleton : List (String × List String) := [
  ("is_array_like", ["if not isinstance(inp, (list, tuple, np.ndarray))", "  raise MagpylibBadUserInput"]),
  ("make_float_array", ["try", "  arr = inp if isinstance(inp, np.ndarray) else np.array(inp)", "  kind = arr.dtype.kind", "  if kind not in 'fiub'", "    if kind != 'O' or not all((isinstance(x, (numbers.Number, np.bool_)) for x in arr.flat))", "      bad = {'O': 'None or other objects that are not numbers', 'U': 'strings', 'S': 'bytes'}.get(...)", "      raise TypeError", "  if arr is inp", "    inp_array = np.array(arr, dtype=float)", "  else", "    inp_array = np.asarray(arr, dtype=float)", "except Exception", "  raise MagpylibBadUserInput", "return inp_array"]),
  ("none_rows_to_nan", ["try", "  arr = np.array(inp)", "  if arr.dtype.kind == 'O' and arr.ndim == 2", "    arr[np.equal(arr, None).all(axis=1)] = np.nan", "except Exception", "  return inp", "return arr"]),
  ("check_array_shape", ["if inp.ndim in dims", "  if shape_m1 == 'any' or inp.shape[-1] == shape_m1", "    if length is None or len(inp) == length", "      return None", "raise MagpylibBadUserInput"]),
  ("check_format_input_scalar", ["if allow_None", "  if inp is None", "    return None", "if not isinstance(inp, numbers.Number)", "  raise MagpylibBadUserInput", "try", "  inp = float(inp)", "except (TypeError, OverflowError)", "  raise MagpylibBadUserInput", "if forbid_negative", "  if inp < 0", "    raise MagpylibBadUserInput", "return inp"]),
  ("check_format_input_vector", ["if allow_None", "  if inp is None", "    return None", "is_array_like(...)", "inp = make_float_array(...)", "check_array_shape(...)", "if isinstance(reshape, tuple)", "  if inp.size == 0", "    raise MagpylibBadUserInput", "  return np.reshape(inp, reshape)", "if forbid_negative0", "  if np.any(inp <= 0)", "    raise MagpylibBadUserInput", "return inp"]),
  ("check_format_input_vector2", ["is_array_like(...)", "inp = make_float_array(...)", "for (d1, d2) in zip(inp.shape, shape)", "  if d2 is not None", "    if d1 != d2", "      raise ValueError", "return inp"]),
  ("check_format_input_vertices", ["if isinstance(inp, (list, tuple))", "  inp = none_rows_to_nan(inp)", "inp = check_format_input_vector(...)", "if inp is not None", "  if inp.shape[0] < 2", "    raise MagpylibBadUserInput", "return inp"]),
  ("check_start_type", ["if not (isinstance(inp, (int, np.integer)) or (isinstance(inp, str) and inp == 'auto'))", "  raise MagpylibBadUserInput"]),
  ("check_degree_type", ["if not isinstance(inp, bool)", "  raise MagpylibBadUserInput"]),
  ("check_field_input", ["allowed = tuple('BHMJ')", "if not (isinstance(inp, str) and inp in allowed)", "  raise MagpylibBadUserInput"]),
  ("check_getBH_output_type", ["acceptable = ('ndarray', 'dataframe')", "if output not in acceptable", "  raise ValueError", "if output == 'dataframe'", "  try", "  except ImportError", "    raise ModuleNotFoundError", "return output"]),
  ("check_format_input_anchor", ["if isinstance(inp, numbers.Number) and inp == 0", "  return np.array((0.0, 0.0, 0.0))", "inp = check_format_input_vector(...)", "if inp is not None and inp.size == 0", "  raise MagpylibBadUserInput", "return inp"]),
  ("check_format_input_angle", ["if isinstance(inp, numbers.Number)", "  try", "    return float(inp)", "  except (TypeError, OverflowError)", "    raise MagpylibBadUserInput", "return check_format_input_vector(inp, dims=(1,), shape_m1='any', sig_name='angle', sig_type='int, float or array_like (list, tuple, ndarray) with shape (n,)')"]),
  ("check_format_input_axis", ["if isinstance(inp, str)", "  if inp == 'x'", "    return np.array((1, 0, 0))", "  if inp == 'y'", "    return np.array((0, 1, 0))", "  if inp == 'z'", "    return np.array((0, 0, 1))", "  raise MagpylibBadUserInput", "inp = check_format_input_vector(...)", "if np.all(inp == 0)", "  raise MagpylibBadUserInput", "return inp"]),
  ("check_format_input_orientation", ["if not isinstance(inp, (Rotation, type(None)))", "  raise MagpylibBadUserInput", "if inp is None", "  inpQ = np.array((0, 0, 0, 1))", "  inp = Rotation.from_quat(inpQ)", "else", "  inpQ = inp.as_quat()", "  if not np.all(np.isfinite(inpQ))", "    raise MagpylibBadUserInput", "if init_format", "  if inpQ.size == 0", "    raise MagpylibBadUserInput", "  return np.reshape(inpQ, (-1, 4))", "return (inp, inpQ)"]),
  ("Sensor.pixel", ["pixel = check_format_input_vector(...)", "if pixel is not None and pixel.size == 0", "  raise MagpylibBadUserInput", "self._pixel = pixel"]),
  ("Sensor.handedness", ["if not (isinstance(val, str) and val in {'right', 'left'})", "  raise MagpylibBadUserInput", "self._handedness = val"])]

end MagpyVerif.Gen.Attr
