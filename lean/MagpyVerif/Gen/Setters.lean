-- GENERATED from setters and constructors of magpylib/_src/obj_classes/class_*.py, getBH_level2, input_checks.py (AST + reflection) by /verif/translate/gen.py — do not edit; rewritten on every check run
import MagpyVerif.Gen.Attr

namespace MagpyVerif.Gen.Setters

/-- statement skeleton of a setter body: call names in evaluation order, assignment targets (attribute / subscript target or local name),
raises, returns, branches and loops -/
inductive Stmt where
  | assign (target : String) (isAttr : Bool) (callees : List String)
  /-- `<loop element>.attr = …`: the target carries the loop's iterable -/
  | assignElem (target : String) (callees : List String)
  /-- `local = obj.attr` (no call): a reference kept for later -/
  | save (loc src : String)
  /-- `obj.attr = local` -/
  | restore (target loc : String)
  | expr (callees : List String)
  | raise (exc : String)
  | ret (callees : List String)
  | ite (testCallees : List String) (thn els : List Stmt)
  | loop (iterCallees : List String) (body : List Stmt)
  /-- `try: body / except <excType>: handler` (one handler, no else / finally) -/
  | tryExcept (body : List Stmt) (excType : String) (handler : List Stmt)
  /-- `self._helper(args)` as a statement, helper defined in the same class: its body -/
  | inline (callee : String) (argCallees : List String) (body : List Stmt)
  | skip (what : String)
  deriving Repr

structure Setter where
  file : String
  cls : String
  attr : String
  param : String
  body : List Stmt
  deriving Repr

/-- every `@x.setter` of magpylib/_src/obj_classes/class_*.py -/
def setters : List Setter := [
  ⟨"class_BaseExcitations.py", "BaseSource", "field_func", "val", [.ite [] [.expr ["validate_field_func"]] [.raise "AttributeError"], .restore "self._field_func" "val"]⟩,
  ⟨"class_BaseExcitations.py", "BaseMagnet", "magnetization", "mag", [.assign "self._magnetization" true ["check_format_input_vector"], .ite [] [.assign "self._polarization" true [], .ret []] [], .assign "self._polarization" true [], .ite ["np.linalg.norm"] [.inline "self._magnetization_low_warning" [] [.expr ["warnings.warn"]]] []]⟩,
  ⟨"class_BaseExcitations.py", "BaseMagnet", "polarization", "mag", [.assign "self._polarization" true ["check_format_input_vector"], .ite [] [.assign "self._magnetization" true [], .ret []] [], .assign "self._magnetization" true []]⟩,
  ⟨"class_BaseExcitations.py", "BaseCurrent", "current", "current", [.assign "self._current" true ["check_format_input_scalar"]]⟩,
  ⟨"class_BaseGeo.py", "BaseGeo", "parent", "inp", [.skip "ImportFrom", .ite ["isinstance"] [.expr ["inp.add"]] [.ite [] [.ite [] [.expr ["self._parent.remove"]] [], .assign "self._parent" true []] [.raise "MagpylibBadUserInput"]]]⟩,
  ⟨"class_BaseGeo.py", "BaseGeo", "position", "inp", [.save "old_pos" "self._position", .assign "self._position" true ["check_format_input_vector"], .assign "oriQ" false ["self._orientation.as_quat"], .assign "self._orientation" true ["pad_slice_path", "R.from_quat"], .loop ["getattr"] [.assign "old_pos" false ["pad_slice_path"], .assign "child_pos" false ["pad_slice_path"], .assign "rel_child_pos" false [], .assignElem "child.position [child in getattr(self, 'children', [])]" []]]⟩,
  ⟨"class_BaseGeo.py", "BaseGeo", "orientation", "inp", [.assign "old_oriQ" false ["self._orientation.as_quat"], .assign "oriQ" false ["check_format_input_orientation"], .assign "self._orientation" true ["R.from_quat"], .assign "self._position" true ["pad_slice_path"], .loop ["getattr"] [.assignElem "child.position [child in getattr(self, 'children', [])]" ["pad_slice_path"], .assign "old_ori_pad" false ["pad_slice_path", "np.squeeze", "R.from_quat"], .expr ["old_ori_pad.inv", "child.rotate"]]]⟩,
  ⟨"class_BaseGeo.py", "BaseGeo", "style", "val", [.assign "self._style" true ["self._validate_style"]]⟩,
  ⟨"class_Collection.py", "BaseCollection", "children", "children", [.ite ["isinstance"] [.assign "children" false []] [], .inline "self._replace_children" ["list"] [.save "old_children" "self._children", .loop [] [.assignElem "child._parent [child in removed]" []], .assign "self._children" true ["any"], .expr ["self._update_src_and_sens"], .tryExcept [.expr ["self.add"]] "Exception" [.restore "self._children" "old_children", .loop [] [.assignElem "child._parent [child in removed]" []], .expr ["self._update_src_and_sens"], .raise ""]]]⟩,
  ⟨"class_Collection.py", "BaseCollection", "sources", "sources", [.assign "src_list" false ["format_obj_input"], .assign "removed" false [], .inline "self._replace_children" [] [.save "old_children" "self._children", .loop [] [.assignElem "child._parent [child in removed]" []], .assign "self._children" true ["any"], .expr ["self._update_src_and_sens"], .tryExcept [.expr ["self.add"]] "Exception" [.restore "self._children" "old_children", .loop [] [.assignElem "child._parent [child in removed]" []], .expr ["self._update_src_and_sens"], .raise ""]]]⟩,
  ⟨"class_Collection.py", "BaseCollection", "sensors", "sensors", [.assign "sens_list" false ["format_obj_input"], .assign "removed" false [], .inline "self._replace_children" [] [.save "old_children" "self._children", .loop [] [.assignElem "child._parent [child in removed]" []], .assign "self._children" true ["any"], .expr ["self._update_src_and_sens"], .tryExcept [.expr ["self.add"]] "Exception" [.restore "self._children" "old_children", .loop [] [.assignElem "child._parent [child in removed]" []], .expr ["self._update_src_and_sens"], .raise ""]]]⟩,
  ⟨"class_Collection.py", "BaseCollection", "collections", "collections", [.expr ["_refuse_non_objects"], .assign "coll_list" false ["format_obj_input"], .assign "removed" false [], .inline "self._replace_children" [] [.save "old_children" "self._children", .loop [] [.assignElem "child._parent [child in removed]" []], .assign "self._children" true ["any"], .expr ["self._update_src_and_sens"], .tryExcept [.expr ["self.add"]] "Exception" [.restore "self._children" "old_children", .loop [] [.assignElem "child._parent [child in removed]" []], .expr ["self._update_src_and_sens"], .raise ""]]]⟩,
  ⟨"class_Sensor.py", "Sensor", "pixel", "pix", [.assign "pixel" false ["range", "check_format_input_vector"], .ite [] [.raise "MagpylibBadUserInput"] [], .restore "self._pixel" "pixel"]⟩,
  ⟨"class_Sensor.py", "Sensor", "handedness", "val", [.ite ["isinstance"] [.raise "MagpylibBadUserInput"] [], .restore "self._handedness" "val"]⟩,
  ⟨"class_current_Circle.py", "Circle", "diameter", "dia", [.assign "self._diameter" true ["check_format_input_scalar"]]⟩,
  ⟨"class_current_Polyline.py", "Polyline", "vertices", "vert", [.assign "self._vertices" true ["check_format_input_vertices"]]⟩,
  ⟨"class_magnet_Cuboid.py", "Cuboid", "dimension", "dim", [.assign "self._dimension" true ["check_format_input_vector"]]⟩,
  ⟨"class_magnet_Cylinder.py", "Cylinder", "dimension", "dim", [.assign "self._dimension" true ["check_format_input_vector"]]⟩,
  ⟨"class_magnet_CylinderSegment.py", "CylinderSegment", "dimension", "dim", [.assign "self._dimension" true ["check_format_input_cylinder_segment"]]⟩,
  ⟨"class_magnet_Sphere.py", "Sphere", "diameter", "dia", [.assign "self._diameter" true ["check_format_input_scalar"]]⟩,
  ⟨"class_magnet_Tetrahedron.py", "Tetrahedron", "vertices", "dim", [.assign "self._vertices" true ["check_format_input_vector"]]⟩,
  ⟨"class_misc_Dipole.py", "Dipole", "moment", "mom", [.assign "self._moment" true ["check_format_input_vector"]]⟩,
  ⟨"class_misc_Triangle.py", "Triangle", "vertices", "val", [.assign "self._vertices" true ["check_format_input_vector"]]⟩]

/-- module-level private functions (`_name`) of the same file that a setter calls: name and statement tree (calls are not followed further;
a recursive call appears under the function's own name) -/
def helpers : List (String × List Stmt) := [("_refuse_non_objects", [.loop ["isinstance"] [.ite ["isinstance"] [.expr ["_refuse_non_objects"]] [.expr ["check_format_input_obj"]]]])]

/-- every named parameter of every `__init__`: (class, parameter, kind, target, via); kind = "setter" (`self.<target> = <parameter>` on a property
with a setter), "plain" (plain attribute), "forward" (passed to `<via>.__init__` as its parameter <target>, bound like Python binds the call),
"call" (argument number / keyword <target> of the call of <via>), "unused" -/
def ctors : List (String × String × String × String × String) := [
  ("BaseSource", "position", "forward", "position", "BaseGeo"),
  ("BaseSource", "orientation", "forward", "orientation", "BaseGeo"),
  ("BaseSource", "field_func", "setter", "field_func", ""),
  ("BaseSource", "style", "forward", "style", "BaseGeo"),
  ("BaseMagnet", "position", "forward", "position", "BaseSource"),
  ("BaseMagnet", "orientation", "forward", "orientation", "BaseSource"),
  ("BaseMagnet", "magnetization", "setter", "magnetization", ""),
  ("BaseMagnet", "polarization", "setter", "polarization", ""),
  ("BaseMagnet", "style", "forward", "style", "BaseSource"),
  ("BaseCurrent", "position", "forward", "position", "BaseSource"),
  ("BaseCurrent", "orientation", "forward", "orientation", "BaseSource"),
  ("BaseCurrent", "current", "setter", "current", ""),
  ("BaseCurrent", "style", "forward", "style", "BaseSource"),
  ("BaseGeo", "position", "call", "0", "self._init_position_orientation"),
  ("BaseGeo", "orientation", "call", "1", "self._init_position_orientation"),
  ("BaseGeo", "style", "call", "style", "self._process_style_kwargs"),
  ("BaseCollection", "override_parent", "call", "override_parent", "self.add"),
  ("Collection", "position", "forward", "position", "BaseGeo"),
  ("Collection", "orientation", "forward", "orientation", "BaseGeo"),
  ("Collection", "override_parent", "forward", "override_parent", "BaseCollection"),
  ("Collection", "style", "forward", "style", "BaseGeo"),
  ("Sensor", "position", "forward", "position", "BaseGeo"),
  ("Sensor", "orientation", "forward", "orientation", "BaseGeo"),
  ("Sensor", "pixel", "setter", "pixel", ""),
  ("Sensor", "handedness", "setter", "handedness", ""),
  ("Sensor", "style", "forward", "style", "BaseGeo"),
  ("Circle", "position", "forward", "position", "BaseCurrent"),
  ("Circle", "orientation", "forward", "orientation", "BaseCurrent"),
  ("Circle", "diameter", "setter", "diameter", ""),
  ("Circle", "current", "forward", "current", "BaseCurrent"),
  ("Circle", "style", "forward", "style", "BaseCurrent"),
  ("Polyline", "current", "forward", "current", "BaseCurrent"),
  ("Polyline", "vertices", "setter", "vertices", ""),
  ("Polyline", "position", "forward", "position", "BaseCurrent"),
  ("Polyline", "orientation", "forward", "orientation", "BaseCurrent"),
  ("Polyline", "style", "forward", "style", "BaseCurrent"),
  ("Cuboid", "position", "forward", "position", "BaseMagnet"),
  ("Cuboid", "orientation", "forward", "orientation", "BaseMagnet"),
  ("Cuboid", "dimension", "setter", "dimension", ""),
  ("Cuboid", "polarization", "forward", "polarization", "BaseMagnet"),
  ("Cuboid", "magnetization", "forward", "magnetization", "BaseMagnet"),
  ("Cuboid", "style", "forward", "style", "BaseMagnet"),
  ("Cylinder", "position", "forward", "position", "BaseMagnet"),
  ("Cylinder", "orientation", "forward", "orientation", "BaseMagnet"),
  ("Cylinder", "dimension", "setter", "dimension", ""),
  ("Cylinder", "polarization", "forward", "polarization", "BaseMagnet"),
  ("Cylinder", "magnetization", "forward", "magnetization", "BaseMagnet"),
  ("Cylinder", "style", "forward", "style", "BaseMagnet"),
  ("CylinderSegment", "position", "forward", "position", "BaseMagnet"),
  ("CylinderSegment", "orientation", "forward", "orientation", "BaseMagnet"),
  ("CylinderSegment", "dimension", "setter", "dimension", ""),
  ("CylinderSegment", "polarization", "forward", "polarization", "BaseMagnet"),
  ("CylinderSegment", "magnetization", "forward", "magnetization", "BaseMagnet"),
  ("CylinderSegment", "style", "forward", "style", "BaseMagnet"),
  ("Sphere", "position", "forward", "position", "BaseMagnet"),
  ("Sphere", "orientation", "forward", "orientation", "BaseMagnet"),
  ("Sphere", "diameter", "setter", "diameter", ""),
  ("Sphere", "polarization", "forward", "polarization", "BaseMagnet"),
  ("Sphere", "magnetization", "forward", "magnetization", "BaseMagnet"),
  ("Sphere", "style", "forward", "style", "BaseMagnet"),
  ("Tetrahedron", "position", "forward", "position", "BaseMagnet"),
  ("Tetrahedron", "orientation", "forward", "orientation", "BaseMagnet"),
  ("Tetrahedron", "vertices", "setter", "vertices", ""),
  ("Tetrahedron", "polarization", "forward", "polarization", "BaseMagnet"),
  ("Tetrahedron", "magnetization", "forward", "magnetization", "BaseMagnet"),
  ("Tetrahedron", "style", "forward", "style", "BaseMagnet"),
  ("TriangularMesh", "position", "forward", "position", "BaseMagnet"),
  ("TriangularMesh", "orientation", "forward", "orientation", "BaseMagnet"),
  ("TriangularMesh", "vertices", "call", "0", "self._input_check"),
  ("TriangularMesh", "faces", "call", "1", "self._input_check"),
  ("TriangularMesh", "polarization", "forward", "polarization", "BaseMagnet"),
  ("TriangularMesh", "magnetization", "forward", "magnetization", "BaseMagnet"),
  ("TriangularMesh", "check_open", "call", "mode", "self.check_open"),
  ("TriangularMesh", "check_disconnected", "call", "mode", "self.check_disconnected"),
  ("TriangularMesh", "check_selfintersecting", "call", "mode", "self.check_selfintersecting"),
  ("TriangularMesh", "reorient_faces", "call", "mode", "self.reorient_faces"),
  ("TriangularMesh", "style", "forward", "style", "BaseMagnet"),
  ("CustomSource", "position", "forward", "position", "BaseSource"),
  ("CustomSource", "orientation", "forward", "orientation", "BaseSource"),
  ("CustomSource", "field_func", "forward", "field_func", "BaseSource"),
  ("CustomSource", "style", "forward", "style", "BaseSource"),
  ("Dipole", "position", "forward", "position", "BaseSource"),
  ("Dipole", "orientation", "forward", "orientation", "BaseSource"),
  ("Dipole", "moment", "setter", "moment", ""),
  ("Dipole", "style", "forward", "style", "BaseSource"),
  ("Triangle", "position", "forward", "position", "BaseMagnet"),
  ("Triangle", "orientation", "forward", "orientation", "BaseMagnet"),
  ("Triangle", "vertices", "setter", "vertices", ""),
  ("Triangle", "polarization", "forward", "polarization", "BaseMagnet"),
  ("Triangle", "magnetization", "forward", "magnetization", "BaseMagnet"),
  ("Triangle", "style", "forward", "style", "BaseMagnet")]

/-- (class, defines its own __init__, class whose __init__ runs) -/
def initOf : List (String × Bool × String) := [("BaseDisplayRepr", false, ""), ("BaseSource", true, "BaseSource"), ("BaseMagnet", true, "BaseMagnet"), ("BaseCurrent", true, "BaseCurrent"), ("BaseGeo", true, "BaseGeo"), ("BaseTransform", false, ""), ("BaseCollection", true, "BaseCollection"), ("Collection", true, "Collection"), ("Sensor", true, "Sensor"), ("Circle", true, "Circle"), ("Loop", true, "Loop"), ("Polyline", true, "Polyline"), ("Line", true, "Line"), ("Cuboid", true, "Cuboid"), ("Cylinder", true, "Cylinder"), ("CylinderSegment", true, "CylinderSegment"), ("Sphere", true, "Sphere"), ("Tetrahedron", true, "Tetrahedron"), ("TriangularMesh", true, "TriangularMesh"), ("CustomSource", true, "CustomSource"), ("Dipole", true, "Dipole"), ("Triangle", true, "Triangle")]

/-- the call of check_format_input_vector in BaseGeo._init_position_orientation (the constructor's path for `position`) -/
def initPosition : Attr.Row := ⟨"BaseGeo", "position", "check_format_input_vector", [1, 2], 3, 0, false, false, false, true⟩
/-- (argument, init_format) of the check_format_input_orientation call in the constructor path / in the orientation setter -/
def initOrientation : String × Bool := ("orientation", true)
def setterOrientation : String × Bool := ("inp", true)

/-- getBH_level2: first occurrence, in source order, of the checks, of the field-function call and of the path assignments -/
def level2Order : List String := ["getBH_dict_level2", "format_src_inputs", "check_dimensions", "check_excitations", "check_format_pixel_agg", "check_format_input_observers", "assign obj._position", "assign obj._orientation", "getBH_level1", "pixel_agg_func", "check_getBH_output_type"]
/-- calls in getBH_level2 / getBH_dict_level2 / getBH_level1 that receive `in_out` as a positional argument (a validator would show here) -/
def inOutChecks : List String := []
/-- `if sumup:` / `if squeeze:` — the flags are used by truth value only -/
def truthTests : List String := ["if squeeze", "if sumup"]

/-- names looked at by check_dimensions / check_excitations, in order -/
def dimNames : List String := ["dimension", "diameter", "vertices"]
def excNames : List String := ["polarization", "current", "moment"]
/-- registered source class: which of those names it has (hasattr), and whether the class has a field function -/
def classAttrs : List (String × List String × List String × Bool) := [("Circle", ["diameter"], ["current"], true), ("Cuboid", ["dimension"], ["polarization"], true), ("CustomSource", [], [], false), ("Cylinder", ["dimension"], ["polarization"], true), ("CylinderSegment", ["dimension"], ["polarization"], true), ("Dipole", [], ["moment"], true), ("Line", ["vertices"], ["current"], true), ("Loop", ["diameter"], ["current"], true), ("Polyline", ["vertices"], ["current"], true), ("Sphere", ["diameter"], ["polarization"], true), ("Tetrahedron", ["vertices"], ["polarization"], true), ("Triangle", ["vertices"], ["polarization"], true), ("TriangularMesh", ["vertices"], ["polarization"], true)]

/-- TriangularMesh._validate_mode_arg: the accepted values (repr) and the methods that call it -/
def modeValues : List String := ["True", "False", "'warn'", "'raise'", "'ignore'", "'skip'"]
def modeUsers : List String := ["check_disconnected", "check_open", "check_selfintersecting", "reorient_faces"]

/-- statement skeletons of the validators of call arguments modelled in Model/CallArgs.lean -/
def skeleton : List (String × List String) := [
  ("check_format_pixel_agg", ["if pixel_agg is None", "  return None", "try", "  pixel_agg_func = getattr(np, pixel_agg)", "except AttributeError", "  raise AttributeError", "x = np.array([[[(1, 2, 3)] * 2] * 3] * 4)", "if not isinstance(pixel_agg_func(x), numbers.Number)", "  raise AttributeError", "return pixel_agg_func"]),
  ("validate_field_func", ["if val is None", "  return None", "if not callable(val)", "  raise MagpylibBadUserInput", "fn_args = inspect.getfullargspec(val).args", "if fn_args[:2] != ['field', 'observers']", "  raise MagpylibBadUserInput", "for field in ['B', 'H']", "  out = val(...)", "  if out is not None", "    if not isinstance(out, np.ndarray)", "      raise MagpylibBadUserInput", "    if out.shape != (2, 3)", "      raise MagpylibBadUserInput", "return None"]),
  ("check_dimensions", ["for src in sources", "  for arg in ('dimension', 'diameter', 'vertices')", "    if hasattr(src, arg)", "      if getattr(src, arg) is None", "        raise MagpylibMissingInput"]),
  ("check_excitations", ["for src in sources", "  for arg in ('polarization', 'current', 'moment')", "    if hasattr(src, arg)", "      if getattr(src, arg) is None", "        raise MagpylibMissingInput"]),
  ("TriangularMesh._validate_mode_arg", ["accepted_arg_vals = (True, False, 'warn', 'raise', 'ignore', 'skip')", "if arg not in accepted_arg_vals", "  raise ValueError", "arg = 'warn' if arg is True else 'skip' if arg is False else arg", "return arg"]),
  ("BaseGeo._process_style_kwargs", ["if kwargs", "  style = {} if style is None else dict(style)", "  style_kwargs = {}", "  for (k, v) in kwargs.items()", "    if k.startswith('style_')", "      style_kwargs[k[6:]] = v", "    else", "      raise TypeError", "  style.update(...)", "return style"]),
  ("BaseGeo._validate_style", ["val = {} if val is None else val", "style = self.style", "if isinstance(val, dict)", "  style.update(...)", "else", "  if not isinstance(val, self._style_class)", "    raise ValueError", "return style"]),
  ("point_inside (in_out tests)", ["if in_out == 'inside'", "if in_out == 'outside'"]),
  ("BHJM_magnet_trimesh (in_out tests)", ["if in_out == 'auto'", "if in_out == 'inside'"])]

end MagpyVerif.Gen.Setters
