-- GENERATED from magpylib/_src/fields/*.py (numeric literals and comparison operators of the ported kernels) by /verif/translate/gen.py — do not edit; rewritten on every check run
namespace MagpyVerif.Gen.Tol

/-- (function, numeric literals in source order, comparison operators in source order) -/
def table : List (String × List String × List String) := [
  ("field_BH_dipole.dipole_Hfield", ["5", "4", "0.0"], ["=="]),
  ("field_BH_dipole.BHJM_dipole", [], ["==", "=="]),
  ("field_BH_sphere.magnet_sphere_Bfield", [], []),
  ("field_BH_sphere.BHJM_magnet_sphere", ["0.0", "0.0", "5"], [">", "==", "==", "==", "=="]),
  ("field_BH_polyline.current_polyline_Hfield", ["1e-15", "4", "4"], ["<", ">", ">", ">", ">"]),
  ("field_BH_polyline.BHJM_current_polyline", [], ["==", "==", "=="]),
  ("field_BH_polyline.current_vertices_field", [], ["=="]),
  ("field_BH_cuboid.magnet_cuboid_Bfield", ["4"], ["<", ">", ">"]),
  ("field_BH_cuboid.BHJM_magnet_cuboid", ["1e-15"], ["==", "==", "==", "<", "<", "<", "<", "<", "<", "==", "==", "==", "=="]),
  ("field_BH_triangle.norm_vector", [], []),
  ("field_BH_triangle.solid_angle", ["2.0", "6.2831853"], [">"]),
  ("field_BH_triangle.triangle_Bfield", ["1e-30", "4.0"], ["==", "<", "<=", "<", ">", ">=", "<"]),
  ("field_BH_triangle.BHJM_triangle", ["0.0"], ["==", "==", "==", "=="]),
  ("field_BH_tetrahedron.check_chirality", [], ["<"]),
  ("field_BH_tetrahedron.point_inside", [], ["==", "==", "!=", ">=", "<=", "<="]),
  ("field_BH_tetrahedron.BHJM_magnet_tetrahedron", ["4", "4"], ["==", "==", "==", "=="]),
  ("field_BH_circle.current_circle_Hfield", ["4", "20", "1e-06", "795774.7154594767"], []),
  ("field_BH_circle.BHJM_circle", ["1e-15", "1e-15", "0.5"], ["==", "<", "<", "==", "==", "=="]),
  ("special_cel.cel0", ["1e-06", "1.0", "1.0", "1.0"], ["==", ">", ">"]),
  ("special_cel.cel_iter0", ["1e-08", "1.5707963267948966"], [">="]),
  ("special_cel.cel_iterv", ["1e-08", "1.5707963267948966"], [">="]),
  ("special_cel.cel_iter", ["15"], ["<"]),
  ("special_cel.cel", ["10"], ["<"]),
  ("field_BH_triangularmesh.mask_inside_enclosing_box", ["1e-12"], ["<", ">", "<", ">", "<", ">"]),
  ("field_BH_triangularmesh.mask_inside_trimesh", ["12.0012345", "5.9923456", "6.9932109"], []),
  ("field_BH_triangularmesh.lines_end_in_trimesh", ["1e-16", "1e-07", "1e-12"], [">", "<", "<", "!=", "<", "<", "<", "==", "==", "!="]),
  ("field_BH_triangularmesh.is_facet_inwards", ["1e-05"], []),
  ("field_BH_triangularmesh.BHJM_magnet_trimesh", [], ["!=", "==", "==", "==", "!=", "==", "==", "==", "==", "=="]),
  ("field_BH_cylinder.magnet_cylinder_axial_Bfield", [], []),
  ("field_BH_cylinder.magnet_cylinder_diametral_Hfield", ["0.05", "8", "4", "4", "4", "4", "64", "4", "9", "25", "4", "5", "4", "8", "4", "4", "15", "64", "12", "8", "5", "12", "8", "5", "4", "4", "1e+16", "4", "4", "4"], ["<", "=="]),
  ("field_BH_cylinder.BHJM_magnet_cylinder", ["1e-15", "1e-15"], ["<=", "<=", "==", "==", "!=", "!=", "!=", "==", "==", "==", "==", "=="]),
  ("utility.cart_to_cyl_coordinates", [], []),
  ("utility.cyl_field_to_cart", [], [])]

end MagpyVerif.Gen.Tol
