-- GENERATED from magpylib/_src/obj_classes/class_BaseExcitations.py:BaseMagnet (AST) and magpylib.mu_0 by /verif/translate/gen.py — do not edit; rewritten on every check run
import MagpyVerif.Model.ExcBase
namespace MagpyVerif.Gen.ExcSync
open MagpyVerif.Exc

/-- magnetization setter (line 432): `self._polarization = self._magnetization <op> (4 * np.pi * 1e-07)` -/
def magToPolOp : BinOp := .mul
def magToPolConst : CExpr := (.mul (.mul (.nat 4) .pi) (.dec 1 7))
/-- the value of that expression as Python computes it (bit pattern of the double) -/
def magToPolBits : UInt64 := 4518541127365293771

/-- polarization setter (line 455): `self._magnetization = self._polarization <op> (4 * np.pi * 1e-07)` -/
def polToMagOp : BinOp := .div
def polToMagConst : CExpr := (.mul (.mul (.nat 4) .pi) (.dec 1 7))
def polToMagBits : UInt64 := 4518541127365293771

/-- the exported `magpylib.mu_0`: bit pattern and exact value as a quotient of integers -/
def exportedBits : UInt64 := 4518541127364510249
def exportedNum : Nat := 5934300739273257
def exportedDen : Nat := 4722366482869645213696

/-- `if np.linalg.norm(self._magnetization) < THRESHOLD: self._magnetization_low_warning()` -/
def warnThreshold : Nat := 2000
def warnCategory : String := "MagpylibDeprecationWarning"

/-- the statements of the two setters, of the getters and of `BaseMagnet.__init__`, in source order -/
def magSetter : List String := ["_magnetization := check_format_input_vector(arg, allow_None=True, dims=(1,), shape_m1=3)", "if _magnetization is None: _polarization := None; return", "_polarization := _magnetization mul CONST", "if norm(_magnetization) < THRESHOLD: warn"]
def polSetter : List String := ["_polarization := check_format_input_vector(arg, allow_None=True, dims=(1,), shape_m1=3)", "if _polarization is None: _magnetization := None; return", "_magnetization := _polarization div CONST"]
def getters : List String := ["polarization: return self._polarization", "magnetization: return self._magnetization"]
def init : List String := ["super().__init__", "_polarization := None", "_magnetization := None", "if magnetization is not None: self.magnetization = magnetization; if polarization is not None: raise ValueError", "if polarization is not None: self.polarization = polarization"]

end MagpyVerif.Gen.ExcSync
