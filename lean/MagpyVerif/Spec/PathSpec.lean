/-
Spec/PathSpec.lean — the documented move/rotate semantics (docstring "General move/rotate
behavior" of BaseTransform.move / .rotate), written as an index function, independently of the
code's pad-then-slice-assign structure.

  * `start` counts from the end when negative; 'auto' = 0 for scalar input, = len(path) for vector input
  * the old path is edge-padded wherever the input reaches beyond it (in front when start < -N)
  * scalar input is applied to every entry from `start`; vector input of length L to L entries from `start`
-/
import MagpyVerif.Model.Basic

namespace MagpyVerif.Spec

/-- numpy convention for the start index (may still be negative: reaches before the path) -/
def normStart (scalar : Bool) (n : Int) : Option Int → Int
  | none => if scalar then 0 else n
  | some s => if s < 0 then n + s else s

structure Window where
  /-- entries padded in front -/
  b : Nat
  /-- first affected index of the new path -/
  s0 : Nat
  /-- length of the new path -/
  newLen : Nat
  /-- one past the last affected index -/
  stop : Nat
  deriving Repr, DecidableEq

def window (scalar : Bool) (N L : Nat) (start : Option Int) : Window :=
  let s := normStart scalar N start
  let b := (-s).toNat
  let s0 := s.toNat
  let newLen := max (N + b) (s0 + (if scalar then 1 else L))
  { b := b, s0 := s0, newLen := newLen, stop := if scalar then newLen else s0 + L }

/-- old entry that new index `i` is based on (edge padding = clamping) -/
def baseAt {α : Type} (old : List α) (w : Window) (i : Nat) : Option α :=
  if i < w.newLen then old[min (i - w.b) (old.length - 1)]? else none

/-- entry `i` of the documented result of applying `op input_k` entrywise from `start` -/
def applyAt {α β : Type} (op : β → α → α) (inp : PathIn β) (start : Option Int) (old : List α)
    (i : Nat) : Option α :=
  let w := window inp.isScalar old.length inp.lenip start
  (baseAt old w i).map fun base =>
    if w.s0 ≤ i ∧ i < w.stop then
      match inp.get? (i - w.s0) with
      | some d => op d base
      | none => base
    else base

/-- broadcasting of rotation input against anchor input ("if one is longer than the other pad up
the other"): entry used at step `k` -/
def bcast {α : Type} : PathIn α → Nat → Option α
  | .scalar x, _ => some x
  | .vector xs, k => xs[min k (xs.length - 1)]?

/-- documented result of `rotate(rot, anchor, start)` on a childless / top-level object:
orientation `R_k * old`, position `R_k (p - a_k) + a_k`, unchanged position when no anchor. -/
def rotateAt {G V : Type} [Mul G] [SMul G V] [Add V] [Sub V]
    (rot : PathIn G) (anchor : Option (PathIn V)) (start : Option Int)
    (pos : List V) (ori : List G) (i : Nat) : Option V × Option G :=
  let scalar := rot.isScalar && (match anchor with | some a => a.isScalar | none => true)
  let L := max rot.len0 (match anchor with | some a => a.len0 | none => 0)
  let w := window scalar pos.length L start
  let inWin := w.s0 ≤ i ∧ i < w.stop
  let k := i - w.s0
  ( (baseAt pos w i).map fun p =>
      if inWin then
        match anchor with
        | none => p
        | some a => match bcast rot k, bcast a k with
                    | some r, some c => r • (p - c) + c
                    | _, _ => p
      else p,
    (baseAt ori w i).map fun q =>
      if inWin then (match bcast rot k with | some r => r * q | none => q) else q )

end MagpyVerif.Spec
